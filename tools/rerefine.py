#!/usr/bin/env python3
"""Re-register every refinement module after tools/mkties.py changed which property owns which Tie obligation."""
import json, os, re, subprocess
V = os.path.dirname(os.path.dirname(os.path.abspath(__file__)))
P = json.load(open(os.path.join(V, "props.json")))
mods = {}
for p in P:
    for t in P[p]["theorems"]:
        if t["module"].startswith("FlytModel.Refine.") and "**Source refinement.**" in t.get("doc", ""):
            m = re.search(r"\) in (.*): it computes exactly", t["doc"], re.S)
            if m:
                mods.setdefault(t["module"], (t["name"].rsplit(".", 1)[0], m.group(1)))
for mod, (ns, world) in sorted(mods.items()):
    print(mod, subprocess.run(["python3", os.path.join(V, "tools/mkrefine.py"), mod, ns, world], capture_output=True, text=True).stdout.strip().splitlines()[-1])
