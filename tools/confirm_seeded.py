#!/usr/bin/env python3
"""Confirm every seeded change produced by the independent sub-agents and file it under /verif/seeded/.
For each /tmp/wt/<Cnn>/_out/<mut>/: in a scratch clone of /repo (outside /repo and /verif):
  (a) clean tree + demo test  -> must PASS
  (b) patched tree + the repository's own tests (demo absent) -> must PASS, go build + go vet clean
  (c) patched tree + demo -> must FAIL
Only then is it kept as /verif/seeded/<Cnn>-<mut>/{patch.diff, demo_test.go, meta.json}."""
import glob, json, os, re, shutil, subprocess, sys
ENV = dict(os.environ, GOFLAGS="-mod=mod", GOPROXY="off", GOSUMDB="off", GOTOOLCHAIN="local")
def sh(cmd, cwd, timeout=600):
    p = subprocess.run(cmd, cwd=cwd, env=ENV, shell=True, stdout=subprocess.PIPE, stderr=subprocess.STDOUT, text=True, timeout=timeout)
    return p.returncode, p.stdout
props = {json.loads(l)["id"]: json.loads(l) for l in open("/verif/properties.jsonl")}
only = sys.argv[1:]
for d in sorted(glob.glob("/tmp/wt/C*/_out/mut*")):
    pid = d.split("/")[3]; mut = os.path.basename(d)
    if only and pid not in only: continue
    dest = "/verif/seeded/%s-%s" % (pid, mut)
    if os.path.exists(os.path.join(dest, "meta.json")): continue
    patch = os.path.join(d, "patch.diff"); demo = os.path.join(d, "demo_test.go")
    if not (os.path.exists(patch) and os.path.exists(demo)): print(pid, mut, "incomplete"); continue
    c = "/tmp/seedconfirm/%s-%s" % (pid, mut)
    shutil.rmtree(c, ignore_errors=True); os.makedirs(os.path.dirname(c), exist_ok=True)
    sh("git clone -q /repo %s" % c, "/tmp")
    head = sh("git rev-parse --short HEAD", c)[1].strip()
    meta = {"property": pid, "mutation": mut, "repo_head": head, "title": props[pid]["title"]}
    shutil.copy(demo, os.path.join(c, "zz_seeded_demo_test.go"))
    rc, out = sh("go test -count=1 -timeout 300s -run . . 2>&1 | tail -5", c)
    a_ok = "ok  " in out and "FAIL" not in out
    meta["a_clean_plus_demo"] = "PASS" if a_ok else "FAIL: " + out[-400:]
    os.remove(os.path.join(c, "zz_seeded_demo_test.go"))
    rc, out = sh("git apply --3way %s 2>&1 || git apply %s 2>&1" % (patch, patch), c)
    if sh("git diff HEAD --stat", c)[1].strip() == "":
        meta["apply"] = "DOES NOT APPLY: " + out[-300:]; print(pid, mut, meta["apply"]); shutil.rmtree(c); continue
    sh("git reset -q", c)
    diff = sh("git diff", c)[1]
    rc1, o1 = sh("go build ./... 2>&1 && go vet . 2>&1 | tail -3", c)
    rc2, o2 = sh("go test -count=1 -timeout 300s . 2>&1 | tail -3", c)
    b_ok = rc1 == 0 and "ok  " in o2 and "FAIL" not in o2
    meta["b_patched_existing_tests"] = "PASS" if b_ok else "FAIL: " + (o1 + o2)[-400:]
    shutil.copy(demo, os.path.join(c, "zz_seeded_demo_test.go"))
    rc, out = sh("go test -count=1 -timeout 300s -run . . 2>&1 | tail -15", c)
    c_ok = "FAIL" in out or "panic" in out
    meta["c_patched_plus_demo"] = ("FAIL (as required): " if c_ok else "UNEXPECTED PASS: ") + out[-500:]
    notes = open(os.path.join(d, "notes.md")).read() if os.path.exists(os.path.join(d, "notes.md")) else ""
    meta["needs_to_manifest"] = notes[:1500]
    meta["confirmed"] = bool(a_ok and b_ok and c_ok)
    meta["ran"] = ["git clone /repo (scratch, removed afterwards)", "go test -count=1 . with the demo on the clean tree",
                   "git apply patch.diff; go build ./...; go vet .; go test -count=1 . (existing tests only)",
                   "go test -count=1 . with the demo on the patched tree"]
    print(pid, mut, "confirmed" if meta["confirmed"] else "NOT CONFIRMED", meta["a_clean_plus_demo"][:20], meta["b_patched_existing_tests"][:20], meta["c_patched_plus_demo"][:25])
    if meta["confirmed"]:
        os.makedirs(dest, exist_ok=True)
        open(os.path.join(dest, "patch.diff"), "w").write(diff)
        shutil.copy(demo, os.path.join(dest, "demo_test.go"))
        json.dump(meta, open(os.path.join(dest, "meta.json"), "w"), indent=1)
    shutil.rmtree(c, ignore_errors=True)
