#!/usr/bin/env python3
"""Turn a mutsweep log into seeded/RESULTS.json (what each seeded change's quick check reported)."""
import json, re, sys, os
res = {}
path = "/verif/seeded/RESULTS.json"
if os.path.exists(path): res = json.load(open(path))
for line in open(sys.argv[1]):
    m = re.match(r"(C\d+-mut\w+) (\d+)s :: (.*)", line.strip())
    if not m: continue
    name, secs, out = m.group(1), int(m.group(2)), m.group(3)
    if "VIOLATION" in out:
        how = "no-failing-input-found (broken obligation / disagreement)" if "no-failing-input-found" in out else (
              "free-running search witness" if "-witness-" in out else "concrete failing input (spec false on the implementation)")
        res[name] = {"verdict": "caught", "how": how, "seconds": secs}
    elif "held on" in out:
        res[name] = {"verdict": "MISSED", "how": "", "seconds": secs}
    else:
        res[name] = {"verdict": "?", "how": out[:80], "seconds": secs}
json.dump(res, open(path, "w"), indent=1, sort_keys=True)
print(len(res), "results;", sum(1 for v in res.values() if v["verdict"] == "caught"), "caught;", [k for k, v in res.items() if v["verdict"] != "caught"])
