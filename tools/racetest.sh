#!/bin/bash
# usage: tools/racetest.sh <root> <workdir>
# Runs harness/racetest under the race detector against the repository the check is using
# (<workdir>/alt.mod exists when FLYT_REPO points somewhere else than /repo). Last line of stdout is a
# JSON object for the evidence; exit status 0 iff the package passes.
root=$1; workdir=$2
export GOFLAGS=-mod=mod GOPROXY=off GOSUMDB=off GOTOOLCHAIN=local CGO_ENABLED=1
mod=()
if [ -n "$workdir" ] && [ -f "$workdir/alt.mod" ]; then mod=(-modfile="$workdir/alt.mod"); fi
cd "$root/harness" || { echo '{"racetest":"no harness dir"}'; exit 2; }
out=$(go test -race "${mod[@]}" -count=1 -timeout 300s ./racetest/ 2>&1)
rc=$?
races=$(printf '%s\n' "$out" | grep -c 'WARNING: DATA RACE')
printf '%s\n' "$out" | tail -40
if [ $rc -eq 0 ]; then
  echo "{\"racetest\":\"pass\",\"data_races\":$races}"
else
  first=$(printf '%s\n' "$out" | grep -A12 -m1 'WARNING: DATA RACE' | tr '\n' ' ' | tr -d '"\\' | cut -c1-900)
  echo "{\"racetest\":\"FAIL\",\"data_races\":$races,\"first_report\":\"$first\"}"
fi
exit $rc
