#!/usr/bin/env python3
"""Regenerate MANIFEST.json from props.json (claimed properties) and properties.jsonl."""
import json, os
ROOT = os.path.dirname(os.path.dirname(os.path.abspath(__file__)))
P = json.load(open(os.path.join(ROOT, "props.json")))
ids = [json.loads(l)["id"] for l in open(os.path.join(ROOT, "properties.jsonl"))]
BASE = json.load(open("/root/.vp/BASELINE.json"))["cmd"] if os.path.exists("/root/.vp/BASELINE.json") else ""
checks = []
for i in ids:
    if i not in P or P[i].get("unclaimed"):
        continue
    c = P[i]
    checks.append({
        "property_id": i,
        "quick_cmd": "./check %s quick" % i,
        "thorough_cmd": "./check %s thorough" % i,
        "evidence_file": "/verif/evidence/%s.json" % i,
        "replay_cmd_template": "./check %s --replay {path}" % i,
        "engine": "lean-proof+correspondence",
        "level_claimed": {"category": "proof", "text": c.get("level_text", "theorems for all inputs / schedules of the model (DESIGN 0.7 lists them per property); model-to-code tie checked, not proved (DESIGN 9: trusted base)"), "design_ref": c.get("design_ref", "DESIGN.md section 5, " + i)},
        "level_note": c.get("level_note", ""),
        "technique": c.get("technique", "machine-checked proof in Lean 4: property theorems (kernel-checked, #print-axioms audited on every run) about an executable model; the model is tied to /repo's current source on every run by (a) a translator (source -> GoIR terms, `rfl` Tie obligations, refinement theorems interpretation-of-source = model) and (b) a differential correspondence check (real code vs compiled Lean model on generated scenarios); searches only look for the failing input"),
    })
na = [{"property_id": i, "reason": P.get(i, {}).get("unclaimed", "check not built yet in this round (planned, see DESIGN.md section 13)")}
      for i in ids if i not in P or P[i].get("unclaimed")]
M = {
    "version": 1,
    "setup_cmd": "./check setup",
    "hooks": {"guard": "verif", "enable": "go build -tags verif (the harness module replaces github.com/mark3labs/flyt with /repo); no hook files are needed in /repo",
              "baseline_off_cmd": BASE, "source_commits": [], "add_only": True},
    "engines": [
        {"name": "lean-model", "path": "lean/", "serves_properties": [c["property_id"] for c in checks],
         "kind_free_text": "Lean 4 executable model (FlytModel/Model), property predicates (FlytModel/Spec), theorems (FlytModel/Props), compiled driver flytdriver"},
        {"name": "go-harness", "path": "harness/", "serves_properties": [c["property_id"] for c in checks],
         "kind_free_text": "scenario generators + instrumented real flyt nodes; emits scenario/observation lines for the driver"},
        {"name": "fact-extractor", "path": "extract/", "serves_properties": [i for i in ("C04", "C12", "C13", "C08") if i in P],
         "kind_free_text": "go/ast+go/types translator regenerating Lean facts (lock discipline, pool skeleton, %w sites) from /repo on every run"},
    ],
    "checks": checks,
    "not_applicable": na,
    "notes": "All checks rebuild the harness from /repo's working tree and re-check the Lean theorems on every run. Known findings: known_findings.json.",
}
json.dump(M, open(os.path.join(ROOT, "MANIFEST.json"), "w"), indent=1)
print("claimed:", [c["property_id"] for c in checks], "not claimed:", [x["property_id"] for x in na])
