#!/usr/bin/env python3
"""Register the refinement theorems of a `Refine/<X>.lean` module in props.json: every theorem `<func>[_closure|_wrapper]_refines_of_le`
is listed under the properties that list the `Tie.<func>` obligation (the function's behaviour is part of those properties).

  tools/mkrefine.py FlytModel.Refine.Config Flyt.Refine.Config "<what the world is, one sentence>"
"""
import json, os, re, sys
V = os.path.dirname(os.path.dirname(os.path.abspath(__file__)))
module, ns, world = sys.argv[1], sys.argv[2], sys.argv[3]
src = open(os.path.join(V, "lean", module.replace(".", "/") + ".lean")).read()
P = json.load(open(os.path.join(V, "props.json")))
SUFFIX = r"(_refines_of_le|_general_of_le|_anyorder_of_le|_disciplined|_sequence_refines|_runWithDefers|_blocks|_labels|_of_le_val|_one_go|_clamp_first|_tasks_cap|_spawnLoop|_body)$"
names = [n for n in re.findall(r"^theorem (\w+)\b", src, re.M) if re.search(SUFFIX, n)]
ties = sorted({t["name"].split(".")[-1] for p in P for t in P[p]["theorems"] if t["name"].startswith("Flyt.Tie.")}, key=len, reverse=True)
added = {}
for p in P:
    P[p]["theorems"] = [t for t in P[p]["theorems"] if t["module"] != module]
for n in names:
    func = next((f for f in ties if n == f or n.startswith(f + "_")), None)
    if func is None:
        alias = {"Submit_labels": "WorkerPool_Submit", "Wait_labels": "WorkerPool_Wait", "Close_labels": "WorkerPool_Close",
                 "worker_labels": "WorkerPool_worker", "worker_iteration_labels": "WorkerPool_worker", "wrapper_labels": "WorkerPool_Submit"}
        func = alias.get(n)
    if func is None:
        print("no Tie obligation matches", n, "(not registered)")
        continue
    tie = "Flyt.Tie." + func
    owners = [p for p in P if any(t["name"] == tie for t in P[p]["theorems"])]
    doc = ("**Source refinement.** About the GoIR interpretation of the translated source of `%s` (Expected.IR, tied to the current source "
           "by `Tie.%s`) in %s: it computes exactly what the hand-written model says, for ALL inputs and every sufficient fuel "
           "(statement: `%s.%s`)." % (func.replace("_", "."), func, world, ns, n))
    for p in owners:
        P[p]["theorems"].append({"module": module, "name": ns + "." + n, "doc": doc})
        added[p] = added.get(p, 0) + 1
json.dump(P, open(os.path.join(V, "props.json"), "w"), indent=1)
print("registered", len(names), "theorems:", added)
