#!/usr/bin/env python3
"""Register the refinement theorems of a `Refine/<X>.lean` module in props.json: every theorem `<func>[_closure|_wrapper]_refines_of_le`
is listed under the properties that list the `Tie.<func>` obligation (the function's behaviour is part of those properties).

  tools/mkrefine.py FlytModel.Refine.Config Flyt.Refine.Config "<what the world is, one sentence>"
"""
import json, os, re, sys
V = os.path.dirname(os.path.dirname(os.path.abspath(__file__)))
module, ns, world = sys.argv[1], sys.argv[2], sys.argv[3]
src = open(os.path.join(V, "lean", module.replace(".", "/") + ".lean")).read()
P = json.load(open(os.path.join(V, "props.json")))
names = re.findall(r"^theorem (\w+_refines_of_le)\b", src, re.M)
added = {}
for p in P:
    P[p]["theorems"] = [t for t in P[p]["theorems"] if t["module"] != module]
for n in names:
    func = re.sub(r"(_closure|_wrapper|_builder_wrapper)?_refines_of_le$", "", n)
    tie = "Flyt.Tie." + func
    owners = [p for p in P if any(t["name"] == tie for t in P[p]["theorems"])]
    if not owners:
        print("no Tie obligation for", func, "(theorem %s not registered)" % n)
        continue
    doc = ("**Source refinement.** The GoIR interpretation of the translated source of `%s` (Expected.IR, tied to the current source "
           "by `Tie.%s`) in %s computes exactly the hand-written model's function, for ALL inputs and every sufficient fuel "
           "(statement: `%s.%s`)." % (func.replace("_", "."), func, world, ns, n))
    for p in owners:
        P[p]["theorems"].append({"module": module, "name": ns + "." + n, "doc": doc})
        added[p] = added.get(p, 0) + 1
json.dump(P, open(os.path.join(V, "props.json"), "w"), indent=1)
print("registered", len(names), "theorems:", added)
