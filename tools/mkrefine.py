#!/usr/bin/env python3
"""Register the refinement theorems of a `Refine/<X>.lean` module in props.json: every theorem `<func>[_closure|_wrapper]_refines_of_le`
is listed under the properties that list the `Tie.<func>` obligation (the function's behaviour is part of those properties).

  tools/mkrefine.py FlytModel.Refine.Config Flyt.Refine.Config "<what the world is, one sentence>"
"""
import json, os, re, sys
V = os.path.dirname(os.path.dirname(os.path.abspath(__file__)))
module, ns, world = sys.argv[1], sys.argv[2], sys.argv[3]
src = open(os.path.join(V, "lean", module.replace(".", "/") + ".lean")).read()
P = json.load(open(os.path.join(V, "props.json")))
SUFFIX = r"(_refines_of_le|_general_of_le|_anyorder_of_le|_disciplined|_sequence_refines|_runWithDefers|_blocks|_labels|_of_le_val|_one_go|_clamp_first|_tasks_cap|_spawnLoop|_body|_matches_init|_over_interpreted_\w+|_eq_runNode)$"
names = [n for n in re.findall(r"^theorem ([\w']+)", src, re.M) if re.search(SUFFIX, n)]
ties = sorted({t["name"].split(".")[-1] for p in P for t in P[p]["theorems"] if t["name"].startswith("Flyt.Tie.")}, key=len, reverse=True)
added = {}
mine = {ns + "." + n for n in names}
for p in P:   # theorems of this module registered by hand under other names are kept
    P[p]["theorems"] = [t for t in P[p]["theorems"] if not (t["module"] == module and t["name"] in mine)]
for n in names:
    func = next((f for f in ties if n == f or n.startswith(f + "_")), None)
    alias = {"Submit_labels": "WorkerPool_Submit", "Wait_labels": "WorkerPool_Wait", "Close_labels": "WorkerPool_Close",
             "worker_labels": "WorkerPool_worker", "worker_iteration_labels": "WorkerPool_worker", "wrapper_labels": "WorkerPool_Submit",
             "deepRun_eq_runNode": "Run Flow_Exec", "FlowExec_over_interpreted_leaves": "Flow_Exec Run",
             "Run_over_interpreted_FlowExec": "Run Flow_Exec", "Run_over_interpreted_FlowExec_over_leaves": "Run Flow_Exec",
             "fullRun_eq_runNode": "Run Flow_Exec runBatch runBatchSequential runExecWithRetries",
             "fullRunCanon_eq_runNode": "Run Flow_Exec runBatch runBatchSequential runExecWithRetries",
             "fullRun'_eq_runNode": "Run Flow_Exec runBatch runBatchSequential runExecWithRetries Flow_Prep Flow_Post BaseNode_GetMaxRetries BaseNode_GetWait BaseNode_ExecFallback",
             "fullRunCanon'_eq_runNode": "Run Flow_Exec runBatch runBatchSequential runExecWithRetries Flow_Prep Flow_Post BaseNode_GetMaxRetries BaseNode_GetWait BaseNode_ExecFallback",
             "runBatch_over_interpreted_executors": "runBatch runBatchSequential runBatchConcurrent runExecWithRetries",
             "runBatch_over_interpreted_executors'": "runBatch runBatchSequential runBatchConcurrent runExecWithRetries",
             "fullRun2_eq_runNode": "Run Flow_Exec runBatch runBatchSequential runBatchConcurrent runExecWithRetries",
             "fullRunCanon2_eq_runNode": "Run Flow_Exec runBatch runBatchSequential runBatchConcurrent runExecWithRetries",
             "fullRun2'_eq_runNode": "Run Flow_Exec runBatch runBatchSequential runBatchConcurrent runExecWithRetries Flow_Prep Flow_Post BaseNode_GetMaxRetries BaseNode_GetWait BaseNode_ExecFallback",
             "runBatchSequential_over_interpreted_items": "runBatchSequential runExecWithRetries",
             "runBatch_over_interpreted_sequential": "runBatch runBatchSequential runExecWithRetries",
             "runBatchConcurrent_serial_over_interpreted_items": "runBatchConcurrent runExecWithRetries"}
    funcs = alias[n].split() if n in alias else ([func] if func else [])
    if not funcs:
        print("no Tie obligation matches", n, "(not registered)")
        continue
    owners = [p for p in P if any(t["name"] in ["Flyt.Tie." + f for f in funcs] for t in P[p]["theorems"])]
    func = funcs[0]
    doc = ("**Source refinement.** About the GoIR interpretation of the translated source of `%s` (Expected.IR, tied to the current source "
           "by `Tie.%s`) in %s: it computes exactly what the hand-written model says, for ALL inputs and every sufficient fuel "
           "(statement: `%s.%s`)." % (" / ".join(f.replace("_", ".") for f in funcs), "` / `Tie.".join(funcs), world, ns, n))
    for p in owners:
        P[p]["theorems"].append({"module": module, "name": ns + "." + n, "doc": doc})
        added[p] = added.get(p, 0) + 1
json.dump(P, open(os.path.join(V, "props.json"), "w"), indent=1)
print("registered", len(names), "theorems:", added)
