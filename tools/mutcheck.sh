#!/bin/bash
# usage: tools/mutcheck.sh <property> <patch.diff> [tier]   — apply a seeded change to /repo, run the check, undo it
prop=$1; patch=$2; tier=${3:-quick}
cd /repo || exit 2
if ! git apply --check "$patch" 2>/dev/null; then
  if ! git apply --3way "$patch" 2>/dev/null; then echo "PATCH-DOES-NOT-APPLY $patch"; git checkout -- . ; exit 3; fi
  git reset -q
else
  git apply "$patch"
fi
cd /verif && ./check "$prop" "$tier" 2>&1 | tail -${LINES_OUT:-2}
cd /repo && git checkout -- . && git status --short | grep -v '^??'
