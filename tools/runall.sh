#!/bin/bash
# usage: tools/runall.sh <tier> [seed]   — run every claimed check once, print one line each
tier=${1:-quick}; export VERIF_SEED=${2:-1}
cd "$(dirname "$0")/.."
for p in $(python3 -c "import json;print(' '.join(c['property_id'] for c in json.load(open('MANIFEST.json'))['checks']))"); do
  s=$(date +%s); out=$(./check $p $tier 2>&1 | grep -E "VIOLATION|held on|KNOWN|INTERNAL" | tr '\n' ' '); e=$(date +%s)
  echo "$p $tier seed=$VERIF_SEED $((e-s))s :: $out"
done
