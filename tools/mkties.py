#!/usr/bin/env python3
"""Generate lean/FlytModel/Tie/<f>.lean for every function of Expected/IR.lean and register each tie theorem in
props.json under the properties whose behaviour the function carries (RULES: first matching regex wins).
Re-run after tools/accept_ir.sh when functions were added or removed."""
import json, os, re
V = os.path.dirname(os.path.dirname(os.path.abspath(__file__)))
RULES = [
    (r"^Run$", "C01 C02 C04 C05 C18 C20"),
    (r"^runExecWithRetries$", "C02 C07 C11 C17 C20"),
    (r"^runBatchSequential$", "C06 C07 C08 C09 C11 C17"),
    (r"^markUnprocessed$", "C09 C11"),
    (r"^runBatch$", "C06 C07 C08 C09 C11 C17 C18 C19"),
    (r"^runBatchConcurrent$", "C02 C06 C07 C08 C09 C11 C17"),
    (r"^Flow_Exec$", "C03 C04 C05 C10 C18"),
    (r"^Flow_Run$", "C01 C02 C03 C04 C05 C10 C18"),
    (r"^Flow_Prep$", "C10"), (r"^Flow_Post$", "C10 C18"), (r"^Flow_Connect$", "C03 C18"), (r"^NewFlow$", "C03 C10"),
    # the adapters of function-style nodes are on the path of every callback: lifecycle, errors, retries, batch items
    (r"^CustomNode_ExecFallback$", "C17 C02 C07"), (r"^CustomNode_Exec$", "C17 C01 C02 C04 C06 C07 C09 C11"),
    (r"^CustomNode_Post$", "C17 C01 C04 C18"), (r"^CustomNode_", "C17 C01 C04"),
    (r"^BaseNode_(Prep|Exec)$", "C01"), (r"^BaseNode_Post$", "C01 C18"), (r"^BaseNode_ExecFallback$", "C02"),
    (r"^BaseNode_GetMaxRetries$", "C19 C02"), (r"^BaseNode_GetWait$", "C19 C20"),
    (r"^BaseNode_GetBatchConcurrency$", "C19 C08"), (r"^BaseNode_GetBatchErrorHandling$", "C19 C09"),
    (r"^BatchNode_Post$", "C06 C18"), (r"^BatchNode_Prep$", "C06"), (r"^BatchNodeBuilder_(Prep|Exec|Post)$", "C06"),
    (r"^BatchNodeBuilder_WithExecFunc", "C19 C17 C02 C06 C07 C09 C11"), (r"^BatchNodeBuilder_WithWait$", "C19 C20"), (r"^BatchNodeBuilder_WithMaxRetries$", "C19 C02"),
    (r"^BatchNodeBuilder_WithBatchConcurrency$", "C19 C08"), (r"^BatchNodeBuilder_WithBatchErrorHandling$", "C19 C09"), (r"^BatchNodeBuilder_With", "C19"), (r"^NewBatchNode$", "C19"),
    (r"^NodeBuilder_(Prep|Exec|Post)$", "C01 C17"), (r"^NodeBuilder_ExecFallback$", "C02 C17"),
    (r"^NodeBuilder_Get", "C19 C02"), (r"^NodeBuilder_WithExecFunc", "C19 C17 C01 C02 C04"), (r"^NodeBuilder_With(Prep|Post)Func", "C19 C17 C01 C04"), (r"^NodeBuilder_WithExecFallbackFunc$", "C19 C02"), (r"^NodeBuilder_WithWait$", "C19 C20"), (r"^NodeBuilder_WithMaxRetries$", "C19 C02"), (r"^NodeBuilder_With", "C19"),
    (r"^NewNode$", "C19 C17"), (r"^NewBaseNode$", "C19"), (r"^customNodeOption_apply$", "C19 C17"),
    (r"^WithExecFunc", "C19 C17 C01 C02 C04"), (r"^With(Prep|Post)Func", "C19 C17 C01 C04"), (r"^WithExecFallbackFunc$", "C19 C02 C07"),
    # a setting function carries the property that reads the setting
    (r"^WithWait$", "C19 C20"), (r"^WithMaxRetries$", "C19 C02"), (r"^WithBatchConcurrency$", "C19 C08"), (r"^WithBatchErrorHandling$", "C19 C09"),
    (r"^With", "C19"),
    (r"^NewWorkerPool$", "C12 C08 C19"), (r"^WorkerPool_", "C12 C08"),
    (r"^(NewResult|R)$", "C17 C16 C15"), (r"^NewErrorResult$", "C17"), (r"^Result_(IsError|Value|Error)$", "C17 C15"),
    (r"^Result_(Bind|MustBind)$", "C16"), (r"^SharedStore_(Bind|MustBind)$", "C16"),
    (r"^Result_", "C15"), (r"^ToSlice$", "C15 C06 C07 C13"), (r"^Result_(IsNil|Type)$", "C15 C16"), (r"^(As|MustAs)$", "C15"),
    (r"^SharedStore_Get(String|Int|Float64|Bool|Slice|Map)", "C15 C13"),
    (r"^SharedStore_Get$", "C13 C14 C15 C16"), (r"^SharedStore_", "C13 C14"), (r"^NewSharedStore$", "C14"),
    (r"^BatchError_Error$", ""),
]
CLUSTER = (r"^(Run|runExecWithRetries|runBatchSequential|runBatchConcurrent|runBatch|markUnprocessed|Flow_Exec|Flow_Run|Flow_Prep|Flow_Post|"
           r"CustomNode_\w+|BaseNode_(Prep|Exec|Post|ExecFallback|Get\w+)|NodeBuilder_(Prep|Exec|Post|ExecFallback|Get\w+)|"
           r"BatchNodeBuilder_(Prep|Exec|Post)|BatchNode_(Prep|Post)|NewResult|NewErrorResult|Result_IsError|Result_Value|ToSlice)$")
ORCH = "C01 C02 C03 C04 C05 C06 C07 C08 C09 C10 C11 C17 C18 C19 C20"
POOL = r"^(NewWorkerPool|WorkerPool_\w+)$"
BATCHP = ORCH + " C12"
DOC = ("the translation of `%s` from the current source is, term for term, the expected IR (regenerated on every run; `rfl`)"
       " — any change of the function's syntax tree breaks this obligation")
src = open(os.path.join(V, "lean/FlytModel/Expected/IR.lean")).read()
funcs = [f for f in re.findall(r"^def (\w+) : Func", src, re.M)]
P = json.load(open(os.path.join(V, "props.json")))
for p in P:
    P[p]["theorems"] = [t for t in P[p]["theorems"] if not t["module"].startswith("FlytModel.Tie.")]
tiedir = os.path.join(V, "lean/FlytModel/Tie")
os.makedirs(tiedir, exist_ok=True)
for fn in os.listdir(tiedir):
    os.unlink(os.path.join(tiedir, fn))
unassigned = []
for f in funcs:
    props = None
    for rx, ps in RULES:
        if re.search(rx, f):
            props = ps.split()
            break
    if props is None:
        unassigned.append(f)
        continue
    # the orchestration core is ONE mutually recursive cluster (Run -> node.Exec -> Flow.Exec / runBatch -> Run ...): every property
    # that is about runs of nodes — of every kind — is carried by all of it (call-graph closure of its own functions)
    if re.search(CLUSTER, f):
        props = sorted(set(props) | set(ORCH.split()))
    elif re.search(POOL, f):
        props = sorted(set(props) | set(BATCHP.split()))
    if not props:
        continue
    open(os.path.join(tiedir, f + ".lean"), "w").write(
        "import FlytModel.Generated.IR\nimport FlytModel.Expected.IR\n"
        "/-! The translation of `%s` from the CURRENT source is, term for term, the expected IR. -/\n"
        "namespace Flyt.Tie\ntheorem %s : Flyt.Generated.IR.%s = Flyt.Expected.IR.%s := rfl\nend Flyt.Tie\n" % (f, f, f, f))
    for p in props:
        P[p]["theorems"].append({"module": "FlytModel.Tie." + f, "name": "Flyt.Tie." + f, "doc": DOC % f.replace("_", ".")})
json.dump(P, open(os.path.join(V, "props.json"), "w"), indent=1)
print("ties:", len(os.listdir(tiedir)), "unassigned:", unassigned)
print({p: sum(1 for t in P[p]["theorems"] if t["module"].startswith("FlytModel.Tie.")) for p in sorted(P)})
