#!/usr/bin/env python3
"""Regenerate the generated tables of DESIGN.md (between BEGIN/END markers) from props.json, the Lean sources and
seeded/RESULTS.json."""
import json, os, re, glob
ROOT = os.path.dirname(os.path.dirname(os.path.abspath(__file__)))
P = json.load(open(os.path.join(ROOT, "props.json")))
titles = {json.loads(l)["id"]: json.loads(l)["title"] for l in open(os.path.join(ROOT, "properties.jsonl"))}

def doc_of(module, name):
    path = os.path.join(ROOT, "lean", module.replace(".", "/") + ".lean")
    if not os.path.exists(path): return ""
    src = open(path).read()
    short = name.split(".")[-1]
    m = re.search(r"/--((?:(?!-/).)*?)-/\s*(?:@\[[^\]]*\]\s*)?theorem\s+" + re.escape(short) + r"\b", src, re.S)
    if not m: return ""
    d = " ".join(m.group(1).split())
    return d[:260] + ("…" if len(d) > 260 else "")

out = ["### 0.7 Theorems per property (generated from props.json; every one is re-checked and axiom-audited by its check)\n"]
for pid in sorted(P):
    th = P[pid].get("theorems", [])
    out.append("**%s — %s** (%d obligations%s)\n" % (pid, titles.get(pid, ""), len(th) + (1 if P[pid].get("facts") else 0),
               ", incl. regenerated facts" if P[pid].get("facts") else ""))
    for t in th:
        out.append("* `%s` — %s" % (t["name"].replace("Flyt.Props.", ""), doc_of(t["module"], t["name"]) or "(see %s)" % t["module"]))
    out.append("")
# translation coverage: which translated functions are mentioned by a refinement module, and the size of the Lean development
ir = open(os.path.join(ROOT, "lean/FlytModel/Expected/IR.lean")).read()
funcs = re.findall(r"^def (\w+) : Func", ir, re.M)
refsrc = "".join(open(f).read() for f in glob.glob(os.path.join(ROOT, "lean/FlytModel/Refine/*.lean")))
uncovered = [f for f in funcs if not re.search(r"\b" + re.escape(f) + r"\b", refsrc)]
def count(globpat, rx):
    n = 0
    for f in glob.glob(os.path.join(ROOT, globpat), recursive=True):
        n += len(re.findall(rx, open(f).read(), re.M))
    return n
lines = sum(len(open(f).read().splitlines()) for f in glob.glob(os.path.join(ROOT, "lean/FlytModel/**/*.lean"), recursive=True))
out.insert(0, "### 0.6b Size and translation coverage (generated)\n\n"
    "* Lean development: %d lines in `lean/FlytModel/`, %d `theorem`s (%d in `Refine/`, %d in `Props/`), %d `Tie` obligations; "
    "%d theorems / obligations are registered per property in props.json (a theorem may serve several properties).\n"
    "* Translated functions: %d. Mentioned by a refinement module (`Refine/*.lean`): %d. Not mentioned: %s.\n" % (
        lines, count("lean/FlytModel/**/*.lean", r"^theorem "), count("lean/FlytModel/Refine/*.lean", r"^theorem "),
        count("lean/FlytModel/Props/*.lean", r"^theorem "), len(glob.glob(os.path.join(ROOT, "lean/FlytModel/Tie/*.lean"))),
        sum(len(P[p].get("theorems", [])) for p in P), len(funcs), len(funcs) - len(uncovered),
        ", ".join("`%s`" % f for f in uncovered) or "none"))
seeded = []
res_path = os.path.join(ROOT, "seeded", "RESULTS.json")
res = json.load(open(res_path)) if os.path.exists(res_path) else {}
out2 = ["### 0.8 Seeded changes (independent sub-agents, each confirmed: builds, existing tests pass, demo fails with / passes without) and what catches them\n",
        "| change | property | what it needs to manifest (first line of the author's note) | quick check | how |", "|---|---|---|---|---|"]
for d in sorted(glob.glob(os.path.join(ROOT, "seeded", "C*-mut*"))):
    name = os.path.basename(d)
    meta = json.load(open(os.path.join(d, "meta.json")))
    note = [l.strip("# ").strip() for l in meta.get("needs_to_manifest", "").splitlines() if l.strip()]
    first = (note[0] if note else "")[:110].replace("|", "/")
    r = res.get(name, {})
    out2.append("| `%s` | %s | %s | %s | %s |" % (name, meta["property"], first, r.get("verdict", "not run"), r.get("how", "")))
s = open(os.path.join(ROOT, "DESIGN.md")).read()
block = "<!-- BEGIN:GENERATED -->\n" + "\n".join(out) + "\n" + "\n".join(out2) + "\n<!-- END:GENERATED -->\n"
if "<!-- BEGIN:GENERATED -->" in s:
    s = re.sub(r"<!-- BEGIN:GENERATED -->.*?<!-- END:GENERATED -->\n", lambda m: block, s, flags=re.S)
else:
    s = s.replace("---------------------------------------------------------------------------------------\n\n## 1. Why proof", block + "\n---------------------------------------------------------------------------------------\n\n## 1. Why proof", 1)
open(os.path.join(ROOT, "DESIGN.md"), "w").write(s)
print("tables regenerated")
