#!/bin/bash
# usage: tools/mutsweep.sh <tier> <glob of /verif/seeded dirs, e.g. 'C0*-mutC'>...   — run each seeded change's property check against a scratch copy of /repo with the change applied
tier=$1; shift
V=$(cd "$(dirname "$0")/.." && pwd)
mkdir -p /tmp/mutrepo$$
# evidence and generated files describe /repo itself: keep them out of the way of the mutant runs
bk=/tmp/mutrepo$$/.backup; mkdir -p $bk; cp -r $V/evidence $bk/evidence; cp -r $V/lean/FlytModel/Generated $bk/Generated
for pat in "$@"; do
  for d in $V/seeded/$pat; do
    [ -f "$d/patch.diff" ] || continue
    name=$(basename $d); p=${name%%-*}
    c=/tmp/mutrepo$$/$name
    rm -rf $c && mkdir -p $c && (cd /repo && git archive HEAD | tar -x -C $c) && cd $c && git init -q . >/dev/null 2>&1
    if git apply --check "$d/patch.diff" 2>/dev/null; then git apply "$d/patch.diff"; else echo "$name PATCH-DOES-NOT-APPLY"; rm -rf $c; continue; fi
    s=$(date +%s)
    out=$(cd $V && FLYT_REPO=$c ./check $p $tier 2>&1 | grep -E "VIOLATION|held on|KNOWN" | head -3 | tr '\n' ' ')
    e=$(date +%s)
    echo "$name $((e-s))s :: $out"
    rm -rf $c
  done
done
rm -rf $V/evidence && cp -r $bk/evidence $V/evidence; cp $bk/Generated/*.lean $V/lean/FlytModel/Generated/; rm -rf /tmp/mutrepo$$
