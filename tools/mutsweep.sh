#!/bin/bash
# usage: tools/mutsweep.sh <tier> <prop>...   — run each property's check against scratch copies of /repo with each seeded change applied
tier=$1; shift
mkdir -p /tmp/mutrepo
for p in "$@"; do
  for d in /tmp/wt/$p/_out/mut* /verif/seeded/$p-*/; do
    [ -f "$d/patch.diff" ] || continue
    m=$(basename $d)
    c=/tmp/mutrepo/$p-$m
    rm -rf $c && mkdir -p $c && (cd /repo && git archive HEAD | tar -x -C $c) && cd $c && git init -q . >/dev/null 2>&1
    if git apply --check "$d/patch.diff" 2>/dev/null; then git apply "$d/patch.diff"; elif patch -p1 --dry-run -s < "$d/patch.diff" >/dev/null 2>&1; then patch -p1 -s < "$d/patch.diff"; else echo "$p $m PATCH-DOES-NOT-APPLY"; rm -rf $c; continue; fi
    out=$(cd /verif && FLYT_REPO=$c ./check $p $tier 2>&1 | grep -E "VIOLATION|held on|KNOWN" | head -3 | tr '\n' ' ')
    echo "$p $m :: $out"
    rm -rf $c
  done
done
