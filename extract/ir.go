// ir.go: syntax-directed translation of the orchestration functions of flyt into GoIR terms
// (lean/FlytModel/GoIR/Syntax.lean).  `extract <repo> ir` prints lean/FlytModel/Generated/IR.lean.
//
// One IR constructor per AST node kind; identifiers and literals are kept verbatim; comments, positions and
// parentheses are dropped.  Anything outside the subset becomes `.unsupported "<text>"`, never a guess: the
// interpreter gets stuck on it and the `rfl` tie to the expected IR fails.
package main

import (
	"fmt"
	"go/ast"
	"go/printer"
	"go/token"
	"go/types"
	"sort"
	"strconv"
	"strings"
)

func (x *extractor) findFunc(q string) *ast.FuncDecl {
	recv, name := "", q
	if i := strings.Index(q, "."); i >= 0 {
		recv, name = q[:i], q[i+1:]
	}
	for _, f := range x.files {
		for _, d := range f.Decls {
			fd, ok := d.(*ast.FuncDecl)
			if !ok || fd.Name.Name != name || fd.Body == nil {
				continue
			}
			if recv == "" && fd.Recv == nil {
				return fd
			}
			if recv != "" && fd.Recv != nil && len(fd.Recv.List) == 1 {
				t := fd.Recv.List[0].Type
				if st, ok := t.(*ast.StarExpr); ok {
					t = st.X
				}
				if id, ok := t.(*ast.Ident); ok && id.Name == recv {
					return fd
				}
			}
		}
	}
	return nil
}

func (x *extractor) typeStr(e ast.Expr) string { return types.ExprString(e) }

// exact source text of a node (comments dropped, whitespace normalised by go/printer)
func (x *extractor) src(n ast.Node) string {
	var sb strings.Builder
	if err := printer.Fprint(&sb, x.fset, n); err != nil {
		return "<unprintable>"
	}
	return strings.Join(strings.Fields(sb.String()), " ")
}

func (x *extractor) irExprs(es []ast.Expr) string {
	parts := make([]string, len(es))
	for i, e := range es {
		parts[i] = x.irExpr(e)
	}
	return "E[" + strings.Join(parts, ", ") + "]"
}

func (x *extractor) irExpr(e ast.Expr) string {
	switch v := e.(type) {
	case *ast.ParenExpr:
		return x.irExpr(v.X)
	case *ast.Ident:
		return "(.var " + lstr(v.Name) + ")"
	case *ast.BasicLit:
		switch v.Kind {
		case token.STRING:
			s, err := strconv.Unquote(v.Value)
			if err != nil {
				return "(.unsupported " + lstr(v.Value) + ")"
			}
			return "(.str " + lstr(s) + ")"
		case token.INT:
			n, err := strconv.ParseUint(v.Value, 0, 64)
			if err != nil {
				return "(.unsupported " + lstr(v.Value) + ")"
			}
			return fmt.Sprintf("(.int %d)", n)
		}
		if v.Kind == token.FLOAT {
			// a floating-point literal: a pseudo-call the world gives a value to (no float arithmetic in the interpreter)
			return "(.call \"float.lit\" E[(.str " + lstr(v.Value) + ")])"
		}
		return "(.unsupported " + lstr(v.Value) + ")"
	case *ast.BinaryExpr:
		return "(.bin " + lstr(v.Op.String()) + " " + x.irExpr(v.X) + " " + x.irExpr(v.Y) + ")"
	case *ast.UnaryExpr:
		return "(.un " + lstr(v.Op.String()) + " " + x.irExpr(v.X) + ")"
	case *ast.StarExpr:
		return "(.un \"*\" " + x.irExpr(v.X) + ")"
	case *ast.CallExpr:
		if v.Ellipsis != token.NoPos {
			return "(.unsupported " + lstr(x.src(v)) + ")"
		}
		// conversion T(a)?
		if tv, ok := x.info.Types[v.Fun]; ok && tv.IsType() && len(v.Args) == 1 {
			return "(.conv " + lstr(x.typeStr(v.Fun)) + " " + x.irExpr(v.Args[0]) + ")"
		}
		switch f := v.Fun.(type) {
		case *ast.Ident:
			return "(.call " + lstr(f.Name) + " " + x.irExprs(v.Args) + ")"
		case *ast.SelectorExpr:
			// pkg.F(args) vs recv.m(args)
			if id, ok := f.X.(*ast.Ident); ok {
				if _, isPkg := x.info.Uses[id].(*types.PkgName); isPkg {
					return "(.call " + lstr(id.Name+"."+f.Sel.Name) + " " + x.irExprs(v.Args) + ")"
				}
			}
			return "(.mcall " + x.irExpr(f.X) + " " + lstr(f.Sel.Name) + " " + x.irExprs(v.Args) + ")"
		case *ast.IndexExpr:
			// an instantiated generic function, e.g. As[T](r): the instantiation is part of the callee's name
			if id, ok := f.X.(*ast.Ident); ok {
				if _, isFunc := x.info.Uses[id].(*types.Func); isFunc {
					return "(.call " + lstr(id.Name+"["+x.typeStr(f.Index)+"]") + " " + x.irExprs(v.Args) + ")"
				}
			}
		case *ast.CallExpr, *ast.ParenExpr, *ast.FuncLit:
			// calling the result of an expression, e.g. WithMaxRetries(r)(b.BaseNode)
			return "(.mcall " + x.irExpr(v.Fun) + " \"()\" " + x.irExprs(v.Args) + ")"
		}
		return "(.unsupported " + lstr(x.src(v)) + ")"
	case *ast.SelectorExpr:
		return "(.sel " + x.irExpr(v.X) + " " + lstr(v.Sel.Name) + ")"
	case *ast.IndexExpr:
		return "(.index " + x.irExpr(v.X) + " " + x.irExpr(v.Index) + ")"
	case *ast.SliceExpr:
		if v.High == nil && v.Max == nil && v.Low != nil {
			return "(.sliceFrom " + x.irExpr(v.X) + " " + x.irExpr(v.Low) + ")"
		}
		return "(.unsupported " + lstr(x.src(v)) + ")"
	case *ast.TypeAssertExpr:
		if v.Type == nil {
			return "(.unsupported " + lstr(x.src(v)) + ")"
		}
		return "(.assert " + x.irExpr(v.X) + " " + lstr(x.typeStr(v.Type)) + ")"
	case *ast.CompositeLit:
		for _, el := range v.Elts {
			if _, kv := el.(*ast.KeyValueExpr); kv {
				// struct literal with field names: fields as  name := value  pairs, in source order
				parts := []string{}
				for _, el2 := range v.Elts {
					kv2, ok := el2.(*ast.KeyValueExpr)
					if !ok {
						return "(.unsupported " + lstr(x.src(v)) + ")"
					}
					parts = append(parts, "(.bin \":\" "+x.irExpr(kv2.Key)+" "+x.irExpr(kv2.Value)+")")
				}
				return "(.lit " + lstr(x.typeStr(v.Type)) + " E[" + strings.Join(parts, ", ") + "])"
			}
		}
		return "(.lit " + lstr(x.typeStr(v.Type)) + " " + x.irExprs(v.Elts) + ")"
	case *ast.FuncLit:
		var ps []string
		for _, f := range v.Type.Params.List {
			if len(f.Names) == 0 {
				ps = append(ps, "_")
			}
			for _, n := range f.Names {
				ps = append(ps, n.Name)
			}
		}
		if ps == nil {
			ps = []string{}
		}
		return "(.funcLit " + lstrs(ps) + " " + x.irBlock(v.Body.List, "      ") + ")"
	case *ast.ArrayType, *ast.MapType, *ast.ChanType, *ast.FuncType, *ast.InterfaceType, *ast.StructType:
		return "(.var " + lstr(x.typeStr(e)) + ")"
	}
	return "(.unsupported " + lstr(x.src(e)) + ")"
}

// closures are kept as the (comment-free, position-free) text of their own IR, so a change inside one is still a change
func (x *extractor) irBlockText(b *ast.BlockStmt) string { return x.irBlock(b.List, "") }

func (x *extractor) irOptStmt(s ast.Stmt) string {
	if s == nil {
		return "B[]"
	}
	return "B[" + x.irStmt(s, "") + "]"
}

func (x *extractor) irBlock(ss []ast.Stmt, ind string) string {
	if len(ss) == 0 {
		return "B[]"
	}
	parts := make([]string, len(ss))
	for i, s := range ss {
		parts[i] = ind + "  " + x.irStmt(s, ind+"  ")
	}
	if ind == "" && false {
		return "B[" + strings.Join(parts, ", ") + "]"
	}
	return "B[\n" + strings.Join(parts, ",\n") + "]"
}

func identNames(es []ast.Expr) ([]string, bool) {
	out := make([]string, len(es))
	for i, e := range es {
		id, ok := e.(*ast.Ident)
		if !ok {
			return nil, false
		}
		out[i] = id.Name
	}
	return out, true
}

func (x *extractor) irStmt(s ast.Stmt, ind string) string {
	switch v := s.(type) {
	case *ast.AssignStmt:
		if v.Tok == token.DEFINE {
			names, ok := identNames(v.Lhs)
			if !ok {
				return "(.unsupported " + lstr(x.src(v)) + ")"
			}
			return "(.define " + lstrs(names) + " " + x.irExprs(v.Rhs) + ")"
		}
		if v.Tok == token.ASSIGN {
			return "(.assign " + x.irExprs(v.Lhs) + " " + x.irExprs(v.Rhs) + ")"
		}
		return "(.unsupported " + lstr(x.src(v)) + ")"
	case *ast.DeclStmt:
		gd, ok := v.Decl.(*ast.GenDecl)
		if !ok || gd.Tok != token.VAR || len(gd.Specs) != 1 {
			return "(.unsupported " + lstr(x.src(v)) + ")"
		}
		vs := gd.Specs[0].(*ast.ValueSpec)
		names := make([]string, len(vs.Names))
		for i, n := range vs.Names {
			names[i] = n.Name
		}
		if len(vs.Values) > 0 {
			return "(.define " + lstrs(names) + " " + x.irExprs(vs.Values) + ")"
		}
		if len(names) == 1 && vs.Type != nil {
			return "(.declare " + lstr(names[0]) + " " + lstr(x.typeStr(vs.Type)) + ")"
		}
		return "(.unsupported " + lstr(x.src(v)) + ")"
	case *ast.IfStmt:
		els := "B[]"
		if v.Else != nil {
			switch e := v.Else.(type) {
			case *ast.BlockStmt:
				els = x.irBlock(e.List, ind)
			case *ast.IfStmt:
				els = "B[" + x.irStmt(e, ind) + "]"
			}
		}
		return "(.ifS " + x.irOptStmt(v.Init) + " " + x.irExpr(v.Cond) + " " + x.irBlock(v.Body.List, ind) + " " + els + ")"
	case *ast.ForStmt:
		cond := "(.var \"true\")"
		if v.Cond != nil {
			cond = x.irExpr(v.Cond)
		}
		return "(.forS " + x.irOptStmt(v.Init) + " " + cond + " " + x.irOptStmt(v.Post) + " " + x.irBlock(v.Body.List, ind) + ")"
	case *ast.RangeStmt:
		name := func(e ast.Expr) string {
			if e == nil {
				return "_"
			}
			if id, ok := e.(*ast.Ident); ok {
				return id.Name
			}
			return "?"
		}
		if v.Tok != token.DEFINE && !(v.Key == nil && v.Value == nil) {
			return "(.unsupported " + lstr(x.src(v)) + ")"
		}
		return "(.rangeS " + lstr(name(v.Key)) + " " + lstr(name(v.Value)) + " " + x.irExpr(v.X) + " " + x.irBlock(v.Body.List, ind) + ")"
	case *ast.SelectStmt:
		parts := []string{}
		for _, c := range v.Body.List {
			cc := c.(*ast.CommClause)
			guard := "(.var \"default\")"
			if cc.Comm != nil {
				switch cs := cc.Comm.(type) {
				case *ast.ExprStmt:
					guard = x.irExpr(cs.X)
				case *ast.AssignStmt:
					names, ok := identNames(cs.Lhs)
					if ue, isRecv := cs.Rhs[0].(*ast.UnaryExpr); ok && len(cs.Rhs) == 1 && isRecv && ue.Op == token.ARROW && cs.Tok == token.DEFINE {
						// `case v, ok := <-ch: BODY`  is  `case <-ch: v, ok := chan:recvd(ch); BODY` — the case is chosen by the channel
						// operation, the names are bound to what that operation received when the body starts
						guard = x.irExpr(cs.Rhs[0])
						bind := ind + "    (.define " + lstrs(names) + " E[(.call \"chan:recvd\" E[" + x.irExpr(ue.X) + "])])"
						body := x.irBlock(cc.Body, ind+"  ")
						if body == "B[]" {
							body = "B[\n" + bind + "]"
						} else {
							body = "B[\n" + bind + ",\n" + strings.TrimPrefix(body, "B[\n")
						}
						parts = append(parts, ind+"  ("+guard+", "+body+")")
						continue
					} else {
						guard = "(.unsupported " + lstr(x.src(cs)) + ")"
					}
				default:
					guard = "(.unsupported " + lstr(x.src(cc.Comm)) + ")"
				}
			}
			parts = append(parts, ind+"  ("+guard+", "+x.irBlock(cc.Body, ind+"  ")+")")
		}
		return "(.selectS (Cases.ofList [\n" + strings.Join(parts, ",\n") + "]))"
	case *ast.TypeSwitchStmt:
		bind, subj := "_", ""
		switch a := v.Assign.(type) {
		case *ast.AssignStmt:
			if id, ok := a.Lhs[0].(*ast.Ident); ok {
				bind = id.Name
			}
			if ta, ok := a.Rhs[0].(*ast.TypeAssertExpr); ok {
				subj = x.irExpr(ta.X)
			}
		case *ast.ExprStmt:
			if ta, ok := a.X.(*ast.TypeAssertExpr); ok {
				subj = x.irExpr(ta.X)
			}
		}
		if subj == "" || v.Init != nil {
			return "(.unsupported " + lstr(x.src(v)) + ")"
		}
		parts := []string{}
		for _, c := range v.Body.List {
			cc := c.(*ast.CaseClause)
			guard := "(.var \"default\")"
			if cc.List != nil {
				tys := make([]string, len(cc.List))
				for i, t := range cc.List {
					tys[i] = "(.var " + lstr(x.typeStr(t)) + ")"
				}
				guard = "(.lit \"types\" E[" + strings.Join(tys, ", ") + "])"
			}
			parts = append(parts, ind+"  ("+guard+", "+x.irBlock(cc.Body, ind+"  ")+")")
		}
		return "(.typeSwitch " + lstr(bind) + " " + subj + " (Cases.ofList [\n" + strings.Join(parts, ",\n") + "]))"
	case *ast.ReturnStmt:
		return "(.ret " + x.irExprs(v.Results) + ")"
	case *ast.BranchStmt:
		if v.Label != nil {
			return "(.unsupported " + lstr(x.src(v)) + ")"
		}
		switch v.Tok {
		case token.BREAK:
			return ".brk"
		case token.CONTINUE:
			return ".cont"
		}
		return "(.unsupported " + lstr(x.src(v)) + ")"
	case *ast.IncDecStmt:
		if id, ok := v.X.(*ast.Ident); ok && v.Tok == token.INC {
			return "(.incr " + lstr(id.Name) + ")"
		}
		return "(.unsupported " + lstr(x.src(v)) + ")"
	case *ast.ExprStmt:
		return "(.expr " + x.irExpr(v.X) + ")"
	case *ast.DeferStmt:
		return "(.deferS " + x.irExpr(v.Call) + ")"
	case *ast.GoStmt:
		return "(.goS " + x.irExpr(v.Call) + ")"
	case *ast.SendStmt:
		return "(.send " + x.irExpr(v.Chan) + " " + x.irExpr(v.Value) + ")"
	case *ast.BlockStmt:
		return "(.ifS B[] (.var \"true\") " + x.irBlock(v.List, ind) + " B[])"
	}
	return "(.unsupported " + lstr(x.src(s)) + ")"
}

func leanIdent(q string) string { return strings.ReplaceAll(q, ".", "_") }

// every function / method of the package with a body, receiver-qualified, sorted
func (x *extractor) allFuncs() []string {
	var out []string
	for _, f := range x.files {
		for _, d := range f.Decls {
			fd, ok := d.(*ast.FuncDecl)
			if !ok || fd.Body == nil {
				continue
			}
			name := fd.Name.Name
			if fd.Recv != nil && len(fd.Recv.List) == 1 {
				t := fd.Recv.List[0].Type
				if st, ok := t.(*ast.StarExpr); ok {
					t = st.X
				}
				if ix, ok := t.(*ast.IndexExpr); ok {
					t = ix.X
				}
				if id, ok := t.(*ast.Ident); ok {
					name = id.Name + "." + name
				}
			}
			out = append(out, name)
		}
	}
	sort.Strings(out)
	return out
}

func (x *extractor) renderIR() string {
	var sb strings.Builder
	sb.WriteString("import FlytModel.GoIR.Syntax\n/-! GENERATED by /verif/extract from the current source of mark3labs/flyt — do not edit.\n    One GoIR term per function of the package (syntax-directed translation of its body). -/\nnamespace Flyt.Generated.IR\nopen Flyt.GoIR\nset_option maxRecDepth 8192\n\n")
	names := x.allFuncs()
	for _, q := range names {
		fd := x.findFunc(q)
		if fd == nil {
			fmt.Fprintf(&sb, "def %s : Func := { name := %s, recv := \"\", params := [], body := B[(.unsupported \"function not found\")] }\n\n", leanIdent(q), lstr(q))
			continue
		}
		recv := ""
		if fd.Recv != nil && len(fd.Recv.List[0].Names) == 1 {
			recv = fd.Recv.List[0].Names[0].Name
		}
		var params []string
		for _, f := range fd.Type.Params.List {
			if len(f.Names) == 0 {
				params = append(params, "_")
			}
			for _, n := range f.Names {
				params = append(params, n.Name)
			}
		}
		if params == nil {
			params = []string{}
		}
		fmt.Fprintf(&sb, "def %s : Func := { name := %s, recv := %s, params := %s, body :=\n%s }\n\n", leanIdent(q), lstr(q), lstr(recv), lstrs(params), x.irBlock(fd.Body.List, ""))
	}
	idents := make([]string, len(names))
	for i, q := range names {
		idents[i] = leanIdent(q)
	}
	sb.WriteString("def all : List Func := [" + strings.Join(idents, ", ") + "]\n\nend Flyt.Generated.IR\n")
	return sb.String()
}
