module flytverif/extract

go 1.23
