// extract: regenerate lean/FlytModel/Generated/Facts.lean from the CURRENT source of mark3labs/flyt.
//
//	extract <repo-dir>   → Lean source on stdout
//
// Facts are the structural things behaviour cannot reveal deterministically (DESIGN.md 3.2):
//   - StoreFacts: the lock discipline of every method of *SharedStore
//   - PoolFacts:  the synchronisation skeleton of WorkerPool
//   - WrapFacts:  every fmt.Errorf that receives an error, and whether it wraps it with %w
//
// Unknown shapes are reported as "not recognised" (false), never guessed: the Lean obligations then fail.
package main

import (
	"fmt"
	"go/ast"
	"go/importer"
	"go/parser"
	"go/token"
	"go/types"
	"os"
	"path/filepath"
	"sort"
	"strconv"
	"strings"
)

func main() {
	if len(os.Args) < 2 {
		fmt.Fprintln(os.Stderr, "usage: extract <repo-dir>")
		os.Exit(2)
	}
	dir := os.Args[1]
	fset := token.NewFileSet()
	matches, _ := filepath.Glob(filepath.Join(dir, "*.go"))
	sort.Strings(matches)
	var files []*ast.File
	for _, m := range matches {
		if strings.HasSuffix(m, "_test.go") {
			continue
		}
		f, err := parser.ParseFile(fset, m, nil, parser.ParseComments)
		if err != nil {
			fmt.Fprintln(os.Stderr, "parse:", err)
			os.Exit(1)
		}
		if f.Name.Name != "flyt" {
			continue
		}
		files = append(files, f)
	}
	conf := types.Config{Importer: importer.ForCompiler(fset, "source", nil), Error: func(err error) {}}
	info := &types.Info{Types: map[ast.Expr]types.TypeAndValue{}, Uses: map[*ast.Ident]types.Object{}, Defs: map[*ast.Ident]types.Object{}, Selections: map[*ast.SelectorExpr]*types.Selection{}}
	pkg, err := conf.Check("github.com/mark3labs/flyt", fset, files, info)
	if err != nil && pkg == nil {
		fmt.Fprintln(os.Stderr, "typecheck:", err)
		os.Exit(1)
	}
	x := &extractor{fset: fset, files: files, info: info, pkg: pkg}
	if len(os.Args) > 2 && os.Args[2] == "ir" {
		fmt.Print(x.renderIR())
		return
	}
	fmt.Print(x.render())
}

type extractor struct {
	fset  *token.FileSet
	files []*ast.File
	info  *types.Info
	pkg   *types.Package
}

func (x *extractor) methodsOf(typeName string) []*ast.FuncDecl {
	var out []*ast.FuncDecl
	for _, f := range x.files {
		for _, d := range f.Decls {
			fd, ok := d.(*ast.FuncDecl)
			if !ok || fd.Recv == nil || len(fd.Recv.List) != 1 || fd.Body == nil {
				continue
			}
			t := fd.Recv.List[0].Type
			if st, ok := t.(*ast.StarExpr); ok {
				t = st.X
			}
			if id, ok := t.(*ast.Ident); ok && id.Name == typeName {
				out = append(out, fd)
			}
		}
	}
	sort.Slice(out, func(i, j int) bool { return out[i].Name.Name < out[j].Name.Name })
	return out
}

func recvName(fd *ast.FuncDecl) string {
	if len(fd.Recv.List[0].Names) == 0 {
		return "_"
	}
	return fd.Recv.List[0].Names[0].Name
}

// isRecvField reports whether e is `recv.<field>`
func isRecvField(e ast.Expr, recv string) (string, bool) {
	se, ok := e.(*ast.SelectorExpr)
	if !ok {
		return "", false
	}
	id, ok := se.X.(*ast.Ident)
	if !ok || id.Name != recv {
		return "", false
	}
	return se.Sel.Name, true
}

// ---------------------------------------------------------------- store

type storeMethod struct {
	name                                       string
	lock                                       string // none | R | W | mixed
	lockCalls                                  int
	unlock                                     string // none | deferred | other
	lockInLoop, accessBeforeLock, writes, reads bool
	otherFields                                []string
	calls                                      []string
	callInLoop                                 bool
}

func (x *extractor) storeFacts() []storeMethod {
	methodNames := map[string]bool{}
	decls := x.methodsOf("SharedStore")
	for _, fd := range decls {
		methodNames[fd.Name.Name] = true
	}
	var out []storeMethod
	for _, fd := range decls {
		recv := recvName(fd)
		m := storeMethod{name: fd.Name.Name, lock: "none", unlock: "none"}
		var lockPos token.Pos = token.NoPos
		var firstAccess token.Pos = token.NoPos
		kinds := map[string]bool{}
		var loopDepth int
		var walk func(n ast.Node, inDefer bool)
		walk = func(n ast.Node, inDefer bool) {
			ast.Inspect(n, func(c ast.Node) bool {
				switch v := c.(type) {
				case *ast.ForStmt, *ast.RangeStmt:
					// visit the loop's parts with the depth raised
					loopDepth++
					switch l := v.(type) {
					case *ast.ForStmt:
						if l.Init != nil {
							walk(l.Init, inDefer)
						}
						if l.Cond != nil {
							walk(l.Cond, inDefer)
						}
						if l.Post != nil {
							walk(l.Post, inDefer)
						}
						walk(l.Body, inDefer)
					case *ast.RangeStmt:
						loopDepth-- // the range expression is evaluated once, outside the loop
						walk(l.X, inDefer)
						loopDepth++
						walk(l.Body, inDefer)
					}
					loopDepth--
					return false
				case *ast.DeferStmt:
					walk(v.Call, true)
					return false
				case *ast.CallExpr:
					if se, ok := v.Fun.(*ast.SelectorExpr); ok {
						// recv.mu.Lock() etc.
						if f, ok := isRecvField(se.X, recv); ok && f == "mu" {
							switch se.Sel.Name {
							case "Lock", "RLock":
								m.lockCalls++
								if se.Sel.Name == "Lock" {
									kinds["W"] = true
								} else {
									kinds["R"] = true
								}
								if lockPos == token.NoPos {
									lockPos = v.Pos()
								}
								if loopDepth > 0 {
									m.lockInLoop = true
								}
							case "Unlock", "RUnlock":
								if inDefer && m.unlock == "none" {
									m.unlock = "deferred"
								} else if !inDefer {
									m.unlock = "other"
								}
							}
							return false
						}
						// recv.Method(...)
						if id, ok := se.X.(*ast.Ident); ok && id.Name == recv && methodNames[se.Sel.Name] {
							m.calls = append(m.calls, se.Sel.Name)
							if loopDepth > 0 {
								m.callInLoop = true
							}
						}
					}
					// delete(recv.data, k)
					if id, ok := v.Fun.(*ast.Ident); ok && id.Name == "delete" && len(v.Args) > 0 {
						if f, ok := isRecvField(v.Args[0], recv); ok && f == "data" {
							m.writes = true
						}
					}
				case *ast.AssignStmt:
					for _, l := range v.Lhs {
						e := l
						if ix, ok := e.(*ast.IndexExpr); ok {
							e = ix.X
						}
						if f, ok := isRecvField(e, recv); ok && f != "mu" {
							m.writes = true
						}
					}
				case *ast.IncDecStmt:
					e := v.X
					if ix, ok := e.(*ast.IndexExpr); ok {
						e = ix.X
					}
					if f, ok := isRecvField(e, recv); ok && f != "mu" {
						m.writes = true
					}
				case *ast.SelectorExpr:
					if f, ok := isRecvField(v, recv); ok && f != "mu" {
						if sel := x.info.Selections[v]; sel != nil && sel.Kind() == types.FieldVal {
							m.reads = true
							if firstAccess == token.NoPos {
								firstAccess = v.Pos()
							}
							if f != "data" {
								m.otherFields = append(m.otherFields, f)
							}
						}
					}
				}
				return true
			})
		}
		walk(fd.Body, false)
		switch {
		case kinds["R"] && kinds["W"]:
			m.lock = "mixed"
		case kinds["W"]:
			m.lock = "W"
		case kinds["R"]:
			m.lock = "R"
		}
		if firstAccess != token.NoPos && (lockPos == token.NoPos || firstAccess < lockPos) {
			m.accessBeforeLock = m.lock != "none"
		}
		// the unlock must be deferred right after the lock: `X.Lock(); defer X.Unlock()` as consecutive statements
		if m.lock != "none" && m.unlock == "deferred" && !deferFollowsLock(fd.Body, recv) {
			m.unlock = "other"
		}
		out = append(out, m)
	}
	return out
}

// deferFollowsLock: somewhere in the body (top-level block) a lock call statement is immediately followed by the deferred unlock
func deferFollowsLock(body *ast.BlockStmt, recv string) bool {
	for i := 0; i+1 < len(body.List); i++ {
		es, ok := body.List[i].(*ast.ExprStmt)
		if !ok {
			continue
		}
		call, ok := es.X.(*ast.CallExpr)
		if !ok {
			continue
		}
		se, ok := call.Fun.(*ast.SelectorExpr)
		if !ok {
			continue
		}
		if f, ok := isRecvField(se.X, recv); !ok || f != "mu" || (se.Sel.Name != "Lock" && se.Sel.Name != "RLock") {
			continue
		}
		ds, ok := body.List[i+1].(*ast.DeferStmt)
		if !ok {
			return false
		}
		dse, ok := ds.Call.Fun.(*ast.SelectorExpr)
		if !ok {
			return false
		}
		f, ok := isRecvField(dse.X, recv)
		want := "Unlock"
		if se.Sel.Name == "RLock" {
			want = "RUnlock"
		}
		return ok && f == "mu" && dse.Sel.Name == want
	}
	return false
}

// ---------------------------------------------------------------- pool

type poolFacts struct {
	clampToOne, spawnLoopExact, addBeforeSend, doneDeferredInWrapper, taskCalledOnce bool
	workerLoopShape, waitIsWgWait, closeClosesBoth, noExtraGo                        bool
	capExpr                                                                          string
}

func exprStr(e ast.Node) string {
	var sb strings.Builder
	ast.Inspect(e, func(n ast.Node) bool {
		switch v := n.(type) {
		case *ast.Ident:
			sb.WriteString(v.Name)
			sb.WriteString(" ")
		case *ast.BasicLit:
			sb.WriteString(v.Value)
			sb.WriteString(" ")
		case *ast.BinaryExpr:
			sb.WriteString("(" + v.Op.String() + ") ")
		}
		return true
	})
	return strings.TrimSpace(sb.String())
}

func isCallOn(e ast.Expr, recv, field, method string) bool {
	call, ok := e.(*ast.CallExpr)
	if !ok {
		return false
	}
	se, ok := call.Fun.(*ast.SelectorExpr)
	if !ok || se.Sel.Name != method {
		return false
	}
	f, ok := isRecvField(se.X, recv)
	return ok && f == field
}

func (x *extractor) poolFacts() poolFacts {
	var pf poolFacts
	goStmts := 0
	for _, f := range x.files {
		for _, d := range f.Decls {
			fd, ok := d.(*ast.FuncDecl)
			if !ok || fd.Body == nil {
				continue
			}
			isPoolMethod := false
			if fd.Recv != nil && len(fd.Recv.List) == 1 {
				t := fd.Recv.List[0].Type
				if st, ok := t.(*ast.StarExpr); ok {
					t = st.X
				}
				if id, ok := t.(*ast.Ident); ok && id.Name == "WorkerPool" {
					isPoolMethod = true
				}
			}
			if isPoolMethod || fd.Name.Name == "NewWorkerPool" {
				ast.Inspect(fd.Body, func(n ast.Node) bool {
					if _, ok := n.(*ast.GoStmt); ok {
						goStmts++
					}
					return true
				})
			}
			switch {
			case fd.Recv == nil && fd.Name.Name == "NewWorkerPool":
				x.analyseNewPool(fd, &pf)
			case isPoolMethod && fd.Name.Name == "Submit":
				x.analyseSubmit(fd, &pf)
			case isPoolMethod && fd.Name.Name == "worker":
				x.analyseWorker(fd, &pf)
			case isPoolMethod && fd.Name.Name == "Wait":
				recv := recvName(fd)
				if len(fd.Body.List) == 1 {
					if es, ok := fd.Body.List[0].(*ast.ExprStmt); ok && isCallOn(es.X, recv, "wg", "Wait") {
						pf.waitIsWgWait = true
					}
				}
			case isPoolMethod && fd.Name.Name == "Close":
				recv := recvName(fd)
				closed := map[string]bool{}
				for _, st := range fd.Body.List {
					if es, ok := st.(*ast.ExprStmt); ok {
						if call, ok := es.X.(*ast.CallExpr); ok {
							if id, ok := call.Fun.(*ast.Ident); ok && id.Name == "close" && len(call.Args) == 1 {
								if f, ok := isRecvField(call.Args[0], recv); ok {
									closed[f] = true
								}
							}
						}
					}
				}
				pf.closeClosesBoth = closed["done"] && closed["tasks"]
			}
		}
	}
	pf.noExtraGo = goStmts == 1
	return pf
}

func (x *extractor) analyseNewPool(fd *ast.FuncDecl, pf *poolFacts) {
	if len(fd.Type.Params.List) != 1 || len(fd.Type.Params.List[0].Names) != 1 {
		return
	}
	param := fd.Type.Params.List[0].Names[0].Name
	for _, st := range fd.Body.List {
		switch v := st.(type) {
		case *ast.IfStmt:
			// if workers <= 0 { workers = 1 }
			if be, ok := v.Cond.(*ast.BinaryExpr); ok && be.Op == token.LEQ && exprStr(be.X) == param && exprStr(be.Y) == "0" && len(v.Body.List) == 1 && v.Else == nil {
				if as, ok := v.Body.List[0].(*ast.AssignStmt); ok && len(as.Lhs) == 1 && exprStr(as.Lhs[0]) == param && exprStr(as.Rhs[0]) == "1" && as.Tok == token.ASSIGN {
					pf.clampToOne = true
				}
			}
		case *ast.ForStmt:
			// for i := 0; i < workers; i++ { go p.worker() }
			init, ok1 := v.Init.(*ast.AssignStmt)
			cond, ok2 := v.Cond.(*ast.BinaryExpr)
			post, ok3 := v.Post.(*ast.IncDecStmt)
			if ok1 && ok2 && ok3 && len(init.Lhs) == 1 && exprStr(init.Rhs[0]) == "0" && cond.Op == token.LSS &&
				exprStr(cond.X) == exprStr(init.Lhs[0]) && exprStr(cond.Y) == param && post.Tok == token.INC && len(v.Body.List) == 1 {
				if gs, ok := v.Body.List[0].(*ast.GoStmt); ok {
					if se, ok := gs.Call.Fun.(*ast.SelectorExpr); ok && se.Sel.Name == "worker" && len(gs.Call.Args) == 0 {
						pf.spawnLoopExact = true
					}
				}
			}
		case *ast.AssignStmt:
			// p := &WorkerPool{ … tasks: make(chan func(), <cap>) … }
			ast.Inspect(v, func(n ast.Node) bool {
				if kv, ok := n.(*ast.KeyValueExpr); ok && exprStr(kv.Key) == "tasks" {
					if call, ok := kv.Value.(*ast.CallExpr); ok && len(call.Args) == 2 {
						pf.capExpr = exprStr(call.Args[1])
					}
				}
				return true
			})
		}
	}
}

func (x *extractor) analyseSubmit(fd *ast.FuncDecl, pf *poolFacts) {
	recv := recvName(fd)
	if len(fd.Type.Params.List) != 1 || len(fd.Type.Params.List[0].Names) != 1 || len(fd.Body.List) != 2 {
		return
	}
	task := fd.Type.Params.List[0].Names[0].Name
	es, ok := fd.Body.List[0].(*ast.ExprStmt)
	if !ok || !isCallOn(es.X, recv, "wg", "Add") {
		return
	}
	if call := es.X.(*ast.CallExpr); len(call.Args) != 1 || exprStr(call.Args[0]) != "1" {
		return
	}
	send, ok := fd.Body.List[1].(*ast.SendStmt)
	if !ok {
		return
	}
	if f, ok := isRecvField(send.Chan, recv); !ok || f != "tasks" {
		return
	}
	pf.addBeforeSend = true
	fl, ok := send.Value.(*ast.FuncLit)
	if !ok || len(fl.Body.List) == 0 {
		return
	}
	if ds, ok := fl.Body.List[0].(*ast.DeferStmt); ok && isCallOn(ds.Call, recv, "wg", "Done") {
		pf.doneDeferredInWrapper = true
	}
	calls := 0
	ast.Inspect(fl.Body, func(n ast.Node) bool {
		if c, ok := n.(*ast.CallExpr); ok {
			if id, ok := c.Fun.(*ast.Ident); ok && id.Name == task {
				calls++
			}
		}
		return true
	})
	// exactly one call, as a plain statement of the wrapper (not in a loop / branch)
	plain := 0
	for _, st := range fl.Body.List {
		if e, ok := st.(*ast.ExprStmt); ok {
			if c, ok := e.X.(*ast.CallExpr); ok {
				if id, ok := c.Fun.(*ast.Ident); ok && id.Name == task {
					plain++
				}
			}
		}
	}
	pf.taskCalledOnce = calls == 1 && plain == 1
}

func (x *extractor) analyseWorker(fd *ast.FuncDecl, pf *poolFacts) {
	recv := recvName(fd)
	if len(fd.Body.List) != 1 {
		return
	}
	loop, ok := fd.Body.List[0].(*ast.ForStmt)
	if !ok || loop.Init != nil || loop.Cond != nil || loop.Post != nil || len(loop.Body.List) != 1 {
		return
	}
	sel, ok := loop.Body.List[0].(*ast.SelectStmt)
	if !ok || len(sel.Body.List) != 2 {
		return
	}
	okTasks, okDone := false, false
	for _, c := range sel.Body.List {
		cc := c.(*ast.CommClause)
		switch comm := cc.Comm.(type) {
		case *ast.AssignStmt: // task, ok := <-p.tasks
			if len(comm.Lhs) != 2 || len(comm.Rhs) != 1 {
				return
			}
			ue, ok := comm.Rhs[0].(*ast.UnaryExpr)
			if !ok || ue.Op != token.ARROW {
				return
			}
			if f, ok := isRecvField(ue.X, recv); !ok || f != "tasks" {
				return
			}
			taskVar, okVar := exprStr(comm.Lhs[0]), exprStr(comm.Lhs[1])
			// body: if !ok { return } ; task()
			if len(cc.Body) != 2 {
				return
			}
			ifs, ok := cc.Body[0].(*ast.IfStmt)
			if !ok || exprStr(ifs.Cond) != okVar || len(ifs.Body.List) != 1 {
				return
			}
			if _, ok := ifs.Cond.(*ast.UnaryExpr); !ok {
				return
			}
			if _, ok := ifs.Body.List[0].(*ast.ReturnStmt); !ok {
				return
			}
			es, ok := cc.Body[1].(*ast.ExprStmt)
			if !ok {
				return
			}
			call, ok := es.X.(*ast.CallExpr)
			if !ok || exprStr(call.Fun) != taskVar || len(call.Args) != 0 {
				return
			}
			okTasks = true
		case *ast.ExprStmt: // <-p.done
			ue, ok := comm.X.(*ast.UnaryExpr)
			if !ok || ue.Op != token.ARROW {
				return
			}
			if f, ok := isRecvField(ue.X, recv); !ok || f != "done" {
				return
			}
			if len(cc.Body) != 1 {
				return
			}
			if _, ok := cc.Body[0].(*ast.ReturnStmt); !ok {
				return
			}
			okDone = true
		default:
			return
		}
	}
	pf.workerLoopShape = okTasks && okDone
}

// ---------------------------------------------------------------- %w sites

type wrapSite struct {
	file, fn string
	line     int
	wraps    bool
	format   string
}

func (x *extractor) wrapFacts() []wrapSite {
	errType := types.Universe.Lookup("error").Type().Underlying().(*types.Interface)
	var out []wrapSite
	for _, f := range x.files {
		for _, d := range f.Decls {
			fd, ok := d.(*ast.FuncDecl)
			if !ok || fd.Body == nil {
				continue
			}
			ast.Inspect(fd.Body, func(n ast.Node) bool {
				call, ok := n.(*ast.CallExpr)
				if !ok {
					return true
				}
				se, ok := call.Fun.(*ast.SelectorExpr)
				if !ok || se.Sel.Name != "Errorf" || exprStr(se.X) != "fmt" || len(call.Args) < 2 {
					return true
				}
				lit, ok := call.Args[0].(*ast.BasicLit)
				if !ok {
					return true
				}
				format, _ := strconv.Unquote(lit.Value)
				verbs := formatVerbs(format)
				for i, a := range call.Args[1:] {
					tv, ok := x.info.Types[a]
					if !ok || tv.Type == nil {
						continue
					}
					if types.Implements(tv.Type, errType) {
						w := i < len(verbs) && verbs[i] == 'w'
						pos := x.fset.Position(call.Pos())
						name := fd.Name.Name
						if fd.Recv != nil && len(fd.Recv.List) == 1 {
							t := fd.Recv.List[0].Type
							if st, ok := t.(*ast.StarExpr); ok {
								t = st.X
							}
							name = exprStr(t) + "." + name
						}
						out = append(out, wrapSite{file: filepath.Base(pos.Filename), fn: name, line: pos.Line, wraps: w, format: format})
					}
				}
				return true
			})
		}
	}
	return out
}

func formatVerbs(f string) []byte {
	var out []byte
	for i := 0; i < len(f); i++ {
		if f[i] != '%' {
			continue
		}
		i++
		for i < len(f) && strings.ContainsRune("+-# 0123456789.[]*", rune(f[i])) {
			i++
		}
		if i < len(f) && f[i] != '%' {
			out = append(out, f[i])
		}
	}
	return out
}

// ---------------------------------------------------------------- rendering

func lb(b bool) string {
	if b {
		return "true"
	}
	return "false"
}

func lstr(s string) string { return strconv.Quote(s) }

func lstrs(l []string) string {
	q := make([]string, len(l))
	for i, s := range l {
		q[i] = lstr(s)
	}
	return "[" + strings.Join(q, ", ") + "]"
}

func (x *extractor) render() string {
	var sb strings.Builder
	sb.WriteString("import FlytModel.Facts\n/-! GENERATED by /verif/extract from the current source of mark3labs/flyt — do not edit. -/\nnamespace Flyt.Generated\nopen Flyt.Facts\n\n")
	sb.WriteString("def storeFacts : List MethodFacts := [\n")
	sf := x.storeFacts()
	for i, m := range sf {
		lock := map[string]string{"none": ".none", "R": ".r", "W": ".w", "mixed": ".mixed"}[m.lock]
		unlock := map[string]string{"none": ".none", "deferred": ".deferred", "other": ".other"}[m.unlock]
		sort.Strings(m.otherFields)
		fmt.Fprintf(&sb, "  { name := %s, lock := %s, lockCalls := %d, unlock := %s, lockInLoop := %s, accessBeforeLock := %s,\n    writes := %s, reads := %s, otherFields := %s, calls := %s, callInLoop := %s }",
			lstr(m.name), lock, m.lockCalls, unlock, lb(m.lockInLoop), lb(m.accessBeforeLock), lb(m.writes), lb(m.reads), lstrs(m.otherFields), lstrs(m.calls), lb(m.callInLoop))
		if i+1 < len(sf) {
			sb.WriteString(",")
		}
		sb.WriteString("\n")
	}
	sb.WriteString("]\n\n")
	pf := x.poolFacts()
	fmt.Fprintf(&sb, "def poolFacts : PoolFacts :=\n  { clampToOne := %s, spawnLoopExact := %s, addBeforeSend := %s, doneDeferredInWrapper := %s,\n    taskCalledOnce := %s, workerLoopShape := %s, waitIsWgWait := %s, closeClosesBoth := %s, noExtraGo := %s,\n    capExpr := %s }\n\n",
		lb(pf.clampToOne), lb(pf.spawnLoopExact), lb(pf.addBeforeSend), lb(pf.doneDeferredInWrapper), lb(pf.taskCalledOnce), lb(pf.workerLoopShape), lb(pf.waitIsWgWait), lb(pf.closeClosesBoth), lb(pf.noExtraGo), lstr(pf.capExpr))
	sb.WriteString("def wrapFacts : List WrapSite := [\n")
	wf := x.wrapFacts()
	for i, w := range wf {
		fmt.Fprintf(&sb, "  { file := %s, fn := %s, line := %d, wraps := %s, format := %s }", lstr(w.file), lstr(w.fn), w.line, lb(w.wraps), lstr(w.format))
		if i+1 < len(wf) {
			sb.WriteString(",")
		}
		sb.WriteString("\n")
	}
	sb.WriteString("]\n\nend Flyt.Generated\n")
	return sb.String()
}
