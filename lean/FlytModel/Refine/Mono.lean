import FlytModel.GoIR.Worlds
/-!
# Fuel monotonicity of the GoIR interpreter

If a run with recursion depth `f` produces a result (`some r`), every run with depth `g ≥ f` produces the same result:
`mono_expr` / `mono_stmt` (one step, over the two mutual blocks of `Interp.lean`), lifted to `execBlock`, `callFunc`,
`runLeafIR`. Generic in the world and in the program.
-/
namespace Flyt.Refine
open Flyt Flyt.GoIR
variable {Ω : Type}

theorem mono_expr (W : World Ω) : ∀ f,
    (∀ e st r, evalExpr W f e st = some r → evalExpr W (f + 1) e st = some r) ∧
    (∀ es st r, evalArgs W f es st = some r → evalArgs W (f + 1) es st = some r)
  | 0 => ⟨by intro e st r h; simp [evalExpr] at h, by intro e st r h; simp [evalArgs] at h⟩
  | f + 1 => by
    obtain ⟨ihE, ihA⟩ := mono_expr W f
    constructor
    · intro e st r h
      cases e <;> rw [evalExpr.eq_def] at h ⊢ <;> simp only at h ⊢ <;> grind (splits := 20) -funext [Option.map_eq_some_iff]
    · intro es st r h
      cases es with
      | nil => rw [evalArgs] at h ⊢; exact h
      | cons e rest =>
        cases rest <;> rw [evalArgs] at h ⊢ <;> grind

theorem mono_evalExpr (W : World Ω) {f e st r} (h : evalExpr W f e st = some r) : evalExpr W (f + 1) e st = some r :=
  (mono_expr W f).1 e st r h
theorem mono_evalArgs (W : World Ω) {f es st r} (h : evalArgs W f es st = some r) : evalArgs W (f + 1) es st = some r :=
  (mono_expr W f).2 es st r h

theorem mono_evalCommaOk (W : World Ω) {f e st r} (h : evalCommaOk W f e st = some r) : evalCommaOk W (f + 1) e st = some r := by
  have := @mono_evalExpr Ω W f
  unfold evalCommaOk at h ⊢
  cases e <;> simp only at h ⊢ <;> grind (splits := 20) -funext [Option.map_eq_some_iff]

theorem mono_bindE (W : World Ω) {f e st r} {g : List GV × St Ω → Option (List GV × St Ω)}
    (h : (evalExpr W f e st).bind g = some r) : (evalExpr W (f + 1) e st).bind g = some r := by
  cases hE : evalExpr W f e st with
  | none => simp [hE] at h
  | some x => rw [mono_evalExpr W hE]; rw [hE] at h; exact h
theorem mono_bindA (W : World Ω) {f es st r} {g : List GV × St Ω → Option (List GV × St Ω)}
    (h : (evalArgs W f es st).bind g = some r) : (evalArgs W (f + 1) es st).bind g = some r := by
  cases hE : evalArgs W f es st with
  | none => simp [hE] at h
  | some x => rw [mono_evalArgs W hE]; rw [hE] at h; exact h

theorem mono_evalRhs (W : World Ω) {f k rhs st r} (h : evalRhs W f k rhs st = some r) : evalRhs W (f + 1) k rhs st = some r := by
  unfold evalRhs at h ⊢
  cases rhs with
  | nil => exact mono_bindA W h
  | cons e rest =>
    cases rest with
    | nil =>
      simp only at h ⊢
      split
      · rename_i hc; rw [if_pos hc] at h; exact mono_evalCommaOk W h
      · rename_i hc; rw [if_neg hc] at h; exact mono_bindE W h
    | cons e' rest => exact mono_bindA W h

theorem mono_assignTo (W : World Ω) {f lhs v st r} (h : assignTo W f lhs v st = some r) : assignTo W (f + 1) lhs v st = some r := by
  have := @mono_evalExpr Ω W f
  unfold assignTo at h ⊢
  cases lhs <;> simp only at h ⊢ <;> grind (splits := 20) -funext [Option.map_eq_some_iff]

theorem mono_assignAll (W : World Ω) {f} : ∀ {ls vs st r}, assignAll W f ls vs st = some r → assignAll W (f + 1) ls vs st = some r := by
  have := @mono_assignTo Ω W f
  intro ls
  induction ls with
  | nil => intro vs st r h; cases vs <;> simp_all [assignAll]
  | cons l ls ih =>
    intro vs st r h
    cases vs with
    | nil => simp [assignAll] at h
    | cons v vs =>
      simp only [assignAll] at h ⊢
      cases hE : assignTo W f l v st with
      | none => simp [hE] at h
      | some x => rw [this hE]; rw [hE] at h; exact ih h

theorem mono_stmt (W : World Ω) : ∀ f,
    (∀ s st r, execStmt W f s st = some r → execStmt W (f + 1) s st = some r) ∧
    (∀ b st r, execBlock W f b st = some r → execBlock W (f + 1) b st = some r) ∧
    (∀ c p b st r, loopFor W f c p b st = some r → loopFor W (f + 1) c p b st = some r) ∧
    (∀ k v ad off n i b st r, loopRange W f k v ad off n i b st = some r → loopRange W (f + 1) k v ad off n i b st = some r) ∧
    (∀ k v l i b st r, loopAnys W f k v l i b st = some r → loopAnys W (f + 1) k v l i b st = some r) ∧
    (∀ cs st r, evalGuards W f cs st = some r → evalGuards W (f + 1) cs st = some r) ∧
    (∀ bind v cs st r, switchCases W f bind v cs st = some r → switchCases W (f + 1) bind v cs st = some r) ∧
    (∀ k v l b st r, loopPairs W f k v l b st = some r → loopPairs W (f + 1) k v l b st = some r)
  | 0 => by
    refine ⟨?_, ?_, ?_, ?_, ?_, ?_, ?_, ?_⟩ <;> intros <;> rename_i h
    · simp [execStmt] at h
    · simp [execBlock] at h
    · simp [loopFor] at h
    · simp [loopRange] at h
    · simp [loopAnys] at h
    · simp [evalGuards] at h
    · simp [switchCases] at h
    · simp [loopPairs] at h
  | f + 1 => by
    obtain ⟨ihS, ihB, ihF, ihR, ihA, ihG, ihC, ihP⟩ := mono_stmt W f
    have hE := @mono_evalExpr Ω W f
    have hAr := @mono_evalArgs Ω W f
    have hRhs := @mono_evalRhs Ω W f
    have hAll := @mono_assignAll Ω W f
    refine ⟨?_, ?_, ?_, ?_, ?_, ?_, ?_, ?_⟩
    · intro s st r h
      cases s <;> rw [execStmt.eq_def] at h ⊢ <;> simp only at h ⊢ <;> grind (splits := 20) -funext [Option.map_eq_some_iff]
    · intro b st r h
      cases b <;> rw [execBlock.eq_def] at h ⊢ <;> simp only at h ⊢ <;> grind (splits := 20) -funext [Option.map_eq_some_iff]
    · intro c p b st r h
      rw [loopFor.eq_def] at h ⊢; simp only at h ⊢; grind (splits := 20) -funext [Option.map_eq_some_iff]
    · intro k v ad off n i b st r h
      rw [loopRange.eq_def] at h ⊢; simp only at h ⊢; grind (splits := 20) -funext [Option.map_eq_some_iff]
    · intro k v l i b st r h
      rw [loopAnys.eq_def] at h ⊢; simp only at h ⊢; grind (splits := 20) -funext [Option.map_eq_some_iff]
    · intro cs st r h
      rw [evalGuards.eq_def] at h ⊢; simp only at h ⊢; grind (splits := 20) -funext [Option.map_eq_some_iff]
    · intro bind v cs st r h
      rw [switchCases.eq_def] at h ⊢; simp only at h ⊢; grind (splits := 20) -funext [Option.map_eq_some_iff]
    · intro k v l b st r h
      rw [loopPairs.eq_def] at h ⊢; simp only at h ⊢; grind (splits := 20) -funext [Option.map_eq_some_iff]

theorem mono_execBlock (W : World Ω) {f g : Nat} (hfg : f ≤ g) {b st r} (h : execBlock W f b st = some r) :
    execBlock W g b st = some r := by
  induction hfg with
  | refl => exact h
  | step _ ih => exact (mono_stmt W _).2.1 b st r ih

theorem mono_callFunc (W : World Ω) {f g : Nat} (hfg : f ≤ g) {fn args heap w r}
    (h : callFunc W f fn args heap w = some r) : callFunc W g fn args heap w = some r := by
  unfold callFunc at h ⊢
  simp only at h ⊢
  split at h
  · exact h
  · rename_i env henv
    cases hb : execBlock W f fn.body { env := env, heap := heap, w := w } with
    | none => simp [hb] at h
    | some x => rw [mono_execBlock W hfg hb]; rw [hb] at h; exact h

/-- more fuel never changes a result of `runLeafIR` -/
theorem mono_runLeafIR {f g : Nat} (hfg : f ≤ g) {fn kind n v sid cfg scr ctx r}
    (h : runLeafIR f fn kind n v sid cfg scr ctx = some r) : runLeafIR g fn kind n v sid cfg scr ctx = some r := by
  unfold runLeafIR at h ⊢
  cases hc : callFunc (leafWorld kind n v cfg scr) f fn [ctxH, .node n, storeH sid] [] ⟨[], ctx, 0⟩ with
  | none => simp [hc] at h
  | some x => rw [mono_callFunc _ hfg hc]; rw [hc] at h; exact h
end Flyt.Refine
