import FlytModel.Refine.Run
import FlytModel.Refine.Item
import FlytModel.Refine.Seq
import FlytModel.Refine.Batch
import FlytModel.Refine.FlowExec
import FlytModel.Refine.RunNode
import FlytModel.Refine.ConcSerial
import FlytModel.Proofs.L.Flow
/-!
# Property theorems about the interpreted source: the common transfer step

Every file `Refine/SourceCnn.lean` restates headline theorems of `Props/Cnn.lean` with the model function replaced by what the
definitional interpreter (`GoIR/Interp.lean`) makes of the translated Go source (`Expected/IR.lean`) in the matching world
(`GoIR/Worlds.lean`). The step is always the same: the refinement theorem says the interpretation equals `some (model …)` for every
sufficient interpreter depth, so a fact `P` about the model's result is a fact about the interpretation's result. The lemmas below are
that step, once per refinement theorem; they add NO hypothesis beyond those of the refinement theorem itself.

Form of the conclusion: `∃ result, interpretation = some result ∧ P result` — the interpretation terminates (it does not get stuck on an
unknown call, a failed assertion, a missing variable, and it does not run out of depth) AND the result has the property. Since the
interpretation is a function, this is the same as "terminates" together with "every result has the property".
-/
set_option autoImplicit false
namespace Flyt.Refine.Source
open Flyt Flyt.GoIR Flyt.Refine

/-- `Run` on a plain / function-style node (`Refine/Run.lean`) -/
theorem leaf_transfer (kind : CtxKind) (n : NodeId) (v : Nat) (sid : StoreId) (cfg : LeafCfg) (scr : LeafScript) (ctx : Ctx)
    (fuel : Nat) (hf : runFuel cfg ≤ fuel) (P : List Ev → Ctx → Outcome → Prop)
    (h : P (runLeaf kind n v sid cfg scr ctx).1 (runLeaf kind n v sid cfg scr ctx).2.1 (runLeaf kind n v sid cfg scr ctx).2.2) :
    ∃ evs ctx' out, runLeafIR fuel Flyt.Expected.IR.Run kind n v sid cfg scr ctx = some (evs, ctx', out) ∧ P evs ctx' out :=
  ⟨_, _, _, Run_refines_runLeaf_of_le kind n v sid cfg scr ctx fuel hf, h⟩

/-- `runExecWithRetries` on one item of a batch (`Refine/Item.lean`) -/
theorem item_transfer (kind : CtxKind) (n : NodeId) (v : Nat) (cfg : BatchCfg) (i : Nat) (item : Result) (scr : ItemScript) (ctx : Ctx)
    (fuel : Nat) (hf : itemFuel cfg ≤ fuel) (P : List Ev → Ctx → ItemRes → Prop)
    (h : P (runItem kind n v cfg i item scr ctx).1 (runItem kind n v cfg i item scr ctx).2.1 (runItem kind n v cfg i item scr ctx).2.2) :
    ∃ evs ctx' res, runItemIR fuel Flyt.Expected.IR.runExecWithRetries kind n v cfg i item scr ctx = some (evs, ctx', res) ∧
      P evs ctx' res :=
  ⟨_, _, _, runExecWithRetries_refines_runItem_of_le kind n v cfg i item scr ctx fuel hf, h⟩

/-- `runBatchSequential` on fresh `items` / `results` arrays (`Refine/Seq.lean`); `hidx`: the world recovers an item's index from the
    item (`idxOf`), which must be right on the list at hand — a side condition of the refinement theorem, not of the model theorems -/
theorem seq_transfer (kind : CtxKind) (n : NodeId) (v : Nat) (cfg : BatchCfg) (scr : BatchScript) (idxOf : Result → Nat)
    (items : List Result) (ctx : Ctx) (hidx : ∀ i (h : i < items.length), idxOf items[i] = i)
    (fuel : Nat) (hf : items.length + 23 ≤ fuel) (P : List Ev → Ctx → List Result → Prop)
    (h : P (itemsSeq kind n v cfg scr items 0 ctx).1 (itemsSeq kind n v cfg scr items 0 ctx).2.1
          (itemsSeq kind n v cfg scr items 0 ctx).2.2) :
    ∃ evs ctx' slots, itemsSeqIR fuel Flyt.Expected.IR.runBatchSequential kind n v cfg scr idxOf items ctx = some (evs, ctx', slots) ∧
      P evs ctx' slots :=
  ⟨_, _, _, runBatchSequential_refines_of_le kind n v cfg scr idxOf items ctx hidx fuel hf, h⟩

/-- `hidx` can be met exactly for item lists WITHOUT repeated items: then `items.idxOf` recovers every index. (For a list in which two
    positions hold the same `Result` no `idxOf` satisfies `hidx`, and the corollaries about `runBatchSequential` / `runBatchConcurrent` say
    nothing about it: a limitation of the world of `Refine/Seq.lean`, in which the item handed to `runExecWithRetries` is the only thing
    that tells the world which item script to follow.) -/
theorem hidx_of_nodup (items : List Result) (hnd : items.Nodup) :
    ∀ i (h : i < items.length), (fun r => items.idxOf r) items[i] = i :=
  fun i h => hnd.idxOf_getElem i h

/-- `runBatchConcurrent` on the serial schedule of the pool (`Refine/ConcSerial.lean`) -/
theorem concSerial_transfer (kind : CtxKind) (n : NodeId) (v : Nat) (cfg : BatchCfg) (scr : BatchScript) (idxOf : Result → Nat)
    (items : List Result) (ctx : Ctx) (hidx : ∀ i (h : i < items.length), idxOf items[i] = i)
    (fuel : Nat) (hf : items.length + 37 ≤ fuel) (P : List Ev → Ctx → List Result → Prop)
    (h : P (itemsSerialPool kind n v cfg scr items 0 false ctx).1 (itemsSerialPool kind n v cfg scr items 0 false ctx).2.1
          (itemsSerialPool kind n v cfg scr items 0 false ctx).2.2) :
    ∃ evs ctx' slots,
      itemsConcSerialIR fuel Flyt.Expected.IR.runBatchConcurrent kind n v cfg scr idxOf items ctx = some (evs, ctx', slots) ∧
      P evs ctx' slots :=
  ⟨_, _, _, runBatchConcurrent_serial_refines_of_le kind n v cfg scr idxOf items ctx hidx fuel hf, h⟩

/-- `runBatch` on a batch node (`Refine/Batch.lean`) -/
theorem batch_transfer (kind : CtxKind) (n : NodeId) (v : Nat) (sid : StoreId) (cfg : BatchCfg) (scr : BatchScript) (ctx : Ctx)
    (fuel : Nat) (hf : batchFuel scr ≤ fuel) (P : List Ev → Ctx → Outcome → Prop)
    (h : P (Flyt.runBatch kind n v sid cfg scr ctx).1 (Flyt.runBatch kind n v sid cfg scr ctx).2.1
          (Flyt.runBatch kind n v sid cfg scr ctx).2.2) :
    ∃ evs ctx' out, runBatchIR fuel Flyt.Expected.IR.runBatch kind n v sid cfg scr ctx = some (evs, ctx', out) ∧ P evs ctx' out :=
  ⟨_, _, _, runBatch_refines_of_le kind n v sid cfg scr ctx fuel hf, h⟩

/-- `Run` on a batch node, bare `*BatchNode` or the builder of `NewBatchNode` (`Refine/RunNode.lean`) -/
theorem batchNode_transfer (kind : CtxKind) (n : NodeId) (v : Nat) (sid : StoreId) (cfg : BatchCfg) (scr : BatchScript)
    (viaBuilder : Bool) (ctx : Ctx) (fuel : Nat) (hf : batchNodeFuel ≤ fuel) (P : List Ev → Ctx → Outcome → Prop)
    (h : P (Flyt.runBatch kind n v sid cfg scr ctx).1 (Flyt.runBatch kind n v sid cfg scr ctx).2.1
          (Flyt.runBatch kind n v sid cfg scr ctx).2.2) :
    ∃ evs ctx' out, runBatchNodeIR fuel Flyt.Expected.IR.Run kind n v sid cfg scr viaBuilder ctx = some (evs, ctx', out) ∧
      P evs ctx' out :=
  ⟨_, _, _, Run_dispatches_to_runBatch_of_le kind n v sid cfg scr viaBuilder ctx fuel hf, h⟩

/-- `Run` on a flow node (`Refine/RunNode.lean`). `harena`: node `fid` of the arena IS the flow `(start, ops)` the world answers reads
    of `f.start` / `f.transitions` from; `hne`: the MODEL's own fuel `mfuel + 1` (a ghost: it says which `runNode env ·` a nested `Run`
    denotes) does not run out — the hypothesis `out ≠ .fuel` of the model theorems, moved to the model side. -/
theorem flowNode_transfer (env : Flyt.Env) (fid : NodeId) (start : Option NodeId) (ops : List ConnOp) (mfuel : Nat) (sid : StoreId)
    (st : RunSt) (harena : env.arena fid = .flow start ops) (hne : (runNode env (mfuel + 1) fid sid st).2.2 ≠ .fuel)
    (fuel : Nat) (hf : flowNodeFuel ≤ fuel) (P : List Ev → RunSt → Outcome → Prop)
    (h : P (runNode env (mfuel + 1) fid sid st).1 (runNode env (mfuel + 1) fid sid st).2.1 (runNode env (mfuel + 1) fid sid st).2.2) :
    ∃ evs st' out, runFlowNodeIR fuel Flyt.Expected.IR.Run env fid start ops mfuel sid st = some (evs, st', out) ∧ P evs st' out :=
  ⟨_, _, _, Run_refines_runNode_flow_of_le env fid start ops mfuel sid st harena hne fuel hf, h⟩

/-- `Flow.Exec` on a flow with a start node (`Refine/FlowExec.lean`) -/
theorem flowExec_transfer (env : Flyt.Env) (fid s : NodeId) (ops : List ConnOp) (mfuel : Nat) (sid : StoreId) (st : RunSt)
    (hne : (flowLoop env mfuel (buildTable ops) s sid st).2.2 ≠ .fuel) (fuel : Nat) (hf : mfuel + 40 ≤ fuel)
    (P : List Ev → RunSt → Outcome → Prop)
    (h : P (flowLoop env mfuel (buildTable ops) s sid st).1 (flowLoop env mfuel (buildTable ops) s sid st).2.1
          (flowLoop env mfuel (buildTable ops) s sid st).2.2) :
    ∃ evs st' out, flowExecIR fuel Flyt.Expected.IR.Flow_Exec env fid (some s) ops mfuel sid st = some (evs, st', out) ∧
      P evs st' out :=
  ⟨_, _, _, FlowExec_refines_flowLoop_ge env fid s ops mfuel sid st fuel hf hne, h⟩

/-! ### a node of an arena as the root: `runNode` on a leaf / a batch node is the interpreted `Run` / `runBatch` plus the visit counter

`Props` theorems whose subject is `runNode env fuel root …` for an arbitrary root are carried over per kind of root. For a leaf and a
batch node `runNode` is `runLeaf` / `runBatch` with the node's id, its visit number, that visit's script and the current context, and
afterwards the visit counter of the node is bumped iff a callback ran. -/

/-- the model's run state after a visit of node `id` that recorded `evs` and left the context `ctx'` -/
def stateAfter (st : RunSt) (id : NodeId) (evs : List Ev) (ctx' : Ctx) : RunSt :=
  { (st.bumpIf (!evs.isEmpty) id) with ctx := ctx' }

theorem runNode_leaf_ne_fuel (env : Env) (mf : Nat) (id : NodeId) (sid : StoreId) (st : RunSt) (cfg : LeafCfg)
    (harena : env.arena id = .leaf cfg) : (runNode env (mf + 1) id sid st).2.2 ≠ .fuel := by
  rw [Flyt.Proofs.Flow.runNode_leaf env mf id sid st cfg harena]
  have hp := Flyt.Proofs.runLeaf_proper env.kind id (st.visits id) sid cfg (env.leafBeh id (st.visits id)) st.ctx
  intro hc; simp only [] at hc; rw [hc] at hp; exact hp

theorem runNode_batch_ne_fuel (env : Env) (mf : Nat) (id : NodeId) (sid : StoreId) (st : RunSt) (cfg : BatchCfg)
    (harena : env.arena id = .batch cfg) : (runNode env (mf + 1) id sid st).2.2 ≠ .fuel := by
  rw [Flyt.Proofs.Flow.runNode_batch env mf id sid st cfg harena]
  have hp := Flyt.Proofs.runBatch_proper env.kind id (st.visits id) sid cfg (env.batchBeh id (st.visits id)) st.ctx
  intro hc; simp only [] at hc; rw [hc] at hp; exact hp

/-- root = a plain / function-style node: a fact about `runNode env (mf + 1) id …` is a fact about the interpreted `Run` on that node -/
theorem arena_leaf_transfer (env : Env) (mf : Nat) (id : NodeId) (sid : StoreId) (st : RunSt) (cfg : LeafCfg)
    (harena : env.arena id = .leaf cfg) (fuel : Nat) (hf : runFuel cfg ≤ fuel) (P : List Ev → RunSt → Outcome → Prop)
    (h : P (runNode env (mf + 1) id sid st).1 (runNode env (mf + 1) id sid st).2.1 (runNode env (mf + 1) id sid st).2.2) :
    ∃ evs ctx' out,
      runLeafIR fuel Flyt.Expected.IR.Run env.kind id (st.visits id) sid cfg (env.leafBeh id (st.visits id)) st.ctx
        = some (evs, ctx', out) ∧ P evs (stateAfter st id evs ctx') out := by
  rw [Flyt.Proofs.Flow.runNode_leaf env mf id sid st cfg harena] at h
  exact ⟨_, _, _, Run_refines_runLeaf_of_le env.kind id (st.visits id) sid cfg (env.leafBeh id (st.visits id)) st.ctx fuel hf, h⟩

/-- root = a batch node: … about the interpreted `runBatch` on that node -/
theorem arena_batch_transfer (env : Env) (mf : Nat) (id : NodeId) (sid : StoreId) (st : RunSt) (cfg : BatchCfg)
    (harena : env.arena id = .batch cfg) (fuel : Nat) (hf : batchFuel (env.batchBeh id (st.visits id)) ≤ fuel)
    (P : List Ev → RunSt → Outcome → Prop)
    (h : P (runNode env (mf + 1) id sid st).1 (runNode env (mf + 1) id sid st).2.1 (runNode env (mf + 1) id sid st).2.2) :
    ∃ evs ctx' out,
      runBatchIR fuel Flyt.Expected.IR.runBatch env.kind id (st.visits id) sid cfg (env.batchBeh id (st.visits id)) st.ctx
        = some (evs, ctx', out) ∧ P evs (stateAfter st id evs ctx') out := by
  rw [Flyt.Proofs.Flow.runNode_batch env mf id sid st cfg harena] at h
  exact ⟨_, _, _, runBatch_refines_of_le env.kind id (st.visits id) sid cfg (env.batchBeh id (st.visits id)) st.ctx fuel hf, h⟩

/-- root = a batch node: … about the interpreted `Run` on that node (which only dispatches to `runBatch`) -/
theorem arena_batchNode_transfer (env : Env) (mf : Nat) (id : NodeId) (sid : StoreId) (st : RunSt) (cfg : BatchCfg)
    (harena : env.arena id = .batch cfg) (viaBuilder : Bool) (fuel : Nat) (hf : batchNodeFuel ≤ fuel)
    (P : List Ev → RunSt → Outcome → Prop)
    (h : P (runNode env (mf + 1) id sid st).1 (runNode env (mf + 1) id sid st).2.1 (runNode env (mf + 1) id sid st).2.2) :
    ∃ evs ctx' out,
      runBatchNodeIR fuel Flyt.Expected.IR.Run env.kind id (st.visits id) sid cfg (env.batchBeh id (st.visits id)) viaBuilder st.ctx
        = some (evs, ctx', out) ∧ P evs (stateAfter st id evs ctx') out := by
  rw [Flyt.Proofs.Flow.runNode_batch env mf id sid st cfg harena] at h
  exact ⟨_, _, _, Run_dispatches_to_runBatch_of_le env.kind id (st.visits id) sid cfg (env.batchBeh id (st.visits id)) viaBuilder
    st.ctx fuel hf, h⟩

end Flyt.Refine.Source
