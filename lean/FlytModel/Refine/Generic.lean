import FlytModel.GoIR.GenericWorld
import FlytModel.Refine.Accessors
/-!
# Refinement: the translated Go source of the generic accessors `As[T]` / `MustAs[T]` (result.go:378-399, `Flyt.Expected.IR.As`,
`Flyt.Expected.IR.MustAs`), run by the definitional interpreter of `GoIR/Interp.lean` in `genericWorld t v`
(`GoIR/GenericWorld.lean`: the world in which the type parameter `T` is `t`), computes exactly `asT t v` / `mustT t v` of
`Model/Value.lean` — for every `t : GoType`, every value `v : GoVal` the Result holds (the nil interface included, no
well-formedness hypothesis), every recursion depth `fuel ≥ 40`.

As in `Refine/Accessors.lean`, every statement is proved at the depth `f + 40` for an arbitrary `f` (`…_core`); the statements at
every `fuel ≥ 40` (`…_of_le`) and at the depth `F = 60` of the executable test (`GoIR/GenericTest.lean`) are instances.

Two layers:

* `As_source` / `MustAs_source`: what the PROGRAM does, in terms of the world's primitives only — the nil check first
  (`[encZ t, false]` on the nil interface, without consulting the assertion), otherwise whatever `x.(T)` (`assertT`) says;
  `MustAs`: the value of `As[T](r)` when it holds, stuck otherwise.
* `asCall_eq`: the world's assertion (dynamic type identical to `t`, or `t = any` and a non-nil value), guarded by the nil check,
  IS the model's `asT` — the only place the two independent definitions meet. It needs that the zero value of `t` is either the nil
  interface or a value of dynamic type `t` (`typeOf_zeroOf`): a failed assertion can therefore not hand back the held value.

The theorems come raw (the interpreter's values: `asCall t v = [encG t v (asT t v).1, .bool (asT t v).2]`, the shape of
`Refine/Accessors.lean`) and decoded (`…_dec`: `runAs … = some (asT t v)`, `runMustAs … = mustT t v` with `panic ↦ none`).

`MustAs`, failing branch: `panic(fmt.Sprintf(…, *new(T)))`. `panic` is stuck in this world as in `valueWorld` (the convention of
`MustInt` etc.); the interpreter is in fact stuck one step earlier, on the dereference `*new(T)` (`expr_deref`), which it does
not have. Either way the run is `none` at every depth, which is what `Ret.panic` is mapped to.
-/
namespace Flyt.Refine.Generic
open Flyt Flyt.GoIR Flyt.Value Flyt.GoIR.ValueW Flyt.GoIR.GenericW Flyt.Expected.IR Flyt.Refine Flyt.Refine.Acc

/-- the recursion depth of the executable test -/
def F : Nat := 60

section steps
variable {Ω : Type} (W : World Ω)
/-- the interpreter has no pointer dereference -/
theorem expr_deref (f : Nat) (a : Expr) (st : St Ω) : evalExpr W (f + 1) (.un "*" a) st = none := rfl
end steps

section world
variable (t : GoType) (v : GoVal)
local notation "W" => genericWorld t v
theorem G_field (n : Nat) (w : Unit) : (W).field (.ref "r" n) "value" w = some (encV v) := rfl
theorem G_zero : (W).global "zero:T" = some (encZ t) := rfl
theorem G_T : (W).global "T" = some typeH := rfl
theorem G_assert_go (n : Nat) (w : Unit) : (W).assert (.ref "go" n) "T" w = some (assertT t v) := rfl
theorem G_assert_nil (w : Unit) : (W).assert .nil "T" w = some (assertT t .nil) := rfl
theorem G_As (n : Nat) (h : Heap) (w : Unit) : (W).call "As[T]" [.ref "r" n] h w = some (asCall t v, h, w) := rfl
theorem G_new (n : Nat) (h : Heap) (w : Unit) : (W).call "new" [.ref "type:T" n] h w = some ([newH], h, w) := rfl
theorem G_sprintf (l : List GV) (h : Heap) (w : Unit) : (W).call "fmt.Sprintf" l h w = some ([.str ""], h, w) := by
  simp [genericWorld, valueWorld]
theorem G_panic (l : List GV) (h : Heap) (w : Unit) : (W).call "panic" l h w = none := by
  simp [genericWorld, valueWorld]
end world

macro "gensimp" " [" ts:Lean.Parser.Tactic.simpLemma,* "]" : tactic =>
  `(tactic| gosimp [expr_sel, expr_not, expr_deref, stmt_expr_call, runGeneric, callFunc, G_field, G_zero, G_T, G_assert_go,
      G_assert_nil, G_As, G_new, G_sprintf, G_panic, rH, goH, encV, $ts,*])

/-! ## the model side: the world's assertion behind the nil check is `asT` -/

/-- the zero value of a type, as an `any` holds it, is the nil interface or has that type as its dynamic type -/
theorem typeOf_zeroAs (outer : GoType) (u : GoType) :
    zeroAs outer u = .nil ∨ (zeroAs outer u).typeOf? = some outer := by
  induction u with
  | basic b => cases b <;> simp [zeroAs, GoVal.typeOf?]
  | named n u ih => simpa [zeroAs] using ih
  | _ => simp [zeroAs, GoVal.typeOf?]

theorem typeOf_zeroOf (t : GoType) : Value.zeroOf t = .nil ∨ (Value.zeroOf t).typeOf? = some t :=
  typeOf_zeroAs t t

/-- what the source of `As[T]` computes from the world's primitives: the nil check, then the assertion -/
def asSource (t : GoType) (v : GoVal) : List GV :=
  match v with
  | .nil => [encZ t, .bool false]
  | v => [(assertT t v).1, .bool (assertT t v).2]

theorem encG_self (t : GoType) (v : GoVal) : encG t v v = encV v := by simp [encG]

theorem encG_zero (t : GoType) (v : GoVal) (h : Value.zeroOf t = v → v = .nil) : encG t v (Value.zeroOf t) = encZ t := by
  unfold encG
  by_cases hz : Value.zeroOf t = v
  · have hv := h hz
    subst hv
    simp [hz, encZ, encV]
  · simp [hz]

theorem asCall_nil (t : GoType) : asCall t .nil = [encZ t, .bool false] := by
  simp [asCall, asT, GoVal.typeOf?, encG_zero]

/-- a value that is not the nil interface: `asT` is the assertion decided on the dynamic type -/
theorem asCall_typed (t : GoType) (v : GoVal) (u : GoType) (hu : v.typeOf? = some u) :
    asCall t v = [(assertT t v).1, .bool (assertT t v).2] := by
  have hv : v ≠ .nil := by intro h; subst h; simp [GoVal.typeOf?] at hu
  by_cases h : t = .any ∨ u = t
  · have hc : (t = .any ∧ v ≠ .nil) ∨ v.typeOf? = some t := by
      rcases h with h | h
      · exact .inl ⟨h, hv⟩
      · exact .inr (by rw [hu, h])
    have e1 : assertT t v = (encV v, true) := by unfold assertT; exact if_pos hc
    have e2 : asT t v = (v, true) := by unfold asT; rw [hu]; exact if_pos h
    simp [asCall, e1, e2, encG_self]
  · have hc : ¬ ((t = .any ∧ v ≠ .nil) ∨ v.typeOf? = some t) := by
      rintro (⟨h1, _⟩ | h2)
      · exact h (.inl h1)
      · rw [hu] at h2; exact h (.inr (Option.some.inj h2))
    have hz : Value.zeroOf t = v → v = .nil := by
      intro e
      rcases typeOf_zeroOf t with h0 | h0
      · rw [← e]; exact h0
      · rw [e, hu] at h0; exact absurd (.inr (Option.some.inj h0)) h
    have e1 : assertT t v = (encZ t, false) := by unfold assertT; exact if_neg hc
    have e2 : asT t v = (Value.zeroOf t, false) := by unfold asT; rw [hu]; exact if_neg h
    simp [asCall, e1, e2, encG_zero t v hz]

theorem asCall_eq (t : GoType) (v : GoVal) : asCall t v = asSource t v := by
  cases v <;> first
    | exact asCall_nil t
    | exact asCall_typed t _ _ rfl

/-- the two values a run hands back are read back as themselves -/
theorem decG_encG (t : GoType) (v x : GoVal) (h : x = v ∨ x = Value.zeroOf t) : decG t v (encG t v x) = some x := by
  unfold encG
  by_cases hx : x = v
  · subst hx; cases x <;> simp [encV, goH, decG]
  · have hz : x = Value.zeroOf t := h.resolve_left hx
    simp only [if_neg hx, if_pos hz, encZ]
    rw [← hz]
    cases x <;> simp [zeroH, decG, hz]

theorem asT_fst (t : GoType) (v : GoVal) : (asT t v).1 = v ∨ (asT t v).1 = Value.zeroOf t := by
  unfold asT
  split
  · exact .inr rfl
  · split
    · exact .inl rfl
    · exact .inr rfl

theorem decAs_asCall (t : GoType) (v : GoVal) : decAs t v (asCall t v) = some (asT t v) := by
  simp [asCall, decAs, decG_encG t v _ (asT_fst t v)]

/-! ## `As[T]` -/

/-- the program, in terms of the world's primitives -/
theorem As_source (f : Nat) (t : GoType) (v : GoVal) : runGeneric (f + 40) As t v = some (asSource t v) := by
  cases v <;> first
    | (gensimp [As, asSource]; done)
    | (cases h : assertT t _ with
       | mk g ok => cases ok <;> gensimp [As, asSource, h])

theorem As_refines_core (f : Nat) (t : GoType) (v : GoVal) : runGeneric (f + 40) As t v = some (asCall t v) := by
  rw [asCall_eq]; exact As_source f t v

theorem As_refines_of_le (t : GoType) (v : GoVal) (fuel : Nat) (h : 40 ≤ fuel) :
    runGeneric fuel As t v = some [encG t v (asT t v).1, .bool (asT t v).2] := by
  obtain ⟨k, rfl⟩ := exists_add_40 h
  exact As_refines_core k t v

theorem As_refines (t : GoType) (v : GoVal) :
    runGeneric F As t v = some [encG t v (asT t v).1, .bool (asT t v).2] :=
  As_refines_core 20 t v

/-- decoded: the run of `As[T]` IS `asT t v` -/
theorem As_dec_of_le (t : GoType) (v : GoVal) (fuel : Nat) (h : 40 ≤ fuel) : runAs fuel As t v = some (asT t v) := by
  have := As_refines_of_le t v fuel h
  unfold runAs
  rw [this]
  exact decAs_asCall t v

theorem As_dec (t : GoType) (v : GoVal) : runAs F As t v = some (asT t v) := As_dec_of_le t v F (by decide)

/-! ## `MustAs[T]` (`panic` is stuck: `none`) -/

/-- the program, in terms of what `As[T](r)` returns -/
theorem MustAs_source (f : Nat) (t : GoType) (v : GoVal) :
    runGeneric (f + 40) MustAs t v = (if (asT t v).2 then some [encG t v (asT t v).1] else none) := by
  cases h : asT t v with
  | mk x ok => cases ok <;> gensimp [MustAs, asCall, h]

theorem MustAs_refines_core (f : Nat) (t : GoType) (v : GoVal) :
    runGeneric (f + 40) MustAs t v = (match mustT t v with | .panic => none | .ok x => some [encG t v x]) := by
  rw [MustAs_source]
  cases h : asT t v with
  | mk x ok => cases ok <;> simp [mustT, h]

theorem MustAs_refines_of_le (t : GoType) (v : GoVal) (fuel : Nat) (h : 40 ≤ fuel) :
    runGeneric fuel MustAs t v = (match mustT t v with | .panic => none | .ok x => some [encG t v x]) := by
  obtain ⟨k, rfl⟩ := exists_add_40 h
  exact MustAs_refines_core k t v

theorem MustAs_refines (t : GoType) (v : GoVal) :
    runGeneric F MustAs t v = (match mustT t v with | .panic => none | .ok x => some [encG t v x]) :=
  MustAs_refines_core 20 t v

/-- decoded: the run of `MustAs[T]` IS `mustT t v` (the panic: stuck) -/
theorem MustAs_dec_of_le (t : GoType) (v : GoVal) (fuel : Nat) (h : 40 ≤ fuel) :
    runMustAs fuel MustAs t v = (match mustT t v with | .panic => none | .ok x => some x) := by
  have := MustAs_refines_of_le t v fuel h
  unfold runMustAs
  rw [this]
  have hm : mustT t v = if (asT t v).2 then .ok (asT t v).1 else .panic := by
    unfold mustT; cases h2 : (asT t v).2 <;> simp [h2]
  rw [hm]
  cases h2 : (asT t v).2 <;> simp [decMust, decG_encG t v _ (asT_fst t v)]

theorem MustAs_dec (t : GoType) (v : GoVal) :
    runMustAs F MustAs t v = (match mustT t v with | .panic => none | .ok x => some x) :=
  MustAs_dec_of_le t v F (by decide)

/-! ## non-vacuity: concrete instances -/

/-- `As[MyRec]` on a `MyRec` value holds and hands back the value itself -/
example :
    runAs 40 As (.named "MyRec" (.structField (.basic .int) (.structField tString .structEnd)))
        (.struct (.named "MyRec" (.structField (.basic .int) (.structField tString .structEnd)))
          (.cons (.int (.basic .int) 7) (.cons (.str tString "seven") .nil)))
      = some (.struct (.named "MyRec" (.structField (.basic .int) (.structField tString .structEnd)))
          (.cons (.int (.basic .int) 7) (.cons (.str tString "seven") .nil)), true) :=
  As_dec_of_le _ _ 40 (by decide)

/-- `As[[2]int]` on an `int`: fails, with the zero array -/
example :
    runAs 40 As (.array 2 (.basic .int)) (.int (.basic .int) 5)
      = some (.array (.array 2 (.basic .int)) (.cons (.int (.basic .int) 0) (.cons (.int (.basic .int) 0) .nil)), false) := by
  rw [As_dec_of_le _ _ 40 (by decide)]; decide

/-- `As[any]` on the nil interface fails (the nil check), on anything else holds -/
example : runAs 40 As .any .nil = some (.nil, false) := by
  rw [As_dec_of_le _ _ 40 (by decide)]; decide
example : runAs 40 As .any (.str tString "x") = some (.str tString "x", true) :=
  As_dec_of_le _ _ 40 (by decide)

/-- `MustAs[string]` on a string is the string; on a value of a NAMED string type it panics (stuck) -/
example : runMustAs 40 MustAs tString (.str tString "hi") = some (.str tString "hi") :=
  MustAs_dec_of_le _ _ 40 (by decide)
example : runMustAs 40 MustAs tString (.str (.named "S" tString) "hi") = none := by
  rw [MustAs_dec_of_le _ _ 40 (by decide)]; decide

end Flyt.Refine.Generic

#print axioms Flyt.Refine.Generic.As_refines_of_le
#print axioms Flyt.Refine.Generic.MustAs_refines_of_le
#print axioms Flyt.Refine.Generic.As_dec_of_le
#print axioms Flyt.Refine.Generic.MustAs_dec_of_le
