import FlytModel.Refine.BridgeStore
import FlytModel.Refine.BridgeFlow
import FlytModel.Refine.BridgePool
/-!
# Bridges: property theorems of the hand model, carried down to the interpreted source

The property theorems (`Props/C*.lean`) are about the hand-written model; the refinement theorems (`Refine/*.lean`) say that the
translated Go source, run by the definitional interpreter, computes the model's functions. The three files imported here compose the
two, per component (namespace `Flyt.Refine.Bridges`):

| file | headline theorems | property |
|------|-------------------|----------|
| `Refine/BridgeStore.lean` | `source_ops_are_model_ops`, `C13_for_interpreted_source`, `C14_for_interpreted_source`, `C14_for_interpreted_source_anyorder` | C13, C14 |
| `Refine/BridgeFlow.lean`  | `built_flow_exec_is_flowLoop`, `built_flow_Run_is_runNode`, `C03_for_interpreted_source`, `C03_reconnect_for_interpreted_source` | C03 |
| `Refine/BridgePool.lean`  | `sourceLabels_iff`, `source_run_reachable`, `C12_for_interpreted_source`, `C08_bound_for_interpreted_source` | C12, C08 |

Each file's header says which hypotheses are about the Go runtime (RWMutex guards, scheduler, channels, WaitGroup: the transition
systems' `Step` / `apply`) and which facts are derived from the source.
-/

namespace Flyt.Refine.Bridges

/-- the headline statements exist under these names (a renamed or dropped theorem breaks this file) -/
example := @source_ops_are_model_ops
example := @C13_for_interpreted_source
example := @C14_for_interpreted_source
example := @C14_for_interpreted_source_anyorder
example := @built_flow_exec_is_flowLoop
example := @C03_for_interpreted_source
example := @C12_for_interpreted_source
example := @C08_bound_for_interpreted_source

end Flyt.Refine.Bridges
