import FlytModel.Refine.SourceBase
import FlytModel.Props.C09
/-!
# C09 (stop-on-error halts the batch; unprocessed items are never reported as successes) stated about the INTERPRETED SOURCE

The sequential theorems of `Props/C09.lean` are about `itemsSeq` (and `itemsSerialPool`, the pool's serial schedule, shown equal to it).
Their interpreted counterparts: `itemsSeqIR fuel Expected.IR.runBatchSequential …` (`runBatchSequential_refines_of_le`, depth
`≥ items.length + 23`) and `itemsConcSerialIR fuel Expected.IR.runBatchConcurrent …` (`runBatchConcurrent_serial_refines_of_le`, depth
`≥ items.length + 37`).

Hypotheses: those of the model theorems, plus the depth bound, plus `hidx` — the executor worlds identify the item being processed by
its VALUE (`idxOf`), so these corollaries cover item lists without repeated items only (`hidx_of_nodup`; see `Refine/SourceC06.lean`).
Hypotheses of the model theorems that speak about the run's own trace (`hnever`, `hsplit`) sit inside the conclusion as implications on
the interpreted trace. Hypotheses about what an item's processing yields (`hfail`, `hpre` of `stop_halts_after_first_failure`) are kept
in the model's vocabulary (`runItem …`); by `runExecWithRetries_refines_runItem_of_le` they are equally statements about the
interpreted `runExecWithRetries` on that item.

In the executor worlds `runExecWithRetries` is the model's `runItem` and `markUnprocessed` its heap semantics (`markUnprocessed_refines`);
what the interpreter derives from the source of `runBatchSequential` / the task closure is exactly this property's subject: the
per-item context check, the early exit in stop mode, and the marking of every unprocessed slot as an error.
-/
set_option autoImplicit false
namespace Flyt.Refine.Source
open Flyt Flyt.GoIR Flyt.Refine Flyt.BatchSeq

/-- **Stop mode: after the first failing item nothing is executed.** If `f` is the first item whose processing returns an error, then
    the interpreted `runBatchSequential` AND the interpreted `runBatchConcurrent` on the pool's serial schedule return the same triple;
    its events are those of items `0..f` only (no `bexec i` with `i > f`), slot `f` holds the error, every later slot holds the "batch
    stopped" error, there is one slot per item. Mirrors `Props.C09.stop_halts_after_first_failure`. -/
theorem C09_stop_halts_after_first_failure_for_interpreted_source (kind : CtxKind) (n : NodeId) (v : Nat) (cfg : BatchCfg)
    (scr : BatchScript) (hs : cfg.stop = true) (hq : ∀ j, Quiet (scr.item j)) (items : List Result) (f : Nat) (hf : f < items.length)
    (e : ErrRoot) (hfail : (runItem kind n v cfg f items[f] (scr.item f) .live).2.2 = .error e)
    (hpre : ∀ j (hj : j < f), ∃ s, (runItem kind n v cfg j (items[j]'(by omega)) (scr.item j) .live).2.2 = .slot s)
    (idxOf : Result → Nat) (hidx : ∀ i (h : i < items.length), idxOf items[i] = i)
    (fuel : Nat) (hfuel : items.length + 23 ≤ fuel) (cfuel : Nat) (hcfuel : items.length + 37 ≤ cfuel) :
    ∃ evs ctx' slots,
      itemsSeqIR fuel Flyt.Expected.IR.runBatchSequential kind n v cfg scr idxOf items .live = some (evs, ctx', slots) ∧
      itemsConcSerialIR cfuel Flyt.Expected.IR.runBatchConcurrent kind n v cfg scr idxOf items .live = some (evs, ctx', slots) ∧
      (∀ ev ∈ evs, ∃ j, evItem ev = some j ∧ j ≤ f) ∧
      slots[f]? = some (newErrorResult e) ∧
      (∀ j, f < j → j < items.length → slots[j]? = some BatchSeq.stoppedSlot) ∧
      slots.length = items.length := by
  obtain ⟨h0, h1, h2, h3, h4⟩ := Props.C09.stop_halts_after_first_failure kind n v cfg scr hs hq items f hf e hfail hpre
  refine ⟨_, _, _, runBatchSequential_refines_of_le kind n v cfg scr idxOf items .live hidx fuel hfuel, ?_, h1, h2, h3, h4⟩
  rw [runBatchConcurrent_serial_refines_of_le kind n v cfg scr idxOf items .live hidx cfuel hcfuel, h0]

/-- **Every mode, with or without cancellation: an item that never ran is never presented as a success.** For a node with an exec
    function and a retry budget ≥ 1: if no event of the interpreted item loop carries index `j`, slot `j` is an error.
    Mirrors `Props.C09.never_run_never_success`. -/
theorem C09_never_run_never_success_for_interpreted_source (kind : CtxKind) (n : NodeId) (v : Nat) (cfg : BatchCfg) (scr : BatchScript)
    (hb : 0 < cfg.budget) (hex : cfg.execS ≠ .absent) (items : List Result) (ctx : Ctx) (j : Nat) (hj : j < items.length)
    (idxOf : Result → Nat) (hidx : ∀ i (h : i < items.length), idxOf items[i] = i) (fuel : Nat) (hfuel : items.length + 23 ≤ fuel) :
    ∃ evs ctx' slots,
      itemsSeqIR fuel Flyt.Expected.IR.runBatchSequential kind n v cfg scr idxOf items ctx = some (evs, ctx', slots) ∧
      (itemEvents j evs = [] → ∃ r, slots[j]? = some r ∧ r.isError = true) :=
  seq_transfer kind n v cfg scr idxOf items ctx hidx fuel hfuel
    (fun evs _ slots => itemEvents j evs = [] → ∃ r, slots[j]? = some r ∧ r.isError = true)
    (fun hnever => Props.C09.never_run_never_success kind n v cfg scr hb hex items ctx j hj hnever)

/-- … the same for the interpreted `runBatchConcurrent` on the pool's serial schedule (`itemsSerialPool_eq_seq`) -/
theorem C09_never_run_never_success_for_interpreted_serial_pool (kind : CtxKind) (n : NodeId) (v : Nat) (cfg : BatchCfg)
    (scr : BatchScript) (hb : 0 < cfg.budget) (hex : cfg.execS ≠ .absent) (items : List Result) (ctx : Ctx) (j : Nat)
    (hj : j < items.length) (idxOf : Result → Nat) (hidx : ∀ i (h : i < items.length), idxOf items[i] = i)
    (fuel : Nat) (hfuel : items.length + 37 ≤ fuel) :
    ∃ evs ctx' slots,
      itemsConcSerialIR fuel Flyt.Expected.IR.runBatchConcurrent kind n v cfg scr idxOf items ctx = some (evs, ctx', slots) ∧
      (itemEvents j evs = [] → ∃ r, slots[j]? = some r ∧ r.isError = true) := by
  refine concSerial_transfer kind n v cfg scr idxOf items ctx hidx fuel hfuel
    (fun evs _ slots => itemEvents j evs = [] → ∃ r, slots[j]? = some r ∧ r.isError = true) ?_
  rw [itemsSerialPool_eq_seq]
  exact fun hnever => Props.C09.never_run_never_success kind n v cfg scr hb hex items ctx j hj hnever

/-- … and a slot that is not one of the two "never processed" error markers is the outcome of processing that very item with its own
    script, whose events are in the trace: the real outcome of executing that item. Mirrors `Props.C09.slot_is_real_outcome_or_error`;
    the item's processing is given as the interpreted `runExecWithRetries` (any sufficient depth `ifuel`). -/
theorem C09_slot_is_real_outcome_or_error_for_interpreted_source (kind : CtxKind) (n : NodeId) (v : Nat) (cfg : BatchCfg)
    (scr : BatchScript) (items : List Result) (ctx : Ctx) (j : Nat) (hj : j < items.length)
    (idxOf : Result → Nat) (hidx : ∀ i (h : i < items.length), idxOf items[i] = i) (fuel : Nat) (hfuel : items.length + 23 ≤ fuel)
    (ifuel : Nat) (hif : itemFuel cfg ≤ ifuel) :
    ∃ evs ctx' slots,
      itemsSeqIR fuel Flyt.Expected.IR.runBatchSequential kind n v cfg scr idxOf items ctx = some (evs, ctx', slots) ∧
      ((∃ ievs ictx ires,
          runItemIR ifuel Flyt.Expected.IR.runExecWithRetries kind n v cfg j items[j] (scr.item j) .live = some (ievs, ictx, ires) ∧
          slots[j]? = some (slotOfRes ires) ∧ itemEvents j evs = ievs) ∨
       (∃ r, slots[j]? = some r ∧ r.isError = true)) := by
  refine seq_transfer kind n v cfg scr idxOf items ctx hidx fuel hfuel
    (fun evs _ slots => (∃ ievs ictx ires,
          runItemIR ifuel Flyt.Expected.IR.runExecWithRetries kind n v cfg j items[j] (scr.item j) .live = some (ievs, ictx, ires) ∧
          slots[j]? = some (slotOfRes ires) ∧ itemEvents j evs = ievs) ∨
       (∃ r, slots[j]? = some r ∧ r.isError = true)) ?_
  rcases Props.C09.slot_is_real_outcome_or_error kind n v cfg scr items ctx j hj with ⟨h1, h2⟩ | h
  · exact .inl ⟨_, _, _, runExecWithRetries_refines_runItem_of_le kind n v cfg j items[j] (scr.item j) .live ifuel hif, h1, h2⟩
  · exact .inr h

/-- **Stop mode with arbitrary scripts (cancellation included): nothing is executed after a final failure.** In the trace of the
    interpreted `runBatchSequential`, no exec call of ANY item follows an exec call that is a final failure (`Bridge.ffEv`: the item's own
    script makes it fail on its last attempt with no successful fallback). Mirrors `Props.C09.stop_mode_nothing_after_final_failure`. -/
theorem C09_stop_mode_nothing_after_final_failure_for_interpreted_source (kind : CtxKind) (n : NodeId) (v : Nat) (cfg : BatchCfg)
    (scr : BatchScript) (nn : Nat) (hs : cfg.stop = true) (items : List Result) (ctx : Ctx)
    (idxOf : Result → Nat) (hidx : ∀ i (h : i < items.length), idxOf items[i] = i) (fuel : Nat) (hfuel : items.length + 23 ≤ fuel) :
    ∃ evs ctx' slots,
      itemsSeqIR fuel Flyt.Expected.IR.runBatchSequential kind n v cfg scr idxOf items ctx = some (evs, ctx', slots) ∧
      ∀ (pre post : List Ev) (e : Ev), evs = pre ++ e :: post → Bridge.ffEv (Bridge.concCfgOf kind cfg scr nn) e = true →
        ∀ x ∈ post, isBexec x = false :=
  seq_transfer kind n v cfg scr idxOf items ctx hidx fuel hfuel
    (fun evs _ _ => ∀ (pre post : List Ev) (e : Ev), evs = pre ++ e :: post → Bridge.ffEv (Bridge.concCfgOf kind cfg scr nn) e = true →
        ∀ x ∈ post, isBexec x = false)
    (fun pre post e hsplit hff => Props.C09.stop_mode_nothing_after_final_failure kind n v cfg scr nn hs items ctx pre post e hsplit hff)

/-- … the same for the interpreted `runBatchConcurrent` on the pool's serial schedule -/
theorem C09_stop_mode_nothing_after_final_failure_for_interpreted_serial_pool (kind : CtxKind) (n : NodeId) (v : Nat) (cfg : BatchCfg)
    (scr : BatchScript) (nn : Nat) (hs : cfg.stop = true) (items : List Result) (ctx : Ctx)
    (idxOf : Result → Nat) (hidx : ∀ i (h : i < items.length), idxOf items[i] = i) (fuel : Nat) (hfuel : items.length + 37 ≤ fuel) :
    ∃ evs ctx' slots,
      itemsConcSerialIR fuel Flyt.Expected.IR.runBatchConcurrent kind n v cfg scr idxOf items ctx = some (evs, ctx', slots) ∧
      ∀ (pre post : List Ev) (e : Ev), evs = pre ++ e :: post → Bridge.ffEv (Bridge.concCfgOf kind cfg scr nn) e = true →
        ∀ x ∈ post, isBexec x = false := by
  refine concSerial_transfer kind n v cfg scr idxOf items ctx hidx fuel hfuel
    (fun evs _ _ => ∀ (pre post : List Ev) (e : Ev), evs = pre ++ e :: post → Bridge.ffEv (Bridge.concCfgOf kind cfg scr nn) e = true →
        ∀ x ∈ post, isBexec x = false) ?_
  rw [itemsSerialPool_eq_seq]
  exact fun pre post e hsplit hff =>
    Props.C09.stop_mode_nothing_after_final_failure kind n v cfg scr nn hs items ctx pre post e hsplit hff

/-! ### non-vacuity: the F1 scenario of `Props/C09.lean` (5 items, item 2 fails, stop mode), the item loop run by the interpreter -/

/-- the five items prep produces in that scenario (`normItems .anys`) -/
def exItemsC09 : List Result := [newResult (.tok 1), newResult (.tok 2), newResult (.tok 3), newResult (.tok 4), newResult (.tok 5)]

example : exItemsC09.Nodup := by decide

example : itemsSeqIR 28 Flyt.Expected.IR.runBatchSequential .canceled 0 0 Props.C09.exCfg Props.C09.exScr
      (fun r => exItemsC09.idxOf r) exItemsC09 .live =
    some ([.bexec 0 0 0 0 (.tok 1), .bexec 0 0 1 0 (.tok 2), .bexec 0 0 2 0 (.tok 3)], .live,
      [newResult (.tok 100), newResult (.tok 101), newErrorResult (.user 7),
       newErrorResult (.fw .batchStopped), newErrorResult (.fw .batchStopped)]) := by
  rw [runBatchSequential_refines_of_le _ _ _ _ _ _ _ _ (hidx_of_nodup exItemsC09 (by decide)) 28 (by decide)]; decide

/-!
## Carried over / not carried over

Carried over (subject `itemsSeq` / `itemsSerialPool`; `runBatchSequential_refines_of_le`, `runBatchConcurrent_serial_refines_of_le`; all
with the extra hypothesis `hidx`, i.e. for item lists without repeated items): `stop_halts_after_first_failure` (both executors in one
statement, as in the model theorem), `never_run_never_success`, `slot_is_real_outcome_or_error` (the item's processing given as the
interpreted `runExecWithRetries`), `stop_mode_nothing_after_final_failure`; the last three also for the serial schedule of the pool.

Not carried over:
* `after_failure_only_committed_items_run`, `failing_item_raises_stop`, `failed_task_meaning`, `error_result_value_does_not_stop`,
  `at_most_one_new_item_per_other_worker`, `one_worker_nothing_runs_after_failure`, `stopped_task_gets_error`,
  `never_executed_slot_is_error`, `ok_slot_is_real_outcome`, `spec_slotMatches_holds`, `spec_c09_holds_partial` — subject is the LTS
  `Flyt.Conc` (every schedule); `gated_states_quiescent`, `driver_fuel_is_enough`, `gated_no_new_item_after_final_failure`,
  `spec_c09_holds_gated` — subject is the gated simulation of that LTS. No refinement theorem equates the interpreted
  `runBatchConcurrent` with the LTS for general schedules (the per-task tie is `Refine/Task.lean`: each `step` segment of the
  interpreted closure is one `Label.step` of the LTS);
* `spec_c09_holds_seq` — bridge to the driver's executable predicate `Spec.c09`.
-/

end Flyt.Refine.Source
