import FlytModel.Refine.Submit
import FlytModel.Refine.Task
import FlytModel.Refine.Pool
import FlytModel.Refine.BridgePool
import FlytModel.Proofs.BatchConc
import FlytModel.Props.C06
import FlytModel.Props.C07
import FlytModel.Props.C09
import FlytModel.Props.C11
/-!
# Assembly: every goroutine of the concurrent batch contributes LTS labels — `runBatchConcurrent`, interpreted, against `Model/BatchConc.lean`

The hand model of `runBatchConcurrent` for ALL schedules is the labelled transition system `Model/BatchConc.lean` (`Conc.apply`, labels
`submit / take / step i / ret i / cancel / waitRet`); its invariants are `Proofs/BatchConc.lean` and `Props/C06 … C11`, all stated over
`Conc.Reachable`. The interpreted source is covered goroutine by goroutine: the SUBMITTER (`Refine/Submit.lean`), each TASK closure
(`Refine/Task.lean`), the pool's methods and its WORKERS (`Refine/Pool.lean`). This file puts the pieces together.

| | |
|---|---|
| `runLabels`, `accepted_run_reachable` | ANY label list `Conc.apply` accepts step by step from `Conc.init c` is a `Reachable` run |
| `poolActsOf`, `poolActsOf_sound`, `poolLabelsOf`, `concOfPool` | composition submitter → pool methods → pool LTS → batch LTS (below) |
| `submitter_labels` | the submitter's trace maps to `submit × n, waitRet` |
| `SubmitterSource`, `submitterSource_iff` | the label lists the interpreted submitter yields are exactly that |
| `labelOfTAct`, `taskLabelsOf_segs`, `TaskSource`, `TaskShape`, `taskSource_iff` | the task closure of item `i` yields exactly `step i` / `step i, step i` / `step i, step i, ⟨item call: step i, ret i …⟩, step i` — one `step i` per segment of `Task.task_labels` |
| `workerLabelOf`, `wrapper_inline_conc`, `WorkerSource`, `WorkerShape`, `workerSource_iff` | a worker yields exactly `take, ⟨task t₁⟩, take, ⟨task t₂⟩, …`: the receive on `tasks` is `take`, the call of the received wrapper is the task's labels |
| `SourceLabels`, `RoleLabels`, `sourceLabels_iff` | per role, the sequences of the interpreted source = the LTS's label shapes |
| `SourceRun`, `SourceRun.prefix`, `source_run_reachable` | a run of the program: goroutines from the source, interleaved, accepted; it is a `Reachable` run, and so is every prefix |
| `submitter_projection`, `submitter_projection_prefix` | conversely: the `submit` / `waitRet` labels of ANY accepted run are `submit × next (, waitRet)`, a prefix of the source's sequence |
| `reachable_store_forms`, `step_is_source_segment`, `stop_raised_only_by_failed_store` | conversely: every task step of the LTS has the effect of the closure's segment; the flag is raised only by a failed task's store, in stop mode |
| `submitted_closure_is_task`, `kth_submit_creates_task_k` | the closure of the `k`-th `Submit` is the task closure, created in an environment where what it captures is `taskArgs … k items[k] …` |
| `StateOK`, `accepted_run_ok`, **`batch_assembly`**, `sourceRun_of_shapes` | the headline statement |

## what is proved from the source, and what is the LTS's

FROM THE SOURCE (the definitional interpreter on the translated functions, each goroutine for itself): the ORDER and NUMBER of one
goroutine's actions and their EFFECTS — the submitter makes the pool, submits one task per item in index order, each capturing its own
index and item, waits, closes, writes no slot and returns nothing (`Submit.submitter_refines_of_le`, `kth_submit_creates_task_k`); a
task does stop check / context check / item call / store in this order, under the lock discipline, writes exactly ONE slot, its own,
raises the flag only after a failure in stop mode (`Task.task_closure_paths`, `task_discipline`, `task_labels`: each segment has the
effect of the LTS step at its program counter, `SegOK`); `Submit` is `wg.Add(1)` then the send, `Wait` is `wg.Wait()`, a worker
receives, runs the wrapper (`defer wg.Done()`, the task), and loops (`Refine/Pool.lean`). All of this is `hsrc` of `SourceRun`.

THE LTS's (NOT from the source): which interleavings happen and when a blocking operation may complete — the Go scheduler, the
semantics of the buffered channel (`submit` only while `queue.length < cap`, `take` only from a non-empty queue by an idle worker, FIFO),
of the WaitGroup (`waitRet` only when everything submitted has finished), of `sync.Mutex` (a critical section is ONE atomic `step i`:
`Task.task_discipline` shows the source brackets exactly those actions by `Lock` / `Unlock`), of the context (`cancel` from anywhere),
and the inside of `runExecWithRetries` (`loopTop` / `inExec` / `ret i`; `Refine/Item.lean` refines the callee against the sequential
`runItem`, and `ItemRun` only says that those labels are task `i`'s own). That is `hacc` of `SourceRun`: the runtime lets an action
complete only when `Conc.apply` accepts its label. The safety invariants need nothing else — `accepted_run_ok` holds of ANY accepted
label list — so `hsrc` and `hint` do not strengthen the conclusion; they say that the runs of the Go program are AMONG the runs the
theorems of `Proofs/BatchConc.lean` / `Props/C06 … C11` quantify over, with `sourceLabels_iff` + `submitter_projection` +
`step_is_source_segment` showing that the LTS's own idea of each goroutine's sequence and effects is the source's. The LTS accepts more
than the runtime produces (it does not check that a `step i` is taken by the worker whose `take` dequeued `i`, nor how many goroutines
claim to be workers — `idle` bounds them; nor that there is one submitter — `next` serialises them): for invariants of all reachable
states that is the safe direction.

## how `Submit` was composed (the LTS's `submit` bundles `wg.Add` + send)

The submitter's action `submit k item` is a CALL of the pool method `Submit`, which has its own refinement: its body does
`wgAdd 1, send tasks closure` (`poolActsOf_sound` = `Pool.WorkerPool_Submit_refines_of_le`), i.e. the labels `add k, send k` of the POOL
LTS (`Model/Pool.lean`, `Pool.labelsOf (.submitter k)`), about which `Refine/BridgePool.lean` proves C12 / C08. The batch LTS is a
coarser view of the same pool, specialised to one submitting goroutine (`concOfPool`): `send k ↦ submit` (completion of the channel
send: `next + 1`, the index appended to `queue`; enabled while `queue.length < cap`), `add k ↦` nothing (between `Add` and the send
the task is simply not submitted yet; the pool LTS's `wg = pend + queue + running` (`C12_for_interpreted_source`) becomes, with `pend`
always empty at a `waitRet` of the single submitter that has returned from its last `Submit`, the batch LTS's guard
`next = n ∧ queue = [] ∧ running = []`), `take ↦ take`, `finish t ↦` nothing of its own (`Conc.finish` is folded into task `t`'s last
`step t`), `callWait ↦` nothing, `waitRet ↦ waitRet`, `close` / `exit ↦` nothing (after `Wait` returned; the batch LTS ends at post).
`NewWorkerPool(concurrency)` contains a `go` statement and is not run by the sequential interpreter (`Refine/Pool.lean:
NewWorkerPool_*`, `clamp_exec`); it is `Conc.init c` with `c.w = workersOf concurrency` idle workers (and `c.cap = 2 * c.w`, not needed by
any invariant here).
-/
namespace Flyt.Refine.ConcAssembly
open Flyt Flyt.GoIR Flyt.Refine
open Flyt.Conc (Cfg Pc BState Label apply init Reachable Path Trans trans_of_apply ids pcOf setPc finish setSlot)
open Flyt.GoIR.SubmitW (SAct SW submitterTrace bodyTrace submitsFrom runSubmitter submitterArgs)
open Flyt.GoIR.TaskW (TAct TW ItemOut runTask taskOf taskTrace secStop secCtx secStore slotOf)
open Flyt.Refine.Task (TSeg taskSegs effectL StoreForm)
set_option autoImplicit false
set_option linter.unusedSimpArgs false
set_option linter.unusedVariables false

/-! ## label lists the LTS accepts -/

/-- apply the labels one after the other; `none` as soon as one is not accepted -/
def runLabels (c : Cfg) (s : BState) : List Label → Option BState
  | [] => some s
  | l :: ls => (apply c s l).bind fun t => runLabels c t ls

theorem runLabels_append (c : Cfg) (s : BState) (a b : List Label) :
    runLabels c s (a ++ b) = (runLabels c s a).bind fun t => runLabels c t b := by
  induction a generalizing s with
  | nil => rfl
  | cons l t ih =>
    simp only [List.cons_append, runLabels]
    cases apply c s l with
    | none => rfl
    | some q => simp only [Option.bind_some]; exact ih q

theorem path_of_runLabels {c : Cfg} {s s' : BState} {ls : List Label} (h : runLabels c s ls = some s') : Path c s s' := by
  induction ls generalizing s with
  | nil => simp only [runLabels, Option.some.injEq] at h; subst h; exact .refl s
  | cons l t ih =>
    simp only [runLabels] at h
    cases hl : apply c s l with
    | none => rw [hl] at h; cases h
    | some s1 =>
      rw [hl, Option.bind_some] at h
      exact (Path.step (.refl s) ⟨l, hl⟩).trans (ih h)

/-- **ANY label list that `Conc.apply` accepts step by step is a `Reachable` run** (no assumption on where the labels come from) -/
theorem accepted_run_reachable {c : Cfg} {s s' : BState} {ls : List Label} (hs : Reachable c s) (h : runLabels c s ls = some s') :
    Reachable c s' := hs.path (path_of_runLabels h)

/-- every prefix of an accepted list is accepted -/
theorem runLabels_prefix {c : Cfg} {s s' : BState} {a b : List Label} (h : runLabels c s (a ++ b) = some s') :
    ∃ p, runLabels c s a = some p ∧ runLabels c p b = some s' := by
  rw [runLabels_append] at h
  cases hp : runLabels c s a with
  | none => rw [hp] at h; cases h
  | some p => rw [hp, Option.bind_some] at h; exact ⟨p, rfl, h⟩

/-! ## the submitter: `submit` × n, then `waitRet`

Two steps. (1) Each action of the submitter on the pool is a CALL of a pool method, whose own body `Refine/Pool.lean` proves to perform
certain synchronisation actions (`poolActsOf`, `poolActsOf_sound`) — `Submit`: `wg.Add(1)`, then the channel send; `Wait`: `wg.Wait()`;
`Close`: `close(done)`, `close(tasks)`. Those are labels of the POOL LTS (`poolLabelsOf`: `add k, send k`; `callWait, waitRet`; `close`).
(2) The batch LTS is coarser than the pool LTS: its `submit` is the completion of the channel send (the preceding `wg.Add(1)` is not a
step of its own: a task between `Add` and the send is simply not submitted yet — `next` is unchanged — and `waitRet` is enabled by
`next = n ∧ queue = [] ∧ running = []`, which is "counter zero" for a single submitter that has made all its `Add`s); its `waitRet` is
the return of `wg.Wait()`; `Close` (after `Wait` returned) and `NewWorkerPool` (= `Conc.init`: `w` idle workers) are no steps. -/

/-- the synchronisation actions of the pool method the submitter calls (`Refine/Pool.lean`) -/
def poolActsOf : SAct → List PoolW.Act
  | .submit _ _ => [.wgAdd 1, .send .tasks (.ref "closure" 0)]
  | .wait => [.wgWait]
  | .close => [.closeCh .done, .closeCh .tasks]
  | _ => []

/-- **`poolActsOf` is what the interpreted pool methods do**: the translated source of `Submit` / `Wait` / `Close`, run in `poolWorld`
    from any state, with any task value, at any depth `≥ 7`, appends exactly `poolActsOf` of the submitter's action to the trace -/
theorem poolActsOf_sound (k : Nat) (r : Result) (task : GV) (w : PoolW.PW) (fuel : Nat) (hf : 7 ≤ fuel) :
    PoolW.view (PoolW.run fuel Flyt.Expected.IR.WorkerPool_Submit [PoolW.poolH, task] w) =
      some ([], w.trace ++ poolActsOf (.submit k r), w.script, w.defers) ∧
    PoolW.view (PoolW.run fuel Flyt.Expected.IR.WorkerPool_Wait [PoolW.poolH] w) =
      some ([], w.trace ++ poolActsOf .wait, w.script, w.defers) ∧
    PoolW.view (PoolW.run fuel Flyt.Expected.IR.WorkerPool_Close [PoolW.poolH] w) =
      some ([], w.trace ++ poolActsOf .close, w.script, w.defers) :=
  ⟨Pool.WorkerPool_Submit_refines_of_le (by omega) task w, Pool.WorkerPool_Wait_refines_of_le (by omega) w,
   Pool.WorkerPool_Close_refines_of_le hf w⟩

/-- in which role (`Refine/Pool.lean`) the submitter performs an action -/
def poolRoleOf : SAct → Pool.Role
  | .submit k _ => .submitter k
  | .wait => .waiter
  | _ => .closer

/-- the labels of the POOL LTS an action of the submitter contributes -/
def poolLabelsOf (a : SAct) : List Flyt.Pool.Label := Pool.labelsOf (poolRoleOf a) (poolActsOf a)

/-- pool LTS → batch LTS -/
def concOfPool : Flyt.Pool.Label → List Label
  | .send _ => [.submit]
  | .take => [.take]
  | .waitRet => [.waitRet]
  | _ => []

/-- the labels of the batch LTS the submitter's trace contributes -/
def submitterLabels (tr : List SAct) : List Label := (tr.flatMap poolLabelsOf).flatMap concOfPool

theorem poolLabelsOf_submit (k : Nat) (r : Result) : poolLabelsOf (.submit k r) = [.add k, .send k] := rfl
theorem poolLabelsOf_wait : poolLabelsOf .wait = [.callWait, .waitRet] := rfl
theorem poolLabelsOf_close : poolLabelsOf .close = [.close] := rfl

theorem submitterLabels_append (a b : List SAct) : submitterLabels (a ++ b) = submitterLabels a ++ submitterLabels b := by
  simp [submitterLabels]

theorem submitterLabels_submitsFrom (i : Nat) (items : List Result) :
    submitterLabels (submitsFrom i items) = List.replicate items.length .submit := by
  induction items generalizing i with
  | nil => rfl
  | cons x t ih =>
    have : submitsFrom i (x :: t) = [.submit i x] ++ submitsFrom (i + 1) t := rfl
    rw [this, submitterLabels_append, ih]; rfl

/-- the pool LTS labels of the whole call: `add k, send k` per item in index order, `callWait, waitRet`, `close` -/
theorem pool_labels_submitterTrace (conc : Int) (items : List Result) :
    (submitterTrace conc items).flatMap poolLabelsOf =
      ((List.range items.length).flatMap fun k => [Flyt.Pool.Label.add k, .send k]) ++ [.callWait, .waitRet, .close] := by
  have h : ∀ (i : Nat) (l : List Result), (submitsFrom i l).flatMap poolLabelsOf =
      (List.range' i l.length).flatMap fun k => [Flyt.Pool.Label.add k, .send k] := by
    intro i l
    induction l generalizing i with
    | nil => rfl
    | cons x t ih => simp [submitsFrom, poolLabelsOf_submit, ih, List.range'_succ]
  have e1 : [SAct.newPool conc, SAct.deferClose].flatMap poolLabelsOf = [] := rfl
  have e2 : [SAct.wait].flatMap poolLabelsOf = [.callWait, .waitRet] := rfl
  have e3 : [SAct.close].flatMap poolLabelsOf = [.close] := rfl
  simp only [submitterTrace, bodyTrace, List.flatMap_append, h, e1, e2, e3, List.range_eq_range']
  simp

/-- **the batch LTS labels of the whole call: `submit` once per item, then `waitRet`** -/
theorem submitter_labels (conc : Int) (items : List Result) :
    submitterLabels (submitterTrace conc items) = List.replicate items.length .submit ++ [.waitRet] := by
  have e1 : submitterLabels [SAct.newPool conc, SAct.deferClose] = [] := rfl
  have e2 : submitterLabels [SAct.wait] = [.waitRet] := rfl
  have e3 : submitterLabels [SAct.close] = [] := rfl
  simp only [submitterTrace, bodyTrace, submitterLabels_append, submitterLabels_submitsFrom, e1, e2, e3]
  simp

/-- `NewWorkerPool(conc)` starts `max 1 conc` workers (`Refine/Pool.lean: NewWorkerPool_clamp_first`, `clamp_exec`) -/
def workersOf (conc : Int) : Nat := if conc ≤ 0 then 1 else conc.toNat

/-- **what the interpreted source yields for the submitter**: `ls` is the label list of a run of the interpreter on the translated
    `runBatchConcurrent` (in a fresh `submitWorld`, at a sufficient depth) on `c.n` items found anywhere in the heap, with a
    `concurrency` that gives `c.w` workers; the other arguments are arbitrary -/
def SubmitterSource (c : Cfg) (ls : List Label) : Prop :=
  ∃ (fuel : Nat) (ctx node results eh : GV) (conc : Int) (ia : Nat) (pre items post : List Result) (h : Heap),
    items.length + 11 ≤ fuel ∧ h[ia]? = some (pre ++ items ++ post) ∧ items.length = c.n ∧ workersOf conc = c.w ∧
    (runSubmitter fuel Flyt.Expected.IR.runBatchConcurrent
        (submitterArgs ctx node ia pre.length items.length results conc eh) h { ia := ia, off := pre.length }).map
      (fun r => submitterLabels r.2.2.trace) = some ls

/-- **… is exactly `submit` × `n`, then `waitRet`** -/
theorem submitterSource_iff (c : Cfg) (hw : 0 < c.w) (ls : List Label) :
    SubmitterSource c ls ↔ ls = List.replicate c.n .submit ++ [.waitRet] := by
  constructor
  · rintro ⟨fuel, ctx, node, results, eh, conc, ia, pre, items, post, h, hf, hc, hn, _, hrun⟩
    rw [Submit.submitter_refines_of_le ctx node results eh ia pre.length conc items h (Submit.hget_window h ia pre items post hc)
      _ rfl rfl rfl fuel hf] at hrun
    simp only [Option.map_some, Option.some.injEq, List.nil_append, List.append_nil] at hrun
    rw [← hrun, ← hn]
    exact submitter_labels conc items
  · rintro rfl
    refine ⟨c.n + 11, .nil, .nil, .nil, .nil, (c.w : Int), 0, [], List.replicate c.n ⟨Val.nil, none⟩, [],
      [List.replicate c.n ⟨Val.nil, none⟩], by simp, by simp, by simp, ?_, ?_⟩
    · simp only [workersOf]; split <;> omega
    · rw [Submit.submitter_refines_of_le .nil .nil .nil .nil 0 ([] : List Result).length (c.w : Int) (List.replicate c.n ⟨Val.nil, none⟩)
        [List.replicate c.n ⟨Val.nil, none⟩]
        (Submit.hget_window _ 0 [] _ [] (by simp)) { ia := 0, off := ([] : List Result).length } rfl rfl rfl (c.n + 11) (by simp)]
      simp only [Option.map_some, Option.some.injEq, List.nil_append, List.append_nil]
      have := submitter_labels (c.w : Int) (List.replicate c.n ⟨Val.nil, none⟩)
      simpa [submitterTrace] using this

/-! ## a task: `step i` per critical section / context check, the item call in between

`Refine/Task.lean: task_labels` cuts the trace of the task closure into segments, each `step` segment being ONE `Label.step i` of the
LTS at its program counter (`SegOK`). Read off the trace: a segment ends with the action that ends it — the `unlock` of a critical
section (`stopCheck`, `store`), the context test `ctxErr` (`ctxCheck`; the write of the cancelled slot follows it and belongs to the same
step). `callItem` — the call of `runExecWithRetries`, made with `mu` free — is the LTS's walk from `loopTop 0 none` to `store r failed`:
a list `mid` of `step i` / `ret i` labels (`ret i` = the user's exec callback of item `i` returns; `Refine/Item.lean` is the refinement
of the callee), of which the closure-level trace sees only the outcome. -/

/-- the labels of the inside of `runExecWithRetries` for item `i`: only task `i`'s own `step` / `ret` -/
def ItemRun (i : Nat) (mid : List Label) : Prop := ∀ l ∈ mid, l = .step i ∨ l = .ret i

def labelOfTAct (i : Nat) (mid : List Label) : TAct → List Label
  | .unlock => [.step i]
  | .ctxErr _ => [.step i]
  | .callItem _ _ => mid
  | _ => []

def taskLabelsOf (i : Nat) (mid : List Label) (tr : List TAct) : List Label := tr.flatMap (labelOfTAct i mid)

/-- the labels of a segment of `Refine/Task.lean` -/
def segLabels (i : Nat) (mid : List Label) : TSeg → List Label
  | .step _ _ _ => [.step i]
  | .item _ _ _ => mid

/-- reading the labels off the trace = one `step i` per `step` segment of `task_labels`, `mid` for the item segment -/
theorem taskLabelsOf_segs (sm b1 : Bool) (i : Nat) (item : Result) (ctx : Ctx) (o : ItemOut) (mid : List Label) :
    taskLabelsOf i mid (taskTrace sm b1 i item ctx o) = (taskSegs sm b1 i item ctx o).flatMap (segLabels i mid) := by
  rcases o with ⟨v, _ | e⟩ <;> cases sm <;> cases b1 <;> cases ctx <;>
    simp [taskLabelsOf, taskTrace, taskSegs, secStop, secCtx, secStore, TaskW.raises, Ctx.isDone, labelOfTAct, segLabels]

/-- the shapes -/
inductive TaskShape (c : Cfg) (i : Nat) : List Label → Prop
  /-- flag up at the stop check, mode `"stop"`: one step (the stopped slot) -/
  | stopped : c.stop = true → TaskShape c i [.step i]
  /-- context done at the context check: stop check, context check (the cancelled slot) -/
  | cancelled : TaskShape c i [.step i, .step i]
  /-- stop check, context check, the item call, the store -/
  | ran (mid : List Label) : ItemRun i mid → TaskShape c i (.step i :: .step i :: (mid ++ [.step i]))

/-- **what the interpreted source yields for the task of item `i`** (the closure `Submit` is handed, `Refine/Task.lean`): the labels of
    a run of the interpreter on it, from ANY world with `mu` free — any flag, interference, context, item outcome — in the mode of `c` -/
def TaskSource (c : Cfg) (i : Nat) (ls : List Label) : Prop :=
  ∃ (fuel : Nat) (eh : String) (item : Result) (nd : GV) (w : TW) (mid : List Label),
    15 ≤ fuel ∧ w.held = false ∧ w.trace = [] ∧ i < w.slots.length ∧ c.stop = (eh == "stop") ∧ ItemRun i mid ∧
    (runTask fuel (taskOf Flyt.Expected.IR.runBatchConcurrent) eh i item nd w).map (fun r => taskLabelsOf i mid r.2.trace) = some ls

theorem taskTrace_labels (sm b1 : Bool) (i : Nat) (item : Result) (ctx : Ctx) (o : ItemOut) (mid : List Label) :
    taskLabelsOf i mid (taskTrace sm b1 i item ctx o) =
      if b1 && sm then [.step i] else if ctx.isDone then [.step i, .step i] else .step i :: .step i :: (mid ++ [.step i]) := by
  rcases o with ⟨v, _ | e⟩ <;> cases sm <;> cases b1 <;> cases ctx <;>
    simp [taskLabelsOf, taskTrace, secStop, secCtx, secStore, TaskW.raises, Ctx.isDone, labelOfTAct]

/-- **… is exactly one of the three shapes** -/
theorem taskSource_iff (c : Cfg) (i : Nat) (ls : List Label) : TaskSource c i ls ↔ TaskShape c i ls := by
  constructor
  · rintro ⟨fuel, eh, item, nd, w, mid, hf, hh, htr, hi, hstop, hmid, hrun⟩
    rw [Task.task_closure_refines_of_le eh i item nd w hh hi fuel hf] at hrun
    simp only [Option.map_some, Option.some.injEq, Task.taskSem_trace, htr, List.nil_append, taskTrace_labels] at hrun
    subst hrun
    cases hb : (w.flagAtLock && eh == "stop")
    · cases hd : w.ctx.isDone
      · simp only [Bool.false_eq_true, if_false]; exact .ran mid hmid
      · simp only [Bool.false_eq_true, if_false, if_true]; exact .cancelled
    · simp only [if_true]
      rw [Bool.and_eq_true] at hb
      exact .stopped (by rw [hstop]; exact hb.2)
  · intro h
    cases h with
    | stopped hs =>
      refine ⟨15, "stop", ⟨Val.nil, none⟩, .nil, { stop := true, slots := List.replicate (i + 1) ⟨Val.nil, none⟩ }, [], by omega, rfl, rfl,
        by simp, by simpa using hs, (by intro l hl; cases hl), ?_⟩
      rw [Task.task_closure_refines_of_le _ _ _ _ _ rfl (by simp) _ (by omega)]
      simp [Task.taskSem_trace, taskTrace_labels, TW.flagAtLock]
    | cancelled =>
      refine ⟨15, if c.stop then "stop" else "continue", ⟨Val.nil, none⟩, .nil,
        { ctx := .done .canceled, slots := List.replicate (i + 1) ⟨Val.nil, none⟩ }, [], by omega, rfl, rfl,
        by simp, by cases c.stop <;> decide, (by intro l hl; cases hl), ?_⟩
      rw [Task.task_closure_refines_of_le _ _ _ _ _ rfl (by simp) _ (by omega)]
      simp [Task.taskSem_trace, taskTrace_labels, TW.flagAtLock, Ctx.isDone]
    | ran mid hmid =>
      refine ⟨15, if c.stop then "stop" else "continue", ⟨Val.nil, none⟩, .nil,
        { slots := List.replicate (i + 1) ⟨Val.nil, none⟩ }, mid, by omega, rfl, rfl,
        by simp, by cases c.stop <;> decide, hmid, ?_⟩
      rw [Task.task_closure_refines_of_le _ _ _ _ _ rfl (by simp) _ (by omega)]
      simp [Task.taskSem_trace, taskTrace_labels, TW.flagAtLock, Ctx.isDone]

/-! ## a worker: `take`, then the labels of the task it received — again and again

`Refine/Pool.lean` (`WorkerPool_worker_refines_of_le`): a worker that is delivered the tasks `ts` does `recv (some t), run (wrapper t)` per
task, in the order of delivery, then leaves on a closed channel. A receive that delivered a task is the batch LTS's `take` (the pool LTS's
`take`: `concOfPool`). `run (wrapper t)` is the call of the function value received: the closure `Submit` wrapped around the task it was
given — for the batch, around the task closure of item `t` — which (`WorkerPool_Submit_wrapper_runWithDefers`) registers `wg.Done()`,
calls the task, and is done: `deferDone, run (user t), wgDone`. So the call contributes the labels `tl t` of the task closure of item `t`
(`wrapper_inline_conc`); `wg.Done()` is no step of the batch LTS of its own (`Conc.finish` is part of the task's last `step t`: the
worker is idle again, the task no longer `running`, which is what `waitRet` looks at), nor is leaving after `Close`. -/

def workerLabelOf (tl : Nat → List Label) : PoolW.Act → List Label
  | .recv (some _) => [.take]
  | .run (.wrapper t) => tl t
  | _ => []

def workerLabelsOf (tl : Nat → List Label) (tr : List PoolW.Act) : List Label := tr.flatMap (workerLabelOf tl)

/-- the same map inside the wrapper closure: its call of the user's task `t` is where the task's labels come from -/
def wrapperLabelOf (tl : Nat → List Label) : PoolW.Act → List Label
  | .run (.user t) => tl t
  | _ => []

/-- inlining the wrapper's own actions (`Refine/Pool.lean: WorkerPool_Submit_wrapper_runWithDefers`) into the worker's trace does not
    change the labels -/
theorem wrapper_inline_conc (tl : Nat → List Label) (t : Nat) :
    workerLabelsOf tl [.run (.wrapper t)] = [PoolW.Act.deferDone, .run (.user t), .wgDone].flatMap (wrapperLabelOf tl) := by
  simp [workerLabelsOf, workerLabelOf, wrapperLabelOf]

theorem workerLabelsOf_workerActs (tl : Nat → List Label) (ts : List Nat) (stop : PoolW.Obs) (hstop : stop.isStop = true) :
    workerLabelsOf tl (PoolW.workerActs ts ++ [PoolW.finalAct stop]) = ts.flatMap fun t => .take :: tl t := by
  induction ts with
  | nil => cases stop <;> first | rfl | simp [PoolW.Obs.isStop] at hstop
  | cons t ts ih =>
    simp only [workerLabelsOf, PoolW.workerActs, List.flatMap_cons, List.flatMap_append, List.append_assoc] at ih ⊢
    rw [ih]; simp [workerLabelOf]

/-- **what the interpreted source yields for a worker**: the labels of a run of the interpreter on the translated `WorkerPool.worker`
    with ANY script of observations, at ANY depth at which it returns, each task's labels being ones the interpreted task closure yields -/
def WorkerSource (c : Cfg) (ls : List Label) : Prop :=
  ∃ (fuel : Nat) (w : PoolW.PW) (tl : Nat → List Label), w.trace = [] ∧ (∀ t, TaskSource c t (tl t)) ∧
    (PoolW.run fuel Flyt.Expected.IR.WorkerPool_worker [PoolW.poolH] w).map (fun r => workerLabelsOf tl r.2.trace) = some ls

/-- `take, ⟨task t₁⟩, take, ⟨task t₂⟩, …` for ANY list of delivered tasks, each task in one of its three shapes -/
def WorkerShape (c : Cfg) (ls : List Label) : Prop :=
  ∃ (ts : List Nat) (tl : Nat → List Label), (∀ t, TaskShape c t (tl t)) ∧ ls = ts.flatMap fun t => .take :: tl t

theorem workerSource_iff (c : Cfg) (ls : List Label) : WorkerSource c ls ↔ WorkerShape c ls := by
  constructor
  · rintro ⟨fuel, w, tl, hw, htl, h⟩
    have htl' : ∀ t, TaskShape c t (tl t) := fun t => (taskSource_iff c t _).1 (htl t)
    rcases Bridges.script_split w.script with ⟨ts, hsc⟩ | ⟨ts, stop, rest, hstop, hsc⟩
    · have hb := Pool.WorkerPool_worker_blocks fuel ts w
      rw [Bridges.with_script_eq w _ hsc] at hb
      rw [hb] at h; cases h
    · cases hr : PoolW.run fuel Flyt.Expected.IR.WorkerPool_worker [PoolW.poolH] w with
      | none => rw [hr] at h; cases h
      | some x =>
        have hbig := Bridges.run_mono (Nat.le_max_left fuel (11 + 1 * ts.length)) hr
        have hl := Pool.WorkerPool_worker_refines_of_le ts (Nat.le_max_right fuel (11 + 1 * ts.length)) stop hstop rest w
        rw [Bridges.with_script_eq w _ hsc, hbig] at hl
        rw [hr] at h
        simp only [PoolW.view, Option.map_some, Option.some.injEq, Prod.mk.injEq] at h hl
        refine ⟨ts, tl, htl', ?_⟩
        rw [← h, hl.2.1, hw, List.nil_append, workerLabelsOf_workerActs tl ts stop hstop]
  · rintro ⟨ts, tl, htl, rfl⟩
    refine ⟨11 + 1 * ts.length, { ({} : PoolW.PW) with script := ts.map .task ++ [.doneClosed] }, tl, rfl,
      fun t => (taskSource_iff c t _).2 (htl t), ?_⟩
    have hl := Pool.WorkerPool_worker_refines_of_le ts (Nat.le_refl _) .doneClosed rfl [] {}
    cases hr : PoolW.run (11 + 1 * ts.length) Flyt.Expected.IR.WorkerPool_worker [PoolW.poolH]
        { ({} : PoolW.PW) with script := ts.map .task ++ [.doneClosed] } with
    | none => rw [hr] at hl; simp [PoolW.view] at hl
    | some x =>
      rw [hr] at hl
      simp only [PoolW.view, Option.map_some, Option.some.injEq, Prod.mk.injEq] at hl
      simp only [Option.map_some, Option.some.injEq]
      rw [hl.2.1]
      exact workerLabelsOf_workerActs tl ts .doneClosed rfl

/-! ## the program: goroutines, interleaved, accepted by the LTS -/

/-- the goroutines of a run of `runBatchConcurrent`: the one that executes it, the pool's workers (each running the tasks it
    receives), and — not part of the source — whoever cancels the caller's context -/
inductive Role | submitter | worker | canceller
  deriving DecidableEq, Repr

/-- **the label sequences the INTERPRETED SOURCE contributes**, role by role (a canceller contributes the one label `cancel`: from
    anywhere, at any moment) -/
def SourceLabels (c : Cfg) : Role → List Label → Prop
  | .submitter, ls => SubmitterSource c ls
  | .worker, ls => WorkerSource c ls
  | .canceller, ls => ls = [.cancel]

/-- the same sets, explicitly: the label shapes the LTS has -/
def RoleLabels (c : Cfg) : Role → List Label → Prop
  | .submitter, ls => ls = List.replicate c.n .submit ++ [.waitRet]
  | .worker, ls => WorkerShape c ls
  | .canceller, ls => ls = [.cancel]

/-- **The per-goroutine label sequences of the interpreted source are exactly `RoleLabels`.** -/
theorem sourceLabels_iff (c : Cfg) (hw : 0 < c.w) (r : Role) (ls : List Label) : SourceLabels c r ls ↔ RoleLabels c r ls := by
  cases r with
  | submitter => exact submitterSource_iff c hw ls
  | worker => exact workerSource_iff c ls
  | canceller => exact Iff.rfl

structure Goroutine where
  role : Role
  labels : List Label

/-- **a run of the program** `runBatchConcurrent` under configuration `c`, with label list `ls`, ending in `s`: `hsrc` each goroutine
    contributes a label sequence the interpreted source yields for its role, `hint` interleaved in some way (each consumed front to
    back, not necessarily to its end), `hacc` each label accepted by `Conc.apply` when its turn comes (the runtime) -/
def SourceRun (c : Cfg) (ls : List Label) (s : BState) : Prop :=
  ∃ gs : List Goroutine, (∀ g ∈ gs, SourceLabels c g.role g.labels) ∧ Bridges.Interleave (gs.map (·.labels)) ls ∧
    runLabels c (init c) ls = some s

/-- every prefix of a run of the program is a run of the program -/
theorem SourceRun.prefix {c : Cfg} {a b : List Label} {s : BState} (h : SourceRun c (a ++ b) s) :
    ∃ p, SourceRun c a p ∧ runLabels c p b = some s := by
  obtain ⟨gs, hsrc, hint, hacc⟩ := h
  obtain ⟨p, hp, hrest⟩ := runLabels_prefix hacc
  exact ⟨p, ⟨gs, hsrc, hint.prefix, hp⟩, hrest⟩

/-- **A run of the program is a `Reachable` run of the LTS.** -/
theorem source_run_reachable {c : Cfg} {ls : List Label} {s : BState} (h : SourceRun c ls s) : Reachable c s := by
  obtain ⟨_, _, _, hacc⟩ := h
  exact accepted_run_reachable .init hacc

/-! ## the converse: what the LTS lets each goroutine do is what the source does

The LTS is the hand model; `SourceLabels` says the source's sequences have its shapes. Conversely: (1) the `submit` / `waitRet` labels of
ANY accepted run, in their order, are a prefix of the submitter's source sequence `submit × n, waitRet` — the LTS's enabledness
(`next < n`, `next = n ∧ ¬ posted`) is the source's program order; (2) every `step i` the LTS takes at one of a task's own program
counters changes the shared data `(shouldStop, results)` exactly as the corresponding segment of the interpreted task closure does
(`Refine/Task.lean`: `secStop`, `secCtx`, `secStore` with the flag / context of THAT state), and every `store` counter it ever holds is
the slot of an outcome of `runExecWithRetries`. -/

def isSubmitterLabel : Label → Bool
  | .submit => true
  | .waitRet => true
  | _ => false

theorem apply_next_posted {c : Cfg} {s s' : BState} {l : Label} (h : apply c s l = some s') :
    (l = .submit ∧ s'.next = s.next + 1 ∧ s'.posted = s.posted ∧ s.next < c.n) ∨
    (l = .waitRet ∧ s'.next = s.next ∧ s.posted = false ∧ s'.posted = true ∧ s.next = c.n) ∨
    (isSubmitterLabel l = false ∧ s'.next = s.next ∧ s'.posted = s.posted) := by
  cases trans_of_apply h with
  | submit hn hc => exact .inl ⟨rfl, rfl, rfl, hn⟩
  | take t q hq hi => exact .inr (.inr ⟨rfl, rfl, rfl⟩)
  | cancel hc => exact .inr (.inr ⟨rfl, rfl, rfl⟩)
  | waitRet hn hq hr hp => exact .inr (.inl ⟨rfl, rfl, hp, rfl, hn⟩)
  | advance i pc b evs pc' l hpc hm hl =>
    refine .inr (.inr ⟨?_, rfl, rfl⟩)
    rcases hl with rfl | rfl <;> rfl
  | finish i pc r b hpc hf => exact .inr (.inr ⟨rfl, rfl, rfl⟩)

theorem submitter_projection_from {c : Cfg} (ls : List Label) : ∀ {s0 s : BState}, Reachable c s0 → runLabels c s0 ls = some s →
    s0.next ≤ s.next ∧ (s0.posted = true → s.posted = true) ∧
    ls.filter isSubmitterLabel =
      List.replicate (s.next - s0.next) .submit ++ (if s.posted && !s0.posted then [.waitRet] else []) := by
  induction ls with
  | nil =>
    intro s0 s _ h
    simp only [runLabels, Option.some.injEq] at h; subst h
    simp
  | cons l t ih =>
    intro s0 s hr h
    simp only [runLabels] at h
    cases hl : apply c s0 l with
    | none => rw [hl] at h; cases h
    | some s1 =>
      rw [hl, Option.bind_some] at h
      have hr1 : Reachable c s1 := hr.step ⟨l, hl⟩
      have hrs : Reachable c s := accepted_run_reachable hr1 h
      obtain ⟨h1, h2, h3⟩ := ih hr1 h
      have hn := (Conc.inv_reachable hrs).nextLe
      rcases apply_next_posted hl with ⟨rfl, e1, e2, e3⟩ | ⟨rfl, e1, e2, e3, e4⟩ | ⟨e0, e1, e2⟩
      · have hp0 : s0.posted = false := by
          cases hp : s0.posted with
          | false => rfl
          | true => have := ((Conc.flagInv_reachable hr).postedDone hp).1; omega
        refine ⟨by omega, fun hp => (by rw [hp0] at hp; cases hp), ?_⟩
        rw [List.filter_cons_of_pos (by rfl), h3, e1, e2,
          show s.next - s0.next = (s.next - (s0.next + 1)) + 1 from by omega, List.replicate_succ]
        rfl
      · have hsp : s.posted = true := h2 e3
        refine ⟨by omega, fun _ => hsp, ?_⟩
        rw [List.filter_cons_of_pos (by rfl), h3, e3, e2, hsp, show s.next - s1.next = 0 from by omega,
          show s.next - s0.next = 0 from by omega]
        rfl
      · refine ⟨by omega, fun hp => h2 (by rw [e2]; exact hp), ?_⟩
        rw [List.filter_cons_of_neg (by rw [e0]; simp), h3, e1, e2]

/-- **The submitter's labels in ANY accepted run**, in their order: `submit` × `next`, then `waitRet` if post has run — a prefix of
    the source's `submit × n, waitRet` (`submitter_labels`); `waitRet` only after all `n` submits. -/
theorem submitter_projection {c : Cfg} {ls : List Label} {s : BState} (h : runLabels c (init c) ls = some s) :
    ls.filter isSubmitterLabel = List.replicate s.next .submit ++ (if s.posted then [.waitRet] else []) ∧
    s.next ≤ c.n ∧ (s.posted = true → s.next = c.n) := by
  have hr := accepted_run_reachable .init h
  obtain ⟨_, _, h3⟩ := submitter_projection_from ls .init h
  refine ⟨?_, (Conc.inv_reachable hr).nextLe, fun hp => ((Conc.flagInv_reachable hr).postedDone hp).1⟩
  simpa [init] using h3

/-- … hence a prefix of what the interpreted submitter yields -/
theorem submitter_projection_prefix {c : Cfg} {ls : List Label} {s : BState} (h : runLabels c (init c) ls = some s) :
    ∃ rest, List.replicate c.n Label.submit ++ [.waitRet] = ls.filter isSubmitterLabel ++ rest := by
  obtain ⟨h1, h2, h3⟩ := submitter_projection h
  rw [h1]
  cases hp : s.posted with
  | true => exact ⟨[], by simp [h3 hp]⟩
  | false =>
    refine ⟨List.replicate (c.n - s.next) .submit ++ [.waitRet], ?_⟩
    simp only [Bool.false_eq_true, if_false, List.append_nil, ← List.append_assoc, List.replicate_append_replicate]
    rw [show s.next + (c.n - s.next) = c.n from by omega]

/-- every `store r failed` counter of a reachable state is the slot of an outcome of `runExecWithRetries`, `failed` = its error is
    non-nil: what the source's second critical section acts on (`Task.segOK_store`) -/
theorem reachable_store_forms {c : Cfg} {s : BState} (hr : Reachable c s) (i : Nat) (r : Result) (f : Bool)
    (hin : (i, Pc.store r f) ∈ s.running) : ∃ o : ItemOut, r = slotOf o ∧ f = o.err.isSome := by
  suffices h : StoreForm r f from Task.store_forms r f h
  induction hr with
  | init => simp [init] at hin
  | step _ hs ih =>
    obtain ⟨l, hl⟩ := hs
    rcases Task.apply_store_forms c _ _ l hl i r f hin with h | h
    · exact ih h
    · exact h

/-- **Every step the LTS takes at a task's own program counter is the source's segment**, with the flag / context of that state: same
    effect on `(shouldStop, results)`. (`loopTop` / `inExec` are the inside of `runExecWithRetries`: `Refine/Item.lean`.) -/
theorem step_is_source_segment {c : Cfg} {s s' : BState} (hr : Reachable c s) (i : Nat) (h : apply c s (.step i) = some s') :
    (pcOf s i = some .stopCheck →
      (s'.shouldStop, s'.slots) = effectL (secStop c.stop s.shouldStop i) (s.shouldStop, s.slots)) ∧
    (pcOf s i = some .ctxCheck →
      (s'.shouldStop, s'.slots) = effectL (secCtx s.cancelled i) (s.shouldStop, s.slots)) ∧
    (∀ r f, pcOf s i = some (.store r f) → ∃ o : ItemOut, r = slotOf o ∧ f = o.err.isSome ∧
      (s'.shouldStop, s'.slots) = effectL (secStore c.stop i o) (s.shouldStop, s.slots)) := by
  refine ⟨fun hpc => ?_, fun hpc => ?_, fun r f hpc => ?_⟩
  · obtain ⟨s1, h1, h2, _⟩ := Task.segOK_stopCheck c i c.stop s.shouldStop s.cancelled rfl s hpc (fun _ => rfl) (fun hc => by cases hc)
    rw [h] at h1; cases h1; exact h2
  · obtain ⟨s1, h1, h2, _⟩ := Task.segOK_ctxCheck c i s.shouldStop s.cancelled s hpc (fun hc => by cases hc) (fun _ => rfl)
    rw [h] at h1; cases h1; exact h2
  · obtain ⟨o, rfl, rfl⟩ := reachable_store_forms hr i r f (Conc.pcOf_mem hpc)
    refine ⟨o, rfl, rfl, ?_⟩
    obtain ⟨s1, h1, h2, _⟩ := Task.segOK_store c i c.stop s.shouldStop s.cancelled o rfl s hpc (fun hc => by cases hc) (fun hc => by cases hc)
    rw [h] at h1; cases h1; exact h2

/-- the flag is raised only by the store step of a task whose `runExecWithRetries` FAILED, in stop mode -/
theorem stop_raised_only_by_failed_store {c : Cfg} {s s' : BState} {l : Label} (h : apply c s l = some s')
    (h0 : s.shouldStop = false) (h1 : s'.shouldStop = true) :
    c.stop = true ∧ ∃ i r, l = .step i ∧ pcOf s i = some (.store r true) := by
  cases trans_of_apply h with
  | submit => simp [h0] at h1
  | take => simp [h0] at h1
  | cancel => simp [h0] at h1
  | waitRet => simp [h0] at h1
  | advance i pc b evs pc' l hpc hm hl => simp [h0] at h1
  | finish i pc r b hpc hf =>
    cases hf with
    | stopHit hs _ => rw [h0] at hs; cases hs
    | ctxHit => simp [h0] at h1
    | store r failed =>
      simp only [Conc.finish_shouldStop, h0, Bool.false_or, Bool.and_eq_true] at h1
      obtain ⟨rfl, hs⟩ := h1
      exact ⟨hs, i, r, rfl, hpc⟩

/-! ## the closure the submitter hands over is the task closure, with its own index and item -/

/-- the function literal in the `Submit` statement of the loop body is closure number 0 of `runBatchConcurrent` — the task closure
    `Refine/Task.lean` is about (`taskOf`, there with what it captures as leading parameters) -/
theorem submitted_closure_is_task :
    Submit.submitStmt = .expr (.mcall (.var "pool") "Submit" E[(.funcLit [] (taskOf Flyt.Expected.IR.runBatchConcurrent).body)]) ∧
    (closuresOf Flyt.Expected.IR.runBatchConcurrent).length = 1 := ⟨rfl, rfl⟩

/-- **Task `k` is the closure of the `k`-th `Submit`, run on ITS OWN index and item.** In ANY world whose `Submit` does not run the
    closure: iteration `k` of the loop (item `item`) is one `mcall pool "Submit" [closure]` made in an environment in which the variables
    the closure captures have the values `taskArgs results eh k item node` — the arguments `Refine/Task.lean` runs the task of item `k`
    with (`runTask` / `runTaskHeap`: `task_closure_refines_of_le`, `task_discipline`, `task_labels`) — and `shouldStop` is `false`. -/
theorem kth_submit_creates_task_k {Ω : Type} (W : World Ω) (node results p : GV) (ia off n : Nat) (conc : Int) (eh : String)
    (k : Nat) (item : Result) (h : Heap) (w : Ω) (hinv : W.invokes p "Submit" = false) (f : Nat) :
    execBlock W (f + 5) concBody
        ⟨("item", .result item) :: ("i", .int k) :: Submit.sEnv TaskW.ctxRef node ia off n results conc (.str eh) p, h, w⟩ =
      (match W.mcall p "Submit" [.ref "closure" 0] h w with
       | some (_, h', w') =>
         some (.next, ⟨Submit.submitEnv TaskW.ctxRef node ia off n results conc (.str eh) p k item, h', w'⟩)
       | none => none) ∧
    TaskW.captured.map (Submit.submitEnv TaskW.ctxRef node ia off n results conc (.str eh) p k item).get =
      (TaskW.taskArgs results eh k item node).map some ∧
    (Submit.submitEnv TaskW.ctxRef node ia off n results conc (.str eh) p k item).get "shouldStop" = some (.bool false) := by
  refine ⟨?_, Submit.captured_at_submit node results p ia off n conc eh k item⟩
  rw [Submit.concBody_env, Submit.submitStmt_exec W f _ h w p rfl hinv]
  cases W.mcall p "Submit" [.ref "closure" 0] h w with
  | none => rfl
  | some x => rfl

/-! ## assembly -/

/-- the headline invariants (`Proofs/BatchConc.lean`, `Props/C06 / C07 / C09 / C11`) in a state `p` of a run that goes on to `s` -/
structure StateOK (c : Cfg) (p s : BState) : Prop where
  reach : Reachable c p
  /-- POSITIONAL RESULTS: `n` slots; slot `j` is changed only by the last step of task `j` itself … -/
  slotsLen : p.slots.length = c.n
  ownWriter : ∀ (l : Label) (p' : BState) (j : Nat), apply c p l = some p' → p'.slots[j]? ≠ p.slots[j]? →
    l = .step j ∧ j ∈ ids p ∧ j ∉ ids p'
  /-- … once: a written slot is never rewritten … -/
  writtenOnce : ∀ (j : Nat) (r : Result), p.slots[j]? = some (some r) → s.slots[j]? = some (some r)
  /-- … and holds the outcome of item `j`'s own processing -/
  ownOutcome : ∀ (j : Nat) (r : Result), p.slots[j]? = some (some r) → Conc.Origin c p.cancelled (Conc.hist p) j r
  /-- each index is in exactly one place: not yet submitted, queued, held by a worker, or finished with its slot written -/
  onePlace : (p.queue ++ ids p).Nodup ∧ ∀ i : Nat, (∃ r : Result, p.slots[i]? = some (some r)) ↔ (i < p.next ∧ i ∉ p.queue ∧ i ∉ ids p)
  /-- AT MOST `w` TASKS RUNNING; the channel never overflows -/
  bound : p.running.length ≤ c.w ∧ p.running.length + p.idle = c.w ∧ p.queue.length ≤ c.cap
  /-- STOP FLAG: never raised in continue mode … -/
  stopOff : c.stop = false → p.shouldStop = false
  /-- … raised only by the store step of a task whose `runExecWithRetries` failed, in stop mode … -/
  stopRaise : ∀ (l : Label) (p' : BState), apply c p l = some p' → p.shouldStop = false → p'.shouldStop = true →
    c.stop = true ∧ ∃ (i : Nat) (r : Result), l = .step i ∧ pcOf p i = some (.store r true)
  /-- … once raised it stays; no task passes the stop check any more; only tasks that had passed it still start exec calls … -/
  stopSticky : c.stop = true → p.shouldStop = true →
    s.shouldStop = true ∧ (∀ j : Nat, Conc.pastStopCheck s j → Conc.pastStopCheck p j) ∧
    ∃ new, s.log = new ++ p.log ∧ ∀ j k : Nat, Conc.Obs.start j k ∈ new → Conc.pastStopCheck p j ∧ j ∈ ids p
  /-- … and a task at its stop check gets the "batch stopped" error slot and ends -/
  stopped : c.stop = true → p.shouldStop = true → ∀ (i : Nat) (p' : BState), pcOf p i = some .stopCheck → apply c p (.step i) = some p' →
    p'.slots = setSlot p.slots i Conc.stoppedSlot ∧ i ∉ ids p'
  /-- `Wait` returns only when all `n` tasks have been submitted and have finished: every slot is written -/
  waitBarrier : ∀ p' : BState, apply c p .waitRet = some p' →
    p.next = c.n ∧ p.queue = [] ∧ p.running = [] ∧ ∀ i : Nat, i < c.n → ∃ r : Result, p'.slots[i]? = some (some r)
  /-- every step of a task at its own program counters is the interpreted closure's segment -/
  steps : ∀ (i : Nat) (p' : BState), apply c p (.step i) = some p' →
    (pcOf p i = some .stopCheck →
      (p'.shouldStop, p'.slots) = effectL (secStop c.stop p.shouldStop i) (p.shouldStop, p.slots)) ∧
    (pcOf p i = some .ctxCheck →
      (p'.shouldStop, p'.slots) = effectL (secCtx p.cancelled i) (p.shouldStop, p.slots)) ∧
    (∀ (r : Result) (f : Bool), pcOf p i = some (.store r f) → ∃ o : ItemOut, r = slotOf o ∧ f = o.err.isSome ∧
      (p'.shouldStop, p'.slots) = effectL (secStore c.stop i o) (p.shouldStop, p.slots))

theorem stateOK_of_reachable {c : Cfg} {p s : BState} (hr : Reachable c p) (hp : Path c p s) : StateOK c p s := by
  have inv := Conc.inv_reachable hr
  refine
    { reach := hr
      slotsLen := inv.slotsLen
      ownWriter := fun l p' j hl => (Props.C06.slot_written_by_own_task_once hr hl).1
      writtenOnce := fun j r h => Conc.slot_stable hr hp h
      ownOutcome := fun j r h => Props.C06.slot_is_own_outcome hr h
      onePlace := ⟨inv.nodup, inv.slotIff⟩
      bound := ⟨by have := inv.workers; omega, inv.workers, inv.qcap⟩
      stopOff := Props.C07.stop_flag_untouched hr
      stopRaise := fun l p' hl => stop_raised_only_by_failed_store hl
      stopSticky := fun hstop hs => by
        obtain ⟨a, b, d, _, _⟩ := Props.C09.after_failure_only_committed_items_run hr hp hstop hs
        exact ⟨a, b, d⟩
      stopped := fun hstop hs i p' hpc hl => by
        obtain ⟨a, _, b, _⟩ := Props.C09.stopped_task_gets_error hstop hs hpc hl
        exact ⟨a, b⟩
      waitBarrier := fun p' hw => by
        obtain ⟨a, b, d, _, _, e⟩ := Props.C06.post_after_all_settled hr hw
        exact ⟨a, b, d, fun i hi => by obtain ⟨r, hr', _⟩ := e i hi; exact ⟨r, hr'⟩⟩
      steps := fun i p' hl => step_is_source_segment hr i hl }

/-- **Every label list the LTS accepts.** For every list of labels that `Conc.apply` accepts step by step from `Conc.init c`, in
    EVERY state `p` on the way (after every prefix `l₁`): the headline invariants hold (`StateOK`), and the submitter's labels so far
    are, in order, `submit × p.next` (then `waitRet` if post has run) — a prefix of the interpreted submitter's sequence. -/
theorem accepted_run_ok {c : Cfg} {ls : List Label} {s : BState} (h : runLabels c (init c) ls = some s) :
    ∀ l₁ l₂, ls = l₁ ++ l₂ → ∃ p, runLabels c (init c) l₁ = some p ∧ runLabels c p l₂ = some s ∧ StateOK c p s ∧
      l₁.filter isSubmitterLabel = List.replicate p.next .submit ++ (if p.posted then [.waitRet] else []) ∧ p.next ≤ c.n := by
  rintro l₁ l₂ rfl
  obtain ⟨p, hp, hrest⟩ := runLabels_prefix h
  obtain ⟨h1, h2, _⟩ := submitter_projection hp
  exact ⟨p, hp, hrest, stateOK_of_reachable (accepted_run_reachable .init hp) (path_of_runLabels hrest), h1, h2⟩

/-- **Assembly: `runBatchConcurrent`, interpreted, goroutine by goroutine, against the LTS.** For a run of the program (`SourceRun`:
    some goroutines — the submitter, workers, a canceller — each contributing a label sequence the INTERPRETED SOURCE yields for its
    role, interleaved in some way, every label accepted by `Conc.apply` when its turn comes):
    (1) every prefix of it is a run of the program, ends in a reachable state `p` of the LTS, in which the headline invariants hold
        (`StateOK`: positional results — slot `i` written only by task `i`, once, with item `i`'s own outcome; at most `w` tasks
        running; the stop flag's semantics; the `Wait` barrier; each task step = the closure's segment), and the submitter's labels so
        far are `submit × p.next (, waitRet)`;
    (2) the label sequences the goroutines contribute are exactly the label shapes the LTS has (`RoleLabels`): `submit × n, waitRet`
        for the submitter; `take, ⟨task⟩, take, ⟨task⟩, …` for a worker, each `⟨task t⟩` being `step t` | `step t, step t` |
        `step t, step t, ⟨step t / ret t …⟩, step t`; `cancel`. -/
theorem batch_assembly {c : Cfg} (hw : 0 < c.w) {ls : List Label} {s : BState} (h : SourceRun c ls s) :
    (∀ l₁ l₂, ls = l₁ ++ l₂ → ∃ p, SourceRun c l₁ p ∧ runLabels c p l₂ = some s ∧ StateOK c p s ∧
      l₁.filter isSubmitterLabel = List.replicate p.next .submit ++ (if p.posted then [.waitRet] else []) ∧ p.next ≤ c.n) ∧
    (∃ gs : List Goroutine, (∀ g ∈ gs, RoleLabels c g.role g.labels) ∧ Bridges.Interleave (gs.map (·.labels)) ls) := by
  refine ⟨?_, ?_⟩
  · rintro l₁ l₂ rfl
    obtain ⟨p, hsrc, hrest⟩ := h.prefix
    have hacc : runLabels c (init c) l₁ = some p := by obtain ⟨_, _, _, h3⟩ := hsrc; exact h3
    obtain ⟨h1, h2, _⟩ := submitter_projection hacc
    exact ⟨p, hsrc, hrest, stateOK_of_reachable (source_run_reachable hsrc) (path_of_runLabels hrest), h1, h2⟩
  · obtain ⟨gs, hsrc, hint, _⟩ := h
    exact ⟨gs, fun g hg => (sourceLabels_iff c hw g.role g.labels).1 (hsrc g hg), hint⟩

/-- conversely, goroutines with the LTS's label shapes, interleaved and accepted, ARE a run of the interpreted program -/
theorem sourceRun_of_shapes {c : Cfg} (hw : 0 < c.w) {ls : List Label} {s : BState} (gs : List Goroutine)
    (hsh : ∀ g ∈ gs, RoleLabels c g.role g.labels) (hint : Bridges.Interleave (gs.map (·.labels)) ls)
    (hacc : runLabels c (init c) ls = some s) : SourceRun c ls s :=
  ⟨gs, fun g hg => (sourceLabels_iff c hw g.role g.labels).2 (hsh g hg), hint, hacc⟩

/-! ## non-vacuity

Two items, ONE worker, stop mode, budget 1, no fallback; item 0's exec fails. The submitter submits both and waits; the worker takes
task 0 — stop check, context check, into the exec call, its return (error 7), out of the retry loop, store: the flag goes up — then
takes task 1, which is stopped at its stop check; `Wait` returns. Every hypothesis of `SourceRun` holds of it. -/

def exC : Cfg :=
  { n := 2, w := 1, cap := 2, stop := true, budget := 1, fb := .passThrough, execS := .any,
    exec := fun i _ => if i = 0 then { res := .error 7 } else { res := .ok (.tok 1) }, fbOut := fun _ => { res := .error 0 },
    kind := .canceled }

def exLabels : List Label :=
  [.submit, .submit, .take, .step 0, .step 0, .step 0, .ret 0, .step 0, .step 0, .take, .step 1, .waitRet]

def exTasks (t : Nat) : List Label := if t = 0 then [.step 0, .step 0, .step 0, .ret 0, .step 0, .step 0] else [.step t]

theorem exLabels_accepted : (runLabels exC (init exC) exLabels).map (fun q => (q.posted, q.shouldStop, q.slots)) =
    some (true, true, [some (newErrorResult (.user 7)), some Conc.stoppedSlot]) := by decide

example : ∃ q, SourceRun exC exLabels q ∧ q.posted = true ∧ q.shouldStop = true ∧
    q.slots = [some (newErrorResult (.user 7)), some Conc.stoppedSlot] := by
  have hacc := exLabels_accepted
  cases hq : runLabels exC (init exC) exLabels with
  | none => rw [hq] at hacc; cases hacc
  | some q =>
    rw [hq] at hacc
    simp only [Option.map_some, Option.some.injEq, Prod.mk.injEq] at hacc
    refine ⟨q, sourceRun_of_shapes (by decide)
      [⟨.submitter, [.submit, .submit, .waitRet]⟩, ⟨.worker, [.take] ++ exTasks 0 ++ [.take] ++ exTasks 1⟩] ?_ ?_ hq, hacc⟩
    · intro g hg
      simp only [List.mem_cons, List.not_mem_nil, or_false] at hg
      rcases hg with rfl | rfl
      · rfl
      · refine ⟨[0, 1], exTasks, fun t => ?_, rfl⟩
        by_cases ht : t = 0
        · subst ht
          exact .ran [.step 0, .ret 0, .step 0] (by intro l hl; simp at hl; rcases hl with rfl | rfl | rfl <;> simp)
        · simp only [exTasks, ht, if_false]; exact .stopped rfl
    · exact .step _ 0 _ _ _ rfl (.step _ 0 _ _ _ rfl (.step _ 1 _ _ _ rfl (.step _ 1 _ _ _ rfl (.step _ 1 _ _ _ rfl
        (.step _ 1 _ _ _ rfl (.step _ 1 _ _ _ rfl (.step _ 1 _ _ _ rfl (.step _ 1 _ _ _ rfl (.step _ 1 _ _ _ rfl
        (.step _ 1 _ _ _ rfl (.step _ 0 _ _ _ rfl (.stop _))))))))))))

/-- … and the runtime hypothesis bites: `Wait` returning while task 1 is still queued is not accepted; nor is a third `Submit` -/
example : runLabels exC (init exC) [.submit, .submit, .take, .step 0, .step 0, .step 0, .ret 0, .step 0, .step 0, .waitRet] = none ∧
    runLabels exC (init exC) [.submit, .submit, .submit] = none := by
  constructor <;> decide

end Flyt.Refine.ConcAssembly
