import FlytModel.GoIR.NewPoolWorld
import FlytModel.Refine.Pool
/-!
# Refinement: the translated `NewWorkerPool` (`Flyt.Expected.IR.NewWorkerPool`), run by the definitional interpreter in `newPoolWorld`
(`GoIR/NewPoolWorld.lean`), constructs exactly the initial state of the pool model (`Flyt.Pool.init`, `Model/Pool.lean`)

```go
func NewWorkerPool(workers int) *WorkerPool {
	if workers <= 0 { workers = 1 }
	p := &WorkerPool{workers: workers, tasks: make(chan func(), workers*2), done: make(chan struct{})}
	for i := 0; i < workers; i++ { go p.worker() }
	return p
}
```

With `w = clamp n = if n ≤ 0 then 1 else n`: for EVERY `n : Int`, every initial ghost state `s` (and heap), every recursion depth
`≥ max 11 (w + 7)` — the least depth at which the run is not stuck, see `GoIR/NewPoolTest.lean` — the run returns the fresh pool handle,
and the events it appends to the ghost trace are EXACTLY `ctorEvents n s.chans s.pools`:

    makeChan "func()" (2 * w)          -- tasks, buffered, capacity 2w    (evaluated first: the literal's fields go left to right)
    makeChan "struct{}" 0              -- done, unbuffered
    newPool w tasks done               -- the pool object, `workers = w`
    spawn p  … (w times)               -- `go p.worker()`, once per worker

and nothing else (the world defines nothing else; the heap is untouched).

| theorem                          | statement                                                                                         |
|----------------------------------|---------------------------------------------------------------------------------------------------|
| `spawn_loop`                     | loop invariant of `for i := 0; i < workers; i++ { go p.worker() }`: from `i`, `w - i` spawns        |
| `NewWorkerPool_refines_core`     | at depth `f + 11` with `w ≤ f + 4`, from any ghost state / heap                                    |
| `NewWorkerPool_refines_of_le`    | at every depth `fuel` with `11 ≤ fuel` and `w + 7 ≤ fuel`, from any ghost state                    |
| `NewWorkerPool_run_of_le`        | from the EMPTY ghost state, same depths: pool handle `.ref "pool" 0`, trace `= ctorEvents n 0 0`     |
| `NewWorkerPool_refines`          | … at the test's depth `w + F`, `F = 40`                                                            |
| `NewWorkerPool_matches_init`     | number of spawns `= (Pool.init (2w) n).w = … .idle`, capacity of `tasks` `= … .cap`, all else empty |
-/
namespace Flyt.Refine.NewPool
open Flyt Flyt.GoIR Flyt.GoIR.NewPoolW Flyt.Expected.IR Flyt.Refine Flyt.Refine.Pool
set_option linter.unusedSimpArgs false

/-! ## unfolding lemmas for the constructors `Refine/Run.lean` / `Refine/Pool.lean` do not cover -/

section steps
variable {Ω : Type} (W : World Ω)

/-- `go recv.m()`: the receiver is evaluated, the world is told `go:m` -/
theorem stmt_go (f : Nat) (r : Expr) (m : String) (st : St Ω) :
    execStmt W (f + 1) (.goS (.mcall r m .nil)) st =
      (match evalExpr W f r st with
       | some ([x], st1) =>
         (match W.mcall x ("go:" ++ m) [] st1.heap st1.w with
          | some (_, h, w) => some (.next, { st1 with heap := h, w := w })
          | none => none)
       | _ => none) := rfl

/-- `&T{…}` is `T{…}` (objects of the world are references already) -/
theorem expr_addr_lit (f : Nat) (ty : String) (elts : Exprs) (st : St Ω) :
    evalExpr W (f + 1) (.un "&" (.lit ty elts)) st = evalExpr W f (.lit ty elts) st := rfl

/-- a composite literal of a type the interpreter does not know: the world's `lit:T:k₁,k₂,…` on the evaluated fields -/
theorem expr_lit_world (f : Nat) (ty : String) (elts : Exprs) (st : St Ω) (h1 : (ty == "[]Result") = false) (h2 : (ty == "Result") = false) :
    evalExpr W (f + 1) (.lit ty elts) st =
      (match evalArgs W f (litValues elts) st with
       | some (vs, st1) =>
         (match W.call ("lit:" ++ ty ++ ":" ++ litKeys elts) vs st1.heap st1.w with
          | some (rs, h, w) => some (rs, { st1 with heap := h, w := w })
          | none => none)
       | none => none) := by
  rw [evalExpr.eq_def]; simp only [h1, h2, Bool.false_eq_true, if_false]; rfl

/-- `make(T, sizes…)` for `T ≠ []Result`: the world's `make:T` on the evaluated sizes (the type is syntax, it is not evaluated) -/
theorem expr_make_world (f : Nat) (ty : String) (rest : Exprs) (st : St Ω) (h1 : (ty == "[]Result") = false) :
    evalExpr W (f + 1) (.call "make" (.cons (.var ty) rest)) st =
      (match evalArgs W f rest st with
       | some (vs, st1) =>
         (match W.call ("make:" ++ ty) vs st1.heap st1.w with
          | some (rs, h, w) => some (rs, { st1 with heap := h, w := w })
          | none => none)
       | none => none) := by
  rw [evalExpr.eq_def]; simp only [h1, Bool.false_eq_true, if_false, show ("make" == "make") = true from by decide, if_true]; rfl
end steps

/-! ## projections of `newPoolWorld` -/

theorem W_make_tasks (c : Int) (h : Heap) (s : NW) (hc : 0 ≤ c) :
    newPoolWorld.call "make:chan func()" [.int c] h s =
      some ([.ref "chan" s.chans], h, { s with trace := s.trace ++ [.makeChan "func()" c], chans := s.chans + 1 }) := by
  show mkChan "func()" c h s = _
  simp [mkChan, hc, chanH]
theorem W_make_done (h : Heap) (s : NW) :
    newPoolWorld.call "make:chan struct{}" [] h s =
      some ([.ref "chan" s.chans], h, { s with trace := s.trace ++ [.makeChan "struct{}" 0], chans := s.chans + 1 }) := rfl
theorem W_lit (n : Int) (t d : Nat) (h : Heap) (s : NW) :
    newPoolWorld.call "lit:WorkerPool:workers,tasks,done," [.int n, .ref "chan" t, .ref "chan" d] h s =
      some ([.ref "pool" s.pools], h, { s with trace := s.trace ++ [.newPool n t d], pools := s.pools + 1 }) := rfl
theorem W_go (p : Nat) (h : Heap) (s : NW) (hp : p < s.pools) :
    newPoolWorld.mcall (.ref "pool" p) "go:worker" [] h s = some ([], h, { s with trace := s.trace ++ [.spawn p] }) := by
  show (if ("go:worker" == "go:worker") = true ∧ p < s.pools then _ else _) = _
  simp [hp]

/-- the name of the literal's world call -/
theorem lit_name : "lit:" ++ "WorkerPool" ++ ":" ++ litKeys poolFields = "lit:WorkerPool:workers,tasks,done," := by decide

macro "npsimp" " [" ts:Lean.Parser.Tactic.simpLemma,* "]" : tactic =>
  `(tactic| gosimp [stmt_go, expr_addr_lit, expr_lit_world, expr_make_world, litValues, litKeys, W_make_done, W_lit, $ts,*])

/-! ## the spawn loop -/

def loopCond : Expr := .bin "<" (.var "i") (.var "workers")
def loopPost : Block := B[(.incr "i")]
def loopBody : Block := B[(.goS (.mcall (.var "p") "worker" E[]))]

theorem spawnLoop_eq : spawnLoop = .forS B[(.define ["i"] E[(.int 0)])] loopCond loopPost loopBody := rfl

/-- the environment inside the loop -/
def envL (i : Int) (p : Nat) (w : Int) : GoIR.Env := [("i", .int i), ("p", .ref "pool" p), ("workers", .int w)]

/-- **loop invariant** of `for …; i < workers; i++ { go p.worker() }`: with `k = workers - i` iterations to go, at every depth `≥ k + 3`
    the loop ends normally with `i = workers`, having appended exactly `k` spawns of `p` (so: spawns so far `= i` at the head of every
    iteration, `= workers` at the end); heap, handle counters and the rest of the environment are unchanged -/
theorem spawn_loop (w : Int) (p : Nat) (h : Heap) (k : Nat) :
    ∀ (g : Nat) (i : Int) (s : NW), i + k = w → k + 3 ≤ g → p < s.pools →
      loopFor newPoolWorld g loopCond loopPost loopBody ⟨envL i p w, h, s⟩ =
        some (.next, ⟨envL w p w, h, { s with trace := s.trace ++ List.replicate k (.spawn p) }⟩) := by
  induction k with
  | zero =>
    intro g i s hik hg hp
    obtain ⟨g, rfl⟩ : ∃ g', g = g' + 3 := ⟨g - 3, by omega⟩
    have hi : i = w := by omega
    subst hi
    rw [loopFor_succ]
    npsimp [loopCond, envL]
  | succ k ih =>
    intro g i s hik hg hp
    obtain ⟨g, rfl⟩ : ∃ g', g = g' + 4 := ⟨g - 4, by omega⟩
    have hlt : i < w := by omega
    rw [loopFor_succ]
    npsimp [loopCond, loopPost, loopBody, envL, hlt, W_go _ _ _ hp]
    have := ih (g + 3) (i + 1) { s with trace := s.trace ++ [.spawn p] } (by omega) (by omega) hp
    simpa [envL, loopCond, loopPost, loopBody, List.replicate_succ, List.append_assoc] using this

/-! ## the constructor -/

/-- everything after the clamp, for a worker count `w ≥ 0` -/
theorem ctor_tail (w : Int) (hw : 0 ≤ w) (f : Nat) (hf : w.toNat ≤ f + 4) (h : Heap) (s : NW) :
    execBlock newPoolWorld (f + 10)
        B[(.define ["p"] E[(.un "&" (.lit "WorkerPool" poolFields))]), spawnLoop, (.ret E[(.var "p")])] ⟨[("workers", .int w)], h, s⟩ =
      some (.ret [poolH s.pools], ⟨[("p", poolH s.pools), ("workers", .int w)], h,
        { trace := s.trace ++ ([.makeChan "func()" (2 * w), .makeChan "struct{}" 0, .newPool w s.chans (s.chans + 1)]
                    ++ List.replicate w.toNat (.spawn s.pools)),
          chans := s.chans + 2, pools := s.pools + 1 }⟩) := by
  have h2 : 0 ≤ w * 2 := by omega
  have hl : ∀ s' : NW, s.pools < s'.pools →
      loopFor newPoolWorld (f + 7) loopCond loopPost loopBody ⟨[("i", .int 0), ("p", .ref "pool" s.pools), ("workers", .int w)], h, s'⟩ =
        some (.next, ⟨[("i", .int w), ("p", .ref "pool" s.pools), ("workers", .int w)], h,
          { s' with trace := s'.trace ++ List.replicate w.toNat (.spawn s.pools) }⟩) :=
    fun s' hp => spawn_loop w s.pools h w.toNat (f + 7) 0 s' (by omega) (by omega) hp
  npsimp [spawnLoop_eq, poolFields, W_make_tasks _ _ _ h2, hl, poolH, Int.mul_comm, Nat.add_assoc]

theorem NewWorkerPool_refines_core (n : Int) (f : Nat) (hf : (clamp n).toNat ≤ f + 4) (h : Heap) (s : NW) :
    callFunc newPoolWorld (f + 11) NewWorkerPool [.int n] h s =
      some ([poolH s.pools], h, { trace := s.trace ++ ctorEvents n s.chans s.pools, chans := s.chans + 2, pools := s.pools + 1 }) := by
  have hw : 0 ≤ clamp n := by unfold clamp; split <;> omega
  have hc := clamp_exec newPoolWorld (f + 5) n [] h s
  have ht := ctor_tail (clamp n) hw f hf h s
  simp only [clamp] at hc ht hw hf ⊢
  simp [callFunc, NewWorkerPool_params, NewWorkerPool_body, Env.pushAll, Env.push, block_cons, hc, ht, ctorEvents, clamp]

/-- every depth `≥ max 11 (w + 7)` -/
theorem NewWorkerPool_refines_of_le (n : Int) {fuel : Nat} (h11 : 11 ≤ fuel) (hf : (clamp n).toNat + 7 ≤ fuel) (h : Heap) (s : NW) :
    callFunc newPoolWorld fuel NewWorkerPool [.int n] h s =
      some ([poolH s.pools], h, { trace := s.trace ++ ctorEvents n s.chans s.pools, chans := s.chans + 2, pools := s.pools + 1 }) := by
  obtain ⟨f, rfl⟩ := exists_add h11
  exact NewWorkerPool_refines_core n f (by omega) h s

/-- the recursion depth of the executable test (`GoIR/NewPoolTest.lean`) is `w + F` -/
def F : Nat := 40

/-- from the EMPTY ghost state, at every sufficient depth: the pool is `.ref "pool" 0`, the trace is exactly `ctorEvents n 0 0` -/
theorem NewWorkerPool_run_of_le (n : Int) {fuel : Nat} (h11 : 11 ≤ fuel) (hf : (clamp n).toNat + 7 ≤ fuel) :
    run fuel NewWorkerPool [.int n] {} = some ([poolH 0], { trace := ctorEvents n 0 0, chans := 2, pools := 1 }) := by
  have := NewWorkerPool_refines_of_le n h11 hf [] {}
  simp [run, this]

/-- … at the test's depth -/
theorem NewWorkerPool_refines (n : Int) :
    run ((clamp n).toNat + F) NewWorkerPool [.int n] {} = some ([poolH 0], { trace := ctorEvents n 0 0, chans := 2, pools := 1 }) :=
  NewWorkerPool_run_of_le n (by unfold F; omega) (by unfold F; omega)

/-! ## the constructed pool is the model's initial state -/

def spawnsOf (tr : List CtorEv) (p : Nat) : Nat := tr.count (.spawn p)

/-- capacity of channel number `c`: the `c`-th `makeChan` of the trace -/
def capOf (tr : List CtorEv) (c : Nat) : Option Int :=
  (tr.filterMap fun e => match e with | .makeChan _ cap => some cap | _ => none)[c]?

/-- the pool objects of the trace -/
def poolsOf (tr : List CtorEv) : List (Int × Nat × Nat) :=
  tr.filterMap fun e => match e with | .newPool w t d => some (w, t, d) | _ => none

theorem clamp_pos (n : Int) : 1 ≤ clamp n := by unfold clamp; split <;> omega

/-- **`NewWorkerPool(n)` constructs `Pool.init (2w) n`**: in the trace of the run from the empty ghost state there is one pool object
    (number 0, the value returned), whose `tasks` is channel 0 and whose `done` is channel 1; the number of `go p.worker()` on it is the
    model's number of workers `w` (all of them idle, none exited); the capacity of `tasks` is the model's `cap`; `done` is unbuffered; the
    `workers` field is `w`. (The remaining components of `Pool.init` are empty / zero: nothing has been submitted.) -/
theorem NewWorkerPool_matches_init (n : Int) :
    ∃ tr, run ((clamp n).toNat + F) NewWorkerPool [.int n] {} = some ([poolH 0], { trace := tr, chans := 2, pools := 1 }) ∧
      poolsOf tr = [(((Flyt.Pool.init (2 * clamp n).toNat n).w : Int), 0, 1)] ∧
      spawnsOf tr 0 = (Flyt.Pool.init (2 * clamp n).toNat n).w ∧
      spawnsOf tr 0 = (Flyt.Pool.init (2 * clamp n).toNat n).idle ∧
      (Flyt.Pool.init (2 * clamp n).toNat n).exited = 0 ∧
      capOf tr 0 = some ((Flyt.Pool.init (2 * clamp n).toNat n).cap : Int) ∧
      capOf tr 1 = some 0 ∧
      tr.length = 3 + (Flyt.Pool.init (2 * clamp n).toNat n).w := by
  refine ⟨_, NewWorkerPool_refines n, ?_⟩
  have hpos := clamp_pos n
  have hw : ((Flyt.Pool.init (2 * clamp n).toNat n).w : Int) = clamp n := clamp_matches_init _ n
  have hwN : (Flyt.Pool.init (2 * clamp n).toNat n).w = (clamp n).toNat := by omega
  have hidle : (Flyt.Pool.init (2 * clamp n).toNat n).idle = (Flyt.Pool.init (2 * clamp n).toNat n).w := rfl
  have hcap : (Flyt.Pool.init (2 * clamp n).toNat n).cap = (2 * clamp n).toNat := rfl
  have hex : (Flyt.Pool.init (2 * clamp n).toNat n).exited = 0 := rfl
  rw [hidle, hcap, hex, hwN]
  have hcast : (((clamp n).toNat : Nat) : Int) = clamp n := by omega
  have hcast2 : (((2 * clamp n).toNat : Nat) : Int) = 2 * clamp n := by omega
  simp [ctorEvents, poolsOf, spawnsOf, capOf, List.filterMap_append, List.filterMap_replicate, List.count_replicate, hcast, hcast2]
  omega

end Flyt.Refine.NewPool

#print axioms Flyt.Refine.NewPool.spawn_loop
#print axioms Flyt.Refine.NewPool.NewWorkerPool_refines_of_le
#print axioms Flyt.Refine.NewPool.NewWorkerPool_refines
#print axioms Flyt.Refine.NewPool.NewWorkerPool_matches_init
