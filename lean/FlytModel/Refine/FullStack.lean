import FlytModel.GoIR.FullStackWorld
import FlytModel.Refine.Stack
import FlytModel.Refine.BatchStack
import FlytModel.Refine.FlowBuild
import FlytModel.Refine.Config
import FlytModel.Refine.Small
/-!
# The full stack with the batch path: `Run → Flow.Exec → Run → runBatch → runBatchSequential → runExecWithRetries`

`Refine/Stack.lean` (`deepRun_eq_runNode`) stacks `Run` and `Flow.Exec` to any nesting depth but stops at `Run`'s dispatch on a batch
node (`batchDispatchWorld`: the call `runBatch` has the MODEL's meaning); `Refine/BatchStack.lean`
(`runBatch_over_interpreted_sequential`) stacks `runBatch`, `runBatchSequential`, `runExecWithRetries`. Here they are joined
(`GoIR/FullStackWorld.lean`: `batchDispatchWorldOver`, `fullBatch`, `fullLevel`, `fullRun`):

* `Run_over_runBatch` / `fullBatchNode_eq` (seam 3): `Run` on a batch node in the world whose `runBatch` call is the interpretation
  `stackBatchIR` (fresh heap and recording, the caller's store handle and context) is the model's `runBatch`. The world step is an
  EQUALITY of worlds here (`batchDispatchWorldOver_eq`): `runBatch` never runs out of fuel, so, unlike at the flow seams, the
  stacked world agrees with the layered one everywhere and no `callFunc_le` is needed.
* `fullRun_eq_runNode`: for every arena, `idxOf` with `IdxOK env idxOf`, depth, node, store, run state: if the model's `runNode`
  does not run out of fuel, `fullRun env idxOf k id sid st = some (runNode env k id sid st)`. Proof: `deepRun_eq_runNode`'s
  (strong induction on the depth, `fullLevel_eq` = `deepLevel_eq` with the batch case replaced by `fullBatchNode_eq`; the leaf and
  flow cases reuse `Run_refines_runLeaf_of_le`, `Stack.Run_over_interpreted_FlowExec`, `Stack.deepExec_ok` unchanged, these are
  generic in the meaning `R` of the nested `Run`).
* the hypothesis `IdxOK`: for every batch node of the arena that takes the sequential path (`conc = 0`) and every visit `v`,
  `idxOf id v` maps the `i`-th prepared item to `i` (`runBatch_over_interpreted_sequential`'s `hidx`, per node and visit; the script
  of a batch node is per visit, `env.batchBeh id (st.visits id)`, as in `runNode`'s batch branch). With the canonical `idxOf`
  (`canonIdx`: position among the prepared items) it is EQUIVALENT to "the prepared items are pairwise distinct" (`NodupOK`;
  `canonIdx_ok`, `nodup_of_idxOK`), which for a finitely described arena is the Boolean check `nodupCheck` (`nodupOK_of_check`).
  The hypothesis is not an artefact of the proof: the IR call `runExecWithRetries(ctx, node, item)` carries the item, not its
  index, and the item world must pick the item's script; with two equal items (`FullEx.envBDup`) `fullRunCanon` differs from the
  model (`GoIR/FullStackTest.lean` shows it).

Not covered: runs in which the model runs out of fuel; the CONCURRENT executor below `runBatch` (`conc > 0`: `stackBatchWorld` keeps
`batchWorld`'s modelled serial schedule; its interpreted form is `runBatchConcurrent_serial_over_interpreted_items`); batch nodes
handed to `Run` as the `*BatchNodeBuilder` are covered by `fullBatchNode_eq` (`vb = true`) but `fullRun` uses the bare `*BatchNode`
as `deepRun` does; the user's callbacks are the scripts. In `fullRun` the flow node's `Flow.Prep` / `Flow.Post` and the embedded
`BaseNode`'s getters and fallback are `flowNodeWorld`'s; in `fullRun'` (last section, `fullRun'_eq_runNode`) these five are interpreted
source as well (`flowNodeWorldFull`), what remains of the world of `Run` on a flow node is type assertions, `ctx.Err()`, `DefaultAction`.
-/
namespace Flyt.Refine.FullStack
open Flyt Flyt.GoIR Flyt.Refine

theorem fullItemFuel_eq (cfg : BatchCfg) : fullItemFuel cfg = itemFuel cfg := rfl
theorem scrPrepLen_eq (scr : BatchScript) : scrPrepLen scr = Batch.prepLen scr := rfl
theorem fullSeqFuel_eq (scr : BatchScript) : fullSeqFuel scr = BatchStack.stackSeqFuel scr := rfl
theorem fullBatchFuel_eq (scr : BatchScript) : fullBatchFuel scr = batchFuel scr := rfl

/-- what `B` has to be for the `runBatch` call of `Run` on batch node `n` (visit `v`): the model's `runBatch` -/
def BatchOK (kind : CtxKind) (n : NodeId) (v : Nat) (cfg : BatchCfg) (scr : BatchScript) (B : BatchFn) : Prop :=
  ∀ sid ctx, B sid ctx = some (Flyt.runBatch kind n v sid cfg scr ctx)

theorem batchCallOver_eq (kind : CtxKind) (n : NodeId) (v : Nat) (cfg : BatchCfg) (scr : BatchScript) (vb : Bool) (B : BatchFn)
    (hB : BatchOK kind n v cfg scr B) : batchCallOver B vb = (batchDispatchWorld kind n v cfg scr vb).call := by
  funext fn args h w
  by_cases hfn : fn = "runBatch"
  · subst hfn
    match args with
    | [] => rfl
    | [_] => rfl
    | [_, _] => rfl
    | _ :: _ :: _ :: _ :: _ => rfl
    | [a, nd, sh] =>
      simp only [batchCallOver, batchDispatchWorld, hB _ _]
      cases hs : storeIdOf sh with
      | none => rfl
      | some sid =>
        generalize hb : (match nd with | GV.ref "batchnode" _ => true | GV.node _ => !vb | _ => false) = b
        cases b with
        | false => rfl
        | true =>
          cases (runBatch kind n v sid cfg scr w.ctx).2.2 <;> rfl
  · simp only [batchCallOver, batchDispatchWorld]
    split
    · rename_i h1; exact absurd rfl hfn
    · split
      · rename_i h1; exact absurd rfl hfn
      · rfl

theorem batchDispatchWorldOver_eq (kind : CtxKind) (n : NodeId) (v : Nat) (cfg : BatchCfg) (scr : BatchScript) (vb : Bool)
    (B : BatchFn) (hB : BatchOK kind n v cfg scr B) :
    batchDispatchWorldOver B vb = batchDispatchWorld kind n v cfg scr vb := by
  unfold batchDispatchWorldOver
  rw [batchCallOver_eq kind n v cfg scr vb B hB]
  rfl


/-- **seam 3, the world step** (an equality here: `runBatch` is total, `Flyt.Proofs.runBatch_proper`) lifted to `Run`: `Run` on a
    batch node in the world whose `runBatch` is `B` is the model's `runBatch`, if `B` is. -/
theorem Run_over_runBatch (kind : CtxKind) (n : NodeId) (v : Nat) (sid : StoreId) (cfg : BatchCfg) (scr : BatchScript)
    (vb : Bool) (ctx : Ctx) (B : BatchFn) (hB : BatchOK kind n v cfg scr B) (fuel : Nat) (hf : batchNodeFuel ≤ fuel) :
    runBatchNodeIn (batchDispatchWorldOver B vb) fuel Flyt.Expected.IR.Run n sid ctx
      = some (Flyt.runBatch kind n v sid cfg scr ctx) := by
  rw [batchDispatchWorldOver_eq kind n v cfg scr vb B hB, ← runBatchNodeIR_eq_In]
  exact Run_dispatches_to_runBatch_of_le kind n v sid cfg scr vb ctx fuel hf

/-- the `hidx` of `runBatch_over_interpreted_sequential` for one node, visit: on the sequential path the prepared items are told
    apart by `idxOf` -/
def IdxOKAt (cfg : BatchCfg) (scr : BatchScript) (idxOf : Result → Nat) : Prop :=
  ¬ cfg.conc > 0 → ∀ l, scr.prep.res = .ok l →
    ∀ i (h : i < (normItems cfg.shape l).length), idxOf (normItems cfg.shape l)[i] = i

/-- the interpreted `runBatch` stack is the model's `runBatch` -/
theorem fullBatch_ok (kind : CtxKind) (n : NodeId) (v : Nat) (cfg : BatchCfg) (scr : BatchScript) (idxOf : Result → Nat)
    (hidx : IdxOKAt cfg scr idxOf) : BatchOK kind n v cfg scr (fullBatch kind n v cfg scr idxOf) := by
  intro sid ctx
  exact BatchStack.runBatch_over_interpreted_sequential kind n v sid cfg scr idxOf ctx hidx
    (fullItemFuel cfg) (Nat.le_refl _) (fullSeqFuel scr) (Nat.le_refl _) (fullBatchFuel scr) (Nat.le_refl _)

/-- **`Run` on a batch node, interpreted down to the item callbacks**: `Run`'s dispatch → `runBatch` → `runBatchSequential` →
    `runExecWithRetries`, every one the interpretation of its translated source, is the model's `runBatch`. -/
theorem fullBatchNode_eq (kind : CtxKind) (n : NodeId) (v : Nat) (sid : StoreId) (cfg : BatchCfg) (scr : BatchScript)
    (idxOf : Result → Nat) (vb : Bool) (ctx : Ctx) (hidx : IdxOKAt cfg scr idxOf) :
    fullBatchNode kind n v sid cfg scr idxOf vb ctx = some (Flyt.runBatch kind n v sid cfg scr ctx) :=
  Run_over_runBatch kind n v sid cfg scr vb ctx _ (fullBatch_ok kind n v cfg scr idxOf hidx) batchIRFuel (Nat.le_refl _)

/-- the hypothesis on the arena: every batch node that takes the sequential path (`conc = 0`) has, on every visit, prepared items
    that `idxOf id v` tells apart (`idxOf id v items[i] = i`) -/
def IdxOK (env : Flyt.Env) (idxOf : NodeId → Nat → Result → Nat) : Prop :=
  ∀ id cfg, env.arena id = .batch cfg → ∀ v, IdxOKAt cfg (env.batchBeh id v) (idxOf id v)

/-- one level of the stack is right if the levels below are -/
theorem fullLevel_eq (env : Flyt.Env) (idxOf : NodeId → Nat → Result → Nat) (hidx : IdxOK env idxOf) (k : Nat) (R : Nat → RunFn)
    (hR : Stack.RunOK env k R) (id : NodeId) (sid : StoreId) (st : RunSt)
    (hne : (runNode env (k + 1) id sid st).2.2 ≠ .fuel) :
    fullLevel env idxOf k R id sid st = some (runNode env (k + 1) id sid st) := by
  unfold fullLevel
  cases harena : env.arena id with
  | leaf cfg =>
    simp only
    rw [Run_refines_runLeaf_of_le env.kind id (st.visits id) sid cfg (env.leafBeh id (st.visits id)) st.ctx (leafIRFuel cfg)
      (Nat.le_refl _)]
    simp [runNode, harena, visited]
  | batch cfg =>
    simp only
    rw [fullBatchNode_eq env.kind id (st.visits id) sid cfg (env.batchBeh id (st.visits id)) (idxOf id (st.visits id)) false st.ctx
      (hidx id cfg harena (st.visits id))]
    simp [runNode, harena, visited]
  | flow start ops =>
    simp only
    exact Stack.Run_over_interpreted_FlowExec env id start ops k sid st _ (Stack.deepExec_ok env id start ops k R hR) harena hne

/-- **The full stack, batch path included.** For every arena (leaves, batch nodes, flows nested to any depth, loops), every depth
    `k`, node, store and run state: whenever the model's `runNode env k` does not run out of fuel, the interpretation `fullRun` —
    `Run` interpreted; on a flow its `Flow.Exec` interpreted, whose nested `Run` calls are interpreted again, …; on a batch node
    `Run`'s dispatch, `runBatch`, `runBatchSequential` and every item's `runExecWithRetries` interpreted, down to the scripted
    user callbacks — returns exactly the model's events, run state (context, visit counters) and outcome. -/
theorem fullRun_eq_runNode (env : Flyt.Env) (idxOf : NodeId → Nat → Result → Nat) (hidx : IdxOK env idxOf) :
    ∀ (k : Nat) (id : NodeId) (sid : StoreId) (st : RunSt),
      (runNode env k id sid st).2.2 ≠ .fuel → fullRun env idxOf k id sid st = some (runNode env k id sid st) := by
  intro k
  induction k using Nat.strongRecOn with
  | ind k ih =>
    cases k with
    | zero => intro id sid st h; simp [runNode] at h
    | succ k =>
      intro id sid st hne
      rw [fullRun]
      apply fullLevel_eq env idxOf hidx k _ _ id sid st hne
      intro mf hmf id' sid' st' h
      have hlt : mf < k + 1 := by omega
      simp only [hlt, dite_true]
      exact ih mf hlt id' sid' st' h

/-! ### the canonical `idxOf`: the hypothesis becomes "the prepared items are pairwise distinct" -/

/-- on every visit of every sequential batch node, the prepared items are pairwise distinct -/
def NodupOK (env : Flyt.Env) : Prop :=
  ∀ id cfg, env.arena id = .batch cfg → ¬ cfg.conc > 0 → ∀ v l, (env.batchBeh id v).prep.res = .ok l → (normItems cfg.shape l).Nodup

theorem idxOf_getElem_of_nodup {α : Type} [DecidableEq α] : ∀ (l : List α), l.Nodup → ∀ i (h : i < l.length), l.idxOf l[i] = i
  | [], _, i, h => absurd h (by simp)
  | a :: l, hn, 0, _ => by simp
  | a :: l, hn, i + 1, h => by
    have hn' := List.nodup_cons.mp hn
    have hi : i < l.length := by simpa using h
    have hne : ¬ a = l[i] := fun e => hn'.1 (e ▸ List.getElem_mem hi)
    have ih := idxOf_getElem_of_nodup l hn'.2 i hi
    simp only [List.getElem_cons_succ, List.idxOf_cons]
    have : (a == l[i]) = false := by simp [hne]
    simp [this, ih]

theorem nodup_of_index {α : Type} : ∀ (l : List α) (f : α → Nat) (k : Nat), (∀ i (h : i < l.length), f l[i] = k + i) → l.Nodup
  | [], _, _, _ => List.nodup_nil
  | a :: l, f, k, hf => by
    rw [List.nodup_cons]
    constructor
    · intro hmem
      obtain ⟨j, hj, hje⟩ := List.getElem_of_mem hmem
      have h0 := hf 0 (by simp)
      have h1 := hf (j + 1) (by simpa using hj)
      simp only [List.getElem_cons_zero, List.getElem_cons_succ, hje] at h0 h1
      omega
    · apply nodup_of_index l f (k + 1)
      intro i hi
      have := hf (i + 1) (by simpa using hi)
      simp only [List.getElem_cons_succ] at this
      omega

theorem canonIdx_ok (env : Flyt.Env) (h : NodupOK env) : IdxOK env (canonIdx env) := by
  intro id cfg harena v hc l hl i hi
  simp only [canonIdx, harena, hl]
  exact idxOf_getElem_of_nodup _ (h id cfg harena hc v l hl) i hi

/-- … conversely, `IdxOK` for ANY `idxOf` forces the items to be pairwise distinct: `NodupOK` is the weakest form of the hypothesis -/
theorem nodup_of_idxOK (env : Flyt.Env) (idxOf : NodeId → Nat → Result → Nat) (h : IdxOK env idxOf) : NodupOK env := by
  intro id cfg harena hc v l hl
  have hi := h id cfg harena v hc l hl
  exact nodup_of_index _ (idxOf id v) 0 (by simpa using hi)

theorem fullRunCanon_eq_runNode (env : Flyt.Env) (hnd : NodupOK env) (k : Nat) (id : NodeId) (sid : StoreId) (st : RunSt)
    (hne : (runNode env k id sid st).2.2 ≠ .fuel) : fullRunCanon env k id sid st = some (runNode env k id sid st) :=
  fullRun_eq_runNode env (canonIdx env) (canonIdx_ok env hnd) k id sid st hne

/-! ### a decidable sufficient condition

`NodupOK` quantifies over all node ids and visits. For an arena whose batch nodes are among a finite list `ids` and whose batch
scripts do not change after visit `V` (`batchBeh id v = batchBeh id (min v V)`), it is the Boolean check `nodupCheck`. -/

def nodupAt (env : Flyt.Env) (id : NodeId) (v : Nat) : Bool :=
  match env.arena id with
  | .batch cfg =>
    cfg.conc > 0 ||
      (match (env.batchBeh id v).prep.res with
       | .ok l => decide (normItems cfg.shape l).Nodup
       | .error _ => true)
  | _ => true

def nodupCheck (env : Flyt.Env) (ids : List NodeId) (V : Nat) : Bool :=
  ids.all fun id => (List.range (V + 1)).all fun v => nodupAt env id v

theorem nodupOK_of_check (env : Flyt.Env) (ids : List NodeId) (V : Nat)
    (hids : ∀ id cfg, env.arena id = .batch cfg → id ∈ ids)
    (hV : ∀ id v, id ∈ ids → env.batchBeh id v = env.batchBeh id (min v V))
    (hchk : nodupCheck env ids V = true) : NodupOK env := by
  intro id cfg harena hc v l hl
  have hmem := hids id cfg harena
  have h1 := (List.all_eq_true.mp hchk) id hmem
  have h2 := (List.all_eq_true.mp h1) (min v V) (by simp [List.mem_range]; omega)
  rw [hV id v hmem] at hl
  simp only [nodupAt, harena, hl] at h2
  simpa [hc] using h2

/-! ### a concrete instance

`FullEx.envB` (`GoIR/FullStackWorld.lean`): root flow 0 = `1 -a-> 8 -next-> 2 -y-> 9`, `9 -again-> 9`, `9 -done-> 11 -next-> 3`, where 2 is the
nested flow `4 -x-> 10 -default-> 5`; 8, 9, 10 are sequential batch nodes (retries with waits and a fallback; an item error in `stop`
mode; 9 is reached twice with different scripts), 11 a concurrent one. The batch nodes are among `[8, 9, 10, 11]`, the scripts do not
change after visit 1, and the Boolean check `nodupCheck` evaluates to `true` (`decide`): the prepared items are pairwise distinct,
the theorem applies with the canonical `idxOf`. (`GoIR/FullStackTest.lean` EVALUATES both sides.) -/
open FullEx in
theorem envB_nodup : NodupOK envB := by
  apply nodupOK_of_check envB [8, 9, 10, 11] 1
  · intro id cfg h
    simp only [envB] at h
    unfold arenaB at h
    split at h <;> cases h <;> simp
  · intro id v _
    cases v with
    | zero => rfl
    | succ v =>
      have : min (v + 1) 1 = 1 := by omega
      rw [this]
      simp only [envB]
      unfold behB
      split <;> first | rfl | simp_all
  · decide

/-- the flow 12 = `8 -next-> 10` (two sequential batch nodes: retries / waits / fallback, then a bare one), depth 4 -/
theorem envB_flow12 :
    fullRunCanon FullEx.envB 4 12 7 Proofs.Ex.st0 = some (runNode FullEx.envB 4 12 7 Proofs.Ex.st0) :=
  fullRunCanon_eq_runNode FullEx.envB envB_nodup 4 12 7 Proofs.Ex.st0 (by decide)

/-- … with an explicit `idxOf` instead of `fullRunCanon`: the nested flow 2 = `4 -x-> 10 -default-> 5` -/
example : fullRun FullEx.envB (canonIdx FullEx.envB) 6 2 7 Proofs.Ex.st0 = some (runNode FullEx.envB 6 2 7 Proofs.Ex.st0) :=
  fullRun_eq_runNode FullEx.envB _ (canonIdx_ok _ envB_nodup) 6 2 7 Proofs.Ex.st0 (by decide)

/-- … and what the common value is -/
example : (fullRunCanon FullEx.envB 4 12 7 Proofs.Ex.st0).map (fun r => (r.2.2, r.2.1.visits 8, r.2.1.visits 10))
    = some (.ok "default", 1, 1) := by
  rw [envB_flow12]; decide

/-- the root flow (both visits of node 9, the nested flow, the concurrent node 11), depth 12; the side condition "the model does not
    run out of fuel" is a closed Boolean computation (51 events), checked by kernel reduction -/
theorem envB_root :
    fullRunCanon FullEx.envB 12 0 7 Proofs.Ex.st0 = some (runNode FullEx.envB 12 0 7 Proofs.Ex.st0) :=
  fullRunCanon_eq_runNode FullEx.envB envB_nodup 12 0 7 Proofs.Ex.st0 (by decide +kernel)

/-! ### Goal B: `Flow.Prep`, `Flow.Post`, `BaseNode.GetMaxRetries` / `GetWait` / `ExecFallback` of the flow node as interpreted source -/

theorem over_mcall_ne_exec (env : Flyt.Env) (E : ExecFn) (start : Option NodeId) (tbl : Table) (recv : GV) (m : String)
    (hm : m ≠ "Exec") (args : List GV) (h : Heap) (w : FlowW) :
    (flowNodeWorldOver env E start tbl).mcall recv m args h w = (flowNodeWorld env start tbl).mcall recv m args h w := by
  have hb : (m == "Exec") = false := by simp [hm]
  cases recv <;> simp [flowNodeWorldOver, execMcallOver, hb]

theorem getMaxRetries_interp :
    ConfigW.run getterFuel Flyt.Expected.IR.BaseNode_GetMaxRetries 0 [ConfigW.nodeH] Config.emptyNode
      = some ([.int 1], Config.emptyNode) :=
  Config.BaseNode_GetMaxRetries_refines_of_le Config.emptyNode 0 getterFuel (by decide)

theorem getWait_interp :
    ConfigW.run getterFuel Flyt.Expected.IR.BaseNode_GetWait 0 [ConfigW.nodeH] Config.emptyNode
      = some ([.int 0], Config.emptyNode) :=
  Config.BaseNode_GetWait_refines_of_le Config.emptyNode 0 getterFuel (by decide)

/-- the five interpreted entries are what `flowNodeWorld` gives (`Flow_Prep_refines_of_le`, `Flow_Post_refines_of_le`,
    `BaseNode_GetMaxRetries_refines_of_le`, `BaseNode_GetWait_refines_of_le`, `BaseNode_ExecFallback_refines_of_le`) -/
theorem fullMcall_eq (env : Flyt.Env) (E : ExecFn) (start : Option NodeId) (tbl : Table) :
    fullMcall (flowNodeWorldOver env E start tbl) (flowNodeWorldOver env E start tbl).mcall
      = (flowNodeWorldOver env E start tbl).mcall := by
  funext recv m args h w
  cases recv with
  | node i =>
    simp only [fullMcall]
    by_cases h1 : m = "Prep"
    · subst h1
      rw [over_mcall_ne_exec env E start tbl _ _ (by decide)]
      simp only [beq_self_eq_true, if_true]
      match args with
      | [] => rfl
      | [_] => rfl
      | [c, sh] =>
        simp only [FlowBuild.Flow_Prep_refines_of_le flowPrepFuel (Nat.le_refl _), Option.map_some]
        rfl
      | _ :: _ :: _ :: _ => rfl
    · have hb1 : (m == "Prep") = false := by simp [h1]
      simp only [hb1, Bool.false_eq_true, if_false]
      by_cases h2 : m = "Post"
      · subst h2
        rw [over_mcall_ne_exec env E start tbl _ _ (by decide)]
        simp only [beq_self_eq_true, if_true]
        match args with
        | [] => rfl
        | [_] => rfl
        | [_, _] => rfl
        | [_, _, _] => rfl
        | [c, sh, pv, x] =>
          simp only [FlowBuild.Flow_Post_refines_of_le flowPostFuel (Nat.le_refl _), Option.map_some,
            FlowBuild.flowNodeWorld_Post_agrees]
        | _ :: _ :: _ :: _ :: _ :: _ => simp [flowNodeWorld]
      · have hb2 : (m == "Post") = false := by simp [h2]
        simp only [hb2, Bool.false_eq_true, if_false]
        by_cases h3 : m = "GetMaxRetries"
        · subst h3
          rw [over_mcall_ne_exec env E start tbl _ _ (by decide)]
          simp only [beq_self_eq_true, if_true, getMaxRetries_interp, Option.map_some]
          rfl
        · have hb3 : (m == "GetMaxRetries") = false := by simp [h3]
          simp only [hb3, Bool.false_eq_true, if_false]
          by_cases h4 : m = "GetWait"
          · subst h4
            rw [over_mcall_ne_exec env E start tbl _ _ (by decide)]
            simp only [beq_self_eq_true, if_true, getWait_interp, Option.map_some]
            rfl
          · have hb4 : (m == "GetWait") = false := by simp [h4]
            simp only [hb4, Bool.false_eq_true, if_false]
            by_cases h5 : m = "ExecFallback"
            · subst h5
              rw [over_mcall_ne_exec env E start tbl _ _ (by decide)]
              simp only [beq_self_eq_true, if_true]
              match args with
              | [] => rfl
              | [_] => rfl
              | [pv, x] =>
                cases x with
                | err e =>
                  simp only [Small.BaseNode_ExecFallback_refines_of_le _ _ _ _ _ _ fallbackFuel (Nat.le_refl _)]
                  rfl
                | _ => rfl
              | _ :: _ :: _ :: _ => simp [flowNodeWorld]
            · have hb5 : (m == "ExecFallback") = false := by simp [h5]
              simp [hb5]
  | _ => rfl

theorem flowNodeWorldFull_eq (env : Flyt.Env) (E : ExecFn) (start : Option NodeId) (tbl : Table) :
    flowNodeWorldFull env E start tbl = flowNodeWorldOver env E start tbl := by
  unfold flowNodeWorldFull
  rw [fullMcall_eq]

theorem fullLevel'_eq_fullLevel (env : Flyt.Env) (idxOf : NodeId → Nat → Result → Nat) (k : Nat) (R : Nat → RunFn) :
    fullLevel' env idxOf k R = fullLevel env idxOf k R := by
  funext id sid st
  unfold fullLevel' fullLevel
  cases env.arena id with
  | leaf cfg => rfl
  | batch cfg => rfl
  | flow start ops => simp only [flowNodeWorldFull_eq]

/-- **Goal B.** `fullRun_eq_runNode` for `fullRun'`: additionally the flow node's `Prep`, `Post` and the embedded `BaseNode`'s
    `GetMaxRetries` / `GetWait` / `ExecFallback` are the interpretation of their translated sources (`flowNodeWorldFull`): every method
    `Run` calls on a flow node is interpreted source; only type assertions, `ctx.Err()` and `DefaultAction` are the world's. -/
theorem fullRun'_eq_runNode (env : Flyt.Env) (idxOf : NodeId → Nat → Result → Nat) (hidx : IdxOK env idxOf) :
    ∀ (k : Nat) (id : NodeId) (sid : StoreId) (st : RunSt),
      (runNode env k id sid st).2.2 ≠ .fuel → fullRun' env idxOf k id sid st = some (runNode env k id sid st) := by
  intro k
  induction k using Nat.strongRecOn with
  | ind k ih =>
    cases k with
    | zero => intro id sid st h; simp [runNode] at h
    | succ k =>
      intro id sid st hne
      rw [fullRun', fullLevel'_eq_fullLevel]
      apply fullLevel_eq env idxOf hidx k _ _ id sid st hne
      intro mf hmf id' sid' st' h
      have hlt : mf < k + 1 := by omega
      simp only [hlt, dite_true]
      exact ih mf hlt id' sid' st' h

theorem fullRunCanon'_eq_runNode (env : Flyt.Env) (hnd : NodupOK env) (k : Nat) (id : NodeId) (sid : StoreId) (st : RunSt)
    (hne : (runNode env k id sid st).2.2 ≠ .fuel) : fullRunCanon' env k id sid st = some (runNode env k id sid st) :=
  fullRun'_eq_runNode env (canonIdx env) (canonIdx_ok env hnd) k id sid st hne

theorem envB_root' :
    fullRunCanon' FullEx.envB 12 0 7 Proofs.Ex.st0 = some (runNode FullEx.envB 12 0 7 Proofs.Ex.st0) :=
  fullRunCanon'_eq_runNode FullEx.envB envB_nodup 12 0 7 Proofs.Ex.st0 (by decide +kernel)

end Flyt.Refine.FullStack

#print axioms Flyt.Refine.FullStack.fullRun_eq_runNode
#print axioms Flyt.Refine.FullStack.fullRunCanon_eq_runNode
#print axioms Flyt.Refine.FullStack.fullBatchNode_eq
#print axioms Flyt.Refine.FullStack.nodupOK_of_check
#print axioms Flyt.Refine.FullStack.envB_nodup
#print axioms Flyt.Refine.FullStack.envB_flow12
#print axioms Flyt.Refine.FullStack.envB_root
#print axioms Flyt.Refine.FullStack.fullRun'_eq_runNode
