import FlytModel.GoIR.BatchStackWorld
import FlytModel.Refine.Item
import FlytModel.Refine.Seq
import FlytModel.Refine.Batch
import FlytModel.Refine.ConcSerial
/-!
# Discharging the layering of the batch path: callees as INTERPRETED SOURCE instead of model functions

The refinement theorems of `Item.lean` / `Seq.lean` / `ConcSerial.lean` / `Batch.lean` are layered: each world gives the callee
the meaning of the MODEL function. Here the seams are closed (worlds: `GoIR/BatchStackWorld.lean`):

* `runBatchSequential_over_interpreted_items` (seam 1) — `runBatchSequential` in `stackSeqWorld` (= `seqWorld` except that the
  call `runExecWithRetries(…)` is `callFunc (itemWorld …) fi Expected.IR.runExecWithRetries` on the caller's heap and argument
  values, return values passed through untouched) = the model's `itemsSeq`.
* `runBatch_over_interpreted_sequential` (seam 2) — `runBatch` in `stackBatchWorld` (= `batchWorld` except that the call
  `runBatchSequential(…)` is `callFunc (stackSeqWorld …) fs Expected.IR.runBatchSequential` on the caller's heap) = the model's
  `runBatch`: three levels of interpreted source, down to the scripted `Exec` / `ExecFallback`.
* `runBatchConcurrent_serial_over_interpreted_items` (seam 3) — the same as seam 1 for `runBatchConcurrent` on the serial
  schedule (`stackConcSerialWorld`) = the model's `itemsSerialPool`.

The composed worlds do NOT agree pointwise with the layered ones: the source of `runExecWithRetries` returns Go's untyped `nil`
where `seqWorld` returns `GV.ofVal Val.nil` (a node without `Exec`: `BaseNode.Exec` returns the literal `nil`), so there is no
`funext` / `callFunc_congr` transfer. Instead (1) `item_raw`: the raw return values, heap and recording of the interpreted
`runExecWithRetries` on ANY heap against `runItemRaw` (`RetOK` / `RawVal`: the value itself, not only what the caller makes of
it — `Item.lean` states the result through `itemResOf`); (2) the body lemmas and loop inductions of `Seq.lean` /
`ConcSerial.lean` re-run over the composed world with the item call given by `itemCall_spec`; (3) for `runBatch`, every entry of
`stackBatchWorld` other than `call "runBatchSequential"` IS `batchWorld`'s (`SB_*`, by `rfl`), so the `Batch.W_*` lemmas apply
after one rewrite and only the executor call (`SB_seq`, from `stackSeq_call`) is new.
-/
namespace Flyt.Refine.BatchStack
open Flyt Flyt.GoIR Flyt.Refine Flyt.Refine.Item
set_option linter.unusedSimpArgs false

/-! ### 1. `runExecWithRetries`, raw: return VALUES, heap, recording — not only what the caller makes of them -/

/-- the `any` the translated source returns for the model's value `x`: `GV.ofVal x`, or Go's untyped `nil` where the model
    says `Val.nil` (a `BaseNode.Exec` returns the literal `nil`) -/
def RawVal (g : GV) (x : Val) : Prop := g = GV.ofVal x ∨ (g = .nil ∧ x = Val.nil)

/-- the two return values of `runExecWithRetries` against the model's raw result -/
def RetOK (rs : List GV) : Except ErrRoot Val → Prop
  | .ok x => ∃ g, rs = [g, .nil] ∧ RawVal g x
  | .error e => rs = [.nil, .err e]

section
variable (kind : CtxKind) (n : NodeId) (v : Nat) (cfg : BatchCfg) (i : Nat) (item : Result) (scr : ItemScript)

local notation "W" => itemWorld kind n v cfg i scr

theorem prefix_spec' (f : Nat) (rest : Block) (h : Heap) (w : LeafW) :
    execBlock W (f + 20) (.cons s1 (.cons s2 (.cons s3 (.cons s4 (.cons s5 rest)))))
        ⟨[("item", .result item), ("node", .node n), ("ctx", ctxH)], h, w⟩
      = execBlock W (f + 15) rest ⟨envS n cfg item .nil (.val Val.nil), h, w⟩ := by
  gosimp [s1, s2, s3, s4, s5]

/-- `Item.LoopPost` on an arbitrary heap, and with the returned value itself (not only its `toVal`) -/
def LoopPost' (n : NodeId) (cfg : BatchCfg) (item : Result) (h : Heap) (evs0 : List Ev) (res : List Ev × Ctx × AttemptRes)
    (out : Option (Ctl × St LeafW)) : Prop :=
  match res with
  | (aev, ctx', .ok x) =>
    ∃ k' r' c', out = some (.next, ⟨envL n cfg item k' .nil r', h, ⟨evs0 ++ aev, ctx', c'⟩⟩) ∧ RawVal r' x
  | (aev, ctx', .failed e) =>
    ∃ k' r' c', out = some (.next, ⟨envL n cfg item k' (.err (.user e)) r', h, ⟨evs0 ++ aev, ctx', c'⟩⟩)
  | (aev, ctx', .cancelled kd) =>
    ∃ k' a' r' c', out = some (.ret [.nil, .err (.ctx kd)], ⟨envL n cfg item k' a' r', h, ⟨evs0 ++ aev, ctx', c'⟩⟩)

theorem rawVal_nil : RawVal .nil Val.nil := Or.inr ⟨rfl, rfl⟩
theorem rawVal_ofVal (x : Val) : RawVal (GV.ofVal x) x := Or.inl rfl

theorem loop_spec' (h : Heap) (d : Nat) : ∀ (rem k : Nat), k + rem = cfg.budget → ∀ (last : Option Nat) (r : GV), RawVal r Val.nil →
    ∀ (evs0 : List Ev) (ctx : Ctx),
    LoopPost' n cfg item h evs0
      (attempts kind (fun k => .bexec n v i k (execArg cfg.execS item.box)) (fun k f => .bwait n v i k cfg.wait f)
        scr.exec scr.waitCancel cfg.execS cfg.wait k rem last ctx)
      (loopFor W (rem + d + 20) loopCond loopPost loopBody ⟨envL n cfg item k (lastGV last) r, h, ⟨evs0, ctx, k⟩⟩) := by
  intro rem
  induction rem with
  | zero =>
    intro k hk last r hr evs0 ctx
    have hkb : ¬ k < cfg.budget := by omega
    rw [show 0 + d + 20 = (d + 19) + 1 by omega, loopFor_succ, cond_spec]
    cases last <;> simp [hkb, attempts, LoopPost', lastGV]
    · exact ⟨_, _, rfl, hr⟩
    · exact ⟨_, _, rfl⟩
  | succ rem ih =>
    intro k hk last r hr evs0 ctx
    have hkb : k < cfg.budget := by omega
    rw [show rem + 1 + d + 20 = (rem + d + 20) + 1 by omega, loopFor_succ, cond_spec]
    cases ctx with
    | done kd =>
      simp [hkb, loopBody_unfold, execBlock_cons, ctxCheck_done, popSt_envL, LoopPost', attempts]
      exact ⟨_, _, _, rfl⟩
    | live =>
      simp only [attempts]
      by_cases hc : k > 0 ∧ cfg.wait > 0 ∧ scr.waitCancel k = true
      · simp [hc, hkb, loopBody_unfold, execBlock_cons, ctxCheck_live, wait_spec, popSt_envL, LoopPost']
        exact ⟨_, _, _, rfl⟩
      · simp only [if_neg hc]
        rcases hS' : cfg.execS with _ | _ | _ | _
        · simp [hc, hkb, loopBody_unfold, execBlock_cons, ctxCheck_live, wait_spec, popSt_envL, LoopPost',
            exec_absent kind n v cfg i item scr hS', brk_nil]
          exact ⟨_, _, rfl, rawVal_nil⟩
        all_goals
          have hS : cfg.execS ≠ .absent := by simp [hS']
          cases hx : (scr.exec k).res with
          | ok x =>
            simp [hc, hkb, loopBody_unfold, execBlock_cons, ctxCheck_live, wait_spec, popSt_envL, LoopPost',
              exec_ok kind n v cfg i item scr hS _ _ _ _ _ _ _ _ x hx, brk_nil, hS']
            exact ⟨_, _, rfl, rawVal_ofVal _⟩
          | error e =>
            simp [hc, hkb, loopBody_unfold, execBlock_cons, execBlock_nil, ctxCheck_live, wait_spec, popSt_envL,
              exec_err kind n v cfg i item scr hS _ _ _ _ _ _ _ _ e hx, brk_err, post_spec, hS']
            have h := ih (k + 1) (by omega) (some e) .nil rawVal_nil
              (evs0 ++ ((if 0 < k ∧ 0 < cfg.wait then [Ev.bwait n v i k cfg.wait true] else []) ++
                  [Ev.bexec n v i k (execArg cfg.execS item.box)]))
              (Ctx.live.after kind (scr.exec k).cancels)
            simp only [lastGV, hS'] at h
            generalize attempts _ _ _ _ _ _ _ (k + 1) rem (some e) _ = X at h ⊢
            obtain ⟨aev, c, ar⟩ := X
            cases ar <;> simp only [LoopPost'] at h ⊢
            · obtain ⟨k', r', c', h1, h2⟩ := h
              exact ⟨k', r', c', by rw [h1]; simp, h2⟩
            · obtain ⟨k', r', c', h1⟩ := h
              exact ⟨k', r', c', by rw [h1]; simp⟩
            · obtain ⟨k', a', r', c', h1⟩ := h
              exact ⟨k', a', r', c', by rw [h1]; simp⟩

/-- The translated `runExecWithRetries` in the item world, on ANY heap: it returns the heap untouched, records the events and
    the context of the model's `runItemRaw`, and its return values are the model's raw result as Go values. -/
theorem item_raw_add (d : Nat) (h : Heap) (ctx : Ctx) :
    ∃ rs c', callFunc W (cfg.budget + d + 30) Flyt.Expected.IR.runExecWithRetries [ctxH, .node n, .result item] h ⟨[], ctx, 0⟩
        = some (rs, h, ⟨(runItemRaw kind n v cfg i item scr ctx).1, (runItemRaw kind n v cfg i item scr ctx).2.1, c'⟩)
      ∧ RetOK rs (runItemRaw kind n v cfg i item scr ctx).2.2 := by
  have hl := loop_spec' kind n v cfg i item scr h (d + 3) cfg.budget 0 (by omega) none (.val Val.nil) (rawVal_ofVal Val.nil) [] ctx
  unfold callFunc
  rw [body_eq]
  simp only [Flyt.Expected.IR.runExecWithRetries]
  simp only [GoIR.Env.pushAll, GoIR.Env.push, beq_self_eq_true, if_true, List.nil_append, String.reduceBEq, Bool.false_eq_true,
    if_false]
  rw [show cfg.budget + d + 30 = (cfg.budget + d + 10) + 20 by omega, prefix_spec',
    show cfg.budget + d + 10 + 15 = (cfg.budget + d + 20 + 4) + 1 by omega, execBlock_cons, for_spec,
    show cfg.budget + d + 20 + 4 = cfg.budget + d + 24 by omega,
    show cfg.budget + d + 20 + 3 = cfg.budget + (d + 3) + 20 by omega]
  simp only [lastGV] at hl
  unfold runItemRaw
  generalize attempts _ _ _ _ _ _ _ 0 cfg.budget none ctx = X at hl ⊢
  obtain ⟨aev, ctx1, ar⟩ := X
  cases ar <;> simp only [LoopPost'] at hl
  · obtain ⟨k', r', c', h1, h2⟩ := hl
    rw [h1]
    simp [popSt_envL_7, suffix_ok, fallbackPhase, RetOK, h2]
  · rename_i e
    obtain ⟨k', r', c', h1⟩ := hl
    rw [h1]
    cases hfb : cfg.fb with
    | absent =>
      simp [popSt_envL_7, suffix_absent kind n v cfg i item scr hfb, fallbackPhase, RetOK]
    | passThrough =>
      simp [popSt_envL_7, suffix_pass kind n v cfg i item scr hfb, fallbackPhase, RetOK]
    | custom =>
      cases hx : scr.fb.res with
      | ok x =>
        simp [popSt_envL_7, suffix_custom_ok kind n v cfg i item scr hfb x hx, fallbackPhase, hx, RetOK, rawVal_ofVal]
      | error e' =>
        simp [popSt_envL_7, suffix_custom_err kind n v cfg i item scr hfb e' hx, fallbackPhase, hx, RetOK]
  · obtain ⟨k', a', r', c', h1⟩ := hl
    rw [h1]
    simp [popSt_envL_7, fallbackPhase, RetOK]

end

/-- the same for every fuel from `itemFuel cfg` on -/
theorem item_raw (kind : CtxKind) (n : NodeId) (v : Nat) (cfg : BatchCfg) (i : Nat) (item : Result) (scr : ItemScript)
    (fi : Nat) (hfi : itemFuel cfg ≤ fi) (h : Heap) (ctx : Ctx) :
    ∃ rs c', callFunc (itemWorld kind n v cfg i scr) fi Flyt.Expected.IR.runExecWithRetries [ctxH, .node n, .result item] h ⟨[], ctx, 0⟩
        = some (rs, h, ⟨(runItemRaw kind n v cfg i item scr ctx).1, (runItemRaw kind n v cfg i item scr ctx).2.1, c'⟩)
      ∧ RetOK rs (runItemRaw kind n v cfg i item scr ctx).2.2 := by
  obtain ⟨d, rfl⟩ := Nat.exists_eq_add_of_le hfi
  rw [show itemFuel cfg + d = cfg.budget + d + 30 by unfold itemFuel; omega]
  exact item_raw_add kind n v cfg i item scr d h ctx

/-- the seam: the interpreted item call, in the caller's terms -/
theorem itemCall_spec (kind : CtxKind) (n : NodeId) (v : Nat) (cfg : BatchCfg) (i : Nat) (item : Result) (scr : ItemScript)
    (fi : Nat) (hfi : itemFuel cfg ≤ fi) (h : Heap) (evs : List Ev) (ctx : Ctx) :
    ∃ rs, itemCallIR fi Flyt.Expected.IR.runExecWithRetries kind n v cfg i scr [.ref "ctx" 0, .node n, .result item] h ⟨evs, ctx⟩
        = some (rs, h, ⟨evs ++ (runItemRaw kind n v cfg i item scr ctx).1, (runItemRaw kind n v cfg i item scr ctx).2.1⟩)
      ∧ RetOK rs (runItemRaw kind n v cfg i item scr ctx).2.2 := by
  obtain ⟨rs, c', h1, h2⟩ := item_raw kind n v cfg i item scr fi hfi h ctx
  refine ⟨rs, ?_, h2⟩
  simp only [ctxH] at h1
  simp [itemCallIR, h1]

/-! ### 2. `runBatchSequential` over interpreted items -/

section
variable (fi : Nat) (kind : CtxKind) (n : NodeId) (v : Nat) (cfg : BatchCfg) (scr : BatchScript) (idxOf : Result → Nat)

local notation "SW" => stackSeqWorld fi Flyt.Expected.IR.runExecWithRetries kind n v cfg scr idxOf

local macro "seq_exec" "[" ts:Lean.Parser.Tactic.simpLemma,* "]" : tactic =>
  `(tactic| simp [seqBody, baseEnv, execBlock, execStmt, evalRhs, isCommaOk, evalCommaOk, evalExpr, evalArgs, Env.get, Env.set,
    Env.pushAll, Env.push, popSt, Env.popTo,
    stackSeqWorld, seqWorld, errorf, assignAll, assignTo, Exprs.toList, Exprs.length, heapSet, ctxH, ctxErrGV, GV.eqv, GV.isNil, intBin,
    markUnprocessedSem, $ts,*])

theorem body_done_stop (N i : Nat) (item : Result) (items res : List Result) (evs : List Ev) (kd : CtxKind)
    (hi : i < N) (hres : res.length = N) (c : Nat) :
    execBlock SW (c + 20) seqBody
      ⟨("item", .result item) :: ("i", .int i) :: baseEnv n N "stop", [items, res], ⟨evs, .done kd⟩⟩
      = some (.brk, ⟨("item", .result item) :: ("i", .int i) :: baseEnv n N "stop",
          [items, res.take i ++ List.replicate (N - i) (newErrorResult (.fw .batchCancelled))], ⟨evs, .done kd⟩⟩) := by
  have hi' : i < res.length := by omega
  have e1 : (0:Int) ≤ (i:Int) + 1 := by omega
  have e4 : i + 1 ≤ N := by omega
  have e5 : fwTagOf "context cancelled" = .batchCancelled := by decide
  have e6 : N - i = (N - (i + 1)) + 1 := by omega
  have e3 : ((i:Int)+1).toNat = i+1 := by omega
  seq_exec [hi, hi', e1, e3, e4, e5, fill_tail _ _ _ _ _ _ hres hi]
  simp [e6, List.replicate_succ]

theorem body_done_cont (N i : Nat) (item : Result) (items res : List Result) (evs : List Ev) (kd : CtxKind)
    (hi : i < N) (hres : res.length = N) (c : Nat) :
    execBlock SW (c + 20) seqBody
      ⟨("item", .result item) :: ("i", .int i) :: baseEnv n N "continue", [items, res], ⟨evs, .done kd⟩⟩
      = some (.cont, ⟨("item", .result item) :: ("i", .int i) :: baseEnv n N "continue",
          [items, res.set i (newErrorResult (.fw .batchCancelled))], ⟨evs, .done kd⟩⟩) := by
  have hi' : i < res.length := by omega
  have e5 : fwTagOf "context cancelled" = .batchCancelled := by decide
  seq_exec [hi, hi', e5]

theorem body_err_stop (N i : Nat) (item : Result) (items res : List Result) (evs : List Ev) (w1 : SeqW) (e : ErrRoot)
    (hi : i < N) (hres : res.length = N) (hidx : idxOf item = i)
    (hr : itemCallIR fi Flyt.Expected.IR.runExecWithRetries kind n v cfg i (scr.item i) [.ref "ctx" 0, .node n, .result item]
            [items, res] ⟨evs, .live⟩ = some ([.nil, .err e], [items, res], w1)) (c : Nat) :
    execBlock SW (c + 20) seqBody
      ⟨("item", .result item) :: ("i", .int i) :: baseEnv n N "stop", [items, res], ⟨evs, .live⟩⟩
      = some (.brk, ⟨("err", .err e) :: ("execResult", .nil) :: ("item", .result item) :: ("i", .int i) :: baseEnv n N "stop",
          [items, res.take i ++ newErrorResult e :: List.replicate (N - (i + 1)) (newErrorResult (.fw .batchStopped))], w1⟩) := by
  have hi' : i < res.length := by omega
  have e1 : (0:Int) ≤ (i:Int) + 1 := by omega
  have e4 : i + 1 ≤ N := by omega
  have e5 : fwTagOf "batch stopped due to error" = .batchStopped := by decide
  have e3 : ((i:Int)+1).toNat = i+1 := by omega
  seq_exec [hi, hi', e1, e3, e4, e5, hidx, hr, fill_tail _ _ _ _ _ _ hres hi]

theorem body_err_cont (N i : Nat) (item : Result) (items res : List Result) (evs : List Ev) (w1 : SeqW) (e : ErrRoot)
    (hi : i < N) (hres : res.length = N) (hidx : idxOf item = i)
    (hr : itemCallIR fi Flyt.Expected.IR.runExecWithRetries kind n v cfg i (scr.item i) [.ref "ctx" 0, .node n, .result item]
            [items, res] ⟨evs, .live⟩ = some ([.nil, .err e], [items, res], w1)) (c : Nat) :
    execBlock SW (c + 20) seqBody
      ⟨("item", .result item) :: ("i", .int i) :: baseEnv n N "continue", [items, res], ⟨evs, .live⟩⟩
      = some (.next, ⟨("err", .err e) :: ("execResult", .nil) :: ("item", .result item) :: ("i", .int i) :: baseEnv n N "continue",
          [items, res.set i (newErrorResult e)], w1⟩) := by
  have hi' : i < res.length := by omega
  seq_exec [hi, hi', hidx, hr]

theorem body_ok (N i : Nat) (eh : String) (item : Result) (items res : List Result) (evs : List Ev) (w1 : SeqW) (g : GV) (x : Val)
    (hi : i < N) (hres : res.length = N) (hidx : idxOf item = i) (hg : RawVal g x)
    (hr : itemCallIR fi Flyt.Expected.IR.runExecWithRetries kind n v cfg i (scr.item i) [.ref "ctx" 0, .node n, .result item]
            [items, res] ⟨evs, .live⟩ = some ([g, .nil], [items, res], w1)) (c : Nat) :
    execBlock SW (c + 20) seqBody
      ⟨("item", .result item) :: ("i", .int i) :: baseEnv n N eh, [items, res], ⟨evs, .live⟩⟩
      = some (.next, ⟨("err", .nil) :: ("execResult", g) :: ("item", .result item) :: ("i", .int i) :: baseEnv n N eh,
          [items, res.set i (slotOfVal x)], w1⟩) := by
  have hi' : i < res.length := by omega
  rcases hg with rfl | ⟨rfl, rfl⟩
  · cases x with
    | tok t => seq_exec [hi, hi', hidx, hr, GV.ofVal, Val.asResult?, slotOfVal, toResult, mkNewResult, GV.toVal]
    | res xv xe => seq_exec [hi, hi', hidx, hr, GV.ofVal, Val.asResult?, slotOfVal, toResult, mkNewResult, GV.toVal]
  · seq_exec [hi, hi', hidx, hr, GV.ofVal, Val.asResult?, slotOfVal, toResult, mkNewResult, GV.toVal, Val.nil]

theorem seq_loop' (hfi : itemFuel cfg ≤ fi) (N : Nat) (items : List Result) (hN : items.length = N)
    (hidx : ∀ i (h : i < items.length), idxOf items[i] = i) (c k : Nat) :
    ∀ (i : Nat) (res : List Result) (evs : List Ev) (ctx : Ctx), i + k = N → res.length = N →
    loopRange SW (k + c + 21) "i" "item" 0 0 N i seqBody
        ⟨baseEnv n N (ehOf cfg), [items, res], ⟨evs, ctx⟩⟩
      = some (.next, ⟨baseEnv n N (ehOf cfg),
          [items, res.take i ++ (itemsSeq kind n v cfg scr (items.drop i) i ctx).2.2],
          ⟨evs ++ (itemsSeq kind n v cfg scr (items.drop i) i ctx).1, (itemsSeq kind n v cfg scr (items.drop i) i ctx).2.1⟩⟩) := by
  induction k with
  | zero =>
    intro i res evs ctx hik hres
    have : ¬ i < N := by omega
    have hd : items.drop i = [] := by apply List.drop_eq_nil_of_le; omega
    have ht : res.take i = res := by apply List.take_of_length_le; omega
    simp [loopRange, this, hd, ht, itemsSeq]
  | succ k ih =>
    intro i res evs ctx hik hres
    have hi : i < N := by omega
    have hi2 : i < items.length := by omega
    have hi3 : i < res.length := by omega
    have hd : items.drop i = items[i] :: items.drop (i + 1) := List.drop_eq_getElem_cons hi2
    rw [show k + 1 + c + 21 = (k + c + 21) + 1 from by omega, loopRange]
    simp only [hi, if_true, heapGet, List.getElem?_cons_zero, Option.bind_some, Nat.zero_add, List.getElem?_eq_getElem hi2]
    have hp : ∀ eh, Env.push (Env.push (baseEnv n N eh) "i" (.int i)) "item" (.result items[i])
        = ("item", .result items[i]) :: ("i", .int i) :: baseEnv n N eh := by intro eh; simp [Env.push]
    have hl : (baseEnv n N (ehOf cfg)).length = 5 := rfl
    have hrest : (items.drop (i + 1)).length = N - (i + 1) := by simp [hN]
    simp only [hp, hl]
    have fuelE : k + c + 21 = (k + c + 1) + 20 := by omega
    have pop2 : ∀ (x1 x2 : String × GV) eh h w, popSt (Ω := SeqW) ⟨x1 :: x2 :: baseEnv n N eh, h, w⟩ 5 = ⟨baseEnv n N eh, h, w⟩ :=
      fun _ _ _ _ _ => rfl
    have pop4 : ∀ (x1 x2 x3 x4 : String × GV) eh h w,
        popSt (Ω := SeqW) ⟨x1 :: x2 :: x3 :: x4 :: baseEnv n N eh, h, w⟩ 5 = ⟨baseEnv n N eh, h, w⟩ :=
      fun _ _ _ _ _ _ _ => rfl
    have hidxi : idxOf items[i] = i := hidx i hi2
    cases ctx with
    | done kd =>
      by_cases hs : cfg.stop
      · have he : ehOf cfg = "stop" := by simp [ehOf, hs]
        rw [he, fuelE, body_done_stop fi kind n v cfg scr idxOf N i items[i] items res evs kd hi hres]
        rw [hd]
        simp [pop2, itemsSeq, hs, hrest, -List.getElem_cons_drop]
        simp [List.map_const', hN, show N - i = (N - (i + 1)) + 1 by omega, List.replicate_succ]
      · have he : ehOf cfg = "continue" := by simp [ehOf, hs]
        have ih' := ih (i + 1) (res.set i (newErrorResult (.fw .batchCancelled))) evs (.done kd) (by omega) (by simpa using hres)
        rw [he] at ih' ⊢
        rw [fuelE, body_done_cont fi kind n v cfg scr idxOf N i items[i] items res evs kd hi hres]
        simp only [pop2]
        rw [← fuelE, ih', hd]
        simp [itemsSeq, hs, take_set_succ _ _ _ hi3, -List.getElem_cons_drop]
    | live =>
      obtain ⟨rs, hcall, hret⟩ :=
        itemCall_spec kind n v cfg i items[i] (scr.item i) fi hfi [items, res] evs .live
      rcases hr : runItemRaw kind n v cfg i items[i] (scr.item i) .live with ⟨ev1, ctx1, (e | x)⟩
      · rw [hr] at hcall hret
        simp only [RetOK] at hret
        subst hret
        by_cases hs : cfg.stop
        · have he : ehOf cfg = "stop" := by simp [ehOf, hs]
          rw [he, fuelE, body_err_stop fi kind n v cfg scr idxOf N i items[i] items res evs _ e hi hres hidxi hcall]
          rw [hd]
          simp [pop4, itemsSeq, runItem_eq_raw, hr, hs, hrest, -List.getElem_cons_drop]
          simp [List.map_const', hN]
        · have he : ehOf cfg = "continue" := by simp [ehOf, hs]
          have ih' := ih (i + 1) (res.set i (newErrorResult e)) (evs ++ ev1) ctx1 (by omega) (by simpa using hres)
          rw [he] at ih' ⊢
          rw [fuelE, body_err_cont fi kind n v cfg scr idxOf N i items[i] items res evs _ e hi hres hidxi hcall]
          simp only [pop4]
          rw [← fuelE, ih', hd]
          simp [itemsSeq, runItem_eq_raw, hr, hs, take_set_succ _ _ _ hi3, -List.getElem_cons_drop]
      · rw [hr] at hcall hret
        simp only [RetOK] at hret
        obtain ⟨g, rfl, hg⟩ := hret
        have ih' := ih (i + 1) (res.set i (slotOfVal x)) (evs ++ ev1) ctx1 (by omega) (by simpa using hres)
        rw [fuelE, body_ok fi kind n v cfg scr idxOf N i (ehOf cfg) items[i] items res evs _ g x hi hres hidxi hg hcall]
        simp only [pop4]
        rw [← fuelE, ih', hd]
        simp [itemsSeq, runItem_eq_raw, hr, take_set_succ _ _ _ hi3, -List.getElem_cons_drop]

/-- the composed `runBatchSequential` as a CALL (what a caller that hands it fresh arrays sees): values, heap, world state -/
theorem stackSeq_call (hfi : itemFuel cfg ≤ fi) (items : List Result) (evs : List Ev) (ctx : Ctx)
    (hidx : ∀ i (h : i < items.length), idxOf items[i] = i) (c : Nat) :
    callFunc SW (items.length + 23 + c) Flyt.Expected.IR.runBatchSequential
        [.ref "ctx" 0, .node n, .slice 0 0 items.length, .slice 1 0 items.length, .str (ehOf cfg)]
        [items, List.replicate items.length ⟨Val.nil, none⟩] ⟨evs, ctx⟩
      = some ([], [items, (itemsSeq kind n v cfg scr items 0 ctx).2.2],
          ⟨evs ++ (itemsSeq kind n v cfg scr items 0 ctx).1, (itemsSeq kind n v cfg scr items 0 ctx).2.1⟩) := by
  have hl := seq_loop' fi kind n v cfg scr idxOf hfi items.length items rfl hidx c items.length 0
    (List.replicate items.length ⟨Val.nil, none⟩) evs ctx (by omega) (by simp)
  simp only [seqBody, baseEnv, ctxH] at hl
  simp [callFunc, Flyt.Expected.IR.runBatchSequential, Env.pushAll, Env.push, execBlock, execStmt, evalExpr,
    Env.get, show items.length + 23 + c = items.length + c + 21 + 1 + 1 from by omega, hl]

theorem stackSeq_fuel (hfi : itemFuel cfg ≤ fi) (items : List Result) (ctx : Ctx)
    (hidx : ∀ i (h : i < items.length), idxOf items[i] = i) (c : Nat) :
    stackSeqIR (items.length + 23 + c) fi Flyt.Expected.IR.runBatchSequential Flyt.Expected.IR.runExecWithRetries
        kind n v cfg scr idxOf items ctx
      = some (itemsSeq kind n v cfg scr items 0 ctx) := by
  have hl := seq_loop' fi kind n v cfg scr idxOf hfi items.length items rfl hidx c items.length 0
    (List.replicate items.length ⟨Val.nil, none⟩) [] ctx (by omega) (by simp)
  simp only [seqBody, baseEnv, ehOf] at hl
  simp [stackSeqIR, callFunc, Flyt.Expected.IR.runBatchSequential, Env.pushAll, Env.push, execBlock, execStmt, evalExpr,
    Env.get, show items.length + 23 + c = items.length + c + 21 + 1 + 1 from by omega, hl]

end

/-- **Seam 1.** The translated `runBatchSequential`, with every per-item call `runExecWithRetries(ctx, node, item)` executed by
    the interpreter on the translated source of `runExecWithRetries` in the item's own world (user `Exec` / `ExecFallback`
    scripts, retry budget, wait, timers, cancellation) — no model function anywhere below `runBatchSequential` — yields exactly
    the model's sequential loop `itemsSeq`: for all items, configurations, scripts and contexts, every inner fuel from
    `itemFuel cfg` on and every outer fuel from `items.length + 23` on. This is the statement of
    `runBatchSequential_refines_of_le` with `seqWorld`'s modelled callee replaced by interpreted source. -/
theorem runBatchSequential_over_interpreted_items (kind : CtxKind) (n : NodeId) (v : Nat) (cfg : BatchCfg) (scr : BatchScript)
    (idxOf : Result → Nat) (items : List Result) (ctx : Ctx)
    (hidx : ∀ i (h : i < items.length), idxOf items[i] = i)
    (fi : Nat) (hfi : itemFuel cfg ≤ fi) (fuel : Nat) (hf : items.length + 23 ≤ fuel) :
    GoIR.stackSeqIR fuel fi Flyt.Expected.IR.runBatchSequential Flyt.Expected.IR.runExecWithRetries
        kind n v cfg scr idxOf items ctx
      = some (itemsSeq kind n v cfg scr items 0 ctx) := by
  obtain ⟨c, rfl⟩ := Nat.exists_eq_add_of_le hf
  exact stackSeq_fuel fi kind n v cfg scr idxOf hfi items ctx hidx c

/-- the composed interpretation and the layered one (`itemsSeqIR` in `seqWorld`) are the same function of the inputs -/
theorem stackSeqIR_eq_itemsSeqIR (kind : CtxKind) (n : NodeId) (v : Nat) (cfg : BatchCfg) (scr : BatchScript)
    (idxOf : Result → Nat) (items : List Result) (ctx : Ctx)
    (hidx : ∀ i (h : i < items.length), idxOf items[i] = i)
    (fi : Nat) (hfi : itemFuel cfg ≤ fi) (fuel : Nat) (hf : items.length + 23 ≤ fuel) :
    GoIR.stackSeqIR fuel fi Flyt.Expected.IR.runBatchSequential Flyt.Expected.IR.runExecWithRetries
        kind n v cfg scr idxOf items ctx
      = GoIR.itemsSeqIR fuel Flyt.Expected.IR.runBatchSequential kind n v cfg scr idxOf items ctx := by
  rw [runBatchSequential_over_interpreted_items kind n v cfg scr idxOf items ctx hidx fi hfi fuel hf,
    runBatchSequential_refines_of_le kind n v cfg scr idxOf items ctx hidx fuel hf]

end Flyt.Refine.BatchStack

/-! ### 3. `runBatch` over the interpreted sequential executor over interpreted items -/

namespace Flyt.Refine.BatchStack
open Flyt Flyt.GoIR Flyt.Refine
set_option linter.unusedSimpArgs false

section
variable (fs fi : Nat) (kind : CtxKind) (n : NodeId) (v : Nat) (sid : StoreId) (cfg : BatchCfg) (scr : BatchScript)
  (idxOf : Result → Nat)

local notation "W" => batchWorld kind n v cfg scr
local notation "SBW" =>
  stackBatchWorld fs fi Flyt.Expected.IR.runBatchSequential Flyt.Expected.IR.runExecWithRetries kind n v cfg scr idxOf

/-! every entry of the composed world except the call `runBatchSequential` IS `batchWorld`'s -/
theorem SB_mcall : (SBW).mcall = (W).mcall := rfl
theorem SB_assert : (SBW).assert = (W).assert := rfl
theorem SB_global : (SBW).global = (W).global := rfl
theorem SB_toSlice (a : GV) (h : Heap) (w : SeqW) : (SBW).call "ToSlice" [a] h w = (W).call "ToSlice" [a] h w := rfl
theorem SB_pool (args : List GV) (h : Heap) (w : SeqW) :
    (SBW).call "runBatchConcurrent" args h w = (W).call "runBatchConcurrent" args h w := rfl

/-- … and that call, at the site where `runBatch` makes it, is the interpreted stack of seam 1 -/
theorem SB_seq (hfi : itemFuel cfg ≤ fi) (items : List Result) (hfs : items.length + 23 ≤ fs)
    (hidx : ∀ i (h : i < items.length), idxOf items[i] = i) (w : SeqW) :
    (SBW).call "runBatchSequential" [.ref "ctx" 0, .node n, .slice 0 0 items.length, .slice 1 0 items.length, .str (ehOf cfg)]
        [items, List.replicate items.length ⟨Val.nil, none⟩] w
      = some ([], [items, (itemsSeq kind n v cfg scr items 0 w.ctx).2.2],
          ⟨w.evs ++ (itemsSeq kind n v cfg scr items 0 w.ctx).1, (itemsSeq kind n v cfg scr items 0 w.ctx).2.1⟩) := by
  obtain ⟨c, rfl⟩ := Nat.exists_eq_add_of_le hfs
  have h := stackSeq_call fi kind n v cfg scr idxOf hfi items w.evs w.ctx hidx c
  simpa [stackBatchWorld] using h

local macro "sbsimp" "[" ts:Lean.Parser.Tactic.simpLemma,* "]" : tactic =>
  `(tactic| simp [Item.execBlock_cons, Item.execBlock_nil, execStmt, evalRhs, isCommaOk, evalCommaOk, evalExpr, evalArgs, switchCases,
      Cases.ofList, GoIR.Env.get, GoIR.Env.set, GoIR.Env.push, GoIR.Env.pushAll, popSt, GoIR.Env.popTo, assignAll, assignTo,
      Exprs.toList, Exprs.length, zeroOf, intBin, GV.eqv, GV.isNil, errorf, Batch.env0, Batch.envS, Batch.envT,
      SB_mcall, SB_assert, SB_global, SB_toSlice, SB_pool,
      Batch.W_global, Batch.W_assert_base, Batch.W_assert_custom, Batch.W_assert_batch, Batch.W_assert_slice_res,
      Batch.W_assert_anys_res, Batch.W_assert_anys_any,
      Batch.W_assert_ref_res, Batch.W_assert_ref_any, Batch.W_assert_nil_res, Batch.W_assert_nil_any, Batch.W_conc, Batch.W_errh,
      Batch.W_toSlice, Batch.containsW_prep, Batch.containsW_post, $ts,*])

theorem sb_prefix_err (e : Nat) (hp : scr.prep.res = .error e) (f : Nat) (rest : Block) (ctx : Ctx) :
    execBlock SBW (f + 12) (.cons Batch.sPrep (.cons Batch.sPrepErr rest)) ⟨Batch.env0 n sid, [], ⟨[], ctx⟩⟩
      = some (.ret [.str "", .err (.user e)],
          ⟨("err", .err (.user e)) :: ("prepResult", .nil) :: Batch.env0 n sid, [], ⟨[.bprep n v sid], ctx.after kind scr.prep.cancels⟩⟩) := by
  sbsimp [Batch.sPrep, Batch.sPrepErr, Batch.W_prep, hp]

theorem sb_prefix_ok (pr : GV) (h' : Heap) (w' : SeqW) (ctx : Ctx)
    (hprep : (W).mcall (.node n) "Prep" [ctxH, storeH sid] [] ⟨[], ctx⟩ = some ([pr, .nil], h', w'))
    (f : Nat) (rest : Block) :
    execBlock SBW (f + 8) (.cons Batch.sPrep (.cons Batch.sPrepErr (.cons Batch.sDecl rest))) ⟨Batch.env0 n sid, [], ⟨[], ctx⟩⟩
      = execBlock SBW (f + 5) rest ⟨Batch.envS n sid pr, h', w'⟩ := by
  sbsimp [Batch.sPrep, Batch.sPrepErr, Batch.sDecl, hprep]

theorem sb_switch_results (a N : Nat) (h : Heap) (w : SeqW) (f : Nat) :
    execStmt SBW (f + 8) Batch.sSwitch ⟨Batch.envS n sid (.slice a 0 N), h, w⟩
      = some (.next, ⟨("items", .slice a 0 N) :: ("err", .nil) :: ("prepResult", .slice a 0 N) :: Batch.env0 n sid, h, w⟩) := by
  sbsimp [Batch.sSwitch, Batch.caseResults]

theorem sb_switch_anys (l : List Val) (w : SeqW) (c : Nat) :
    execStmt SBW (l.length + c + 13) Batch.sSwitch ⟨Batch.envS n sid (.anys l), [], w⟩
      = some (.next, ⟨Batch.envT n sid (.anys l) l.length, [l.map newResult], w⟩) := by
  have hl := Batch.wrap_loop SBW (("v", .anys l) :: ("items", .slice 0 0 l.length) :: ("err", .nil) :: ("prepResult", .anys l) :: Batch.env0 n sid)
    0 l.length w (by simp [GoIR.Env.get]) c l 0 [List.replicate l.length ⟨Val.nil, none⟩] (List.replicate l.length ⟨Val.nil, none⟩)
    rfl (by omega) (by simp)
  simp only [Batch.env0] at hl
  sbsimp [Batch.sSwitch, Batch.caseAnys, hl]

theorem sb_switch_default (pr : GV) (l : List Val)
    (hA1 : ∀ w, (W).assert pr "[]Result" w = some (.nil, false)) (hA2 : ∀ w, (W).assert pr "[]any" w = some (.nil, false))
    (hts : ∀ h w, (W).call "ToSlice" [pr] h w = some ([.anys l], h, w)) (w : SeqW) (c : Nat) :
    execStmt SBW (l.length + c + 15) Batch.sSwitch ⟨Batch.envS n sid pr, [], w⟩
      = some (.next, ⟨Batch.envT n sid pr l.length, [l.map newResult], w⟩) := by
  have hl := Batch.wrap_loop SBW (("slice", .anys l) :: ("v", pr) :: ("items", .slice 0 0 l.length) :: ("err", .nil) :: ("prepResult", pr) :: Batch.env0 n sid)
    0 l.length w (by simp [GoIR.Env.get]) c l 0 [List.replicate l.length ⟨Val.nil, none⟩] (List.replicate l.length ⟨Val.nil, none⟩)
    rfl (by omega) (by simp)
  simp only [Batch.env0] at hl
  simp [Item.execBlock_cons, Item.execBlock_nil, execStmt, evalRhs, isCommaOk, evalCommaOk, evalExpr, evalArgs, switchCases,
      Cases.ofList, GoIR.Env.get, GoIR.Env.set, GoIR.Env.push, GoIR.Env.pushAll, popSt, GoIR.Env.popTo, assignAll, assignTo,
      Exprs.toList, Exprs.length, Batch.env0, Batch.envS, Batch.envT, Batch.sSwitch, Batch.caseDefault,
      SB_assert, SB_toSlice, hA1, hA2, hts, hl]

theorem stackBatchIR_eq (fuel : Nat) (ctx : Ctx) :
    stackBatchIR fuel fs fi Flyt.Expected.IR.runBatch Flyt.Expected.IR.runBatchSequential Flyt.Expected.IR.runExecWithRetries
        kind n v sid cfg scr idxOf ctx
      = Batch.obs (execBlock SBW fuel Flyt.Expected.IR.runBatch.body ⟨Batch.env0 n sid, [], ⟨[], ctx⟩⟩) := by
  have hr : Flyt.Expected.IR.runBatch.recv = "" := rfl
  have hp : Flyt.Expected.IR.runBatch.params = ["ctx", "node", "shared"] := rfl
  simp [stackBatchIR, callFunc, hr, hp, GoIR.Env.pushAll, GoIR.Env.push, Batch.env0]
  rcases execBlock SBW fuel Flyt.Expected.IR.runBatch.body _ with _ | ⟨c, st⟩
  · rfl
  · cases c <;> simp [Batch.obs, outcomeOf]

theorem sb_tail_empty (pr : GV) (ctx1 : Ctx) (rest : Block) (c : Nat) :
    Batch.obs (execBlock SBW (c + 16) (.cons Batch.sEmpty rest) ⟨Batch.envT n sid pr 0, [[]], ⟨[.bprep n v sid], ctx1⟩⟩)
      = some (if cfg.hasPost then
                match scr.post.res with
                | .error e => ([.bprep n v sid, .bpost n v sid [] []], ctx1.after kind scr.post.cancels, .err (.user e))
                | .ok a => ([.bprep n v sid, .bpost n v sid [] []], ctx1.after kind scr.post.cancels, .ok (norm a))
              else ([.bprep n v sid], ctx1, .ok defaultAction)) := by
  cases hhp : cfg.hasPost
  · sbsimp [Batch.sEmpty, Batch.postTail, Batch.W_post_empty, Batch.postSem, hhp, Batch.obs, outcomeOf, defaultAction]
  · cases hpr : scr.post.res with
    | error e => sbsimp [Batch.sEmpty, Batch.postTail, Batch.W_post_empty, Batch.postSem, hhp, hpr, Batch.obs, outcomeOf]
    | ok a =>
      by_cases ha : a = ""
      · subst ha
        sbsimp [Batch.sEmpty, Batch.postTail, Batch.W_post_empty, Batch.postSem, hhp, hpr, Batch.obs, outcomeOf, norm]
      · have hb : (a == "") = false := by simp [ha]
        sbsimp [Batch.sEmpty, Batch.postTail, Batch.W_post_empty, Batch.postSem, hhp, hpr, Batch.obs, outcomeOf, norm, ha, hb]

local macro "sb_tail" "[" ts:Lean.Parser.Tactic.simpLemma,* "]" : tactic =>
  `(tactic| sbsimp [Batch.sEmpty, Batch.mainTail, Batch.sCfg, Batch.sExec, Batch.postTail, Batch.W_pool, Batch.W_post_full,
      Batch.postSem, Batch.obs, outcomeOf, Batch.fullModel, itemsSeq_length, Batch.itemsSerialPool_length, ctxH, $ts,*])

/-- a non-empty batch, sequential executor: the interpreted one -/
theorem sb_tail_seq (hfi : itemFuel cfg ≤ fi) (pr : GV) (items : List Result) (hfs : items.length + 23 ≤ fs)
    (hidx : ∀ i (h : i < items.length), idxOf items[i] = i)
    (hne : items ≠ []) (hc : ¬ cfg.conc > 0) (ctx1 : Ctx) (c : Nat) :
    Batch.obs (execBlock SBW (c + 17) (.cons Batch.sEmpty Batch.mainTail)
        ⟨Batch.envT n sid pr items.length, [items], ⟨[.bprep n v sid], ctx1⟩⟩)
      = some (Batch.fullModel kind n v sid cfg scr items (itemsSeq kind n v cfg scr items 0 ctx1)) := by
  have h0 : ((items.length : Int) == 0) = false := by
    cases items with
    | nil => exact absurd rfl hne
    | cons x xs => simp; omega
  have h1 : ¬ (0 < cfg.conc) := hc
  have h2 : cfg.conc = 0 := by omega
  have hseq := SB_seq fs fi kind n v cfg scr idxOf hfi items hfs hidx
  cases hhp : cfg.hasPost
  · sb_tail [h0, h1, h2, hhp, defaultAction, hseq]
  · cases hpr : scr.post.res with
    | error e => sb_tail [h0, h1, h2, hhp, hpr, hseq]
    | ok a =>
      by_cases ha : a = ""
      · subst ha
        sb_tail [h0, h1, h2, hhp, hpr, norm, hseq]
      · have hb : (a == "") = false := by simp [ha]
        sb_tail [h0, h1, h2, hhp, hpr, norm, ha, hb, hseq]

/-- a non-empty batch, concurrent executor: still `batchWorld`'s modelled serial schedule -/
theorem sb_tail_pool (pr : GV) (items : List Result) (hne : items ≠ []) (hc : cfg.conc > 0) (ctx1 : Ctx) (c : Nat) :
    Batch.obs (execBlock SBW (c + 17) (.cons Batch.sEmpty Batch.mainTail)
        ⟨Batch.envT n sid pr items.length, [items], ⟨[.bprep n v sid], ctx1⟩⟩)
      = some (Batch.fullModel kind n v sid cfg scr items (itemsSerialPool kind n v cfg scr items 0 false ctx1)) := by
  have h0 : ((items.length : Int) == 0) = false := by
    cases items with
    | nil => exact absurd rfl hne
    | cons x xs => simp; omega
  have h1 : 0 < cfg.conc := hc
  cases hhp : cfg.hasPost
  · sb_tail [h0, h1, hhp, defaultAction]
  · cases hpr : scr.post.res with
    | error e => sb_tail [h0, h1, hhp, hpr]
    | ok a =>
      by_cases ha : a = ""
      · subst ha
        sb_tail [h0, h1, hhp, hpr, norm]
      · have hb : (a == "") = false := by simp [ha]
        sb_tail [h0, h1, hhp, hpr, norm, ha, hb]

theorem sb_tail_spec (hfi : itemFuel cfg ≤ fi) (pr : GV) (items : List Result) (N : Nat) (hN : N = items.length)
    (hfs : ¬ cfg.conc > 0 → items.length + 23 ≤ fs)
    (hidx : ¬ cfg.conc > 0 → ∀ i (h : i < items.length), idxOf items[i] = i) (ctx1 : Ctx) (c : Nat) :
    Batch.obs (execBlock SBW (c + 17) (.cons Batch.sEmpty Batch.mainTail) ⟨Batch.envT n sid pr N, [items], ⟨[.bprep n v sid], ctx1⟩⟩)
      = some (Batch.modelTail kind n v sid cfg scr items ctx1) := by
  subst hN
  by_cases hne : items = []
  · subst hne
    have h := sb_tail_empty fs fi kind n v sid cfg scr idxOf pr ctx1 Batch.mainTail (c + 1)
    rw [show c + 1 + 16 = c + 17 from by omega] at h
    refine h.trans ?_
    simp only [Batch.modelTail, List.isEmpty_nil, if_true]
    cases cfg.hasPost <;> cases scr.post.res <;> rfl
  · have hie : items.isEmpty = false := by cases items <;> simp_all
    by_cases hc : cfg.conc > 0
    · rw [sb_tail_pool fs fi kind n v sid cfg scr idxOf pr items hne hc]
      unfold Batch.modelTail Batch.fullModel
      rcases itemsSerialPool kind n v cfg scr items 0 false ctx1 with ⟨iev, ctx2, slots⟩
      simp [Batch.modelTail, Batch.fullModel, hie, hc]
    · rw [sb_tail_seq fs fi kind n v sid cfg scr idxOf hfi pr items (hfs hc) (hidx hc) hne hc]
      unfold Batch.modelTail Batch.fullModel
      rcases itemsSeq kind n v cfg scr items 0 ctx1 with ⟨iev, ctx2, slots⟩
      simp [Batch.modelTail, Batch.fullModel, hie, hc]

theorem sb_through_switch (pr : GV) (h' : Heap) (w' : SeqW) (ctx : Ctx) (st1 : St SeqW) (f : Nat)
    (hprep : (W).mcall (.node n) "Prep" [ctxH, storeH sid] [] ⟨[], ctx⟩ = some ([pr, .nil], h', w'))
    (hsw : execStmt SBW (f + 4) Batch.sSwitch ⟨Batch.envS n sid pr, h', w'⟩ = some (.next, st1)) :
    execBlock SBW (f + 8) Flyt.Expected.IR.runBatch.body ⟨Batch.env0 n sid, [], ⟨[], ctx⟩⟩
      = execBlock SBW (f + 4) (.cons Batch.sEmpty Batch.mainTail) st1 := by
  rw [Batch.body_eq, sb_prefix_ok fs fi kind n v sid cfg scr idxOf pr h' w' ctx hprep, show f + 5 = (f + 4) + 1 from rfl,
    Item.execBlock_cons, hsw]

theorem normItems_length_le (shape : PrepShape) (l : List Val) : (normItems shape l).length ≤ l.length := by
  cases shape <;> simp [normItems] <;> omega

theorem stackBatch_fuel (hfi : itemFuel cfg ≤ fi) (hfs : Batch.prepLen scr + 23 ≤ fs)
    (hidx : ¬ cfg.conc > 0 → ∀ l, scr.prep.res = .ok l →
      ∀ i (h : i < (normItems cfg.shape l).length), idxOf (normItems cfg.shape l)[i] = i)
    (ctx : Ctx) (c : Nat) :
    stackBatchIR (Batch.prepLen scr + c + 21) fs fi Flyt.Expected.IR.runBatch Flyt.Expected.IR.runBatchSequential
        Flyt.Expected.IR.runExecWithRetries kind n v sid cfg scr idxOf ctx
      = some (Flyt.runBatch kind n v sid cfg scr ctx) := by
  rw [stackBatchIR_eq, Batch.runBatch_eq]
  cases hp : scr.prep.res with
  | error e =>
    rw [Batch.body_eq, show Batch.prepLen scr + c + 21 = (Batch.prepLen scr + c + 9) + 12 from by omega,
      sb_prefix_err fs fi kind n v sid cfg scr idxOf e hp]
    simp [Batch.obs, outcomeOf]
  | ok l =>
    have hL : Batch.prepLen scr = l.length := by simp [Batch.prepLen, hp]
    have hidx' : ¬ cfg.conc > 0 → ∀ i (h : i < (normItems cfg.shape l).length), idxOf (normItems cfg.shape l)[i] = i :=
      fun hc => hidx hc l hp
    have hfs' : ¬ cfg.conc > 0 → (normItems cfg.shape l).length + 23 ≤ fs := by
      intro _
      have := normItems_length_le cfg.shape l
      omega
    rw [hL, show l.length + c + 21 = (l.length + c + 13) + 8 from by omega]
    simp only []
    have hf : l.length + c + 13 + 4 = (l.length + c) + 17 := by omega
    cases hS : cfg.shape with
    | results =>
      have hprep : (batchWorld kind n v cfg scr).mcall (.node n) "Prep" [ctxH, storeH sid] [] ⟨[], ctx⟩
          = some ([.slice 0 0 l.length, .nil], [l.map toResult], ⟨[.bprep n v sid], ctx.after kind scr.prep.cancels⟩) := by
        simp [Batch.W_prep, hp, hS]
      rw [sb_through_switch fs fi kind n v sid cfg scr idxOf _ _ _ ctx _ _ hprep
        (by rw [show l.length + c + 13 + 4 = (l.length + c + 9) + 8 from by omega]
            exact sb_switch_results fs fi kind n v sid cfg scr idxOf 0 l.length _ _ _), hf]
      simp only [hS, normItems] at hidx' hfs'
      exact sb_tail_spec fs fi kind n v sid cfg scr idxOf hfi _ (l.map toResult) l.length (by simp) hfs' hidx' _ _
    | anys =>
      have hprep : (batchWorld kind n v cfg scr).mcall (.node n) "Prep" [ctxH, storeH sid] [] ⟨[], ctx⟩
          = some ([.anys l, .nil], [], ⟨[.bprep n v sid], ctx.after kind scr.prep.cancels⟩) := by
        simp [Batch.W_prep, hp, hS]
      rw [sb_through_switch fs fi kind n v sid cfg scr idxOf _ _ _ ctx _ _ hprep
        (by rw [show l.length + c + 13 + 4 = l.length + (c + 4) + 13 from by omega]
            exact sb_switch_anys fs fi kind n v sid cfg scr idxOf l _ _), hf]
      simp only [hS, normItems] at hidx' hfs'
      exact sb_tail_spec fs fi kind n v sid cfg scr idxOf hfi _ (l.map newResult) l.length (by simp) hfs' hidx' _ _
    | typed =>
      have hprep : (batchWorld kind n v cfg scr).mcall (.node n) "Prep" [ctxH, storeH sid] [] ⟨[], ctx⟩
          = some ([.ref "typed" 0, .nil], [], ⟨[.bprep n v sid], ctx.after kind scr.prep.cancels⟩) := by
        simp [Batch.W_prep, hp, hS]
      rw [sb_through_switch fs fi kind n v sid cfg scr idxOf _ _ _ ctx _ _ hprep
        (by rw [show l.length + c + 13 + 4 = l.length + (c + 2) + 15 from by omega]
            exact sb_switch_default fs fi kind n v sid cfg scr idxOf _ l (fun _ => rfl) (fun _ => rfl)
              (by simp [Batch.W_toSlice, hp, hS]) _ _), hf]
      simp only [hS, normItems] at hidx' hfs'
      exact sb_tail_spec fs fi kind n v sid cfg scr idxOf hfi _ (l.map newResult) l.length (by simp) hfs' hidx' _ _
    | single =>
      have hprep : (batchWorld kind n v cfg scr).mcall (.node n) "Prep" [ctxH, storeH sid] [] ⟨[], ctx⟩
          = some ([.ref "single" 0, .nil], [], ⟨[.bprep n v sid], ctx.after kind scr.prep.cancels⟩) := by
        simp [Batch.W_prep, hp, hS]
      have hle : (l.take 1).length ≤ l.length := by simp; omega
      rw [sb_through_switch fs fi kind n v sid cfg scr idxOf _ _ _ ctx _ _ hprep
        (by rw [show l.length + c + 13 + 4 = (l.take 1).length + (l.length - (l.take 1).length + c + 2) + 15 from by omega]
            exact sb_switch_default fs fi kind n v sid cfg scr idxOf _ (l.take 1) (fun _ => rfl) (fun _ => rfl)
              (by simp [Batch.W_toSlice, hp, hS]) _ _), hf]
      simp only [hS, normItems] at hidx' hfs'
      exact sb_tail_spec fs fi kind n v sid cfg scr idxOf hfi _ ((l.take 1).map newResult) (l.take 1).length (by simp) hfs' hidx' _ _
    | nilv =>
      have hprep : (batchWorld kind n v cfg scr).mcall (.node n) "Prep" [ctxH, storeH sid] [] ⟨[], ctx⟩
          = some ([.nil, .nil], [], ⟨[.bprep n v sid], ctx.after kind scr.prep.cancels⟩) := by
        simp [Batch.W_prep, hp, hS]
      rw [sb_through_switch fs fi kind n v sid cfg scr idxOf _ _ _ ctx _ _ hprep
        (by rw [show l.length + c + 13 + 4 = ([] : List Val).length + (l.length + c + 2) + 15 from by simp]
            exact sb_switch_default fs fi kind n v sid cfg scr idxOf _ [] (fun _ => rfl) (fun _ => rfl)
              (by simp [Batch.W_toSlice, hp, hS]) _ _), hf]
      simp only [hS, normItems] at hidx' hfs'
      exact sb_tail_spec fs fi kind n v sid cfg scr idxOf hfi _ [] 0 rfl hfs' hidx' _ _

end

/-- fuel for the interpreted sequential executor inside `runBatch`: one level per item plus a constant -/
def stackSeqFuel (scr : BatchScript) : Nat := Batch.prepLen scr + 23

/-- **Seam 2.** The translated `runBatch` in a world that is `batchWorld` except that the call
    `runBatchSequential(ctx, node, items, results, errorHandling)` is the composed interpretation of seam 1 — translated
    `runBatchSequential` on the caller's heap, whose item calls are the translated `runExecWithRetries` down to the user's
    `Exec` / `ExecFallback` scripts — returns exactly the model's `runBatch`. The model takes the sequential path when
    `¬ cfg.conc > 0`; only then is `idxOf` (the item world's way to tell which item it is handed) constrained. For
    `cfg.conc > 0` the concurrent executor is still `batchWorld`'s modelled serial schedule and the statement is
    `runBatch_refines_of_le`'s. -/
theorem runBatch_over_interpreted_sequential (kind : CtxKind) (n : NodeId) (v : Nat) (sid : StoreId) (cfg : BatchCfg)
    (scr : BatchScript) (idxOf : Result → Nat) (ctx : Ctx)
    (hidx : ¬ cfg.conc > 0 → ∀ l, scr.prep.res = .ok l →
      ∀ i (h : i < (normItems cfg.shape l).length), idxOf (normItems cfg.shape l)[i] = i)
    (fi : Nat) (hfi : itemFuel cfg ≤ fi) (fs : Nat) (hfs : stackSeqFuel scr ≤ fs) (fuel : Nat) (hf : batchFuel scr ≤ fuel) :
    GoIR.stackBatchIR fuel fs fi Flyt.Expected.IR.runBatch Flyt.Expected.IR.runBatchSequential
        Flyt.Expected.IR.runExecWithRetries kind n v sid cfg scr idxOf ctx
      = some (Flyt.runBatch kind n v sid cfg scr ctx) := by
  obtain ⟨c, rfl⟩ := Nat.exists_eq_add_of_le hf
  rw [show batchFuel scr + c = Batch.prepLen scr + c + 21 from by unfold batchFuel; omega]
  exact stackBatch_fuel fs fi kind n v sid cfg scr idxOf hfi hfs hidx ctx c

end Flyt.Refine.BatchStack

/-! ### 4. `runBatchConcurrent` on the serial schedule over interpreted items -/

namespace Flyt.Refine.BatchStack
open Flyt Flyt.GoIR Flyt.Refine
set_option linter.unusedSimpArgs false

section
variable (fi : Nat) (kind : CtxKind) (n : NodeId) (v : Nat) (cfg : BatchCfg) (scr : BatchScript) (idxOf : Result → Nat)

local notation "CW" => stackConcSerialWorld fi Flyt.Expected.IR.runExecWithRetries kind n v cfg scr idxOf

local macro "conc_exec" "[" ts:Lean.Parser.Tactic.simpLemma,* "]" : tactic =>
  `(tactic| simp [concBody, closBody, cEnv, ehB, execBlock, execStmt, evalRhs, isCommaOk, evalCommaOk, evalExpr, evalArgs, Env.get, Env.set,
    Env.pushAll, Env.push, popSt, Env.popTo,
    stackConcSerialWorld, stackSeqWorld, concSerialWorld, seqWorld, errorf, assignAll, assignTo, Exprs.toList, Exprs.length, heapSet,
    ctxH, ctxErrGV, GV.eqv, GV.isNil, intBin, $ts,*])

theorem cbody_stopped (N p i : Nat) (conc : Int) (item : Result) (items res : List Result) (evs : List Ev) (ctx : Ctx)
    (hi : i < N) (hres : res.length = N) (c : Nat) :
    execBlock CW (c + 30) concBody
      ⟨("item", .result item) :: ("i", .int i) :: cEnv n N p conc "stop" true, [items, res], ⟨evs, ctx⟩⟩
      = some (.next, ⟨("itm", .result item) :: ("idx", .int i) :: ("item", .result item) :: ("i", .int i) :: cEnv n N p conc "stop" true,
          [items, res.set i (newErrorResult (.fw .batchStopped))], ⟨evs, ctx⟩⟩) := by
  have hi' : i < res.length := by omega
  have e5 : fwTagOf "batch stopped due to error" = .batchStopped := by decide
  conc_exec [hi, hi', e5]

theorem cbody_done (N p i : Nat) (conc : Int) (b s : Bool) (item : Result) (items res : List Result) (evs : List Ev) (kd : CtxKind)
    (hbs : (b && s) = false) (hi : i < N) (hres : res.length = N) (c : Nat) :
    execBlock CW (c + 30) concBody
      ⟨("item", .result item) :: ("i", .int i) :: cEnv n N p conc (ehB s) b, [items, res], ⟨evs, .done kd⟩⟩
      = some (.next, ⟨("itm", .result item) :: ("idx", .int i) :: ("item", .result item) :: ("i", .int i) :: cEnv n N p conc (ehB s) b,
          [items, res.set i (newErrorResult (.fw .batchCancelled))], ⟨evs, .done kd⟩⟩) := by
  have hi' : i < res.length := by omega
  have e5 : fwTagOf "context cancelled" = .batchCancelled := by decide
  cases b <;> cases s <;> simp at hbs <;> conc_exec [hi, hi', e5]

theorem cbody_err (N p i : Nat) (conc : Int) (b s : Bool) (item : Result) (items res : List Result) (evs : List Ev)
    (w1 : SeqW) (e : ErrRoot)
    (hbs : (b && s) = false) (hi : i < N) (hres : res.length = N) (hidx : idxOf item = i)
    (hr : itemCallIR fi Flyt.Expected.IR.runExecWithRetries kind n v cfg i (scr.item i) [.ref "ctx" 0, .node n, .result item]
            [items, res] ⟨evs, .live⟩ = some ([.nil, .err e], [items, res], w1)) (c : Nat) :
    execBlock CW (c + 30) concBody
      ⟨("item", .result item) :: ("i", .int i) :: cEnv n N p conc (ehB s) b, [items, res], ⟨evs, .live⟩⟩
      = some (.next, ⟨("itm", .result item) :: ("idx", .int i) :: ("item", .result item) :: ("i", .int i) :: cEnv n N p conc (ehB s) (b || s),
          [items, res.set i (newErrorResult e)], w1⟩) := by
  have hi' : i < res.length := by omega
  cases b <;> cases s <;> simp at hbs <;> conc_exec [hi, hi', hidx, hr]

theorem cbody_ok (N p i : Nat) (conc : Int) (b s : Bool) (item : Result) (items res : List Result) (evs : List Ev)
    (w1 : SeqW) (g : GV) (x : Val)
    (hbs : (b && s) = false) (hi : i < N) (hres : res.length = N) (hidx : idxOf item = i) (hg : RawVal g x)
    (hr : itemCallIR fi Flyt.Expected.IR.runExecWithRetries kind n v cfg i (scr.item i) [.ref "ctx" 0, .node n, .result item]
            [items, res] ⟨evs, .live⟩ = some ([g, .nil], [items, res], w1)) (c : Nat) :
    execBlock CW (c + 30) concBody
      ⟨("item", .result item) :: ("i", .int i) :: cEnv n N p conc (ehB s) b, [items, res], ⟨evs, .live⟩⟩
      = some (.next, ⟨("itm", .result item) :: ("idx", .int i) :: ("item", .result item) :: ("i", .int i) :: cEnv n N p conc (ehB s) b,
          [items, res.set i (slotOfVal x)], w1⟩) := by
  have hi' : i < res.length := by omega
  rcases hg with rfl | ⟨rfl, rfl⟩
  · cases x with
    | tok t =>
      cases b <;> cases s <;> simp at hbs <;>
        conc_exec [hi, hi', hidx, hr, GV.ofVal, Val.asResult?, slotOfVal, toResult, mkNewResult, GV.toVal]
    | res xv xe =>
      cases b <;> cases s <;> simp at hbs <;>
        conc_exec [hi, hi', hidx, hr, GV.ofVal, Val.asResult?, slotOfVal, toResult, mkNewResult, GV.toVal]
  · cases b <;> cases s <;> simp at hbs <;>
      conc_exec [hi, hi', hidx, hr, GV.ofVal, Val.asResult?, slotOfVal, toResult, mkNewResult, GV.toVal, Val.nil]

theorem conc_loop' (hfi : itemFuel cfg ≤ fi) (N p : Nat) (conc : Int) (items : List Result) (hN : items.length = N)
    (hidx : ∀ i (h : i < items.length), idxOf items[i] = i) (c k : Nat) :
    ∀ (i : Nat) (res : List Result) (evs : List Ev) (ctx : Ctx) (b : Bool), i + k = N → res.length = N →
    ∃ b' : Bool,
    loopRange CW (k + c + 31) "i" "item" 0 0 N i concBody
        ⟨cEnv n N p conc (ehB cfg.stop) b, [items, res], ⟨evs, ctx⟩⟩
      = some (.next, ⟨cEnv n N p conc (ehB cfg.stop) b',
          [items, res.take i ++ (itemsSerialPool kind n v cfg scr (items.drop i) i b ctx).2.2],
          ⟨evs ++ (itemsSerialPool kind n v cfg scr (items.drop i) i b ctx).1,
           (itemsSerialPool kind n v cfg scr (items.drop i) i b ctx).2.1⟩⟩) := by
  induction k with
  | zero =>
    intro i res evs ctx b hik hres
    have : ¬ i < N := by omega
    have hd : items.drop i = [] := by apply List.drop_eq_nil_of_le; omega
    have ht : res.take i = res := by apply List.take_of_length_le; omega
    exact ⟨b, by simp [loopRange, this, hd, ht, itemsSerialPool]⟩
  | succ k ih =>
    intro i res evs ctx b hik hres
    have hi : i < N := by omega
    have hi2 : i < items.length := by omega
    have hi3 : i < res.length := by omega
    have hd : items.drop i = items[i] :: items.drop (i + 1) := List.drop_eq_getElem_cons hi2
    rw [show k + 1 + c + 31 = (k + c + 31) + 1 from by omega, loopRange]
    simp only [hi, if_true, heapGet, List.getElem?_cons_zero, Option.bind_some, Nat.zero_add, List.getElem?_eq_getElem hi2]
    have hp : ∀ eh b, Env.push (Env.push (cEnv n N p conc eh b) "i" (.int i)) "item" (.result items[i])
        = ("item", .result items[i]) :: ("i", .int i) :: cEnv n N p conc eh b := by intro eh b; simp [Env.push]
    have hl : ∀ b, (cEnv n N p conc (ehB cfg.stop) b).length = 9 := fun _ => rfl
    simp only [hp, hl]
    have fuelE : k + c + 31 = (k + c + 1) + 30 := by omega
    have pop4 : ∀ (x1 x2 x3 x4 : String × GV) eh b h w,
        popSt (Ω := SeqW) ⟨x1 :: x2 :: x3 :: x4 :: cEnv n N p conc eh b, h, w⟩ 9 = ⟨cEnv n N p conc eh b, h, w⟩ :=
      fun _ _ _ _ _ _ _ _ => rfl
    have hidxi : idxOf items[i] = i := hidx i hi2
    by_cases hbs : (b && cfg.stop) = true
    · have hb : b = true := by simp at hbs; exact hbs.1
      have hs : cfg.stop = true := by simp at hbs; exact hbs.2
      subst hb
      obtain ⟨b', ih'⟩ := ih (i + 1) (res.set i (newErrorResult (.fw .batchStopped))) evs ctx true (by omega) (by simpa using hres)
      refine ⟨b', ?_⟩
      have he : ehB cfg.stop = "stop" := by simp [ehB, hs]
      rw [he] at ih' ⊢
      rw [fuelE, cbody_stopped fi kind n v cfg scr idxOf N p i conc items[i] items res evs ctx hi hres]
      simp only [pop4]
      rw [← fuelE, ih', hd]
      simp [itemsSerialPool, hs, take_set_succ _ _ _ hi3, -List.getElem_cons_drop]
    · have hbs' : (b && cfg.stop) = false := by simpa using hbs
      have hbs2 : ¬ (b = true ∧ cfg.stop = true) := by simpa using hbs
      cases ctx with
      | done kd =>
        obtain ⟨b', ih'⟩ := ih (i + 1) (res.set i (newErrorResult (.fw .batchCancelled))) evs (.done kd) b (by omega) (by simpa using hres)
        refine ⟨b', ?_⟩
        rw [fuelE, cbody_done fi kind n v cfg scr idxOf N p i conc b cfg.stop items[i] items res evs kd hbs' hi hres]
        simp only [pop4]
        rw [← fuelE, ih', hd]
        simp [itemsSerialPool, hbs2, take_set_succ _ _ _ hi3, -List.getElem_cons_drop]
      | live =>
        obtain ⟨rs, hcall, hret⟩ :=
          itemCall_spec kind n v cfg i items[i] (scr.item i) fi hfi [items, res] evs .live
        rcases hr : runItemRaw kind n v cfg i items[i] (scr.item i) .live with ⟨ev1, ctx1, (e | x)⟩
        · rw [hr] at hcall hret
          simp only [RetOK] at hret
          subst hret
          obtain ⟨b', ih'⟩ := ih (i + 1) (res.set i (newErrorResult e)) (evs ++ ev1) ctx1 (b || cfg.stop) (by omega) (by simpa using hres)
          refine ⟨b', ?_⟩
          rw [fuelE, cbody_err fi kind n v cfg scr idxOf N p i conc b cfg.stop items[i] items res evs _ e hbs' hi hres hidxi hcall]
          simp only [pop4]
          rw [← fuelE, ih', hd]
          simp [itemsSerialPool, runItem_eq_raw, hr, hbs2, take_set_succ _ _ _ hi3, -List.getElem_cons_drop]
        · rw [hr] at hcall hret
          simp only [RetOK] at hret
          obtain ⟨g, rfl, hg⟩ := hret
          obtain ⟨b', ih'⟩ := ih (i + 1) (res.set i (slotOfVal x)) (evs ++ ev1) ctx1 b (by omega) (by simpa using hres)
          refine ⟨b', ?_⟩
          rw [fuelE, cbody_ok fi kind n v cfg scr idxOf N p i conc b cfg.stop items[i] items res evs _ g x hbs' hi hres hidxi hg hcall]
          simp only [pop4]
          rw [← fuelE, ih', hd]
          simp [itemsSerialPool, runItem_eq_raw, hr, hbs2, take_set_succ _ _ _ hi3, -List.getElem_cons_drop]

theorem scw_pool (c : Int) (h : Heap) (w : SeqW) :
    (CW).call "NewWorkerPool" [.int c] h w = some ([.ref "pool" c.toNat], h, w) := rfl
theorem scw_close (p : Nat) (h : Heap) (w : SeqW) :
    (CW).mcall (.ref "pool" p) "defer:Close" [] h w = some ([], h, w) := by
  simp [stackConcSerialWorld, concSerialWorld]
theorem scw_wait (p : Nat) (h : Heap) (w : SeqW) :
    (CW).mcall (.ref "pool" p) "Wait" [] h w = some ([], h, w) := by
  simp [stackConcSerialWorld, concSerialWorld]

theorem stackConc_fuel (hfi : itemFuel cfg ≤ fi) (items : List Result) (ctx : Ctx)
    (hidx : ∀ i (h : i < items.length), idxOf items[i] = i) (c : Nat) :
    stackConcSerialIR (items.length + 37 + c) fi Flyt.Expected.IR.runBatchConcurrent Flyt.Expected.IR.runExecWithRetries
        kind n v cfg scr idxOf items ctx
      = some (itemsSerialPool kind n v cfg scr items 0 false ctx) := by
  obtain ⟨b', hl⟩ := conc_loop' fi kind n v cfg scr idxOf hfi items.length cfg.conc cfg.conc items rfl hidx c items.length 0
    (List.replicate items.length ⟨Val.nil, none⟩) [] ctx false (by omega) (by simp)
  simp only [cEnv, ehB] at hl
  have hrecv : Flyt.Expected.IR.runBatchConcurrent.recv = "" := rfl
  have hpar : Flyt.Expected.IR.runBatchConcurrent.params = ["ctx", "node", "items", "results", "concurrency", "errorHandling"] := rfl
  simp [stackConcSerialIR, callFunc, runBatchConcurrent_body, hrecv, hpar, Env.pushAll, Env.push, execBlock, execStmt, evalExpr, evalArgs,
    evalRhs, isCommaOk, Env.get, zeroOf, scw_pool, scw_close, scw_wait,
    show items.length + 37 + c = items.length + c + 31 + 1 + 1 + 1 + 1 + 1 + 1 from by omega, hl]

end

/-- **Seam 3.** The translated `runBatchConcurrent` on the serial schedule of the pool (`concSerialWorld`'s `Submit` / `Wait` /
    `Close` / mutex), with every task's call `runExecWithRetries(ctx, node, itm)` executed by the interpreter on the translated
    source in the item's own world, yields exactly the model's `itemsSerialPool`: the statement of
    `runBatchConcurrent_serial_refines_of_le` with the modelled callee replaced by interpreted source. -/
theorem runBatchConcurrent_serial_over_interpreted_items (kind : CtxKind) (n : NodeId) (v : Nat) (cfg : BatchCfg)
    (scr : BatchScript) (idxOf : Result → Nat) (items : List Result) (ctx : Ctx)
    (hidx : ∀ i (h : i < items.length), idxOf items[i] = i)
    (fi : Nat) (hfi : itemFuel cfg ≤ fi) (fuel : Nat) (hf : items.length + 37 ≤ fuel) :
    GoIR.stackConcSerialIR fuel fi Flyt.Expected.IR.runBatchConcurrent Flyt.Expected.IR.runExecWithRetries
        kind n v cfg scr idxOf items ctx
      = some (itemsSerialPool kind n v cfg scr items 0 false ctx) := by
  obtain ⟨c, rfl⟩ := Nat.exists_eq_add_of_le hf
  exact stackConc_fuel fi kind n v cfg scr idxOf hfi items ctx hidx c

/-! ### a concrete instance (the hypotheses are satisfiable; the executable check is `GoIR/BatchStackTest.lean`) -/

def exCfg : BatchCfg :=
  { budget := 2, wait := 5, fb := .custom, conc := 0, stop := true, execS := .res, hasPost := true, shape := .results }
/-- item 0: first attempt fails, the retry (after a wait) succeeds; item 1: both attempts fail, the fallback fails too and
    cancels the context; item 2 is never run (`stop`) -/
def exScr : BatchScript :=
  { prep := { res := .ok [] },
    item := fun i => { exec := fun k => if i == 0 ∧ k == 1 then { res := .ok (.tok 7) } else { res := .error (10 * i + k) },
                       waitCancel := fun _ => false, fb := { res := .error 99, cancels := true } },
    post := { res := .ok "a" } }
def exIdx (r : Result) : Nat := match r.value with | .tok n => n - 100 | _ => 0
def exItems : List Result := [newResult (.tok 100), newResult (.tok 101), newResult (.tok 102)]

example :
    GoIR.stackSeqIR 26 32 Flyt.Expected.IR.runBatchSequential Flyt.Expected.IR.runExecWithRetries
        .canceled 3 1 exCfg exScr exIdx exItems .live
      = some (itemsSeq .canceled 3 1 exCfg exScr exItems 0 .live) :=
  runBatchSequential_over_interpreted_items .canceled 3 1 exCfg exScr exIdx exItems .live
    (by intro i h
        rcases i with _ | _ | _ | i
        · rfl
        · rfl
        · rfl
        · exact absurd h (by simp [exItems]))
    32 (by decide) 26 (by decide)

/-- … and what that common value is: retry with a wait, fallback, an error slot, a cancellation, the `stop` marking -/
example :
    itemsSeq .canceled 3 1 exCfg exScr exItems 0 .live =
      ([.bexec 3 1 0 0 (.res (.tok 100) none), .bwait 3 1 0 1 5 true, .bexec 3 1 0 1 (.res (.tok 100) none),
        .bexec 3 1 1 0 (.res (.tok 101) none), .bwait 3 1 1 1 5 true, .bexec 3 1 1 1 (.res (.tok 101) none),
        .bfb 3 1 1 (.res (.tok 101) none) (.user 11)],
       .done .canceled,
       [⟨.tok 7, none⟩, ⟨.tok 0, some (.user 99)⟩, ⟨.tok 0, some (.fw .batchStopped)⟩]) := by
  decide

#print axioms runBatchSequential_over_interpreted_items
#print axioms stackSeqIR_eq_itemsSeqIR
#print axioms runBatch_over_interpreted_sequential
#print axioms runBatchConcurrent_serial_over_interpreted_items

end Flyt.Refine.BatchStack
