import FlytModel.GoIR.SmallWorld
import FlytModel.Expected.IR
import FlytModel.Refine.RunNode
import FlytModel.Refine.Adapters
/-!
# Refinement: the remaining small functions of the package (`Flyt.Expected.IR`), run by the definitional interpreter

Worlds: `GoIR/SmallWorld.lean`; executable check of the same statements on samples: `GoIR/SmallTest.lean`. Every statement is proved
at recursion depth `f + K` for arbitrary `f` (`…_core`, arbitrary heap and world state); `…_refines_of_le` is the statement at every
`fuel ≥ K`. `K` is the LEAST depth at which the run is not stuck (the last `#eval` of the test checks this).

1. `BaseNode.Prep / Exec / Post / ExecFallback` (K = 5) — in EVERY world (`Post` needs the constant `DefaultAction`):
   `(nil, nil)`, `(nil, nil)`, `(DefaultAction, nil)`, `(nil, err)`; heap and world state untouched, nothing called. These are the
   entries of `leafWorld` (the world of `Run_refines_runLeaf`) for a phase of `Style.absent` and a fallback of
   `FbKind.passThrough` (`BaseNode_*_is_leafWorld_*`), i.e. what `runLeaf` (`Model/Run.lean`) does there: no event and payload
   `Val.nil` for prep, `.ok Val.nil` at the first attempt for exec (`model_absent_exec`), `defaultAction` for post, the last error
   for the fallback (`model_passThrough`); `model_runLeaf_all_absent` puts the four together.
2. `NodeBuilder.Prep / Exec / Post / ExecFallback`, `BatchNodeBuilder.Prep / Exec / Post` (K = 7, 7, 9, 7, 7, 7, 9) — in EVERY world
   in which the builder's embedded-node field (`CustomNode` / `BatchNode`) reads `cn`: the call IS `W.mcall cn m args` with the
   builder's own arguments in order — all results, the heap, the world state, or stuckness passed through. `…_delegWorld`: the
   statements of the test (one recorded call).
3. `BatchNode.Prep` (K = 9), `BatchNode.Post` (K = 13) — in `batchNodeWorld`: equal to the `Prep` / `Post` entries of `batchWorld`,
   the world in which `runBatch_refines` (`Refine/Batch.lean`) relates the translated `runBatch` to the model's
   (`Model/Batch.lean`): `batchPrepFunc` is set iff `cfg.shape = .results`, and then the `[]Result` it returns reads back as
   `normItems .results l` (`userBatchPrep_items`); otherwise the embedded `CustomNode`'s `Prep`; `batchPostFunc` is set iff
   `cfg.hasPost` and is handed the two slices `Post` was handed; otherwise `(DefaultAction, nil)`.
4. `NewResult`, `NewErrorResult` (K = 6), `R` (6, every world), `Result.IsError`, `Result.Value`, `Result.IsNil` (6), `Result.Error` (5),
   `Result.Type` (9) — in `resultWorld`, where `Result` is a struct with the fields `value`, `err`: the sources compute `newResult`,
   `newErrorResult`, `Result.isError`, `Result.valueOf` of `Core.lean`, i.e. exactly what the interpreter's BUILT-IN semantics of
   `NewResult(x)`, `NewErrorResult(x)`, `r.IsError()`, `r.Value()` return (`builtin_*`, `*_source_eq_builtin`; for `Value` up to the
   encoding of a nil `any`: the source returns the literal `nil`, `GV.nil`, the built-in the nil payload `GV.val Val.nil` —
   `sameAny`). NOTE: this needed one change of `Interp.lean`: a keyed literal `Result{k: e}` (the bodies of the two constructors)
   was stuck and is now the world's `lit:Result:k,` like every other struct literal; `Result{}` is unchanged.
5. `(*BatchError).Error()` (K = 12) — in `batchErrorWorld`: which format and which operands it hands `fmt.Sprintf`.
-/
namespace Flyt.Refine.Small
open Flyt Flyt.GoIR Flyt.GoIR.SmallW Flyt.Expected.IR Flyt.Refine
set_option linter.unusedSimpArgs false

/-- every depth `≥ K` is `f + K` for some `f` -/
theorem exists_add {K fuel : Nat} (h : K ≤ fuel) : ∃ f, fuel = f + K := ⟨fuel - K, by omega⟩

/-- the recursion depth of the executable test (`GoIR/SmallTest.lean`) -/
def F : Nat := 30

/-! ## unfolding lemmas for the constructors `Refine/Run.lean` does not cover -/

section steps
variable {Ω : Type} (W : World Ω)
/-- `x.(T)`, single-value form: stuck (a panic) when the assertion fails -/
theorem expr_assert (f : Nat) (a : Expr) (ty : String) (st : St Ω) :
    evalExpr W (f + 1) (.assert a ty) st =
      match evalExpr W f a st with
      | some ([x], st1) =>
        (match W.assert x ty st1.w with
         | some (v, true) => some ([v], st1)
         | _ => none)
      | _ => none := rfl
/-- a method call with at least one argument is never one of the built-in `Result` methods: it is the world's -/
theorem mcall_cons (r : GV) (m : String) (a : GV) (as : List GV) (h : Heap) (w : Ω) (st : St Ω) :
    (match r, a :: as with
     | .result x, [] =>
       if m == "IsError" then some ([.bool x.isError], st)
       else if m == "Value" then some ([GV.ofVal x.valueOf], st)
       else none
     | _, _ =>
       match W.mcall r m (a :: as) h w with
       | some (rs, h', w') => some (rs, { st with heap := h', w := w' })
       | none => none) =
    (match W.mcall r m (a :: as) h w with
     | some (rs, h', w') => some (rs, { st with heap := h', w := w' })
     | none => none) := by
  cases r <;> rfl
end steps

/-! ## 1. `BaseNode.Prep / Exec / Post / ExecFallback` — in EVERY world -/

section base
variable {Ω : Type} (W : World Ω)

theorem BaseNode_Prep_core (f : Nat) (n ctx sh : GV) (h : Heap) (w : Ω) :
    callFunc W (f + 5) BaseNode_Prep [n, ctx, sh] h w = some ([.nil, .nil], h, w) := by
  gosimp [callFunc, BaseNode_Prep]

theorem BaseNode_Exec_core (f : Nat) (n ctx pv : GV) (h : Heap) (w : Ω) :
    callFunc W (f + 5) BaseNode_Exec [n, ctx, pv] h w = some ([.nil, .nil], h, w) := by
  gosimp [callFunc, BaseNode_Exec]

theorem BaseNode_Post_core (hG : W.global "DefaultAction" = some (.str defaultAction)) (f : Nat) (n ctx sh pv ev : GV)
    (h : Heap) (w : Ω) :
    callFunc W (f + 5) BaseNode_Post [n, ctx, sh, pv, ev] h w = some ([.str defaultAction, .nil], h, w) := by
  gosimp [callFunc, BaseNode_Post, hG]

theorem BaseNode_ExecFallback_core (f : Nat) (n pv err : GV) (h : Heap) (w : Ω) :
    callFunc W (f + 5) BaseNode_ExecFallback [n, pv, err] h w = some ([.nil, err], h, w) := by
  gosimp [callFunc, BaseNode_ExecFallback]

end base

/-! ## 2. the delegations of `NodeBuilder` / `BatchNodeBuilder` — in EVERY world in which the builder has its embedded node

`hF` says which object the builder embeds; the conclusion is the embedded node's method, applied to the same arguments in the same
order, with ALL its results (values, heap, world state — or its being stuck) passed through unchanged. -/

section deleg
variable {Ω : Type} (W : World Ω)

theorem NodeBuilder_Prep_core (f : Nat) (b cn ctx sh : GV) (h : Heap) (w : Ω) (hF : W.field b "CustomNode" w = some cn) :
    callFunc W (f + 7) NodeBuilder_Prep [b, ctx, sh] h w = W.mcall cn "Prep" [ctx, sh] h w := by
  cases hm : W.mcall cn "Prep" [ctx, sh] h w <;>
    gosimp [callFunc, NodeBuilder_Prep, expr_sel, hF, mcall_cons, hm]

theorem NodeBuilder_Exec_core (f : Nat) (b cn ctx pv : GV) (h : Heap) (w : Ω) (hF : W.field b "CustomNode" w = some cn) :
    callFunc W (f + 7) NodeBuilder_Exec [b, ctx, pv] h w = W.mcall cn "Exec" [ctx, pv] h w := by
  cases hm : W.mcall cn "Exec" [ctx, pv] h w <;>
    gosimp [callFunc, NodeBuilder_Exec, expr_sel, hF, mcall_cons, hm]

theorem NodeBuilder_Post_core (f : Nat) (b cn ctx sh pv ev : GV) (h : Heap) (w : Ω) (hF : W.field b "CustomNode" w = some cn) :
    callFunc W (f + 9) NodeBuilder_Post [b, ctx, sh, pv, ev] h w = W.mcall cn "Post" [ctx, sh, pv, ev] h w := by
  cases hm : W.mcall cn "Post" [ctx, sh, pv, ev] h w <;>
    gosimp [callFunc, NodeBuilder_Post, expr_sel, hF, mcall_cons, hm]

theorem NodeBuilder_ExecFallback_core (f : Nat) (b cn pv err : GV) (h : Heap) (w : Ω) (hF : W.field b "CustomNode" w = some cn) :
    callFunc W (f + 7) NodeBuilder_ExecFallback [b, pv, err] h w = W.mcall cn "ExecFallback" [pv, err] h w := by
  cases hm : W.mcall cn "ExecFallback" [pv, err] h w <;>
    gosimp [callFunc, NodeBuilder_ExecFallback, expr_sel, hF, mcall_cons, hm]

theorem BatchNodeBuilder_Prep_core (f : Nat) (b bn ctx sh : GV) (h : Heap) (w : Ω) (hF : W.field b "BatchNode" w = some bn) :
    callFunc W (f + 7) BatchNodeBuilder_Prep [b, ctx, sh] h w = W.mcall bn "Prep" [ctx, sh] h w := by
  cases hm : W.mcall bn "Prep" [ctx, sh] h w <;>
    gosimp [callFunc, BatchNodeBuilder_Prep, expr_sel, hF, mcall_cons, hm]

theorem BatchNodeBuilder_Exec_core (f : Nat) (b bn ctx pv : GV) (h : Heap) (w : Ω) (hF : W.field b "BatchNode" w = some bn) :
    callFunc W (f + 7) BatchNodeBuilder_Exec [b, ctx, pv] h w = W.mcall bn "Exec" [ctx, pv] h w := by
  cases hm : W.mcall bn "Exec" [ctx, pv] h w <;>
    gosimp [callFunc, BatchNodeBuilder_Exec, expr_sel, hF, mcall_cons, hm]

theorem BatchNodeBuilder_Post_core (f : Nat) (b bn ctx sh pv ev : GV) (h : Heap) (w : Ω) (hF : W.field b "BatchNode" w = some bn) :
    callFunc W (f + 9) BatchNodeBuilder_Post [b, ctx, sh, pv, ev] h w = W.mcall bn "Post" [ctx, sh, pv, ev] h w := by
  cases hm : W.mcall bn "Post" [ctx, sh, pv, ev] h w <;>
    gosimp [callFunc, BatchNodeBuilder_Post, expr_sel, hF, mcall_cons, hm]

end deleg

/-! ### … and in `delegWorld`, the world of the executable test -/

section delegWorld
variable (ret : String → List GV → Option (List GV))

theorem dw_field_nb (i : Nat) (w : DW) : (delegWorld ret).field (.ref "nb" i) "CustomNode" w = some cnH := by
  simp [delegWorld]
theorem dw_field_bnb (i : Nat) (w : DW) : (delegWorld ret).field (.ref "bnb" i) "BatchNode" w = some bnH := by
  simp [delegWorld]
theorem dw_mcall_cn (m : String) (args : List GV) (h : Heap) (w : DW) :
    (delegWorld ret).mcall cnH m args h w = (ret m args).map fun rs => (rs, h, w ++ [⟨cnH, m, args⟩]) := by
  simp [delegWorld, cnH]
theorem dw_mcall_bn (m : String) (args : List GV) (h : Heap) (w : DW) :
    (delegWorld ret).mcall bnH m args h w = (ret m args).map fun rs => (rs, h, w ++ [⟨bnH, m, args⟩]) := by
  simp [delegWorld, bnH]

/-- `runDeleg` of a function that IS the embedded node's method `m` on `args` -/
theorem runDeleg_of {fuel : Nat} {fn : Func} {b e : GV} {m : String} {args : List GV}
    (hc : callFunc (delegWorld ret) fuel fn (b :: args) [] [] = (ret m args).map fun rs => (rs, [], [] ++ [⟨e, m, args⟩])) :
    runDeleg fuel fn ret (b :: args) = (ret m args).map fun rs => (rs, [⟨e, m, args⟩]) := by
  rw [runDeleg, hc]; cases ret m args <;> rfl

end delegWorld

/-! ## 3. `BatchNode.Prep` / `BatchNode.Post` -/

section batchNode
variable (kind : CtxKind) (n : NodeId) (v : Nat) (cfg : BatchCfg) (scr : BatchScript)
local notation "W" => batchNodeWorld kind n v cfg scr

theorem bw_field_prep (i : Nat) (w : SeqW) :
    (W).field (.ref "bn" i) "batchPrepFunc" w = some (if cfg.shape == .results then .ref "fn" 0 else .nil) := by
  simp [batchNodeWorld]
theorem bw_field_post (i : Nat) (w : SeqW) :
    (W).field (.ref "bn" i) "batchPostFunc" w = some (if cfg.hasPost then .ref "fn" 1 else .nil) := by
  simp [batchNodeWorld]
theorem bw_field_cn (i : Nat) (w : SeqW) : (W).field (.ref "bn" i) "CustomNode" w = some cnH := by
  simp [batchNodeWorld]
theorem bw_m_prep (i : Nat) (a sh : GV) (h : Heap) (w : SeqW) :
    (W).mcall (.ref "bn" i) "batchPrepFunc" [a, sh] h w = userBatchPrep kind n v scr sh h w := by
  simp [batchNodeWorld]
theorem bw_m_post (i : Nat) (a sh its res : GV) (h : Heap) (w : SeqW) :
    (W).mcall (.ref "bn" i) "batchPostFunc" [a, sh, its, res] h w = userBatchPost kind n v scr sh its res h w := by
  simp [batchNodeWorld]
theorem bw_m_cnPrep (i : Nat) (a sh : GV) (h : Heap) (w : SeqW) :
    (W).mcall (.ref "cn" i) "Prep" [a, sh] h w = customPrep kind n v cfg.shape scr sh h w := by
  simp [batchNodeWorld]
theorem bw_assert (a o k : Nat) (w : SeqW) : (W).assert (.slice a o k) "[]Result" w = some (.slice a o k, true) := by
  simp [batchNodeWorld]
theorem bw_global : (W).global "DefaultAction" = some (.str defaultAction) := by
  simp [batchNodeWorld]

/-- `BatchNode.Prep`: the user's `batchPrepFunc` if it is set, the embedded `CustomNode`'s `Prep` otherwise — called once, with the
    context and the store `Prep` was handed, its two results (and the heap, the world state, or its being stuck) passed through -/
theorem BatchNode_Prep_core (f : Nat) (ctx sh : GV) (h : Heap) (w : SeqW) :
    callFunc (W) (f + 9) BatchNode_Prep [bnH, ctx, sh] h w =
      (if cfg.shape = .results then userBatchPrep kind n v scr sh h w else customPrep kind n v cfg.shape scr sh h w) := by
  obtain ⟨budget, wait, fb, conc, stop, execS, hasPost, shape⟩ := cfg
  cases shape
  · cases hm : userBatchPrep kind n v scr sh h w <;>
      gosimp [callFunc, BatchNode_Prep, bnH, expr_sel, bw_field_prep, bw_field_cn, bw_m_prep, bw_m_cnPrep, mcall_cons, hm]
  all_goals
    cases hm : customPrep kind n v _ scr sh h w <;>
      gosimp [callFunc, BatchNode_Prep, bnH, cnH, expr_sel, bw_field_prep, bw_field_cn, bw_m_prep, bw_m_cnPrep, mcall_cons, hm]

/-- `BatchNode.Post` on two `[]Result` values: the user's `batchPostFunc` if it is set — called once, with the context, the store and
    the two slices `Post` was handed (the SAME slices: address, offset, length), results passed through — `(DefaultAction, nil)`
    and no call otherwise -/
theorem BatchNode_Post_core (f : Nat) (ctx sh : GV) (a o k a' o' k' : Nat) (h : Heap) (w : SeqW) :
    callFunc (W) (f + 13) BatchNode_Post [bnH, ctx, sh, .slice a o k, .slice a' o' k'] h w =
      (if cfg.hasPost then userBatchPost kind n v scr sh (.slice a o k) (.slice a' o' k') h w
       else some ([.str defaultAction, .nil], h, w)) := by
  obtain ⟨budget, wait, fb, conc, stop, execS, hasPost, shape⟩ := cfg
  cases hasPost
  · gosimp [callFunc, BatchNode_Post, bnH, expr_sel, bw_field_post, bw_global]
  · cases hm : userBatchPost kind n v scr sh (.slice a o k) (.slice a' o' k') h w <;>
      gosimp [callFunc, BatchNode_Post, bnH, expr_sel, expr_assert, bw_field_post, bw_assert, bw_m_post, mcall_cons, hm]

/-- what `batchWorld` (the world of `runBatch_refines`) assumes `node.Prep(ctx, shared)` to do -/
theorem batchWorld_Prep (ctx sh : GV) (h : Heap) (w : SeqW) :
    (batchWorld kind n v cfg scr).mcall (.node n) "Prep" [ctx, sh] h w =
      (if cfg.shape = .results then userBatchPrep kind n v scr sh h w else customPrep kind n v cfg.shape scr sh h w) := by
  obtain ⟨budget, wait, fb, conc, stop, execS, hasPost, shape⟩ := cfg
  cases hs : storeIdOf sh <;> cases hr : scr.prep.res <;> cases shape <;>
    simp [batchWorld, userBatchPrep, customPrep, hs, hr]

/-- what `batchWorld` assumes `node.Post(ctx, shared, items, results)` to do -/
theorem batchWorld_Post (ctx sh its res : GV) (h : Heap) (w : SeqW) :
    (batchWorld kind n v cfg scr).mcall (.node n) "Post" [ctx, sh, its, res] h w =
      (if cfg.hasPost then userBatchPost kind n v scr sh its res h w else some ([.str defaultAction, .nil], h, w)) := by
  obtain ⟨budget, wait, fb, conc, stop, execS, hasPost, shape⟩ := cfg
  cases hasPost
  · simp [batchWorld]
  · cases hs : storeIdOf sh <;> cases hi : readWindow h its <;> cases hx : readWindow h res <;> cases hr : scr.post.res <;>
      simp [batchWorld, userBatchPost, hs, hi, hx, hr]

end batchNode

/-! ## 4. `flyt.Result` as a two-field struct -/

section steps
variable {Ω : Type} (W : World Ω)
/-- a keyed literal `Result{k: e}` is an object of the world, like every struct literal -/
theorem expr_lit_Result_keyed (f : Nat) (e : Expr) (es : Exprs) (st : St Ω) :
    evalExpr W (f + 1) (.lit "Result" (.cons e es)) st =
      match evalArgs W f (litValues (.cons e es)) st with
      | some (vs, st1) =>
        (match W.call ("lit:" ++ "Result" ++ ":" ++ litKeys (.cons e es)) vs st1.heap st1.w with
         | some (rs, h, w) => some (rs, { st1 with heap := h, w := w })
         | none => none)
      | none => none := rfl
end steps

section result
variable (tyName : Val → String)
local notation "W" => resultWorld tyName

theorem rw_field_value (r : Result) (w : Unit) : (W).field (.result r) "value" w = some (GV.ofVal r.value) := by
  simp [resultWorld]
theorem rw_field_err (r : Result) (w : Unit) : (W).field (.result r) "err" w = some (errGV r.err) := by
  simp [resultWorld]
theorem rw_lit_value (x : GV) (h : Heap) (w : Unit) :
    (W).call "lit:Result:value," [x] h w = some ([.result ⟨x.toVal, none⟩], h, w) := by
  simp [resultWorld]
theorem rw_lit_err (x : GV) (h : Heap) (w : Unit) :
    (W).call "lit:Result:err," [x] h w = (errOfGV x).map fun oe => ([.result ⟨Val.nil, oe⟩], h, w) := by
  simp [resultWorld]
theorem rw_typeName (x : GV) (h : Heap) (w : Unit) :
    (W).call "fmt.Sprintf" [.str "%T", x] h w = some ([.str (tyName x.toVal)], h, w) := by
  simp [resultWorld]

theorem lit_name_value : litKeys E[(.bin ":" (.var "value") (.var "v"))] = "value," := by decide
theorem lit_name_err : litKeys E[(.bin ":" (.var "err") (.var "err"))] = "err," := by decide

/-- `NewResult(v)` = `Result{value: v}`: the value in `value`, no error -/
theorem NewResult_core (f : Nat) (x : GV) (h : Heap) (w : Unit) :
    callFunc (W) (f + 6) NewResult [x] h w = some ([.result (newResult x.toVal)], h, w) := by
  gosimp [callFunc, NewResult, expr_lit_Result_keyed, litValues, lit_name_value, rw_lit_value, newResult]

/-- `NewErrorResult(err)` = `Result{err: err}`: a nil value, the error in `err` -/
theorem NewErrorResult_core (f : Nat) (e : ErrRoot) (h : Heap) (w : Unit) :
    callFunc (W) (f + 6) NewErrorResult [.err e] h w = some ([.result (newErrorResult e)], h, w) := by
  gosimp [callFunc, NewErrorResult, expr_lit_Result_keyed, litValues, lit_name_err, rw_lit_err, errOfGV, newErrorResult]

/-- `NewErrorResult(nil)` is the zero `Result` (no built-in counterpart: the interpreter's `NewErrorResult` wants an error) -/
theorem NewErrorResult_nil_core (f : Nat) (h : Heap) (w : Unit) :
    callFunc (W) (f + 6) NewErrorResult [.nil] h w = some ([.result ⟨Val.nil, none⟩], h, w) := by
  gosimp [callFunc, NewErrorResult, expr_lit_Result_keyed, litValues, lit_name_err, rw_lit_err, errOfGV]

theorem Result_IsError_core (f : Nat) (r : Result) (h : Heap) (w : Unit) :
    callFunc (W) (f + 6) Result_IsError [.result r] h w = some ([.bool r.isError], h, w) := by
  obtain ⟨val, _ | e⟩ := r <;>
    gosimp [callFunc, Result_IsError, expr_sel, rw_field_err, errGV, Result.isError]

theorem Result_Value_core (f : Nat) (r : Result) (h : Heap) (w : Unit) :
    callFunc (W) (f + 6) Result_Value [.result r] h w = some ([if r.isError then .nil else GV.ofVal r.value], h, w) := by
  obtain ⟨val, _ | e⟩ := r <;>
    gosimp [callFunc, Result_Value, expr_sel, rw_field_err, rw_field_value, errGV, Result.isError]

theorem Result_Error_core (f : Nat) (r : Result) (h : Heap) (w : Unit) :
    callFunc (W) (f + 5) Result_Error [.result r] h w = some ([errGV r.err], h, w) := by
  gosimp [callFunc, Result_Error, expr_sel, rw_field_err]

theorem Result_IsNil_core (f : Nat) (r : Result) (h : Heap) (w : Unit) :
    callFunc (W) (f + 6) Result_IsNil [.result r] h w = some ([.bool (resIsNil r)], h, w) := by
  obtain ⟨_ | ⟨val, e⟩, er⟩ := r <;>
    gosimp [callFunc, Result_IsNil, expr_sel, rw_field_value, Adapters.ofVal_tok, Adapters.ofVal_res, resIsNil, Val.nil]

theorem tok_succ_beq (k : Nat) : (Val.tok (k + 1) == Val.tok 0) = false := by simp

theorem Result_Type_core (f : Nat) (r : Result) (h : Heap) (w : Unit) :
    callFunc (W) (f + 9) Result_Type [.result r] h w = some ([.str (resType tyName r)], h, w) := by
  obtain ⟨_ | ⟨val, e⟩, er⟩ := r
  · rename_i k
    cases k <;>
      gosimp [callFunc, Result_Type, expr_sel, rw_field_value, Adapters.ofVal_tok, resType, rw_typeName, Adapters.toVal_val, Val.nil,
        tok_succ_beq]
  · gosimp [callFunc, Result_Type, expr_sel, rw_field_value, Adapters.ofVal_res, resType, rw_typeName, Adapters.toVal_result,
      Result.box, Val.nil]

end result

/-- `R(v)` = `NewResult(v)` — in EVERY world (`NewResult` is a built-in of the interpreter, justified by `NewResult_core`) -/
theorem R_core {Ω : Type} (W : World Ω) (f : Nat) (x : GV) (h : Heap) (w : Ω) :
    callFunc W (f + 6) R [x] h w = some ([.result (newResult x.toVal)], h, w) := by
  gosimp [callFunc, R, mkNewResult]

/-! ### the interpreter's built-ins (`NewResult(x)`, `NewErrorResult(x)`, `r.IsError()`, `r.Value()`), in every world -/

section builtin
variable {Ω : Type} (W : World Ω)

theorem builtin_NewResult (f : Nat) (x : String) (v : GV) (st : St Ω) (hx : st.env.get x = some v) :
    evalExpr W (f + 3) (.call "NewResult" E[(.var x)]) st = some ([.result (newResult v.toVal)], st) := by
  gosimp [hx, mkNewResult]
theorem builtin_NewErrorResult (f : Nat) (x : String) (e : ErrRoot) (st : St Ω) (hx : st.env.get x = some (.err e)) :
    evalExpr W (f + 3) (.call "NewErrorResult" E[(.var x)]) st = some ([.result (newErrorResult e)], st) := by
  gosimp [hx]
theorem builtin_IsError (f : Nat) (x : String) (r : Result) (st : St Ω) (hx : st.env.get x = some (.result r)) :
    evalExpr W (f + 2) (.mcall (.var x) "IsError" E[]) st = some ([.bool r.isError], st) := by
  gosimp [hx]
theorem builtin_Value (f : Nat) (x : String) (r : Result) (st : St Ω) (hx : st.env.get x = some (.result r)) :
    evalExpr W (f + 2) (.mcall (.var x) "Value" E[]) st = some ([GV.ofVal r.valueOf], st) := by
  gosimp [hx]
end builtin

/-- two encodings of one `any`: the same payload for every consumer (`NewResult`, the user's callbacks, the events) and the same
    answer to `== nil` — `GV.nil` (the literal `nil`) and `GV.val Val.nil` (a nil payload) are such a pair -/
def sameAny (a b : GV) : Prop := a.toVal = b.toVal ∧ a.isNil = b.isNil

/-- what the source of `Result.Value` returns is the built-in's `GV.ofVal r.valueOf`, up to the encoding of a nil `any` -/
theorem Value_sameAny (r : Result) : sameAny (if r.isError then GV.nil else GV.ofVal r.value) (GV.ofVal r.valueOf) := by
  obtain ⟨val, _ | e⟩ := r
  · exact ⟨rfl, rfl⟩
  · exact ⟨rfl, rfl⟩
theorem Value_toVal (r : Result) : (if r.isError then GV.nil else GV.ofVal r.value).toVal = r.valueOf := by
  rw [(Value_sameAny r).1, toVal_ofVal]

/-! # The statements, at every sufficient recursion depth -/

/-! ## 1. `BaseNode` defaults -/

section base
variable {Ω : Type} (W : World Ω)

/-- `BaseNode.Prep` returns `(nil, nil)`: no call, no effect, whatever receiver, context and store -/
theorem BaseNode_Prep_refines_of_le (n ctx sh : GV) (h : Heap) (w : Ω) (fuel : Nat) (hf : 5 ≤ fuel) :
    callFunc W fuel BaseNode_Prep [n, ctx, sh] h w = some ([.nil, .nil], h, w) := by
  obtain ⟨f, rfl⟩ := exists_add hf; exact BaseNode_Prep_core W f n ctx sh h w
/-- `BaseNode.Exec` returns `(nil, nil)` -/
theorem BaseNode_Exec_refines_of_le (n ctx pv : GV) (h : Heap) (w : Ω) (fuel : Nat) (hf : 5 ≤ fuel) :
    callFunc W fuel BaseNode_Exec [n, ctx, pv] h w = some ([.nil, .nil], h, w) := by
  obtain ⟨f, rfl⟩ := exists_add hf; exact BaseNode_Exec_core W f n ctx pv h w
/-- `BaseNode.Post` returns `(DefaultAction, nil)` -/
theorem BaseNode_Post_refines_of_le (hG : W.global "DefaultAction" = some (.str defaultAction)) (n ctx sh pv ev : GV) (h : Heap) (w : Ω)
    (fuel : Nat) (hf : 5 ≤ fuel) :
    callFunc W fuel BaseNode_Post [n, ctx, sh, pv, ev] h w = some ([.str defaultAction, .nil], h, w) := by
  obtain ⟨f, rfl⟩ := exists_add hf; exact BaseNode_Post_core W hG f n ctx sh pv ev h w
/-- `BaseNode.ExecFallback` returns `(nil, err)`: the error it is handed, unchanged -/
theorem BaseNode_ExecFallback_refines_of_le (n pv err : GV) (h : Heap) (w : Ω) (fuel : Nat) (hf : 5 ≤ fuel) :
    callFunc W fuel BaseNode_ExecFallback [n, pv, err] h w = some ([.nil, err], h, w) := by
  obtain ⟨f, rfl⟩ := exists_add hf; exact BaseNode_ExecFallback_core W f n pv err h w
end base

/-! ### … are what the model assumes of an absent phase and of a pass-through fallback

`leafWorld` is the world of `Run_refines_runLeaf` (`Refine/Run.lean`): its entries for `node.Prep / Exec / Post` of a node whose
phase is `Style.absent`, and for `node.ExecFallback` of a node whose fallback is `FbKind.passThrough`, are the translated `BaseNode`
methods, run in `leafWorld` itself. (`adapterWorld`'s entries for the embedded `BaseNode` of a `CustomNode` — `aw_b_prep`, `aw_b_exec`,
`aw_b_post`, `aw_b_fb` of `Refine/Adapters.lean` — are the same four right-hand sides.) -/

section leaf
variable (kind : CtxKind) (n : NodeId) (v : Nat) (cfg : LeafCfg) (scr : LeafScript)

theorem BaseNode_Prep_is_leafWorld_absent (hs : cfg.prepS = .absent) (recv ctx sh : GV) (h : Heap) (w : LeafW) (fuel : Nat)
    (hf : 5 ≤ fuel) :
    callFunc (leafWorld kind n v cfg scr) fuel BaseNode_Prep [recv, ctx, sh] h w =
      (leafWorld kind n v cfg scr).mcall (.node n) "Prep" [ctx, sh] h w := by
  rw [BaseNode_Prep_refines_of_le _ recv ctx sh h w fuel hf]; simp [leafWorld, hs]
theorem BaseNode_Exec_is_leafWorld_absent (hs : cfg.execS = .absent) (recv ctx pv : GV) (h : Heap) (w : LeafW) (fuel : Nat)
    (hf : 5 ≤ fuel) :
    callFunc (leafWorld kind n v cfg scr) fuel BaseNode_Exec [recv, ctx, pv] h w =
      (leafWorld kind n v cfg scr).mcall (.node n) "Exec" [ctx, pv] h w := by
  rw [BaseNode_Exec_refines_of_le _ recv ctx pv h w fuel hf]; simp [leafWorld, hs]
theorem BaseNode_Post_is_leafWorld_absent (hs : cfg.postS = .absent) (recv ctx sh pv ev : GV) (h : Heap) (w : LeafW) (fuel : Nat)
    (hf : 5 ≤ fuel) :
    callFunc (leafWorld kind n v cfg scr) fuel BaseNode_Post [recv, ctx, sh, pv, ev] h w =
      (leafWorld kind n v cfg scr).mcall (.node n) "Post" [ctx, sh, pv, ev] h w := by
  rw [BaseNode_Post_refines_of_le _ (by simp [leafWorld]) recv ctx sh pv ev h w fuel hf]; simp [leafWorld, hs]
theorem BaseNode_ExecFallback_is_leafWorld_passThrough (hs : cfg.fb = .passThrough) (recv pv : GV) (e : ErrRoot) (h : Heap)
    (w : LeafW) (fuel : Nat) (hf : 5 ≤ fuel) :
    callFunc (leafWorld kind n v cfg scr) fuel BaseNode_ExecFallback [recv, pv, .err e] h w =
      (leafWorld kind n v cfg scr).mcall (.node n) "ExecFallback" [pv, .err e] h w := by
  rw [BaseNode_ExecFallback_refines_of_le _ recv pv (.err e) h w fuel hf]; simp [leafWorld, hs]
end leaf

/-! The model itself (`Model/Run.lean`), for reference: an absent prep is no event and the payload `Val.nil` (= `GV.nil.toVal`); an
absent exec succeeds at once with `Val.nil`; an absent post is `defaultAction`; a pass-through fallback returns the last error. -/

theorem model_nil_payload : GV.nil.toVal = Val.nil := rfl

theorem model_absent_exec (kind : CtxKind) (mkExec : Nat → Ev) (mkWait : Nat → Bool → Ev) (exec : Nat → Out Val)
    (wc : Nat → Bool) (wait rem : Nat) (last : Option Nat) :
    attempts kind mkExec mkWait exec wc .absent wait 0 (rem + 1) last .live = ([], .live, .ok Val.nil) := by
  simp [attempts]

theorem model_passThrough (kind : CtxKind) (mkFb : Nat → Ev) (fbOut : Out Val) (ctx : Ctx) (e : Nat) :
    fallbackPhase kind .passThrough mkFb fbOut ctx (.failed e) = ([], ctx, .error (.user e)) := rfl

/-- a node with no phase at all (a bare `BaseNode`): no event, the context untouched, `DefaultAction` -/
theorem model_runLeaf_all_absent (kind : CtxKind) (n : NodeId) (v : Nat) (sid : StoreId) (cfg : LeafCfg) (scr : LeafScript)
    (hp : cfg.prepS = .absent) (he : cfg.execS = .absent) (ho : cfg.postS = .absent) (hb : 0 < cfg.effBudget) :
    runLeaf kind n v sid cfg scr .live = ([], .live, .ok defaultAction) := by
  obtain ⟨b, hb'⟩ : ∃ b, cfg.effBudget = b + 1 := ⟨cfg.effBudget - 1, by omega⟩
  simp [runLeaf, hp, he, ho, hb', attempts, fallbackPhase]

/-! ## 2. delegations -/

section deleg
variable {Ω : Type} (W : World Ω)

theorem NodeBuilder_Prep_refines_of_le (b cn ctx sh : GV) (h : Heap) (w : Ω) (hF : W.field b "CustomNode" w = some cn)
    (fuel : Nat) (hf : 7 ≤ fuel) :
    callFunc W fuel NodeBuilder_Prep [b, ctx, sh] h w = W.mcall cn "Prep" [ctx, sh] h w := by
  obtain ⟨f, rfl⟩ := exists_add hf; exact NodeBuilder_Prep_core W f b cn ctx sh h w hF
theorem NodeBuilder_Exec_refines_of_le (b cn ctx pv : GV) (h : Heap) (w : Ω) (hF : W.field b "CustomNode" w = some cn)
    (fuel : Nat) (hf : 7 ≤ fuel) :
    callFunc W fuel NodeBuilder_Exec [b, ctx, pv] h w = W.mcall cn "Exec" [ctx, pv] h w := by
  obtain ⟨f, rfl⟩ := exists_add hf; exact NodeBuilder_Exec_core W f b cn ctx pv h w hF
theorem NodeBuilder_Post_refines_of_le (b cn ctx sh pv ev : GV) (h : Heap) (w : Ω) (hF : W.field b "CustomNode" w = some cn)
    (fuel : Nat) (hf : 9 ≤ fuel) :
    callFunc W fuel NodeBuilder_Post [b, ctx, sh, pv, ev] h w = W.mcall cn "Post" [ctx, sh, pv, ev] h w := by
  obtain ⟨f, rfl⟩ := exists_add hf; exact NodeBuilder_Post_core W f b cn ctx sh pv ev h w hF
theorem NodeBuilder_ExecFallback_refines_of_le (b cn pv err : GV) (h : Heap) (w : Ω) (hF : W.field b "CustomNode" w = some cn)
    (fuel : Nat) (hf : 7 ≤ fuel) :
    callFunc W fuel NodeBuilder_ExecFallback [b, pv, err] h w = W.mcall cn "ExecFallback" [pv, err] h w := by
  obtain ⟨f, rfl⟩ := exists_add hf; exact NodeBuilder_ExecFallback_core W f b cn pv err h w hF
theorem BatchNodeBuilder_Prep_refines_of_le (b bn ctx sh : GV) (h : Heap) (w : Ω) (hF : W.field b "BatchNode" w = some bn)
    (fuel : Nat) (hf : 7 ≤ fuel) :
    callFunc W fuel BatchNodeBuilder_Prep [b, ctx, sh] h w = W.mcall bn "Prep" [ctx, sh] h w := by
  obtain ⟨f, rfl⟩ := exists_add hf; exact BatchNodeBuilder_Prep_core W f b bn ctx sh h w hF
theorem BatchNodeBuilder_Exec_refines_of_le (b bn ctx pv : GV) (h : Heap) (w : Ω) (hF : W.field b "BatchNode" w = some bn)
    (fuel : Nat) (hf : 7 ≤ fuel) :
    callFunc W fuel BatchNodeBuilder_Exec [b, ctx, pv] h w = W.mcall bn "Exec" [ctx, pv] h w := by
  obtain ⟨f, rfl⟩ := exists_add hf; exact BatchNodeBuilder_Exec_core W f b bn ctx pv h w hF
theorem BatchNodeBuilder_Post_refines_of_le (b bn ctx sh pv ev : GV) (h : Heap) (w : Ω) (hF : W.field b "BatchNode" w = some bn)
    (fuel : Nat) (hf : 9 ≤ fuel) :
    callFunc W fuel BatchNodeBuilder_Post [b, ctx, sh, pv, ev] h w = W.mcall bn "Post" [ctx, sh, pv, ev] h w := by
  obtain ⟨f, rfl⟩ := exists_add hf; exact BatchNodeBuilder_Post_core W f b bn ctx sh pv ev h w hF
end deleg

/-! ### the statements of the executable test: one recorded call of the embedded node, with the builder's arguments -/

section delegTest
variable (ret : String → List GV → Option (List GV))

theorem NodeBuilder_Prep_delegWorld (a b : GV) (fuel : Nat) (hf : 7 ≤ fuel) :
    runDeleg fuel NodeBuilder_Prep ret [nbH, a, b] = (ret "Prep" [a, b]).map fun rs => (rs, [⟨cnH, "Prep", [a, b]⟩]) :=
  runDeleg_of ret (by rw [NodeBuilder_Prep_refines_of_le _ nbH cnH a b [] [] (dw_field_nb ret 0 []) fuel hf, dw_mcall_cn])
theorem NodeBuilder_Exec_delegWorld (a b : GV) (fuel : Nat) (hf : 7 ≤ fuel) :
    runDeleg fuel NodeBuilder_Exec ret [nbH, a, b] = (ret "Exec" [a, b]).map fun rs => (rs, [⟨cnH, "Exec", [a, b]⟩]) :=
  runDeleg_of ret (by rw [NodeBuilder_Exec_refines_of_le _ nbH cnH a b [] [] (dw_field_nb ret 0 []) fuel hf, dw_mcall_cn])
theorem NodeBuilder_Post_delegWorld (a b c d : GV) (fuel : Nat) (hf : 9 ≤ fuel) :
    runDeleg fuel NodeBuilder_Post ret [nbH, a, b, c, d] =
      (ret "Post" [a, b, c, d]).map fun rs => (rs, [⟨cnH, "Post", [a, b, c, d]⟩]) :=
  runDeleg_of ret (by rw [NodeBuilder_Post_refines_of_le _ nbH cnH a b c d [] [] (dw_field_nb ret 0 []) fuel hf, dw_mcall_cn])
theorem NodeBuilder_ExecFallback_delegWorld (a b : GV) (fuel : Nat) (hf : 7 ≤ fuel) :
    runDeleg fuel NodeBuilder_ExecFallback ret [nbH, a, b] =
      (ret "ExecFallback" [a, b]).map fun rs => (rs, [⟨cnH, "ExecFallback", [a, b]⟩]) :=
  runDeleg_of ret (by rw [NodeBuilder_ExecFallback_refines_of_le _ nbH cnH a b [] [] (dw_field_nb ret 0 []) fuel hf, dw_mcall_cn])
theorem BatchNodeBuilder_Prep_delegWorld (a b : GV) (fuel : Nat) (hf : 7 ≤ fuel) :
    runDeleg fuel BatchNodeBuilder_Prep ret [bnbH, a, b] = (ret "Prep" [a, b]).map fun rs => (rs, [⟨bnH, "Prep", [a, b]⟩]) :=
  runDeleg_of ret (by rw [BatchNodeBuilder_Prep_refines_of_le _ bnbH bnH a b [] [] (dw_field_bnb ret 0 []) fuel hf, dw_mcall_bn])
theorem BatchNodeBuilder_Exec_delegWorld (a b : GV) (fuel : Nat) (hf : 7 ≤ fuel) :
    runDeleg fuel BatchNodeBuilder_Exec ret [bnbH, a, b] = (ret "Exec" [a, b]).map fun rs => (rs, [⟨bnH, "Exec", [a, b]⟩]) :=
  runDeleg_of ret (by rw [BatchNodeBuilder_Exec_refines_of_le _ bnbH bnH a b [] [] (dw_field_bnb ret 0 []) fuel hf, dw_mcall_bn])
theorem BatchNodeBuilder_Post_delegWorld (a b c d : GV) (fuel : Nat) (hf : 9 ≤ fuel) :
    runDeleg fuel BatchNodeBuilder_Post ret [bnbH, a, b, c, d] =
      (ret "Post" [a, b, c, d]).map fun rs => (rs, [⟨bnH, "Post", [a, b, c, d]⟩]) :=
  runDeleg_of ret (by rw [BatchNodeBuilder_Post_refines_of_le _ bnbH bnH a b c d [] [] (dw_field_bnb ret 0 []) fuel hf, dw_mcall_bn])
end delegTest

/-! ## 3. `BatchNode.Prep` / `BatchNode.Post` = the entries of `batchWorld` (the world of `runBatch_refines`, `Refine/Batch.lean`) -/

section batchNode
variable (kind : CtxKind) (n : NodeId) (v : Nat) (cfg : BatchCfg) (scr : BatchScript)

/-- The translated `BatchNode.Prep`, run in `batchNodeWorld`, does what `batchWorld` says `node.Prep(ctx, shared)` does: the event
    `Ev.bprep n v sid` with the store it was handed, the context after the callback, and — `cfg.shape = .results`, i.e.
    `batchPrepFunc` set — a fresh `[]Result` holding `normItems .results l = l.map toResult`, else the embedded node's prep value. -/
theorem BatchNode_Prep_refines_of_le (ctx sh : GV) (h : Heap) (w : SeqW) (fuel : Nat) (hf : 9 ≤ fuel) :
    callFunc (batchNodeWorld kind n v cfg scr) fuel BatchNode_Prep [bnH, ctx, sh] h w =
      (batchWorld kind n v cfg scr).mcall (.node n) "Prep" [ctx, sh] h w := by
  obtain ⟨f, rfl⟩ := exists_add hf
  rw [BatchNode_Prep_core, batchWorld_Prep]

/-- The translated `BatchNode.Post`, handed two `[]Result` values, does what `batchWorld` says `node.Post(ctx, shared, items, results)`
    does: `cfg.hasPost` — the event `Ev.bpost n v sid` with the CONTENTS of the two slices it was handed and the callback's answer;
    otherwise `(DefaultAction, nil)` and nothing else. -/
theorem BatchNode_Post_refines_of_le (ctx sh : GV) (a o k a' o' k' : Nat) (h : Heap) (w : SeqW) (fuel : Nat) (hf : 13 ≤ fuel) :
    callFunc (batchNodeWorld kind n v cfg scr) fuel BatchNode_Post [bnH, ctx, sh, .slice a o k, .slice a' o' k'] h w =
      (batchWorld kind n v cfg scr).mcall (.node n) "Post" [ctx, sh, .slice a o k, .slice a' o' k'] h w := by
  obtain ⟨f, rfl⟩ := exists_add hf
  rw [BatchNode_Post_core, batchWorld_Post]

/-- the `[]Result` a batch prep function returns reads back as the model's `normItems .results` of the scripted values -/
theorem userBatchPrep_items (sid : StoreId) (l : List Val) (h : Heap) (w : SeqW) (hr : scr.prep.res = .ok l) :
    ∃ s h' w', userBatchPrep kind n v scr (storeH sid) h w = some ([s, .nil], h', w') ∧
      readWindow h' s = some (normItems .results l) ∧ w'.evs = w.evs ++ [.bprep n v sid] ∧
      w'.ctx = w.ctx.after kind scr.prep.cancels := by
  refine ⟨.slice h.length 0 l.length, h ++ [l.map toResult], _, by simp [userBatchPrep, storeH, storeIdOf, hr]; rfl, ?_, rfl, rfl⟩
  simp [readWindow, normItems]
  exact List.take_of_length_le (by simp)

end batchNode

/-! ## 4. `Result` -/

section result
variable (tyName : Val → String)

/-- the source of `NewResult` computes `Core.newResult` — what the interpreter's built-in `NewResult` returns (`builtin_NewResult`) -/
theorem NewResult_refines_of_le (x : GV) (h : Heap) (w : Unit) (fuel : Nat) (hf : 6 ≤ fuel) :
    callFunc (resultWorld tyName) fuel NewResult [x] h w = some ([.result (newResult x.toVal)], h, w) := by
  obtain ⟨f, rfl⟩ := exists_add hf; exact NewResult_core tyName f x h w
/-- the source of `NewErrorResult` computes `Core.newErrorResult` — the built-in's answer (`builtin_NewErrorResult`) -/
theorem NewErrorResult_refines_of_le (e : ErrRoot) (h : Heap) (w : Unit) (fuel : Nat) (hf : 6 ≤ fuel) :
    callFunc (resultWorld tyName) fuel NewErrorResult [.err e] h w = some ([.result (newErrorResult e)], h, w) := by
  obtain ⟨f, rfl⟩ := exists_add hf; exact NewErrorResult_core tyName f e h w
theorem NewErrorResult_nil_refines_of_le (h : Heap) (w : Unit) (fuel : Nat) (hf : 6 ≤ fuel) :
    callFunc (resultWorld tyName) fuel NewErrorResult [.nil] h w = some ([.result ⟨Val.nil, none⟩], h, w) := by
  obtain ⟨f, rfl⟩ := exists_add hf; exact NewErrorResult_nil_core tyName f h w
/-- the source of `Result.IsError` computes `Result.isError` — the built-in's answer (`builtin_IsError`) -/
theorem Result_IsError_refines_of_le (r : Result) (h : Heap) (w : Unit) (fuel : Nat) (hf : 6 ≤ fuel) :
    callFunc (resultWorld tyName) fuel Result_IsError [.result r] h w = some ([.bool r.isError], h, w) := by
  obtain ⟨f, rfl⟩ := exists_add hf; exact Result_IsError_core tyName f r h w
/-- the source of `Result.Value`: the literal `nil` for an error result, the `value` field otherwise — `Result.valueOf` as a payload
    (`Value_toVal`), the built-in's `GV.ofVal r.valueOf` up to the encoding of a nil `any` (`Value_sameAny`) -/
theorem Result_Value_refines_of_le (r : Result) (h : Heap) (w : Unit) (fuel : Nat) (hf : 6 ≤ fuel) :
    callFunc (resultWorld tyName) fuel Result_Value [.result r] h w =
      some ([if r.isError then .nil else GV.ofVal r.value], h, w) := by
  obtain ⟨f, rfl⟩ := exists_add hf; exact Result_Value_core tyName f r h w
theorem Result_Error_refines_of_le (r : Result) (h : Heap) (w : Unit) (fuel : Nat) (hf : 5 ≤ fuel) :
    callFunc (resultWorld tyName) fuel Result_Error [.result r] h w = some ([errGV r.err], h, w) := by
  obtain ⟨f, rfl⟩ := exists_add hf; exact Result_Error_core tyName f r h w
theorem Result_IsNil_refines_of_le (r : Result) (h : Heap) (w : Unit) (fuel : Nat) (hf : 6 ≤ fuel) :
    callFunc (resultWorld tyName) fuel Result_IsNil [.result r] h w = some ([.bool (resIsNil r)], h, w) := by
  obtain ⟨f, rfl⟩ := exists_add hf; exact Result_IsNil_core tyName f r h w
/-- `Result.Type`: `"nil"` for a nil value, else the name of the value's dynamic type (`fmt.Sprintf("%T", r.value)`, a world call) -/
theorem Result_Type_refines_of_le (r : Result) (h : Heap) (w : Unit) (fuel : Nat) (hf : 9 ≤ fuel) :
    callFunc (resultWorld tyName) fuel Result_Type [.result r] h w = some ([.str (resType tyName r)], h, w) := by
  obtain ⟨f, rfl⟩ := exists_add hf; exact Result_Type_core tyName f r h w
end result

/-- `R(v)` = `NewResult(v)`, in every world -/
theorem R_refines_of_le {Ω : Type} (W : World Ω) (x : GV) (h : Heap) (w : Ω) (fuel : Nat) (hf : 6 ≤ fuel) :
    callFunc W fuel R [x] h w = some ([.result (newResult x.toVal)], h, w) := by
  obtain ⟨f, rfl⟩ := exists_add hf; exact R_core W f x h w

/-! ### the built-ins are justified: source and built-in return the same values -/

/-- `NewResult(x)` as a built-in call = the source of `NewResult` applied to the value of `x` -/
theorem NewResult_source_eq_builtin (tyName : Val → String) {Ω : Type} (W : World Ω) (x : String) (v : GV) (st : St Ω)
    (hx : st.env.get x = some v) (h : Heap) (fuel fuel' : Nat) (hf : 6 ≤ fuel) (hf' : 3 ≤ fuel') :
    (callFunc (resultWorld tyName) fuel NewResult [v] h ()).map (·.1) =
      (evalExpr W fuel' (.call "NewResult" E[(.var x)]) st).map (·.1) := by
  obtain ⟨g, rfl⟩ := exists_add hf'
  rw [NewResult_refines_of_le tyName v h () fuel hf, builtin_NewResult W g x v st hx]; rfl
theorem NewErrorResult_source_eq_builtin (tyName : Val → String) {Ω : Type} (W : World Ω) (x : String) (e : ErrRoot) (st : St Ω)
    (hx : st.env.get x = some (.err e)) (h : Heap) (fuel fuel' : Nat) (hf : 6 ≤ fuel) (hf' : 3 ≤ fuel') :
    (callFunc (resultWorld tyName) fuel NewErrorResult [.err e] h ()).map (·.1) =
      (evalExpr W fuel' (.call "NewErrorResult" E[(.var x)]) st).map (·.1) := by
  obtain ⟨g, rfl⟩ := exists_add hf'
  rw [NewErrorResult_refines_of_le tyName e h () fuel hf, builtin_NewErrorResult W g x e st hx]; rfl
theorem Result_IsError_source_eq_builtin (tyName : Val → String) {Ω : Type} (W : World Ω) (x : String) (r : Result) (st : St Ω)
    (hx : st.env.get x = some (.result r)) (h : Heap) (fuel fuel' : Nat) (hf : 6 ≤ fuel) (hf' : 2 ≤ fuel') :
    (callFunc (resultWorld tyName) fuel Result_IsError [.result r] h ()).map (·.1) =
      (evalExpr W fuel' (.mcall (.var x) "IsError" E[]) st).map (·.1) := by
  obtain ⟨g, rfl⟩ := exists_add hf'
  rw [Result_IsError_refines_of_le tyName r h () fuel hf, builtin_IsError W g x r st hx]; rfl
/-- `r.Value()`: one value each, the same `any` up to the encoding of nil -/
theorem Result_Value_source_sameAny_builtin (tyName : Val → String) {Ω : Type} (W : World Ω) (x : String) (r : Result) (st : St Ω)
    (hx : st.env.get x = some (.result r)) (h : Heap) (fuel fuel' : Nat) (hf : 6 ≤ fuel) (hf' : 2 ≤ fuel') :
    ∃ a b, (callFunc (resultWorld tyName) fuel Result_Value [.result r] h ()).map (·.1) = some [a] ∧
      (evalExpr W fuel' (.mcall (.var x) "Value" E[]) st).map (·.1) = some [b] ∧ sameAny a b := by
  obtain ⟨g, rfl⟩ := exists_add hf'
  rw [Result_Value_refines_of_le tyName r h () fuel hf, builtin_Value W g x r st hx]
  exact ⟨_, _, rfl, rfl, Value_sameAny r⟩

/-! ## 5. `(*BatchError).Error()` -/

section steps
variable {Ω : Type} (W : World Ω)
theorem expr_index (f : Nat) (a i : Expr) (st : St Ω) :
    evalExpr W (f + 1) (.index a i) st =
      match evalExpr W f a st with
      | some ([.slice ad off n], st1) =>
        (match evalExpr W f i st1 with
         | some ([.int k], st2) =>
           if 0 ≤ k ∧ k.toNat < n then (heapGet st2.heap ad (off + k.toNat)).map fun r => ([.result r], st2) else none
         | _ => none)
      | some ([mv], st1) =>
        (match evalExpr W f i st1 with
         | some ([kv], st2) => (W.mapIndex mv kv st2.w).map fun (v, _) => ([v], st2)
         | _ => none)
      | _ => none := rfl
end steps

section batchError
variable (sprintf : String → List GV → String) (errs : List ErrRoot)
local notation "W" => batchErrorWorld sprintf errs

theorem be_field (i : Nat) (w : Unit) : (W).field (.ref "be" i) "Errors" w = some (.ref "errors" 0) := by
  simp [batchErrorWorld]
theorem be_len (i : Nat) (h : Heap) (w : Unit) : (W).call "len" [.ref "errors" i] h w = some ([.int errs.length], h, w) := by
  simp [batchErrorWorld]
theorem be_index0 (i : Nat) (w : Unit) :
    (W).mapIndex (.ref "errors" i) (.int 0) w = (errs[0]?).map fun e => (.err e, true) := by
  simp [batchErrorWorld]
theorem be_sprintf (fmt : String) (args : List GV) (h : Heap) (w : Unit) :
    (W).call "fmt.Sprintf" (.str fmt :: args) h w = some ([.str (sprintf fmt args)], h, w) := by
  simp [batchErrorWorld]

end batchError

/-- no errors: the fixed text; one error: `"batch: %v"` of it; more: `"batch: %d errors occurred, first: %v"` of their number and the
    FIRST one -/
theorem BatchError_Error_core (sprintf : String → List GV → String) (errs : List ErrRoot) (f : Nat) (h : Heap) (w : Unit) :
    callFunc (batchErrorWorld sprintf errs) (f + 12) BatchError_Error [beH] h w =
      some ([.str (batchErrorMsg sprintf errs)], h, w) := by
  rcases errs with _ | ⟨e, _ | ⟨e', rest⟩⟩
  · gosimp [callFunc, BatchError_Error, beH, expr_sel, expr_index, be_field, be_len, be_index0, be_sprintf, batchErrorMsg]
  · gosimp [callFunc, BatchError_Error, beH, expr_sel, expr_index, be_field, be_len, be_index0, be_sprintf, batchErrorMsg]
  · have h0 : (((rest.length : Int) + 1 + 1) == 0) = false := by rw [beq_eq_false_iff_ne]; omega
    have h1 : (((rest.length : Int) + 1 + 1) == 1) = false := by rw [beq_eq_false_iff_ne]; omega
    gosimp [callFunc, BatchError_Error, beH, expr_sel, expr_index, be_field, be_len, be_index0, be_sprintf, batchErrorMsg, h0, h1]

theorem BatchError_Error_refines_of_le (sprintf : String → List GV → String) (errs : List ErrRoot) (h : Heap) (w : Unit) (fuel : Nat)
    (hf : 12 ≤ fuel) :
    callFunc (batchErrorWorld sprintf errs) fuel BatchError_Error [beH] h w = some ([.str (batchErrorMsg sprintf errs)], h, w) := by
  obtain ⟨f, rfl⟩ := exists_add hf; exact BatchError_Error_core sprintf errs f h w

end Flyt.Refine.Small
