import FlytModel.Refine.SourceBase
import FlytModel.Props.C10
import FlytModel.Props.C04
/-!
# C10 (a flow used as a node behaves like a node) stated about the INTERPRETED SOURCE

Subject of `Props/C10.lean`: `runNode` (on a flow node, for (i)) and `flowLoop`. Interpreted counterparts:
`runFlowNodeIR fuel Expected.IR.Run env fid start ops mfuel sid st` — `Run(ctx, flow, shared)` (`Run_refines_runNode_flow_of_le`) — and
`flowExecIR fuel Expected.IR.Flow_Exec env fid (some s) ops mfuel sid st` — `flow.Exec(ctx, shared)` (`FlowExec_refines_flowLoop_ge`).

(i) is the statement in which BOTH sides are interpreted source: `Run` on the flow against `Flow.Exec` of the same flow. In the world of
the former, `Flow.Exec` is the model's `flowLoop`; the corollary closes that loop by stating the relation against the interpreted
`Flow.Exec`. What `Run`'s source contributes is exactly (i): `Flow.Prep` hands the store through, one attempt (budget 1), the
pass-through fallback returns the error unchanged, `Flow.Post` returns the action it is handed, `Run` normalises `""`.

`hne`: the model's fuel `mfuel + 1` suffices (the model theorems' `… ≠ .fuel`). `harena`: node `fid` of the arena is this flow.
-/
set_option autoImplicit false
namespace Flyt.Refine.Source
open Flyt Flyt.GoIR Flyt.Refine Flyt.Proofs

/-- on a live context, if `runNode` on a flow with a start node does not run out of fuel, neither does the flow's loop -/
theorem flowLoop_ne_fuel_of_runNode (env : Env) (mfuel : Nat) (fid s : NodeId) (ops : List ConnOp) (sid : StoreId) (st : RunSt)
    (harena : env.arena fid = .flow (some s) ops) (hlive : st.ctx = .live)
    (hne : (runNode env (mfuel + 1) fid sid st).2.2 ≠ .fuel) : (flowLoop env mfuel (buildTable ops) s sid st).2.2 ≠ .fuel := by
  intro h
  apply hne
  simp only [runNode, harena, hlive]
  rcases hl : flowLoop env mfuel (buildTable ops) s sid st with ⟨evs, st', out⟩
  rw [hl] at h
  simp only at h
  subst h
  rfl

/-- **(i) A flow run as a node.** The interpreted `Run` on a flow node (live context) and the interpreted `Flow.Exec` of that flow, on
    the SAME store and the same run state, record the same events and end in the same run state; `Run` returns an action iff
    `Flow.Exec` does, and then presents `Flow.Exec`'s last action normalised (`"" ↦ "default"`) like any node's action; an error of the
    inner flow is passed through unchanged (not swallowed, not re-rooted).
    Mirrors `Props.C10.nested_flow_presents_inner_result`, both sides interpreted. -/
theorem C10_nested_flow_presents_inner_result_for_interpreted_source (env : Env) (fid s : NodeId) (ops : List ConnOp) (mfuel : Nat)
    (sid : StoreId) (st : RunSt) (harena : env.arena fid = .flow (some s) ops) (hlive : st.ctx = .live)
    (hne : (runNode env (mfuel + 1) fid sid st).2.2 ≠ .fuel)
    (fuel : Nat) (hf : flowNodeFuel ≤ fuel) (efuel : Nat) (hef : mfuel + 40 ≤ efuel) :
    ∃ evs st' out out',
      runFlowNodeIR fuel Flyt.Expected.IR.Run env fid (some s) ops mfuel sid st = some (evs, st', out) ∧
      flowExecIR efuel Flyt.Expected.IR.Flow_Exec env fid (some s) ops mfuel sid st = some (evs, st', out') ∧
      (∀ a, out = .ok a ↔ ∃ a', out' = .ok a' ∧ a = norm a') ∧
      (∀ e, out = .err e ↔ out' = .err e) := by
  have hne' := flowLoop_ne_fuel_of_runNode env mfuel fid s ops sid st harena hlive hne
  rcases hl : flowLoop env mfuel (buildTable ops) s sid st with ⟨evs, st', out'⟩
  have hex := FlowExec_refines_flowLoop_ge env fid s ops mfuel sid st efuel hef hne'
  rw [hl] at hex
  rcases hr : runNode env (mfuel + 1) fid sid st with ⟨evs1, st1, out⟩
  have hrun := Run_refines_runNode_flow_of_le env fid (some s) ops mfuel sid st harena hne fuel hf
  rw [hr] at hrun
  obtain ⟨hok, herr⟩ := Props.C10.nested_flow_presents_inner_result env mfuel fid sid st harena hlive evs1 st1
  -- the events and the final state agree: `out` is an action or an error (not `.both`, not `.fuel`)
  have hshape := Props.C04.outcome_shapes env (mfuel + 1) fid sid st hr (by rw [hr] at hne; exact hne)
  have hsame : evs1 = evs ∧ st1 = st' := by
    rcases hshape with ⟨a, rfl⟩ | ⟨u, rfl⟩ | ⟨k, rfl⟩ | rfl
    · obtain ⟨a', h, _⟩ := (hok a).1 hr
      rw [hl] at h; simp only [Prod.mk.injEq] at h; exact ⟨h.1.symm, h.2.1.symm⟩
    · have h := (herr _).1 hr
      rw [hl] at h; simp only [Prod.mk.injEq] at h; exact ⟨h.1.symm, h.2.1.symm⟩
    · have h := (herr _).1 hr
      rw [hl] at h; simp only [Prod.mk.injEq] at h; exact ⟨h.1.symm, h.2.1.symm⟩
    · have h := (herr _).1 hr
      rw [hl] at h; simp only [Prod.mk.injEq] at h; exact ⟨h.1.symm, h.2.1.symm⟩
  obtain ⟨rfl, rfl⟩ := hsame
  refine ⟨evs1, st1, out, out', hrun, hex, fun a => ?_, fun e => ?_⟩
  · constructor
    · rintro rfl
      obtain ⟨a', h, ha⟩ := (hok a).1 hr
      rw [hl] at h; simp only [Prod.mk.injEq] at h
      exact ⟨a', h.2.2, ha⟩
    · rintro ⟨a', rfl, rfl⟩
      have := (hok (norm a')).2 ⟨a', hl, rfl⟩
      rw [hr] at this; simp only [Prod.mk.injEq] at this; exact this.2.2
  · constructor
    · rintro rfl
      have h := (herr e).1 hr
      rw [hl] at h; simp only [Prod.mk.injEq] at h; exact h.2.2
    · rintro rfl
      have := (herr e).2 hl
      rw [hr] at this; simp only [Prod.mk.injEq] at this; exact this.2.2

/-- … **where the inner flow's last action is the action returned by the last node it executed, and the inner flow stopped there because
    that node has no (non-nil) connection for it**: when the interpreted `Run` on a flow returns action `a`, its trace splits into
    visits chained by `IsPath`, each a genuine `flyt.Run` of one node, the last visit returned `a'` with `a = norm a'`, and the table has
    no successor for it. Mirrors `Props.C10.inner_action_is_last_nodes_action`. -/
theorem C10_inner_action_is_last_nodes_action_for_interpreted_source (env : Env) (fid s : NodeId) (ops : List ConnOp) (mfuel : Nat)
    (sid : StoreId) (st : RunSt) (harena : env.arena fid = .flow (some s) ops)
    (hne : (runNode env (mfuel + 1) fid sid st).2.2 ≠ .fuel) (fuel : Nat) (hf : flowNodeFuel ≤ fuel) :
    ∃ evs st' out, runFlowNodeIR fuel Flyt.Expected.IR.Run env fid (some s) ops mfuel sid st = some (evs, st', out) ∧
      ∀ a, out = .ok a →
        ∃ (vs : List Visit) (v : Visit) (a' : Action), IsPath ops s st vs st' (.ok a') ∧ evs = vs.flatMap (·.evs) ∧
          vs.getLast? = some v ∧ v.Genuine env sid ∧ v.out = .ok a' ∧ a = norm a' ∧
          (∀ nxt, next ops v.node a' ≠ some (some nxt)) :=
  flowNode_transfer env fid (some s) ops mfuel sid st harena hne fuel hf
    (fun evs st' out => ∀ a, out = .ok a →
        ∃ (vs : List Visit) (v : Visit) (a' : Action), IsPath ops s st vs st' (.ok a') ∧ evs = vs.flatMap (·.evs) ∧
          vs.getLast? = some v ∧ v.Genuine env sid ∧ v.out = .ok a' ∧ a = norm a' ∧
          (∀ nxt, next ops v.node a' ≠ some (some nxt)))
    (fun _ ha => Props.C10.inner_action_is_last_nodes_action env (mfuel + 1) fid sid st harena (Prod.ext rfl (Prod.ext rfl ha)))

/-- **(ii) One shared store.** Every callback in the trace of the interpreted `Run` on a flow that receives a store (prep / post of
    leaves and batch nodes), at every nesting depth, receives the store `sid` that was handed to that `Run`.
    Mirrors `Props.C10.same_store_everywhere` (flow root). For the flow's OWN level this is derived from the source (`Flow.Prep` returns
    `shared`, `Run` passes it to `Exec`, `Flow.Exec` asserts it to `*SharedStore` and passes it to each `Run`); deeper levels are
    inherited from the model through the world. -/
theorem C10_same_store_everywhere_for_interpreted_source (env : Env) (fid : NodeId) (start : Option NodeId) (ops : List ConnOp)
    (mfuel : Nat) (sid : StoreId) (st : RunSt) (harena : env.arena fid = .flow start ops)
    (hne : (runNode env (mfuel + 1) fid sid st).2.2 ≠ .fuel) (fuel : Nat) (hf : flowNodeFuel ≤ fuel) :
    ∃ evs st' out, runFlowNodeIR fuel Flyt.Expected.IR.Run env fid start ops mfuel sid st = some (evs, st', out) ∧
      ∀ e ∈ evs, evSid e = none ∨ evSid e = some sid :=
  flowNode_transfer env fid start ops mfuel sid st harena hne fuel hf (fun evs _ _ => ∀ e ∈ evs, evSid e = none ∨ evSid e = some sid)
    (Props.C10.same_store_everywhere env (mfuel + 1) fid sid st rfl hne)

/-- **Flattening (iii).** What the interpreted `Run` on a flow returns — events in order, final run state, outcome — is what the
    flattened stack machine `Flat.run` (no recursion) computes, for every sufficiently large step budget.
    Mirrors `Props.C10.flattening` (flow root). `Flat.run` is a second MODEL (`Model/Flat.lean`); it has no source counterpart, so this
    says: the non-recursive reading of nesting agrees with the interpreted recursive `Run`. -/
theorem C10_flattening_for_interpreted_source (env : Env) (fid : NodeId) (start : Option NodeId) (ops : List ConnOp)
    (mfuel : Nat) (sid : StoreId) (st : RunSt) (harena : env.arena fid = .flow start ops)
    (hne : (runNode env (mfuel + 1) fid sid st).2.2 ≠ .fuel) (fuel : Nat) (hf : flowNodeFuel ≤ fuel) :
    ∃ evs st' out, runFlowNodeIR fuel Flyt.Expected.IR.Run env fid start ops mfuel sid st = some (evs, st', out) ∧
      ∃ n, ∀ m, n ≤ m → Flat.run env m fid sid st = (evs, st', out) :=
  flowNode_transfer env fid start ops mfuel sid st harena hne fuel hf
    (fun evs st' out => ∃ n, ∀ m, n ≤ m → Flat.run env m fid sid st = (evs, st', out))
    (Props.C10.flattening env (mfuel + 1) fid sid st hne)

/-! ### non-vacuity: the nested flow 2 (start 4, `4 -x-> 5`) of `Proofs/ExampleEnv.lean`, by the interpreter -/

example : ∃ evs st', runFlowNodeIR 43 Flyt.Expected.IR.Run Ex.env1 2 (some 4) [⟨4, "x", some 5⟩] 9 7 Ex.st0 = some (evs, st', .ok "y") ∧
    flowExecIR 49 Flyt.Expected.IR.Flow_Exec Ex.env1 2 (some 4) [⟨4, "x", some 5⟩] 9 7 Ex.st0 = some (evs, st', .ok "y") := by
  have hne : (runNode Ex.env1 (9 + 1) 2 7 Ex.st0).2.2 ≠ .fuel := by decide
  obtain ⟨evs, st', out, out', h1, h2, hok, _⟩ :=
    C10_nested_flow_presents_inner_result_for_interpreted_source Ex.env1 2 4 [⟨4, "x", some 5⟩] 9 7 Ex.st0 rfl rfl hne 43 (by decide)
      49 (by decide)
  have ho : out = .ok "y" := by
    have hr := Run_refines_runNode_flow_of_le Ex.env1 2 (some 4) [⟨4, "x", some 5⟩] 9 7 Ex.st0 rfl hne 43 (by decide)
    rw [hr] at h1
    have : (runNode Ex.env1 (9 + 1) 2 7 Ex.st0).2.2 = .ok "y" := by decide
    rw [← this]
    exact (congrArg (fun x => x.2.2) (Option.some.inj h1)).symm
  subst ho
  obtain ⟨a', ha', hn⟩ := (hok "y").1 rfl
  subst ha'
  have : a' = "y" := by
    have hl : (flowLoop Ex.env1 9 (buildTable [⟨4, "x", some 5⟩]) 4 7 Ex.st0).2.2 = .ok "y" := by decide
    have hr := FlowExec_refines_flowLoop_ge Ex.env1 2 4 [⟨4, "x", some 5⟩] 9 7 Ex.st0 49 (by decide) (by rw [hl]; simp)
    rw [hr] at h2
    have := congrArg (fun x => x.2.2) (Option.some.inj h2)
    simp only [hl] at this
    exact (Outcome.ok.inj this).symm
  subst this
  exact ⟨evs, st', h1, h2⟩

/-!
## Carried over / not carried over

Carried over: `nested_flow_presents_inner_result` (subjects `runNode` on a flow AND `flowLoop`: `Run_refines_runNode_flow_of_le`,
`FlowExec_refines_flowLoop_ge` — both sides interpreted), `inner_action_is_last_nodes_action`, `same_store_everywhere`, `flattening`
(subject `runNode` on a flow).

Not carried over:
* `spec_c10` — the form of `flattening` the driver evaluates (bridge);
* `flattening` / `same_store_everywhere` for a leaf or batch root — immediate there (no nesting), omitted.
-/

end Flyt.Refine.Source
