import FlytModel.Refine.FlowBuild
import FlytModel.Refine.FlowExec
import FlytModel.Props.C03
/-!
# Bridge: C03 (routing follows the transition table) for a flow BUILT through the interpreted API and RUN by the interpreted `Flow.Exec`

Two refinement results exist, in two worlds that do not know of each other:

* construction (`Refine/FlowBuild.lean`, world `flowBuildWorld`): `NewFlow(start)` and one `Connect` per element of `ops`, run by the
  interpreter, leave a flow OBJECT `o'` — an outer map from nodes to handles of inner-map objects on a heap — whose value-level view is
  `buildTable ops` (`Flow_Connect_sequence_refines`), and whose two-level lookup through that heap is `tableLookup (buildTable ops)`
  (`lookup_built`);
* execution (`Refine/FlowExec.lean`, world `flowWorld env start tbl`): the interpreted `Flow.Exec` computes `flowLoop env … tbl start …`
  — where the world ANSWERS the reads `f.start`, `f.transitions[cur]`, `…[action]` from the parameters `start`, `tbl`; `flowExecIR`
  instantiates `tbl := buildTable ops`. That the flow at hand holds this table is the world's assumption.

Here the assumption is discharged. `flowExecOnObj` runs `Flow.Exec` in the execution world instantiated with what a construction-world
object holds (`o.start`, `view o`); for the object the API built these are `start` and `buildTable ops` (`flowExecOnObj_built`), and the
two worlds answer every read of the flow identically (`worlds_agree_on_reads`: the lookup through the construction world's heap of
inner maps = the lookup the execution world performs on the view). Hence

* `built_flow_exec_is_flowLoop` — a flow built through the API by `NewFlow(start)` + a list of `Connect` calls and then run by the
  interpreted `Flow.Exec` returns exactly `flowLoop env mfuel (buildTable ops) start sid st` (events, run state, outcome);
  `built_flow_Run_is_runNode` — the same for `Run(ctx, flow, shared)` and `runNode`;
* `C03_for_interpreted_source` — the headline theorems of `Props/C03.lean` for that run: the object answers every lookup with the
  target of the MOST RECENT `Connect` for exactly that `(node, action)` pair; the run splits into visits chained by `IsPath`; a flow
  that returns an action ended at a pair that is unconnected or connected to nil;
  `C03_reconnect_for_interpreted_source` — one more interpreted `Connect` on the built object overwrites exactly one pair.

What stays assumed (it is the execution world's reading, stated in `Refine/FlowExec.lean`): a nested `Run(ctx, current, shared)` is the
model's `runNode` (its own refinement: `Refine/Run.lean`, `Refine/RunNode.lean`), and the two worlds use different handles for the flow
(`.node fid` / `.ref "flow" 0`) — a flow has no identity beyond its fields in either.
-/
namespace Flyt.Refine.Bridges
open Flyt Flyt.GoIR Flyt.GoIR.FlowBuildW Flyt.Expected.IR Flyt.Refine Flyt.Refine.FlowBuild Flyt.Proofs

/-- `Flow.Exec` in the execution world whose answers about the flow are read off the construction-world object `o` -/
def flowExecOnObj (fuel : Nat) (f : Func) (env : Flyt.Env) (fid : NodeId) (o : Obj) (mfuel : Nat) (sid : StoreId) (st : RunSt) :
    Option (List Ev × RunSt × Outcome) :=
  match callFunc (flowWorld env o.start (view o)) fuel f [.node fid, ctxH, storeH sid] [] ⟨[], st, mfuel⟩ with
  | some (rs, _, w) => (flowOutcomeOf rs).map fun out => (w.evs, w.st, out)
  | none => none

/-- `Run(ctx, flow, shared)` likewise -/
def runFlowNodeOnObj (fuel : Nat) (f : Func) (env : Flyt.Env) (fid : NodeId) (o : Obj) (mfuel : Nat) (sid : StoreId) (st : RunSt) :
    Option (List Ev × RunSt × Outcome) :=
  match callFunc (flowNodeWorld env o.start (view o)) fuel f [ctxH, .node fid, storeH sid] [] ⟨[], st, mfuel⟩ with
  | some (rs, _, w) => (outcomeOf rs).map fun out => (w.evs, w.st, out)
  | none => none

/-- for an object that holds `start` and whose view is `buildTable ops`, that IS the `flowExecIR` of `Refine/FlowExec.lean` -/
theorem flowExecOnObj_built {o : Obj} {start : Option NodeId} {ops : List ConnOp} (hs : o.start = start) (hv : view o = buildTable ops)
    (fuel : Nat) (f : Func) (env : Flyt.Env) (fid : NodeId) (mfuel : Nat) (sid : StoreId) (st : RunSt) :
    flowExecOnObj fuel f env fid o mfuel sid st = flowExecIR fuel f env fid start ops mfuel sid st := by
  unfold flowExecOnObj flowExecIR; rw [hs, hv]
  rcases callFunc (flowWorld env start (buildTable ops)) fuel f [.node fid, ctxH, storeH sid] [] ⟨[], st, mfuel⟩ with _ | ⟨rs, h, w⟩ <;> rfl

theorem runFlowNodeOnObj_built {o : Obj} {start : Option NodeId} {ops : List ConnOp} (hs : o.start = start) (hv : view o = buildTable ops)
    (fuel : Nat) (f : Func) (env : Flyt.Env) (fid : NodeId) (mfuel : Nat) (sid : StoreId) (st : RunSt) :
    runFlowNodeOnObj fuel f env fid o mfuel sid st = runFlowNodeIR fuel f env fid start ops mfuel sid st := by
  unfold runFlowNodeOnObj runFlowNodeIR; rw [hs, hv]
  rcases callFunc (flowNodeWorld env start (buildTable ops)) fuel f [ctxH, .node fid, storeH sid] [] ⟨[], st, mfuel⟩ with _ | ⟨rs, h, w⟩ <;> rfl

/-- the two-level lookup of `Flow.Exec` (`f.transitions[n]`, then `[a]` on what that yields) as the EXECUTION world answers it -/
def lookupFW (env : Flyt.Env) (start : Option NodeId) (tbl : Table) (n : NodeId) (a : Action) : Option (Option (Option NodeId)) :=
  let W := flowWorld env start tbl
  match W.mapIndex (.ref "trans" 0) (.node n) idle with
  | some (m, true) =>
    (match W.mapIndex m (.str a) idle with
     | some (v, true) => (tgtOf v).map some
     | some (_, false) => some none
     | none => none)
  | some (_, false) => some none
  | none => none

theorem lookupFW_eq (env : Flyt.Env) (start : Option NodeId) (tbl : Table) (n : NodeId) (a : Action) :
    lookupFW env start tbl n a = some (tableLookup tbl n a) := by
  have h1 : (flowWorld env start tbl).mapIndex (.ref "trans" 0) (.node n) idle =
      (match assocGet tbl n with
       | some _ => some (.ref "inner" n, true)
       | none => some (.nil, false)) := rfl
  have h2 : (flowWorld env start tbl).mapIndex (.ref "inner" n) (.str a) idle =
      (match (assocGet tbl n).bind (assocGet · a) with
       | some (some nxt) => some (.node nxt, true)
       | some none => some (.nil, true)
       | none => some (.nil, false)) := rfl
  unfold lookupFW tableLookup
  simp only [h1]
  cases hg : assocGet tbl n with
  | none => rfl
  | some inner =>
    simp only [h2, hg, Option.bind_some]
    cases hi : assocGet inner a with
    | none => rfl
    | some d => cases d <;> rfl

/-- **The two worlds agree on every read of the flow**: on a well-formed construction-world object the start node is the field the
    object holds, and the lookup through its heap of inner-map objects is the lookup the execution world performs on its view. -/
theorem worlds_agree_on_reads (env : Flyt.Env) (fid : NodeId) (o : Obj) (hwf : o.WF) :
    (∀ w : FlowW, (flowWorld env o.start (view o)).field (.node fid) "start" w = some (tgtGV o.start)) ∧
    (∀ (w : FBW), w.obj = o → (flowBuildWorld env fid).field flowH "start" w = some (tgtGV o.start)) ∧
    (∀ n a, lookupW o n a = lookupFW env o.start (view o) n a) := by
  refine ⟨fun w => ?_, fun w hw => by rw [← hw]; rfl, fun n a => ?_⟩
  · cases h : o.start <;> simp [flowWorld_field, tgtGV]
  · rw [lookup_refines o hwf.2, lookupFW_eq]

/-- **A flow built through the API and run by the interpreted `Flow.Exec` visits exactly the path `flowLoop` computes.**
    `NewFlow(start)` and one `Connect` per element of `ops` (each on the flow the previous call returned), run by the interpreter from
    the blank state at any depth `≥ 10`, yield an object `o'`; `Flow.Exec` run by the interpreter in the execution world that answers
    from `o'` (any depth `≥ mfuel + 40`) returns `flowLoop env mfuel (buildTable ops) start sid st` — events, run state, outcome.
    `hne`: the model's own fuel `mfuel` (a ghost: it says which `runNode env ·` a nested `Run` denotes) does not run out. -/
theorem built_flow_exec_is_flowLoop (env : Flyt.Env) (fid start : NodeId) (ops : List ConnOp) (mfuel : Nat) (sid : StoreId) (st : RunSt)
    (bfuel : Nat) (hb : newFlowFuel ≤ bfuel) (fuel : Nat) (hfuel : mfuel + 40 ≤ fuel)
    (hne : (flowLoop env mfuel (buildTable ops) start sid st).2.2 ≠ .fuel) :
    ∃ o', buildFlowIR bfuel NewFlow Flow_Connect (some start) ops = some (flowH, o') ∧
      o'.WF ∧ o'.start = some start ∧ view o' = buildTable ops ∧
      (∀ n a, lookupW o' n a = lookupFW env o'.start (view o') n a) ∧
      flowExecOnObj fuel Flow_Exec env fid o' mfuel sid st = some (flowLoop env mfuel (buildTable ops) start sid st) := by
  obtain ⟨o', hbuild, hv, hs, _, hwf⟩ := buildFlowIR_refines bfuel hb (some start) ops
  refine ⟨o', hbuild, hwf, hs, hv, (worlds_agree_on_reads env fid o' hwf).2.2, ?_⟩
  rw [flowExecOnObj_built hs hv]
  exact FlowExec_refines_flowLoop_ge env fid start ops mfuel sid st fuel hfuel hne

/-- … built WITHOUT a start node (`NewFlow(nil)`): `Flow.Exec` fails with "no start node configured", whatever was connected -/
theorem built_flow_exec_no_start (env : Flyt.Env) (fid : NodeId) (ops : List ConnOp) (mfuel : Nat) (sid : StoreId) (st : RunSt)
    (bfuel : Nat) (hb : newFlowFuel ≤ bfuel) (fuel : Nat) (hfuel : 40 ≤ fuel) :
    ∃ o', buildFlowIR bfuel NewFlow Flow_Connect none ops = some (flowH, o') ∧
      flowExecOnObj fuel Flow_Exec env fid o' mfuel sid st = some ([], st, .err (.fw .noStart)) := by
  obtain ⟨o', hbuild, hv, hs, _, _⟩ := buildFlowIR_refines bfuel hb none ops
  refine ⟨o', hbuild, ?_⟩
  rw [flowExecOnObj_built hs hv]
  exact FlowExec_no_start_ge env fid ops mfuel sid st fuel hfuel

/-- **… and `Run(ctx, flow, shared)` on it is the model's `runNode`** on a node `fid` that the arena holds as the flow these API calls
    describe (`harena`: the arena is the model's picture of the node graph; this says node `fid` of it is THIS flow). -/
theorem built_flow_Run_is_runNode (env : Flyt.Env) (fid : NodeId) (start : Option NodeId) (ops : List ConnOp) (mfuel : Nat) (sid : StoreId)
    (st : RunSt) (bfuel : Nat) (hb : newFlowFuel ≤ bfuel) (fuel : Nat) (hfuel : flowNodeFuel ≤ fuel)
    (harena : env.arena fid = .flow start ops) (hne : (runNode env (mfuel + 1) fid sid st).2.2 ≠ .fuel) :
    ∃ o', buildFlowIR bfuel NewFlow Flow_Connect start ops = some (flowH, o') ∧
      runFlowNodeOnObj fuel Flyt.Expected.IR.Run env fid o' mfuel sid st = some (runNode env (mfuel + 1) fid sid st) := by
  obtain ⟨o', hbuild, hv, hs, _, _⟩ := buildFlowIR_refines bfuel hb start ops
  refine ⟨o', hbuild, ?_⟩
  rw [runFlowNodeOnObj_built hs hv]
  exact Run_refines_runNode_flow_of_le env fid start ops mfuel sid st harena hne fuel hfuel

/-- **C03 for the interpreted source.** For the flow object `o'` the interpreted `NewFlow(start)` + `Connect` calls built, and the run
    `(evs, st', out)` the interpreted `Flow.Exec` makes on it (same hypotheses as `built_flow_exec_is_flowLoop`):
    (i) what a lookup through the object's heap of inner maps yields for `(n, a)` is the target of the most recent `Connect` call for
        exactly that pair — `none`: never connected, `some none`: connected to nil; no prefix matching, no default action;
    (ii) the run splits into visits `vs`, each a genuine `flyt.Run` of one node in the state the previous visit left, chained by `IsPath`:
        first visit `start`; after a visit of `n` returning `a` the next visit is of the node most recently connected to `(n, a)`; the
        trace is the concatenation of the visits' events;
    (iii) if the flow returned an action it is the action of the last node visited, and that node has no (non-nil) connection for it;
    (iv) unless cancellation cut the run, the visited nodes are `route ops start (outcomes of the visits)` — the path is determined by
        the table and the returned actions. -/
theorem C03_for_interpreted_source (env : Flyt.Env) (fid start : NodeId) (ops : List ConnOp) (mfuel : Nat) (sid : StoreId) (st : RunSt)
    (bfuel : Nat) (hb : newFlowFuel ≤ bfuel) (fuel : Nat) (hfuel : mfuel + 40 ≤ fuel)
    (hne : (flowLoop env mfuel (buildTable ops) start sid st).2.2 ≠ .fuel) :
    ∃ o' evs st' out,
      buildFlowIR bfuel NewFlow Flow_Connect (some start) ops = some (flowH, o') ∧
      flowExecOnObj fuel Flow_Exec env fid o' mfuel sid st = some (evs, st', out) ∧
      (∀ n a, lookupW o' n a = some ((ops.reverse.find? (fun c => c.src = n ∧ c.action = a)).map (·.dst))) ∧
      ∃ vs : List Visit, IsPath ops start st vs st' out ∧ evs = vs.flatMap (·.evs) ∧ (∀ v ∈ vs, v.Genuine env sid) ∧
        (∀ a, out = .ok a → ∃ v, vs.getLast? = some v ∧ v.out = .ok a ∧ (next ops v.node a = none ∨ next ops v.node a = some none)) ∧
        (st.ctx = .live → st'.ctx = .live → vs.map (·.node) = route ops start (vs.map (·.out))) := by
  obtain ⟨o', hbuild, hwf, _, hv, _, hexec⟩ := built_flow_exec_is_flowLoop env fid start ops mfuel sid st bfuel hb fuel hfuel hne
  rcases hfl : flowLoop env mfuel (buildTable ops) start sid st with ⟨evs, st', out⟩
  rw [hfl] at hexec hne
  obtain ⟨vs, hp, he, hg⟩ := Props.C03.exec_follows_table env mfuel ops start sid st hfl hne
  refine ⟨o', evs, st', out, hbuild, hexec, fun n a => ?_, vs, hp, he, hg, ?_, ?_⟩
  · rw [lookup_refines o' hwf.2, hv, Props.C03.table_last_write_wins]
  · rintro a rfl; exact Props.C03.ok_ends_at_unconnected ops start st st' vs a hp
  · intro hl hl'; exact Props.C03.path_is_determined ops start st st' vs out hp hl' hl

/-- **One more `Connect` overwrites exactly one pair** — on the object, by the interpreter: after `Connect(op.src, op.action, op.dst)`
    on the flow the API built from `ops`, the lookup for `(op.src, op.action)` yields `op.dst` (a nil target included) and every other
    pair yields what it did before. -/
theorem C03_reconnect_for_interpreted_source (start : Option NodeId) (ops : List ConnOp) (op : ConnOp)
    (bfuel : Nat) (hb : newFlowFuel ≤ bfuel) (cfuel : Nat) (hc : connectFuel ≤ cfuel) :
    ∃ o' o'', buildFlowIR bfuel NewFlow Flow_Connect start ops = some (flowH, o') ∧
      run cfuel Flow_Connect [flowH, .node op.src, .str op.action, tgtGV op.dst] o' = some ([flowH], o'') ∧
      view o'' = buildTable (ops ++ [op]) ∧ o''.start = start ∧
      ∀ n a, lookupW o'' n a = some (if op.src = n ∧ op.action = a then some op.dst else tableLookup (buildTable ops) n a) ∧
        lookupW o' n a = some (tableLookup (buildTable ops) n a) := by
  obtain ⟨o', hbuild, hv, hs, _, hwf⟩ := buildFlowIR_refines bfuel hb start ops
  obtain ⟨hrun, hv', hs', _, hwf'⟩ := Flow_Connect_refines_of_le cfuel hc o' hwf op
  have hview : view (connectObj o' op) = buildTable (ops ++ [op]) := by
    rw [hv', hv]; simp [buildTable, List.foldl_append]
  refine ⟨o', connectObj o' op, hbuild, hrun, hview, hs'.trans hs, fun n a => ⟨?_, ?_⟩⟩
  · rw [lookup_refines _ hwf'.2, hview, Props.C03.connect_overwrites_one_pair]
  · rw [lookup_refines _ hwf.2, hv]

/-- non-vacuity: the hypotheses are met by the example arena of `Proofs/ExampleEnv.lean` — its inner flow `4 -x-> 5`, built through the
    interpreted API and run by the interpreted `Flow.Exec`, ends with the action `"y"` of node 5 -/
example : ∃ o' evs st', buildFlowIR 10 NewFlow Flow_Connect (some 4) [⟨4, "x", some 5⟩] = some (flowH, o') ∧
    flowExecOnObj 50 Flow_Exec Ex.env1 2 o' 10 0 Ex.st0 = some (evs, st', .ok "y") := by
  have hne : (flowLoop Ex.env1 10 (buildTable [⟨4, "x", some 5⟩]) 4 0 Ex.st0).2.2 ≠ .fuel := by decide
  obtain ⟨o', h1, _, _, _, _, h2⟩ :=
    built_flow_exec_is_flowLoop Ex.env1 2 4 [⟨4, "x", some 5⟩] 10 0 Ex.st0 10 (by decide) 50 (by decide) hne
  have hout : (flowLoop Ex.env1 10 (buildTable [⟨4, "x", some 5⟩]) 4 0 Ex.st0).2.2 = .ok "y" := by decide
  exact ⟨o', _, _, h1, by rw [h2, ← hout]⟩

end Flyt.Refine.Bridges
