import FlytModel.GoIR.StoreWorld
import FlytModel.Expected.IR
import FlytModel.Refine.Run
import FlytModel.Proofs.StoreHeap
/-!
# Refinement: the translated Go source of `SharedStore` (`Flyt.Expected.IR`, flyt.go:55-161), run by the definitional interpreter
of `GoIR/Interp.lean` in `storeWorld enum` (`GoIR/StoreWorld.lean`), computes exactly the heap machine `Store.step` of
`Model/Store.lean` — and takes the lock `Model/StoreConc.lean` assumes it takes (properties C13 / C14)

`runStore enum fuel f args s = some (values, final state, trace)`: the body by `callFunc` from the world state
`{ st := s, held := none, tr := [] }`, then the deferred unlocks in LIFO order (that wrapper IS the defer semantics, see
`StoreWorld.lean`). One theorem per method, for EVERY state `s : Store.St` with `WF s` (`s.data < s.maps.length`: the store's map is
a live object — `Iso.data_lt` of `Proofs/StoreHeap.lean`; preserved by every `Store.step`: `WF_step`; `Clear`, `Merge(nil)`,
`NewSharedStore` need not even that), every key, every value, every enumeration order `enum`, every sufficient fuel:

    runStore enum fuel SharedStore_M args s =
      some (encResp (step s op).1 (step s op).2,            -- the returned values are the model's response
            withHandles (step s op).1 s,                     -- heap and `data` pointer are the model's post-state
            [.lock m, .deferUnlock m] ++ accesses ++ [.unlock m])

* `m = .R` for `Get`, `Has` (no traced access), `Len`, `GetAll`, `Keys` (`accesses = [.read]`: the `len(s.data)`);
  `m = .W` for `Set`, `Delete`, `Clear` (`[.write]`) and `Merge(m)` (one `.write` per entry of `m`); `Merge(nil)` has the EMPTY trace.
  A `.write` occurs only in these four `W` traces.
* A map / slice result is the REFERENCE of a NEW object: `encResp` reads it off the handle the model registers
  (`getAll_handle`, `keys_handle`); the method itself registers no handle, hence `withHandles … s` (the identity for the other methods).
* `SharedStore_<M>_core` is the statement at `f + K` (loops: `length + f + K`), `K` the least depth at which NO run of the method is
  stuck (`Get` 8, `Has` 7, `Len` 9, `Set` 6, `Delete` 8, `Clear` 6, `Merge(nil)` 4, `NewSharedStore` 8, `Merge(m)` `|m| + 9`,
  `Keys` `n + 11`, `GetAll` `n + 10` — least is `max 10 (n + 8)`); `…_refines_of_le` at every fuel above, `…_refines` at the test's `F = 40`.
* `SharedStore_<M>_disciplined`: the run is not stuck and its trace passes `disciplined` (balanced, nothing held at the end, every
  traced read inside a critical section, every write inside a `W` section). Reads through the interpreter's PURE primitives
  (`s.data`, `s.data[k]`, `range s.data`) cannot leave an event; they are guarded instead — `guard_*`: each access to the store's map
  that is not stuck was made holding the lock in the required mode; `getNoLock_stuck`, `setRLock_stuck`: the guards bite.

## iteration order (the one place where the model's LISTS and the source differ — as lists, not as maps)
`range` enumerates in the order `enum`. The source performs the assignments in enumeration order, `mergeInto d l` performs them for
the LAST pair of `l` first, `keysOf` lists in list order. So (`…_general_core`, every `enum`):
`GetAll` makes `mergeInto [] (enum cur).reverse`, `Merge(m)` stores `mergeInto cur (enum m).reverse`, `Keys` makes `keysOf (enum cur)`.
* exact equality with `Store.step` (`…_core`, `…_refines_of_le`): under `hen` — reverse list order for `GetAll` / `Merge`, list order for
  `Keys`. NO single fixed order reproduces the lists of all three.
* every order that permutes (`…_anyorder_of_le`, needs `NodupKeys` of the enumerated object): the same Go map (`MapEq`, `Perm`), the
  same key set (`Perm`) — what the driver compares after sorting.
-/
namespace Flyt.Refine.Store
open Flyt Flyt.GoIR Flyt.Store Flyt.GoIR.StoreW Flyt.Expected.IR Flyt.Refine
open Flyt.StoreConc (Mode)
set_option linter.unusedSimpArgs false

/-- the recursion depth of the executable test -/
def F : Nat := 40

/-! ## unfolding lemmas for the constructors `Refine/Run.lean` does not cover -/

section steps
variable {Ω : Type} (W : World Ω)
theorem expr_sel (f : Nat) (a : Expr) (fl : String) (st : GoIR.St Ω) :
    evalExpr W (f + 1) (.sel a fl) st =
      match evalExpr W f a st with
      | some ([x], st1) => (W.field x fl st1.w).map fun v => ([v], st1)
      | _ => none := rfl
theorem stmt_expr_mcall_nil (f : Nat) (r : Expr) (m : String) (st : GoIR.St Ω) :
    execStmt W (f + 1) (.expr (.mcall r m .nil)) st = (evalExpr W f (.mcall r m .nil) st).map fun (_, st1) => (.next, st1) := rfl
theorem stmt_expr_call (f : Nat) (fn : String) (args : Exprs) (st : GoIR.St Ω) :
    execStmt W (f + 1) (.expr (.call fn args)) st = (evalExpr W f (.call fn args) st).map fun (_, st1) => (.next, st1) := rfl
theorem stmt_defer (f : Nat) (r : Expr) (m : String) (st : GoIR.St Ω) :
    execStmt W (f + 1) (.deferS (.mcall r m .nil)) st =
      (match evalExpr W f r st with
       | some ([x], st1) =>
         (match W.mcall x ("defer:" ++ m) [] st1.heap st1.w with
          | some (_, h, w) => some (.next, { st1 with heap := h, w := w })
          | none => none)
       | _ => none) := rfl
/-- `make(T, …)` for a type other than `[]Result`: an object of the world -/
theorem expr_make (f : Nat) (ty : String) (rest : Exprs) (st : GoIR.St Ω) (h : (ty == "[]Result") = false) :
    evalExpr W (f + 1) (.call "make" (.cons (.var ty) rest)) st =
      match evalArgs W f rest st with
      | some (vs, st1) =>
        (match W.call ("make:" ++ ty) vs st1.heap st1.w with
         | some (rs, h, w) => some (rs, { st1 with heap := h, w := w })
         | none => none)
      | none => none := by
  have h0 : evalExpr W (f + 1) (.call "make" (.cons (.var ty) rest)) st = (if ty == "[]Result" then _ else _) := rfl
  rw [h0, h]; rfl
theorem expr_addr_lit (f : Nat) (ty : String) (elts : Exprs) (st : GoIR.St Ω) :
    evalExpr W (f + 1) (.un "&" (.lit ty elts)) st = evalExpr W f (.lit ty elts) st := rfl
theorem expr_lit_SharedStore (f : Nat) (elts : Exprs) (st : GoIR.St Ω) :
    evalExpr W (f + 1) (.lit "SharedStore" elts) st =
      match evalArgs W f (litValues elts) st with
      | some (vs, st1) =>
        (match W.call ("lit:" ++ "SharedStore" ++ ":" ++ litKeys elts) vs st1.heap st1.w with
         | some (rs, h, w) => some (rs, { st1 with heap := h, w := w })
         | none => none)
      | none => none := rfl
/-- `for k, v := range x` (shown for the case the loops of the store are in: `x` evaluates to an object of the world) -/
theorem stmt_range (f : Nat) (k v : String) (x : Expr) (body : Block) (st : GoIR.St Ω) :
    execStmt W (f + 1) (.rangeS k v x body) st =
      match evalExpr W f x st with
      | some ([.slice ad off n], st1) => loopRange W f k v ad off n 0 body st1
      | some ([.anys l], st1) => loopAnys W f k v l 0 body st1
      | some ([.nil], st1) => some (.next, st1)
      | some ([m], st1) =>
        (match W.rangeOf m st1.w with
         | some kvs => loopPairs W f k v kvs body st1
         | none => none)
      | _ => none := rfl
theorem loopPairs_nil (f : Nat) (k v : String) (body : Block) (st : GoIR.St Ω) :
    loopPairs W (f + 1) k v [] body st = some (.next, st) := rfl
theorem loopPairs_cons (f : Nat) (k v : String) (kx vx : GV) (rest : List (GV × GV)) (body : Block) (st : GoIR.St Ω) :
    loopPairs W (f + 1) k v ((kx, vx) :: rest) body st =
      (match execBlock W f body { st with env := (st.env.push k kx).push v vx } with
       | some (.brk, st2) => some (.next, popSt st2 st.env.length)
       | some (.ret vs, st2) => some (.ret vs, popSt st2 st.env.length)
       | some (_, st2) => loopPairs W f k v rest body (popSt st2 st.env.length)
       | none => none) := rfl
end steps

/-! ## projections of `storeWorld` -/

section world
variable (enum : KV → KV)
local notation "W" => storeWorld enum

theorem W_mu (i : Nat) (w : SW) : (W).field (.ref "store" i) "mu" w = some (.ref "mutex" 0) := rfl
theorem W_data (i : Nat) (w : SW) :
    (W).field (.ref "store" i) "data" w = if w.held.isSome then some (.ref "map" w.st.data) else none := rfl
theorem W_mcall (i : Nat) (m : String) (h : Heap) (w : SW) :
    (W).mcall (.ref "mutex" i) m [] h w = (muCall m w).map fun w' => ([], h, w') := rfl
theorem W_mapIndex (r : Nat) (k : String) (w : SW) : (W).mapIndex (.ref "map" r) (.str k) w = mapGet r k w := rfl
theorem W_setIndex (r : Nat) (k : String) (v : GV) (w : SW) : (W).setIndex (.ref "map" r) (.str k) v w = mapSet r k v w := rfl
theorem W_setField (i r : Nat) (w : SW) : (W).setField (.ref "store" i) "data" (.ref "map" r) w = setData r w := rfl
theorem W_rangeOf (r : Nat) (w : SW) : (W).rangeOf (.ref "map" r) w = mapRange enum r w := rfl
theorem W_len (r : Nat) (h : Heap) (w : SW) :
    (W).call "len" [.ref "map" r] h w = (mapLen r w).map fun p => ([.int p.1], h, p.2) := rfl
theorem W_delete (r : Nat) (k : String) (h : Heap) (w : SW) :
    (W).call "delete" [.ref "map" r, .str k] h w = (mapDel r k w).map fun w' => ([], h, w') := rfl
theorem W_append (r : Nat) (k : String) (h : Heap) (w : SW) :
    (W).call "append" [.ref "strs" r, .str k] h w = (strsAppend r k w).map fun w' => ([.ref "strs" r], h, w') := rfl
theorem W_make_map0 (h : Heap) (w : SW) :
    (W).call "make:map[string]any" [] h w = some ([(allocMap w).1], h, (allocMap w).2) := rfl
theorem W_make_map1 (n : Int) (h : Heap) (w : SW) :
    (W).call "make:map[string]any" [.int n] h w = some ([(allocMap w).1], h, (allocMap w).2) := rfl
theorem W_make_strs (n : Int) (h : Heap) (w : SW) :
    (W).call "make:[]string" [.int 0, .int n] h w = some ([(allocStrs w).1], h, (allocStrs w).2) := rfl
theorem W_lit (r : Nat) (h : Heap) (w : SW) :
    (W).call "lit:SharedStore:data," [.ref "map" r] h w = (newStore r w).map fun w' => ([storeRef], h, w') := rfl
end world

theorem mu_RLock (w : SW) : muCall "RLock" w = acquire .R w := rfl
theorem mu_Lock (w : SW) : muCall "Lock" w = acquire .W w := rfl
theorem mu_dRUnlock (w : SW) : muCall "defer:RUnlock" w = some { w with tr := w.tr ++ [.deferUnlock .R] } := rfl
theorem mu_dUnlock (w : SW) : muCall "defer:Unlock" w = some { w with tr := w.tr ++ [.deferUnlock .W] } := rfl
theorem make_map_name : "make:" ++ "map[string]any" = "make:map[string]any" := by decide
theorem make_strs_name : "make:" ++ "[]string" = "make:[]string" := by decide

macro "storesimp" " [" ts:Lean.Parser.Tactic.simpLemma,* "]" : tactic =>
  `(tactic| gosimp [runStore, callFunc, expr_sel, stmt_expr_mcall_nil, stmt_expr_call, stmt_defer, expr_make, expr_addr_lit, expr_lit_SharedStore,
      stmt_range, loopPairs_nil, loopPairs_cons,
      W_mu, W_data, W_mcall, W_mapIndex, W_setIndex, W_setField, W_rangeOf, W_len, W_delete, W_append, W_make_map0, W_make_map1,
      W_make_strs, W_lit, mu_RLock, mu_Lock, mu_dRUnlock, mu_dUnlock, make_map_name, make_strs_name,
      storeRef, muRef, mapRef, strsRef, acquire, release, pendingDefers, runDefers, $ts,*])

/-! ## the heap of `Model/Store.lean` -/

theorem write_maps_length (s : Store.St) (r : Nat) (m : KV) : (s.write r m).maps.length = s.maps.length := by
  simp [St.write]
theorem deref_write_self (s : Store.St) (r : Nat) (m : KV) (h : r < s.maps.length) : (s.write r m).deref r = m := by
  simp [St.write, St.deref, h]
theorem write_data (s : Store.St) (r : Nat) (m : KV) : (s.write r m).data = s.data := rfl
theorem cur_write_data (s : Store.St) (m : KV) (h : s.data < s.maps.length) : (s.write s.data m).cur = m := by
  simp [St.cur, write_data, deref_write_self _ _ _ h]
theorem write_write (s : Store.St) (r : Nat) (m m' : KV) : (s.write r m).write r m' = s.write r m' := by
  simp [St.write]
theorem set_getD_self {α} (l : List α) (i : Nat) (d : α) : l.set i (l[i]?.getD d) = l := by
  apply List.ext_getElem?
  intro j
  by_cases h : i = j
  · subst h
    by_cases h2 : i < l.length
    · simp [h2]
    · have h3 : l.length ≤ i := Nat.le_of_not_lt h2
      simp [h3]
  · simp [List.getElem?_set_ne h]
theorem write_deref_self (s : Store.St) (r : Nat) : s.write r (s.deref r) = s := by
  cases s; simp [St.write, St.deref, set_getD_self]

/-- `m[k₁] = v₁; …; m[kₙ] = vₙ` in this order -/
def putAll (m : KV) (l : KV) : KV := l.foldl (fun m p => put m p.1 p.2) m

theorem putAll_eq_mergeInto (m l : KV) : putAll m l = mergeInto m l.reverse := by
  induction l generalizing m with
  | nil => rfl
  | cons p t ih =>
    obtain ⟨k, v⟩ := p
    have hm : ∀ (a b : KV) (d : KV), mergeInto d (a ++ b) = mergeInto (mergeInto d b) a := by
      intro a b d
      induction a with
      | nil => rfl
      | cons q a iha => obtain ⟨k', v'⟩ := q; simp [mergeInto, iha]
    simp only [putAll, List.foldl_cons, List.reverse_cons] at ih ⊢
    rw [ih, hm]; rfl

/-- the pairs `rangeOf` hands to the loop -/
def encPairs (l : KV) : List (GV × GV) := l.map fun p => (GV.str p.1, GV.ofVal p.2)

/-- every depth `≥ K` is `f + K` for some `f` -/
theorem exists_add {K fuel : Nat} (h : K ≤ fuel) : ∃ f, fuel = f + K := ⟨fuel - K, by omega⟩

/-- more fuel never changes a result of `runStore` -/
theorem runStore_mono (enum : KV → KV) {f g : Nat} (hfg : f ≤ g) {fn args s r}
    (h : runStore enum f fn args s = some r) : runStore enum g fn args s = some r := by
  unfold runStore at h ⊢
  cases hc : callFunc (storeWorld enum) f fn args [] { st := s } with
  | none => simp [hc] at h
  | some x => rw [mono_callFunc _ hfg hc]; rw [hc] at h; exact h

/-! ## the methods without a loop -/

theorem SharedStore_Get_core (enum : KV → KV) (f : Nat) (s : Store.St) (k : Key) (hwf : WF s) :
    runStore enum (f + 8) SharedStore_Get [storeRef, .str k] s =
      some (encResp (step s (.get k)).1 (step s (.get k)).2, withHandles (step s (.get k)).1 s,
        [.lock .R, .deferUnlock .R, .unlock .R]) := by
  have hd : s.data < s.maps.length := hwf
  storesimp [SharedStore_Get, mapGet, SW.readOk, encResp, step, withHandles, St.cur, hd]

theorem SharedStore_Has_core (enum : KV → KV) (f : Nat) (s : Store.St) (k : Key) (hwf : WF s) :
    runStore enum (f + 7) SharedStore_Has [storeRef, .str k] s =
      some (encResp (step s (.has k)).1 (step s (.has k)).2, withHandles (step s (.has k)).1 s,
        [.lock .R, .deferUnlock .R, .unlock .R]) := by
  have hd : s.data < s.maps.length := hwf
  storesimp [SharedStore_Has, mapGet, SW.readOk, encResp, step, withHandles, St.cur, hd]

theorem SharedStore_Len_core (enum : KV → KV) (f : Nat) (s : Store.St) (hwf : WF s) :
    runStore enum (f + 9) SharedStore_Len [storeRef] s =
      some (encResp (step s .len).1 (step s .len).2, withHandles (step s .len).1 s,
        [.lock .R, .deferUnlock .R, .read, .unlock .R]) := by
  have hd : s.data < s.maps.length := hwf
  storesimp [SharedStore_Len, mapLen, SW.readOk, SW.touch, encResp, step, withHandles, St.cur, hd]

/-- `Set(key, value)` for ANY argument value `g`; the model stores the payload `g.toVal` -/
theorem SharedStore_Set_core (enum : KV → KV) (f : Nat) (s : Store.St) (k : Key) (g : GV) (hwf : WF s) :
    runStore enum (f + 6) SharedStore_Set [storeRef, .str k, g] s =
      some (encResp (step s (.set k g.toVal)).1 (step s (.set k g.toVal)).2, withHandles (step s (.set k g.toVal)).1 s,
        [.lock .W, .deferUnlock .W, .write, .unlock .W]) := by
  have hd : s.data < s.maps.length := hwf
  storesimp [SharedStore_Set, mapSet, SW.writeOk, SW.touch, encResp, step, withHandles, St.cur, St.write, hd]

theorem SharedStore_Delete_core (enum : KV → KV) (f : Nat) (s : Store.St) (k : Key) (hwf : WF s) :
    runStore enum (f + 8) SharedStore_Delete [storeRef, .str k] s =
      some (encResp (step s (.delete k)).1 (step s (.delete k)).2, withHandles (step s (.delete k)).1 s,
        [.lock .W, .deferUnlock .W, .write, .unlock .W]) := by
  have hd : s.data < s.maps.length := hwf
  storesimp [SharedStore_Delete, mapDel, SW.writeOk, SW.touch, encResp, step, withHandles, St.cur, St.write, hd]

/-- `Clear` needs no well-formedness: it never looks at the old map -/
theorem SharedStore_Clear_core (enum : KV → KV) (f : Nat) (s : Store.St) :
    runStore enum (f + 6) SharedStore_Clear [storeRef] s =
      some (encResp (step s .clear).1 (step s .clear).2, withHandles (step s .clear).1 s,
        [.lock .W, .deferUnlock .W, .write, .unlock .W]) := by
  storesimp [SharedStore_Clear, allocMap, setData, encResp, step, withHandles]

/-- `Merge(nil)`: no lock is taken, nothing is touched -/
theorem SharedStore_Merge_nil_core (enum : KV → KV) (f : Nat) (s : Store.St) :
    runStore enum (f + 4) SharedStore_Merge [storeRef, .nil] s =
      some (encResp (step s .mergeNil).1 (step s .mergeNil).2, withHandles (step s .mergeNil).1 s, []) := by
  storesimp [SharedStore_Merge, encResp, step, withHandles]

/-- `NewSharedStore()` in ANY heap: a new empty map object, and the store pointing to it -/
theorem NewSharedStore_core (enum : KV → KV) (f : Nat) (s : Store.St) :
    runStore enum (f + 8) NewSharedStore [] s =
      some ([storeRef], { s with maps := s.maps ++ [[]], data := s.maps.length }, []) := by
  storesimp [NewSharedStore, allocMap, newStore, litValues, litKeys]

/-! ## the loops: one lemma per loop body, an induction over the enumerated association list -/

section loops
variable (enum : KV → KV)
local notation "W" => storeWorld enum

/-! ### `GetAll`: `for k, v := range s.data { copy[k] = v }` -/

def getAllBody : Block := B[(.assign E[(.index (.var "copy") (.var "k"))] E[(.var "v")])]

theorem getAll_body (c f : Nat) (held : Option Mode) (tr : List LockEv) (h : Heap) (st : Store.St) (k : Key) (v : Val)
    (hc : c < st.maps.length) (hne : c ≠ st.data) :
    execBlock W (f + 3) getAllBody
        ⟨[("v", GV.ofVal v), ("k", .str k), ("copy", .ref "map" c), ("s", .ref "store" 0)], h, ⟨st, held, tr⟩⟩ =
      some (.next, ⟨[("v", GV.ofVal v), ("k", .str k), ("copy", .ref "map" c), ("s", .ref "store" 0)], h,
        ⟨st.write c (put (st.deref c) k v), held, tr⟩⟩) := by
  storesimp [getAllBody, mapSet, SW.writeOk, SW.touch, hc, hne, toVal_ofVal]

theorem getAll_loop (c f : Nat) (held : Option Mode) (tr : List LockEv) (h : Heap) :
    ∀ (l : KV) (st : Store.St), c < st.maps.length → c ≠ st.data →
      loopPairs W (l.length + f + 3) "k" "v" (encPairs l) getAllBody
          ⟨[("copy", .ref "map" c), ("s", .ref "store" 0)], h, ⟨st, held, tr⟩⟩ =
        some (.next, ⟨[("copy", .ref "map" c), ("s", .ref "store" 0)], h, ⟨st.write c (putAll (st.deref c) l), held, tr⟩⟩) := by
  intro l
  induction l with
  | nil =>
    intro st _ _
    simp [encPairs, putAll, loopPairs_nil, write_deref_self]
  | cons p l ih =>
    intro st hc hne
    obtain ⟨k, v⟩ := p
    rw [show ((k, v) :: l).length + f + 3 = (l.length + f + 3) + 1 from by simp only [List.length_cons]; omega]
    simp only [encPairs, List.map_cons, loopPairs_cons]
    simp only [Env.push, show ("k" == "_") = false from by decide, show ("v" == "_") = false from by decide, Bool.false_eq_true, if_false]
    rw [getAll_body enum c _ held tr h st k v hc hne]
    simp only [popSt, Env.popTo, List.length_cons, List.length_nil]
    simp only [show 0 + 1 + 1 + 1 + 1 - (0 + 1 + 1) = 2 from rfl, List.drop_succ_cons, List.drop_zero]
    have ih' := ih (st.write c (put (st.deref c) k v)) (by simpa [write_maps_length] using hc) (by simpa [St.write] using hne)
    simp only [encPairs] at ih'
    rw [ih']
    simp [write_write, deref_write_self _ _ _ hc, putAll]

/-! ### `Merge`: `for k, v := range data { s.data[k] = v }` -/

def mergeBody : Block := B[(.assign E[(.index (.sel (.var "s") "data") (.var "k"))] E[(.var "v")])]

theorem merge_body (r f : Nat) (tr : List LockEv) (h : Heap) (st : Store.St) (k : Key) (v : Val) (hd : st.data < st.maps.length) :
    execBlock W (f + 4) mergeBody
        ⟨[("v", GV.ofVal v), ("k", .str k), ("data", .ref "map" r), ("s", .ref "store" 0)], h, ⟨st, some .W, tr⟩⟩ =
      some (.next, ⟨[("v", GV.ofVal v), ("k", .str k), ("data", .ref "map" r), ("s", .ref "store" 0)], h,
        ⟨st.write st.data (put st.cur k v), some .W, tr ++ [.write]⟩⟩) := by
  storesimp [mergeBody, mapSet, SW.writeOk, SW.touch, hd, toVal_ofVal, St.cur]

theorem merge_loop (r f : Nat) (h : Heap) :
    ∀ (l : KV) (st : Store.St) (tr : List LockEv), st.data < st.maps.length →
      loopPairs W (l.length + f + 4) "k" "v" (encPairs l) mergeBody
          ⟨[("data", .ref "map" r), ("s", .ref "store" 0)], h, ⟨st, some .W, tr⟩⟩ =
        some (.next, ⟨[("data", .ref "map" r), ("s", .ref "store" 0)], h,
          ⟨st.write st.data (putAll st.cur l), some .W, tr ++ List.replicate l.length .write⟩⟩) := by
  intro l
  induction l with
  | nil =>
    intro st tr _
    simp [encPairs, putAll, loopPairs_nil, write_deref_self, St.cur]
  | cons p l ih =>
    intro st tr hd
    obtain ⟨k, v⟩ := p
    rw [show ((k, v) :: l).length + f + 4 = (l.length + f + 4) + 1 from by simp only [List.length_cons]; omega]
    simp only [encPairs, List.map_cons, loopPairs_cons]
    simp only [Env.push, show ("k" == "_") = false from by decide, show ("v" == "_") = false from by decide, Bool.false_eq_true, if_false]
    rw [merge_body enum r _ tr h st k v hd]
    simp only [popSt, Env.popTo, List.length_cons, List.length_nil]
    simp only [show 0 + 1 + 1 + 1 + 1 - (0 + 1 + 1) = 2 from rfl, List.drop_succ_cons, List.drop_zero]
    have ih' := ih (st.write st.data (put st.cur k v)) (tr ++ [.write]) (by rw [write_maps_length]; exact hd)
    simp only [encPairs] at ih'
    rw [ih']
    simp [write_write, write_data, cur_write_data _ _ hd, putAll, List.replicate_succ]

/-! ### `Keys`: `for k := range s.data { keys = append(keys, k) }` -/

def keysBody : Block := B[(.assign E[(.var "keys")] E[(.call "append" E[(.var "keys"), (.var "k")])])]

theorem keys_body (c f : Nat) (held : Option Mode) (tr : List LockEv) (h : Heap) (st : Store.St) (k : Key) (hc : c < st.slices.length) :
    execBlock W (f + 6) keysBody ⟨[("k", .str k), ("keys", .ref "strs" c), ("s", .ref "store" 0)], h, ⟨st, held, tr⟩⟩ =
      some (.next, ⟨[("k", .str k), ("keys", .ref "strs" c), ("s", .ref "store" 0)], h,
        ⟨{ st with slices := st.slices.set c (st.derefSlice c ++ [k]) }, held, tr⟩⟩) := by
  storesimp [keysBody, strsAppend, hc]

theorem keys_loop (c f : Nat) (held : Option Mode) (tr : List LockEv) (h : Heap) :
    ∀ (l : KV) (st : Store.St), c < st.slices.length →
      loopPairs W (l.length + f + 6) "k" "_" (encPairs l) keysBody
          ⟨[("keys", .ref "strs" c), ("s", .ref "store" 0)], h, ⟨st, held, tr⟩⟩ =
        some (.next, ⟨[("keys", .ref "strs" c), ("s", .ref "store" 0)], h,
          ⟨{ st with slices := st.slices.set c (st.derefSlice c ++ keysOf l) }, held, tr⟩⟩) := by
  intro l
  induction l with
  | nil =>
    intro st hc
    cases st
    simp [encPairs, keysOf, loopPairs_nil, St.derefSlice, set_getD_self]
  | cons p l ih =>
    intro st hc
    obtain ⟨k, v⟩ := p
    rw [show ((k, v) :: l).length + f + 6 = (l.length + f + 6) + 1 from by simp only [List.length_cons]; omega]
    simp only [encPairs, List.map_cons, loopPairs_cons]
    simp only [Env.push, show ("k" == "_") = false from by decide, show ("_" == "_") = true from by decide, if_true, Bool.false_eq_true, if_false]
    rw [keys_body enum c _ held tr h st k hc]
    simp only [popSt, Env.popTo, List.length_cons, List.length_nil]
    simp only [show 0 + 1 + 1 + 1 - (0 + 1 + 1) = 1 from rfl, List.drop_succ_cons, List.drop_zero]
    have ih' := ih { st with slices := st.slices.set c (st.derefSlice c ++ [k]) } (by simpa using hc)
    simp only [encPairs] at ih'
    rw [ih']
    simp [St.derefSlice, hc, keysOf]

end loops

theorem mapRange_eq (enum : KV → KV) (r : Nat) (w : SW) :
    mapRange enum r w =
      if r < w.st.maps.length then (if w.readOk r then some (encPairs (enum (w.st.deref r))) else none) else none := rfl

/-- the heap right after `make(map[string]any, …)` -/
def withNewMap (s : Store.St) : Store.St := { s with maps := s.maps ++ [[]] }

theorem deref_withNewMap_lt (s : Store.St) (r : Nat) (h : r < s.maps.length) : (withNewMap s).deref r = s.deref r := by
  simp [withNewMap, St.deref, List.getElem?_append_left h]
theorem set_append_len {α} (l : List α) (x y : α) : (l ++ [x]).set l.length y = l ++ [y] := by
  simp [List.set_append_right]
theorem fill_withNewMap (s : Store.St) (m : KV) :
    (withNewMap s).write s.maps.length m = { s with maps := s.maps ++ [m] } := by
  simp [withNewMap, St.write, set_append_len]
theorem deref_withNewMap_len (s : Store.St) : (withNewMap s).deref s.maps.length = [] := by
  simp [withNewMap, St.deref, getD_append_len]

/-- `GetAll()` for EVERY enumeration order: a new map object, filled in the order `enum`; its reference is returned -/
theorem SharedStore_GetAll_general_core (enum : KV → KV) (f : Nat) (s : Store.St) (hwf : WF s) :
    runStore enum ((enum s.cur).length + f + 10) SharedStore_GetAll [storeRef] s =
      some ([.ref "map" s.maps.length], { s with maps := s.maps ++ [mergeInto [] (enum s.cur).reverse] },
        [.lock .R, .deferUnlock .R, .read, .unlock .R]) := by
  have hd : s.data < s.maps.length := hwf
  have hd1 : s.data < s.maps.length + 1 := by omega
  have hne : (s.maps.length == s.data) = false := by simp; omega
  have hl := getAll_loop enum s.maps.length (f + 2) (some .R) [.lock .R, .deferUnlock .R, .read] [] (enum s.cur) (withNewMap s)
    (by simp [withNewMap]) (by simp [withNewMap]; omega)
  rw [show (enum s.cur).length + (f + 2) + 3 = (enum s.cur).length + f + 5 from by omega, deref_withNewMap_len, fill_withNewMap,
    putAll_eq_mergeInto] at hl
  simp only [getAllBody, withNewMap, St.cur] at hl
  have hder := deref_withNewMap_lt s s.data hd
  simp only [withNewMap] at hder
  storesimp [SharedStore_GetAll, mapLen, mapRange_eq, allocMap, SW.readOk, SW.touch, hd, hd1, hne, St.cur, hder, hl]

theorem pendingDefers_append (a b : List LockEv) : pendingDefers (a ++ b) = pendingDefers a ++ pendingDefers b := by
  induction a with
  | nil => rfl
  | cons e t ih => cases e <;> simp [pendingDefers, ih]
theorem pendingDefers_writes (n : Nat) : pendingDefers (List.replicate n .write) = [] := by
  induction n with
  | zero => rfl
  | succ n ih => simp [List.replicate_succ, pendingDefers, ih]

/-- `Merge(m)` for a live map object `m` (ANY: a caller-held copy, a literal, even `s.data` itself) and EVERY enumeration order:
    one write per enumerated entry, all inside the `W` section -/
theorem SharedStore_Merge_general_core (enum : KV → KV) (f : Nat) (s : Store.St) (r : Nat) (hwf : WF s) (hr : r < s.maps.length) :
    runStore enum ((enum (s.deref r)).length + f + 9) SharedStore_Merge [storeRef, .ref "map" r] s =
      some ([], s.write s.data (mergeInto s.cur (enum (s.deref r)).reverse),
        [.lock .W, .deferUnlock .W] ++ List.replicate (enum (s.deref r)).length .write ++ [.unlock .W]) := by
  have hd : s.data < s.maps.length := hwf
  have hl := merge_loop enum r f [] (enum (s.deref r)) s [.lock .W, .deferUnlock .W] hd
  rw [putAll_eq_mergeInto] at hl
  simp only [mergeBody] at hl
  storesimp [SharedStore_Merge, mapRange_eq, SW.readOk, hd, hr, hl, pendingDefers_append, pendingDefers_writes]

/-- `Keys()` for EVERY enumeration order: a new slice object holding the keys in the order `enum`; its reference is returned -/
theorem SharedStore_Keys_general_core (enum : KV → KV) (f : Nat) (s : Store.St) (hwf : WF s) :
    runStore enum ((enum s.cur).length + f + 11) SharedStore_Keys [storeRef] s =
      some ([.ref "strs" s.slices.length], { s with slices := s.slices ++ [keysOf (enum s.cur)] },
        [.lock .R, .deferUnlock .R, .read, .unlock .R]) := by
  have hd : s.data < s.maps.length := hwf
  have hl := keys_loop enum s.slices.length f (some .R) [.lock .R, .deferUnlock .R, .read] [] (enum s.cur)
    { s with slices := s.slices ++ [[]] } (by simp)
  simp only [keysBody, St.cur, St.derefSlice, getD_append_len, set_append_len, List.nil_append] at hl
  have hder : ({ maps := s.maps, slices := s.slices ++ [[]], data := s.data, snaps := s.snaps, ksnaps := s.ksnaps } : Store.St).deref s.data
      = s.deref s.data := rfl
  storesimp [SharedStore_Keys, mapLen, mapRange_eq, allocStrs, SW.readOk, SW.touch, hd, St.cur, hder, hl]

/-! ## the loops against `Store.step`, exactly: under the enumeration order that reproduces the model's LIST

`Store.step` fixes one list per object. `keysOf` lists the keys in list order, so `Keys` is reproduced by enumerating in list order;
`mergeInto d l` performs the assignments for the LAST pair of `l` first (`mergeInto d ((k, v) :: t) = put (mergeInto d t) k v`), so
`GetAll` / `Merge` are reproduced by enumerating in REVERSE list order. The hypothesis `hen` says just that, for the one list the
method enumerates. For an arbitrary order see the `…_anyorder` theorems below. -/

theorem SharedStore_GetAll_core (enum : KV → KV) (f : Nat) (s : Store.St) (hwf : WF s) (hen : (enum s.cur).reverse = s.cur) :
    runStore enum (s.cur.length + f + 10) SharedStore_GetAll [storeRef] s =
      some (encResp (step s .getAll).1 (step s .getAll).2, withHandles (step s .getAll).1 s,
        [.lock .R, .deferUnlock .R, .read, .unlock .R]) := by
  have hlen : (enum s.cur).length = s.cur.length := by simpa using congrArg List.length hen
  have h := SharedStore_GetAll_general_core enum f s hwf
  rw [hen, hlen] at h
  rw [h]
  simp [encResp, step, withHandles]

theorem SharedStore_Keys_core (enum : KV → KV) (f : Nat) (s : Store.St) (hwf : WF s) (hen : enum s.cur = s.cur) :
    runStore enum (s.cur.length + f + 11) SharedStore_Keys [storeRef] s =
      some (encResp (step s .keys).1 (step s .keys).2, withHandles (step s .keys).1 s,
        [.lock .R, .deferUnlock .R, .read, .unlock .R]) := by
  have h := SharedStore_Keys_general_core enum f s hwf
  rw [hen] at h
  rw [h]
  simp [encResp, step, withHandles]

/-- `Merge(m_j)` with the caller-held map object of handle `j` (the model's `mergeSnap j`) -/
theorem SharedStore_Merge_core (enum : KV → KV) (f : Nat) (s : Store.St) (j r : Nat) (hwf : WF s) (hj : s.snaps[j]? = some r)
    (hr : r < s.maps.length) (hen : (enum (s.deref r)).reverse = s.deref r) :
    runStore enum ((s.deref r).length + f + 9) SharedStore_Merge [storeRef, .ref "map" r] s =
      some (encResp (step s (.mergeSnap j)).1 (step s (.mergeSnap j)).2, withHandles (step s (.mergeSnap j)).1 s,
        [.lock .W, .deferUnlock .W] ++ List.replicate (s.deref r).length .write ++ [.unlock .W]) := by
  have hlen : (enum (s.deref r)).length = (s.deref r).length := by simpa using congrArg List.length hen
  have h := SharedStore_Merge_general_core enum f s r hwf hr
  rw [hen, hlen] at h
  rw [h]
  simp [encResp, step, withHandles, hj, St.write]

/-! ## every sufficient fuel -/

theorem of_le {enum : KV → KV} {fn : Func} {args : List GV} {s : Store.St} {r} {K fuel : Nat}
    (h : ∀ f, runStore enum (f + K) fn args s = some r) (hf : K ≤ fuel) : runStore enum fuel fn args s = some r := by
  obtain ⟨f, rfl⟩ := exists_add hf; exact h f
theorem of_le' {enum : KV → KV} {fn : Func} {args : List GV} {s : Store.St} {r} {n K fuel : Nat}
    (h : ∀ f, runStore enum (n + f + K) fn args s = some r) (hf : n + K ≤ fuel) : runStore enum fuel fn args s = some r := by
  obtain ⟨f, rfl⟩ := exists_add hf
  rw [show f + (n + K) = n + f + K from by omega]; exact h f

theorem SharedStore_Get_refines_of_le (enum : KV → KV) (s : Store.St) (k : Key) (hwf : WF s) (fuel : Nat) (hf : 8 ≤ fuel) :
    runStore enum fuel SharedStore_Get [storeRef, .str k] s =
      some (encResp (step s (.get k)).1 (step s (.get k)).2, withHandles (step s (.get k)).1 s,
        [.lock .R, .deferUnlock .R, .unlock .R]) :=
  of_le (fun f => SharedStore_Get_core enum f s k hwf) hf

theorem SharedStore_Has_refines_of_le (enum : KV → KV) (s : Store.St) (k : Key) (hwf : WF s) (fuel : Nat) (hf : 7 ≤ fuel) :
    runStore enum fuel SharedStore_Has [storeRef, .str k] s =
      some (encResp (step s (.has k)).1 (step s (.has k)).2, withHandles (step s (.has k)).1 s,
        [.lock .R, .deferUnlock .R, .unlock .R]) :=
  of_le (fun f => SharedStore_Has_core enum f s k hwf) hf

theorem SharedStore_Len_refines_of_le (enum : KV → KV) (s : Store.St) (hwf : WF s) (fuel : Nat) (hf : 9 ≤ fuel) :
    runStore enum fuel SharedStore_Len [storeRef] s =
      some (encResp (step s .len).1 (step s .len).2, withHandles (step s .len).1 s,
        [.lock .R, .deferUnlock .R, .read, .unlock .R]) :=
  of_le (fun f => SharedStore_Len_core enum f s hwf) hf

theorem SharedStore_Set_refines_of_le (enum : KV → KV) (s : Store.St) (k : Key) (g : GV) (hwf : WF s) (fuel : Nat) (hf : 6 ≤ fuel) :
    runStore enum fuel SharedStore_Set [storeRef, .str k, g] s =
      some (encResp (step s (.set k g.toVal)).1 (step s (.set k g.toVal)).2, withHandles (step s (.set k g.toVal)).1 s,
        [.lock .W, .deferUnlock .W, .write, .unlock .W]) :=
  of_le (fun f => SharedStore_Set_core enum f s k g hwf) hf

/-- `Set(key, value)` with the payload `v` of the model as argument -/
theorem SharedStore_Set_refines_of_le_val (enum : KV → KV) (s : Store.St) (k : Key) (v : Val) (hwf : WF s) (fuel : Nat) (hf : 6 ≤ fuel) :
    runStore enum fuel SharedStore_Set [storeRef, .str k, GV.ofVal v] s =
      some (encResp (step s (.set k v)).1 (step s (.set k v)).2, withHandles (step s (.set k v)).1 s,
        [.lock .W, .deferUnlock .W, .write, .unlock .W]) := by
  have h := SharedStore_Set_refines_of_le enum s k (GV.ofVal v) hwf fuel hf
  rwa [toVal_ofVal] at h

theorem SharedStore_Delete_refines_of_le (enum : KV → KV) (s : Store.St) (k : Key) (hwf : WF s) (fuel : Nat) (hf : 8 ≤ fuel) :
    runStore enum fuel SharedStore_Delete [storeRef, .str k] s =
      some (encResp (step s (.delete k)).1 (step s (.delete k)).2, withHandles (step s (.delete k)).1 s,
        [.lock .W, .deferUnlock .W, .write, .unlock .W]) :=
  of_le (fun f => SharedStore_Delete_core enum f s k hwf) hf

theorem SharedStore_Clear_refines_of_le (enum : KV → KV) (s : Store.St) (fuel : Nat) (hf : 6 ≤ fuel) :
    runStore enum fuel SharedStore_Clear [storeRef] s =
      some (encResp (step s .clear).1 (step s .clear).2, withHandles (step s .clear).1 s,
        [.lock .W, .deferUnlock .W, .write, .unlock .W]) :=
  of_le (fun f => SharedStore_Clear_core enum f s) hf

theorem SharedStore_Merge_nil_refines_of_le (enum : KV → KV) (s : Store.St) (fuel : Nat) (hf : 4 ≤ fuel) :
    runStore enum fuel SharedStore_Merge [storeRef, .nil] s =
      some (encResp (step s .mergeNil).1 (step s .mergeNil).2, withHandles (step s .mergeNil).1 s, []) :=
  of_le (fun f => SharedStore_Merge_nil_core enum f s) hf

theorem SharedStore_GetAll_refines_of_le (enum : KV → KV) (s : Store.St) (hwf : WF s) (hen : (enum s.cur).reverse = s.cur)
    (fuel : Nat) (hf : s.cur.length + 10 ≤ fuel) :
    runStore enum fuel SharedStore_GetAll [storeRef] s =
      some (encResp (step s .getAll).1 (step s .getAll).2, withHandles (step s .getAll).1 s,
        [.lock .R, .deferUnlock .R, .read, .unlock .R]) :=
  of_le' (fun f => SharedStore_GetAll_core enum f s hwf hen) hf

theorem SharedStore_Keys_refines_of_le (enum : KV → KV) (s : Store.St) (hwf : WF s) (hen : enum s.cur = s.cur)
    (fuel : Nat) (hf : s.cur.length + 11 ≤ fuel) :
    runStore enum fuel SharedStore_Keys [storeRef] s =
      some (encResp (step s .keys).1 (step s .keys).2, withHandles (step s .keys).1 s,
        [.lock .R, .deferUnlock .R, .read, .unlock .R]) :=
  of_le' (fun f => SharedStore_Keys_core enum f s hwf hen) hf

theorem SharedStore_Merge_refines_of_le (enum : KV → KV) (s : Store.St) (j r : Nat) (hwf : WF s) (hj : s.snaps[j]? = some r)
    (hr : r < s.maps.length) (hen : (enum (s.deref r)).reverse = s.deref r) (fuel : Nat) (hf : (s.deref r).length + 9 ≤ fuel) :
    runStore enum fuel SharedStore_Merge [storeRef, .ref "map" r] s =
      some (encResp (step s (.mergeSnap j)).1 (step s (.mergeSnap j)).2, withHandles (step s (.mergeSnap j)).1 s,
        [.lock .W, .deferUnlock .W] ++ List.replicate (s.deref r).length .write ++ [.unlock .W]) :=
  of_le' (fun f => SharedStore_Merge_core enum f s j r hwf hj hr hen) hf

theorem SharedStore_GetAll_general_of_le (enum : KV → KV) (s : Store.St) (hwf : WF s) (fuel : Nat) (hf : (enum s.cur).length + 10 ≤ fuel) :
    runStore enum fuel SharedStore_GetAll [storeRef] s =
      some ([.ref "map" s.maps.length], { s with maps := s.maps ++ [mergeInto [] (enum s.cur).reverse] },
        [.lock .R, .deferUnlock .R, .read, .unlock .R]) :=
  of_le' (fun f => SharedStore_GetAll_general_core enum f s hwf) hf

theorem SharedStore_Keys_general_of_le (enum : KV → KV) (s : Store.St) (hwf : WF s) (fuel : Nat) (hf : (enum s.cur).length + 11 ≤ fuel) :
    runStore enum fuel SharedStore_Keys [storeRef] s =
      some ([.ref "strs" s.slices.length], { s with slices := s.slices ++ [keysOf (enum s.cur)] },
        [.lock .R, .deferUnlock .R, .read, .unlock .R]) :=
  of_le' (fun f => SharedStore_Keys_general_core enum f s hwf) hf

theorem SharedStore_Merge_general_of_le (enum : KV → KV) (s : Store.St) (r : Nat) (hwf : WF s) (hr : r < s.maps.length)
    (fuel : Nat) (hf : (enum (s.deref r)).length + 9 ≤ fuel) :
    runStore enum fuel SharedStore_Merge [storeRef, .ref "map" r] s =
      some ([], s.write s.data (mergeInto s.cur (enum (s.deref r)).reverse),
        [.lock .W, .deferUnlock .W] ++ List.replicate (enum (s.deref r)).length .write ++ [.unlock .W]) :=
  of_le' (fun f => SharedStore_Merge_general_core enum f s r hwf hr) hf

/-- `NewSharedStore()` on the empty heap yields the model's initial state -/
def emptyHeap : Store.St := { maps := [], slices := [], data := 0, snaps := [], ksnaps := [] }

theorem NewSharedStore_refines_of_le (enum : KV → KV) (fuel : Nat) (hf : 8 ≤ fuel) :
    runStore enum fuel NewSharedStore [] emptyHeap = some ([storeRef], St.init, []) :=
  of_le (fun f => NewSharedStore_core enum f emptyHeap) hf

/-! ## at the recursion depth of the executable test (`F = 40`; the loops: as long as the map fits) -/

theorem SharedStore_Get_refines (enum : KV → KV) (s : Store.St) (k : Key) (hwf : WF s) :
    runStore enum F SharedStore_Get [storeRef, .str k] s =
      some (encResp (step s (.get k)).1 (step s (.get k)).2, withHandles (step s (.get k)).1 s,
        [.lock .R, .deferUnlock .R, .unlock .R]) := SharedStore_Get_refines_of_le enum s k hwf F (by decide)
theorem SharedStore_Has_refines (enum : KV → KV) (s : Store.St) (k : Key) (hwf : WF s) :
    runStore enum F SharedStore_Has [storeRef, .str k] s =
      some (encResp (step s (.has k)).1 (step s (.has k)).2, withHandles (step s (.has k)).1 s,
        [.lock .R, .deferUnlock .R, .unlock .R]) := SharedStore_Has_refines_of_le enum s k hwf F (by decide)
theorem SharedStore_Len_refines (enum : KV → KV) (s : Store.St) (hwf : WF s) :
    runStore enum F SharedStore_Len [storeRef] s =
      some (encResp (step s .len).1 (step s .len).2, withHandles (step s .len).1 s,
        [.lock .R, .deferUnlock .R, .read, .unlock .R]) := SharedStore_Len_refines_of_le enum s hwf F (by decide)
theorem SharedStore_Set_refines (enum : KV → KV) (s : Store.St) (k : Key) (v : Val) (hwf : WF s) :
    runStore enum F SharedStore_Set [storeRef, .str k, GV.ofVal v] s =
      some (encResp (step s (.set k v)).1 (step s (.set k v)).2, withHandles (step s (.set k v)).1 s,
        [.lock .W, .deferUnlock .W, .write, .unlock .W]) := SharedStore_Set_refines_of_le_val enum s k v hwf F (by decide)
theorem SharedStore_Delete_refines (enum : KV → KV) (s : Store.St) (k : Key) (hwf : WF s) :
    runStore enum F SharedStore_Delete [storeRef, .str k] s =
      some (encResp (step s (.delete k)).1 (step s (.delete k)).2, withHandles (step s (.delete k)).1 s,
        [.lock .W, .deferUnlock .W, .write, .unlock .W]) := SharedStore_Delete_refines_of_le enum s k hwf F (by decide)
theorem SharedStore_Clear_refines (enum : KV → KV) (s : Store.St) :
    runStore enum F SharedStore_Clear [storeRef] s =
      some (encResp (step s .clear).1 (step s .clear).2, withHandles (step s .clear).1 s,
        [.lock .W, .deferUnlock .W, .write, .unlock .W]) := SharedStore_Clear_refines_of_le enum s F (by decide)
theorem SharedStore_Merge_nil_refines (enum : KV → KV) (s : Store.St) :
    runStore enum F SharedStore_Merge [storeRef, .nil] s =
      some (encResp (step s .mergeNil).1 (step s .mergeNil).2, withHandles (step s .mergeNil).1 s, []) :=
  SharedStore_Merge_nil_refines_of_le enum s F (by decide)
theorem SharedStore_GetAll_refines (s : Store.St) (hwf : WF s) (hfit : s.cur.length + 10 ≤ F) :
    runStore List.reverse F SharedStore_GetAll [storeRef] s =
      some (encResp (step s .getAll).1 (step s .getAll).2, withHandles (step s .getAll).1 s,
        [.lock .R, .deferUnlock .R, .read, .unlock .R]) :=
  SharedStore_GetAll_refines_of_le List.reverse s hwf (List.reverse_reverse _) F hfit
theorem SharedStore_Keys_refines (s : Store.St) (hwf : WF s) (hfit : s.cur.length + 11 ≤ F) :
    runStore id F SharedStore_Keys [storeRef] s =
      some (encResp (step s .keys).1 (step s .keys).2, withHandles (step s .keys).1 s,
        [.lock .R, .deferUnlock .R, .read, .unlock .R]) :=
  SharedStore_Keys_refines_of_le id s hwf rfl F hfit
theorem SharedStore_Merge_refines (s : Store.St) (j r : Nat) (hwf : WF s) (hj : s.snaps[j]? = some r) (hr : r < s.maps.length)
    (hfit : (s.deref r).length + 9 ≤ F) :
    runStore List.reverse F SharedStore_Merge [storeRef, .ref "map" r] s =
      some (encResp (step s (.mergeSnap j)).1 (step s (.mergeSnap j)).2, withHandles (step s (.mergeSnap j)).1 s,
        [.lock .W, .deferUnlock .W] ++ List.replicate (s.deref r).length .write ++ [.unlock .W]) :=
  SharedStore_Merge_refines_of_le List.reverse s j r hwf hj hr (List.reverse_reverse _) F hfit
theorem NewSharedStore_refines (enum : KV → KV) : runStore enum F NewSharedStore [] emptyHeap = some ([storeRef], St.init, []) :=
  NewSharedStore_refines_of_le enum F (by decide)

/-! ## what `encResp` and `withHandles` say about the two handle-returning methods -/

/-- the reference `GetAll` returns is the handle the model registers, and it denotes the map the model answers with -/
theorem getAll_handle (s : Store.St) :
    (step s .getAll).1.snaps = s.snaps ++ [s.maps.length] ∧
    encResp (step s .getAll).1 (step s .getAll).2 = [.ref "map" s.maps.length] ∧
    (step s .getAll).2 = .map ((step s .getAll).1.deref s.maps.length) := by
  simp [step, encResp, St.deref, getD_append_len]

theorem keys_handle (s : Store.St) :
    (step s .keys).1.ksnaps = s.ksnaps ++ [s.slices.length] ∧
    encResp (step s .keys).1 (step s .keys).2 = [.ref "strs" s.slices.length] ∧
    (step s .keys).2 = .keys ((step s .keys).1.derefSlice s.slices.length) := by
  simp [step, encResp, St.derefSlice, getD_append_len]

/-- a method that registers no handle: `withHandles` is the identity -/
theorem withHandles_self (a s : Store.St) (h1 : a.snaps = s.snaps) (h2 : a.ksnaps = s.ksnaps) : withHandles a s = a := by
  cases a; simp_all [withHandles]

/-! ## the lock discipline -/

/-- a run that is not stuck and whose trace passes the check -/
def Disciplined (res : Option (List GV × Store.St × List LockEv)) : Prop :=
  ∃ vs st tr, res = some (vs, st, tr) ∧ disciplined tr = true

theorem disc_writes (n : Nat) (t : List LockEv) :
    discAux (some .W) (List.replicate n .write ++ t) = discAux (some .W) t := by
  induction n with
  | zero => rfl
  | succ n ih => simp [List.replicate_succ, discAux, ih]

theorem disciplined_merge (n : Nat) :
    disciplined ([.lock .W, .deferUnlock .W] ++ List.replicate n .write ++ [.unlock .W]) = true := by
  simp [disciplined, discAux, disc_writes]

theorem SharedStore_Get_disciplined (enum : KV → KV) (s : Store.St) (k : Key) (hwf : WF s) (fuel : Nat) (hf : 8 ≤ fuel) :
    Disciplined (runStore enum fuel SharedStore_Get [storeRef, .str k] s) :=
  ⟨_, _, _, SharedStore_Get_refines_of_le enum s k hwf fuel hf, rfl⟩
theorem SharedStore_Has_disciplined (enum : KV → KV) (s : Store.St) (k : Key) (hwf : WF s) (fuel : Nat) (hf : 7 ≤ fuel) :
    Disciplined (runStore enum fuel SharedStore_Has [storeRef, .str k] s) :=
  ⟨_, _, _, SharedStore_Has_refines_of_le enum s k hwf fuel hf, rfl⟩
theorem SharedStore_Len_disciplined (enum : KV → KV) (s : Store.St) (hwf : WF s) (fuel : Nat) (hf : 9 ≤ fuel) :
    Disciplined (runStore enum fuel SharedStore_Len [storeRef] s) :=
  ⟨_, _, _, SharedStore_Len_refines_of_le enum s hwf fuel hf, rfl⟩
theorem SharedStore_Set_disciplined (enum : KV → KV) (s : Store.St) (k : Key) (g : GV) (hwf : WF s) (fuel : Nat) (hf : 6 ≤ fuel) :
    Disciplined (runStore enum fuel SharedStore_Set [storeRef, .str k, g] s) :=
  ⟨_, _, _, SharedStore_Set_refines_of_le enum s k g hwf fuel hf, rfl⟩
theorem SharedStore_Delete_disciplined (enum : KV → KV) (s : Store.St) (k : Key) (hwf : WF s) (fuel : Nat) (hf : 8 ≤ fuel) :
    Disciplined (runStore enum fuel SharedStore_Delete [storeRef, .str k] s) :=
  ⟨_, _, _, SharedStore_Delete_refines_of_le enum s k hwf fuel hf, rfl⟩
theorem SharedStore_Clear_disciplined (enum : KV → KV) (s : Store.St) (fuel : Nat) (hf : 6 ≤ fuel) :
    Disciplined (runStore enum fuel SharedStore_Clear [storeRef] s) :=
  ⟨_, _, _, SharedStore_Clear_refines_of_le enum s fuel hf, rfl⟩
theorem SharedStore_Merge_nil_disciplined (enum : KV → KV) (s : Store.St) (fuel : Nat) (hf : 4 ≤ fuel) :
    Disciplined (runStore enum fuel SharedStore_Merge [storeRef, .nil] s) :=
  ⟨_, _, _, SharedStore_Merge_nil_refines_of_le enum s fuel hf, rfl⟩
/-- every enumeration order -/
theorem SharedStore_GetAll_disciplined (enum : KV → KV) (s : Store.St) (hwf : WF s) (fuel : Nat) (hf : (enum s.cur).length + 10 ≤ fuel) :
    Disciplined (runStore enum fuel SharedStore_GetAll [storeRef] s) :=
  ⟨_, _, _, SharedStore_GetAll_general_of_le enum s hwf fuel hf, rfl⟩
theorem SharedStore_Keys_disciplined (enum : KV → KV) (s : Store.St) (hwf : WF s) (fuel : Nat) (hf : (enum s.cur).length + 11 ≤ fuel) :
    Disciplined (runStore enum fuel SharedStore_Keys [storeRef] s) :=
  ⟨_, _, _, SharedStore_Keys_general_of_le enum s hwf fuel hf, rfl⟩
/-- every enumeration order, every live map object as argument (also `s.data` itself) -/
theorem SharedStore_Merge_disciplined (enum : KV → KV) (s : Store.St) (r : Nat) (hwf : WF s) (hr : r < s.maps.length)
    (fuel : Nat) (hf : (enum (s.deref r)).length + 9 ≤ fuel) :
    Disciplined (runStore enum fuel SharedStore_Merge [storeRef, .ref "map" r] s) :=
  ⟨_, _, _, SharedStore_Merge_general_of_le enum s r hwf hr fuel hf, disciplined_merge _⟩

/-! ### the guards: what a successful access implies (for the accesses that leave no event, this IS the discipline) -/

section guards
variable (enum : KV → KV)
local notation "W" => storeWorld enum

theorem guard_field_data (i : Nat) (w : SW) (v : GV) (h : (W).field (.ref "store" i) "data" w = some v) :
    w.held.isSome = true ∧ v = .ref "map" w.st.data := by
  rw [W_data] at h
  split at h
  · rename_i hh; exact ⟨hh, by simpa using h.symm⟩
  · simp at h
theorem guard_mapIndex (k : String) (w : SW) (x : GV × Bool) (h : (W).mapIndex (.ref "map" w.st.data) (.str k) w = some x) :
    w.held.isSome = true := by
  simp only [W_mapIndex, mapGet, SW.readOk, bne_self_eq_false, Bool.false_or] at h
  split at h
  · split at h
    · assumption
    · simp at h
  · simp at h
theorem guard_rangeOf (w : SW) (x : List (GV × GV)) (h : (W).rangeOf (.ref "map" w.st.data) w = some x) :
    w.held.isSome = true := by
  simp only [W_rangeOf, mapRange, SW.readOk, bne_self_eq_false, Bool.false_or] at h
  split at h
  · split at h
    · assumption
    · simp at h
  · simp at h
theorem guard_len (hp : Heap) (w : SW) (x) (h : (W).call "len" [.ref "map" w.st.data] hp w = some x) :
    w.held.isSome = true ∧ x.2.2.tr = w.tr ++ [.read] := by
  simp only [W_len, mapLen, SW.readOk, SW.touch, bne_self_eq_false, Bool.false_or, BEq.rfl, if_true] at h
  split at h
  · split at h
    · rename_i hh; simp at h; subst h; exact ⟨hh, rfl⟩
    · simp at h
  · simp at h
theorem guard_setIndex (k : String) (v : GV) (w w' : SW) (h : (W).setIndex (.ref "map" w.st.data) (.str k) v w = some w') :
    w.held = some .W ∧ w'.tr = w.tr ++ [.write] := by
  simp only [W_setIndex, mapSet, SW.writeOk, SW.touch, bne_self_eq_false, Bool.false_or, BEq.rfl, if_true] at h
  split at h
  · split at h
    · rename_i hh; simp at h; subst h; exact ⟨by simpa using hh, rfl⟩
    · simp at h
  · simp at h
theorem guard_delete (k : String) (hp : Heap) (w : SW) (x) (h : (W).call "delete" [.ref "map" w.st.data, .str k] hp w = some x) :
    w.held = some .W ∧ x.2.2.tr = w.tr ++ [.write] := by
  simp only [W_delete, mapDel, SW.writeOk, SW.touch, bne_self_eq_false, Bool.false_or, BEq.rfl, if_true] at h
  split at h
  · split at h
    · rename_i hh; simp at h; subst h; exact ⟨by simpa using hh, rfl⟩
    · simp at h
  · simp at h
theorem guard_setField (i r : Nat) (w w' : SW) (h : (W).setField (.ref "store" i) "data" (.ref "map" r) w = some w') :
    w.held = some .W ∧ w'.tr = w.tr ++ [.write] := by
  simp only [W_setField, setData] at h
  split at h
  · split at h
    · rename_i hh; simp at h; subst h; exact ⟨by simpa using hh, rfl⟩
    · simp at h
  · simp at h
end guards

/-- the guards bite: `Get`'s body WITHOUT `s.mu.RLock(); defer s.mu.RUnlock()` is stuck, in every state, at every fuel -/
def getNoLock : Func := { name := "SharedStore.Get", recv := "s", params := ["key"], body := B[
  (.define ["val", "ok"] E[(.index (.sel (.var "s") "data") (.var "key"))]),
  (.ret E[(.var "val"), (.var "ok")])] }

theorem getNoLock_stuck (enum : KV → KV) (s : Store.St) (k : Key) (fuel : Nat) :
    runStore enum fuel getNoLock [storeRef, .str k] s = none := by
  cases h : runStore enum fuel getNoLock [storeRef, .str k] s with
  | none => rfl
  | some r =>
    have h1 := runStore_mono enum (Nat.le_add_left fuel 6) h
    have h2 : runStore enum (6 + fuel) getNoLock [storeRef, .str k] s = none := by
      rw [show 6 + fuel = fuel + 6 from by omega]
      storesimp [getNoLock]
    rw [h2] at h1; cases h1

/-- … and so is `Set`'s body under the READ lock -/
def setRLock : Func := { name := "SharedStore.Set", recv := "s", params := ["key", "value"], body := B[
  (.expr (.mcall (.sel (.var "s") "mu") "RLock" E[])),
  (.deferS (.mcall (.sel (.var "s") "mu") "RUnlock" E[])),
  (.assign E[(.index (.sel (.var "s") "data") (.var "key"))] E[(.var "value")])] }

theorem setRLock_stuck (enum : KV → KV) (s : Store.St) (k : Key) (g : GV) (fuel : Nat) :
    runStore enum fuel setRLock [storeRef, .str k, g] s = none := by
  cases h : runStore enum fuel setRLock [storeRef, .str k, g] s with
  | none => rfl
  | some r =>
    have h1 := runStore_mono enum (Nat.le_add_left fuel 6) h
    have h2 : runStore enum (6 + fuel) setRLock [storeRef, .str k, g] s = none := by
      rw [show 6 + fuel = fuel + 6 from by omega]
      storesimp [setRLock, mapSet, SW.writeOk]
    rw [h2] at h1; cases h1

/-! ## well-formedness: what it is, that the model preserves it, that it is satisfiable -/

theorem WF_init : WF St.init := by decide
theorem WF_of_iso {s : Store.St} (h : Iso s) : WF s := h.data_lt
theorem WF_step {s : Store.St} (h : WF s) (op : Op) : WF (step s op).1 := by
  unfold WF at *
  cases op <;> simp only [step] <;> (try split) <;> simp [St.write, h] <;> omega
theorem WF_exec {s : Store.St} (h : WF s) (ops : List Op) : WF (exec s ops) := by
  induction ops generalizing s with
  | nil => exact h
  | cons op t ih => exact ih (WF_step h op)
/-- a caller handle of a state satisfying the isolation invariant is a live object -/
theorem handle_live {s : Store.St} (h : Iso s) {j r : Nat} (hj : s.snaps[j]? = some r) : r < s.maps.length :=
  h.snaps_lt r (handle_mem hj)

example : ∃ s : Store.St, WF s ∧ s.cur ≠ [] ∧ s.snaps ≠ [] :=
  ⟨exec St.init [.set "a" (.tok 1), .getAll], WF_exec WF_init _, by decide, by decide⟩

/-! ## every enumeration order that is a permutation: the same Go maps, the same key set

Go does not specify the order of `range` over a map. For ANY `enum` that merely permutes the entries of the one object the method
enumerates (and that object listing no key twice — `NodupKeys`, the invariant of `Proofs/StoreKV.lean`), the object the method
produces has the same content as the model's: `lookup` agrees on every key (`MapEq`); given `NodupKeys` it is a permutation of
the model's list. -/

/-- same content as Go maps -/
def MapEq (a b : KV) : Prop := ∀ k, lookup k a = lookup k b

theorem mem_of_lookup {k : Key} {v : Val} : ∀ {l : KV}, lookup k l = some v → (k, v) ∈ l
  | [], h => by simp at h
  | (a, b) :: t, h => by
    rw [lookup_cons] at h
    by_cases hk : a = k
    · simp [hk] at h; subst h; subst hk; exact List.mem_cons_self
    · simp [hk] at h; exact List.mem_cons_of_mem _ (mem_of_lookup h)

theorem lookup_of_mem {k : Key} {v : Val} : ∀ {l : KV}, NodupKeys l → (k, v) ∈ l → lookup k l = some v
  | [], _, h => by simp at h
  | (a, b) :: t, hn, h => by
    simp only [NodupKeys, keysOf_cons, List.nodup_cons] at hn
    rw [lookup_cons]
    rcases List.mem_cons.1 h with h | h
    · cases h; simp
    · have hk : k ∈ keysOf t := List.mem_map.2 ⟨(k, v), h, rfl⟩
      have hne : a ≠ k := fun e => hn.1 (e ▸ hk)
      simp [hne, lookup_of_mem hn.2 h]

theorem nodupKeys_perm {a b : KV} (hp : a.Perm b) (hn : NodupKeys b) : NodupKeys a := by
  unfold NodupKeys keysOf at *
  exact ((hp.map (fun p : Key × Val => p.1)).nodup_iff).2 hn

theorem mapEq_of_perm {a b : KV} (hp : a.Perm b) (hn : NodupKeys b) : MapEq a b := by
  intro k
  have hna := nodupKeys_perm hp hn
  cases h : lookup k b with
  | some v => exact lookup_of_mem hna (hp.mem_iff.2 (mem_of_lookup h))
  | none =>
    cases h' : lookup k a with
    | none => rfl
    | some v => rw [lookup_of_mem hn (hp.mem_iff.1 (mem_of_lookup h'))] at h; cases h

theorem nodup_of_nodupKeys {a : KV} (h : NodupKeys a) : a.Nodup := by
  induction a with
  | nil => exact List.nodup_nil
  | cons p t ih =>
    simp only [NodupKeys, keysOf_cons, List.nodup_cons] at h ⊢
    exact ⟨fun hm => h.1 (List.mem_map.2 ⟨p, hm, rfl⟩), ih h.2⟩

/-- two well-formed map contents with the same `lookup` are permutations of each other -/
theorem perm_of_mapEq {a b : KV} (ha : NodupKeys a) (hb : NodupKeys b) (h : MapEq a b) : a.Perm b := by
  refine (List.perm_ext_iff_of_nodup (nodup_of_nodupKeys ha) (nodup_of_nodupKeys hb)).2 ?_
  rintro ⟨k, v⟩
  constructor
  · intro hm; exact mem_of_lookup (h k ▸ lookup_of_mem ha hm)
  · intro hm; exact mem_of_lookup ((h k).symm ▸ lookup_of_mem hb hm)

theorem mapEq_mergeInto {d x y : KV} (h : MapEq x y) : MapEq (mergeInto d x) (mergeInto d y) := by
  intro k; rw [lookup_mergeInto, lookup_mergeInto, h k]

/-- `GetAll()` under ANY permuting enumeration order: the returned reference is the handle the model registers, the heap is the
    model's except that the new object `c` is a permutation of (hence the same Go map as) the model's copy -/
theorem SharedStore_GetAll_anyorder_of_le (enum : KV → KV) (s : Store.St) (hwf : WF s) (hn : NodupKeys s.cur)
    (hp : (enum s.cur).Perm s.cur) (fuel : Nat) (hf : s.cur.length + 10 ≤ fuel) :
    ∃ c, runStore enum fuel SharedStore_GetAll [storeRef] s =
        some (encResp (step s .getAll).1 (step s .getAll).2, { s with maps := s.maps ++ [c] },
          [.lock .R, .deferUnlock .R, .read, .unlock .R]) ∧
      withHandles (step s .getAll).1 s = { s with maps := s.maps ++ [mergeInto [] s.cur] } ∧
      c.Perm (mergeInto [] s.cur) ∧ NodupKeys c ∧ MapEq c (mergeInto [] s.cur) := by
  have hp' : (enum s.cur).reverse.Perm s.cur := (List.reverse_perm _).trans hp
  have hn' := nodupKeys_perm hp' hn
  refine ⟨mergeInto [] (enum s.cur).reverse, ?_, rfl, ?_, nodupKeys_mergeInto _ nodupKeys_nil, mapEq_mergeInto (mapEq_of_perm hp' hn)⟩
  · rw [SharedStore_GetAll_general_of_le enum s hwf fuel (by rw [hp.length_eq]; exact hf)]
    simp [encResp, step]
  · rw [mergeInto_nil_self hn', mergeInto_nil_self hn]; exact hp'

/-- `Keys()` under ANY permuting enumeration order: the keys of the store, in some order -/
theorem SharedStore_Keys_anyorder_of_le (enum : KV → KV) (s : Store.St) (hwf : WF s) (hp : (enum s.cur).Perm s.cur)
    (fuel : Nat) (hf : s.cur.length + 11 ≤ fuel) :
    ∃ ks, runStore enum fuel SharedStore_Keys [storeRef] s =
        some (encResp (step s .keys).1 (step s .keys).2, { s with slices := s.slices ++ [ks] },
          [.lock .R, .deferUnlock .R, .read, .unlock .R]) ∧
      withHandles (step s .keys).1 s = { s with slices := s.slices ++ [keysOf s.cur] } ∧
      ks.Perm (keysOf s.cur) := by
  refine ⟨keysOf (enum s.cur), ?_, rfl, hp.map _⟩
  rw [SharedStore_Keys_general_of_le enum s hwf fuel (by rw [hp.length_eq]; exact hf)]
  simp [encResp, step]

/-- `Merge(m)` under ANY permuting enumeration order, for any live map object `m = .ref "map" r` listing no key twice: the store's
    map ends up with the content the model computes (`s.write s.data (mergeInto s.cur (s.deref r))` — `step s (.mergeSnap j)` when
    `r` is handle `j`), one traced write per entry -/
theorem SharedStore_Merge_anyorder_of_le (enum : KV → KV) (s : Store.St) (r : Nat) (hwf : WF s) (hr : r < s.maps.length)
    (hn : NodupKeys (s.deref r)) (hp : (enum (s.deref r)).Perm (s.deref r)) (fuel : Nat) (hf : (s.deref r).length + 9 ≤ fuel) :
    ∃ m, runStore enum fuel SharedStore_Merge [storeRef, .ref "map" r] s =
        some ([], s.write s.data m, [.lock .W, .deferUnlock .W] ++ List.replicate (s.deref r).length .write ++ [.unlock .W]) ∧
      MapEq m (mergeInto s.cur (s.deref r)) ∧
      (NodupKeys s.cur → NodupKeys m ∧ m.Perm (mergeInto s.cur (s.deref r))) := by
  have hp' : (enum (s.deref r)).reverse.Perm (s.deref r) := (List.reverse_perm _).trans hp
  have hme : MapEq (mergeInto s.cur (enum (s.deref r)).reverse) (mergeInto s.cur (s.deref r)) := mapEq_mergeInto (mapEq_of_perm hp' hn)
  refine ⟨mergeInto s.cur (enum (s.deref r)).reverse, ?_, hme, fun hc => ?_⟩
  · rw [SharedStore_Merge_general_of_le enum s r hwf hr fuel (by rw [hp.length_eq]; exact hf), hp.length_eq]
  · exact ⟨nodupKeys_mergeInto _ hc, perm_of_mapEq (nodupKeys_mergeInto _ hc) (nodupKeys_mergeInto _ hc) hme⟩

theorem mergeSnap_state (s : Store.St) (j r : Nat) (hj : s.snaps[j]? = some r) :
    step s (.mergeSnap j) = (s.write s.data (mergeInto s.cur (s.deref r)), .unit) := by
  simp [step, hj]

/-- `m := map[string]any{…}; Merge(m)` (the model's `mergeLit l`) is: the CALLER allocates the literal and keeps it as a handle,
    then `Merge` of that object — so `SharedStore_Merge_refines_of_le` covers it, in the state after the allocation -/
theorem mergeLit_as_mergeSnap (s : Store.St) (l : KV) :
    step s (.mergeLit l) =
      step { s with maps := s.maps ++ [mergeInto [] l], snaps := s.snaps ++ [s.maps.length] } (.mergeSnap s.snaps.length) := by
  simp [step]

end Flyt.Refine.Store
