import FlytModel.Refine.SourceBase
import FlytModel.Props.C07
/-!
# C07 (batch processes every item exactly once, with per-item retry and fallback) stated about the INTERPRETED SOURCE

Continue mode. Subjects with a refinement theorem:
* the whole node, `runBatch` — `runBatchIR fuel Expected.IR.runBatch …` (`runBatch_refines_of_le`): `every_item_once`;
* the sequential executor, `itemsSeq` — `itemsSeqIR fuel Expected.IR.runBatchSequential …` (`runBatchSequential_refines_of_le`; needs
  `hidx`, i.e. an item list without repeated items — see `Refine/SourceC06.lean`): `item_independent_of_others`,
  `item_processed_exactly_once`;
* one item, `runItem` — `runItemIR fuel Expected.IR.runExecWithRetries …` (`runExecWithRetries_refines_runItem_of_le`), compared with
  `Run` on a single node — `runLeafIR fuel Expected.IR.Run …` (`Run_refines_runLeaf_of_le`): `item_gets_single_node_treatment`,
  `item_retry_budget_and_fallback_exact`.
The layering of the worlds is as in `Refine/SourceC06.lean`: `runBatch`'s world takes the executors to be the model's, the executors'
worlds take `runExecWithRetries` to be the model's; each layer is tied to its own source by its own theorem.
-/
set_option autoImplicit false
namespace Flyt.Refine.Source
open Flyt Flyt.GoIR Flyt.Refine Flyt.BatchSeq

/-- **Every item exactly once, in order, each on its own.** In continue mode, when no callback cancels the context, the trace of the
    interpreted `runBatch` (any concurrency setting) is: prep, then for item 0, 1, 2, … exactly the events of that item's own processing
    from a live context — none skipped, none repeated — then one post carrying each item's own outcome in its slot.
    Mirrors `Props.C07.every_item_once` (`itemRuns_interpreted` of `Refine/SourceC06.lean` reads the entries of `itemRuns` as runs of
    the interpreted `runExecWithRetries`). -/
theorem C07_every_item_once_for_interpreted_source (kind : CtxKind) (n : NodeId) (v : Nat) (sid : StoreId) (cfg : BatchCfg)
    (scr : BatchScript) (l : List Val) (hs : cfg.stop = false) (hq : ∀ j, Quiet (scr.item j)) (hp : scr.prep.res = .ok l)
    (hpc : scr.prep.cancels = false) (hpost : cfg.hasPost = true) (fuel : Nat) (hf : batchFuel scr ≤ fuel) :
    ∃ evs ctx' out, runBatchIR fuel Flyt.Expected.IR.runBatch kind n v sid cfg scr .live = some (evs, ctx', out) ∧
      evs = .bprep n v sid :: (itemRuns kind n v cfg scr (normItems cfg.shape l) 0).flatMap (·.1) ++
        [.bpost n v sid ((normItems cfg.shape l).map Result.box)
          (((itemRuns kind n v cfg scr (normItems cfg.shape l) 0).map (fun r => slotOfRes r.2.2)).map Result.box)] ∧
      ∀ j, (itemRuns kind n v cfg scr (normItems cfg.shape l) 0)[j]? =
        (normItems cfg.shape l)[j]?.map fun it => runItem kind n v cfg j it (scr.item j) .live :=
  batch_transfer kind n v sid cfg scr .live fuel hf
    (fun evs _ _ => evs = .bprep n v sid :: (itemRuns kind n v cfg scr (normItems cfg.shape l) 0).flatMap (·.1) ++
        [.bpost n v sid ((normItems cfg.shape l).map Result.box)
          (((itemRuns kind n v cfg scr (normItems cfg.shape l) 0).map (fun r => slotOfRes r.2.2)).map Result.box)] ∧
      ∀ j, (itemRuns kind n v cfg scr (normItems cfg.shape l) 0)[j]? =
        (normItems cfg.shape l)[j]?.map fun it => runItem kind n v cfg j it (scr.item j) .live)
    (Props.C07.every_item_once kind n v sid cfg scr l hs hq hp hpc hpost)

/-- **A failing item never prevents, repeats or alters another item's processing.** Two scripts that agree on item `j` (and differ
    arbitrarily on all other items) give item `j` exactly the same events and the same slot in the interpreted `runBatchSequential`.
    Mirrors `Props.C07.item_independent_of_others`. -/
theorem C07_item_independent_of_others_for_interpreted_source (kind : CtxKind) (n : NodeId) (v : Nat) (cfg : BatchCfg)
    (scr scr' : BatchScript) (hs : cfg.stop = false) (hq : ∀ j, Quiet (scr.item j)) (hq' : ∀ j, Quiet (scr'.item j))
    (items : List Result) (j : Nat) (hj : scr.item j = scr'.item j)
    (idxOf : Result → Nat) (hidx : ∀ i (h : i < items.length), idxOf items[i] = i) (fuel : Nat) (hf : items.length + 23 ≤ fuel) :
    ∃ evs ctx₁ slots evs' ctx₂ slots',
      itemsSeqIR fuel Flyt.Expected.IR.runBatchSequential kind n v cfg scr idxOf items .live = some (evs, ctx₁, slots) ∧
      itemsSeqIR fuel Flyt.Expected.IR.runBatchSequential kind n v cfg scr' idxOf items .live = some (evs', ctx₂, slots') ∧
      itemEvents j evs = itemEvents j evs' ∧ slots[j]? = slots'[j]? :=
  ⟨_, _, _, _, _, _, runBatchSequential_refines_of_le kind n v cfg scr idxOf items .live hidx fuel hf,
    runBatchSequential_refines_of_le kind n v cfg scr' idxOf items .live hidx fuel hf,
    Props.C07.item_independent_of_others kind n v cfg scr scr' hs hq hq' items j hj⟩

/-- the events of item `j` in the interpreted `runBatchSequential` are exactly one run of the interpreted `runExecWithRetries` on item
    `j` with its own script — it is processed exactly once — and slot `j` is its outcome.
    Mirrors `Props.C07.item_processed_exactly_once`, both sides interpreted. -/
theorem C07_item_processed_exactly_once_for_interpreted_source (kind : CtxKind) (n : NodeId) (v : Nat) (cfg : BatchCfg)
    (scr : BatchScript) (hs : cfg.stop = false) (hq : ∀ j, Quiet (scr.item j)) (items : List Result) (j : Nat) (hj : j < items.length)
    (idxOf : Result → Nat) (hidx : ∀ i (h : i < items.length), idxOf items[i] = i) (fuel : Nat) (hf : items.length + 23 ≤ fuel)
    (ifuel : Nat) (hif : itemFuel cfg ≤ ifuel) :
    ∃ evs ctx' slots ievs ictx ires,
      itemsSeqIR fuel Flyt.Expected.IR.runBatchSequential kind n v cfg scr idxOf items .live = some (evs, ctx', slots) ∧
      runItemIR ifuel Flyt.Expected.IR.runExecWithRetries kind n v cfg j items[j] (scr.item j) .live = some (ievs, ictx, ires) ∧
      itemEvents j evs = ievs ∧ slots[j]? = some (slotOfRes ires) := by
  obtain ⟨h1, h2⟩ := Props.C07.item_processed_exactly_once kind n v cfg scr hs hq items j hj
  exact ⟨_, _, _, _, _, _, runBatchSequential_refines_of_le kind n v cfg scr idxOf items .live hidx fuel hf,
    runExecWithRetries_refines_runItem_of_le kind n v cfg j items[j] (scr.item j) .live ifuel hif, h1, h2⟩

/-- **Each item individually gets the retry budget and fallback treatment of a single node run**: the interpreted `Run` on a retryable
    node with the same budget, wait, fallback and exec function (`leafOf cfg`, `leafScriptOf s`) and the interpreted
    `runExecWithRetries` on the item end with the same context, record the same number of callback events, and the node run fails with
    the same error / succeeds exactly when the item's processing does. Mirrors `Props.C07.item_gets_single_node_treatment`: the two
    DUPLICATED loops in the source (flyt.go `Run`, batch.go `runExecWithRetries`), both interpreted. -/
theorem C07_item_gets_single_node_treatment_for_interpreted_source (kind : CtxKind) (n : NodeId) (v : Nat) (cfg : BatchCfg) (i : Nat)
    (item : Result) (s : ItemScript) (sid : StoreId) (fuel : Nat) (hf : runFuel (leafOf cfg) ≤ fuel)
    (ifuel : Nat) (hif : itemFuel cfg ≤ ifuel) :
    ∃ evs ctx' out ievs ictx ires,
      runLeafIR fuel Flyt.Expected.IR.Run kind n v sid (leafOf cfg) (leafScriptOf s) .live = some (evs, ctx', out) ∧
      runItemIR ifuel Flyt.Expected.IR.runExecWithRetries kind n v cfg i item s .live = some (ievs, ictx, ires) ∧
      ctx' = ictx ∧ evs.length = ievs.length ∧
      out = (match ires with | .slot _ => .ok defaultAction | .error e => .err e) := by
  obtain ⟨h1, h2, h3⟩ := Props.C07.item_gets_single_node_treatment kind n v cfg i item s sid
  exact ⟨_, _, _, _, _, _, Run_refines_runLeaf_of_le kind n v sid (leafOf cfg) (leafScriptOf s) .live fuel hf,
    runExecWithRetries_refines_runItem_of_le kind n v cfg i item s .live ifuel hif, h1, h2, h3⟩

/-- **Per-item retry budget and fallback are exact, and the slot is the last attempt's error or the fallback's outcome.** The interpreted
    `runExecWithRetries` on item `i` (no cancellation) makes exactly the attempts `0 .. lastAttempt` — up to and including the first
    success, or the whole budget — each once, calls the fallback exactly when all attempts failed and a custom fallback exists, and yields
    `finalSlot` (`Bridge.obsOf` turns `bexec i k` into `start i k, done i k` and `bfb i` into `fb i`).
    Mirrors `Props.C07.item_retry_budget_and_fallback_exact`. -/
theorem C07_item_retry_budget_and_fallback_exact_for_interpreted_source (kind : CtxKind) (n : NodeId) (v : Nat) (cfg : BatchCfg)
    (scr : BatchScript) (i nn : Nat) (item : Result) (hq : Quiet (scr.item i)) (hex : cfg.execS ≠ .absent) (hb : 0 < cfg.budget)
    (fuel : Nat) (hf : itemFuel cfg ≤ fuel) :
    ∃ evs ctx' res, runItemIR fuel Flyt.Expected.IR.runExecWithRetries kind n v cfg i item (scr.item i) .live = some (evs, ctx', res) ∧
      Spec.itemStarts (evs.flatMap Bridge.obsOf) i = List.range (Spec.lastAttempt (Bridge.concCfgOf kind cfg scr nn) i + 1) ∧
      Spec.itemDones (evs.flatMap Bridge.obsOf) i = List.range (Spec.lastAttempt (Bridge.concCfgOf kind cfg scr nn) i + 1) ∧
      Spec.itemFbs (evs.flatMap Bridge.obsOf) i = Conc.finalFbs (Bridge.concCfgOf kind cfg scr nn) i ∧
      slotOfRes res = Conc.finalSlot (Bridge.concCfgOf kind cfg scr nn) i :=
  item_transfer kind n v cfg i item (scr.item i) .live fuel hf
    (fun evs _ res =>
      Spec.itemStarts (evs.flatMap Bridge.obsOf) i = List.range (Spec.lastAttempt (Bridge.concCfgOf kind cfg scr nn) i + 1) ∧
      Spec.itemDones (evs.flatMap Bridge.obsOf) i = List.range (Spec.lastAttempt (Bridge.concCfgOf kind cfg scr nn) i + 1) ∧
      Spec.itemFbs (evs.flatMap Bridge.obsOf) i = Conc.finalFbs (Bridge.concCfgOf kind cfg scr nn) i ∧
      slotOfRes res = Conc.finalSlot (Bridge.concCfgOf kind cfg scr nn) i)
    (Props.C07.item_retry_budget_and_fallback_exact kind n v cfg scr i nn item hq hex hb)

/-!
## Carried over / not carried over

Carried over: `every_item_once` (subject `runBatch`), `item_independent_of_others`, `item_processed_exactly_once` (subject `itemsSeq`;
extra hypothesis `hidx`: item lists without repeated items), `item_gets_single_node_treatment` (subjects `runLeaf` AND `runItem`),
`item_retry_budget_and_fallback_exact` (subject `runItem`).

Not carried over:
* `stop_flag_untouched`, `item_follows_own_script`, `item_trace_independent`, `none_skipped_none_duplicated`, `spec_c07_holds` — subject
  is the LTS `Flyt.Conc` (every schedule of the worker pool); no refinement theorem for general schedules;
* `spec_c07_holds_seq` — bridge to the driver's executable predicate `Spec.c07`.
-/

end Flyt.Refine.Source
