import FlytModel.GoIR.ValueWorld
import FlytModel.Refine.RunNode
/-!
# Refinement: the translated Go source of the typed accessors (`Result.AsX / AsXOr / MustX`, `SharedStore.GetX / GetXOr`,
`Flyt.Expected.IR`), run by the definitional interpreter of `GoIR/Interp.lean` in `valueWorld` (`GoIR/ValueWorld.lean`),
computes exactly the accessors of `Model/Value.lean` — for every conversion parameter `c : Conv`, every value `v : GoVal`
(no well-formedness hypothesis), every default.

Every statement is proved at the recursion depth `f + 40` for an arbitrary `f` (theorems `…_core`); the statements at the
constant `F = 60` of the executable test (`GoIR/ValueTest.lean`) and at every `fuel ≥ 40` are instances.

The proofs walk the program with the per-constructor unfolding lemmas of `Refine/Run.lean` (`gosimp`), keep the world folded
behind its projections (`W_*`), and split the value only as far as the model's own pattern matching does: constructor of
`GoVal`, then constructor of the dynamic type, then the predeclared type.
-/
namespace Flyt.Refine.Acc
open Flyt Flyt.GoIR Flyt.Value Flyt.GoIR.ValueW Flyt.Expected.IR Flyt.Refine

/-- the recursion depth of the executable test -/
def F : Nat := 60

section steps
variable {Ω : Type} (W : World Ω)
theorem expr_not (f : Nat) (a : Expr) (st : St Ω) :
    evalExpr W (f + 1) (.un "!" a) st =
      match evalExpr W f a st with
      | some ([.bool p], st1) => some ([.bool !p], st1)
      | _ => none := rfl
theorem expr_conv (f : Nat) (ty : String) (a : Expr) (st : St Ω) :
    evalExpr W (f + 1) (.conv ty a) st =
      match evalExpr W f a st with
      | some ([x], st1) =>
        (match W.call ("conv:" ++ ty) [x] st1.heap st1.w with
         | some (rs, h, w) => some (rs, { st1 with heap := h, w := w })
         | none => none)
      | _ => none := rfl
theorem stmt_typeSwitch (f : Nat) (bind : String) (x : Expr) (cases : Cases) (st : St Ω) :
    execStmt W (f + 1) (.typeSwitch bind x cases) st =
      match evalExpr W f x st with
      | some ([v], st1) => switchCases W f bind v cases st1
      | _ => none := rfl
theorem switch_case (f : Nat) (bind : String) (v : GV) (l ty : String) (body : Block) (rest : Cases) (st : St Ω) :
    switchCases W (f + 1) bind v (.cons (.lit l (.cons (.var ty) .nil)) body rest) st =
      (match W.assert v ty st.w with
       | some (v', true) =>
         (execBlock W f body { st with env := st.env.push bind v' }).map fun (c, st2) => (c, popSt st2 st.env.length)
       | some (_, false) => switchCases W f bind v rest st
       | none => none) := rfl
theorem switch_default (f : Nat) (bind : String) (v : GV) (d : String) (body : Block) (st : St Ω) :
    switchCases W (f + 1) bind v (.cons (.var d) body .nil) st =
      (execBlock W f body { st with env := st.env.push bind v }).map fun (c, st2) => (c, popSt st2 st.env.length) := rfl
theorem stmt_expr_call (f : Nat) (fn : String) (args : Exprs) (st : St Ω) :
    execStmt W (f + 1) (.expr (.call fn args)) st = (evalExpr W f (.call fn args) st).map fun (_, st1) => (.next, st1) := rfl
end steps



section world
variable (c : Conv) (v : GoVal) (st : Store1)
local notation "W" => valueWorld c v st
theorem W_field (n : Nat) (w : Unit) : (W).field (.ref "r" n) "value" w = some (encV v) := rfl
theorem W_assert_go (n : Nat) (ty : String) (w : Unit) : (W).assert (.ref "go" n) ty w = assertV v ty := rfl
theorem W_assert_nil (ty : String) (w : Unit) : (W).assert .nil ty w = assertV .nil ty := rfl
theorem W_conv_int_go (n : Nat) (h : Heap) (w : Unit) : (W).call "conv:int" [.ref "go" n] h w =
      (match v with
       | .int _ n => some ([.int (wrap64 n)], h, w)
       | .float (.basic .float32) b => some ([encI (c.f2i true b)], h, w)
       | .float (.basic .float64) b => some ([encI (c.f2i false b)], h, w)
       | _ => none) := rfl
theorem W_conv_f64_go (n : Nat) (h : Heap) (w : Unit) : (W).call "conv:float64" [.ref "go" n] h w =
      (match v with
       | .int _ n => some ([encF (c.i2f n)], h, w)
       | .float (.basic .float32) b => some ([encF (c.f32to64 b)], h, w)
       | _ => none) := rfl
theorem W_conv_int_f64 (b : Nat) (h : Heap) (w : Unit) :
    (W).call "conv:int" [encF b] h w = some ([encI (c.f2i false b)], h, w) := rfl
theorem W_conv_int_int (n : Int) (h : Heap) (w : Unit) : (W).call "conv:int" [.int n] h w = some ([.int n], h, w) := rfl
theorem W_conv_f64_int (n : Int) (h : Heap) (w : Unit) :
    (W).call "conv:float64" [.int n] h w = some ([encF (c.i2f n)], h, w) := rfl
theorem W_floatlit (s : String) (h : Heap) (w : Unit) : (W).call "float.lit" [.str s] h w = some ([encF 0], h, w) := rfl
theorem W_sprintf (l : List GV) (h : Heap) (w : Unit) : (W).call "fmt.Sprintf" l h w = some ([.str ""], h, w) := by
  simp [valueWorld]
theorem W_panic (l : List GV) (h : Heap) (w : Unit) : (W).call "panic" l h w = none := by
  simp [valueWorld]
theorem W_AsString (n : Nat) (l : List GV) (h : Heap) (w : Unit) :
    (W).mcall (.ref "r" n) "AsString" l h w = some ([.str (asString v).1, .bool (asString v).2], h, w) := by
  simp [valueWorld]
theorem W_AsInt (n : Nat) (l : List GV) (h : Heap) (w : Unit) :
    (W).mcall (.ref "r" n) "AsInt" l h w = some ([encI (asInt c v).1, .bool (asInt c v).2], h, w) := by
  simp [valueWorld]
theorem W_AsFloat64 (n : Nat) (l : List GV) (h : Heap) (w : Unit) :
    (W).mcall (.ref "r" n) "AsFloat64" l h w = some ([encF (asFloat64 c v).1, .bool (asFloat64 c v).2], h, w) := by
  simp [valueWorld]
theorem W_AsBool (n : Nat) (l : List GV) (h : Heap) (w : Unit) :
    (W).mcall (.ref "r" n) "AsBool" l h w = some ([.bool (asBool v).1, .bool (asBool v).2], h, w) := by
  simp [valueWorld]
theorem W_AsMap (n : Nat) (l : List GV) (h : Heap) (w : Unit) :
    (W).mcall (.ref "r" n) "AsMap" l h w = some ([encM (asMap v).1, .bool (asMap v).2], h, w) := by
  simp [valueWorld]
theorem W_Get (n : Nat) (l : List GV) (h : Heap) (w : Unit) :
    (W).mcall (.ref "s" n) "Get" l h w =
      (match st.held with
       | some x => some ([encV x, .bool true], h, w)
       | none => some ([.nil, .bool false], h, w)) := by
  rcases st with ⟨_ | x⟩ <;> simp [valueWorld]
theorem W_GetIntOr (n : Nat) (k : GV) (d : Int) (h : Heap) (w : Unit) :
    (W).mcall (.ref "s" n) "GetIntOr" [k, .int d] h w = some ([encI (getIntOr c (storeOf st.held) "k" (some d))], h, w) := by
  simp [valueWorld]
theorem W_GetFloat64Or (n : Nat) (k : GV) (d : Nat) (h : Heap) (w : Unit) :
    (W).mcall (.ref "s" n) "GetFloat64Or" [k, encF d] h w = some ([encF (getFloat64Or c (storeOf st.held) "k" d)], h, w) := by
  simp [valueWorld, encF]
theorem W_GetBoolOr (n : Nat) (k : GV) (d : Bool) (h : Heap) (w : Unit) :
    (W).mcall (.ref "s" n) "GetBoolOr" [k, .bool d] h w = some ([.bool (getBoolOr (storeOf st.held) "k" d)], h, w) := by
  simp [valueWorld]
theorem W_GetMapOr (n : Nat) (k : GV) (h : Heap) (w : Unit) :
    (W).mcall (.ref "s" n) "GetMapOr" [k, .nil] h w = some ([encM (getMapOr (storeOf st.held) "k" none)], h, w) := by
  simp [valueWorld]
end world

theorem encM_none : encM none = .nil := rfl
theorem lookup_k (x : GoVal) : Store.get (storeOf (some x)) "k" = some x := by
  simp [Store.get, storeOf]
theorem lookup_none : Store.get (storeOf none) "k" = none := rfl

macro "accsimp" " [" ts:Lean.Parser.Tactic.simpLemma,* "]" : tactic =>
  `(tactic| gosimp [expr_sel, expr_not, expr_conv, stmt_typeSwitch, switch_case, switch_default, stmt_expr_call,
      runResultAcc, runStoreAcc, callFunc, W_field, W_assert_go, W_assert_nil, W_conv_int_go, W_conv_f64_go, W_conv_int_f64,
      W_conv_int_int, W_conv_f64_int, W_floatlit, W_sprintf, W_panic, W_AsString, W_AsInt, W_AsFloat64, W_AsBool, W_AsMap,
      W_Get, W_GetIntOr, W_GetFloat64Or, W_GetBoolOr, W_GetMapOr, encM_none, lookup_k, lookup_none,
      rH, goH, sH, encV, assertV, $ts,*])

/-- case analysis on the value, down to the predeclared type where the first attempt does not decide -/
macro "accauto" v:ident " [" ts:Lean.Parser.Tactic.simpLemma,* "]" : tactic =>
  `(tactic| (cases $v:ident <;> first
      | (accsimp [$ts,*]; done)
      | (rename_i t _; cases t <;> first
          | (accsimp [$ts,*]; done)
          | (rename_i b; cases b <;> accsimp [$ts,*]))))

/-! ## `Result.AsX` -/

theorem AsString_core (f : Nat) (c : Conv) (v : GoVal) :
    runResultAcc (f + 40) Result_AsString c v [] = some [.str (asString v).1, .bool (asString v).2] := by
  accauto v [Result_AsString, asString]

theorem AsInt_core (f : Nat) (c : Conv) (v : GoVal) :
    runResultAcc (f + 40) Result_AsInt c v [] = some [encI (asInt c v).1, .bool (asInt c v).2] := by
  accauto v [Result_AsInt, asInt, encI]

theorem AsFloat64_core (f : Nat) (c : Conv) (v : GoVal) :
    runResultAcc (f + 40) Result_AsFloat64 c v [] = some [encF (asFloat64 c v).1, .bool (asFloat64 c v).2] := by
  accauto v [Result_AsFloat64, asFloat64]

theorem AsBool_core (f : Nat) (c : Conv) (v : GoVal) :
    runResultAcc (f + 40) Result_AsBool c v [] = some [.bool (asBool v).1, .bool (asBool v).2] := by
  accauto v [Result_AsBool, asBool]

theorem AsMap_core (f : Nat) (c : Conv) (v : GoVal) :
    runResultAcc (f + 40) Result_AsMap c v [] = some [encM (asMap v).1, .bool (asMap v).2] := by
  cases v with
  | map t id => by_cases h : t = tMapSA <;> accsimp [Result_AsMap, asMap, h]
  | _ => accsimp [Result_AsMap, asMap]

/-! ## `Result.AsXOr` -/

theorem AsStringOr_core (f : Nat) (c : Conv) (v : GoVal) (d : String) :
    runResultAcc (f + 40) Result_AsStringOr c v [.str d] = some [.str (asStringOr v d)] := by
  cases h : asString v with
  | mk s ok => cases ok <;> accsimp [Result_AsStringOr, asStringOr, h]

theorem AsIntOr_core (f : Nat) (c : Conv) (v : GoVal) (d : Int) :
    runResultAcc (f + 40) Result_AsIntOr c v [.int d] = some [encI (asIntOr c v (some d))] := by
  cases h : asInt c v with
  | mk s ok => cases ok <;> accsimp [Result_AsIntOr, asIntOr, h, encI]

theorem AsFloat64Or_core (f : Nat) (c : Conv) (v : GoVal) (d : Nat) :
    runResultAcc (f + 40) Result_AsFloat64Or c v [encF d] = some [encF (asFloat64Or c v d)] := by
  cases h : asFloat64 c v with
  | mk s ok => cases ok <;> accsimp [Result_AsFloat64Or, asFloat64Or, h]

theorem AsBoolOr_core (f : Nat) (c : Conv) (v : GoVal) (d : Bool) :
    runResultAcc (f + 40) Result_AsBoolOr c v [.bool d] = some [.bool (asBoolOr v d)] := by
  cases h : asBool v with
  | mk s ok => cases ok <;> accsimp [Result_AsBoolOr, asBoolOr, h]

theorem AsMapOr_core (f : Nat) (c : Conv) (v : GoVal) (d : MapV) :
    runResultAcc (f + 40) Result_AsMapOr c v [encM d] = some [encM (asMapOr v d)] := by
  cases h : asMap v with
  | mk s ok => cases ok <;> accsimp [Result_AsMapOr, asMapOr, h]

/-! ## `Result.MustX` (`panic` is stuck: `none`) -/

theorem MustString_core (f : Nat) (c : Conv) (v : GoVal) :
    runResultAcc (f + 40) Result_MustString c v [] = (match mustString v with | .panic => none | .ok s => some [.str s]) := by
  cases h : asString v with
  | mk s ok => cases ok <;> accsimp [Result_MustString, mustString, h]

theorem MustInt_core (f : Nat) (c : Conv) (v : GoVal) :
    runResultAcc (f + 40) Result_MustInt c v [] = (match mustInt c v with | .panic => none | .ok s => some [encI s]) := by
  cases h : asInt c v with
  | mk s ok => cases ok <;> accsimp [Result_MustInt, mustInt, h]

theorem MustFloat64_core (f : Nat) (c : Conv) (v : GoVal) :
    runResultAcc (f + 40) Result_MustFloat64 c v [] = (match mustFloat64 c v with | .panic => none | .ok s => some [encF s]) := by
  cases h : asFloat64 c v with
  | mk s ok => cases ok <;> accsimp [Result_MustFloat64, mustFloat64, h]

theorem MustBool_core (f : Nat) (c : Conv) (v : GoVal) :
    runResultAcc (f + 40) Result_MustBool c v [] = (match mustBool v with | .panic => none | .ok s => some [.bool s]) := by
  cases h : asBool v with
  | mk s ok => cases ok <;> accsimp [Result_MustBool, mustBool, h]

theorem MustMap_core (f : Nat) (c : Conv) (v : GoVal) :
    runResultAcc (f + 40) Result_MustMap c v [] = (match mustMap v with | .panic => none | .ok s => some [encM s]) := by
  cases h : asMap v with
  | mk s ok => cases ok <;> accsimp [Result_MustMap, mustMap, h]

/-! ## `SharedStore.GetX / GetXOr` -/

/-- the same case analysis for the value a store holds (`none`: the key is absent) -/
macro "storeauto" held:ident " [" ts:Lean.Parser.Tactic.simpLemma,* "]" : tactic =>
  `(tactic| (cases $held:ident with
      | none => accsimp [$ts,*]
      | some x => accauto x [$ts,*]))

theorem GetString_core (f : Nat) (c : Conv) (held : Option GoVal) :
    runStoreAcc (f + 40) SharedStore_GetString c held [] = some [.str (getString (storeOf held) "k")] := by
  storeauto held [SharedStore_GetString, getString]

theorem GetStringOr_core (f : Nat) (c : Conv) (held : Option GoVal) (d : String) :
    runStoreAcc (f + 40) SharedStore_GetStringOr c held [.str d] = some [.str (getStringOr (storeOf held) "k" d)] := by
  storeauto held [SharedStore_GetStringOr, getStringOr]

theorem GetIntOr_core (f : Nat) (c : Conv) (held : Option GoVal) (d : Int) :
    runStoreAcc (f + 40) SharedStore_GetIntOr c held [.int d] = some [encI (getIntOr c (storeOf held) "k" (some d))] := by
  storeauto held [SharedStore_GetIntOr, getIntOr, encI]

theorem GetInt_core (f : Nat) (c : Conv) (held : Option GoVal) :
    runStoreAcc (f + 40) SharedStore_GetInt c held [] = some [encI (getInt c (storeOf held) "k")] := by
  accsimp [SharedStore_GetInt, getInt]

theorem GetFloat64Or_core (f : Nat) (c : Conv) (held : Option GoVal) (d : Nat) :
    runStoreAcc (f + 40) SharedStore_GetFloat64Or c held [encF d] = some [encF (getFloat64Or c (storeOf held) "k" d)] := by
  storeauto held [SharedStore_GetFloat64Or, getFloat64Or]

theorem GetFloat64_core (f : Nat) (c : Conv) (held : Option GoVal) :
    runStoreAcc (f + 40) SharedStore_GetFloat64 c held [] = some [encF (getFloat64 c (storeOf held) "k")] := by
  accsimp [SharedStore_GetFloat64, getFloat64]

theorem GetBoolOr_core (f : Nat) (c : Conv) (held : Option GoVal) (d : Bool) :
    runStoreAcc (f + 40) SharedStore_GetBoolOr c held [.bool d] = some [.bool (getBoolOr (storeOf held) "k" d)] := by
  storeauto held [SharedStore_GetBoolOr, getBoolOr]

theorem GetBool_core (f : Nat) (c : Conv) (held : Option GoVal) :
    runStoreAcc (f + 40) SharedStore_GetBool c held [] = some [.bool (getBool (storeOf held) "k")] := by
  accsimp [SharedStore_GetBool, getBool]

theorem GetMapOr_core (f : Nat) (c : Conv) (held : Option GoVal) (d : MapV) :
    runStoreAcc (f + 40) SharedStore_GetMapOr c held [encM d] = some [encM (getMapOr (storeOf held) "k" d)] := by
  cases held with
  | none => accsimp [SharedStore_GetMapOr, getMapOr]
  | some x =>
    cases x with
    | map t id => by_cases h : t = tMapSA <;> accsimp [SharedStore_GetMapOr, getMapOr, h]
    | _ => accsimp [SharedStore_GetMapOr, getMapOr]

theorem GetMap_core (f : Nat) (c : Conv) (held : Option GoVal) :
    runStoreAcc (f + 40) SharedStore_GetMap c held [] = some [encM (getMap (storeOf held) "k")] := by
  accsimp [SharedStore_GetMap, getMap]

/-! ## The statements at every recursion depth `fuel ≥ 40` (`…_of_le`) and at the depth `F = 60` of the executable test -/

theorem exists_add_40 {fuel : Nat} (h : 40 ≤ fuel) : ∃ k, fuel = k + 40 := ⟨fuel - 40, by omega⟩

theorem Result_AsString_refines_of_le (c : Conv) (v : GoVal) (fuel : Nat) (h : 40 ≤ fuel) :
    runResultAcc fuel Result_AsString c v [] = some [.str (asString v).1, .bool (asString v).2] := by
  obtain ⟨k, rfl⟩ := exists_add_40 h
  exact AsString_core k c v
theorem Result_AsString_refines (c : Conv) (v : GoVal) :
    runResultAcc F Result_AsString c v [] = some [.str (asString v).1, .bool (asString v).2] :=
  AsString_core 20 c v

theorem Result_AsInt_refines_of_le (c : Conv) (v : GoVal) (fuel : Nat) (h : 40 ≤ fuel) :
    runResultAcc fuel Result_AsInt c v [] = some [encI (asInt c v).1, .bool (asInt c v).2] := by
  obtain ⟨k, rfl⟩ := exists_add_40 h
  exact AsInt_core k c v
theorem Result_AsInt_refines (c : Conv) (v : GoVal) :
    runResultAcc F Result_AsInt c v [] = some [encI (asInt c v).1, .bool (asInt c v).2] :=
  AsInt_core 20 c v

theorem Result_AsFloat64_refines_of_le (c : Conv) (v : GoVal) (fuel : Nat) (h : 40 ≤ fuel) :
    runResultAcc fuel Result_AsFloat64 c v [] = some [encF (asFloat64 c v).1, .bool (asFloat64 c v).2] := by
  obtain ⟨k, rfl⟩ := exists_add_40 h
  exact AsFloat64_core k c v
theorem Result_AsFloat64_refines (c : Conv) (v : GoVal) :
    runResultAcc F Result_AsFloat64 c v [] = some [encF (asFloat64 c v).1, .bool (asFloat64 c v).2] :=
  AsFloat64_core 20 c v

theorem Result_AsBool_refines_of_le (c : Conv) (v : GoVal) (fuel : Nat) (h : 40 ≤ fuel) :
    runResultAcc fuel Result_AsBool c v [] = some [.bool (asBool v).1, .bool (asBool v).2] := by
  obtain ⟨k, rfl⟩ := exists_add_40 h
  exact AsBool_core k c v
theorem Result_AsBool_refines (c : Conv) (v : GoVal) :
    runResultAcc F Result_AsBool c v [] = some [.bool (asBool v).1, .bool (asBool v).2] :=
  AsBool_core 20 c v

theorem Result_AsMap_refines_of_le (c : Conv) (v : GoVal) (fuel : Nat) (h : 40 ≤ fuel) :
    runResultAcc fuel Result_AsMap c v [] = some [encM (asMap v).1, .bool (asMap v).2] := by
  obtain ⟨k, rfl⟩ := exists_add_40 h
  exact AsMap_core k c v
theorem Result_AsMap_refines (c : Conv) (v : GoVal) :
    runResultAcc F Result_AsMap c v [] = some [encM (asMap v).1, .bool (asMap v).2] :=
  AsMap_core 20 c v

theorem Result_AsStringOr_refines_of_le (c : Conv) (v : GoVal) (d : String) (fuel : Nat) (h : 40 ≤ fuel) :
    runResultAcc fuel Result_AsStringOr c v [.str d] = some [.str (asStringOr v d)] := by
  obtain ⟨k, rfl⟩ := exists_add_40 h
  exact AsStringOr_core k c v d
theorem Result_AsStringOr_refines (c : Conv) (v : GoVal) (d : String) :
    runResultAcc F Result_AsStringOr c v [.str d] = some [.str (asStringOr v d)] :=
  AsStringOr_core 20 c v d

theorem Result_AsIntOr_refines_of_le (c : Conv) (v : GoVal) (d : Int) (fuel : Nat) (h : 40 ≤ fuel) :
    runResultAcc fuel Result_AsIntOr c v [.int d] = some [encI (asIntOr c v (some d))] := by
  obtain ⟨k, rfl⟩ := exists_add_40 h
  exact AsIntOr_core k c v d
theorem Result_AsIntOr_refines (c : Conv) (v : GoVal) (d : Int) :
    runResultAcc F Result_AsIntOr c v [.int d] = some [encI (asIntOr c v (some d))] :=
  AsIntOr_core 20 c v d

theorem Result_AsFloat64Or_refines_of_le (c : Conv) (v : GoVal) (d : Nat) (fuel : Nat) (h : 40 ≤ fuel) :
    runResultAcc fuel Result_AsFloat64Or c v [encF d] = some [encF (asFloat64Or c v d)] := by
  obtain ⟨k, rfl⟩ := exists_add_40 h
  exact AsFloat64Or_core k c v d
theorem Result_AsFloat64Or_refines (c : Conv) (v : GoVal) (d : Nat) :
    runResultAcc F Result_AsFloat64Or c v [encF d] = some [encF (asFloat64Or c v d)] :=
  AsFloat64Or_core 20 c v d

theorem Result_AsBoolOr_refines_of_le (c : Conv) (v : GoVal) (d : Bool) (fuel : Nat) (h : 40 ≤ fuel) :
    runResultAcc fuel Result_AsBoolOr c v [.bool d] = some [.bool (asBoolOr v d)] := by
  obtain ⟨k, rfl⟩ := exists_add_40 h
  exact AsBoolOr_core k c v d
theorem Result_AsBoolOr_refines (c : Conv) (v : GoVal) (d : Bool) :
    runResultAcc F Result_AsBoolOr c v [.bool d] = some [.bool (asBoolOr v d)] :=
  AsBoolOr_core 20 c v d

theorem Result_AsMapOr_refines_of_le (c : Conv) (v : GoVal) (d : MapV) (fuel : Nat) (h : 40 ≤ fuel) :
    runResultAcc fuel Result_AsMapOr c v [encM d] = some [encM (asMapOr v d)] := by
  obtain ⟨k, rfl⟩ := exists_add_40 h
  exact AsMapOr_core k c v d
theorem Result_AsMapOr_refines (c : Conv) (v : GoVal) (d : MapV) :
    runResultAcc F Result_AsMapOr c v [encM d] = some [encM (asMapOr v d)] :=
  AsMapOr_core 20 c v d

theorem Result_MustString_refines_of_le (c : Conv) (v : GoVal) (fuel : Nat) (h : 40 ≤ fuel) :
    runResultAcc fuel Result_MustString c v [] = (match mustString v with | .panic => none | .ok s => some [.str s]) := by
  obtain ⟨k, rfl⟩ := exists_add_40 h
  exact MustString_core k c v
theorem Result_MustString_refines (c : Conv) (v : GoVal) :
    runResultAcc F Result_MustString c v [] = (match mustString v with | .panic => none | .ok s => some [.str s]) :=
  MustString_core 20 c v

theorem Result_MustInt_refines_of_le (c : Conv) (v : GoVal) (fuel : Nat) (h : 40 ≤ fuel) :
    runResultAcc fuel Result_MustInt c v [] = (match mustInt c v with | .panic => none | .ok s => some [encI s]) := by
  obtain ⟨k, rfl⟩ := exists_add_40 h
  exact MustInt_core k c v
theorem Result_MustInt_refines (c : Conv) (v : GoVal) :
    runResultAcc F Result_MustInt c v [] = (match mustInt c v with | .panic => none | .ok s => some [encI s]) :=
  MustInt_core 20 c v

theorem Result_MustFloat64_refines_of_le (c : Conv) (v : GoVal) (fuel : Nat) (h : 40 ≤ fuel) :
    runResultAcc fuel Result_MustFloat64 c v [] = (match mustFloat64 c v with | .panic => none | .ok s => some [encF s]) := by
  obtain ⟨k, rfl⟩ := exists_add_40 h
  exact MustFloat64_core k c v
theorem Result_MustFloat64_refines (c : Conv) (v : GoVal) :
    runResultAcc F Result_MustFloat64 c v [] = (match mustFloat64 c v with | .panic => none | .ok s => some [encF s]) :=
  MustFloat64_core 20 c v

theorem Result_MustBool_refines_of_le (c : Conv) (v : GoVal) (fuel : Nat) (h : 40 ≤ fuel) :
    runResultAcc fuel Result_MustBool c v [] = (match mustBool v with | .panic => none | .ok s => some [.bool s]) := by
  obtain ⟨k, rfl⟩ := exists_add_40 h
  exact MustBool_core k c v
theorem Result_MustBool_refines (c : Conv) (v : GoVal) :
    runResultAcc F Result_MustBool c v [] = (match mustBool v with | .panic => none | .ok s => some [.bool s]) :=
  MustBool_core 20 c v

theorem Result_MustMap_refines_of_le (c : Conv) (v : GoVal) (fuel : Nat) (h : 40 ≤ fuel) :
    runResultAcc fuel Result_MustMap c v [] = (match mustMap v with | .panic => none | .ok s => some [encM s]) := by
  obtain ⟨k, rfl⟩ := exists_add_40 h
  exact MustMap_core k c v
theorem Result_MustMap_refines (c : Conv) (v : GoVal) :
    runResultAcc F Result_MustMap c v [] = (match mustMap v with | .panic => none | .ok s => some [encM s]) :=
  MustMap_core 20 c v

theorem SharedStore_GetString_refines_of_le (c : Conv) (held : Option GoVal) (fuel : Nat) (h : 40 ≤ fuel) :
    runStoreAcc fuel SharedStore_GetString c held [] = some [.str (getString (storeOf held) "k")] := by
  obtain ⟨k, rfl⟩ := exists_add_40 h
  exact GetString_core k c held
theorem SharedStore_GetString_refines (c : Conv) (held : Option GoVal) :
    runStoreAcc F SharedStore_GetString c held [] = some [.str (getString (storeOf held) "k")] :=
  GetString_core 20 c held

theorem SharedStore_GetStringOr_refines_of_le (c : Conv) (held : Option GoVal) (d : String) (fuel : Nat) (h : 40 ≤ fuel) :
    runStoreAcc fuel SharedStore_GetStringOr c held [.str d] = some [.str (getStringOr (storeOf held) "k" d)] := by
  obtain ⟨k, rfl⟩ := exists_add_40 h
  exact GetStringOr_core k c held d
theorem SharedStore_GetStringOr_refines (c : Conv) (held : Option GoVal) (d : String) :
    runStoreAcc F SharedStore_GetStringOr c held [.str d] = some [.str (getStringOr (storeOf held) "k" d)] :=
  GetStringOr_core 20 c held d

theorem SharedStore_GetIntOr_refines_of_le (c : Conv) (held : Option GoVal) (d : Int) (fuel : Nat) (h : 40 ≤ fuel) :
    runStoreAcc fuel SharedStore_GetIntOr c held [.int d] = some [encI (getIntOr c (storeOf held) "k" (some d))] := by
  obtain ⟨k, rfl⟩ := exists_add_40 h
  exact GetIntOr_core k c held d
theorem SharedStore_GetIntOr_refines (c : Conv) (held : Option GoVal) (d : Int) :
    runStoreAcc F SharedStore_GetIntOr c held [.int d] = some [encI (getIntOr c (storeOf held) "k" (some d))] :=
  GetIntOr_core 20 c held d

theorem SharedStore_GetInt_refines_of_le (c : Conv) (held : Option GoVal) (fuel : Nat) (h : 40 ≤ fuel) :
    runStoreAcc fuel SharedStore_GetInt c held [] = some [encI (getInt c (storeOf held) "k")] := by
  obtain ⟨k, rfl⟩ := exists_add_40 h
  exact GetInt_core k c held
theorem SharedStore_GetInt_refines (c : Conv) (held : Option GoVal) :
    runStoreAcc F SharedStore_GetInt c held [] = some [encI (getInt c (storeOf held) "k")] :=
  GetInt_core 20 c held

theorem SharedStore_GetFloat64Or_refines_of_le (c : Conv) (held : Option GoVal) (d : Nat) (fuel : Nat) (h : 40 ≤ fuel) :
    runStoreAcc fuel SharedStore_GetFloat64Or c held [encF d] = some [encF (getFloat64Or c (storeOf held) "k" d)] := by
  obtain ⟨k, rfl⟩ := exists_add_40 h
  exact GetFloat64Or_core k c held d
theorem SharedStore_GetFloat64Or_refines (c : Conv) (held : Option GoVal) (d : Nat) :
    runStoreAcc F SharedStore_GetFloat64Or c held [encF d] = some [encF (getFloat64Or c (storeOf held) "k" d)] :=
  GetFloat64Or_core 20 c held d

theorem SharedStore_GetFloat64_refines_of_le (c : Conv) (held : Option GoVal) (fuel : Nat) (h : 40 ≤ fuel) :
    runStoreAcc fuel SharedStore_GetFloat64 c held [] = some [encF (getFloat64 c (storeOf held) "k")] := by
  obtain ⟨k, rfl⟩ := exists_add_40 h
  exact GetFloat64_core k c held
theorem SharedStore_GetFloat64_refines (c : Conv) (held : Option GoVal) :
    runStoreAcc F SharedStore_GetFloat64 c held [] = some [encF (getFloat64 c (storeOf held) "k")] :=
  GetFloat64_core 20 c held

theorem SharedStore_GetBoolOr_refines_of_le (c : Conv) (held : Option GoVal) (d : Bool) (fuel : Nat) (h : 40 ≤ fuel) :
    runStoreAcc fuel SharedStore_GetBoolOr c held [.bool d] = some [.bool (getBoolOr (storeOf held) "k" d)] := by
  obtain ⟨k, rfl⟩ := exists_add_40 h
  exact GetBoolOr_core k c held d
theorem SharedStore_GetBoolOr_refines (c : Conv) (held : Option GoVal) (d : Bool) :
    runStoreAcc F SharedStore_GetBoolOr c held [.bool d] = some [.bool (getBoolOr (storeOf held) "k" d)] :=
  GetBoolOr_core 20 c held d

theorem SharedStore_GetBool_refines_of_le (c : Conv) (held : Option GoVal) (fuel : Nat) (h : 40 ≤ fuel) :
    runStoreAcc fuel SharedStore_GetBool c held [] = some [.bool (getBool (storeOf held) "k")] := by
  obtain ⟨k, rfl⟩ := exists_add_40 h
  exact GetBool_core k c held
theorem SharedStore_GetBool_refines (c : Conv) (held : Option GoVal) :
    runStoreAcc F SharedStore_GetBool c held [] = some [.bool (getBool (storeOf held) "k")] :=
  GetBool_core 20 c held

theorem SharedStore_GetMapOr_refines_of_le (c : Conv) (held : Option GoVal) (d : MapV) (fuel : Nat) (h : 40 ≤ fuel) :
    runStoreAcc fuel SharedStore_GetMapOr c held [encM d] = some [encM (getMapOr (storeOf held) "k" d)] := by
  obtain ⟨k, rfl⟩ := exists_add_40 h
  exact GetMapOr_core k c held d
theorem SharedStore_GetMapOr_refines (c : Conv) (held : Option GoVal) (d : MapV) :
    runStoreAcc F SharedStore_GetMapOr c held [encM d] = some [encM (getMapOr (storeOf held) "k" d)] :=
  GetMapOr_core 20 c held d

theorem SharedStore_GetMap_refines_of_le (c : Conv) (held : Option GoVal) (fuel : Nat) (h : 40 ≤ fuel) :
    runStoreAcc fuel SharedStore_GetMap c held [] = some [encM (getMap (storeOf held) "k")] := by
  obtain ⟨k, rfl⟩ := exists_add_40 h
  exact GetMap_core k c held
theorem SharedStore_GetMap_refines (c : Conv) (held : Option GoVal) :
    runStoreAcc F SharedStore_GetMap c held [] = some [encM (getMap (storeOf held) "k")] :=
  GetMap_core 20 c held

end Flyt.Refine.Acc
