import FlytModel.GoIR.Worlds
import FlytModel.Expected.IR
import FlytModel.Refine.Seq
/-!
# Refinement: the translated `runBatchConcurrent` (Expected/IR.lean) on the serial schedule against `itemsSerialPool`

* `runBatchConcurrent_serial_refines` — in `concSerialWorld` (every submitted task runs to completion before `Submit` returns;
  `Wait` / deferred `Close` / the mutex are no-ops; `runExecWithRetries` is the model's `runItemRaw`), the IR of
  `runBatchConcurrent` on fresh `items` / `results` arrays yields the events, the context and the slots of the model's
  `itemsSerialPool … items 0 false ctx`, provided the world can tell which item it is handed (`idxOf items[i] = i`).
* `…_of_le`: the same for every fuel at or above `items.length + 37`.

Proof shape (as in `Seq.lean`): the loop body `concBody` and the closure body `closBody` are named (equal to the sub-terms of the
IR by `rfl`); one lemma per path through the closure (`cbody_stopped`, `cbody_done`, `cbody_err`, `cbody_ok`) by symbolic
execution; `conc_loop`: induction on the number of remaining iterations of `loopRange` from index `i` with `shouldStop = b` in the
environment, against `itemsSerialPool … (items.drop i) i b ctx` (the final value of `shouldStop` is existentially quantified:
nothing after the loop reads it); then the prologue (`NewWorkerPool`, `defer pool.Close()`, `var mu`, `shouldStop := false`) and
`pool.Wait()`.

The closure's `shouldStop = true` assigns the OUTER binding (the closure body runs in the call-site environment; only the
bindings it made itself — `execResult`, `err`, `r`, `ok` — are popped), which is how `b || cfg.stop` reaches the next iteration.
-/
namespace Flyt.Refine
open Flyt Flyt.GoIR
set_option linter.unusedSimpArgs false

/-- the body of the closure handed to `pool.Submit` -/
def closBody : Block := B[
        (.expr (.mcall (.var "mu") "Lock" E[])),
        (.ifS B[] (.bin "&&" (.var "shouldStop") (.bin "==" (.var "errorHandling") (.str "stop"))) B[
          (.assign E[(.index (.var "results") (.var "idx"))] E[(.call "NewErrorResult" E[(.call "fmt.Errorf" E[(.str "batch stopped due to error")])])]),
          (.expr (.mcall (.var "mu") "Unlock" E[])),
          (.ret E[])] B[]),
        (.expr (.mcall (.var "mu") "Unlock" E[])),
        (.ifS B[] (.bin "!=" (.mcall (.var "ctx") "Err" E[]) (.var "nil")) B[
          (.assign E[(.index (.var "results") (.var "idx"))] E[(.call "NewErrorResult" E[(.call "fmt.Errorf" E[(.str "context cancelled")])])]),
          (.ret E[])] B[]),
        (.define ["execResult", "err"] E[(.call "runExecWithRetries" E[(.var "ctx"), (.var "node"), (.var "itm")])]),
        (.expr (.mcall (.var "mu") "Lock" E[])),
        (.ifS B[] (.bin "!=" (.var "err") (.var "nil")) B[
          (.assign E[(.index (.var "results") (.var "idx"))] E[(.call "NewErrorResult" E[(.var "err")])]),
          (.ifS B[] (.bin "==" (.var "errorHandling") (.str "stop")) B[
            (.assign E[(.var "shouldStop")] E[(.var "true")])] B[])] B[
          (.ifS B[(.define ["r", "ok"] E[(.assert (.var "execResult") "Result")])] (.var "ok") B[
            (.assign E[(.index (.var "results") (.var "idx"))] E[(.var "r")])] B[
            (.assign E[(.index (.var "results") (.var "idx"))] E[(.call "NewResult" E[(.var "execResult")])])])]),
        (.expr (.mcall (.var "mu") "Unlock" E[]))]

/-- the body of the `range` loop -/
def concBody : Block := B[
    (.define ["idx"] E[(.var "i")]),
    (.define ["itm"] E[(.var "item")]),
    (.expr (.mcall (.var "pool") "Submit" E[(.funcLit [] closBody)]))]

theorem runBatchConcurrent_body :
    Flyt.Expected.IR.runBatchConcurrent.body = B[
      (.define ["pool"] E[(.call "NewWorkerPool" E[(.var "concurrency")])]),
      (.deferS (.mcall (.var "pool") "Close" E[])),
      (.declare "mu" "sync.Mutex"),
      (.define ["shouldStop"] E[(.var "false")]),
      (.rangeS "i" "item" (.var "items") concBody),
      (.expr (.mcall (.var "pool") "Wait" E[]))] := rfl

/-- environment of the loop: the three locals on top of the six parameters -/
def cEnv (nid N p : Nat) (conc : Int) (eh : String) (b : Bool) : List (String × GV) :=
  [("shouldStop", GV.bool b), ("mu", GV.ref "mutex" 0), ("pool", GV.ref "pool" p),
   ("errorHandling", GV.str eh), ("concurrency", GV.int conc), ("results", GV.slice 1 0 N), ("items", GV.slice 0 0 N),
   ("node", GV.node nid), ("ctx", ctxH)]

def ehB (s : Bool) : String := if s then "stop" else "continue"

section
variable (kind : CtxKind) (n : NodeId) (v : Nat) (cfg : BatchCfg) (scr : BatchScript) (idxOf : Result → Nat)

local macro "conc_exec" "[" ts:Lean.Parser.Tactic.simpLemma,* "]" : tactic =>
  `(tactic| simp [concBody, closBody, cEnv, ehB, execBlock, execStmt, evalRhs, isCommaOk, evalCommaOk, evalExpr, evalArgs, Env.get, Env.set,
    Env.pushAll, Env.push, popSt, Env.popTo,
    concSerialWorld, seqWorld, errorf, assignAll, assignTo, Exprs.toList, Exprs.length, heapSet, ctxH, ctxErrGV, GV.eqv, GV.isNil, intBin,
    $ts,*])

theorem cbody_stopped (nid N p i : Nat) (conc : Int) (item : Result) (items res : List Result) (evs : List Ev) (ctx : Ctx)
    (hi : i < N) (hres : res.length = N) (c : Nat) :
    execBlock (concSerialWorld kind n v cfg scr idxOf) (c + 30) concBody
      ⟨("item", .result item) :: ("i", .int i) :: cEnv nid N p conc "stop" true, [items, res], ⟨evs, ctx⟩⟩
      = some (.next, ⟨("itm", .result item) :: ("idx", .int i) :: ("item", .result item) :: ("i", .int i) :: cEnv nid N p conc "stop" true,
          [items, res.set i (newErrorResult (.fw .batchStopped))], ⟨evs, ctx⟩⟩) := by
  have hi' : i < res.length := by omega
  have e5 : fwTagOf "batch stopped due to error" = .batchStopped := by decide
  conc_exec [hi, hi', e5]

theorem cbody_done (nid N p i : Nat) (conc : Int) (b s : Bool) (item : Result) (items res : List Result) (evs : List Ev) (kd : CtxKind)
    (hbs : (b && s) = false) (hi : i < N) (hres : res.length = N) (c : Nat) :
    execBlock (concSerialWorld kind n v cfg scr idxOf) (c + 30) concBody
      ⟨("item", .result item) :: ("i", .int i) :: cEnv nid N p conc (ehB s) b, [items, res], ⟨evs, .done kd⟩⟩
      = some (.next, ⟨("itm", .result item) :: ("idx", .int i) :: ("item", .result item) :: ("i", .int i) :: cEnv nid N p conc (ehB s) b,
          [items, res.set i (newErrorResult (.fw .batchCancelled))], ⟨evs, .done kd⟩⟩) := by
  have hi' : i < res.length := by omega
  have e5 : fwTagOf "context cancelled" = .batchCancelled := by decide
  cases b <;> cases s <;> simp at hbs <;> conc_exec [hi, hi', e5]

theorem cbody_err (nid N p i : Nat) (conc : Int) (b s : Bool) (item : Result) (items res : List Result) (evs ev1 : List Ev)
    (ctx1 : Ctx) (e : ErrRoot)
    (hbs : (b && s) = false) (hi : i < N) (hres : res.length = N) (hidx : idxOf item = i)
    (hr : runItemRaw kind n v cfg i item (scr.item i) .live = (ev1, ctx1, .error e)) (c : Nat) :
    execBlock (concSerialWorld kind n v cfg scr idxOf) (c + 30) concBody
      ⟨("item", .result item) :: ("i", .int i) :: cEnv nid N p conc (ehB s) b, [items, res], ⟨evs, .live⟩⟩
      = some (.next, ⟨("itm", .result item) :: ("idx", .int i) :: ("item", .result item) :: ("i", .int i) :: cEnv nid N p conc (ehB s) (b || s),
          [items, res.set i (newErrorResult e)], ⟨evs ++ ev1, ctx1⟩⟩) := by
  have hi' : i < res.length := by omega
  cases b <;> cases s <;> simp at hbs <;> conc_exec [hi, hi', hidx, hr]

theorem cbody_ok (nid N p i : Nat) (conc : Int) (b s : Bool) (item : Result) (items res : List Result) (evs ev1 : List Ev)
    (ctx1 : Ctx) (x : Val)
    (hbs : (b && s) = false) (hi : i < N) (hres : res.length = N) (hidx : idxOf item = i)
    (hr : runItemRaw kind n v cfg i item (scr.item i) .live = (ev1, ctx1, .ok x)) (c : Nat) :
    execBlock (concSerialWorld kind n v cfg scr idxOf) (c + 30) concBody
      ⟨("item", .result item) :: ("i", .int i) :: cEnv nid N p conc (ehB s) b, [items, res], ⟨evs, .live⟩⟩
      = some (.next, ⟨("itm", .result item) :: ("idx", .int i) :: ("item", .result item) :: ("i", .int i) :: cEnv nid N p conc (ehB s) b,
          [items, res.set i (slotOfVal x)], ⟨evs ++ ev1, ctx1⟩⟩) := by
  have hi' : i < res.length := by omega
  cases x with
  | tok t =>
    cases b <;> cases s <;> simp at hbs <;>
      conc_exec [hi, hi', hidx, hr, GV.ofVal, Val.asResult?, slotOfVal, toResult, mkNewResult, GV.toVal]
  | res xv xe =>
    cases b <;> cases s <;> simp at hbs <;>
      conc_exec [hi, hi', hidx, hr, GV.ofVal, Val.asResult?, slotOfVal, toResult, mkNewResult, GV.toVal]

theorem conc_loop (nid N p : Nat) (conc : Int) (items : List Result) (hN : items.length = N)
    (hidx : ∀ i (h : i < items.length), idxOf items[i] = i) (c k : Nat) :
    ∀ (i : Nat) (res : List Result) (evs : List Ev) (ctx : Ctx) (b : Bool), i + k = N → res.length = N →
    ∃ b' : Bool,
    loopRange (concSerialWorld kind n v cfg scr idxOf) (k + c + 31) "i" "item" 0 0 N i concBody
        ⟨cEnv nid N p conc (ehB cfg.stop) b, [items, res], ⟨evs, ctx⟩⟩
      = some (.next, ⟨cEnv nid N p conc (ehB cfg.stop) b',
          [items, res.take i ++ (itemsSerialPool kind n v cfg scr (items.drop i) i b ctx).2.2],
          ⟨evs ++ (itemsSerialPool kind n v cfg scr (items.drop i) i b ctx).1,
           (itemsSerialPool kind n v cfg scr (items.drop i) i b ctx).2.1⟩⟩) := by
  induction k with
  | zero =>
    intro i res evs ctx b hik hres
    have : ¬ i < N := by omega
    have hd : items.drop i = [] := by apply List.drop_eq_nil_of_le; omega
    have ht : res.take i = res := by apply List.take_of_length_le; omega
    exact ⟨b, by simp [loopRange, this, hd, ht, itemsSerialPool]⟩
  | succ k ih =>
    intro i res evs ctx b hik hres
    have hi : i < N := by omega
    have hi2 : i < items.length := by omega
    have hi3 : i < res.length := by omega
    have hd : items.drop i = items[i] :: items.drop (i + 1) := List.drop_eq_getElem_cons hi2
    rw [show k + 1 + c + 31 = (k + c + 31) + 1 from by omega, loopRange]
    simp only [hi, if_true, heapGet, List.getElem?_cons_zero, Option.bind_some, Nat.zero_add, List.getElem?_eq_getElem hi2]
    have hp : ∀ eh b, Env.push (Env.push (cEnv nid N p conc eh b) "i" (.int i)) "item" (.result items[i])
        = ("item", .result items[i]) :: ("i", .int i) :: cEnv nid N p conc eh b := by intro eh b; simp [Env.push]
    have hl : ∀ b, (cEnv nid N p conc (ehB cfg.stop) b).length = 9 := fun _ => rfl
    simp only [hp, hl]
    have fuelE : k + c + 31 = (k + c + 1) + 30 := by omega
    have pop4 : ∀ (x1 x2 x3 x4 : String × GV) eh b h w,
        popSt (Ω := SeqW) ⟨x1 :: x2 :: x3 :: x4 :: cEnv nid N p conc eh b, h, w⟩ 9 = ⟨cEnv nid N p conc eh b, h, w⟩ :=
      fun _ _ _ _ _ _ _ _ => rfl
    have hidxi : idxOf items[i] = i := hidx i hi2
    by_cases hbs : (b && cfg.stop) = true
    · have hb : b = true := by simp at hbs; exact hbs.1
      have hs : cfg.stop = true := by simp at hbs; exact hbs.2
      subst hb
      obtain ⟨b', ih'⟩ := ih (i + 1) (res.set i (newErrorResult (.fw .batchStopped))) evs ctx true (by omega) (by simpa using hres)
      refine ⟨b', ?_⟩
      have he : ehB cfg.stop = "stop" := by simp [ehB, hs]
      rw [he] at ih' ⊢
      rw [fuelE, cbody_stopped kind n v cfg scr idxOf nid N p i conc items[i] items res evs ctx hi hres]
      simp only [pop4]
      rw [← fuelE, ih', hd]
      simp [itemsSerialPool, hs, take_set_succ _ _ _ hi3, -List.getElem_cons_drop]
    · have hbs' : (b && cfg.stop) = false := by simpa using hbs
      have hbs2 : ¬ (b = true ∧ cfg.stop = true) := by simpa using hbs
      cases ctx with
      | done kd =>
        obtain ⟨b', ih'⟩ := ih (i + 1) (res.set i (newErrorResult (.fw .batchCancelled))) evs (.done kd) b (by omega) (by simpa using hres)
        refine ⟨b', ?_⟩
        rw [fuelE, cbody_done kind n v cfg scr idxOf nid N p i conc b cfg.stop items[i] items res evs kd hbs' hi hres]
        simp only [pop4]
        rw [← fuelE, ih', hd]
        simp [itemsSerialPool, hbs2, take_set_succ _ _ _ hi3, -List.getElem_cons_drop]
      | live =>
        rcases hr : runItemRaw kind n v cfg i items[i] (scr.item i) .live with ⟨ev1, ctx1, (e | x)⟩
        · obtain ⟨b', ih'⟩ := ih (i + 1) (res.set i (newErrorResult e)) (evs ++ ev1) ctx1 (b || cfg.stop) (by omega) (by simpa using hres)
          refine ⟨b', ?_⟩
          rw [fuelE, cbody_err kind n v cfg scr idxOf nid N p i conc b cfg.stop items[i] items res evs ev1 ctx1 e hbs' hi hres hidxi hr]
          simp only [pop4]
          rw [← fuelE, ih', hd]
          simp [itemsSerialPool, runItem_eq_raw, hr, hbs2, take_set_succ _ _ _ hi3, -List.getElem_cons_drop]
        · obtain ⟨b', ih'⟩ := ih (i + 1) (res.set i (slotOfVal x)) (evs ++ ev1) ctx1 b (by omega) (by simpa using hres)
          refine ⟨b', ?_⟩
          rw [fuelE, cbody_ok kind n v cfg scr idxOf nid N p i conc b cfg.stop items[i] items res evs ev1 ctx1 x hbs' hi hres hidxi hr]
          simp only [pop4]
          rw [← fuelE, ih', hd]
          simp [itemsSerialPool, runItem_eq_raw, hr, hbs2, take_set_succ _ _ _ hi3, -List.getElem_cons_drop]

theorem cw_pool (c : Int) (h : Heap) (w : SeqW) :
    (concSerialWorld kind n v cfg scr idxOf).call "NewWorkerPool" [.int c] h w = some ([.ref "pool" c.toNat], h, w) := rfl
theorem cw_close (p : Nat) (h : Heap) (w : SeqW) :
    (concSerialWorld kind n v cfg scr idxOf).mcall (.ref "pool" p) "defer:Close" [] h w = some ([], h, w) := by
  simp [concSerialWorld]
theorem cw_wait (p : Nat) (h : Heap) (w : SeqW) :
    (concSerialWorld kind n v cfg scr idxOf).mcall (.ref "pool" p) "Wait" [] h w = some ([], h, w) := by
  simp [concSerialWorld]

theorem runBatchConcurrent_serial_refines_fuel (items : List Result) (ctx : Ctx)
    (hidx : ∀ i (h : i < items.length), idxOf items[i] = i) (c : Nat) :
    itemsConcSerialIR (items.length + 37 + c) Flyt.Expected.IR.runBatchConcurrent kind n v cfg scr idxOf items ctx
      = some (itemsSerialPool kind n v cfg scr items 0 false ctx) := by
  obtain ⟨b', hl⟩ := conc_loop kind n v cfg scr idxOf n items.length cfg.conc cfg.conc items rfl hidx c items.length 0
    (List.replicate items.length ⟨Val.nil, none⟩) [] ctx false (by omega) (by simp)
  simp only [cEnv, ehB] at hl
  have hrecv : Flyt.Expected.IR.runBatchConcurrent.recv = "" := rfl
  have hpar : Flyt.Expected.IR.runBatchConcurrent.params = ["ctx", "node", "items", "results", "concurrency", "errorHandling"] := rfl
  simp [itemsConcSerialIR, callFunc, runBatchConcurrent_body, hrecv, hpar, Env.pushAll, Env.push, execBlock, execStmt, evalExpr, evalArgs,
    evalRhs, isCommaOk, Env.get, zeroOf, cw_pool, cw_close, cw_wait,
    show items.length + 37 + c = items.length + c + 31 + 1 + 1 + 1 + 1 + 1 + 1 from by omega, hl]
end

def concFuel (items : List Result) : Nat := items.length + 40

/-- The translated `runBatchConcurrent`, run by the GoIR interpreter on the schedule in which every submitted task runs to
    completion before `Submit` returns, yields the events, the context and the slots of the model's `itemsSerialPool`. -/
theorem runBatchConcurrent_serial_refines (kind : CtxKind) (n : NodeId) (v : Nat) (cfg : BatchCfg) (scr : BatchScript)
    (idxOf : Result → Nat) (items : List Result) (ctx : Ctx)
    (hidx : ∀ i (h : i < items.length), idxOf items[i] = i) :
    GoIR.itemsConcSerialIR (concFuel items) Flyt.Expected.IR.runBatchConcurrent kind n v cfg scr idxOf items ctx
      = some (itemsSerialPool kind n v cfg scr items 0 false ctx) :=
  runBatchConcurrent_serial_refines_fuel kind n v cfg scr idxOf items ctx hidx 3

/-- every fuel at or above `items.length + 37` gives the same (total) answer -/
theorem runBatchConcurrent_serial_refines_of_le (kind : CtxKind) (n : NodeId) (v : Nat) (cfg : BatchCfg) (scr : BatchScript)
    (idxOf : Result → Nat) (items : List Result) (ctx : Ctx)
    (hidx : ∀ i (h : i < items.length), idxOf items[i] = i) (fuel : Nat) (hf : items.length + 37 ≤ fuel) :
    GoIR.itemsConcSerialIR fuel Flyt.Expected.IR.runBatchConcurrent kind n v cfg scr idxOf items ctx
      = some (itemsSerialPool kind n v cfg scr items 0 false ctx) := by
  obtain ⟨c, rfl⟩ := Nat.exists_eq_add_of_le hf
  exact runBatchConcurrent_serial_refines_fuel kind n v cfg scr idxOf items ctx hidx c

end Flyt.Refine
