import FlytModel.GoIR.CtorWorld
import FlytModel.Expected.IR
import FlytModel.Refine.Run
/-!
# Refinement: the translated Go source of the constructors `NewBaseNode`, `NewNode`, `NewBatchNode` and of
`customNodeOption.apply` (`Flyt.Expected.IR`), run by the definitional interpreter of `GoIR/Interp.lean` in `ctorWorld`
(`GoIR/CtorWorld.lean`), computes exactly what the configuration model of `Model/Config.lean` says a constructor does with its
argument list (property C19) — for EVERY argument list (induction over the list), every initial content of the memory the
constructor initialises (`n0`), every sufficient recursion depth (linear in the length of the list).

An argument list is a `List Arg`: option VALUES by dynamic type (`NodeOption`, raw `func(*BaseNode)`, `CustomNodeOption`, junk), each
tagged with the model `Step` it performs. The callee of `opt(n)` is the value the loop variable holds (`World.callVar`).

* `customNodeOption_apply_refines_of_le`   depth ≥ 5            `o.apply(n)` = `applyCustomOption`
* `NewBaseNode_refines_of_le`              depth ≥ |opts| + 12  defaults `maxRetries 1`, `wait 0`, then the options in order (`baseOf`)
* `NewNode_refines_of_le`                  depth ≥ |opts| + 18  ALL base options in order, THEN all custom options in order, junk
                                                                 ignored; returns the builder (`nodeOf`); no hypothesis on the list
* `NewBatchNode_refines_of_le`             depth ≥ |opts| + 17  base options in order; custom options and junk ignored (`batchOf`)
* `nodeOf_eq_newNode`, `batchOf_eq_newBatchNode`: on well-typed lists (`Arg.wf`) the explicit folds are the model's OWN constructor
  functions `Config.newNode` / `Config.newBatchNode` of the option word; `NewNode_refines_newNode`, `NewBatchNode_refines_newBatchNode`
  state the refinement directly against them (for `opts.map Arg.ofStep`, `opts : List Step` arbitrary), so that the theorems of
  `Props/C19.lean` about option words (`build`) speak about the Go constructors; `baseOf_eq_newBatchNode_base` ties `NewBaseNode`
  to the same function.
* `NewNode_order_independent_of_interleaving` (C19): same subsequence of base options and same subsequence of custom options ⇒ same
  builder around the same node; `NewNode_eq_sorted`, `NewNode_order_independent_words` are the normal-form and the model-word forms.

The depths are within 1 … 4 of the least depth at which the run is not stuck (least, measured: `NewBaseNode` |opts| + 8,
`NewNode` |opts| + 17, `NewBatchNode` |opts| + 15, for non-empty lists of raw functions).

Proof structure: per-constructor unfolding lemmas (`Refine/Run.lean`'s `gosimp` plus the ones below), the world folded behind its
projections (`W_*`); one lemma per loop body and kind of argument (`sortN_*`, `sortB_*`, `callB_step`, `callN_step`, `applyB_step`);
the loops by induction over a list of (value, position) pairs (`loop_sortN`, `loop_sortB`, `loop_gen` and its three instances), with
the contents of the option slices as invariant; the argument list enters as `args.zipIdx`.
-/
namespace Flyt.Refine.Ctors
open Flyt Flyt.GoIR Flyt.Config Flyt.GoIR.CtorW Flyt.Expected.IR Flyt.Refine
set_option linter.unusedSimpArgs false

/-! ## unfolding lemmas for the constructors `Refine/Run.lean` does not cover -/

section steps
variable {Ω : Type} (W : World Ω)
theorem expr_sel (f : Nat) (a : Expr) (fl : String) (st : St Ω) :
    evalExpr W (f + 1) (.sel a fl) st =
      match evalExpr W f a st with
      | some ([x], st1) => (W.field x fl st1.w).map fun v => ([v], st1)
      | _ => none := rfl
theorem expr_conv (f : Nat) (ty : String) (a : Expr) (st : St Ω) :
    evalExpr W (f + 1) (.conv ty a) st =
      match evalExpr W f a st with
      | some ([x], st1) =>
        (match W.call ("conv:" ++ ty) [x] st1.heap st1.w with
         | some (rs, h, w) => some (rs, { st1 with heap := h, w := w })
         | none => none)
      | _ => none := rfl
theorem expr_amp_lit (f : Nat) (ty : String) (elts : Exprs) (st : St Ω) :
    evalExpr W (f + 1) (.un "&" (.lit ty elts)) st = evalExpr W f (.lit ty elts) st := rfl
/-- a composite literal of a type other than `[]Result` / `Result`: an object of the world -/
theorem expr_lit (f : Nat) (ty : String) (elts : Exprs) (st : St Ω) (h1 : (ty == "[]Result") = false) (h2 : (ty == "Result") = false) :
    evalExpr W (f + 1) (.lit ty elts) st =
      match evalArgs W f (litValues elts) st with
      | some (vs, st1) =>
        (match W.call ("lit:" ++ ty ++ ":" ++ litKeys elts) vs st1.heap st1.w with
         | some (rs, h, w) => some (rs, { st1 with heap := h, w := w })
         | none => none)
      | none => none := by
  have h0 : evalExpr W (f + 1) (.lit ty elts) st = (if ty == "[]Result" then _ else if ty == "Result" then _ else _) := rfl
  rw [h0, h1, h2]; rfl
theorem stmt_typeSwitch (f : Nat) (bind : String) (x : Expr) (cases : Cases) (st : St Ω) :
    execStmt W (f + 1) (.typeSwitch bind x cases) st =
      match evalExpr W f x st with
      | some ([v], st1) => switchCases W f bind v cases st1
      | _ => none := rfl
theorem switch_nil (f : Nat) (bind : String) (v : GV) (st : St Ω) :
    switchCases W (f + 1) bind v .nil st = some (.next, st) := rfl
theorem switch_case (f : Nat) (bind : String) (v : GV) (l ty : String) (body : Block) (rest : Cases) (st : St Ω) :
    switchCases W (f + 1) bind v (.cons (.lit l (.cons (.var ty) .nil)) body rest) st =
      (match W.assert v ty st.w with
       | some (v', true) =>
         (execBlock W f body { st with env := st.env.push bind v' }).map fun (c, st2) => (c, popSt st2 st.env.length)
       | some (_, false) => switchCases W f bind v rest st
       | none => none) := rfl
theorem switch_default (f : Nat) (bind : String) (v : GV) (d : String) (body : Block) (st : St Ω) :
    switchCases W (f + 1) bind v (.cons (.var d) body .nil) st =
      (execBlock W f body { st with env := st.env.push bind v }).map fun (c, st2) => (c, popSt st2 st.env.length) := rfl
theorem stmt_expr_call (f : Nat) (fn : String) (args : Exprs) (st : St Ω) :
    execStmt W (f + 1) (.expr (.call fn args)) st = (evalExpr W f (.call fn args) st).map fun (_, st1) => (.next, st1) := rfl
theorem stmt_expr_mcall_var (f : Nat) (r : Expr) (m x : String) (st : St Ω) :
    execStmt W (f + 1) (.expr (.mcall r m (.cons (.var x) .nil))) st =
      (evalExpr W f (.mcall r m (.cons (.var x) .nil)) st).map fun (_, st1) => (.next, st1) := rfl
theorem stmt_range (f : Nat) (k v : String) (x : Expr) (body : Block) (st : St Ω) :
    execStmt W (f + 1) (.rangeS k v x body) st =
      match evalExpr W f x st with
      | some ([.slice ad off n], st1) => loopRange W f k v ad off n 0 body st1
      | some ([.anys l], st1) => loopAnys W f k v l 0 body st1
      | some ([.nil], st1) => some (.next, st1)
      | some ([m], st1) =>
        (match W.rangeOf m st1.w with
         | some kvs => loopPairs W f k v kvs body st1
         | none => none)
      | _ => none := rfl
theorem loopPairs_nil (f : Nat) (k v : String) (body : Block) (st : St Ω) :
    loopPairs W (f + 1) k v [] body st = some (.next, st) := rfl
theorem loopPairs_cons (f : Nat) (k v : String) (kx vx : GV) (rest : List (GV × GV)) (body : Block) (st : St Ω) :
    loopPairs W (f + 1) k v ((kx, vx) :: rest) body st =
      (match execBlock W f body { st with env := (st.env.push k kx).push v vx } with
       | some (.brk, st2) => some (.next, popSt st2 st.env.length)
       | some (.ret vs, st2) => some (.ret vs, popSt st2 st.env.length)
       | some (_, st2) => loopPairs W f k v rest body (popSt st2 st.env.length)
       | none => none) := rfl
end steps

/-! ## projections of `ctorWorld` -/

local notation "W" => ctorWorld

theorem W_lit_BaseNode (a b : Int) (h : Heap) (w : KW) :
    (W).call "lit:BaseNode:maxRetries,wait," [.int a, .int b] h w =
      some ([baseH], h, { w with node := { w.node with base := { maxRetries := a, wait := b, batchConcurrency := 0, batchErrorHandling := .unset } } }) := rfl
theorem W_NewBaseNode (h : Heap) (w : KW) :
    (W).call "NewBaseNode" [] h w = some ([baseH], h, { w with node := { w.node with base := newBaseNode } }) := rfl
theorem W_lit_CustomNode (i : Nat) (h : Heap) (w : KW) :
    (W).call "lit:CustomNode:BaseNode," [.ref "base" i] h w =
      some ([nodeH], h, { w with node := { base := w.node.base, prepFunc := none, execFunc := none, postFunc := none,
                                            execFallbackFunc := none, batchPrepFunc := none, batchPostFunc := none } }) := rfl
theorem W_lit_NodeBuilder (i : Nat) (h : Heap) (w : KW) :
    (W).call "lit:NodeBuilder:CustomNode," [.ref "node" i] h w = some ([builderH], h, w) := rfl
theorem W_lit_BatchNode (i : Nat) (h : Heap) (w : KW) :
    (W).call "lit:BatchNode:CustomNode," [.ref "node" i] h w =
      some ([batchNodeH], h, { w with node := { w.node with batchPrepFunc := none, batchPostFunc := none } }) := rfl
theorem W_lit_BatchNodeBuilder (i : Nat) (h : Heap) (w : KW) :
    (W).call "lit:BatchNodeBuilder:BatchNode," [.ref "batchnode" i] h w = some ([batchBuilderH], h, w) := rfl
theorem W_append (s : GV) (i : Nat) (h : Heap) (w : KW) :
    (W).call "append" [s, .ref "arg" i] h w = (appendSlice w s i).map fun r => ([r.1], h, r.2) := rfl
theorem W_conv (i : Nat) (h : Heap) (w : KW) :
    (W).call "conv:NodeOption" [.ref "arg" i] h w =
      (match w.args[i]? with
       | some (.rawFunc _) => some ([argH i], h, w)
       | some (.nodeOpt _) => some ([argH i], h, w)
       | _ => none) := rfl
theorem W_callVar (fn : String) (i j : Nat) (h : Heap) (w : KW) :
    (W).callVar fn (.ref "arg" i) [.ref "base" j] h w = (callOpt w i).map fun w' => ([], h, w') := rfl
theorem W_apply (i j : Nat) (h : Heap) (w : KW) :
    (W).mcall (.ref "arg" i) "apply" [.ref "node" j] h w = (applyOpt w i).map fun w' => ([], h, w') := rfl
theorem W_f (i j : Nat) (h : Heap) (w : KW) :
    (W).mcall (.ref "arg" i) "f" [.ref "node" j] h w = (applyOpt w i).map fun w' => ([], h, w') := rfl
theorem W_assert (i : Nat) (ty : String) (w : KW) :
    (W).assert (.ref "arg" i) ty w = (w.args[i]?).bind fun a => assertArg a i ty := rfl
theorem W_BaseNode (i : Nat) (w : KW) : (W).field (.ref "node" i) "BaseNode" w = some baseH := rfl
theorem W_rangeOf (j : Nat) (w : KW) : (W).rangeOf (.ref "slice" j) w = (w.slices[j]?).map (pairsFrom 0) := rfl
theorem W_zeroN : (W).global "zero:[]NodeOption" = some .nil := rfl
theorem W_zeroC : (W).global "zero:[]CustomNodeOption" = some .nil := rfl

macro "ctorsimp" " [" ts:Lean.Parser.Tactic.simpLemma,* "]" : tactic =>
  `(tactic| gosimp [callFunc, expr_sel, expr_conv, expr_amp_lit, expr_lit, stmt_typeSwitch, switch_nil, switch_case, switch_default,
      stmt_expr_call, stmt_expr_mcall_var, litValues, litKeys,
      W_lit_BaseNode, W_NewBaseNode, W_lit_CustomNode, W_lit_NodeBuilder, W_lit_BatchNode, W_lit_BatchNodeBuilder, W_append, W_conv,
      W_callVar, W_apply, W_f, W_assert, W_BaseNode, W_zeroN, W_zeroC, assertArg, Arg.isCustom, Arg.isBase,
      baseH, nodeH, builderH, batchNodeH, batchBuilderH, optsH, argH, $ts,*])

/-- every depth `≥ K` is `f + K` for some `f` -/
theorem exists_add {K fuel : Nat} (h : K ≤ fuel) : ∃ f, fuel = f + K := ⟨fuel - K, by omega⟩

/-! ## `customNodeOption.apply` -/

/-- `o.apply(n)` does to the node what the option's function does: the model's `applyCustomOption` -/
theorem customNodeOption_apply_core (f : Nat) (i : Nat) (s : Step) (h : Heap) (w : KW) (hi : w.args[i]? = some (.custom s)) :
    callFunc W (f + 5) customNodeOption_apply [argH i, nodeH] h w = some ([], h, { w with node := applyCustomOption s w.node }) := by
  ctorsimp [customNodeOption_apply, applyOpt, hi]

/-! ## the loops -/

def envN (cv bv : GV) : GoIR.Env := [("baseOpts", bv), ("customOpts", cv), ("node", nodeH), ("opts", optsH)]
def envB (bv : GV) : GoIR.Env := [("baseOpts", bv), ("customNode", nodeH), ("opts", optsH)]

/-- body of the first loop of `NewNode` -/
def sortN : Block := B[
    (.typeSwitch "o" (.var "opt") (Cases.ofList [
      ((.lit "types" E[(.var "CustomNodeOption")]), B[
        (.assign E[(.var "customOpts")] E[(.call "append" E[(.var "customOpts"), (.var "o")])])]),
      ((.lit "types" E[(.var "NodeOption")]), B[
        (.assign E[(.var "baseOpts")] E[(.call "append" E[(.var "baseOpts"), (.var "o")])])]),
      ((.lit "types" E[(.var "func(*BaseNode)")]), B[
        (.assign E[(.var "baseOpts")] E[(.call "append" E[(.var "baseOpts"), (.conv "NodeOption" (.var "o"))])])]),
      ((.var "default"), B[])]))]
/-- body of the first loop of `NewBatchNode` -/
def sortB : Block := B[
    (.typeSwitch "o" (.var "opt") (Cases.ofList [
      ((.lit "types" E[(.var "NodeOption")]), B[
        (.assign E[(.var "baseOpts")] E[(.call "append" E[(.var "baseOpts"), (.var "o")])])]),
      ((.lit "types" E[(.var "func(*BaseNode)")]), B[
        (.assign E[(.var "baseOpts")] E[(.call "append" E[(.var "baseOpts"), (.conv "NodeOption" (.var "o"))])])])]))]
/-- `opt(nv.BaseNode)` -/
def callB (nv : String) : Block := B[(.expr (.call "opt" E[(.sel (.var nv) "BaseNode")]))]
/-- `opt(n)` -/
def callN : Block := B[(.expr (.call "opt" E[(.var "n")]))]
/-- `opt.apply(node)` -/
def applyB : Block := B[(.expr (.mcall (.var "opt") "apply" E[(.var "node")]))]

theorem content_append_self {w : KW} {s : GV} {l : List Nat} (i : Nat) (_h : content w s = some l) :
    content { w with slices := w.slices ++ [l ++ [i]] } (.ref "slice" w.slices.length) = some (l ++ [i]) := by
  simp [content]
theorem content_append_other {w : KW} {s : GV} {l : List Nat} (x : List Nat) (h : content w s = some l) :
    content { w with slices := w.slices ++ [x] } s = some l := by
  unfold content at h ⊢
  split at h
  · simpa using h
  · rename_i j
    have hj : j < w.slices.length := by
      rcases List.getElem?_eq_some_iff.mp h with ⟨hj, _⟩; exact hj
    simp only []
    rw [List.getElem?_append_left hj]; exact h
  · simp at h

theorem sortN_custom (g i : Nat) (s : Step) (cv bv : GV) (cl : List Nat) (h : Heap) (w : KW)
    (hi : w.args[i]? = some (.custom s)) (hc : content w cv = some cl) :
    execBlock W (g + 12) sortN ⟨("opt", argH i) :: envN cv bv, h, w⟩ =
      some (.next, ⟨("opt", argH i) :: envN (.ref "slice" w.slices.length) bv, h, { w with slices := w.slices ++ [cl ++ [i]] }⟩) := by
  ctorsimp [sortN, envN, hi, hc, appendSlice]

theorem sortN_nodeOpt (g i : Nat) (s : Step) (cv bv : GV) (bl : List Nat) (h : Heap) (w : KW)
    (hi : w.args[i]? = some (.nodeOpt s)) (hb : content w bv = some bl) :
    execBlock W (g + 12) sortN ⟨("opt", argH i) :: envN cv bv, h, w⟩ =
      some (.next, ⟨("opt", argH i) :: envN cv (.ref "slice" w.slices.length), h, { w with slices := w.slices ++ [bl ++ [i]] }⟩) := by
  ctorsimp [sortN, envN, hi, hb, appendSlice]
theorem sortN_rawFunc (g i : Nat) (s : Step) (cv bv : GV) (bl : List Nat) (h : Heap) (w : KW)
    (hi : w.args[i]? = some (.rawFunc s)) (hb : content w bv = some bl) :
    execBlock W (g + 12) sortN ⟨("opt", argH i) :: envN cv bv, h, w⟩ =
      some (.next, ⟨("opt", argH i) :: envN cv (.ref "slice" w.slices.length), h, { w with slices := w.slices ++ [bl ++ [i]] }⟩) := by
  ctorsimp [sortN, envN, hi, hb, appendSlice]
theorem sortN_junk (g i k : Nat) (cv bv : GV) (h : Heap) (w : KW) (hi : w.args[i]? = some (.junk k)) :
    execBlock W (g + 12) sortN ⟨("opt", argH i) :: envN cv bv, h, w⟩ = some (.next, ⟨("opt", argH i) :: envN cv bv, h, w⟩) := by
  ctorsimp [sortN, envN, hi]

theorem sortB_nodeOpt (g i : Nat) (s : Step) (bv : GV) (bl : List Nat) (h : Heap) (w : KW)
    (hi : w.args[i]? = some (.nodeOpt s)) (hb : content w bv = some bl) :
    execBlock W (g + 12) sortB ⟨("opt", argH i) :: envB bv, h, w⟩ =
      some (.next, ⟨("opt", argH i) :: envB (.ref "slice" w.slices.length), h, { w with slices := w.slices ++ [bl ++ [i]] }⟩) := by
  ctorsimp [sortB, envB, hi, hb, appendSlice]
theorem sortB_rawFunc (g i : Nat) (s : Step) (bv : GV) (bl : List Nat) (h : Heap) (w : KW)
    (hi : w.args[i]? = some (.rawFunc s)) (hb : content w bv = some bl) :
    execBlock W (g + 12) sortB ⟨("opt", argH i) :: envB bv, h, w⟩ =
      some (.next, ⟨("opt", argH i) :: envB (.ref "slice" w.slices.length), h, { w with slices := w.slices ++ [bl ++ [i]] }⟩) := by
  ctorsimp [sortB, envB, hi, hb, appendSlice]
theorem sortB_custom (g i : Nat) (s : Step) (bv : GV) (h : Heap) (w : KW) (hi : w.args[i]? = some (.custom s)) :
    execBlock W (g + 12) sortB ⟨("opt", argH i) :: envB bv, h, w⟩ = some (.next, ⟨("opt", argH i) :: envB bv, h, w⟩) := by
  ctorsimp [sortB, envB, hi]
theorem sortB_junk (g i k : Nat) (bv : GV) (h : Heap) (w : KW) (hi : w.args[i]? = some (.junk k)) :
    execBlock W (g + 12) sortB ⟨("opt", argH i) :: envB bv, h, w⟩ = some (.next, ⟨("opt", argH i) :: envB bv, h, w⟩) := by
  ctorsimp [sortB, envB, hi]

/-- the positions of the elements of `l` (pairs of an option value and its position in the argument list) -/
abbrev idxs (l : List (Arg × Nat)) : List Nat := l.map Prod.snd

/-- the first loop of `NewNode`: the custom options are appended to `customOpts`, the base options to `baseOpts`, in order -/
theorem loop_sortN (l : List (Arg × Nat)) : ∀ (f k : Nat) (cv bv : GV) (cl bl : List Nat) (h : Heap) (w : KW),
    (∀ p ∈ l, w.args[p.2]? = some p.1) → content w cv = some cl → content w bv = some bl →
    ∃ cv' bv' w', loopPairs W (f + l.length + 13) "_" "opt" (pairsFrom k (idxs l)) sortN ⟨envN cv bv, h, w⟩ =
        some (.next, ⟨envN cv' bv', h, w'⟩) ∧ w'.node = w.node ∧ w'.args = w.args ∧
      content w' cv' = some (cl ++ idxs (l.filter (·.1.isCustom))) ∧ content w' bv' = some (bl ++ idxs (l.filter (·.1.isBase))) := by
  induction l with
  | nil =>
    intro f k cv bv cl bl h w _ hc hb
    exact ⟨cv, bv, w, by simp [idxs, pairsFrom, loopPairs_nil], rfl, rfl, by simpa using hc, by simpa using hb⟩
  | cons p l ih =>
    intro f k cv bv cl bl h w hl hc hb
    obtain ⟨a, i⟩ := p
    have hi : w.args[i]? = some a := hl (a, i) (by simp)
    have hl' : ∀ p ∈ l, w.args[p.2]? = some p.1 := fun p hp => hl p (by simp [hp])
    have hfuel : f + ((a, i) :: l).length + 13 = (f + l.length + 1 + 12) + 1 := by simp; omega
    have hfuel' : f + l.length + 1 + 12 = f + l.length + 13 := by omega
    have hpush : ((envN cv bv).push "_" (.int k)).push "opt" (argH i) = ("opt", argH i) :: envN cv bv := by simp [Env.push]
    rw [hfuel]
    simp only [idxs, List.map_cons, pairsFrom, loopPairs_cons, hpush]
    cases a with
    | custom s =>
      obtain ⟨cv', bv', w', h1, h2, h3, h4, h5⟩ :=
        ih f (k + 1) (.ref "slice" w.slices.length) bv (cl ++ [i]) bl h { w with slices := w.slices ++ [cl ++ [i]] } hl'
          (content_append_self i hc) (content_append_other (cl ++ [i]) hb)
      refine ⟨cv', bv', w', ?_, h2, h3, ?_, ?_⟩
      · rw [sortN_custom _ i s cv bv cl h w hi hc, hfuel']
        simpa [popSt, Env.popTo, envN] using h1
      · simpa [Arg.isCustom, idxs] using h4
      · simpa [Arg.isBase, idxs] using h5
    | nodeOpt s =>
      obtain ⟨cv', bv', w', h1, h2, h3, h4, h5⟩ :=
        ih f (k + 1) cv (.ref "slice" w.slices.length) cl (bl ++ [i]) h { w with slices := w.slices ++ [bl ++ [i]] } hl'
          (content_append_other (bl ++ [i]) hc) (content_append_self i hb)
      refine ⟨cv', bv', w', ?_, h2, h3, ?_, ?_⟩
      · rw [sortN_nodeOpt _ i s cv bv bl h w hi hb, hfuel']
        simpa [popSt, Env.popTo, envN] using h1
      · simpa [Arg.isCustom, idxs] using h4
      · simpa [Arg.isBase, idxs] using h5
    | rawFunc s =>
      obtain ⟨cv', bv', w', h1, h2, h3, h4, h5⟩ :=
        ih f (k + 1) cv (.ref "slice" w.slices.length) cl (bl ++ [i]) h { w with slices := w.slices ++ [bl ++ [i]] } hl'
          (content_append_other (bl ++ [i]) hc) (content_append_self i hb)
      refine ⟨cv', bv', w', ?_, h2, h3, ?_, ?_⟩
      · rw [sortN_rawFunc _ i s cv bv bl h w hi hb, hfuel']
        simpa [popSt, Env.popTo, envN] using h1
      · simpa [Arg.isCustom, idxs] using h4
      · simpa [Arg.isBase, idxs] using h5
    | junk j =>
      obtain ⟨cv', bv', w', h1, h2, h3, h4, h5⟩ := ih f (k + 1) cv bv cl bl h w hl' hc hb
      refine ⟨cv', bv', w', ?_, h2, h3, ?_, ?_⟩
      · rw [sortN_junk _ i j cv bv h w hi, hfuel']
        simpa [popSt, Env.popTo, envN] using h1
      · simpa [Arg.isCustom, idxs] using h4
      · simpa [Arg.isBase, idxs] using h5

/-- the first loop of `NewBatchNode`: the base options are appended to `baseOpts`, in order; everything else is skipped -/
theorem loop_sortB (l : List (Arg × Nat)) : ∀ (f k : Nat) (bv : GV) (bl : List Nat) (h : Heap) (w : KW),
    (∀ p ∈ l, w.args[p.2]? = some p.1) → content w bv = some bl →
    ∃ bv' w', loopPairs W (f + l.length + 13) "_" "opt" (pairsFrom k (idxs l)) sortB ⟨envB bv, h, w⟩ =
        some (.next, ⟨envB bv', h, w'⟩) ∧ w'.node = w.node ∧ w'.args = w.args ∧
      content w' bv' = some (bl ++ idxs (l.filter (·.1.isBase))) := by
  induction l with
  | nil =>
    intro f k bv bl h w _ hb
    exact ⟨bv, w, by simp [idxs, pairsFrom, loopPairs_nil], rfl, rfl, by simpa using hb⟩
  | cons p l ih =>
    intro f k bv bl h w hl hb
    obtain ⟨a, i⟩ := p
    have hi : w.args[i]? = some a := hl (a, i) (by simp)
    have hl' : ∀ p ∈ l, w.args[p.2]? = some p.1 := fun p hp => hl p (by simp [hp])
    have hfuel : f + ((a, i) :: l).length + 13 = (f + l.length + 1 + 12) + 1 := by simp; omega
    have hfuel' : f + l.length + 1 + 12 = f + l.length + 13 := by omega
    have hpush : ((envB bv).push "_" (.int k)).push "opt" (argH i) = ("opt", argH i) :: envB bv := by simp [Env.push]
    rw [hfuel]
    simp only [idxs, List.map_cons, pairsFrom, loopPairs_cons, hpush]
    cases a with
    | custom s =>
      obtain ⟨bv', w', h1, h2, h3, h5⟩ := ih f (k + 1) bv bl h w hl' hb
      refine ⟨bv', w', ?_, h2, h3, ?_⟩
      · rw [sortB_custom _ i s bv h w hi, hfuel']
        simpa [popSt, Env.popTo, envB] using h1
      · simpa [Arg.isBase, idxs] using h5
    | nodeOpt s =>
      obtain ⟨bv', w', h1, h2, h3, h5⟩ :=
        ih f (k + 1) (.ref "slice" w.slices.length) (bl ++ [i]) h { w with slices := w.slices ++ [bl ++ [i]] } hl'
          (content_append_self i hb)
      refine ⟨bv', w', ?_, h2, h3, ?_⟩
      · rw [sortB_nodeOpt _ i s bv bl h w hi hb, hfuel']
        simpa [popSt, Env.popTo, envB] using h1
      · simpa [Arg.isBase, idxs] using h5
    | rawFunc s =>
      obtain ⟨bv', w', h1, h2, h3, h5⟩ :=
        ih f (k + 1) (.ref "slice" w.slices.length) (bl ++ [i]) h { w with slices := w.slices ++ [bl ++ [i]] } hl'
          (content_append_self i hb)
      refine ⟨bv', w', ?_, h2, h3, ?_⟩
      · rw [sortB_rawFunc _ i s bv bl h w hi hb, hfuel']
        simpa [popSt, Env.popTo, envB] using h1
      · simpa [Arg.isBase, idxs] using h5
    | junk j =>
      obtain ⟨bv', w', h1, h2, h3, h5⟩ := ih f (k + 1) bv bl h w hl' hb
      refine ⟨bv', w', ?_, h2, h3, ?_⟩
      · rw [sortB_junk _ i j bv h w hi, hfuel']
        simpa [popSt, Env.popTo, envB] using h1
      · simpa [Arg.isBase, idxs] using h5

/-- what a list of base options does to the node, in order -/
def applyBases (l : List (Arg × Nat)) (n : Node) : Node :=
  (l.filterMap (·.1.baseStep?)).foldl (fun n s => { n with base := applyNodeOption s.setting n.base }) n
/-- what a list of custom options does to the node, in order -/
def applyCustoms (l : List (Arg × Nat)) (n : Node) : Node :=
  (l.filterMap (·.1.customStep?)).foldl (fun n s => applyCustomOption s n) n

/-- one `opt(nv.BaseNode)` -/
theorem callB_step (nv : String) (hnv : ("opt" == nv) = false) (g i : Nat) (s : Step) (a : Arg) (ha : a.baseStep? = some s)
    (env : GoIR.Env) (h : Heap) (w : KW) (he : env.get nv = some nodeH) (hi : w.args[i]? = some a) :
    execBlock W (g + 8) (callB nv) ⟨("opt", argH i) :: env, h, w⟩ =
      some (.next, ⟨("opt", argH i) :: env, h, { w with node := { w.node with base := applyNodeOption s.setting w.node.base } }⟩) := by
  cases a <;> simp [Arg.baseStep?] at ha <;> subst ha <;>
    ctorsimp [callB, hnv, he, hi, callOpt]

/-- one `opt(n)` -/
theorem callN_step (g i : Nat) (s : Step) (a : Arg) (ha : a.baseStep? = some s)
    (env : GoIR.Env) (h : Heap) (w : KW) (he : env.get "n" = some baseH) (hi : w.args[i]? = some a) :
    execBlock W (g + 8) callN ⟨("opt", argH i) :: env, h, w⟩ =
      some (.next, ⟨("opt", argH i) :: env, h, { w with node := { w.node with base := applyNodeOption s.setting w.node.base } }⟩) := by
  cases a <;> simp [Arg.baseStep?] at ha <;> subst ha <;>
    ctorsimp [callN, he, hi, callOpt]

/-- one `opt.apply(node)` -/
theorem applyB_step (g i : Nat) (s : Step) (env : GoIR.Env) (h : Heap) (w : KW) (he : env.get "node" = some nodeH)
    (hi : w.args[i]? = some (.custom s)) :
    execBlock W (g + 8) applyB ⟨("opt", argH i) :: env, h, w⟩ =
      some (.next, ⟨("opt", argH i) :: env, h, { w with node := applyCustomOption s w.node }⟩) := by
  ctorsimp [applyB, he, hi, applyOpt]

theorem popSt_cons (x : String × GV) (env : GoIR.Env) (h : Heap) (w : KW) : popSt ⟨x :: env, h, w⟩ env.length = ⟨env, h, w⟩ := by
  simp [popSt, Env.popTo]

/-- a loop `for _, opt := range …` whose body changes nothing but the node, element by element -/
theorem loop_gen (body : Block) (C : Nat) (step : Arg → Node → Node) (ok : Arg → Bool) (env : GoIR.Env)
    (hbody : ∀ (g i : Nat) (a : Arg) (h : Heap) (w : KW), ok a = true → w.args[i]? = some a →
      execBlock W (g + C) body ⟨("opt", argH i) :: env, h, w⟩ =
        some (.next, ⟨("opt", argH i) :: env, h, { w with node := step a w.node }⟩))
    (l : List (Arg × Nat)) : ∀ (f k : Nat) (h : Heap) (w : KW),
    (∀ p ∈ l, w.args[p.2]? = some p.1) → (∀ p ∈ l, ok p.1 = true) →
    loopPairs W (f + l.length + C + 1) "_" "opt" (pairsFrom k (idxs l)) body ⟨env, h, w⟩ =
      some (.next, ⟨env, h, { w with node := l.foldl (fun n p => step p.1 n) w.node }⟩) := by
  induction l with
  | nil => intro f k h w _ _; simp [idxs, pairsFrom, loopPairs_nil]
  | cons p l ih =>
    intro f k h w hl hok
    obtain ⟨a, i⟩ := p
    have hi : w.args[i]? = some a := hl (a, i) (by simp)
    have hoka : ok a = true := hok (a, i) (by simp)
    have hl' : ∀ p ∈ l, ({ w with node := step a w.node } : KW).args[p.2]? = some p.1 := fun p hp => hl p (by simp [hp])
    have hok' : ∀ p ∈ l, ok p.1 = true := fun p hp => hok p (by simp [hp])
    have hfuel : f + ((a, i) :: l).length + C + 1 = (f + l.length + 1 + C) + 1 := by simp; omega
    have hfuel' : f + l.length + 1 + C = f + l.length + C + 1 := by omega
    have hpush : (env.push "_" (.int k)).push "opt" (argH i) = ("opt", argH i) :: env := by simp [Env.push]
    rw [hfuel]
    simp only [idxs, List.map_cons, pairsFrom, loopPairs_cons, hpush]
    rw [hbody _ i a h w hoka hi, hfuel']
    simp only [popSt_cons]
    exact ih f (k + 1) h _ hl' hok'

def stepBase (a : Arg) (n : Node) : Node :=
  match a.baseStep? with
  | some s => { n with base := applyNodeOption s.setting n.base }
  | none => n
def stepCustom (a : Arg) (n : Node) : Node :=
  match a.customStep? with
  | some s => applyCustomOption s n
  | none => n

theorem foldl_stepBase (l : List (Arg × Nat)) : ∀ n : Node, l.foldl (fun n p => stepBase p.1 n) n = applyBases l n := by
  induction l with
  | nil => intro n; rfl
  | cons p l ih =>
    intro n
    obtain ⟨a, i⟩ := p
    have e1 : applyBases ((a, i) :: l) n = applyBases l (stepBase a n) := by
      cases hb : a.baseStep? <;> simp [applyBases, stepBase, hb]
    rw [e1]; exact ih _
theorem foldl_stepCustom (l : List (Arg × Nat)) : ∀ n : Node, l.foldl (fun n p => stepCustom p.1 n) n = applyCustoms l n := by
  induction l with
  | nil => intro n; rfl
  | cons p l ih =>
    intro n
    obtain ⟨a, i⟩ := p
    have e1 : applyCustoms ((a, i) :: l) n = applyCustoms l (stepCustom a n) := by
      cases hb : a.customStep? <;> simp [applyCustoms, stepCustom, hb]
    rw [e1]; exact ih _

theorem isBase_baseStep {a : Arg} (h : a.isBase = true) : ∃ s, a.baseStep? = some s := by
  cases a <;> simp [Arg.isBase] at h <;> exact ⟨_, rfl⟩
theorem isCustom_eq {a : Arg} (h : a.isCustom = true) : ∃ s, a = .custom s := by
  cases a <;> simp [Arg.isCustom] at h <;> exact ⟨_, rfl⟩

/-- `for _, opt := range baseOpts { opt(nv.BaseNode) }` -/
theorem loop_callB (nv : String) (hnv : ("opt" == nv) = false) (env : GoIR.Env) (he : env.get nv = some nodeH)
    (l : List (Arg × Nat)) (f k : Nat) (h : Heap) (w : KW)
    (hl : ∀ p ∈ l, w.args[p.2]? = some p.1) (hb : ∀ p ∈ l, p.1.isBase = true) :
    loopPairs W (f + l.length + 9) "_" "opt" (pairsFrom k (idxs l)) (callB nv) ⟨env, h, w⟩ =
      some (.next, ⟨env, h, { w with node := applyBases l w.node }⟩) := by
  rw [← foldl_stepBase]
  refine loop_gen (callB nv) 8 stepBase Arg.isBase env ?_ l f k h w hl hb
  intro g i a h w hok hi
  obtain ⟨s, hs⟩ := isBase_baseStep hok
  rw [callB_step nv hnv g i s a hs env h w he hi]; simp [stepBase, hs]

/-- `for _, opt := range opts { opt(n) }` -/
theorem loop_callN (env : GoIR.Env) (he : env.get "n" = some baseH)
    (l : List (Arg × Nat)) (f k : Nat) (h : Heap) (w : KW)
    (hl : ∀ p ∈ l, w.args[p.2]? = some p.1) (hb : ∀ p ∈ l, p.1.isBase = true) :
    loopPairs W (f + l.length + 9) "_" "opt" (pairsFrom k (idxs l)) callN ⟨env, h, w⟩ =
      some (.next, ⟨env, h, { w with node := applyBases l w.node }⟩) := by
  rw [← foldl_stepBase]
  refine loop_gen callN 8 stepBase Arg.isBase env ?_ l f k h w hl hb
  intro g i a h w hok hi
  obtain ⟨s, hs⟩ := isBase_baseStep hok
  rw [callN_step g i s a hs env h w he hi]; simp [stepBase, hs]

/-- `for _, opt := range customOpts { opt.apply(node) }` -/
theorem loop_applyB (env : GoIR.Env) (he : env.get "node" = some nodeH)
    (l : List (Arg × Nat)) (f k : Nat) (h : Heap) (w : KW)
    (hl : ∀ p ∈ l, w.args[p.2]? = some p.1) (hb : ∀ p ∈ l, p.1.isCustom = true) :
    loopPairs W (f + l.length + 9) "_" "opt" (pairsFrom k (idxs l)) applyB ⟨env, h, w⟩ =
      some (.next, ⟨env, h, { w with node := applyCustoms l w.node }⟩) := by
  rw [← foldl_stepCustom]
  refine loop_gen applyB 8 stepCustom Arg.isCustom env ?_ l f k h w hl hb
  intro g i a h w hok hi
  obtain ⟨s, rfl⟩ := isCustom_eq hok
  rw [applyB_step g i s env h w he hi]; simp [stepCustom, Arg.customStep?]

/-! ## `range` over a slice variable, and the argument list as a list of (value, position) pairs -/

theorem range_var (f : Nat) (x : String) (body : Block) (env : GoIR.Env) (h : Heap) (w : KW) (s : GV) (il : List Nat)
    (he : env.get x = some s) (hc : content w s = some il) :
    execStmt W (f + 3) (.rangeS "_" "opt" (.var x) body) ⟨env, h, w⟩ =
      loopPairs W (f + 2) "_" "opt" (pairsFrom 0 il) body ⟨env, h, w⟩ := by
  unfold content at hc
  split at hc
  · cases hc; simp [stmt_range, expr_var, he, pairsFrom, loopPairs_nil]
  · simp [stmt_range, expr_var, he, W_rangeOf, hc]
  · simp at hc

theorem zipIdx_lookup (args : List Arg) : ∀ p ∈ args.zipIdx, args[p.2]? = some p.1 :=
  fun _ hp => List.mem_zipIdx_iff_getElem?.mp hp
theorem idxs_zipIdx (args : List Arg) : idxs args.zipIdx = List.range args.length := by
  show List.map Prod.snd args.zipIdx = _
  rw [List.zipIdx_map_snd]; exact List.range_eq_range'.symm
/-- the variadic parameter `opts` holds the whole argument list -/
theorem opts_content (nd : Node) (args : List Arg) :
    content ⟨nd, args, [List.range args.length]⟩ optsH = some (idxs args.zipIdx) := by
  rw [idxs_zipIdx]; rfl

theorem filterMap_base_zipIdx (args : List Arg) :
    (args.zipIdx.filter (·.1.isBase)).filterMap (·.1.baseStep?) = args.filterMap Arg.baseStep? := by
  rw [List.filterMap_filter]
  have : (fun x : Arg × Nat => if x.1.isBase = true then x.1.baseStep? else none) = Arg.baseStep? ∘ Prod.fst := by
    funext x; obtain ⟨a, i⟩ := x; cases a <;> rfl
  rw [this, ← List.filterMap_map, List.zipIdx_map_fst]
theorem filterMap_custom_zipIdx (args : List Arg) :
    (args.zipIdx.filter (·.1.isCustom)).filterMap (·.1.customStep?) = args.filterMap Arg.customStep? := by
  rw [List.filterMap_filter]
  have : (fun x : Arg × Nat => if x.1.isCustom = true then x.1.customStep? else none) = Arg.customStep? ∘ Prod.fst := by
    funext x; obtain ⟨a, i⟩ := x; cases a <;> rfl
  rw [this, ← List.filterMap_map, List.zipIdx_map_fst]

theorem foldl_base_node (l : List Step) : ∀ n : Node,
    l.foldl (fun n s => { n with base := applyNodeOption s.setting n.base }) n =
      { n with base := l.foldl (fun b s => applyNodeOption s.setting b) n.base } := by
  induction l with
  | nil => intro n; rfl
  | cons s l ih => intro n; simp only [List.foldl_cons]; rw [ih]

/-! ## `NewBaseNode` -/

/-- calling a plain function whose only parameter is `opts`, when its body returns -/
theorem callFunc_opts (F : Func) (hr : F.recv = "") (hp : F.params = ["opts"]) (fuel : Nat) (v : GV) (h : Heap) (w : KW)
    (vs : List GV) (st : St KW) (hE : execBlock W fuel F.body ⟨[("opts", v)], h, w⟩ = some (.ret vs, st)) :
    callFunc W fuel F [v] h w = some (vs, st.heap, st.w) := by
  unfold callFunc; simp [hr, hp, Env.pushAll, Env.push, hE]

def nbS1 : Stmt :=
  (.define ["n"] E[(.un "&" (.lit "BaseNode" E[(.bin ":" (.var "maxRetries") (.int 1)), (.bin ":" (.var "wait") (.int 0))]))])
theorem NewBaseNode_body : NewBaseNode.body =
    .cons nbS1 (.cons (.rangeS "_" "opt" (.var "opts") callN) (.cons (.ret E[(.var "n")]) .nil)) := rfl

theorem NewBaseNode_core (f : Nat) (n0 : Node) (args : List Arg) (hb : ∀ a ∈ args, a.isBase = true) :
    run (f + args.length + 12) NewBaseNode n0 args = some ([baseH], { n0 with base := baseOf args }) := by
  have hl := zipIdx_lookup args
  have hbl : ∀ p ∈ args.zipIdx, p.1.isBase = true := by
    intro p hp; exact hb p.1 (by rw [← List.zipIdx_map_fst 0 args]; exact List.mem_map_of_mem hp)
  have s1 : execStmt W (f + args.length + 11) nbS1 ⟨[("opts", optsH)], [], ⟨n0, args, [List.range args.length]⟩⟩ =
      some (.next, ⟨[("n", baseH), ("opts", optsH)], [], ⟨{ n0 with base := newBaseNode }, args, [List.range args.length]⟩⟩) := by
    ctorsimp [nbS1, newBaseNode]
  have e : f + args.length + 7 + 2 = f + args.zipIdx.length + 9 := by simp [List.length_zipIdx]
  have s2 : execStmt W (f + args.length + 7 + 3) (.rangeS "_" "opt" (.var "opts") callN)
      ⟨[("n", baseH), ("opts", optsH)], [], ⟨{ n0 with base := newBaseNode }, args, [List.range args.length]⟩⟩ =
      some (.next, ⟨[("n", baseH), ("opts", optsH)], [],
        ⟨applyBases args.zipIdx { n0 with base := newBaseNode }, args, [List.range args.length]⟩⟩) := by
    rw [range_var (f + args.length + 7) "opts" callN _ _ _ optsH (idxs args.zipIdx) (by simp [Env.get]) (opts_content _ _), e,
      loop_callN _ (by simp [Env.get]) args.zipIdx f 0 _ _ hl hbl]
  have hfilter : args.zipIdx.filterMap (·.1.baseStep?) = args.filterMap Arg.baseStep? := by
    rw [show (fun x : Arg × Nat => x.1.baseStep?) = Arg.baseStep? ∘ Prod.fst from rfl, ← List.filterMap_map, List.zipIdx_map_fst]
  have hE : execBlock W (f + args.length + 12) NewBaseNode.body ⟨[("opts", optsH)], [], ⟨n0, args, [List.range args.length]⟩⟩ =
      some (.ret [baseH], ⟨[("n", baseH), ("opts", optsH)], [],
        ⟨applyBases args.zipIdx { n0 with base := newBaseNode }, args, [List.range args.length]⟩⟩) := by
    rw [NewBaseNode_body, block_cons, s1]
    simp only []
    rw [block_cons, s2]
    simp only []
    ctorsimp []
  unfold run init
  rw [callFunc_opts _ rfl rfl _ _ _ _ _ _ hE]
  simp [applyBases, hfilter, foldl_base_node, baseOf]

/-! ## `NewNode` -/

def nnS1 (x : String) : Stmt :=
  (.define [x] E[(.un "&" (.lit "CustomNode" E[(.bin ":" (.var "BaseNode") (.call "NewBaseNode" E[]))]))])
def nnRet : Stmt := (.ret E[(.un "&" (.lit "NodeBuilder" E[(.bin ":" (.var "CustomNode") (.var "node"))]))])
theorem NewNode_body : NewNode.body =
    .cons (nnS1 "node") (.cons (.declare "customOpts" "[]CustomNodeOption") (.cons (.declare "baseOpts" "[]NodeOption")
      (.cons (.rangeS "_" "opt" (.var "opts") sortN) (.cons (.rangeS "_" "opt" (.var "baseOpts") (callB "node"))
        (.cons (.rangeS "_" "opt" (.var "customOpts") applyB) (.cons nnRet .nil)))))) := rfl

theorem filter_length_le (p : Arg × Nat → Bool) (args : List Arg) : (args.zipIdx.filter p).length ≤ args.length :=
  Nat.le_trans (List.length_filter_le _ _) (by simp [List.length_zipIdx])

/-- the base options of an argument list, with their positions -/
abbrev basesOf (args : List Arg) : List (Arg × Nat) := args.zipIdx.filter (·.1.isBase)
/-- the custom options of an argument list, with their positions -/
abbrev customsOf (args : List Arg) : List (Arg × Nat) := args.zipIdx.filter (·.1.isCustom)

theorem NewNode_core (f : Nat) (n0 : Node) (args : List Arg) :
    run (f + args.length + 18) NewNode n0 args = some ([builderH], nodeOf args) := by
  have hl := zipIdx_lookup args
  have s1 : execStmt W (f + args.length + 17) (nnS1 "node") ⟨[("opts", optsH)], [], ⟨n0, args, [List.range args.length]⟩⟩ =
      some (.next, ⟨[("node", nodeH), ("opts", optsH)], [], ⟨emptyNode, args, [List.range args.length]⟩⟩) := by
    ctorsimp [nnS1, emptyNode]
  have s2 : execStmt W (f + args.length + 16) (.declare "customOpts" "[]CustomNodeOption")
      ⟨[("node", nodeH), ("opts", optsH)], [], ⟨emptyNode, args, [List.range args.length]⟩⟩ =
      some (.next, ⟨[("customOpts", .nil), ("node", nodeH), ("opts", optsH)], [], ⟨emptyNode, args, [List.range args.length]⟩⟩) := by
    ctorsimp []
  have s3 : execStmt W (f + args.length + 15) (.declare "baseOpts" "[]NodeOption")
      ⟨[("customOpts", .nil), ("node", nodeH), ("opts", optsH)], [], ⟨emptyNode, args, [List.range args.length]⟩⟩ =
      some (.next, ⟨envN .nil .nil, [], ⟨emptyNode, args, [List.range args.length]⟩⟩) := by
    ctorsimp [envN]
  obtain ⟨cv, bv, w', h1, h2, h3, h4, h5⟩ :=
    loop_sortN args.zipIdx f 0 .nil .nil [] [] [] ⟨emptyNode, args, [List.range args.length]⟩ hl rfl rfl
  have s4 : execStmt W (f + args.length + 11 + 3) (.rangeS "_" "opt" (.var "opts") sortN)
      ⟨envN .nil .nil, [], ⟨emptyNode, args, [List.range args.length]⟩⟩ = some (.next, ⟨envN cv bv, [], w'⟩) := by
    rw [range_var (f + args.length + 11) "opts" sortN _ _ _ optsH (idxs args.zipIdx) (by simp [envN, Env.get]) (opts_content _ _),
      show f + args.length + 11 + 2 = f + args.zipIdx.length + 13 from by simp [List.length_zipIdx]]
    exact h1
  -- the base options
  have hlb : ∀ p ∈ basesOf args, w'.args[p.2]? = some p.1 := by
    intro p hp; rw [h3]; exact hl p (List.mem_filter.mp hp).1
  have hbb : ∀ p ∈ basesOf args, p.1.isBase = true := fun p hp => (List.mem_filter.mp hp).2
  have h5' : content w' bv = some (idxs (basesOf args)) := by rw [h5]; rfl
  have hlenb : (basesOf args).length ≤ args.length := filter_length_le _ args
  have s5 : execStmt W (f + args.length + 10 + 3) (.rangeS "_" "opt" (.var "baseOpts") (callB "node")) ⟨envN cv bv, [], w'⟩ =
      some (.next, ⟨envN cv bv, [], { w' with node := applyBases (basesOf args) w'.node }⟩) := by
    rw [range_var (f + args.length + 10) "baseOpts" (callB "node") _ _ _ bv _ (by simp [envN, Env.get]) h5',
      show f + args.length + 10 + 2 = (f + args.length + 3 - (basesOf args).length) +
        (basesOf args).length + 9 from by omega]
    exact loop_callB "node" (by decide) (envN cv bv) (by simp [envN, Env.get]) _ _ 0 [] w' hlb hbb
  -- the custom options
  have hlc : ∀ p ∈ customsOf args,
      ({ w' with node := applyBases (basesOf args) w'.node } : KW).args[p.2]? = some p.1 := by
    intro p hp; show w'.args[p.2]? = some p.1; rw [h3]; exact hl p (List.mem_filter.mp hp).1
  have hcc : ∀ p ∈ customsOf args, p.1.isCustom = true := fun p hp => (List.mem_filter.mp hp).2
  have h4' : content ({ w' with node := applyBases (basesOf args) w'.node } : KW) cv =
      some (idxs (customsOf args)) := by
    show content w' cv = _; rw [h4]; rfl
  have hlenc : (customsOf args).length ≤ args.length := filter_length_le _ args
  have s6 : execStmt W (f + args.length + 9 + 3) (.rangeS "_" "opt" (.var "customOpts") applyB)
      ⟨envN cv bv, [], { w' with node := applyBases (basesOf args) w'.node }⟩ =
      some (.next, ⟨envN cv bv, [], { w' with node := applyCustoms (customsOf args) (applyBases (basesOf args) w'.node) }⟩) := by
    rw [range_var (f + args.length + 9) "customOpts" applyB _ _ _ cv _ (by simp [envN, Env.get]) h4',
      show f + args.length + 9 + 2 = (f + args.length + 2 - (customsOf args).length) +
        (customsOf args).length + 9 from by omega]
    exact loop_applyB (envN cv bv) (by simp [envN, Env.get]) _ _ 0 [] _ hlc hcc
  have s7 : ∀ w : KW, execStmt W (f + args.length + 11) nnRet ⟨envN cv bv, [], w⟩ = some (.ret [builderH], ⟨envN cv bv, [], w⟩) := by
    intro w; ctorsimp [nnRet, envN]
  have hE : execBlock W (f + args.length + 18) NewNode.body ⟨[("opts", optsH)], [], ⟨n0, args, [List.range args.length]⟩⟩ =
      some (.ret [builderH], ⟨envN cv bv, [], { w' with node := applyCustoms (customsOf args) (applyBases (basesOf args) w'.node) }⟩) := by
    rw [NewNode_body, block_cons, s1]; simp only []
    rw [block_cons, s2]; simp only []
    rw [block_cons, s3]; simp only []
    rw [block_cons, s4]; simp only []
    rw [block_cons, s5]; simp only []
    rw [block_cons, s6]; simp only []
    rw [block_cons, s7]
  unfold run init
  rw [callFunc_opts _ rfl rfl _ _ _ _ _ _ hE]
  simp only [Option.map_some, h2, applyCustoms, applyBases, filterMap_custom_zipIdx, filterMap_base_zipIdx, nodeOf]

/-! ## `NewBatchNode` -/

def nbRet : Stmt :=
  (.ret E[(.un "&" (.lit "BatchNodeBuilder" E[(.bin ":" (.var "BatchNode") (.un "&" (.lit "BatchNode" E[(.bin ":" (.var "CustomNode") (.var "customNode"))])))]))])
theorem NewBatchNode_body : NewBatchNode.body =
    .cons (nnS1 "customNode") (.cons (.declare "baseOpts" "[]NodeOption")
      (.cons (.rangeS "_" "opt" (.var "opts") sortB) (.cons (.rangeS "_" "opt" (.var "baseOpts") (callB "customNode"))
        (.cons nbRet .nil)))) := rfl

theorem applyBases_eq (l : List (Arg × Nat)) (n : Node) :
    applyBases l n = { n with base := (l.filterMap (·.1.baseStep?)).foldl (fun b s => applyNodeOption s.setting b) n.base } := by
  unfold applyBases; rw [foldl_base_node]

theorem NewBatchNode_core (f : Nat) (n0 : Node) (args : List Arg) :
    run (f + args.length + 17) NewBatchNode n0 args = some ([batchBuilderH], batchOf args) := by
  have hl := zipIdx_lookup args
  have s1 : execStmt W (f + args.length + 16) (nnS1 "customNode") ⟨[("opts", optsH)], [], ⟨n0, args, [List.range args.length]⟩⟩ =
      some (.next, ⟨[("customNode", nodeH), ("opts", optsH)], [], ⟨emptyNode, args, [List.range args.length]⟩⟩) := by
    ctorsimp [nnS1, emptyNode]
  have s2 : execStmt W (f + args.length + 15) (.declare "baseOpts" "[]NodeOption")
      ⟨[("customNode", nodeH), ("opts", optsH)], [], ⟨emptyNode, args, [List.range args.length]⟩⟩ =
      some (.next, ⟨envB .nil, [], ⟨emptyNode, args, [List.range args.length]⟩⟩) := by
    ctorsimp [envB]
  obtain ⟨bv, w', h1, h2, h3, h5⟩ :=
    loop_sortB args.zipIdx f 0 .nil [] [] ⟨emptyNode, args, [List.range args.length]⟩ hl rfl
  have s3 : execStmt W (f + args.length + 11 + 3) (.rangeS "_" "opt" (.var "opts") sortB)
      ⟨envB .nil, [], ⟨emptyNode, args, [List.range args.length]⟩⟩ = some (.next, ⟨envB bv, [], w'⟩) := by
    rw [range_var (f + args.length + 11) "opts" sortB _ _ _ optsH (idxs args.zipIdx) (by simp [envB, Env.get]) (opts_content _ _),
      show f + args.length + 11 + 2 = f + args.zipIdx.length + 13 from by simp [List.length_zipIdx]]
    exact h1
  have hlb : ∀ p ∈ basesOf args, w'.args[p.2]? = some p.1 := by
    intro p hp; rw [h3]; exact hl p (List.mem_filter.mp hp).1
  have hbb : ∀ p ∈ basesOf args, p.1.isBase = true := fun p hp => (List.mem_filter.mp hp).2
  have h5' : content w' bv = some (idxs (basesOf args)) := by rw [h5]; rfl
  have hlenb : (basesOf args).length ≤ args.length := filter_length_le _ args
  have s4 : execStmt W (f + args.length + 10 + 3) (.rangeS "_" "opt" (.var "baseOpts") (callB "customNode")) ⟨envB bv, [], w'⟩ =
      some (.next, ⟨envB bv, [], { w' with node := applyBases (basesOf args) w'.node }⟩) := by
    rw [range_var (f + args.length + 10) "baseOpts" (callB "customNode") _ _ _ bv _ (by simp [envB, Env.get]) h5',
      show f + args.length + 10 + 2 = (f + args.length + 3 - (basesOf args).length) +
        (basesOf args).length + 9 from by omega]
    exact loop_callB "customNode" (by decide) (envB bv) (by simp [envB, Env.get]) _ _ 0 [] w' hlb hbb
  have s5 : ∀ w : KW, execStmt W (f + args.length + 12) nbRet ⟨envB bv, [], w⟩ =
      some (.ret [batchBuilderH], ⟨envB bv, [], { w with node := { w.node with batchPrepFunc := none, batchPostFunc := none } }⟩) := by
    intro w; ctorsimp [nbRet, envB]
  have hE : execBlock W (f + args.length + 17) NewBatchNode.body ⟨[("opts", optsH)], [], ⟨n0, args, [List.range args.length]⟩⟩ =
      some (.ret [batchBuilderH], ⟨envB bv, [], { w' with node :=
        { applyBases (basesOf args) w'.node with batchPrepFunc := none, batchPostFunc := none } }⟩) := by
    rw [NewBatchNode_body, block_cons, s1]; simp only []
    rw [block_cons, s2]; simp only []
    rw [block_cons, s3]; simp only []
    rw [block_cons, s4]; simp only []
    rw [block_cons, s5]
  unfold run init
  rw [callFunc_opts _ rfl rfl _ _ _ _ _ _ hE]
  simp only [Option.map_some, h2, applyBases_eq, filterMap_base_zipIdx, batchOf, foldl_base_node]
  rfl

/-! ## the statements at every sufficient recursion depth -/

/-- `o.apply(n)` for a `CustomNodeOption` `o` (argument value `i`, doing what step `s` does): the node becomes
    `applyCustomOption s node`; nothing is returned, nothing else changes. Depth `≥ 5`. -/
theorem customNodeOption_apply_refines_of_le {fuel : Nat} (hf : 5 ≤ fuel) (i : Nat) (s : Step) (h : Heap) (w : KW)
    (hi : w.args[i]? = some (.custom s)) :
    callFunc ctorWorld fuel customNodeOption_apply [argH i, nodeH] h w = some ([], h, { w with node := applyCustomOption s w.node }) := by
  obtain ⟨f, rfl⟩ := exists_add hf; exact customNodeOption_apply_core f i s h w hi

/-- `NewBaseNode(opts...)` (the parameter is `...NodeOption`: every argument is a function on `*BaseNode`): returns the `*BaseNode`
    holding the defaults `maxRetries = 1`, `wait = 0` (other fields zero) with the options applied in order; whatever the memory held
    before (`n0`) does not matter, the rest of the node record is untouched. Depth `≥ |opts| + 12`. -/
theorem NewBaseNode_refines_of_le {fuel : Nat} (n0 : Node) (args : List Arg) (hb : ∀ a ∈ args, a.isBase = true)
    (hf : args.length + 12 ≤ fuel) :
    run fuel NewBaseNode n0 args = some ([baseH], { n0 with base := baseOf args }) := by
  obtain ⟨f, rfl⟩ := exists_add hf
  rw [show f + (args.length + 12) = f + args.length + 12 from by omega]; exact NewBaseNode_core f n0 args hb

/-- `NewNode(opts...)`: returns the builder wrapping the node that results from `emptyNode` by ALL base options (`NodeOption`s and
    raw `func(*BaseNode)`s) in argument order, THEN all custom options in argument order; anything else in the argument list is
    ignored. No hypothesis on the argument list. Depth `≥ |opts| + 18`. -/
theorem NewNode_refines_of_le {fuel : Nat} (n0 : Node) (args : List Arg) (hf : args.length + 18 ≤ fuel) :
    run fuel NewNode n0 args = some ([builderH], nodeOf args) := by
  obtain ⟨f, rfl⟩ := exists_add hf
  rw [show f + (args.length + 18) = f + args.length + 18 from by omega]; exact NewNode_core f n0 args

/-- `NewBatchNode(opts...)`: returns the batch builder wrapping the node that results from `emptyNode` by the base options in
    argument order; custom options and anything else are ignored. No hypothesis on the argument list. Depth `≥ |opts| + 17`. -/
theorem NewBatchNode_refines_of_le {fuel : Nat} (n0 : Node) (args : List Arg) (hf : args.length + 17 ≤ fuel) :
    run fuel NewBatchNode n0 args = some ([batchBuilderH], batchOf args) := by
  obtain ⟨f, rfl⟩ := exists_add hf
  rw [show f + (args.length + 17) = f + args.length + 17 from by omega]; exact NewBatchNode_core f n0 args

/-- the recursion depth of the executable test (`GoIR/CtorTest.lean`) -/
def F : Nat := 40
theorem NewBaseNode_refines (n0 : Node) (args : List Arg) (hb : ∀ a ∈ args, a.isBase = true) (hlen : args.length ≤ 28) :
    run F NewBaseNode n0 args = some ([baseH], { n0 with base := baseOf args }) :=
  NewBaseNode_refines_of_le n0 args hb (by unfold F; omega)
theorem NewNode_refines (n0 : Node) (args : List Arg) (hlen : args.length ≤ 22) :
    run F NewNode n0 args = some ([builderH], nodeOf args) := NewNode_refines_of_le n0 args (by unfold F; omega)
theorem NewBatchNode_refines (n0 : Node) (args : List Arg) (hlen : args.length ≤ 23) :
    run F NewBatchNode n0 args = some ([batchBuilderH], batchOf args) := NewBatchNode_refines_of_le n0 args (by unfold F; omega)

/-! ## against the model's own constructor functions (`Config.newNode`, `Config.newBatchNode`) -/

theorem base_eq_filter (args : List Arg) (hwf : ∀ a ∈ args, a.wf = true) :
    args.filterMap Arg.baseStep? = (args.filterMap Arg.step?).filter (fun o => o.setting.isNodeOption) := by
  induction args with
  | nil => rfl
  | cons a l ih =>
    have ha : a.wf = true := hwf a (by simp)
    have ih' := ih (fun a h => hwf a (by simp [h]))
    cases a <;> simp_all [Arg.baseStep?, Arg.step?, Arg.wf, List.filterMap_cons, List.filter_cons]
theorem custom_eq_filter (args : List Arg) (hwf : ∀ a ∈ args, a.wf = true) :
    args.filterMap Arg.customStep? = (args.filterMap Arg.step?).filter (fun o => !o.setting.isNodeOption) := by
  induction args with
  | nil => rfl
  | cons a l ih =>
    have ha : a.wf = true := hwf a (by simp)
    have ih' := ih (fun a h => hwf a (by simp [h]))
    cases a <;> simp_all [Arg.customStep?, Arg.step?, Arg.wf, List.filterMap_cons, List.filter_cons]

/-- on well-typed argument lists (`Arg.wf`: a value is a `NodeOption` / `func(*BaseNode)` iff the model classifies its setting as a
    node option) the explicit folds are the model's constructor functions of the option word -/
theorem nodeOf_eq_newNode (args : List Arg) (hwf : ∀ a ∈ args, a.wf = true) : nodeOf args = newNode (args.filterMap Arg.step?) := by
  unfold nodeOf newNode; rw [base_eq_filter args hwf, custom_eq_filter args hwf]
theorem batchOf_eq_newBatchNode (args : List Arg) (hwf : ∀ a ∈ args, a.wf = true) :
    batchOf args = newBatchNode (args.filterMap Arg.step?) := by
  unfold batchOf newBatchNode; rw [base_eq_filter args hwf]

theorem ofStep_wf (s : Step) : (Arg.ofStep s).wf = true := by
  unfold Arg.ofStep; cases h : s.setting.isNodeOption <;> simp [Arg.wf, h]
theorem ofStep_step (s : Step) : (Arg.ofStep s).step? = some s := by
  unfold Arg.ofStep; cases h : s.setting.isNodeOption <;> simp [Arg.step?]
theorem filterMap_ofStep (opts : List Step) : (opts.map Arg.ofStep).filterMap Arg.step? = opts := by
  induction opts with
  | nil => rfl
  | cons s l ih => simp [List.filterMap_cons, ofStep_step, ih]
theorem map_ofStep_wf (opts : List Step) : ∀ a ∈ opts.map Arg.ofStep, a.wf = true := by
  intro a ha; obtain ⟨s, _, rfl⟩ := List.mem_map.mp ha; exact ofStep_wf s

/-- `NewNode` called with the option values of a model option word builds the model's `newNode` of that word (so that the
    C19 theorems about option words — `Props/C19.lean`, `build` — speak about the Go constructor) -/
theorem NewNode_refines_newNode {fuel : Nat} (n0 : Node) (opts : List Step) (hf : opts.length + 18 ≤ fuel) :
    run fuel NewNode n0 (opts.map Arg.ofStep) = some ([builderH], newNode opts) := by
  rw [NewNode_refines_of_le n0 _ (by simpa using hf), nodeOf_eq_newNode _ (map_ofStep_wf opts), filterMap_ofStep]
/-- … more generally with any well-typed argument list (raw `func(*BaseNode)` values, junk) -/
theorem NewNode_refines_newNode_of_wf {fuel : Nat} (n0 : Node) (args : List Arg) (hwf : ∀ a ∈ args, a.wf = true)
    (hf : args.length + 18 ≤ fuel) :
    run fuel NewNode n0 args = some ([builderH], newNode (args.filterMap Arg.step?)) := by
  rw [NewNode_refines_of_le n0 _ hf, nodeOf_eq_newNode _ hwf]
theorem NewBatchNode_refines_newBatchNode {fuel : Nat} (n0 : Node) (opts : List Step) (hf : opts.length + 17 ≤ fuel) :
    run fuel NewBatchNode n0 (opts.map Arg.ofStep) = some ([batchBuilderH], newBatchNode opts) := by
  rw [NewBatchNode_refines_of_le n0 _ (by simpa using hf), batchOf_eq_newBatchNode _ (map_ofStep_wf opts), filterMap_ofStep]
theorem NewBatchNode_refines_newBatchNode_of_wf {fuel : Nat} (n0 : Node) (args : List Arg) (hwf : ∀ a ∈ args, a.wf = true)
    (hf : args.length + 17 ≤ fuel) :
    run fuel NewBatchNode n0 args = some ([batchBuilderH], newBatchNode (args.filterMap Arg.step?)) := by
  rw [NewBatchNode_refines_of_le n0 _ hf, batchOf_eq_newBatchNode _ hwf]

/-- `NewBaseNode` is what `NewNode` / `NewBatchNode` do to the `BaseNode` part: for a word of node options,
    `NewBaseNode(opts...)` holds `(newBatchNode opts).base` -/
theorem baseOf_eq_newBatchNode_base (opts : List Step) (hn : ∀ s ∈ opts, s.setting.isNodeOption = true) :
    baseOf (opts.map Arg.ofStep) = (newBatchNode opts).base := by
  have hfil : opts.filter (fun o => o.setting.isNodeOption) = opts := List.filter_eq_self.mpr hn
  have hb : (opts.map Arg.ofStep).filterMap Arg.baseStep? = opts := by
    rw [base_eq_filter _ (map_ofStep_wf opts), filterMap_ofStep, hfil]
  unfold baseOf newBatchNode; rw [hb, hfil, foldl_base_node]; rfl

/-! ## C19: the order in which base and custom options are interleaved in the argument list does not matter -/

theorem baseStep_filter (args : List Arg) : (args.filter Arg.isBase).filterMap Arg.baseStep? = args.filterMap Arg.baseStep? := by
  induction args with
  | nil => rfl
  | cons a l ih => cases a <;> simp [List.filter_cons, List.filterMap_cons, Arg.isBase, Arg.baseStep?, ih]
theorem customStep_filter (args : List Arg) :
    (args.filter Arg.isCustom).filterMap Arg.customStep? = args.filterMap Arg.customStep? := by
  induction args with
  | nil => rfl
  | cons a l ih => cases a <;> simp [List.filter_cons, List.filterMap_cons, Arg.isCustom, Arg.customStep?, ih]

/-- the node `NewNode` builds depends only on the sequence of base steps and the sequence of custom steps -/
theorem nodeOf_congr {args₁ args₂ : List Arg} (hb : args₁.filterMap Arg.baseStep? = args₂.filterMap Arg.baseStep?)
    (hc : args₁.filterMap Arg.customStep? = args₂.filterMap Arg.customStep?) : nodeOf args₁ = nodeOf args₂ := by
  unfold nodeOf; rw [hb, hc]

/-- Two argument lists with the same subsequence of base options (`NodeOption` / `func(*BaseNode)` values) and the same subsequence
    of custom options make `NewNode` return the same builder around the same node — however the two kinds are interleaved, whatever
    else (junk) the lists contain, whatever the memory held before, at any sufficient recursion depths. -/
theorem NewNode_order_independent_of_interleaving {fuel₁ fuel₂ : Nat} (n₁ n₂ : Node) (args₁ args₂ : List Arg)
    (hb : args₁.filter Arg.isBase = args₂.filter Arg.isBase) (hc : args₁.filter Arg.isCustom = args₂.filter Arg.isCustom)
    (hf₁ : args₁.length + 18 ≤ fuel₁) (hf₂ : args₂.length + 18 ≤ fuel₂) :
    run fuel₁ NewNode n₁ args₁ = run fuel₂ NewNode n₂ args₂ := by
  have h : nodeOf args₁ = nodeOf args₂ :=
    nodeOf_congr (by rw [← baseStep_filter args₁, hb, baseStep_filter]) (by rw [← customStep_filter args₁, hc, customStep_filter])
  rw [NewNode_refines_of_le n₁ args₁ hf₁, NewNode_refines_of_le n₂ args₂ hf₂, h]

/-- in particular: `NewNode(args...)` = `NewNode(base options of args..., custom options of args...)` -/
theorem NewNode_eq_sorted {fuel fuel' : Nat} (n0 n0' : Node) (args : List Arg) (hf : args.length + 18 ≤ fuel)
    (hf' : (args.filter Arg.isBase ++ args.filter Arg.isCustom).length + 18 ≤ fuel') :
    run fuel NewNode n0 args = run fuel' NewNode n0' (args.filter Arg.isBase ++ args.filter Arg.isCustom) := by
  have hbc : (args.filter Arg.isCustom).filter Arg.isBase = [] := by
    rw [List.filter_filter]; apply List.filter_eq_nil_iff.mpr; intro a _; cases a <;> simp [Arg.isBase, Arg.isCustom]
  have hcb : (args.filter Arg.isBase).filter Arg.isCustom = [] := by
    rw [List.filter_filter]; apply List.filter_eq_nil_iff.mpr; intro a _; cases a <;> simp [Arg.isBase, Arg.isCustom]
  exact NewNode_order_independent_of_interleaving n0 n0' _ _
    (by rw [List.filter_append, hbc, List.filter_filter]; simp)
    (by rw [List.filter_append, hcb, List.filter_filter]; simp) hf hf'

/-- the model-level form: two option words with the same node-option subword and the same custom-option subword -/
theorem NewNode_order_independent_words {fuel₁ fuel₂ : Nat} (n₁ n₂ : Node) (opts₁ opts₂ : List Step)
    (hb : opts₁.filter (fun o => o.setting.isNodeOption) = opts₂.filter (fun o => o.setting.isNodeOption))
    (hc : opts₁.filter (fun o => !o.setting.isNodeOption) = opts₂.filter (fun o => !o.setting.isNodeOption))
    (hf₁ : opts₁.length + 18 ≤ fuel₁) (hf₂ : opts₂.length + 18 ≤ fuel₂) :
    run fuel₁ NewNode n₁ (opts₁.map Arg.ofStep) = run fuel₂ NewNode n₂ (opts₂.map Arg.ofStep) := by
  rw [NewNode_refines_newNode n₁ opts₁ hf₁, NewNode_refines_newNode n₂ opts₂ hf₂]
  unfold newNode; rw [hb, hc]

end Flyt.Refine.Ctors
