import FlytModel.Refine.SourceBase
import FlytModel.Props.C17
/-!
# C17 (function-style nodes pass values between phases unchanged) stated about the INTERPRETED SOURCE

The run-level theorems of `Props/C17.lean` are about `runLeaf` and `runItem`; their interpreted counterparts are
`runLeafIR fuel Expected.IR.Run …` (`Run_refines_runLeaf_of_le`) and `runItemIR fuel Expected.IR.runExecWithRetries …`
(`runExecWithRetries_refines_runItem_of_le`). No hypothesis beyond the model theorem's and the depth bound.

**Where the adapters live.** In the leaf world the node's `Prep` / `Exec` / `Post` METHODS are world entries; for a function-style node
(`Style.res` / `Style.any`) the world entry applies the adapter functions of the model (`prepRet`, `execArg`, `execRet`, `postArgs`) and
records what the USER function is handed. So what these corollaries derive from the interpreted source of `Run` is the threading
BETWEEN the method calls: the value `Prep` returned is the argument of every `Exec` call, the value `Exec` (or the fallback) returned and
the prep value are the arguments of `Post`, unchanged. That the adapters THEMSELVES (`CustomNode.Prep/Exec/Post`, the Any-style
wrappers) compute `prepRet` / `execArg` / … is the subject of `Refine/Adapters.lean`, in its own world.
-/
set_option autoImplicit false
namespace Flyt.Refine.Source
open Flyt Flyt.Spec Flyt.GoIR Flyt.Refine Flyt.Proofs.Attempts Flyt.Proofs.Leaf Flyt.Proofs.LeafSpec Flyt.Proofs.Payload Flyt.Proofs.Item
open Flyt.Proofs.Styles

/-! ### `Run` on a single node -/

/-- **In every interpreted run, every exec attempt receives the prep payload** (a Result-style exec function as `NewResult(pv)`, any
    other as `pv`), `pv` = the value prep returned. Mirrors `Props.C17.run_exec_receives_prep_payload`. -/
theorem C17_run_exec_receives_prep_payload_for_interpreted_source (kind : CtxKind) (n v sid : Nat) (cfg : LeafCfg) (scr : LeafScript)
    (hp : PlainPayloads cfg scr) (fuel : Nat) (hf : runFuel cfg ≤ fuel) :
    ∃ evs ctx' out, runLeafIR fuel Flyt.Expected.IR.Run kind n v sid cfg scr .live = some (evs, ctx', out) ∧
      ∀ (n' v' k : Nat) (a : Val), Ev.exec n' v' k a ∈ evs →
        ∃ pv, prepValue cfg scr = some pv ∧ a = (match cfg.execS with | .res => (newResult pv).box | _ => pv) :=
  leaf_transfer kind n v sid cfg scr .live fuel hf
    (fun evs _ _ => ∀ (n' v' k : Nat) (a : Val), Ev.exec n' v' k a ∈ evs →
        ∃ pv, prepValue cfg scr = some pv ∧ a = (match cfg.execS with | .res => (newResult pv).box | _ => pv))
    (fun n' v' k a h => Props.C17.run_exec_receives_prep_payload kind n v sid cfg scr hp n' v' k a h)

/-- **In every interpreted run, post receives the prep payload and — when an attempt (not the fallback) produced the result — exactly the
    Result that attempt's exec function returned**, seen through post's style. Mirrors `Props.C17.run_post_receives_exec_result`. -/
theorem C17_run_post_receives_exec_result_for_interpreted_source (kind : CtxKind) (n v sid : Nat) (cfg : LeafCfg) (scr : LeafScript)
    (hp : PlainPayloads cfg scr) (fuel : Nat) (hf : runFuel cfg ≤ fuel) :
    ∃ evs ctx' out, runLeafIR fuel Flyt.Expected.IR.Run kind n v sid cfg scr .live = some (evs, ctx', out) ∧
      ∀ (s : Nat) (a b : Val), Ev.post n v s a b ∈ evs →
        ∃ pv, prepValue cfg scr = some pv ∧
          a = (match cfg.postS with | .res => (newResult pv).box | _ => pv) ∧
          (fbCalls evs = [] → cfg.execS ≠ .absent → 1 ≤ cfg.effBudget →
            ∃ k y, execCount evs = k + 1 ∧ (scr.exec k).res = .ok y ∧ b = received cfg.postS (returned cfg.execS y)) :=
  leaf_transfer kind n v sid cfg scr .live fuel hf
    (fun evs _ _ => ∀ (s : Nat) (a b : Val), Ev.post n v s a b ∈ evs →
        ∃ pv, prepValue cfg scr = some pv ∧
          a = (match cfg.postS with | .res => (newResult pv).box | _ => pv) ∧
          (fbCalls evs = [] → cfg.execS ≠ .absent → 1 ≤ cfg.effBudget →
            ∃ k y, execCount evs = k + 1 ∧ (scr.exec k).res = .ok y ∧ b = received cfg.postS (returned cfg.execS y)))
    (fun s a b h => Props.C17.run_post_receives_exec_result kind n v sid cfg scr hp s a b h)

/-- **Every style mix, decoded, IS the plain method-style node**: the interpreted `Run` on a node of configuration `cfg` whose functions
    behave as the base script `b` written in `cfg`'s styles, and the interpreted `Run` on the same node with METHODS behaving as `b`,
    make the same callbacks in the same order with the same payloads (`decEv cfg` reads the payload out of the wire value), leave the
    same context and return the same outcome — every configuration, every base script of plain payloads, every context.
    Mirrors `Props.C17.any_style_mix_is_the_method_node`, both runs interpreted. -/
theorem C17_any_style_mix_is_the_method_node_for_interpreted_source (kind : CtxKind) (n v sid : Nat) (cfg : LeafCfg) (b : LeafScript)
    (hb : PlainScript b) (ctx : Ctx) (fuel : Nat) (hf : runFuel cfg ≤ fuel) (fuel' : Nat) (hf' : runFuel (flatCfg cfg) ≤ fuel') :
    ∃ evs ctx' out evs₀,
      runLeafIR fuel Flyt.Expected.IR.Run kind n v sid cfg (encScript cfg b) ctx = some (evs, ctx', out) ∧
      runLeafIR fuel' Flyt.Expected.IR.Run kind n v sid (flatCfg cfg) b ctx = some (evs₀, ctx', out) ∧
      evs.map (decEv cfg) = evs₀ := by
  obtain ⟨h1, h2⟩ := Props.C17.any_style_mix_is_the_method_node kind n v sid cfg b hb ctx
  refine ⟨_, _, _, _, Run_refines_runLeaf_of_le kind n v sid cfg (encScript cfg b) ctx fuel hf, ?_, h1⟩
  rw [Run_refines_runLeaf_of_le kind n v sid (flatCfg cfg) b ctx fuel' hf']
  exact congrArg some (Prod.ext rfl h2.symm)

/-- **The Result-style and Any-style variants are interchangeable**: the interpreted `Run` on two nodes that differ only in the style of
    their prep / exec / post functions observes the same payloads at every callback and ends the same way.
    Mirrors `Props.C17.styles_interchangeable`, both runs interpreted. -/
theorem C17_styles_interchangeable_for_interpreted_source (kind : CtxKind) (n v sid : Nat) (cfg cfg' : LeafCfg) (b : LeafScript)
    (hsame : flatCfg cfg = flatCfg cfg') (hb : PlainScript b) (ctx : Ctx)
    (fuel : Nat) (hf : runFuel cfg ≤ fuel) (fuel' : Nat) (hf' : runFuel cfg' ≤ fuel') :
    ∃ evs evs' ctx' out,
      runLeafIR fuel Flyt.Expected.IR.Run kind n v sid cfg (encScript cfg b) ctx = some (evs, ctx', out) ∧
      runLeafIR fuel' Flyt.Expected.IR.Run kind n v sid cfg' (encScript cfg' b) ctx = some (evs', ctx', out) ∧
      evs.map (decEv cfg) = evs'.map (decEv cfg') := by
  obtain ⟨h1, h2⟩ := Props.C17.styles_interchangeable kind n v sid cfg cfg' b hsame hb ctx
  refine ⟨_, _, _, _, Run_refines_runLeaf_of_le kind n v sid cfg (encScript cfg b) ctx fuel hf, ?_, h1⟩
  rw [Run_refines_runLeaf_of_le kind n v sid cfg' (encScript cfg' b) ctx fuel' hf']
  exact congrArg some (Prod.ext rfl h2.symm)

/-! ### inside batches: the interpreted `runExecWithRetries` -/

/-- **… inside batches too**: a Result-style and an Any-style exec function of a batch node observe the same item payload at every
    attempt, and the item ends with the same slot / error. Mirrors `Props.C17.batch_styles_interchangeable`, both runs interpreted. -/
theorem C17_batch_styles_interchangeable_for_interpreted_source (kind : CtxKind) (n v : Nat) (cfg : BatchCfg) (i : Nat) (item : Result)
    (b : ItemScript) (ctx : Ctx) (hs : cfg.execS = .res ∨ cfg.execS = .any)
    (fuel : Nat) (hf : itemFuel cfg ≤ fuel) (fuel' : Nat) (hf' : itemFuel { cfg with execS := .any } ≤ fuel') :
    ∃ evs ctx' res evs₀,
      runItemIR fuel Flyt.Expected.IR.runExecWithRetries kind n v cfg i item (encItem cfg.execS b) ctx = some (evs, ctx', res) ∧
      runItemIR fuel' Flyt.Expected.IR.runExecWithRetries kind n v { cfg with execS := .any } i item b ctx = some (evs₀, ctx', res) ∧
      evs.map (decB cfg.execS) = evs₀ := by
  obtain ⟨h1, h2⟩ := Props.C17.batch_styles_interchangeable kind n v cfg i item b ctx hs
  refine ⟨_, _, _, _, runExecWithRetries_refines_runItem_of_le kind n v cfg i item (encItem cfg.execS b) ctx fuel hf, ?_, h1⟩
  rw [runExecWithRetries_refines_runItem_of_le kind n v { cfg with execS := .any } i item b ctx fuel' hf']
  exact congrArg some (Prod.ext rfl h2.symm)

/-- **Inside a batch the item is passed as is**: every attempt of the interpreted `runExecWithRetries` on item `i` receives the item —
    the `Result` itself for a Result-style exec function, its `Value()` for an Any-style one.
    Mirrors `Props.C17.batch_item_passed_as_is`. -/
theorem C17_batch_item_passed_as_is_for_interpreted_source (kind : CtxKind) (n v : Nat) (cfg : BatchCfg) (i : Nat) (item : Result)
    (scr : ItemScript) (fuel : Nat) (hf : itemFuel cfg ≤ fuel) :
    ∃ evs ctx' res, runItemIR fuel Flyt.Expected.IR.runExecWithRetries kind n v cfg i item scr .live = some (evs, ctx', res) ∧
      evs.filter (isBexecOf i) = (List.range (bexecCount i evs)).map
        (fun k => Ev.bexec n v i k (match cfg.execS with | .any => item.valueOf | _ => item.box)) :=
  item_transfer kind n v cfg i item scr .live fuel hf
    (fun evs _ _ => evs.filter (isBexecOf i) = (List.range (bexecCount i evs)).map
        (fun k => Ev.bexec n v i k (match cfg.execS with | .any => item.valueOf | _ => item.box)))
    (Props.C17.batch_item_passed_as_is kind n v cfg i item scr)

/-- **… and slot `i` is exec's result**: when attempt `k` is the first to succeed, what the interpreted `runExecWithRetries` hands back
    for the item's slot is exactly the `Result` the exec function returned (Result-style), resp. `NewResult` of the value it returned
    (Any-style). Mirrors `Props.C17.batch_slot_is_exec_result`. -/
theorem C17_batch_slot_is_exec_result_for_interpreted_source (kind : CtxKind) (n v : Nat) (cfg : BatchCfg) (i : Nat) (item : Result)
    (scr : ItemScript) (hnc : Flyt.Proofs.Item.NoCancel cfg scr) (hS : cfg.execS ≠ .absent)
    (k : Nat) (y : Val) (hk : FirstOk scr.exec k) (hkb : k < cfg.budget) (hy : (scr.exec k).res = .ok y)
    (hplain : Plain (returned cfg.execS y).valueOf) (fuel : Nat) (hf : itemFuel cfg ≤ fuel) :
    ∃ evs ctx', runItemIR fuel Flyt.Expected.IR.runExecWithRetries kind n v cfg i item scr .live
      = some (evs, ctx', .slot (returned cfg.execS y)) := by
  have h := Props.C17.batch_slot_is_exec_result kind n v cfg i item scr hnc hS k y hk hkb hy hplain
  refine ⟨(runItem kind n v cfg i item scr .live).1, (runItem kind n v cfg i item scr .live).2.1, ?_⟩
  rw [runExecWithRetries_refines_runItem_of_le kind n v cfg i item scr .live fuel hf]
  exact congrArg some (Prod.ext rfl (Prod.ext rfl h))

/-! ### non-vacuity: the (res, any, res) node of `Props/C17.lean`, by the interpreter -/

example : runLeafIR 46 Flyt.Expected.IR.Run .canceled 3 0 1 Props.C17.exCfg Props.C17.exScr .live =
    some ([.prep 3 0 1, .exec 3 0 0 (.tok 7), .exec 3 0 1 (.tok 7), .post 3 0 1 (.res (.tok 7) none) (.res (.tok 9) none)],
      (runLeaf .canceled 3 0 1 Props.C17.exCfg Props.C17.exScr .live).2.1,
      (runLeaf .canceled 3 0 1 Props.C17.exCfg Props.C17.exScr .live).2.2) := by
  rw [Run_refines_runLeaf_of_le _ _ _ _ _ _ _ 46 (by decide)]
  exact congrArg some (Prod.ext (by decide) rfl)

/-!
## Carried over / not carried over

Carried over: `run_exec_receives_prep_payload`, `run_post_receives_exec_result`, `any_style_mix_is_the_method_node`,
`styles_interchangeable` (subject `runLeaf`; the last two with both runs interpreted), `batch_styles_interchangeable`,
`batch_item_passed_as_is`, `batch_slot_is_exec_result` (subject `runItem`).

Not carried over:
* `prep_value_reaches_exec`, `exec_result_reaches_post`, `error_result_reaches_post`, `styles_interchangeable_adapters` — about the
  adapter FUNCTIONS `prepRet` / `execArg` / `execRet` / `postArgs`, no run involved; their tie to the source of
  `CustomNode.Prep/Exec/Post` and the Any-style wrappers is `Refine/Adapters.lean`;
* `c17Visit_bridge`, `c17Visit_flow_bridge`, `ex_plain` — bridges to the driver's predicate / example facts.
-/

end Flyt.Refine.Source
