import FlytModel.Refine.SourceBase
import FlytModel.Props.C11
/-!
# C11 (cancellation inside a batch: no new item, no new attempt; post once; unexecuted items are errors) — about the INTERPRETED SOURCE

Subjects with a refinement theorem:
* the whole node, `runBatch` — `runBatchIR fuel Expected.IR.runBatch …` (`runBatch_refines_of_le`): `no_attempt_after_cancel`,
  `cancelled_before_run`, `cancel_sticks`, `post_once_and_unexecuted_are_errors`;
* the executors on a context cancelled before the run — `itemsSeqIR` / `itemsConcSerialIR` (`runBatchSequential_refines_of_le`,
  `runBatchConcurrent_serial_refines_of_le`; `hidx`): `cancelled_before_run_slots`;
* a batch node inside a flow, `runNode` on a flow — `runFlowNodeIR fuel Expected.IR.Run …` (`Run_refines_runNode_flow_of_le`):
  `flow_stops_after_batch_cancel`.
As everywhere in these files, the whole-node statements are about the interpreted `runBatch` glue around executors that its world takes
to be the model's (`itemsSeq` / `itemsSerialPool`): that no attempt starts after a cancellation INSIDE the item loop is inherited
through the world from the executors (whose own source is refined in `Refine/Seq.lean`, `Refine/ConcSerial.lean`, `Refine/Item.lean`);
what `runBatch`'s source contributes is that it starts the item loop with the context prep left, and calls post once whatever happened.
-/
set_option autoImplicit false
namespace Flyt.Refine.Source
open Flyt Flyt.GoIR Flyt.Refine Flyt.BatchSeq

/-- **After the context is cancelled no new item and no new retry attempt starts.** In the trace of the interpreted `runBatch` (any
    configuration, concurrency setting, script, context), after every callback invocation that cancels the context — prep, an exec
    attempt, a fallback, a retry wait interrupted by an asynchronous cancellation — no exec attempt and no retry wait occurs any more.
    Mirrors `Props.C11.no_attempt_after_cancel`. -/
theorem C11_no_attempt_after_cancel_for_interpreted_source (kind : CtxKind) (n : NodeId) (v : Nat) (sid : StoreId) (cfg : BatchCfg)
    (scr : BatchScript) (ctx : Ctx) (fuel : Nat) (hf : batchFuel scr ≤ fuel) :
    ∃ evs ctx' out, runBatchIR fuel Flyt.Expected.IR.runBatch kind n v sid cfg scr ctx = some (evs, ctx', out) ∧
      ∀ (pre post : List Ev) (e : Ev), evs = pre ++ e :: post → evCancels scr e = true →
        ∀ x ∈ post, isBexec x = false ∧ isBwait x = false :=
  batch_transfer kind n v sid cfg scr ctx fuel hf
    (fun evs _ _ => ∀ (pre post : List Ev) (e : Ev), evs = pre ++ e :: post → evCancels scr e = true →
        ∀ x ∈ post, isBexec x = false ∧ isBwait x = false)
    (fun pre post e hsplit hc => Props.C11.no_attempt_after_cancel kind n v sid cfg scr ctx pre post e hsplit hc)

/-- **Cancelled before the run: no item is executed at all**, the context stays cancelled.
    Mirrors `Props.C11.cancelled_before_run`. -/
theorem C11_cancelled_before_run_for_interpreted_source (kind : CtxKind) (n : NodeId) (v : Nat) (sid : StoreId) (cfg : BatchCfg)
    (scr : BatchScript) (kd : CtxKind) (fuel : Nat) (hf : batchFuel scr ≤ fuel) :
    ∃ evs ctx' out, runBatchIR fuel Flyt.Expected.IR.runBatch kind n v sid cfg scr (.done kd) = some (evs, ctx', out) ∧
      (∀ x ∈ evs, isBexec x = false ∧ isBwait x = false) ∧ ctx'.isDone = true :=
  batch_transfer kind n v sid cfg scr (.done kd) fuel hf
    (fun evs ctx' _ => (∀ x ∈ evs, isBexec x = false ∧ isBwait x = false) ∧ ctx'.isDone = true)
    (Props.C11.cancelled_before_run kind n v sid cfg scr kd)

/-- … and then every slot carries the "context cancelled" error, in both error-handling modes: the interpreted `runBatchSequential` and
    the interpreted `runBatchConcurrent` (serial schedule) on a context that is already done record no event and fill every slot with
    that error. Mirrors `Props.C11.cancelled_before_run_slots` (at offset 0). -/
theorem C11_cancelled_before_run_slots_for_interpreted_source (kind : CtxKind) (n : NodeId) (v : Nat) (cfg : BatchCfg)
    (scr : BatchScript) (items : List Result) (kd : CtxKind)
    (idxOf : Result → Nat) (hidx : ∀ i (h : i < items.length), idxOf items[i] = i)
    (fuel : Nat) (hf : items.length + 23 ≤ fuel) (cfuel : Nat) (hcf : items.length + 37 ≤ cfuel) :
    itemsSeqIR fuel Flyt.Expected.IR.runBatchSequential kind n v cfg scr idxOf items (.done kd)
      = some ([], .done kd, items.map (fun _ => cancelledSlot)) ∧
    itemsConcSerialIR cfuel Flyt.Expected.IR.runBatchConcurrent kind n v cfg scr idxOf items (.done kd)
      = some ([], .done kd, items.map (fun _ => cancelledSlot)) := by
  obtain ⟨h1, h2⟩ := Props.C11.cancelled_before_run_slots kind n v cfg scr items 0 kd
  exact ⟨by rw [runBatchSequential_refines_of_le kind n v cfg scr idxOf items (.done kd) hidx fuel hf, h1],
    by rw [runBatchConcurrent_serial_refines_of_le kind n v cfg scr idxOf items (.done kd) hidx cfuel hcf, h2]⟩

/-- **A cancelling callback leaves the context cancelled for the rest of the run.** Mirrors `Props.C11.cancel_sticks`. -/
theorem C11_cancel_sticks_for_interpreted_source (kind : CtxKind) (n : NodeId) (v : Nat) (sid : StoreId) (cfg : BatchCfg)
    (scr : BatchScript) (ctx : Ctx) (fuel : Nat) (hf : batchFuel scr ≤ fuel) :
    ∃ evs ctx' out, runBatchIR fuel Flyt.Expected.IR.runBatch kind n v sid cfg scr ctx = some (evs, ctx', out) ∧
      ∀ e ∈ evs, evCancels scr e = true → ctx'.isDone = true :=
  batch_transfer kind n v sid cfg scr ctx fuel hf (fun evs ctx' _ => ∀ e ∈ evs, evCancels scr e = true → ctx'.isDone = true)
    (fun e he hc => Props.C11.cancel_sticks kind n v sid cfg scr ctx e he hc)

/-- **The run terminates with post called exactly once, and every item that was not executed carries an error.** For every context —
    live, cancelled before the run, cancelled from inside any callback — the interpreted `runBatch` TERMINATES (this is part of every
    statement in these files; here it is the property), its trace is prep, per-item events, ONE post, and a slot whose item has no
    event is an error. Mirrors `Props.C11.post_once_and_unexecuted_are_errors`. -/
theorem C11_post_once_and_unexecuted_are_errors_for_interpreted_source (kind : CtxKind) (n : NodeId) (v : Nat) (sid : StoreId)
    (cfg : BatchCfg) (scr : BatchScript) (ctx : Ctx) (l : List Val) (hp : scr.prep.res = .ok l) (hpost : cfg.hasPost = true)
    (hb : 0 < cfg.budget) (hex : cfg.execS ≠ .absent) (fuel : Nat) (hf : batchFuel scr ≤ fuel) :
    ∃ evs ctx' out, runBatchIR fuel Flyt.Expected.IR.runBatch kind n v sid cfg scr ctx = some (evs, ctx', out) ∧
      ∃ (iev : List Ev) (slots : List Result),
        evs = .bprep n v sid :: iev ++ [.bpost n v sid ((normItems cfg.shape l).map Result.box) (slots.map Result.box)] ∧
        (∀ x ∈ iev, isBpost x = false) ∧ slots.length = (normItems cfg.shape l).length ∧
        ∀ j, j < (normItems cfg.shape l).length → itemEvents j iev = [] → ∃ r, slots[j]? = some r ∧ r.isError = true :=
  batch_transfer kind n v sid cfg scr ctx fuel hf
    (fun evs _ _ => ∃ (iev : List Ev) (slots : List Result),
        evs = .bprep n v sid :: iev ++ [.bpost n v sid ((normItems cfg.shape l).map Result.box) (slots.map Result.box)] ∧
        (∀ x ∈ iev, isBpost x = false) ∧ slots.length = (normItems cfg.shape l).length ∧
        ∀ j, j < (normItems cfg.shape l).length → itemEvents j iev = [] → ∃ r, slots[j]? = some r ∧ r.isError = true)
    (Props.C11.post_once_and_unexecuted_are_errors kind n v sid cfg scr ctx l hp hpost hb hex)

/-! ## a batch node inside a flow -/

/-- **Once a callback of a batch node's visit has cancelled the context, no event of any other visit follows** (the batch finishes,
    then the flow stops): in the trace of the interpreted `Run` on a flow, whatever follows a cancelling event belongs to the same
    visit of the same node. Mirrors `Props.C11.flow_stops_after_batch_cancel` (flow root). -/
theorem C11_flow_stops_after_batch_cancel_for_interpreted_source (env : Env) (fid : NodeId) (start : Option NodeId) (ops : List ConnOp)
    (mfuel : Nat) (sid : StoreId) (st : RunSt) (harena : env.arena fid = .flow start ops)
    (hne : (runNode env (mfuel + 1) fid sid st).2.2 ≠ .fuel) (fuel : Nat) (hf : flowNodeFuel ≤ fuel) :
    ∃ evs st' out, runFlowNodeIR fuel Flyt.Expected.IR.Run env fid start ops mfuel sid st = some (evs, st', out) ∧
      ∀ (pre post : List Ev) (c : Ev), evs = pre ++ c :: post → Flyt.Proofs.cancelsAt env c = true →
        ∀ e ∈ post, Spec.evKey e = Spec.evKey c :=
  flowNode_transfer env fid start ops mfuel sid st harena hne fuel hf
    (fun evs _ _ => ∀ (pre post : List Ev) (c : Ev), evs = pre ++ c :: post → Flyt.Proofs.cancelsAt env c = true →
        ∀ e ∈ post, Spec.evKey e = Spec.evKey c)
    (fun _ _ _ hsplit hc => Props.C11.flow_stops_after_batch_cancel env (mfuel + 1) fid sid st hne hsplit hc)

/-!
## Carried over / not carried over

Carried over: `no_attempt_after_cancel`, `cancelled_before_run`, `cancel_sticks`, `post_once_and_unexecuted_are_errors` (subject
`runBatch`), `cancelled_before_run_slots` (subjects `itemsSeq`, `itemsSerialPool`; extra hypothesis `hidx`),
`flow_stops_after_batch_cancel` (subject `runNode` on a flow).

Not carried over:
* `no_start_after_cancel`, `in_flight_at_most_one_per_worker`, `observing_task_stops`, `never_hangs`, `at_post_unexecuted_are_errors`,
  `cancelled_iff_cancelling_event`, `spec_c11_holds` — subject is the LTS `Flyt.Conc` (every schedule of the worker pool);
* `spec_c11_holds_seq`, `c11Flow_bridge` — bridges to the driver's executable predicates.
-/

end Flyt.Refine.Source
