import FlytModel.Refine.SourceBase
import FlytModel.Props.C20
/-!
# C20 (the retry wait is honoured between attempts and is interruptible) stated about the INTERPRETED SOURCE

Subjects: the retry loop of `flyt.Run` — `runLeafIR fuel Expected.IR.Run …` (`Run_refines_runLeaf_of_le`) — and its duplicate
`runExecWithRetries` for batch items — `runItemIR fuel Expected.IR.runExecWithRetries …` (`runExecWithRetries_refines_runItem_of_le`).
EVERY context (live or done), every configuration and script; no hypothesis beyond the model theorem's and the depth bound. The model
theorems quantify over splittings of the run's trace (`trace = pre ++ e :: post → …`); so do the corollaries, on the interpreted trace.

What an event `wait n v k d fired` of the interpreted trace IS: the leaf / item world records it when the interpreter reaches the
`select { case <-time.After(d): … case <-ctx.Done(): … }` of the translated source — the world is asked `time.After` with the duration
the SOURCE computed (so `d = effWait` is a statement about the source: what it hands to `time.After` is what `GetWait()` returned), then asked
which case fires; it answers from the script's oracle `scr.waitCancel k`, `k` = the number of exec calls made so far. `fired = true` ⇒
"at least `d` elapsed" is `time.After`'s contract and stays trusted, as in `Props/C20.lean`.
-/
set_option autoImplicit false
namespace Flyt.Refine.Source
open Flyt Flyt.Spec Flyt.GoIR Flyt.Refine

/-! ## a single node: the interpreted `Run` -/

/-- **Waits are honoured.** With a wait configured, every attempt after the first in the interpreted run is immediately preceded by its
    wait, with the configured duration, fired. Mirrors `Props.C20.leaf_retry_preceded_by_wait`. -/
theorem C20_leaf_retry_preceded_by_wait_for_interpreted_source (kind : CtxKind) (n v sid : Nat) (cfg : LeafCfg) (scr : LeafScript) (ctx : Ctx) (hw : 0 < cfg.effWait)
    (fuel : Nat) (hf : runFuel cfg ≤ fuel) :
    ∃ evs ctx' out, runLeafIR fuel Flyt.Expected.IR.Run kind n v sid cfg scr ctx = some (evs, ctx', out) ∧
      ∀ (k : Nat) (a : Val) (pre post : List Ev), 0 < k → evs = pre ++ .exec n v k a :: post →
        ∃ pre', pre = pre' ++ [.wait n v k cfg.effWait true] :=
  leaf_transfer kind n v sid cfg scr ctx fuel hf
    (fun evs _ _ => ∀ (k : Nat) (a : Val) (pre post : List Ev), 0 < k → evs = pre ++ .exec n v k a :: post →
        ∃ pre', pre = pre' ++ [.wait n v k cfg.effWait true])
    (Props.C20.leaf_retry_preceded_by_wait kind n v sid cfg scr ctx hw)

/-- **No wait before the first attempt.** Whatever precedes attempt 0 is the prep event or nothing.
    Mirrors `Props.C20.leaf_no_wait_before_first`. -/
theorem C20_leaf_no_wait_before_first_for_interpreted_source (kind : CtxKind) (n v sid : Nat) (cfg : LeafCfg) (scr : LeafScript) (ctx : Ctx)
    (fuel : Nat) (hf : runFuel cfg ≤ fuel) :
    ∃ evs ctx' out, runLeafIR fuel Flyt.Expected.IR.Run kind n v sid cfg scr ctx = some (evs, ctx', out) ∧
      ∀ (a : Val) (pre post : List Ev), evs = pre ++ .exec n v 0 a :: post →
        (pre = [] ∨ pre = [.prep n v sid]) ∧ ∀ e ∈ pre, e.isWait = false :=
  leaf_transfer kind n v sid cfg scr ctx fuel hf
    (fun evs _ _ => ∀ (a : Val) (pre post : List Ev), evs = pre ++ .exec n v 0 a :: post →
        (pre = [] ∨ pre = [.prep n v sid]) ∧ ∀ e ∈ pre, e.isWait = false)
    (Props.C20.leaf_no_wait_before_first kind n v sid cfg scr ctx)

/-- **No wait after the last attempt.** Every fired wait of the interpreted run belongs to this visit, carries the configured duration
    and is immediately followed by the attempt it precedes. Mirrors `Props.C20.leaf_fired_wait_followed`. -/
theorem C20_leaf_fired_wait_followed_for_interpreted_source (kind : CtxKind) (n v sid : Nat) (cfg : LeafCfg) (scr : LeafScript) (ctx : Ctx)
    (fuel : Nat) (hf : runFuel cfg ≤ fuel) :
    ∃ evs ctx' out, runLeafIR fuel Flyt.Expected.IR.Run kind n v sid cfg scr ctx = some (evs, ctx', out) ∧
      ∀ (n' v' k d : Nat) (pre post : List Ev), evs = pre ++ .wait n' v' k d true :: post →
        n' = n ∧ v' = v ∧ d = cfg.effWait ∧ 0 < k ∧ ∃ a post', post = .exec n v k a :: post' :=
  leaf_transfer kind n v sid cfg scr ctx fuel hf
    (fun evs _ _ => ∀ (n' v' k d : Nat) (pre post : List Ev), evs = pre ++ .wait n' v' k d true :: post →
        n' = n ∧ v' = v ∧ d = cfg.effWait ∧ 0 < k ∧ ∃ a post', post = .exec n v k a :: post')
    (Props.C20.leaf_fired_wait_followed kind n v sid cfg scr ctx)

/-- **No wait configured ⇒ no wait events** (a node that is not a `RetryableNode` never reads a wait: `effWait = 0`).
    Mirrors `Props.C20.leaf_no_wait_without_config`. -/
theorem C20_leaf_no_wait_without_config_for_interpreted_source (kind : CtxKind) (n v sid : Nat) (cfg : LeafCfg) (scr : LeafScript) (ctx : Ctx) (hw : cfg.effWait = 0)
    (fuel : Nat) (hf : runFuel cfg ≤ fuel) :
    ∃ evs ctx' out, runLeafIR fuel Flyt.Expected.IR.Run kind n v sid cfg scr ctx = some (evs, ctx', out) ∧
      ∀ e ∈ evs, e.isWait = false :=
  leaf_transfer kind n v sid cfg scr ctx fuel hf
    (fun evs _ _ => ∀ e ∈ evs, e.isWait = false)
    (Props.C20.leaf_no_wait_without_config kind n v sid cfg scr ctx hw)

/-- **A cancellation during the wait ends the run there**: an interrupted wait is the last event, `Run` returns the context's error, the
    context is done, and the oracle did say "cancel". Mirrors `Props.C20.leaf_interrupted_wait_ends_run`. -/
theorem C20_leaf_interrupted_wait_ends_run_for_interpreted_source (kind : CtxKind) (n v sid : Nat) (cfg : LeafCfg) (scr : LeafScript) (ctx : Ctx)
    (fuel : Nat) (hf : runFuel cfg ≤ fuel) :
    ∃ evs ctx' out, runLeafIR fuel Flyt.Expected.IR.Run kind n v sid cfg scr ctx = some (evs, ctx', out) ∧
      ∀ (n' v' k d : Nat) (pre post : List Ev), evs = pre ++ .wait n' v' k d false :: post →
        post = [] ∧ out = .err (.ctx kind) ∧ ctx' = .done kind ∧ n' = n ∧ v' = v ∧ d = cfg.effWait ∧ 0 < k ∧
        scr.waitCancel k = true :=
  leaf_transfer kind n v sid cfg scr ctx fuel hf
    (fun evs ctx' out => ∀ (n' v' k d : Nat) (pre post : List Ev), evs = pre ++ .wait n' v' k d false :: post →
        post = [] ∧ out = .err (.ctx kind) ∧ ctx' = .done kind ∧ n' = n ∧ v' = v ∧ d = cfg.effWait ∧ 0 < k ∧
        scr.waitCancel k = true)
    (Props.C20.leaf_interrupted_wait_ends_run kind n v sid cfg scr ctx)

/-- **The `select` follows the oracle**: a wait fired iff no cancellation arrived during it.
    Mirrors `Props.C20.leaf_fired_iff_not_cancelled`. -/
theorem C20_leaf_fired_iff_not_cancelled_for_interpreted_source (kind : CtxKind) (n v sid : Nat) (cfg : LeafCfg) (scr : LeafScript) (ctx : Ctx)
    (fuel : Nat) (hf : runFuel cfg ≤ fuel) :
    ∃ evs ctx' out, runLeafIR fuel Flyt.Expected.IR.Run kind n v sid cfg scr ctx = some (evs, ctx', out) ∧
      ∀ (n' v' k d : Nat) (f : Bool), .wait n' v' k d f ∈ evs → scr.waitCancel k = !f :=
  leaf_transfer kind n v sid cfg scr ctx fuel hf
    (fun evs _ _ => ∀ (n' v' k d : Nat) (f : Bool), .wait n' v' k d f ∈ evs → scr.waitCancel k = !f)
    (Props.C20.leaf_fired_iff_not_cancelled kind n v sid cfg scr ctx)

/-- **The cancellation is not slept out**: if attempt `j` was made, and the oracle cancels the wait before attempt `j + 1` (budget
    remains, a wait is configured, attempt `j` failed: `stopAt`), the interpreted run ends with that interrupted wait — it does not start
    attempt `j + 1` — and returns the context's error. Mirrors `Props.C20.leaf_cancellation_cuts_wait`. -/
theorem C20_leaf_cancellation_cuts_wait_for_interpreted_source (kind : CtxKind) (n v sid : Nat) (cfg : LeafCfg) (scr : LeafScript) (ctx : Ctx)
    (fuel : Nat) (hf : runFuel cfg ≤ fuel) :
    ∃ evs ctx' out, runLeafIR fuel Flyt.Expected.IR.Run kind n v sid cfg scr ctx = some (evs, ctx', out) ∧
      ∀ (j : Nat) (a : Val), .exec n v j a ∈ evs → stopAt cfg.effWait cfg.effBudget scr.exec scr.waitCancel (j + 1) = true →
        (∃ pre, evs = pre ++ [.exec n v j a, .wait n v (j + 1) cfg.effWait false]) ∧ out = .err (.ctx kind) :=
  leaf_transfer kind n v sid cfg scr ctx fuel hf
    (fun evs _ out => ∀ (j : Nat) (a : Val), .exec n v j a ∈ evs → stopAt cfg.effWait cfg.effBudget scr.exec scr.waitCancel (j + 1) = true →
        (∃ pre, evs = pre ++ [.exec n v j a, .wait n v (j + 1) cfg.effWait false]) ∧ out = .err (.ctx kind))
    (Props.C20.leaf_cancellation_cuts_wait kind n v sid cfg scr ctx)

/-! ## every item of a batch: the interpreted `runExecWithRetries` -/

/-- **Per item, waits are honoured.** Mirrors `Props.C20.item_retry_preceded_by_wait`. -/
theorem C20_item_retry_preceded_by_wait_for_interpreted_source (kind : CtxKind) (n v : Nat) (cfg : BatchCfg) (i : Nat) (item : Result) (scr : ItemScript) (ctx : Ctx) (hw : 0 < cfg.wait)
    (fuel : Nat) (hf : itemFuel cfg ≤ fuel) :
    ∃ evs ctx' res, runItemIR fuel Flyt.Expected.IR.runExecWithRetries kind n v cfg i item scr ctx = some (evs, ctx', res) ∧
      ∀ (k : Nat) (a : Val) (pre post : List Ev), 0 < k → evs = pre ++ .bexec n v i k a :: post →
        ∃ pre', pre = pre' ++ [.bwait n v i k cfg.wait true] :=
  item_transfer kind n v cfg i item scr ctx fuel hf
    (fun evs _ _ => ∀ (k : Nat) (a : Val) (pre post : List Ev), 0 < k → evs = pre ++ .bexec n v i k a :: post →
        ∃ pre', pre = pre' ++ [.bwait n v i k cfg.wait true])
    (Props.C20.item_retry_preceded_by_wait kind n v cfg i item scr ctx hw)

/-- **Per item, no wait before the first attempt**: attempt 0 is the item's first event. Mirrors `Props.C20.item_no_wait_before_first`. -/
theorem C20_item_no_wait_before_first_for_interpreted_source (kind : CtxKind) (n v : Nat) (cfg : BatchCfg) (i : Nat) (item : Result) (scr : ItemScript) (ctx : Ctx)
    (fuel : Nat) (hf : itemFuel cfg ≤ fuel) :
    ∃ evs ctx' res, runItemIR fuel Flyt.Expected.IR.runExecWithRetries kind n v cfg i item scr ctx = some (evs, ctx', res) ∧
      ∀ (a : Val) (pre post : List Ev), evs = pre ++ .bexec n v i 0 a :: post → pre = [] :=
  item_transfer kind n v cfg i item scr ctx fuel hf
    (fun evs _ _ => ∀ (a : Val) (pre post : List Ev), evs = pre ++ .bexec n v i 0 a :: post → pre = [])
    (Props.C20.item_no_wait_before_first kind n v cfg i item scr ctx)

/-- **Per item, no wait after the last attempt.** Mirrors `Props.C20.item_fired_wait_followed`. -/
theorem C20_item_fired_wait_followed_for_interpreted_source (kind : CtxKind) (n v : Nat) (cfg : BatchCfg) (i : Nat) (item : Result) (scr : ItemScript) (ctx : Ctx)
    (fuel : Nat) (hf : itemFuel cfg ≤ fuel) :
    ∃ evs ctx' res, runItemIR fuel Flyt.Expected.IR.runExecWithRetries kind n v cfg i item scr ctx = some (evs, ctx', res) ∧
      ∀ (n' v' k d : Nat) (pre post : List Ev), evs = pre ++ .bwait n' v' i k d true :: post →
        n' = n ∧ v' = v ∧ d = cfg.wait ∧ 0 < k ∧ ∃ a post', post = .bexec n v i k a :: post' :=
  item_transfer kind n v cfg i item scr ctx fuel hf
    (fun evs _ _ => ∀ (n' v' k d : Nat) (pre post : List Ev), evs = pre ++ .bwait n' v' i k d true :: post →
        n' = n ∧ v' = v ∧ d = cfg.wait ∧ 0 < k ∧ ∃ a post', post = .bexec n v i k a :: post')
    (Props.C20.item_fired_wait_followed kind n v cfg i item scr ctx)

/-- **Per item, no wait configured ⇒ no wait events.** Mirrors `Props.C20.item_no_wait_without_config`. -/
theorem C20_item_no_wait_without_config_for_interpreted_source (kind : CtxKind) (n v : Nat) (cfg : BatchCfg) (i : Nat) (item : Result) (scr : ItemScript) (ctx : Ctx) (hw : cfg.wait = 0)
    (fuel : Nat) (hf : itemFuel cfg ≤ fuel) :
    ∃ evs ctx' res, runItemIR fuel Flyt.Expected.IR.runExecWithRetries kind n v cfg i item scr ctx = some (evs, ctx', res) ∧
      ∀ e ∈ evs, e.isWait = false :=
  item_transfer kind n v cfg i item scr ctx fuel hf
    (fun evs _ _ => ∀ e ∈ evs, e.isWait = false)
    (Props.C20.item_no_wait_without_config kind n v cfg i item scr ctx hw)

/-- **Per item, a cancellation during the wait ends the item's processing there** with the context's error (which `runBatch*` stores in
    the item's slot). Mirrors `Props.C20.item_interrupted_wait_ends_item`. -/
theorem C20_item_interrupted_wait_ends_item_for_interpreted_source (kind : CtxKind) (n v : Nat) (cfg : BatchCfg) (i : Nat) (item : Result) (scr : ItemScript) (ctx : Ctx)
    (fuel : Nat) (hf : itemFuel cfg ≤ fuel) :
    ∃ evs ctx' res, runItemIR fuel Flyt.Expected.IR.runExecWithRetries kind n v cfg i item scr ctx = some (evs, ctx', res) ∧
      ∀ (n' v' k d : Nat) (pre post : List Ev), evs = pre ++ .bwait n' v' i k d false :: post →
        post = [] ∧ res = .error (.ctx kind) ∧ ctx' = .done kind ∧ n' = n ∧ v' = v ∧ d = cfg.wait ∧ 0 < k ∧
        scr.waitCancel k = true :=
  item_transfer kind n v cfg i item scr ctx fuel hf
    (fun evs ctx' res => ∀ (n' v' k d : Nat) (pre post : List Ev), evs = pre ++ .bwait n' v' i k d false :: post →
        post = [] ∧ res = .error (.ctx kind) ∧ ctx' = .done kind ∧ n' = n ∧ v' = v ∧ d = cfg.wait ∧ 0 < k ∧
        scr.waitCancel k = true)
    (Props.C20.item_interrupted_wait_ends_item kind n v cfg i item scr ctx)

/-- **Per item, the `select` follows the oracle.** Mirrors `Props.C20.item_fired_iff_not_cancelled`. -/
theorem C20_item_fired_iff_not_cancelled_for_interpreted_source (kind : CtxKind) (n v : Nat) (cfg : BatchCfg) (i : Nat) (item : Result) (scr : ItemScript) (ctx : Ctx)
    (fuel : Nat) (hf : itemFuel cfg ≤ fuel) :
    ∃ evs ctx' res, runItemIR fuel Flyt.Expected.IR.runExecWithRetries kind n v cfg i item scr ctx = some (evs, ctx', res) ∧
      ∀ (n' v' k d : Nat) (f : Bool), .bwait n' v' i k d f ∈ evs → scr.waitCancel k = !f :=
  item_transfer kind n v cfg i item scr ctx fuel hf
    (fun evs _ _ => ∀ (n' v' k d : Nat) (f : Bool), .bwait n' v' i k d f ∈ evs → scr.waitCancel k = !f)
    (Props.C20.item_fired_iff_not_cancelled kind n v cfg i item scr ctx)

/-- **Per item, the cancellation is not slept out.** Mirrors `Props.C20.item_cancellation_cuts_wait`. -/
theorem C20_item_cancellation_cuts_wait_for_interpreted_source (kind : CtxKind) (n v : Nat) (cfg : BatchCfg) (i : Nat) (item : Result) (scr : ItemScript) (ctx : Ctx)
    (fuel : Nat) (hf : itemFuel cfg ≤ fuel) :
    ∃ evs ctx' res, runItemIR fuel Flyt.Expected.IR.runExecWithRetries kind n v cfg i item scr ctx = some (evs, ctx', res) ∧
      ∀ (j : Nat) (a : Val), .bexec n v i j a ∈ evs → stopAt cfg.wait cfg.budget scr.exec scr.waitCancel (j + 1) = true →
        evs.getLast? = some (.bwait n v i (j + 1) cfg.wait false) ∧
        (∃ pre, evs = pre ++ [.bexec n v i j a, .bwait n v i (j + 1) cfg.wait false]) ∧ res = .error (.ctx kind) :=
  item_transfer kind n v cfg i item scr ctx fuel hf
    (fun evs _ res => ∀ (j : Nat) (a : Val), .bexec n v i j a ∈ evs → stopAt cfg.wait cfg.budget scr.exec scr.waitCancel (j + 1) = true →
        evs.getLast? = some (.bwait n v i (j + 1) cfg.wait false) ∧
        (∃ pre, evs = pre ++ [.bexec n v i j a, .bwait n v i (j + 1) cfg.wait false]) ∧ res = .error (.ctx kind))
    (Props.C20.item_cancellation_cuts_wait kind n v cfg i item scr ctx)

/-! ### non-vacuity: the scenarios of `Props/C20.lean`, by the interpreter -/

-- budget 2, wait 25, both attempts fail: attempt 1 is preceded by its fired wait, nothing follows it
example : runLeafIR 45 Flyt.Expected.IR.Run .canceled 0 0 0 { Props.C20.exCfg with budget := 2 } Props.C20.exScr .live =
    some ([.prep 0 0 0, .exec 0 0 0 (.tok 1), .wait 0 0 1 25 true, .exec 0 0 1 (.tok 1)], .live, .err (.user 2)) := by
  rw [Run_refines_runLeaf_of_le _ _ _ _ _ _ _ 45 (by decide)]; decide

-- the cancellation arrives during the wait before attempt 2: the interpreted run ends with that interrupted wait
example : ∃ evs, runLeafIR 46 Flyt.Expected.IR.Run .deadline 0 0 0 Props.C20.exCfg Props.C20.exScrCut .live =
    some (evs, .done .deadline, .err (.ctx .deadline)) ∧ evs.getLast? = some (.wait 0 0 2 25 false) := by
  refine ⟨(runLeaf .deadline 0 0 0 Props.C20.exCfg Props.C20.exScrCut .live).1, ?_, by decide⟩
  rw [Run_refines_runLeaf_of_le _ _ _ _ _ _ _ 46 (by decide)]
  exact congrArg some (Prod.ext rfl (Prod.ext (by decide) (by decide)))

/-!
## Carried over / not carried over

Carried over, subject `runLeaf`: `leaf_retry_preceded_by_wait`, `leaf_no_wait_before_first`, `leaf_fired_wait_followed`,
`leaf_no_wait_without_config`, `leaf_interrupted_wait_ends_run`, `leaf_fired_iff_not_cancelled`, `leaf_cancellation_cuts_wait`.
Subject `runItem`: the seven `item_*` counterparts.

Not carried over:
* `leaf_spec`, `item_spec`, `batch_spec`, `batch_spec_runBatch` — the decidable predicates the driver evaluates (bridges);
* `batch_items_are_runItem` — subject `runBatchW` (`runBatch` for concurrency 0 / 1, the ALL-STARTED schedule for ≥ 2 workers), a model
  function of `Proofs/Wait.lean` with no refinement theorem; for `runBatch` itself the per-item reading is
  `C02_batch_item_own_loop_for_interpreted_source` (`Refine/SourceC02.lean`).
-/

end Flyt.Refine.Source
