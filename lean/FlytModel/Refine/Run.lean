import FlytModel.GoIR.Worlds
import FlytModel.Expected.IR
import FlytModel.Refine.Mono
/-!
# Refinement: the translated Go source of `flyt.Run` (`Flyt.Expected.IR.Run`), run by the definitional
interpreter of `GoIR/Interp.lean` in the leaf world of `GoIR/Worlds.lean`, computes exactly `runLeaf`.

Structure of the proof
* `containsW` on the seven format strings of `Run` (`String.splitOn` is defined by well-founded recursion and does
  not reduce; a fuel-indexed copy is proved sound and evaluated by `decide`);
* projections of `leafWorld` as conditional rewrite rules;
* one unfolding lemma per syntax constructor of the interpreter (so that folded program pieces are never unfolded
  symbolically);
* `loop_spec`: the `for` loop against `attempts`, by induction on the remaining budget;
* `post_spec`, `suffix_ok`, `suffix_failed`, `tail_spec`: fallback / post / normalisation against `fallbackPhase` and
  the post phase of `runLeaf`;
* `Run_refines_runLeaf`.
-/
namespace Flyt.Refine
open Flyt Flyt.GoIR

/-- fuel-indexed copy of `String.splitOnAux` (which is defined by well-founded recursion and does not reduce) -/
def splitOnAuxF : Nat → String → String → String.Pos.Raw → String.Pos.Raw → String.Pos.Raw → List String → Option (List String)
  | 0, _, _, _, _, _, _ => none
  | n + 1, s, sep, b, i, j, r =>
    if i.atEnd s then
      some ((b.extract s i :: r).reverse)
    else
      if i.get s == j.get sep then
        if (j.next sep).atEnd sep then
          splitOnAuxF n s sep (i.next s) (i.next s) 0 (b.extract s ((i.next s).unoffsetBy (j.next sep)) :: r)
        else
          splitOnAuxF n s sep b (i.next s) (j.next sep) r
      else
        splitOnAuxF n s sep b ((i.unoffsetBy j).next s) 0 r

theorem splitOnAuxF_sound : ∀ (n : Nat) (s sep : String) (b i j : String.Pos.Raw) (r l : List String),
    splitOnAuxF n s sep b i j r = some l → String.splitOnAux s sep b i j r = l := by
  intro n
  induction n with
  | zero => intro s sep b i j r l h; simp [splitOnAuxF] at h
  | succ n ih =>
    intro s sep b i j r l h
    rw [String.splitOnAux]
    simp only [splitOnAuxF] at h
    split at h
    · rename_i h1; simp only [h1, if_true]; simpa using h
    · rename_i h1
      simp only [h1]
      split at h
      · rename_i h2
        simp only [h2, if_true]
        split at h
        · rename_i h3; simp only [h3, if_true]; exact ih _ _ _ _ _ _ _ h
        · rename_i h3; simp only [h3]; exact ih _ _ _ _ _ _ _ h
      · rename_i h2; simp only [h2]; exact ih _ _ _ _ _ _ _ h

theorem containsW_of (n : Nat) (s : String)
    (h : (splitOnAuxF n s "%w" 0 0 0 []).map (fun l => decide (l.length > 1)) = some true) : containsW s = true := by
  unfold containsW String.splitOn
  have : ("%w" == "") = false := by decide
  simp only [this]
  cases h' : splitOnAuxF n s "%w" 0 0 0 [] with
  | none => simp [h'] at h
  | some l =>
    rw [splitOnAuxF_sound _ _ _ _ _ _ _ _ h']
    simpa [h'] using h

theorem cw1 : containsW "run: context cancelled: %w" = true := containsW_of 60 _ (by decide)
theorem cw2 : containsW "run: prep failed: %w" = true := containsW_of 60 _ (by decide)
theorem cw3 : containsW "run: context cancelled after prep: %w" = true := containsW_of 60 _ (by decide)
theorem cw4 : containsW "run: context cancelled during retry: %w" = true := containsW_of 60 _ (by decide)
theorem cw5 : containsW "run: context cancelled during wait: %w" = true := containsW_of 60 _ (by decide)
theorem cw6 : containsW "run: exec failed after %d retries: %w" = true := containsW_of 60 _ (by decide)
theorem cw7 : containsW "run: post failed: %w" = true := containsW_of 60 _ (by decide)

section world
variable (kind : CtxKind) (n : NodeId) (v : Nat) (cfg : LeafCfg) (scr : LeafScript)
local notation "W" => leafWorld kind n v cfg scr

@[simp] theorem w_after (d : Int) (h : Heap) (w : LeafW) :
    (W).call "time.After" [.int d] h w = some ([.ref "timer" d.toNat], h, w) := rfl
@[simp] theorem w_err (i : Nat) (h : Heap) (w : LeafW) :
    (W).mcall (.ref "ctx" i) "Err" [] h w = some ([ctxErrGV w.ctx], h, w) := rfl
@[simp] theorem w_done (i : Nat) (h : Heap) (w : LeafW) :
    (W).mcall (.ref "ctx" i) "Done" [] h w = some ([.ref "done" 0], h, w) := rfl
@[simp] theorem w_maxr (i : Nat) (h : Heap) (w : LeafW) :
    (W).mcall (.node i) "GetMaxRetries" [] h w = some ([.int cfg.budget], h, w) := rfl
@[simp] theorem w_wait (i : Nat) (h : Heap) (w : LeafW) :
    (W).mcall (.node i) "GetWait" [] h w = some ([.int cfg.wait], h, w) := rfl

theorem w_prep_absent (hs : cfg.prepS = .absent) (i : Nat) (a sh : GV) (h : Heap) (w : LeafW) :
    (W).mcall (.node i) "Prep" [a, sh] h w = some ([.nil, .nil], h, w) := by
  simp [leafWorld, hs]
theorem w_prep_ok (hs : cfg.prepS ≠ .absent) {x : Val} (hx : scr.prep.res = .ok x) (i : Nat) (a : GV) (sid : Nat) (h : Heap) (w : LeafW) :
    (W).mcall (.node i) "Prep" [a, .ref "store" sid] h w =
      some ([GV.ofVal (prepRet cfg.prepS x), .nil], h,
        { w with evs := w.evs ++ [.prep n v sid], ctx := w.ctx.after kind scr.prep.cancels }) := by
  cases hs' : cfg.prepS
  · exact absurd hs' hs
  all_goals simp [leafWorld, hs', hx, storeIdOf]
theorem w_prep_err (hs : cfg.prepS ≠ .absent) {e : Nat} (hx : scr.prep.res = .error e) (i : Nat) (a : GV) (sid : Nat) (h : Heap) (w : LeafW) :
    (W).mcall (.node i) "Prep" [a, .ref "store" sid] h w =
      some ([.nil, .err (.user e)], h,
        { w with evs := w.evs ++ [.prep n v sid], ctx := w.ctx.after kind scr.prep.cancels }) := by
  cases hs' : cfg.prepS
  · exact absurd hs' hs
  all_goals simp [leafWorld, hs', hx, storeIdOf]

theorem w_exec_absent (hs : cfg.execS = .absent) (i : Nat) (a pv : GV) (h : Heap) (w : LeafW) :
    (W).mcall (.node i) "Exec" [a, pv] h w = some ([.nil, .nil], h, w) := by
  simp [leafWorld, hs]
theorem w_exec_ok (hs : cfg.execS ≠ .absent) (i : Nat) (a pv : GV) (h : Heap) (w : LeafW) {x : Val}
    (hx : (scr.exec w.execCalls).res = .ok x) :
    (W).mcall (.node i) "Exec" [a, pv] h w =
      some ([GV.ofVal (execRet cfg.execS x), .nil], h,
        { w with evs := w.evs ++ [.exec n v w.execCalls (execArg cfg.execS pv.toVal)],
                 ctx := w.ctx.after kind (scr.exec w.execCalls).cancels, execCalls := w.execCalls + 1 }) := by
  cases hs' : cfg.execS
  · exact absurd hs' hs
  all_goals simp [leafWorld, hs', hx]
theorem w_exec_err (hs : cfg.execS ≠ .absent) (i : Nat) (a pv : GV) (h : Heap) (w : LeafW) {e : Nat}
    (hx : (scr.exec w.execCalls).res = .error e) :
    (W).mcall (.node i) "Exec" [a, pv] h w =
      some ([.nil, .err (.user e)], h,
        { w with evs := w.evs ++ [.exec n v w.execCalls (execArg cfg.execS pv.toVal)],
                 ctx := w.ctx.after kind (scr.exec w.execCalls).cancels, execCalls := w.execCalls + 1 }) := by
  cases hs' : cfg.execS
  · exact absurd hs' hs
  all_goals simp [leafWorld, hs', hx]

theorem w_fb_pass (hs : cfg.fb = .passThrough) (i : Nat) (pv : GV) (e : ErrRoot) (h : Heap) (w : LeafW) :
    (W).mcall (.node i) "ExecFallback" [pv, .err e] h w = some ([.nil, .err e], h, w) := by
  simp [leafWorld, hs]
theorem w_fb_ok (hs : cfg.fb = .custom) {x : Val} (hx : scr.fb.res = .ok x) (i : Nat) (pv : GV) (e : ErrRoot) (h : Heap) (w : LeafW) :
    (W).mcall (.node i) "ExecFallback" [pv, .err e] h w =
      some ([GV.ofVal x, .nil], h,
        { w with evs := w.evs ++ [.fb n v pv.toVal e], ctx := w.ctx.after kind scr.fb.cancels }) := by
  simp [leafWorld, hs, hx]
theorem w_fb_err (hs : cfg.fb = .custom) {e' : Nat} (hx : scr.fb.res = .error e') (i : Nat) (pv : GV) (e : ErrRoot) (h : Heap) (w : LeafW) :
    (W).mcall (.node i) "ExecFallback" [pv, .err e] h w =
      some ([.nil, .err (.user e')], h,
        { w with evs := w.evs ++ [.fb n v pv.toVal e], ctx := w.ctx.after kind scr.fb.cancels }) := by
  simp [leafWorld, hs, hx]

theorem w_post_absent (hs : cfg.postS = .absent) (i : Nat) (a sh pv ev : GV) (h : Heap) (w : LeafW) :
    (W).mcall (.node i) "Post" [a, sh, pv, ev] h w = some ([.str defaultAction, .nil], h, w) := by
  simp [leafWorld, hs]
theorem w_post_ok (hs : cfg.postS ≠ .absent) {x : Action} (hx : scr.post.res = .ok x) (i : Nat) (a pv ev : GV) (sid : Nat) (h : Heap) (w : LeafW) :
    (W).mcall (.node i) "Post" [a, .ref "store" sid, pv, ev] h w =
      some ([.str x, .nil], h,
        { w with evs := w.evs ++ [.post n v sid (postArgs cfg.postS pv.toVal ev.toVal).1 (postArgs cfg.postS pv.toVal ev.toVal).2],
                 ctx := w.ctx.after kind scr.post.cancels }) := by
  cases hs' : cfg.postS
  · exact absurd hs' hs
  all_goals simp [leafWorld, hs', hx, storeIdOf]
theorem w_post_err (hs : cfg.postS ≠ .absent) {e : Nat} (hx : scr.post.res = .error e) (i : Nat) (a pv ev : GV) (sid : Nat) (h : Heap) (w : LeafW) :
    (W).mcall (.node i) "Post" [a, .ref "store" sid, pv, ev] h w =
      some ([.str (scr.post.junk.getD ""), .err (.user e)], h,
        { w with evs := w.evs ++ [.post n v sid (postArgs cfg.postS pv.toVal ev.toVal).1 (postArgs cfg.postS pv.toVal ev.toVal).2],
                 ctx := w.ctx.after kind scr.post.cancels }) := by
  cases hs' : cfg.postS
  · exact absurd hs' hs
  all_goals simp [leafWorld, hs', hx, storeIdOf]

@[simp] theorem w_as_retry (i : Nat) (w : LeafW) :
    (W).assert (.node i) "RetryableNode" w = some (.node i, cfg.retryable) := rfl
@[simp] theorem w_as_fb (i : Nat) (w : LeafW) :
    (W).assert (.node i) "FallbackNode" w = some (.node i, cfg.fb != .absent) := rfl
@[simp] theorem w_as_bn (i : Nat) (w : LeafW) :
    (W).assert (.node i) "*BatchNode" w = some (.nil, false) := rfl
@[simp] theorem w_as_bnb (i : Nat) (w : LeafW) :
    (W).assert (.node i) "*BatchNodeBuilder" w = some (.nil, false) := rfl
@[simp] theorem w_global : (W).global "DefaultAction" = some (.str defaultAction) := rfl

theorem w_sel_done (d j : Nat) (w : LeafW) {k : CtxKind} (hc : w.ctx = .done k) :
    (W).select [.ref "timer" d, .ref "done" j] w = some (1, w) := by
  simp [leafWorld, hc]
theorem w_sel_cancel (d j : Nat) (w : LeafW) (hc : w.ctx = .live) (hw : scr.waitCancel w.execCalls = true) :
    (W).select [.ref "timer" d, .ref "done" j] w =
      some (1, { w with evs := w.evs ++ [.wait n v w.execCalls d false], ctx := .done kind }) := by
  simp [leafWorld, hc, hw]
theorem w_sel_fire (d j : Nat) (w : LeafW) (hc : w.ctx = .live) (hw : scr.waitCancel w.execCalls = false) :
    (W).select [.ref "timer" d, .ref "done" j] w =
      some (0, { w with evs := w.evs ++ [.wait n v w.execCalls d true] }) := by
  simp [leafWorld, hc, hw]
end world

section steps
variable {Ω : Type} (W : World Ω)

theorem block_nil (f : Nat) (st : St Ω) : execBlock W (f + 1) .nil st = some (.next, st) := rfl
theorem block_cons (f : Nat) (s : Stmt) (rest : Block) (st : St Ω) :
    execBlock W (f + 1) (.cons s rest) st =
      match execStmt W f s st with
      | some (.next, st1) => execBlock W f rest st1
      | r => r := rfl

theorem stmt_define (f : Nat) (lhs : List String) (rhs : Exprs) (st : St Ω) :
    execStmt W (f + 1) (.define lhs rhs) st =
      match evalRhs W f lhs.length rhs st with
      | some (vs, st1) => (st1.env.pushAll lhs vs).map fun e => (.next, { st1 with env := e })
      | none => none := rfl
theorem stmt_declare (f : Nat) (x ty : String) (st : St Ω) :
    execStmt W (f + 1) (.declare x ty) st =
      match zeroOf ty with
      | some z => some (.next, { st with env := st.env.push x z })
      | none => (W.global ("zero:" ++ ty)).map fun z => (.next, { st with env := st.env.push x z }) := rfl
theorem stmt_assign (f : Nat) (lhs rhs : Exprs) (st : St Ω) :
    execStmt W (f + 1) (.assign lhs rhs) st =
      match evalRhs W f lhs.length rhs st with
      | some (vs, st1) => (assignAll W f lhs.toList vs st1).map fun st2 => (.next, st2)
      | none => none := rfl
theorem stmt_if (f : Nat) (init : Block) (cond : Expr) (thn els : Block) (st : St Ω) :
    execStmt W (f + 1) (.ifS init cond thn els) st =
      match execBlock W f init st with
      | some (.next, st1) =>
        (match evalExpr W f cond st1 with
         | some ([.bool true], st2) =>
           (execBlock W f thn st2).map fun (c, st3) => (c, popSt st3 st.env.length)
         | some ([.bool false], st2) =>
           (execBlock W f els st2).map fun (c, st3) => (c, popSt st3 st.env.length)
         | _ => none)
      | _ => none := rfl
theorem stmt_for (f : Nat) (init : Block) (cond : Expr) (post body : Block) (st : St Ω) :
    execStmt W (f + 1) (.forS init cond post body) st =
      match execBlock W f init st with
      | some (.next, st1) => (loopFor W f cond post body st1).map fun (c, st2) => (c, popSt st2 st.env.length)
      | _ => none := rfl
theorem stmt_select (f : Nat) (cases : Cases) (st : St Ω) :
    execStmt W (f + 1) (.selectS cases) st =
      match evalGuards W f cases st with
      | some (chans, st1) =>
        (match W.select chans st1.w with
         | some (i, w) =>
           (match nthBody cases i with
            | some b =>
              (execBlock W f b { st1 with w := w }).map fun (c, st2) => (c, popSt st2 st1.env.length)
            | none => none)
         | none => none)
      | none => none := rfl
theorem stmt_ret_nil (f : Nat) (st : St Ω) : execStmt W (f + 1) (.ret .nil) st = some (.ret [], st) := rfl
theorem stmt_ret_cons (f : Nat) (e : Expr) (es : Exprs) (st : St Ω) :
    execStmt W (f + 1) (.ret (.cons e es)) st = (evalArgs W f (.cons e es) st).map fun (vs, st1) => (.ret vs, st1) := rfl
theorem stmt_brk (f : Nat) (st : St Ω) : execStmt W (f + 1) .brk st = some (.brk, st) := rfl
theorem stmt_incr (f : Nat) (x : String) (st : St Ω) :
    execStmt W (f + 1) (.incr x) st =
      match st.env.get x with
      | some (.int k) => (st.env.set x (.int (k + 1))).map fun e => (.next, { st with env := e })
      | _ => none := rfl

theorem expr_var (f : Nat) (x : String) (st : St Ω) :
    evalExpr W (f + 1) (.var x) st =
      match st.env.get x with
      | some v => some ([v], st)
      | none =>
        if x == "nil" then some ([.nil], st) else if x == "true" then some ([.bool true], st)
        else if x == "false" then some ([.bool false], st)
        else
          match W.global x with
          | some v => some ([v], st)
          | none => (W.readVar x st.w).map fun v => ([v], st) := rfl
theorem expr_str (f : Nat) (s : String) (st : St Ω) : evalExpr W (f + 1) (.str s) st = some ([.str s], st) := rfl
theorem expr_int (f : Nat) (n : Nat) (st : St Ω) : evalExpr W (f + 1) (.int n) st = some ([.int n], st) := rfl
theorem expr_and (f : Nat) (a b : Expr) (st : St Ω) :
    evalExpr W (f + 1) (.bin "&&" a b) st =
        match evalExpr W f a st with
        | some ([.bool false], st1) => some ([.bool false], st1)
        | some ([.bool true], st1) =>
          (match evalExpr W f b st1 with
           | some ([.bool q], st2) => some ([.bool q], st2)
           | _ => none)
        | _ => none := rfl
theorem expr_bin (f : Nat) (op : String) (a b : Expr) (st : St Ω) (h1 : (op == "&&") = false) (h2 : (op == "||") = false) :
    evalExpr W (f + 1) (.bin op a b) st =
        match evalExpr W f a st with
        | some ([x], st1) =>
          (match evalExpr W f b st1 with
           | some ([y], st2) =>
             if op == "==" then (x.eqv y).map fun r => ([.bool r], st2)
             else if op == "!=" then (x.eqv y).map fun r => ([.bool !r], st2)
             else
               match x, y with
               | .int m, .int n => (intBin op m n).map fun r => ([r], st2)
               | _, _ => none
           | _ => none)
        | _ => none := by
  have h0 : evalExpr W (f + 1) (.bin op a b) st = (if op == "&&" then _ else if op == "||" then _ else _) := rfl
  rw [h0, h1, h2]; rfl
theorem expr_call (f : Nat) (fn : String) (args : Exprs) (st : St Ω) (h : (fn == "make") = false) :
    evalExpr W (f + 1) (.call fn args) st =
        match evalArgs W f args st with
        | none => none
        | some (vs, st1) =>
          if fn == "len" then
            match vs with
            | [.slice _ _ n] => some ([.int n], st1)
            | [.anys l] => some ([.int l.length], st1)
            | [.nil] => some ([.int 0], st1)
            | _ =>
              (match W.call "len" vs st1.heap st1.w with
               | some (rs, h, w) => some (rs, { st1 with heap := h, w := w })
               | none => none)
          else if fn == "NewResult" then
            match vs with
            | [v] => some ([.result (mkNewResult v)], st1)
            | _ => none
          else if fn == "NewErrorResult" then
            match vs with
            | [.err e] => some ([.result (newErrorResult e)], st1)
            | _ => none
          else if fn == "fmt.Errorf" then
            (errorf vs).map fun r => ([r], st1)
          else
            match st.env.get fn with
            | some fv =>
              (match W.callVar fn fv vs st1.heap st1.w with
               | some (rs, h, w) => some (rs, { st1 with heap := h, w := w })
               | none => none)
            | none =>
              match W.call fn vs st1.heap st1.w with
              | some (rs, h, w) => some (rs, { st1 with heap := h, w := w })
              | none => none := by
  have h0 : evalExpr W (f + 1) (.call fn args) st = (if fn == "make" then _ else _) := rfl
  rw [h0, h]; rfl
theorem expr_mcall (f : Nat) (recv : Expr) (m : String) (args : Exprs) (st : St Ω) :
    evalExpr W (f + 1) (.mcall recv m args) st =
      match evalExpr W f recv st with
      | some ([r], st1) =>
        (match evalArgs W f args st1 with
         | none => none
         | some (vs, st2) =>
           match r, vs with
           | .result x, [] =>
             if m == "IsError" then some ([.bool x.isError], st2)
             else if m == "Value" then some ([GV.ofVal x.valueOf], st2)
             else none
           | _, _ =>
             match W.mcall r m vs st2.heap st2.w with
             | some (rs, h, w) => some (rs, { st2 with heap := h, w := w })
             | none => none)
      | _ => none := rfl

theorem args_nil (f : Nat) (st : St Ω) : evalArgs W (f + 1) .nil st = some ([], st) := rfl
theorem args_one (f : Nat) (e : Expr) (st : St Ω) : evalArgs W (f + 1) (.cons e .nil) st = evalExpr W f e st := rfl
theorem args_cons (f : Nat) (e e' : Expr) (rest : Exprs) (st : St Ω) :
    evalArgs W (f + 1) (.cons e (.cons e' rest)) st =
      match evalExpr W f e st with
      | some ([v], st1) =>
        (match evalArgs W f (.cons e' rest) st1 with
         | some (vs, st2) => some (v :: vs, st2)
         | none => none)
      | _ => none := rfl

theorem guards_nil (f : Nat) (st : St Ω) : evalGuards W (f + 1) .nil st = some ([], st) := rfl
theorem guards_recv (f : Nat) (e : Expr) (b : Block) (rest : Cases) (st : St Ω) :
    evalGuards W (f + 1) (.cons (.un "<-" e) b rest) st =
        match evalExpr W f e st with
        | some ([c], st1) => (evalGuards W f rest st1).map fun (l, st2) => (c :: l, st2)
        | _ => none := rfl
end steps

def loopCond : Expr := .bin "<" (.var "attempt") (.var "maxRetries")
def loopPost : Block := B[(.incr "attempt")]
def loopBody : Block := B[
    (.ifS B[(.define ["err"] E[(.mcall (.var "ctx") "Err" E[])])] (.bin "!=" (.var "err") (.var "nil")) B[
      (.ret E[(.str ""), (.call "fmt.Errorf" E[(.str "run: context cancelled during retry: %w"), (.var "err")])])] B[]),
    (.ifS B[] (.bin "&&" (.bin ">" (.var "attempt") (.int 0)) (.bin ">" (.var "wait") (.int 0))) B[
      (.selectS (Cases.ofList [
        ((.un "<-" (.call "time.After" E[(.var "wait")])), B[]),
        ((.un "<-" (.mcall (.var "ctx") "Done" E[])), B[
          (.ret E[(.str ""), (.call "fmt.Errorf" E[(.str "run: context cancelled during wait: %w"), (.mcall (.var "ctx") "Err" E[])])])])]))] B[]),
    (.assign E[(.var "execResult"), (.var "execErr")] E[(.mcall (.var "node") "Exec" E[(.var "ctx"), (.var "prepResult")])]),
    (.ifS B[] (.bin "==" (.var "execErr") (.var "nil")) B[
      .brk] B[])]
def fbStmt : Stmt :=
  (.ifS B[] (.bin "!=" (.var "execErr") (.var "nil")) B[
    (.ifS B[(.define ["fallback", "ok"] E[(.assert (.var "node") "FallbackNode")])] (.var "ok") B[
      (.assign E[(.var "execResult"), (.var "execErr")] E[(.mcall (.var "fallback") "ExecFallback" E[(.var "prepResult"), (.var "execErr")])])] B[]),
    (.ifS B[] (.bin "!=" (.var "execErr") (.var "nil")) B[
      (.ret E[(.str ""), (.call "fmt.Errorf" E[(.str "run: exec failed after %d retries: %w"), (.var "maxRetries"), (.var "execErr")])])] B[])] B[])
def postBlock : Block := B[
  (.define ["action", "err"] E[(.mcall (.var "node") "Post" E[(.var "ctx"), (.var "shared"), (.var "prepResult"), (.var "execResult")])]),
  (.ifS B[] (.bin "!=" (.var "err") (.var "nil")) B[
    (.ret E[(.str ""), (.call "fmt.Errorf" E[(.str "run: post failed: %w"), (.var "err")])])] B[]),
  (.ifS B[] (.bin "==" (.var "action") (.str "")) B[
    (.assign E[(.var "action")] E[(.var "DefaultAction")])] B[]),
  (.ret E[(.var "action"), (.var "nil")])]
def suffix : Block := .cons fbStmt postBlock
def tailBlock : Block := .cons (.forS B[(.define ["attempt"] E[(.int 0)])] loopCond loopPost loopBody) suffix

theorem Run_body : Flyt.Expected.IR.Run.body =
  .cons (.ifS B[(.define ["_", "ok"] E[(.assert (.var "node") "*BatchNode")])] (.var "ok") B[
    (.ret E[(.call "runBatch" E[(.var "ctx"), (.var "node"), (.var "shared")])])] B[]) (
  .cons (.ifS B[(.define ["batchBuilder", "ok"] E[(.assert (.var "node") "*BatchNodeBuilder")])] (.var "ok") B[
    (.ret E[(.call "runBatch" E[(.var "ctx"), (.sel (.var "batchBuilder") "BatchNode"), (.var "shared")])])] B[]) (
  .cons (.ifS B[(.define ["err"] E[(.mcall (.var "ctx") "Err" E[])])] (.bin "!=" (.var "err") (.var "nil")) B[
    (.ret E[(.str ""), (.call "fmt.Errorf" E[(.str "run: context cancelled: %w"), (.var "err")])])] B[]) (
  .cons (.define ["prepResult", "err"] E[(.mcall (.var "node") "Prep" E[(.var "ctx"), (.var "shared")])]) (
  .cons (.ifS B[] (.bin "!=" (.var "err") (.var "nil")) B[
    (.ret E[(.str ""), (.call "fmt.Errorf" E[(.str "run: prep failed: %w"), (.var "err")])])] B[]) (
  .cons (.ifS B[(.define ["err"] E[(.mcall (.var "ctx") "Err" E[])])] (.bin "!=" (.var "err") (.var "nil")) B[
    (.ret E[(.str ""), (.call "fmt.Errorf" E[(.str "run: context cancelled after prep: %w"), (.var "err")])])] B[]) (
  .cons (.define ["maxRetries"] E[(.int 1)]) (
  .cons (.define ["wait"] E[(.int 0)]) (
  .cons (.ifS B[(.define ["retryable", "ok"] E[(.assert (.var "node") "RetryableNode")])] (.var "ok") B[
    (.assign E[(.var "maxRetries")] E[(.mcall (.var "retryable") "GetMaxRetries" E[])]),
    (.assign E[(.var "wait")] E[(.mcall (.var "retryable") "GetWait" E[])])] B[]) (
  .cons (.declare "execResult" "any") (
  .cons (.declare "execErr" "error") tailBlock)))))))))) := rfl

def envL (ee er : GV) (wI m : Int) (pv : GV) (sid : StoreId) (n : NodeId) : GoIR.Env :=
  [("execErr", ee), ("execResult", er), ("wait", .int wI), ("maxRetries", .int m), ("err", .nil), ("prepResult", pv),
   ("shared", .ref "store" sid), ("node", .node n), ("ctx", .ref "ctx" 0)]

def lastGV : Option Nat → GV
  | none => .nil
  | some e => .err (.user e)

def LoopRes (res : Option (Ctl × St LeafW)) (wI m : Int) (pv : GV) (sid : StoreId) (n : NodeId) (evs0 : List Ev) :
    List Ev × Ctx × AttemptRes → Prop
  | (evs, ctx', .ok r) => ∃ gv c, res = some (.next, ⟨envL .nil gv wI m pv sid n, [], ⟨evs0 ++ evs, ctx', c⟩⟩) ∧ gv.toVal = r
  | (evs, ctx', .failed e) => ∃ gv c, res = some (.next, ⟨envL (.err (.user e)) gv wI m pv sid n, [], ⟨evs0 ++ evs, ctx', c⟩⟩)
  | (evs, ctx', .cancelled kd) => ∃ env c, res = some (.ret [.str "", .err (.ctx kd)], ⟨env, [], ⟨evs0 ++ evs, ctx', c⟩⟩)

theorem LoopRes_shift {res wI m pv sid n evs0 pre evs ctx' r}
    (h : LoopRes res wI m pv sid n (evs0 ++ pre) (evs, ctx', r)) : LoopRes res wI m pv sid n evs0 (pre ++ evs, ctx', r) := by
  cases r <;> simpa [LoopRes, List.append_assoc] using h

theorem LoopRes_shift' {res wI m pv sid n evs0 pre} {A : List Ev × Ctx × AttemptRes}
    (h : LoopRes res wI m pv sid n (evs0 ++ pre) A) : LoopRes res wI m pv sid n evs0 (pre ++ A.1, A.2.1, A.2.2) := by
  obtain ⟨evs, c, r⟩ := A
  exact LoopRes_shift h

theorem fb_ne1 : (FbKind.passThrough != FbKind.absent) = true := by decide
theorem fb_ne2 : (FbKind.custom != FbKind.absent) = true := by decide

theorem toVal_ofVal (x : Val) : (GV.ofVal x).toVal = x := by
  cases x <;> simp [GV.ofVal, Val.asResult?, GV.toVal, Result.box]

macro "gosimp" " [" ts:Lean.Parser.Tactic.simpLemma,* "]" : tactic =>
  `(tactic| simp [block_nil, block_cons, stmt_define, stmt_declare, stmt_assign, stmt_if, stmt_for, stmt_select, stmt_ret_nil, stmt_ret_cons,
      stmt_brk, stmt_incr, expr_var, expr_str, expr_int, expr_and, expr_bin, expr_call, expr_mcall, args_nil, args_one, args_cons,
      guards_nil, guards_recv,
      evalRhs, isCommaOk, evalCommaOk, Env.get, Env.set, Env.push, Env.pushAll,
      popSt, Env.popTo, ctxErrGV, GV.eqv, GV.isNil, errorf, assignAll, assignTo, zeroOf, Exprs.length, Exprs.toList, intBin, nthBody, Cases.ofList,
      cw1, cw2, cw3, cw4, cw5, cw6, cw7, fb_ne1, fb_ne2, $ts,*])

section
variable (kind : CtxKind) (n : NodeId) (v : Nat) (sid : StoreId) (cfg : LeafCfg) (scr : LeafScript)
local notation "W" => leafWorld kind n v cfg scr

theorem cond_unfold (f : Nat) (st : St LeafW) :
    evalExpr W f loopCond st = evalExpr W f (.bin "<" (.var "attempt") (.var "maxRetries")) st := rfl
theorem post_unfold (f : Nat) (st : St LeafW) :
    execBlock W f loopPost st = execBlock W f B[(.incr "attempt")] st := rfl
theorem body_unfold (f : Nat) (st : St LeafW) :
    execBlock W f loopBody st = execBlock W f B[
    (.ifS B[(.define ["err"] E[(.mcall (.var "ctx") "Err" E[])])] (.bin "!=" (.var "err") (.var "nil")) B[
      (.ret E[(.str ""), (.call "fmt.Errorf" E[(.str "run: context cancelled during retry: %w"), (.var "err")])])] B[]),
    (.ifS B[] (.bin "&&" (.bin ">" (.var "attempt") (.int 0)) (.bin ">" (.var "wait") (.int 0))) B[
      (.selectS (Cases.ofList [
        ((.un "<-" (.call "time.After" E[(.var "wait")])), B[]),
        ((.un "<-" (.mcall (.var "ctx") "Done" E[])), B[
          (.ret E[(.str ""), (.call "fmt.Errorf" E[(.str "run: context cancelled during wait: %w"), (.mcall (.var "ctx") "Err" E[])])])])]))] B[]),
    (.assign E[(.var "execResult"), (.var "execErr")] E[(.mcall (.var "node") "Exec" E[(.var "ctx"), (.var "prepResult")])]),
    (.ifS B[] (.bin "==" (.var "execErr") (.var "nil")) B[
      .brk] B[])] st := rfl

theorem loop_spec (wt : Nat) (wI : Int) (hw : wI = wt) (pv : GV) (rem : Nat) :
    ∀ (k : Nat) (a m : Int) (_ : a = k) (_ : m = k + rem) (lastN : Option Nat) (er : GV) (_ : er.toVal = Val.nil)
      (evs0 : List Ev) (ctx : Ctx),
    LoopRes ((loopFor W (rem + 30) loopCond loopPost loopBody
                ⟨("attempt", .int a) :: envL (lastGV lastN) er wI m pv sid n, [], ⟨evs0, ctx, k⟩⟩).map
              (fun (c, st2) => (c, popSt st2 9)))
      wI m pv sid n evs0
      (attempts kind (fun k => .exec n v k (execArg cfg.execS pv.toVal)) (fun k f => .wait n v k wt f)
        scr.exec scr.waitCancel cfg.execS wt k rem lastN ctx) := by
  subst hw
  induction rem with
  | zero =>
    intro k a m ha hm lastN er her evs0 ctx
    subst ha hm
    rw [loopFor]
    cases lastN <;> gosimp [cond_unfold, envL, attempts, LoopRes, lastGV, her]
  | succ rem ih =>
    intro k a m ha hm lastN er her evs0 ctx
    have hlt : (a < m) := by omega
    rw [show rem + 1 + 30 = (rem + 30) + 1 by omega, loopFor]
    cases ctx with
    | done kd =>
      gosimp [cond_unfold, body_unfold, post_unfold, envL, attempts, LoopRes, hlt]
    | live =>
      rcases Nat.eq_zero_or_pos k with hk | hk
      · subst hk
        have ha0 : ¬ (0 < a) := by omega
        cases hs : cfg.execS
        · gosimp [cond_unfold, body_unfold, post_unfold, envL, attempts, LoopRes, hlt, ha0, hs, w_exec_absent, GV.toVal]
        all_goals
          cases hx : (scr.exec 0).res with
          | ok x =>
            gosimp [cond_unfold, body_unfold, post_unfold, envL, attempts, LoopRes, hlt, ha0, hs, w_exec_ok, w_exec_err, hx, toVal_ofVal]
          | error e =>
            gosimp [cond_unfold, body_unfold, post_unfold, envL, attempts, hlt, ha0, hs, w_exec_ok, w_exec_err, hx]
            have ih' := ih (0 + 1) (a + 1) m (by omega) (by omega) (some e) .nil rfl
              (evs0 ++ [Ev.exec n v 0 (execArg cfg.execS pv.toVal)]) (Ctx.live.after kind (scr.exec 0).cancels)
            rw [hs] at ih'
            exact LoopRes_shift' ih'
      · have ha0 : 0 < a := by omega
        have hk' : k > 0 := hk
        rcases Nat.eq_zero_or_pos wt with hw0 | hw0
        · subst hw0
          have hwI : ¬ (0 < ((0:Nat) : Int)) := by omega
          cases hs : cfg.execS
          · gosimp [cond_unfold, body_unfold, post_unfold, envL, attempts, LoopRes, hlt, ha0, hwI, hk', hs, w_exec_absent, GV.toVal]
          all_goals
            cases hx : (scr.exec k).res with
            | ok x =>
              gosimp [cond_unfold, body_unfold, post_unfold, envL, attempts, LoopRes, hlt, ha0, hwI, hk', hs, w_exec_ok, w_exec_err, hx, toVal_ofVal]
            | error e =>
              gosimp [cond_unfold, body_unfold, post_unfold, envL, attempts, hlt, ha0, hwI, hk', hs, w_exec_ok, w_exec_err, hx]
              have ih' := ih (k + 1) (a + 1) m (by omega) (by omega) (some e) .nil rfl
                (evs0 ++ [Ev.exec n v k (execArg cfg.execS pv.toVal)]) (Ctx.live.after kind (scr.exec k).cancels)
              rw [hs] at ih'
              exact LoopRes_shift' ih'
        · have hwI : 0 < (wt : Int) := by omega
          cases hwc : scr.waitCancel k
          · cases hs : cfg.execS
            · gosimp [cond_unfold, body_unfold, post_unfold, envL, attempts, LoopRes, hlt, ha0, hwI, hk', hw0, hwc, hs, w_exec_absent, GV.toVal, w_sel_fire]
            all_goals
              cases hx : (scr.exec k).res with
              | ok x =>
                gosimp [cond_unfold, body_unfold, post_unfold, envL, attempts, LoopRes, hlt, ha0, hwI, hk', hw0, hwc, hs, w_exec_ok, w_exec_err, hx, toVal_ofVal, w_sel_fire]
              | error e =>
                gosimp [cond_unfold, body_unfold, post_unfold, envL, attempts, hlt, ha0, hwI, hk', hw0, hwc, hs, w_exec_ok, w_exec_err, hx, w_sel_fire]
                have ih' := ih (k + 1) (a + 1) m (by omega) (by omega) (some e) .nil rfl
                  (evs0 ++ [Ev.wait n v k wt true, Ev.exec n v k (execArg cfg.execS pv.toVal)]) (Ctx.live.after kind (scr.exec k).cancels)
                rw [hs] at ih'
                exact LoopRes_shift' ih'
          · gosimp [cond_unfold, body_unfold, post_unfold, envL, attempts, LoopRes, hlt, ha0, hwI, hk', hw0, hwc, w_sel_cancel]

def thenBlock (f : Nat) (b : Block) : Option (Ctl × St LeafW) → Option (Ctl × St LeafW)
  | some (.next, st1) => execBlock W f b st1
  | r => r
theorem block_cons' (f : Nat) (s : Stmt) (rest : Block) (st : St LeafW) :
    execBlock W (f + 1) (.cons s rest) st = thenBlock kind n v cfg scr f rest (execStmt W f s st) := by
  rw [block_cons]
  generalize execStmt W f s st = X
  rcases X with _ | ⟨c, st1⟩
  · rfl
  · cases c <;> rfl

/-- the model's post phase, given the events so far -/
def postM (pvV : Val) (evs : List Ev) (ctx3 : Ctx) (ev : Val) : List Ev × Ctx × Outcome :=
  match cfg.postS with
  | .absent => (evs, ctx3, .ok defaultAction)
  | s =>
    match scr.post.res with
    | .error e => (evs ++ [.post n v sid (postArgs s pvV ev).1 (postArgs s pvV ev).2], ctx3.after kind scr.post.cancels, .err (.user e))
    | .ok a => (evs ++ [.post n v sid (postArgs s pvV ev).1 (postArgs s pvV ev).2], ctx3.after kind scr.post.cancels, .ok (norm a))

/-- the model after the retry loop -/
def tailM (pvV : Val) (evs : List Ev) (ctx2 : Ctx) (ares : AttemptRes) : List Ev × Ctx × Outcome :=
  match fallbackPhase kind cfg.fb (fun e => .fb n v pvV (.user e)) scr.fb ctx2 ares with
  | (fev, ctx3, .error e) => (evs ++ fev, ctx3, .err e)
  | (fev, ctx3, .ok ev) => postM kind n v sid cfg scr pvV (evs ++ fev) ctx3 ev

def FinalRes (res : Option (Ctl × St LeafW)) (out : List Ev × Ctx × Outcome) : Prop :=
  ∃ rs env c, res = some (.ret rs, ⟨env, [], ⟨out.1, out.2.1, c⟩⟩) ∧ outcomeOf rs = some out.2.2

theorem post_spec (f : Nat) (ee gv : GV) (wI m : Int) (pv : GV) (evs : List Ev) (ctx : Ctx) (c : Nat) :
    FinalRes (execBlock W (f + 19) postBlock ⟨envL ee gv wI m pv sid n, [], ⟨evs, ctx, c⟩⟩)
      (postM kind n v sid cfg scr pv.toVal evs ctx gv.toVal) := by
  cases hs : cfg.postS
  · gosimp [postBlock, envL, postM, FinalRes, hs, w_post_absent, outcomeOf, defaultAction]
  all_goals
    cases hx : scr.post.res with
    | error e => gosimp [postBlock, envL, postM, FinalRes, hs, hx, w_post_err, outcomeOf]
    | ok a =>
      by_cases ha : a = ""
      · gosimp [postBlock, envL, postM, FinalRes, hs, hx, w_post_ok, outcomeOf, ha, norm, defaultAction]
      · have hb : (a == "") = false := by simp [ha]
        gosimp [postBlock, envL, postM, FinalRes, hs, hx, w_post_ok, outcomeOf, ha, hb, norm, defaultAction]

theorem suffix_ok (f : Nat) (gv : GV) (r : Val) (hgv : gv.toVal = r) (wI m : Int) (pv : GV) (evs : List Ev) (ctx : Ctx) (c : Nat) :
    FinalRes (execBlock W (f + 20) suffix ⟨envL .nil gv wI m pv sid n, [], ⟨evs, ctx, c⟩⟩)
      (tailM kind n v sid cfg scr pv.toVal evs ctx (.ok r)) := by
  have h1 : execBlock W (f + 20) suffix ⟨envL .nil gv wI m pv sid n, [], ⟨evs, ctx, c⟩⟩
      = execBlock W (f + 19) postBlock ⟨envL .nil gv wI m pv sid n, [], ⟨evs, ctx, c⟩⟩ := by
    gosimp [suffix, fbStmt, envL]
  rw [h1]; subst hgv
  simpa [tailM, fallbackPhase] using post_spec kind n v sid cfg scr f .nil gv wI m pv evs ctx c

theorem suffix_failed (f : Nat) (gv : GV) (e : Nat) (wI m : Int) (pv : GV) (evs : List Ev) (ctx : Ctx) (c : Nat) :
    FinalRes (execBlock W (f + 20) suffix ⟨envL (.err (.user e)) gv wI m pv sid n, [], ⟨evs, ctx, c⟩⟩)
      (tailM kind n v sid cfg scr pv.toVal evs ctx (.failed e)) := by
  cases hfb : cfg.fb
  · gosimp [suffix, fbStmt, envL, tailM, fallbackPhase, FinalRes, hfb, outcomeOf]
  · gosimp [suffix, fbStmt, envL, tailM, fallbackPhase, FinalRes, hfb, outcomeOf, w_fb_pass]
  · cases hx : scr.fb.res with
    | error e' => gosimp [suffix, fbStmt, envL, tailM, fallbackPhase, FinalRes, hfb, hx, outcomeOf, w_fb_err]
    | ok x =>
      have h1 : execBlock W (f + 20) suffix ⟨envL (.err (.user e)) gv wI m pv sid n, [], ⟨evs, ctx, c⟩⟩
          = execBlock W (f + 19) postBlock ⟨envL .nil (GV.ofVal x) wI m pv sid n, [],
              ⟨evs ++ [.fb n v pv.toVal (.user e)], ctx.after kind scr.fb.cancels, c⟩⟩ := by
        gosimp [suffix, fbStmt, envL, hfb, hx, w_fb_ok]
      rw [h1]
      simpa [tailM, fallbackPhase, hfb, hx, toVal_ofVal] using
        post_spec kind n v sid cfg scr f .nil (GV.ofVal x) wI m pv (evs ++ [.fb n v pv.toVal (.user e)]) (ctx.after kind scr.fb.cancels) c

theorem tail_spec (rem wt : Nat) (pv : GV) (pev : List Ev) :
    FinalRes (execBlock W (rem + 32) tailBlock ⟨envL .nil (.val Val.nil) wt rem pv sid n, [], ⟨pev, .live, 0⟩⟩)
      (tailM kind n v sid cfg scr pv.toVal
        (pev ++ (attempts kind (fun k => .exec n v k (execArg cfg.execS pv.toVal)) (fun k f => .wait n v k wt f)
          scr.exec scr.waitCancel cfg.execS wt 0 rem none .live).1)
        (attempts kind (fun k => .exec n v k (execArg cfg.execS pv.toVal)) (fun k f => .wait n v k wt f)
          scr.exec scr.waitCancel cfg.execS wt 0 rem none .live).2.1
        (attempts kind (fun k => .exec n v k (execArg cfg.execS pv.toVal)) (fun k f => .wait n v k wt f)
          scr.exec scr.waitCancel cfg.execS wt 0 rem none .live).2.2) := by
  have hl := loop_spec kind n v sid cfg scr wt wt rfl pv rem 0 0 rem (by simp) (by simp) none (.val Val.nil) rfl pev .live
  generalize hL : Option.map _ (loopFor _ _ _ _ _ _) = L at hl
  have h1 : execBlock W (rem + 32) tailBlock ⟨envL .nil (.val Val.nil) wt rem pv sid n, [], ⟨pev, .live, 0⟩⟩
      = thenBlock kind n v cfg scr (rem + 31) suffix L := by
    rw [← hL, tailBlock, block_cons']
    rfl
  rw [h1]
  generalize attempts kind (fun k => .exec n v k (execArg cfg.execS pv.toVal)) (fun k f => .wait n v k wt f)
          scr.exec scr.waitCancel cfg.execS wt 0 rem none .live = A at hl ⊢
  obtain ⟨aev, ctx2, ares⟩ := A
  cases ares with
  | ok r =>
    obtain ⟨gv, c, h, hgv⟩ := hl
    rw [h]
    exact suffix_ok kind n v sid cfg scr (rem + 11) gv r hgv wt rem pv (pev ++ aev) ctx2 c
  | failed e =>
    obtain ⟨gv, c, h⟩ := hl
    rw [h]
    exact suffix_failed kind n v sid cfg scr (rem + 11) gv e wt rem pv (pev ++ aev) ctx2 c
  | cancelled kd =>
    obtain ⟨env, c, h⟩ := hl
    rw [h]
    refine ⟨[.str "", .err (.ctx kd)], env, c, ?_, ?_⟩ <;> simp [tailM, fallbackPhase, outcomeOf, thenBlock]

theorem runLeafIR_of_final (F : Nat) (ctx : Ctx) (out : List Ev × Ctx × Outcome)
    (h : FinalRes (execBlock W F Flyt.Expected.IR.Run.body
          ⟨[("shared", .ref "store" sid), ("node", .node n), ("ctx", .ref "ctx" 0)], [], ⟨[], ctx, 0⟩⟩) out) :
    runLeafIR F Flyt.Expected.IR.Run kind n v sid cfg scr ctx = some out := by
  obtain ⟨rs, env, c, h, ho⟩ := h
  unfold runLeafIR callFunc
  have hn : Env.pushAll [] ((if Flyt.Expected.IR.Run.recv == "" then [] else [Flyt.Expected.IR.Run.recv]) ++ Flyt.Expected.IR.Run.params)
      [ctxH, .node n, storeH sid] = some [("shared", .ref "store" sid), ("node", .node n), ("ctx", .ref "ctx" 0)] := rfl
  simp only [hn, h, ho, Option.map]
end

section
variable (kind : CtxKind) (n : NodeId) (v : Nat) (sid : StoreId) (cfg : LeafCfg) (scr : LeafScript)
local notation "W" => leafWorld kind n v cfg scr

theorem after_live_false : Ctx.live.after kind false = .live := rfl
theorem after_live_true : Ctx.live.after kind true = .done kind := rfl

theorem runLeaf_absent (hp : cfg.prepS = .absent) :
    runLeaf kind n v sid cfg scr .live =
      tailM kind n v sid cfg scr Val.nil
        ([] ++ (attempts kind (fun k => .exec n v k (execArg cfg.execS Val.nil)) (fun k f => .wait n v k cfg.effWait f)
          scr.exec scr.waitCancel cfg.execS cfg.effWait 0 cfg.effBudget none .live).1)
        (attempts kind (fun k => .exec n v k (execArg cfg.execS Val.nil)) (fun k f => .wait n v k cfg.effWait f)
          scr.exec scr.waitCancel cfg.execS cfg.effWait 0 cfg.effBudget none .live).2.1
        (attempts kind (fun k => .exec n v k (execArg cfg.execS Val.nil)) (fun k f => .wait n v k cfg.effWait f)
          scr.exec scr.waitCancel cfg.execS cfg.effWait 0 cfg.effBudget none .live).2.2 := by
  generalize hA : attempts _ _ _ _ _ _ _ _ _ _ _ = A
  obtain ⟨aev, ctx2, ares⟩ := A
  simp only [runLeaf, hp, hA, tailM]
  generalize hF : fallbackPhase _ _ _ _ _ _ = Fb
  obtain ⟨fev, ctx3, eres⟩ := Fb
  cases eres with
  | error e => simp
  | ok ev =>
    cases hs : cfg.postS <;> simp [postM, hs] <;> cases hx : scr.post.res <;> simp

theorem runLeaf_prep (hp : cfg.prepS ≠ .absent) {x : Val} (hx : scr.prep.res = .ok x) (hc : scr.prep.cancels = false) :
    runLeaf kind n v sid cfg scr .live =
      tailM kind n v sid cfg scr (prepRet cfg.prepS x)
        ([.prep n v sid] ++ (attempts kind (fun k => .exec n v k (execArg cfg.execS (prepRet cfg.prepS x))) (fun k f => .wait n v k cfg.effWait f)
          scr.exec scr.waitCancel cfg.execS cfg.effWait 0 cfg.effBudget none .live).1)
        (attempts kind (fun k => .exec n v k (execArg cfg.execS (prepRet cfg.prepS x))) (fun k f => .wait n v k cfg.effWait f)
          scr.exec scr.waitCancel cfg.execS cfg.effWait 0 cfg.effBudget none .live).2.1
        (attempts kind (fun k => .exec n v k (execArg cfg.execS (prepRet cfg.prepS x))) (fun k f => .wait n v k cfg.effWait f)
          scr.exec scr.waitCancel cfg.execS cfg.effWait 0 cfg.effBudget none .live).2.2 := by
  generalize hA : attempts _ _ _ _ _ _ _ _ _ _ _ = A
  obtain ⟨aev, ctx2, ares⟩ := A
  cases hs' : cfg.prepS
  · exact absurd hs' hp
  all_goals
    rw [hs'] at hA
    simp only [runLeaf, hs', hx, hc, after_live_false, Except.map, tailM, hA]
    generalize hF : fallbackPhase _ _ _ _ _ _ = Fb
    obtain ⟨fev, ctx3, eres⟩ := Fb
    cases eres with
    | error e => simp
    | ok ev =>
      cases hs : cfg.postS <;> simp [postM, hs] <;> cases hx : scr.post.res <;> simp

def runFuel (cfg : LeafCfg) : Nat := cfg.effBudget + 43

theorem Run_refines_runLeaf (ctx : Ctx) :
    GoIR.runLeafIR (runFuel cfg) Flyt.Expected.IR.Run kind n v sid cfg scr ctx
      = some (runLeaf kind n v sid cfg scr ctx) := by
  apply runLeafIR_of_final
  unfold runFuel
  cases ctx with
  | done k => gosimp [Run_body, FinalRes, runLeaf, outcomeOf]
  | live =>
    cases hp : cfg.prepS
    · rw [runLeaf_absent kind n v sid cfg scr hp]
      cases hr : cfg.retryable
      · have hpre : execBlock W (cfg.effBudget + 43) Flyt.Expected.IR.Run.body
            ⟨[("shared", .ref "store" sid), ("node", .node n), ("ctx", .ref "ctx" 0)], [], ⟨[], .live, 0⟩⟩
            = execBlock W (1 + 32) tailBlock ⟨envL .nil (.val Val.nil) ((0 : Nat) : Int) ((1 : Nat) : Int) .nil sid n, [], ⟨[], .live, 0⟩⟩ := by
          gosimp [Run_body, LeafCfg.effBudget, hr, hp, w_prep_absent, envL]
        rw [hpre]
        simpa [LeafCfg.effBudget, LeafCfg.effWait, hr, GV.toVal] using tail_spec kind n v sid cfg scr 1 0 .nil []
      · have hpre : execBlock W (cfg.effBudget + 43) Flyt.Expected.IR.Run.body
            ⟨[("shared", .ref "store" sid), ("node", .node n), ("ctx", .ref "ctx" 0)], [], ⟨[], .live, 0⟩⟩
            = execBlock W (cfg.budget + 32) tailBlock ⟨envL .nil (.val Val.nil) (cfg.wait : Int) (cfg.budget : Int) .nil sid n, [], ⟨[], .live, 0⟩⟩ := by
          gosimp [Run_body, LeafCfg.effBudget, hr, hp, w_prep_absent, envL]
        rw [hpre]
        simpa [LeafCfg.effBudget, LeafCfg.effWait, hr, GV.toVal] using tail_spec kind n v sid cfg scr cfg.budget cfg.wait .nil []
    all_goals
      cases hx : scr.prep.res with
      | error e => gosimp [Run_body, FinalRes, runLeaf, outcomeOf, hp, hx, w_prep_err, Except.map]
      | ok x =>
        cases hc : scr.prep.cancels
        · have hp' : cfg.prepS ≠ .absent := by simp [hp]
          rw [runLeaf_prep kind n v sid cfg scr hp' hx hc]
          cases hr : cfg.retryable
          · have hpre : execBlock W (cfg.effBudget + 43) Flyt.Expected.IR.Run.body
                ⟨[("shared", .ref "store" sid), ("node", .node n), ("ctx", .ref "ctx" 0)], [], ⟨[], .live, 0⟩⟩
                = execBlock W (1 + 32) tailBlock ⟨envL .nil (.val Val.nil) ((0 : Nat) : Int) ((1 : Nat) : Int)
                    (GV.ofVal (prepRet cfg.prepS x)) sid n, [], ⟨[.prep n v sid], .live, 0⟩⟩ := by
              gosimp [Run_body, LeafCfg.effBudget, hr, hp', hx, hc, w_prep_ok, envL, after_live_false]
            rw [hpre]
            simpa [LeafCfg.effBudget, LeafCfg.effWait, hr, toVal_ofVal] using
              tail_spec kind n v sid cfg scr 1 0 (GV.ofVal (prepRet cfg.prepS x)) [.prep n v sid]
          · have hpre : execBlock W (cfg.effBudget + 43) Flyt.Expected.IR.Run.body
                ⟨[("shared", .ref "store" sid), ("node", .node n), ("ctx", .ref "ctx" 0)], [], ⟨[], .live, 0⟩⟩
                = execBlock W (cfg.budget + 32) tailBlock ⟨envL .nil (.val Val.nil) (cfg.wait : Int) (cfg.budget : Int)
                    (GV.ofVal (prepRet cfg.prepS x)) sid n, [], ⟨[.prep n v sid], .live, 0⟩⟩ := by
              gosimp [Run_body, LeafCfg.effBudget, hr, hp', hx, hc, w_prep_ok, envL, after_live_false]
            rw [hpre]
            simpa [LeafCfg.effBudget, LeafCfg.effWait, hr, toVal_ofVal] using
              tail_spec kind n v sid cfg scr cfg.budget cfg.wait (GV.ofVal (prepRet cfg.prepS x)) [.prep n v sid]
        · gosimp [Run_body, FinalRes, runLeaf, outcomeOf, hp, hx, hc, w_prep_ok, Except.map, after_live_true]
end

/-- the refinement holds with any larger recursion depth as well (fuel monotonicity, `Refine/Mono.lean`) -/
theorem Run_refines_runLeaf_of_le (kind : CtxKind) (n : NodeId) (v : Nat) (sid : StoreId) (cfg : LeafCfg)
    (scr : LeafScript) (ctx : Ctx) (fuel : Nat) (h : runFuel cfg ≤ fuel) :
    GoIR.runLeafIR fuel Flyt.Expected.IR.Run kind n v sid cfg scr ctx
      = some (runLeaf kind n v sid cfg scr ctx) :=
  mono_runLeafIR h (Run_refines_runLeaf kind n v sid cfg scr ctx)

end Flyt.Refine
