import FlytModel.GoIR.FlowBuildWorld
import FlytModel.Expected.IR
import FlytModel.Refine.RunNode
/-!
# Refinement: the translated Go source of the flow CONSTRUCTION API and of the flow's adapter methods
(`Flyt.Expected.IR.NewFlow`, `Flow_Connect`, `Flow_Prep`, `Flow_Post`, `Flow_Run`), run by the definitional interpreter of
`GoIR/Interp.lean` in `flowBuildWorld` (`GoIR/FlowBuildWorld.lean`), computes what the hand-written model says (`Model/Flow.lean`)

* `NewFlow_refines_of_le`            `NewFlow(start)`: the flow object with `start` (nil ⇒ `none`), the default `BaseNode`, and the EMPTY
                                     table `buildTable [] = []` — from every prior state, at every depth `≥ 10`.
* `Flow_Connect_refines_of_le`       one `Connect(from, action, to)` on a well-formed flow whose table view is `t`: returns the flow itself,
                                     the table view becomes `connect t ⟨from, action, to⟩` (EQUAL as association lists), `start` / `BaseNode`
                                     untouched, well-formedness preserved — at every depth `≥ 6`.
* `Flow_Connect_sequence_refines`    `NewFlow(start)` followed by one `Connect` per element of `ops`, each on the flow the previous call
                                     returned: a flow with `start`, the default `BaseNode` and table view `buildTable ops` — the table that
                                     `FlowExec_refines_flowLoop`, `Run_refines_runNode_flow` and the C03 theorems assume for `NodeDef.flow start ops`.
* `lookup_refines`                   the two-level lookup of `Flow.Exec` done through this world's heap of inner maps = `tableLookup (view o)`.
* `Flow_Prep_refines_of_le`          `(shared, nil)`, for every `shared` value (and receiver, and context), state untouched — depth `≥ 5`.
* `Flow_Post_refines_of_le`          `(action, nil)` if `execResult` holds an `Action`, else `(DefaultAction, nil)` — depth `≥ 7`.
* `Flow_Run_refines_of_le`           `Flow.Run(ctx, shared)` = the `error` of `Run(ctx, f, shared)` (nil on success), the action dropped; events
                                     and run state are those of the model's `runNode` on the flow node — depth `≥ 7`.
                                     `Flow_Run_eq_interpreted_Run`: … which is what the interpreted source of `Run` computes on that node
                                     (`Run_refines_runNode_flow`).

The depths are the LEAST ones at which the runs are not stuck (the executable test `GoIR/FlowBuildTest.lean` is stuck one below).

**Hypotheses.** `Connect` needs `Obj.WF`: no two rows of the outer map share an inner map, and no row holds a dangling handle. Go
guarantees both (an inner map is created by `make` inside `Connect` and stored under one key; nobody else holds `f.transitions`, an
unexported field) — here they are an invariant: `NewFlow` establishes it, `Connect` preserves it, so the sequence theorem has no hypothesis.
Without the first, a write through one row's inner map would show in another row (aliasing), and the view would not follow `connect`.
`Flow.Run` needs the model not to run out of fuel (`≠ .fuel`), like every theorem about `runNode`.

**Opaque world calls.** `NewBaseNode()` inside the literal is a call of the world: no refinement theorem about `NewBaseNode` exists
(`Refine/Config.lean` covers the setters, getters and option closures, not the constructor), so that it yields the default
`Config.newBaseNode` (`maxRetries: 1, wait: 0`) is this world's reading of flyt.go:494-505, not a theorem. `Run(ctx, f, shared)` inside
`Flow.Run` is a call of the world with the semantics `runNode env · fid`; THAT reading is a theorem (`Run_refines_runNode_flow`).

**No disagreement** between the interpreted source and the hand model was found: `connect` is literally what `Connect` does to the view,
including the order of the association lists (both levels use `assocSet`: overwrite in place, else append), nil targets (`some none`),
the empty action, reconnecting an existing `(from, action)`.
-/
namespace Flyt.Refine.FlowBuild
open Flyt Flyt.GoIR Flyt.GoIR.FlowBuildW Flyt.Expected.IR Flyt.Refine
set_option linter.unusedSimpArgs false

/-! ## unfolding lemmas for the constructors `Refine/Run.lean` does not cover -/

section steps
variable {Ω : Type} (W : World Ω)
theorem expr_amp_lit (f : Nat) (ty : String) (elts : Exprs) (st : St Ω) :
    evalExpr W (f + 1) (.un "&" (.lit ty elts)) st = evalExpr W f (.lit ty elts) st := rfl
theorem expr_lit_Flow (f : Nat) (elts : Exprs) (st : St Ω) :
    evalExpr W (f + 1) (.lit "Flow" elts) st =
      match evalArgs W f (litValues elts) st with
      | some (vs, st1) =>
        (match W.call ("lit:" ++ "Flow" ++ ":" ++ litKeys elts) vs st1.heap st1.w with
         | some (rs, h, w) => some (rs, { st1 with heap := h, w := w })
         | none => none)
      | none => none := rfl
theorem expr_make (f : Nat) (ty : String) (rest : Exprs) (st : St Ω) (h : (ty == "[]Result") = false) :
    evalExpr W (f + 1) (.call "make" (.cons (.var ty) rest)) st =
      match evalArgs W f rest st with
      | some (vs, st1) =>
        (match W.call ("make:" ++ ty) vs st1.heap st1.w with
         | some (rs, h, w) => some (rs, { st1 with heap := h, w := w })
         | none => none)
      | none => none := by
  have h0 : evalExpr W (f + 1) (.call "make" (.cons (.var ty) rest)) st = (if ty == "[]Result" then _ else _) := rfl
  rw [h0, h]; rfl
theorem expr_index (f : Nat) (a i : Expr) (st : St Ω) :
    evalExpr W (f + 1) (.index a i) st =
      match evalExpr W f a st with
      | some ([.slice ad off n], st1) =>
        (match evalExpr W f i st1 with
         | some ([.int k], st2) =>
           if 0 ≤ k ∧ k.toNat < n then (heapGet st2.heap ad (off + k.toNat)).map fun r => ([.result r], st2) else none
         | _ => none)
      | some ([mv], st1) =>
        (match evalExpr W f i st1 with
         | some ([kv], st2) => (W.mapIndex mv kv st2.w).map fun (v, _) => ([v], st2)
         | _ => none)
      | _ => none := rfl
end steps

theorem NewFlow_litValues :
    litValues E[(.bin ":" (.var "BaseNode") (.call "NewBaseNode" E[])), (.bin ":" (.var "start") (.var "start")), (.bin ":" (.var "transitions") (.call "make" E[(.var "map[Node]map[Action]Node")]))]
      = E[(.call "NewBaseNode" E[]), (.var "start"), (.call "make" E[(.var "map[Node]map[Action]Node")])] := rfl
theorem NewFlow_litKeys :
    litKeys E[(.bin ":" (.var "BaseNode") (.call "NewBaseNode" E[])), (.bin ":" (.var "start") (.var "start")), (.bin ":" (.var "transitions") (.call "make" E[(.var "map[Node]map[Action]Node")]))]
      = "BaseNode,start,transitions," := by decide

section world
variable (env : Flyt.Env) (fid : NodeId)
local notation "W" => flowBuildWorld env fid
theorem W_NewBaseNode (h : Heap) (w : FBW) : (W).call "NewBaseNode" [] h w = some ([baseH], h, w) := rfl
theorem W_make_outer (h : Heap) (w : FBW) : (W).call "make:map[Node]map[Action]Node" [] h w = some ([.ref "newtrans" 0], h, w) := rfl
theorem W_make_inner (h : Heap) (w : FBW) : (W).call "make:map[Action]Node" [] h w =
    some ([innerH w.obj.heap.length], h, { w with obj := { w.obj with heap := w.obj.heap ++ [[]] } }) := rfl
theorem W_lit (i j : Nat) (s : GV) (h : Heap) (w : FBW) :
    (W).call "lit:Flow:BaseNode,start,transitions," [.ref "basenode" i, s, .ref "newtrans" j] h w =
      (tgtOf s).map fun s' => ([flowH], h, { w with obj := { base := some Config.newBaseNode, start := s', outer := [], heap := w.obj.heap } }) := rfl
theorem W_Run (c : GV) (i sid : Nat) (h : Heap) (w : FBW) :
    (W).call "Run" [c, .ref "flow" i, .ref "store" sid] h w =
      (runRets (runNode env w.run.mfuel fid sid w.run.st).2.2).map fun rs =>
        (rs, h, { w with run := { evs := w.run.evs ++ (runNode env w.run.mfuel fid sid w.run.st).1, st := (runNode env w.run.mfuel fid sid w.run.st).2.1, mfuel := w.run.mfuel } }) := rfl
theorem W_assert (x : GV) (w : FBW) : (W).assert x "Action" w =
    match x with
    | .str a => some (.str a, true)
    | _ => some (.str "", false) := rfl
theorem W_start (i : Nat) (w : FBW) : (W).field (.ref "flow" i) "start" w = some (tgtGV w.obj.start) := rfl
theorem W_transitions (i : Nat) (w : FBW) : (W).field (.ref "flow" i) "transitions" w = some transH := rfl
theorem W_idx_trans (i n : Nat) (w : FBW) : (W).mapIndex (.ref "trans" i) (.node n) w =
    match assocGet w.obj.outer n with
    | some k => some (innerH k, true)
    | none => some (.nil, false) := rfl
theorem W_idx_inner (k : Nat) (a : String) (w : FBW) : (W).mapIndex (.ref "inner" k) (.str a) w =
    match w.obj.heap[k]? with
    | some cell =>
      (match assocGet cell a with
       | some d => some (tgtGV d, true)
       | none => some (.nil, false))
    | none => none := rfl
theorem W_set_trans (i n k : Nat) (w : FBW) : (W).setIndex (.ref "trans" i) (.node n) (.ref "inner" k) w =
    some { w with obj := { w.obj with outer := assocSet w.obj.outer n k } } := rfl
theorem W_set_inner (k : Nat) (a : String) (v : GV) (w : FBW) : (W).setIndex (.ref "inner" k) (.str a) v w =
    match tgtOf v with
    | some d =>
      if k < w.obj.heap.length then
        some { w with obj := { w.obj with heap := w.obj.heap.set k (assocSet (innerOf w.obj.heap k) a d) } }
      else none
    | none => none := rfl
theorem W_global : (W).global "DefaultAction" = some (.str defaultAction) := rfl
end world

theorem expr_make_outer {Ω : Type} (W : World Ω) (f : Nat) (st : St Ω) :
    evalExpr W (f + 2) (.call "make" E[(.var "map[Node]map[Action]Node")]) st =
        (match W.call "make:map[Node]map[Action]Node" [] st.heap st.w with
         | some (rs, h, w) => some (rs, { st with heap := h, w := w })
         | none => none) := by
  rw [expr_make _ _ _ _ _ (by decide)]; rfl
theorem expr_make_inner {Ω : Type} (W : World Ω) (f : Nat) (st : St Ω) :
    evalExpr W (f + 2) (.call "make" E[(.var "map[Action]Node")]) st =
        (match W.call "make:map[Action]Node" [] st.heap st.w with
         | some (rs, h, w) => some (rs, { st with heap := h, w := w })
         | none => none) := by
  rw [expr_make _ _ _ _ _ (by decide)]; rfl

macro "fbsimp" " [" ts:Lean.Parser.Tactic.simpLemma,* "]" : tactic =>
  `(tactic| gosimp [FlowBuildW.run, flowRunIR, callFunc, expr_sel, expr_amp_lit, expr_lit_Flow, expr_make_outer, expr_make_inner, expr_index, NewFlow_litValues, NewFlow_litKeys,
      W_NewBaseNode, W_make_outer, W_make_inner, W_lit, W_Run, W_assert, W_start, W_transitions, W_idx_trans, W_set_trans, W_set_inner, W_global,
      flowH, transH, innerH, baseH, ctxH, storeH, connectArgs, $ts,*])

theorem NewFlow_core (f : Nat) (s : Option NodeId) (o : Obj) :
    run (f + 10) NewFlow [tgtGV s] o = some ([flowH], { base := some Config.newBaseNode, start := s, outer := [], heap := o.heap }) := by
  cases s <;> fbsimp [NewFlow, tgtGV, tgtOf]

theorem Flow_Prep_core (f : Nat) (recv ctx sh : GV) (o : Obj) :
    run (f + 5) Flow_Prep [recv, ctx, sh] o = some ([sh, .nil], o) := by
  fbsimp [Flow_Prep]

theorem Flow_Post_core_action (f : Nat) (recv ctx sh pv : GV) (a : Action) (o : Obj) :
    run (f + 7) Flow_Post [recv, ctx, sh, pv, .str a] o = some ([.str a, .nil], o) := by
  fbsimp [Flow_Post]

theorem Flow_Post_core_other (f : Nat) (recv ctx sh pv x : GV) (hx : ∀ a, x ≠ .str a) (o : Obj) :
    run (f + 7) Flow_Post [recv, ctx, sh, pv, x] o = some ([.str defaultAction, .nil], o) := by
  cases x <;> first | exact absurd rfl (hx _) | fbsimp [Flow_Post]

theorem assocGet_assocSet_self {κ α : Type} [DecidableEq κ] (l : List (κ × α)) (k : κ) (v : α) :
    assocGet (assocSet l k v) k = some v := by
  induction l with
  | nil => simp [assocSet, assocGet]
  | cons p t ih =>
    obtain ⟨k', v'⟩ := p
    by_cases h : k' = k <;> simp [assocSet, assocGet, h, ih]

theorem mem_of_assocGet {κ α : Type} [DecidableEq κ] {l : List (κ × α)} {k : κ} {v : α} (h : assocGet l k = some v) : (k, v) ∈ l := by
  induction l with
  | nil => simp [assocGet] at h
  | cons p t ih =>
    obtain ⟨k', v'⟩ := p
    by_cases hk : k' = k
    · simp [assocGet, hk] at h; simp [hk, h]
    · simp [assocGet, hk] at h; simp [ih h]

def connectObj (o : Obj) (op : ConnOp) : Obj :=
  match assocGet o.outer op.src with
  | some k => { o with heap := o.heap.set k (assocSet (innerOf o.heap k) op.action op.dst) }
  | none =>
    { o with outer := assocSet o.outer op.src o.heap.length,
             heap := (o.heap ++ [[]]).set o.heap.length (assocSet (innerOf (o.heap ++ [[]]) o.heap.length) op.action op.dst) }

theorem tgtOf_tgtGV (d : Option NodeId) : tgtOf (tgtGV d) = some d := by cases d <;> rfl

theorem Flow_Connect_core (f : Nat) (o : Obj) (hd : ∀ p ∈ o.outer, p.2 < o.heap.length) (op : ConnOp) :
    run (f + 6) Flow_Connect (connectArgs flowH op) o = some ([flowH], connectObj o op) := by
  obtain ⟨src, a, d⟩ := op
  cases hg : assocGet o.outer src with
  | none =>
    fbsimp [Flow_Connect, connectObj, hg, tgtOf_tgtGV, assocGet_assocSet_self]
  | some k =>
    have hk : k < o.heap.length := hd (src, k) (mem_of_assocGet hg)
    fbsimp [Flow_Connect, connectObj, hg, hk, tgtOf_tgtGV]

/-! ## the value-level view -/

theorem assocGet_map {κ α β : Type} [DecidableEq κ] (g : α → β) (l : List (κ × α)) (n : κ) :
    assocGet (l.map fun p => (p.1, g p.2)) n = (assocGet l n).map g := by
  induction l with
  | nil => rfl
  | cons p t ih =>
    obtain ⟨k', v'⟩ := p
    by_cases h : k' = n <;> simp [assocGet, h, ih]

theorem assocSet_map {κ α β : Type} [DecidableEq κ] (g : α → β) (l : List (κ × α)) (k : κ) (v : α) :
    (assocSet l k v).map (fun p => (p.1, g p.2)) = assocSet (l.map fun p => (p.1, g p.2)) k (g v) := by
  induction l with
  | nil => rfl
  | cons p t ih =>
    obtain ⟨k', v'⟩ := p
    by_cases h : k' = k <;> simp [assocSet, h, ih]

theorem assocSet_assocSet {κ α : Type} [DecidableEq κ] (l : List (κ × α)) (k : κ) (v v' : α) :
    assocSet (assocSet l k v) k v' = assocSet l k v' := by
  induction l with
  | nil => simp [assocSet]
  | cons p t ih =>
    obtain ⟨k', w⟩ := p
    by_cases h : k' = k <;> simp [assocSet, h, ih]

theorem assocSet_of_absent {κ α : Type} [DecidableEq κ] {l : List (κ × α)} {k : κ} (h : assocGet l k = none) (v : α) :
    assocSet l k v = l ++ [(k, v)] := by
  induction l with
  | nil => rfl
  | cons p t ih =>
    obtain ⟨k', w⟩ := p
    by_cases hk : k' = k
    · simp [assocGet, hk] at h
    · simp [assocGet, hk] at h; simp [assocSet, hk, ih h]

theorem innerOf_set_self {hp : List Inner} {k : Nat} (h : k < hp.length) (v : Inner) : innerOf (hp.set k v) k = v := by
  simp [innerOf, h]
theorem innerOf_set_ne {hp : List Inner} {k j : Nat} (h : k ≠ j) (v : Inner) : innerOf (hp.set k v) j = innerOf hp j := by
  simp [innerOf, List.getElem?_set_ne h]
theorem innerOf_append_left {hp : List Inner} {j : Nat} (h : j < hp.length) (x : List Inner) : innerOf (hp ++ x) j = innerOf hp j := by
  simp [innerOf, List.getElem?_append_left h]
theorem innerOf_fresh (hp : List Inner) : innerOf (hp ++ [[]]) hp.length = [] := by
  simp [innerOf]

/-- writing through the handle `k` of `src`'s inner map changes exactly `src`'s row of the view — because no other row shares `k` -/
theorem view_set {l : List (NodeId × Nat)} {src : NodeId} {k : Nat} {hp : List Inner} (v : Inner)
    (hg : assocGet l src = some k) (hpw : l.Pairwise (fun p q => p.2 ≠ q.2)) (hk : k < hp.length) :
    (l.map fun p => (p.1, innerOf (hp.set k v) p.2)) = assocSet (l.map fun p => (p.1, innerOf hp p.2)) src v := by
  induction l with
  | nil => simp [assocGet] at hg
  | cons p t ih =>
    obtain ⟨n', k'⟩ := p
    rw [List.pairwise_cons] at hpw
    obtain ⟨hhead, htail⟩ := hpw
    by_cases hn : n' = src
    · simp [assocGet, hn] at hg
      subst hg
      simp only [List.map_cons, assocSet, hn, if_true, innerOf_set_self hk]
      congr 1
      apply List.map_congr_left
      intro q hq
      rw [innerOf_set_ne (hhead q hq)]
    · simp [assocGet, hn] at hg
      have hne : k ≠ k' := fun e => hhead (src, k) (mem_of_assocGet hg) (by simp [e])
      simp only [List.map_cons, assocSet, hn, if_false, innerOf_set_ne hne, ih hg htail]

theorem view_connectObj (o : Obj) (hwf : o.WF) (op : ConnOp) : view (connectObj o op) = connect (view o) op := by
  obtain ⟨hpw, hd⟩ := hwf
  obtain ⟨src, a, d⟩ := op
  unfold connect connectObj view
  simp only [assocGet_map]
  cases hg : assocGet o.outer src with
  | some k =>
    simp only [Option.map_some, Option.getD_some]
    exact view_set _ hg hpw (hd _ (mem_of_assocGet hg))
  | none =>
    simp only [Option.map_none, Option.getD_none]
    have hg' : assocGet (assocSet o.outer src o.heap.length) src = some o.heap.length := assocGet_assocSet_self ..
    have hpw' : (assocSet o.outer src o.heap.length).Pairwise (fun p q => p.2 ≠ q.2) := by
      rw [assocSet_of_absent hg, List.pairwise_append]
      refine ⟨hpw, by simp, ?_⟩
      intro p hp q hq
      simp only [List.mem_singleton] at hq
      subst hq
      exact Nat.ne_of_lt (hd p hp)
    rw [view_set _ hg' hpw' (by simp), assocSet_map, innerOf_fresh, assocSet_assocSet]
    congr 1
    apply List.map_congr_left
    intro q hq
    rw [innerOf_append_left (hd q hq)]

theorem WF_connectObj (o : Obj) (hwf : o.WF) (op : ConnOp) : (connectObj o op).WF := by
  obtain ⟨hpw, hd⟩ := hwf
  obtain ⟨src, a, d⟩ := op
  unfold connectObj
  cases hg : assocGet o.outer src with
  | some k => exact ⟨hpw, by simpa using hd⟩
  | none =>
    refine ⟨?_, ?_⟩
    · show (assocSet o.outer src o.heap.length).Pairwise _
      rw [assocSet_of_absent hg, List.pairwise_append]
      refine ⟨hpw, by simp, ?_⟩
      intro p hp q hq
      simp only [List.mem_singleton] at hq
      subst hq
      exact Nat.ne_of_lt (hd p hp)
    · intro p hp
      have hp' : p ∈ assocSet o.outer src o.heap.length := hp
      rw [assocSet_of_absent hg, List.mem_append] at hp'
      simp only [List.length_set, List.length_append, List.length_singleton]
      rcases hp' with h | h
      · exact Nat.lt_succ_of_lt (hd p h)
      · simp only [List.mem_singleton] at h; subst h; exact Nat.lt_succ_self _

theorem connectObj_base (o : Obj) (op : ConnOp) : (connectObj o op).base = o.base := by
  unfold connectObj; split <;> rfl
theorem connectObj_start (o : Obj) (op : ConnOp) : (connectObj o op).start = o.start := by
  unfold connectObj; split <;> rfl

/-! ## `Connect` sequences -/

theorem WF_foldl (ops : List ConnOp) : ∀ (o : Obj), o.WF → (ops.foldl connectObj o).WF := by
  induction ops with
  | nil => intro o h; exact h
  | cons op t ih => intro o h; exact ih _ (WF_connectObj o h op)

theorem view_foldl (ops : List ConnOp) : ∀ (o : Obj), o.WF → view (ops.foldl connectObj o) = ops.foldl connect (view o) := by
  induction ops with
  | nil => intro o _; rfl
  | cons op t ih =>
    intro o h
    simp only [List.foldl_cons]
    rw [ih _ (WF_connectObj o h op), view_connectObj o h op]

theorem base_foldl (ops : List ConnOp) : ∀ (o : Obj), (ops.foldl connectObj o).base = o.base := by
  induction ops with
  | nil => intro o; rfl
  | cons op t ih => intro o; simp only [List.foldl_cons]; rw [ih, connectObj_base]

theorem start_foldl (ops : List ConnOp) : ∀ (o : Obj), (ops.foldl connectObj o).start = o.start := by
  induction ops with
  | nil => intro o; rfl
  | cons op t ih => intro o; simp only [List.foldl_cons]; rw [ih, connectObj_start]

/-- the object `NewFlow(start)` makes (on top of whatever inner maps existed before: unreachable garbage) -/
def newObj (start : Option NodeId) (o : Obj) : Obj := { base := some Config.newBaseNode, start := start, outer := [], heap := o.heap }

theorem WF_newObj (start : Option NodeId) (o : Obj) : (newObj start o).WF := ⟨List.Pairwise.nil, by simp [newObj]⟩
theorem view_newObj (start : Option NodeId) (o : Obj) : view (newObj start o) = buildTable [] := rfl

/-- every depth `≥ K` is `f + K` for some `f` -/
theorem exists_add {K fuel : Nat} (h : K ≤ fuel) : ∃ f, fuel = f + K := ⟨fuel - K, by omega⟩

/-! ## the theorems -/

def newFlowFuel : Nat := 10
def connectFuel : Nat := 6
def prepFuel : Nat := 5
def postFuel : Nat := 7
def runFuel : Nat := 7

/-- **`NewFlow(start)`**: the flow object, holding `start` (a nil `start` is `none`), the default `BaseNode` and an empty `transitions`
    map — whatever the state before. Its table view is the empty table `buildTable []`, and it is well-formed. -/
theorem NewFlow_refines_of_le (fuel : Nat) (h : newFlowFuel ≤ fuel) (start : Option NodeId) (o : Obj) :
    run fuel NewFlow [tgtGV start] o = some ([flowH], newObj start o)
      ∧ (newObj start o).start = start ∧ (newObj start o).base = some Config.newBaseNode
      ∧ view (newObj start o) = buildTable [] ∧ buildTable [] = [] ∧ (newObj start o).WF := by
  obtain ⟨f, rfl⟩ := exists_add h
  exact ⟨NewFlow_core f start o, rfl, rfl, rfl, rfl, WF_newObj start o⟩

/-- **`f.Connect(from, action, to)`** on a well-formed flow: returns `f`; the new state is `connectObj o op`, whose table view is the
    model's `connect` applied to the old view; `start` and the `BaseNode` are untouched; the state stays well-formed. -/
theorem Flow_Connect_refines_of_le (fuel : Nat) (h : connectFuel ≤ fuel) (o : Obj) (hwf : o.WF) (op : ConnOp) :
    run fuel Flow_Connect [flowH, .node op.src, .str op.action, tgtGV op.dst] o = some ([flowH], connectObj o op)
      ∧ view (connectObj o op) = connect (view o) op
      ∧ (connectObj o op).start = o.start ∧ (connectObj o op).base = o.base ∧ (connectObj o op).WF := by
  obtain ⟨f, rfl⟩ := exists_add h
  exact ⟨Flow_Connect_core f o hwf.2 op, view_connectObj o hwf op, connectObj_start o op, connectObj_base o op, WF_connectObj o hwf op⟩

/-- a chain of `Connect` calls, each on the flow the previous one returned -/
theorem runConnects_refines (fuel : Nat) (h : connectFuel ≤ fuel) (ops : List ConnOp) :
    ∀ (o : Obj), o.WF → runConnects fuel Flow_Connect ops flowH o = some (flowH, ops.foldl connectObj o) := by
  induction ops with
  | nil => intro o _; rfl
  | cons op t ih =>
    intro o hwf
    have h1 := (Flow_Connect_refines_of_le fuel h o hwf op).1
    simp only [runConnects, connectArgs, h1, List.foldl_cons]
    exact ih _ (WF_connectObj o hwf op)

/-- **`NewFlow(start)` followed by one `Connect` per operation** builds a flow with `start`, the default `BaseNode` and the table
    `buildTable ops` — the link between the construction API and the `NodeDef.flow start ops` of the model. No hypothesis. -/
theorem Flow_Connect_sequence_refines (fuel : Nat) (h : newFlowFuel ≤ fuel) (start : Option NodeId) (ops : List ConnOp) (o : Obj) :
    ∃ o', (match run fuel NewFlow [tgtGV start] o with
           | some ([recv], o1) => runConnects fuel Flow_Connect ops recv o1
           | _ => none) = some (flowH, o')
      ∧ view o' = buildTable ops ∧ o'.start = start ∧ o'.base = some Config.newBaseNode ∧ o'.WF := by
  have hc : connectFuel ≤ fuel := Nat.le_trans (by decide) h
  refine ⟨ops.foldl connectObj (newObj start o), ?_, ?_, ?_, ?_, ?_⟩
  · rw [(NewFlow_refines_of_le fuel h start o).1]
    exact runConnects_refines fuel hc ops _ (WF_newObj start o)
  · rw [view_foldl ops _ (WF_newObj start o)]; rfl
  · rw [start_foldl]; rfl
  · rw [base_foldl]; rfl
  · exact WF_foldl ops _ (WF_newObj start o)

/-- … in the form of the executable test (`buildFlowIR`, from the blank state) -/
theorem buildFlowIR_refines (fuel : Nat) (h : newFlowFuel ≤ fuel) (start : Option NodeId) (ops : List ConnOp) :
    ∃ o', buildFlowIR fuel NewFlow Flow_Connect start ops = some (flowH, o')
      ∧ view o' = buildTable ops ∧ o'.start = start ∧ o'.base = some Config.newBaseNode ∧ o'.WF :=
  Flow_Connect_sequence_refines fuel h start ops blank

/-- reading the flow through the world — `f.transitions[n]`, then `[a]` on the inner map object that yields — is the model's
    `tableLookup` on the view (no dangling handle needed; sharing is irrelevant for reads) -/
theorem lookup_refines (o : Obj) (hd : ∀ p ∈ o.outer, p.2 < o.heap.length) (n : NodeId) (a : Action) :
    lookupW o n a = some (tableLookup (view o) n a) := by
  unfold lookupW tableLookup view
  simp only [assocGet_map, transH, W_idx_trans]
  cases hg : assocGet o.outer n with
  | none => rfl
  | some k =>
    have hk : k < o.heap.length := hd _ (mem_of_assocGet hg)
    have hcell : o.heap[k]? = some (innerOf o.heap k) := by simp [innerOf, hk]
    simp only [innerH, Option.map_some, W_idx_inner, hcell]
    cases hi : assocGet (innerOf o.heap k) a with
    | none => rfl
    | some d => simp [tgtOf_tgtGV]

/-- the flow a `Connect` sequence built answers every lookup like `buildTable ops` -/
theorem lookup_built (fuel : Nat) (h : newFlowFuel ≤ fuel) (start : Option NodeId) (ops : List ConnOp) (n : NodeId) (a : Action) :
    (buildFlowIR fuel NewFlow Flow_Connect start ops).bind (fun r => lookupW r.2 n a) = some (tableLookup (buildTable ops) n a) := by
  obtain ⟨o', hb, hv, _, _, hwf⟩ := buildFlowIR_refines fuel h start ops
  rw [hb, Option.bind_some, lookup_refines o' hwf.2, hv]

/-- **`Flow.Prep`** hands `shared` through: `(shared, nil)`, for every value of `shared` (and of the receiver and the context). -/
theorem Flow_Prep_refines_of_le (fuel : Nat) (h : prepFuel ≤ fuel) (recv ctx shared : GV) (o : Obj) :
    run fuel Flow_Prep [recv, ctx, shared] o = some ([shared, .nil], o) := by
  obtain ⟨f, rfl⟩ := exists_add h
  exact Flow_Prep_core f recv ctx shared o

/-- the action `Flow.Post` returns for an `execResult` -/
def postAction : GV → Action
  | .str a => a
  | _ => defaultAction

/-- **`Flow.Post`**: the `Action` inside `execResult` (what `Flow.Exec` returns is `lastAction` boxed in an `any`: `.str a`), else
    `DefaultAction`; never an error. -/
theorem Flow_Post_refines_of_le (fuel : Nat) (h : postFuel ≤ fuel) (recv ctx shared prepResult execResult : GV) (o : Obj) :
    run fuel Flow_Post [recv, ctx, shared, prepResult, execResult] o = some ([.str (postAction execResult), .nil], o) := by
  obtain ⟨f, rfl⟩ := exists_add h
  cases execResult <;> fbsimp [Flow_Post, postAction, postFuel]

/-- the entries `Prep` / `Post` of `flowNodeWorld` (the world of `Run_refines_runNode_flow`) are exactly these two results -/
theorem flowNodeWorld_Prep_agrees (env : Flyt.Env) (start : Option NodeId) (tbl : Table) (i : Nat) (c sh : GV) (h : Heap) (w : FlowW) :
    (flowNodeWorld env start tbl).mcall (.node i) "Prep" [c, sh] h w = some ([sh, .nil], h, w) := rfl
theorem flowNodeWorld_Post_agrees (env : Flyt.Env) (start : Option NodeId) (tbl : Table) (i : Nat) (c sh pv x : GV) (h : Heap) (w : FlowW) :
    (flowNodeWorld env start tbl).mcall (.node i) "Post" [c, sh, pv, x] h w = some ([.str (postAction x), .nil], h, w) := by
  cases x <;> rfl
/-- with `Run`'s normalisation on top: the `.ok (norm a)` of the model's `runNode` flow branch -/
theorem norm_postAction (a : Action) : norm (postAction (.str a)) = norm a := rfl

/-- **`Flow.Run(ctx, shared)`** returns exactly the error of `Run(ctx, f, shared)` — nil on success, the action dropped; the events
    and the run state are those of the model's `runNode` on the flow node. -/
theorem Flow_Run_refines_of_le (fuel : Nat) (h : runFuel ≤ fuel) (env : Flyt.Env) (fid : NodeId) (mfuel : Nat) (sid : StoreId)
    (st : RunSt) (o : Obj) (hne : (runNode env mfuel fid sid st).2.2 ≠ .fuel) :
    flowRunIR fuel Flow_Run env fid mfuel sid st o =
      some ((runNode env mfuel fid sid st).1, (runNode env mfuel fid sid st).2.1, [errGV (runNode env mfuel fid sid st).2.2]) := by
  obtain ⟨f, rfl⟩ := exists_add h
  rcases hr : runNode env mfuel fid sid st with ⟨evs, st', out⟩
  rw [hr] at hne
  cases out with
  | fuel => exact absurd rfl hne
  | ok a => fbsimp [Flow_Run, hr, runRets, errGV, runFuel]
  | err e => fbsimp [Flow_Run, hr, runRets, errGV, runFuel]
  | both a e => fbsimp [Flow_Run, hr, runRets, errGV, runFuel]

/-- … and that world call is what the interpreted source of `Run` computes on the flow node (`Run_refines_runNode_flow`): `Flow.Run`
    = the error of the interpreted `Run`, when the arena holds the flow as `NodeDef.flow start ops`. -/
theorem Flow_Run_eq_interpreted_Run (fuel : Nat) (h : runFuel ≤ fuel) (env : Flyt.Env) (fid : NodeId) (start : Option NodeId)
    (ops : List ConnOp) (mfuel : Nat) (sid : StoreId) (st : RunSt) (o : Obj) (harena : env.arena fid = .flow start ops)
    (hne : (runNode env (mfuel + 1) fid sid st).2.2 ≠ .fuel) :
    flowRunIR fuel Flow_Run env fid (mfuel + 1) sid st o =
      (runFlowNodeIR flowNodeFuel Flyt.Expected.IR.Run env fid start ops mfuel sid st).map fun r => (r.1, r.2.1, [errGV r.2.2]) := by
  rw [Flow_Run_refines_of_le fuel h env fid (mfuel + 1) sid st o hne, Run_refines_runNode_flow env fid start ops mfuel sid st harena hne]
  rfl

/-- success ⇒ nil, failure ⇒ the error -/
theorem errGV_ok (a : Action) : errGV (.ok a) = .nil := rfl
theorem errGV_err (e : ErrRoot) : errGV (.err e) = .err e := rfl

/-! ## the statements at the depth `F = 30` of the executable test -/
def F : Nat := 30
theorem NewFlow_refines (start : Option NodeId) (o : Obj) : run F NewFlow [tgtGV start] o = some ([flowH], newObj start o) :=
  (NewFlow_refines_of_le F (by decide) start o).1
theorem Flow_Connect_refines (o : Obj) (hwf : o.WF) (op : ConnOp) :
    run F Flow_Connect (connectArgs flowH op) o = some ([flowH], connectObj o op) ∧ view (connectObj o op) = connect (view o) op :=
  ⟨(Flow_Connect_refines_of_le F (by decide) o hwf op).1, view_connectObj o hwf op⟩
theorem Flow_Prep_refines (recv ctx shared : GV) (o : Obj) : run F Flow_Prep [recv, ctx, shared] o = some ([shared, .nil], o) :=
  Flow_Prep_refines_of_le F (by decide) recv ctx shared o
theorem Flow_Post_refines (recv ctx shared pv x : GV) (o : Obj) :
    run F Flow_Post [recv, ctx, shared, pv, x] o = some ([.str (postAction x), .nil], o) :=
  Flow_Post_refines_of_le F (by decide) recv ctx shared pv x o

end Flyt.Refine.FlowBuild
