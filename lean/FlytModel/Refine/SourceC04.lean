import FlytModel.Refine.SourceBase
import FlytModel.Props.C04
/-!
# C04 (errors are transparent, flows are fail-stop) stated about the INTERPRETED SOURCE

`Props/C04.lean` is about `runNode env fuel root sid st` for an arbitrary root. There is no single interpreted object for "`Run` on an
arbitrary node of an arena"; the refinement theorems are per kind of root, and so are the corollaries:

* **root = a flow** (the case the property is named after): `runFlowNodeIR fuel Expected.IR.Run env fid start ops mfuel sid st`, by
  `Run_refines_runNode_flow_of_le` — theorems `C04_*_for_interpreted_source`, one per headline theorem of `Props/C04.lean`;
* **root = a plain / function-style node of the arena**: `runLeafIR fuel Expected.IR.Run …` by `Run_refines_runLeaf_of_le` —
  `C04_for_interpreted_Run_on_leaf`, all clauses at once (`C04Facts`);
* **root = a batch node of the arena**: `runBatchIR fuel Expected.IR.runBatch …` (`runBatch_refines_of_le`) and `Run`'s dispatch to it,
  `runBatchNodeIR fuel Expected.IR.Run …` (`Run_dispatches_to_runBatch_of_le`) — `C04_for_interpreted_runBatch`,
  `C04_for_interpreted_Run_on_batch`;
* **`Flow.Exec` itself**: `flowExecIR fuel Expected.IR.Flow_Exec …` by `FlowExec_refines_flowLoop_ge` — `C04_for_interpreted_Flow_Exec`.
  `Props/C04.lean` has no theorem about `flowLoop`; the clauses are proved here for `flowLoop` from the same lemmas
  (`big_of_flowLoop`, `big_failstop`, `big_proper`, `big_ctxErr_live`) by the same three-line arguments.

Hypotheses. Those of the model theorems are kept; the ones that speak about the run's own trace (`evs = pre ++ e :: post`, "no event
cancels") move inside the conclusion as implications on the interpreted trace. `out ≠ .fuel` of the model theorems becomes `hne`: the
MODEL's fuel does not run out (`mfuel` is a ghost of the flow worlds: it says which `runNode env ·` a nested call denotes; the
interpreted outcome itself can never be `.fuel`). `harena` ties the arena's entry for the root to the configuration the world is
instantiated with.

**What these corollaries do and do not say about the source.** In the flow-node world `Flow.Exec` IS the model's `flowLoop`, and in the
`Flow.Exec` world a nested `Run` IS the model's `runNode` (each justified by its own refinement theorem, but in its own world). So the
fail-stop behaviour ACROSS nodes is inherited from the model through the world; what is derived from the interpreted source at each
layer is that layer's own part: `Run` on a flow returns `Flow.Exec`'s error unchanged and does not call `Post` after it; `Flow.Exec`
stops at the first failing `Run` and returns its error unchanged; `Run` on a leaf runs no phase after a failing one and returns that
callback's error; `runBatch` stops at a failing prep / returns post's error. Each corollary is exactly as strong as its model theorem
read at that layer.
-/
set_option autoImplicit false
namespace Flyt.Refine.Source
open Flyt Flyt.GoIR Flyt.Refine Flyt.Proofs

/-! ### `Run` on a flow node -/

/-- **Fail-stop (iii).** In the run of the interpreted `Run` on a flow, a callback that ends its run with user error `u` is the LAST
    event of the whole trace — no later phase, no later node, no later node of any enclosing flow — and `Run`'s error is `u`.
    Mirrors `Props.C04.fail_stop`. -/
theorem C04_fail_stop_for_interpreted_source (env : Env) (fid : NodeId) (start : Option NodeId) (ops : List ConnOp) (mfuel : Nat)
    (sid : StoreId) (st : RunSt) (harena : env.arena fid = .flow start ops) (hne : (runNode env (mfuel + 1) fid sid st).2.2 ≠ .fuel)
    (fuel : Nat) (hf : flowNodeFuel ≤ fuel) :
    ∃ evs st' out, runFlowNodeIR fuel Flyt.Expected.IR.Run env fid start ops mfuel sid st = some (evs, st', out) ∧
      ∀ (pre post : List Ev) (e : Ev) (u : Nat), evs = pre ++ e :: post → Spec.scriptFatal env e = some u →
        post = [] ∧ out = .err (.user u) :=
  flowNode_transfer env fid start ops mfuel sid st harena hne fuel hf
    (fun evs _ out => ∀ (pre post : List Ev) (e : Ev) (u : Nat), evs = pre ++ e :: post → Spec.scriptFatal env e = some u →
        post = [] ∧ out = .err (.user u))
    (fun _ _ _ _ hsplit hfatal => Props.C04.fail_stop env (mfuel + 1) fid sid st rfl hne hsplit hfatal)

/-- **Transparency (ii).** If the interpreted `Run` returns an error whose root is user error `u`, then `u` is exactly the error
    returned by the last callback invoked (at whatever nesting depth). Mirrors `Props.C04.user_error_transparent`. -/
theorem C04_user_error_transparent_for_interpreted_source (env : Env) (fid : NodeId) (start : Option NodeId) (ops : List ConnOp)
    (mfuel : Nat) (sid : StoreId) (st : RunSt) (harena : env.arena fid = .flow start ops)
    (hne : (runNode env (mfuel + 1) fid sid st).2.2 ≠ .fuel) (fuel : Nat) (hf : flowNodeFuel ≤ fuel) :
    ∃ evs st' out, runFlowNodeIR fuel Flyt.Expected.IR.Run env fid start ops mfuel sid st = some (evs, st', out) ∧
      ∀ u, out = .err (.user u) → ∃ pre e, evs = pre ++ [e] ∧ Spec.scriptFatal env e = some u :=
  flowNode_transfer env fid start ops mfuel sid st harena hne fuel hf
    (fun evs _ out => ∀ u, out = .err (.user u) → ∃ pre e, evs = pre ++ [e] ∧ Spec.scriptFatal env e = some u)
    (fun _ hu => Props.C04.user_error_transparent env (mfuel + 1) fid sid st (Prod.ext rfl (Prod.ext rfl hu)))

/-- every outcome is an action, a user error, the context's error, or "flow has no start node" — never a framework-made error hiding a
    user error, never an action together with an error. Mirrors `Props.C04.outcome_shapes`. -/
theorem C04_outcome_shapes_for_interpreted_source (env : Env) (fid : NodeId) (start : Option NodeId) (ops : List ConnOp)
    (mfuel : Nat) (sid : StoreId) (st : RunSt) (harena : env.arena fid = .flow start ops)
    (hne : (runNode env (mfuel + 1) fid sid st).2.2 ≠ .fuel) (fuel : Nat) (hf : flowNodeFuel ≤ fuel) :
    ∃ evs st' out, runFlowNodeIR fuel Flyt.Expected.IR.Run env fid start ops mfuel sid st = some (evs, st', out) ∧
      ((∃ a, out = .ok a) ∨ (∃ u, out = .err (.user u)) ∨ (∃ k, out = .err (.ctx k)) ∨ out = .err (.fw .noStart)) :=
  flowNode_transfer env fid start ops mfuel sid st harena hne fuel hf
    (fun _ _ out => (∃ a, out = .ok a) ∨ (∃ u, out = .err (.user u)) ∨ (∃ k, out = .err (.ctx k)) ∨ out = .err (.fw .noStart))
    (Props.C04.outcome_shapes env (mfuel + 1) fid sid st rfl hne)

/-- **nil error ⇒ every phase on the path succeeded (i, ⇒).** Unconditionally. Mirrors `Props.C04.ok_only_if_all_succeeded`. -/
theorem C04_ok_only_if_all_succeeded_for_interpreted_source (env : Env) (fid : NodeId) (start : Option NodeId) (ops : List ConnOp)
    (mfuel : Nat) (sid : StoreId) (st : RunSt) (harena : env.arena fid = .flow start ops)
    (hne : (runNode env (mfuel + 1) fid sid st).2.2 ≠ .fuel) (fuel : Nat) (hf : flowNodeFuel ≤ fuel) :
    ∃ evs st' out, runFlowNodeIR fuel Flyt.Expected.IR.Run env fid start ops mfuel sid st = some (evs, st', out) ∧
      ∀ a, out = .ok a → ∀ e ∈ evs, Spec.scriptFatal env e = none :=
  flowNode_transfer env fid start ops mfuel sid st harena hne fuel hf
    (fun evs _ out => ∀ a, out = .ok a → ∀ e ∈ evs, Spec.scriptFatal env e = none)
    (fun _ ha => Props.C04.ok_only_if_all_succeeded env (mfuel + 1) fid sid st (Prod.ext rfl (Prod.ext rfl ha)))

/-- **nil error ⇔ every phase on the path succeeded (i).** For runs without cancellation (live context, no event of the interpreted
    trace cancels): the interpreted `Run` returns an action iff no callback on its path ended in failure — the only other way to fail is
    a flow without start node. Mirrors `Props.C04.ok_iff_all_succeeded`. -/
theorem C04_ok_iff_all_succeeded_for_interpreted_source (env : Env) (fid : NodeId) (start : Option NodeId) (ops : List ConnOp)
    (mfuel : Nat) (sid : StoreId) (st : RunSt) (harena : env.arena fid = .flow start ops)
    (hne : (runNode env (mfuel + 1) fid sid st).2.2 ≠ .fuel) (hlive : st.ctx = .live) (fuel : Nat) (hf : flowNodeFuel ≤ fuel) :
    ∃ evs st' out, runFlowNodeIR fuel Flyt.Expected.IR.Run env fid start ops mfuel sid st = some (evs, st', out) ∧
      ((∀ e ∈ evs, cancelsAt env e = false) →
        ((∃ a, out = .ok a) ↔ (∀ e ∈ evs, Spec.scriptFatal env e = none) ∧ out ≠ .err (.fw .noStart))) :=
  flowNode_transfer env fid start ops mfuel sid st harena hne fuel hf
    (fun evs _ out => (∀ e ∈ evs, cancelsAt env e = false) →
        ((∃ a, out = .ok a) ↔ (∀ e ∈ evs, Spec.scriptFatal env e = none) ∧ out ≠ .err (.fw .noStart)))
    (fun hnc => Props.C04.ok_iff_all_succeeded env (mfuel + 1) fid sid st rfl hne hlive hnc)

/-! ### the other kinds of root, and `Flow.Exec`: all clauses at once -/

/-- the five headline clauses of `Props/C04.lean` about one run with trace `evs` and outcome `out`, started in a context `ctx` -/
structure C04Facts (env : Env) (ctx : Ctx) (evs : List Ev) (out : Outcome) : Prop where
  /-- `Props.C04.fail_stop` -/
  fail_stop : ∀ (pre post : List Ev) (e : Ev) (u : Nat), evs = pre ++ e :: post → Spec.scriptFatal env e = some u →
    post = [] ∧ out = .err (.user u)
  /-- `Props.C04.user_error_transparent` -/
  user_error_transparent : ∀ u, out = .err (.user u) → ∃ pre e, evs = pre ++ [e] ∧ Spec.scriptFatal env e = some u
  /-- `Props.C04.outcome_shapes` -/
  outcome_shapes : (∃ a, out = .ok a) ∨ (∃ u, out = .err (.user u)) ∨ (∃ k, out = .err (.ctx k)) ∨ out = .err (.fw .noStart)
  /-- `Props.C04.ok_only_if_all_succeeded` -/
  ok_only_if_all_succeeded : ∀ a, out = .ok a → ∀ e ∈ evs, Spec.scriptFatal env e = none
  /-- `Props.C04.ok_iff_all_succeeded` -/
  ok_iff_all_succeeded : ctx = .live → (∀ e ∈ evs, cancelsAt env e = false) →
    ((∃ a, out = .ok a) ↔ (∀ e ∈ evs, Spec.scriptFatal env e = none) ∧ out ≠ .err (.fw .noStart))

/-- the model theorems, bundled: every run of `runNode` that does not run out of fuel has the five clauses -/
theorem c04Facts_of_runNode (env : Env) (fuel : Nat) (root : NodeId) (sid : StoreId) (st : RunSt)
    (hfuel : (runNode env fuel root sid st).2.2 ≠ .fuel) :
    C04Facts env st.ctx (runNode env fuel root sid st).1 (runNode env fuel root sid st).2.2 where
  fail_stop _ _ _ _ hsplit hfatal := Props.C04.fail_stop env fuel root sid st rfl hfuel hsplit hfatal
  user_error_transparent _ hu := Props.C04.user_error_transparent env fuel root sid st (Prod.ext rfl (Prod.ext rfl hu))
  outcome_shapes := Props.C04.outcome_shapes env fuel root sid st rfl hfuel
  ok_only_if_all_succeeded _ ha := Props.C04.ok_only_if_all_succeeded env fuel root sid st (Prod.ext rfl (Prod.ext rfl ha))
  ok_iff_all_succeeded hlive hnc := Props.C04.ok_iff_all_succeeded env fuel root sid st rfl hfuel hlive hnc

/-- **C04 for the interpreted `Run` on a plain / function-style node of the arena**: a failing prep / post / fallback / last exec
    attempt is the last event and its error is `Run`'s; a user error returned is the last callback's; and so on (`C04Facts`).
    `Props/C04.lean` at a leaf root. -/
theorem C04_for_interpreted_Run_on_leaf (env : Env) (id : NodeId) (sid : StoreId) (st : RunSt) (cfg : LeafCfg)
    (harena : env.arena id = .leaf cfg) (fuel : Nat) (hf : runFuel cfg ≤ fuel) :
    ∃ evs ctx' out,
      runLeafIR fuel Flyt.Expected.IR.Run env.kind id (st.visits id) sid cfg (env.leafBeh id (st.visits id)) st.ctx
        = some (evs, ctx', out) ∧ C04Facts env st.ctx evs out :=
  arena_leaf_transfer env 0 id sid st cfg harena fuel hf (fun evs _ out => C04Facts env st.ctx evs out)
    (c04Facts_of_runNode env 1 id sid st (runNode_leaf_ne_fuel env 0 id sid st cfg harena))

/-- **C04 for the interpreted `runBatch` on a batch node of the arena** (`Props/C04.lean` at a batch root): a failing batch prep / batch
    post is the last event and its error is the run's, … -/
theorem C04_for_interpreted_runBatch (env : Env) (id : NodeId) (sid : StoreId) (st : RunSt) (cfg : BatchCfg)
    (harena : env.arena id = .batch cfg) (fuel : Nat) (hf : batchFuel (env.batchBeh id (st.visits id)) ≤ fuel) :
    ∃ evs ctx' out,
      runBatchIR fuel Flyt.Expected.IR.runBatch env.kind id (st.visits id) sid cfg (env.batchBeh id (st.visits id)) st.ctx
        = some (evs, ctx', out) ∧ C04Facts env st.ctx evs out :=
  arena_batch_transfer env 0 id sid st cfg harena fuel hf (fun evs _ out => C04Facts env st.ctx evs out)
    (c04Facts_of_runNode env 1 id sid st (runNode_batch_ne_fuel env 0 id sid st cfg harena))

/-- … and for the interpreted `Run` on that batch node (bare `*BatchNode` or the builder `NewBatchNode` returns), which only hands over
    to `runBatch` (in this world: the model's `runBatch`, refined by the theorem above) -/
theorem C04_for_interpreted_Run_on_batch (env : Env) (id : NodeId) (sid : StoreId) (st : RunSt) (cfg : BatchCfg)
    (harena : env.arena id = .batch cfg) (viaBuilder : Bool) (fuel : Nat) (hf : batchNodeFuel ≤ fuel) :
    ∃ evs ctx' out,
      runBatchNodeIR fuel Flyt.Expected.IR.Run env.kind id (st.visits id) sid cfg (env.batchBeh id (st.visits id)) viaBuilder st.ctx
        = some (evs, ctx', out) ∧ C04Facts env st.ctx evs out :=
  arena_batchNode_transfer env 0 id sid st cfg harena viaBuilder fuel hf (fun evs _ out => C04Facts env st.ctx evs out)
    (c04Facts_of_runNode env 1 id sid st (runNode_batch_ne_fuel env 0 id sid st cfg harena))

/-- the five clauses for the loop of `Flow.Exec` (model side; `Props/C04.lean` states them for `runNode` only — same lemmas, same
    arguments, with `big_of_flowLoop` in place of `big_of_runNode`) -/
theorem c04Facts_of_flowLoop (env : Env) (mfuel : Nat) (ops : List ConnOp) (s : NodeId) (sid : StoreId) (st : RunSt)
    (hne : (flowLoop env mfuel (buildTable ops) s sid st).2.2 ≠ .fuel) :
    C04Facts env st.ctx (flowLoop env mfuel (buildTable ops) s sid st).1 (flowLoop env mfuel (buildTable ops) s sid st).2.2 := by
  have hb := big_of_flowLoop (st' := (flowLoop env mfuel (buildTable ops) s sid st).2.1) rfl hne
  have fs := big_failstop hb
  have hshape : (∃ a, (flowLoop env mfuel (buildTable ops) s sid st).2.2 = .ok a) ∨
      (∃ u, (flowLoop env mfuel (buildTable ops) s sid st).2.2 = .err (.user u)) ∨
      (∃ k, (flowLoop env mfuel (buildTable ops) s sid st).2.2 = .err (.ctx k)) ∨
      (flowLoop env mfuel (buildTable ops) s sid st).2.2 = .err (.fw .noStart) := by
    have hp := big_proper hb
    generalize (flowLoop env mfuel (buildTable ops) s sid st).2.2 = out at hp hne
    cases out with
    | ok a => exact .inl ⟨a, rfl⟩
    | err e =>
      cases e with
      | user u => exact .inr (.inl ⟨u, rfl⟩)
      | ctx k => exact .inr (.inr (.inl ⟨k, rfl⟩))
      | fw t => cases t <;> simp_all [Outcome.Proper]
    | both a e => simp [Outcome.Proper] at hp
    | fuel => exact absurd rfl hne
  refine ⟨?_, ?_, hshape, ?_, ?_⟩
  · intro pre post e u hsplit hfatal
    refine ⟨?_, fs.fatalErr e (by simp [hsplit]) u hfatal⟩
    have hp := fs.noneAfter
    rw [hsplit, List.pairwise_append, List.pairwise_cons] at hp
    cases post with
    | nil => rfl
    | cons b t =>
      have := hp.2.1.1 b (by simp)
      rw [hfatal] at this; cases this
  · intro u hu
    obtain ⟨e, hl, hfa⟩ := fs.userErr u hu
    obtain ⟨pre, hpre⟩ := List.getLast?_eq_some_iff.mp hl
    exact ⟨pre, e, hpre, hfa⟩
  · intro a ha
    exact fs.nonfatal (by rw [ha]; simp)
  · intro hlive hnc
    constructor
    · rintro ⟨a, ha⟩
      exact ⟨fs.nonfatal (by rw [ha]; simp), by rw [ha]; simp⟩
    · rintro ⟨hnf, hns⟩
      rcases hshape with ha | ⟨u, hu⟩ | ⟨k, hk⟩ | h0
      · exact ha
      · obtain ⟨e, hl, hfa⟩ := fs.userErr u hu
        rw [hnf e (List.mem_of_getLast? hl)] at hfa; cases hfa
      · obtain ⟨_, e, he, hz⟩ := big_ctxErr_live hb hlive hk
        rw [hnc e he] at hz; cases hz
      · exact absurd h0 hns

/-- **C04 for the interpreted `Flow.Exec`**: in the trace of the interpreted loop, a callback that ends its run with user error `u` is
    the last event and `Flow.Exec` returns `u` unchanged (no wrapping: `flowOutcomeOf` reads the error value `Flow.Exec` returns), … -/
theorem C04_for_interpreted_Flow_Exec (env : Env) (fid s : NodeId) (ops : List ConnOp) (mfuel : Nat) (sid : StoreId) (st : RunSt)
    (hne : (flowLoop env mfuel (buildTable ops) s sid st).2.2 ≠ .fuel) (fuel : Nat) (hf : mfuel + 40 ≤ fuel) :
    ∃ evs st' out, flowExecIR fuel Flyt.Expected.IR.Flow_Exec env fid (some s) ops mfuel sid st = some (evs, st', out) ∧
      C04Facts env st.ctx evs out :=
  flowExec_transfer env fid s ops mfuel sid st hne fuel hf (fun evs _ out => C04Facts env st.ctx evs out)
    (c04Facts_of_flowLoop env mfuel ops s sid st hne)

/-- non-vacuity: the failing scenario of `Proofs/ExampleEnv.lean` (`Ex.envFail`: the post of node 5, two flows deep, fails with 42),
    `Run` on its root flow by the interpreter: the hypotheses hold and the outcome is that very error -/
example : ∃ evs st', runFlowNodeIR 43 Flyt.Expected.IR.Run Ex.envFail 0 (some 1)
      [⟨1, "a", some 2⟩, ⟨2, "y", some 1⟩, ⟨2, "y", some 3⟩, ⟨3, "again", some 1⟩, ⟨3, "again", none⟩, ⟨3, "loop", some 3⟩]
      9 7 Ex.st0 = some (evs, st', .err (.user 42)) ∧ evs.getLast? = some (.post 5 0 7 (.tok 1) (.tok 2)) := by
  have hne : (runNode Ex.envFail (9 + 1) 0 7 Ex.st0).2.2 ≠ .fuel := by decide
  refine ⟨(runNode Ex.envFail (9 + 1) 0 7 Ex.st0).1, (runNode Ex.envFail (9 + 1) 0 7 Ex.st0).2.1, ?_, by decide⟩
  rw [Run_refines_runNode_flow_of_le Ex.envFail 0 _ _ 9 7 Ex.st0 rfl hne 43 (by decide)]
  exact congrArg some (Prod.ext rfl (Prod.ext rfl (by decide)))

/-!
## Carried over / not carried over

Carried over:
* subject `runNode` on a flow (`Run_refines_runNode_flow_of_le`): `fail_stop`, `user_error_transparent`, `outcome_shapes`,
  `ok_only_if_all_succeeded`, `ok_iff_all_succeeded` — one theorem each;
* the same five clauses (bundled as `C04Facts`) for `runNode` on a leaf (`Run_refines_runLeaf_of_le`), on a batch node
  (`runBatch_refines_of_le`, `Run_dispatches_to_runBatch_of_le`), and — proved here on the model side from the lemmas `Props/C04.lean`
  uses — for `flowLoop` (`FlowExec_refines_flowLoop_ge`).

Not carried over:
* `spec_c04`, `spec_c04_cancelFree` — bridges to the driver's executable predicate `Spec.c04`;
* a statement for an arbitrary root in ONE interpreted object: does not exist (see the header); the per-layer statements are what the
  refinement theorems support. In particular "no later node of any enclosing flow" is, for nesting deeper than one level, a fact about
  the model's `runNode` that the flow worlds import, not something the interpreter re-derives.
-/

end Flyt.Refine.Source
