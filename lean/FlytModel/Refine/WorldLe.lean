import FlytModel.Refine.Mono
/-!
# Monotonicity of the GoIR interpreter in the WORLD (under an invariant of the world state)

`WLeOn I W₁ W₂`: on world states satisfying the invariant `I`, whatever the three "calling" components of `W₁`
(`call`, `mcall`, `callVar`) define (`some r`), `W₂` defines with the same result, and `I` holds again afterwards; every other
component is the same function in both worlds (and those that change the world state preserve `I`).

`callFunc_le`: then every result (`some r`) of the interpreter in `W₁` from a state satisfying `I` is the result in `W₂`, at
the same fuel. This is the "world extensionality" step of the composition theorems in `Refine/Stack.lean`: `W₁` is a
layered world (a callee has the meaning of the MODEL function, and is undefined where the model runs out of fuel), `W₂` the
world in which that callee is the interpretation of its translated source.

Same proof pattern as the fuel monotonicity in `Refine/Mono.lean`.
-/
namespace Flyt.Refine
open Flyt Flyt.GoIR
variable {Ω : Type}
set_option linter.unusedSimpArgs false

structure WLeOn (I : Ω → Prop) (W1 W2 : World Ω) : Prop where
  call : ∀ fn args h w r, I w → W1.call fn args h w = some r → W2.call fn args h w = some r ∧ I r.2.2
  mcall : ∀ x m args h w r, I w → W1.mcall x m args h w = some r → W2.mcall x m args h w = some r ∧ I r.2.2
  callVar : ∀ fn fv args h w r, I w → W1.callVar fn fv args h w = some r → W2.callVar fn fv args h w = some r ∧ I r.2.2
  assert : W1.assert = W2.assert
  field : W1.field = W2.field
  mapIndex : W1.mapIndex = W2.mapIndex
  global : W1.global = W2.global
  invokes : W1.invokes = W2.invokes
  readVar : W1.readVar = W2.readVar
  rangeOf : W1.rangeOf = W2.rangeOf
  select : W1.select = W2.select
  setField : W1.setField = W2.setField
  writeVar : W1.writeVar = W2.writeVar
  setIndex : W1.setIndex = W2.setIndex
  selectI : ∀ c w r, I w → W1.select c w = some r → I r.2
  setFieldI : ∀ x f v w w', I w → W1.setField x f v w = some w' → I w'
  writeVarI : ∀ x v w w', I w → W1.writeVar x v w = some w' → I w'
  setIndexI : ∀ m k v w w', I w → W1.setIndex m k v w = some w' → I w'

section
variable {I : Ω → Prop} {W1 W2 : World Ω} (H : WLeOn I W1 W2)
include H

theorem le_expr : ∀ f,
    (∀ e st r, I st.w → evalExpr W1 f e st = some r → evalExpr W2 f e st = some r ∧ I r.2.w) ∧
    (∀ es st r, I st.w → evalArgs W1 f es st = some r → evalArgs W2 f es st = some r ∧ I r.2.w)
  | 0 => ⟨by intro e st r _ h; simp [evalExpr] at h, by intro e st r _ h; simp [evalArgs] at h⟩
  | f + 1 => by
    obtain ⟨ihE, ihA⟩ := le_expr f
    have h1 := H.call; have h2 := H.mcall; have h3 := H.callVar
    have h4 := H.assert; have h5 := H.field; have h6 := H.mapIndex; have h7 := H.global; have h8 := H.readVar
    constructor
    · intro e st r hI h
      cases e <;> rw [evalExpr.eq_def] at h ⊢ <;> simp only at h ⊢ <;> (try simp only [← h4, ← h5, ← h6, ← h7, ← h8]) <;>
        grind (splits := 20) -funext [Option.map_eq_some_iff]
    · intro es st r hI h
      cases es with
      | nil => rw [evalArgs] at h ⊢; cases h; exact ⟨rfl, hI⟩
      | cons e rest =>
        cases rest <;> rw [evalArgs] at h ⊢ <;> grind

theorem le_evalExpr {f e st r} (hI : I st.w) (h : evalExpr W1 f e st = some r) : evalExpr W2 f e st = some r ∧ I r.2.w :=
  (le_expr H f).1 e st r hI h
theorem le_evalArgs {f es st r} (hI : I st.w) (h : evalArgs W1 f es st = some r) : evalArgs W2 f es st = some r ∧ I r.2.w :=
  (le_expr H f).2 es st r hI h

theorem le_evalCommaOk {f e st r} (hI : I st.w) (h : evalCommaOk W1 f e st = some r) :
    evalCommaOk W2 f e st = some r ∧ I r.2.w := by
  have := @le_evalExpr Ω I W1 W2 H f
  have h4 := H.assert; have h6 := H.mapIndex
  unfold evalCommaOk at h ⊢
  cases e <;> simp only at h ⊢ <;> (try simp only [← h4, ← h6]) <;> grind (splits := 20) -funext [Option.map_eq_some_iff]

theorem le_evalRhs {f k rhs st r} (hI : I st.w) (h : evalRhs W1 f k rhs st = some r) :
    evalRhs W2 f k rhs st = some r ∧ I r.2.w := by
  have hE := @le_evalExpr Ω I W1 W2 H f
  have hA := @le_evalArgs Ω I W1 W2 H f
  have hC := @le_evalCommaOk Ω I W1 W2 H f
  unfold evalRhs at h ⊢
  cases rhs with
  | nil => grind (splits := 20) -funext [Option.bind_eq_some_iff]
  | cons e rest =>
    cases rest with
    | nil => simp only at h ⊢; grind (splits := 20) -funext [Option.bind_eq_some_iff]
    | cons e' rest => grind (splits := 20) -funext [Option.bind_eq_some_iff]

theorem le_assignTo {f lhs v st r} (hI : I st.w) (h : assignTo W1 f lhs v st = some r) :
    assignTo W2 f lhs v st = some r ∧ I r.w := by
  have hE := @le_evalExpr Ω I W1 W2 H f
  have h1 := H.setField; have h2 := H.writeVar; have h3 := H.setIndex
  have h4 := H.setFieldI; have h5 := H.writeVarI; have h6 := H.setIndexI
  unfold assignTo at h ⊢
  cases lhs <;> simp only at h ⊢ <;> (try simp only [← h1, ← h2, ← h3]) <;>
    grind (splits := 20) -funext [Option.map_eq_some_iff]

theorem le_assignAll {f} : ∀ {ls vs st r}, I st.w → assignAll W1 f ls vs st = some r → assignAll W2 f ls vs st = some r ∧ I r.w := by
  have := @le_assignTo Ω I W1 W2 H f
  intro ls
  induction ls with
  | nil => intro vs st r hI h; cases vs <;> simp_all [assignAll]
  | cons l ls ih =>
    intro vs st r hI h
    cases vs with
    | nil => simp [assignAll] at h
    | cons v vs =>
      simp only [assignAll] at h ⊢
      cases hE : assignTo W1 f l v st with
      | none => simp [hE] at h
      | some x =>
        obtain ⟨h2, hI2⟩ := this hI hE
        rw [h2]; rw [hE] at h; exact ih hI2 h

theorem le_stmt : ∀ f,
    (∀ s st r, I st.w → execStmt W1 f s st = some r → execStmt W2 f s st = some r ∧ I r.2.w) ∧
    (∀ b st r, I st.w → execBlock W1 f b st = some r → execBlock W2 f b st = some r ∧ I r.2.w) ∧
    (∀ c p b st r, I st.w → loopFor W1 f c p b st = some r → loopFor W2 f c p b st = some r ∧ I r.2.w) ∧
    (∀ k v ad off n i b st r, I st.w → loopRange W1 f k v ad off n i b st = some r → loopRange W2 f k v ad off n i b st = some r ∧ I r.2.w) ∧
    (∀ k v l i b st r, I st.w → loopAnys W1 f k v l i b st = some r → loopAnys W2 f k v l i b st = some r ∧ I r.2.w) ∧
    (∀ cs st r, I st.w → evalGuards W1 f cs st = some r → evalGuards W2 f cs st = some r ∧ I r.2.w) ∧
    (∀ bind v cs st r, I st.w → switchCases W1 f bind v cs st = some r → switchCases W2 f bind v cs st = some r ∧ I r.2.w) ∧
    (∀ k v l b st r, I st.w → loopPairs W1 f k v l b st = some r → loopPairs W2 f k v l b st = some r ∧ I r.2.w)
  | 0 => by
    refine ⟨?_, ?_, ?_, ?_, ?_, ?_, ?_, ?_⟩ <;> intros <;> rename_i h
    · simp [execStmt] at h
    · simp [execBlock] at h
    · simp [loopFor] at h
    · simp [loopRange] at h
    · simp [loopAnys] at h
    · simp [evalGuards] at h
    · simp [switchCases] at h
    · simp [loopPairs] at h
  | f + 1 => by
    obtain ⟨ihS, ihB, ihF, ihR, ihA, ihG, ihC, ihP⟩ := le_stmt f
    have hE := @le_evalExpr Ω I W1 W2 H f
    have hAr := @le_evalArgs Ω I W1 W2 H f
    have hRhs := @le_evalRhs Ω I W1 W2 H f
    have hAll := @le_assignAll Ω I W1 W2 H f
    have h2 := H.mcall; have h1 := H.call
    have h4 := H.assert; have h7 := H.global; have h8 := H.invokes; have h9 := H.rangeOf; have h10 := H.select
    have h11 := H.selectI
    have popw : ∀ (s : St Ω) n, (popSt s n).w = s.w := fun _ _ => rfl
    have ihB' : ∀ (b : Block) (env : GoIR.Env) (heap : Heap) (w : Ω) (r : Ctl × St Ω), I w →
        execBlock W1 f b ⟨env, heap, w⟩ = some r → execBlock W2 f b ⟨env, heap, w⟩ = some r ∧ I r.2.w :=
      fun b env heap w r hI h => ihB b ⟨env, heap, w⟩ r hI h
    refine ⟨?_, ?_, ?_, ?_, ?_, ?_, ?_, ?_⟩
    · intro s st r hI h
      cases s <;> rw [execStmt.eq_def] at h ⊢ <;> simp only at h ⊢ <;> (try simp only [← h4, ← h7, ← h8, ← h9, ← h10]) <;>
        grind (splits := 20) -funext [Option.map_eq_some_iff]
    · intro b st r hI h
      cases b <;> rw [execBlock.eq_def] at h ⊢ <;> simp only at h ⊢ <;> grind (splits := 20) -funext [Option.map_eq_some_iff]
    · intro c p b st r hI h
      rw [loopFor.eq_def] at h ⊢; simp only at h ⊢; grind (splits := 20) -funext [Option.map_eq_some_iff]
    · intro k v ad off n i b st r hI h
      rw [loopRange.eq_def] at h ⊢; simp only at h ⊢; grind (splits := 20) -funext [Option.map_eq_some_iff]
    · intro k v l i b st r hI h
      rw [loopAnys.eq_def] at h ⊢; simp only at h ⊢; grind (splits := 20) -funext [Option.map_eq_some_iff]
    · intro cs st r hI h
      rw [evalGuards.eq_def] at h ⊢; simp only at h ⊢; grind (splits := 20) -funext [Option.map_eq_some_iff]
    · intro bind v cs st r hI h
      rw [switchCases.eq_def] at h ⊢; simp only at h ⊢; (try simp only [← h4]); grind (splits := 20) -funext [Option.map_eq_some_iff]
    · intro k v l b st r hI h
      rw [loopPairs.eq_def] at h ⊢; simp only at h ⊢; grind (splits := 20) -funext [Option.map_eq_some_iff]

theorem le_execBlock {f b st r} (hI : I st.w) (h : execBlock W1 f b st = some r) : execBlock W2 f b st = some r ∧ I r.2.w :=
  (le_stmt H f).2.1 b st r hI h

/-- **the interpreter is monotone in the world**: a result in `W₁` (from a world state satisfying the invariant) is the result
    in `W₂`, at the same fuel. -/
theorem callFunc_le {f fn args heap w r} (hI : I w) (h : callFunc W1 f fn args heap w = some r) :
    callFunc W2 f fn args heap w = some r := by
  unfold callFunc at h ⊢
  simp only at h ⊢
  split at h
  · exact absurd h (by simp)
  · rename_i env henv
    cases hb : execBlock W1 f fn.body { env := env, heap := heap, w := w } with
    | none => simp [hb] at h
    | some x => rw [(le_execBlock H hI hb).1]; rw [hb] at h; exact h
end

end Flyt.Refine
