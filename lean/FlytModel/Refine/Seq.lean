import FlytModel.GoIR.Worlds
import FlytModel.Expected.IR
/-!
# Refinement: the translated `runBatchSequential` / `markUnprocessed` (Expected/IR.lean) against the model

* `markUnprocessed_refines` — for every world, the IR of `markUnprocessed` run by the GoIR interpreter on a `[]Result` window
  has exactly the heap effect `markUnprocessedSem` (this justifies the `markUnprocessed` entry of `seqWorld`).
* `runBatchSequential_refines_itemsSeq` — in `seqWorld`, the IR of `runBatchSequential` on fresh `items` / `results` arrays
  yields the events, the context and the slots of the model's `itemsSeq … items 0 ctx`, provided the world can tell which
  item it is handed (`idxOf items[i] = i`).
* `…_of_le` variants: the same for every fuel at or above the stated bound.

Proof shape: the loop body is named (`markBody`, `seqBody`, equal to the sub-term of the IR by `rfl`), one lemma per
path through the body by symbolic execution (`simp` with the interpreter's equations), an induction on the number of
remaining iterations for `loopRange` (one iteration = one level of fuel), then the function prologue.
-/
namespace Flyt.Refine
open Flyt Flyt.GoIR
set_option linter.unusedSimpArgs false

/-! ### `markUnprocessed` -/

def markBody : Block :=
  B[(.assign E[(.index (.var "results") (.var "i"))] E[(.call "NewErrorResult" E[(.call "fmt.Errorf" E[(.str "%s"), (.var "reason")])])])]

theorem markUnprocessed_body : Flyt.Expected.IR.markUnprocessed.body = B[(.rangeS "i" "_" (.var "results") markBody)] := rfl

variable {Ω : Type}

theorem mark_body_step (W : World Ω) (h : Heap) (w : Ω) (a off len i : Nat) (reason : String) (cell : List Result)
    (hc : h[a]? = some cell) (hi : i < len) (hlen : off + len ≤ cell.length) (c : Nat) :
    execBlock W (c + 10) markBody ⟨[("i", .int i), ("reason", .str reason), ("results", .slice a off len)], h, w⟩
      = some (.next, ⟨[("i", .int i), ("reason", .str reason), ("results", .slice a off len)],
          h.set a (cell.set (off + i) (newErrorResult (.fw (fwTagOf reason)))), w⟩) := by
  have h2 : off + i < cell.length := by omega
  simp [markBody, execBlock, execStmt, evalRhs, isCommaOk, evalExpr, evalArgs, Env.get, errorf, assignAll, assignTo,
    Exprs.toList, Exprs.length, heapSet, hc, hi, h2]

theorem take_set_succ {α} (l : List α) (i : Nat) (x : α) (h : i < l.length) :
    (l.set i x).take (i + 1) = l.take i ++ [x] := by
  rw [List.take_add_one]
  simp [h, List.take_set_of_le]

theorem set_same {α} (h : List α) (a : Nat) (c : α) (hc : h[a]? = some c) : h.set a c = h := by
  rcases List.getElem?_eq_some_iff.1 hc with ⟨hlt, rfl⟩; exact List.set_getElem_self hlt

theorem mark_loop (W : World Ω) (w : Ω) (a off len : Nat) (reason : String) (c k : Nat) :
    ∀ (i : Nat) (h : Heap) (cell : List Result), h[a]? = some cell → i + k = len → off + len ≤ cell.length →
    loopRange W (k + c + 11) "i" "_" a off len i markBody ⟨[("reason", .str reason), ("results", .slice a off len)], h, w⟩
      = some (.next, ⟨[("reason", .str reason), ("results", .slice a off len)],
          h.set a (cell.take (off + i) ++ List.replicate k (newErrorResult (.fw (fwTagOf reason))) ++ cell.drop (off + len)), w⟩) := by
  induction k with
  | zero =>
    intro i h cell hc hik hlen
    have : ¬ i < len := by omega
    have e : off + i = off + len := by omega
    simp [loopRange, this, e, set_same _ _ _ hc]
  | succ k ih =>
    intro i h cell hc hik hlen
    have hi : i < len := by omega
    have h2 : off + i < cell.length := by omega
    have ha : a < h.length := (List.getElem?_eq_some_iff.1 hc).1
    rw [show k + 1 + c + 11 = (k + c + 11) + 1 from by omega, loopRange]
    simp only [hi, if_true, heapGet, hc, Option.bind_some, List.getElem?_eq_getElem h2]
    simp only [Env.push, show ("_" == "_") = true from rfl, show ("i" == "_") = false from by decide, if_true, Bool.false_eq_true, if_false]
    rw [show k + c + 11 = (k + c + 1) + 10 from by omega, mark_body_step W h w a off len i reason cell hc hi hlen]
    simp only [popSt, Env.popTo, List.length_cons, List.length_nil]
    simp only [show 0 + 1 + 1 + 1 - (0 + 1 + 1) = 1 from rfl, List.drop_succ_cons, List.drop_zero]
    rw [show k + c + 1 + 10 = k + c + 11 from by omega,
      ih (i + 1) _ (cell.set (off + i) (newErrorResult (.fw (fwTagOf reason)))) (by simp [ha]) (by omega) (by simpa using hlen)]
    congr 2
    rw [List.set_set]
    congr 1
    rw [show off + (i + 1) = (off + i) + 1 from by omega, take_set_succ _ _ _ h2, List.drop_set_of_lt (by omega)]
    simp [List.replicate_succ]

theorem markUnprocessed_refines_fuel (W : World Ω) (h : Heap) (w : Ω) (a off len : Nat) (reason : String) (cell : List Result)
    (hc : h[a]? = some cell) (hlen : off + len ≤ cell.length) (c : Nat) :
    callFunc W (len + c + 13) Flyt.Expected.IR.markUnprocessed [.slice a off len, .str reason] h w
      = some ([], markUnprocessedSem h a off len reason, w) := by
  have hm : min len (cell.length - off) = len := by omega
  have hl := mark_loop W w a off len reason c len 0 h cell hc (by omega) hlen
  simp only [markBody, Nat.add_zero] at hl
  simp [callFunc, Flyt.Expected.IR.markUnprocessed, Env.pushAll, Env.push, execBlock, execStmt, evalExpr,
    Env.get, hl, markUnprocessedSem, fillWindow, hc, hm]

theorem markUnprocessed_refines (W : World Ω) (h : Heap) (w : Ω) (a off len : Nat) (reason : String) (cell : List Result)
    (hc : h[a]? = some cell) (hlen : off + len ≤ cell.length) :
    callFunc W (len + 20) Flyt.Expected.IR.markUnprocessed [.slice a off len, .str reason] h w
      = some ([], markUnprocessedSem h a off len reason, w) :=
  markUnprocessed_refines_fuel W h w a off len reason cell hc hlen 7

/-- fuel monotonicity for this function: every fuel at or above `len + 13` gives the same (total) answer -/
theorem markUnprocessed_refines_of_le (W : World Ω) (h : Heap) (w : Ω) (a off len : Nat) (reason : String) (cell : List Result)
    (hc : h[a]? = some cell) (hlen : off + len ≤ cell.length) (fuel : Nat) (hf : len + 13 ≤ fuel) :
    callFunc W fuel Flyt.Expected.IR.markUnprocessed [.slice a off len, .str reason] h w
      = some ([], markUnprocessedSem h a off len reason, w) := by
  obtain ⟨c, rfl⟩ := Nat.exists_eq_add_of_le hf
  rw [show len + 13 + c = len + c + 13 from by omega]
  exact markUnprocessed_refines_fuel W h w a off len reason cell hc hlen c

/-! ### `runBatchSequential` -/

def seqBody : Block := B[
    (.ifS B[] (.bin "!=" (.mcall (.var "ctx") "Err" E[]) (.var "nil")) B[
      (.assign E[(.index (.var "results") (.var "i"))] E[(.call "NewErrorResult" E[(.call "fmt.Errorf" E[(.str "context cancelled")])])]),
      (.ifS B[] (.bin "==" (.var "errorHandling") (.str "stop")) B[
        (.expr (.call "markUnprocessed" E[(.sliceFrom (.var "results") (.bin "+" (.var "i") (.int 1))), (.str "context cancelled")])),
        .brk] B[]),
      .cont] B[]),
    (.define ["execResult", "err"] E[(.call "runExecWithRetries" E[(.var "ctx"), (.var "node"), (.var "item")])]),
    (.ifS B[] (.bin "!=" (.var "err") (.var "nil")) B[
      (.assign E[(.index (.var "results") (.var "i"))] E[(.call "NewErrorResult" E[(.var "err")])]),
      (.ifS B[] (.bin "==" (.var "errorHandling") (.str "stop")) B[
        (.expr (.call "markUnprocessed" E[(.sliceFrom (.var "results") (.bin "+" (.var "i") (.int 1))), (.str "batch stopped due to error")])),
        .brk] B[])] B[
      (.ifS B[(.define ["r", "ok"] E[(.assert (.var "execResult") "Result")])] (.var "ok") B[
        (.assign E[(.index (.var "results") (.var "i"))] E[(.var "r")])] B[
        (.assign E[(.index (.var "results") (.var "i"))] E[(.call "NewResult" E[(.var "execResult")])])])])]

theorem runBatchSequential_body :
    Flyt.Expected.IR.runBatchSequential.body = B[(.rangeS "i" "item" (.var "items") seqBody)] := rfl

def baseEnv (nid N : Nat) (eh : String) : List (String × GV) :=
  [("errorHandling", GV.str eh), ("results", GV.slice 1 0 N), ("items", GV.slice 0 0 N), ("node", GV.node nid), ("ctx", ctxH)]

theorem fill_tail (items res : List Result) (N i : Nat) (x r0 : Result) (hres : res.length = N) (hi : i < N) :
    fillWindow [items, res.set i x] 1 (i + 1) (N - (i + 1)) r0 = [items, res.take i ++ x :: List.replicate (N - (i + 1)) r0] := by
  subst hres
  simp [fillWindow, take_set_succ _ _ _ hi]
  omega

section
variable (kind : CtxKind) (n : NodeId) (v : Nat) (cfg : BatchCfg) (scr : BatchScript) (idxOf : Result → Nat)

local macro "seq_exec" "[" ts:Lean.Parser.Tactic.simpLemma,* "]" : tactic =>
  `(tactic| simp [seqBody, baseEnv, execBlock, execStmt, evalRhs, isCommaOk, evalCommaOk, evalExpr, evalArgs, Env.get, Env.set,
    Env.pushAll, Env.push, popSt, Env.popTo,
    seqWorld, errorf, assignAll, assignTo, Exprs.toList, Exprs.length, heapSet, ctxH, ctxErrGV, GV.eqv, GV.isNil, intBin,
    markUnprocessedSem, $ts,*])

theorem body_done_stop (nid N i : Nat) (item : Result) (items res : List Result) (evs : List Ev) (kd : CtxKind)
    (hi : i < N) (hres : res.length = N) (c : Nat) :
    execBlock (seqWorld kind n v cfg scr idxOf) (c + 20) seqBody
      ⟨("item", .result item) :: ("i", .int i) :: baseEnv nid N "stop", [items, res], ⟨evs, .done kd⟩⟩
      = some (.brk, ⟨("item", .result item) :: ("i", .int i) :: baseEnv nid N "stop",
          [items, res.take i ++ List.replicate (N - i) (newErrorResult (.fw .batchCancelled))], ⟨evs, .done kd⟩⟩) := by
  have hi' : i < res.length := by omega
  have e1 : (0:Int) ≤ (i:Int) + 1 := by omega
  have e4 : i + 1 ≤ N := by omega
  have e5 : fwTagOf "context cancelled" = .batchCancelled := by decide
  have e6 : N - i = (N - (i + 1)) + 1 := by omega
  have e3 : ((i:Int)+1).toNat = i+1 := by omega
  seq_exec [hi, hi', e1, e3, e4, e5, fill_tail _ _ _ _ _ _ hres hi]
  simp [e6, List.replicate_succ]

theorem body_done_cont (nid N i : Nat) (item : Result) (items res : List Result) (evs : List Ev) (kd : CtxKind)
    (hi : i < N) (hres : res.length = N) (c : Nat) :
    execBlock (seqWorld kind n v cfg scr idxOf) (c + 20) seqBody
      ⟨("item", .result item) :: ("i", .int i) :: baseEnv nid N "continue", [items, res], ⟨evs, .done kd⟩⟩
      = some (.cont, ⟨("item", .result item) :: ("i", .int i) :: baseEnv nid N "continue",
          [items, res.set i (newErrorResult (.fw .batchCancelled))], ⟨evs, .done kd⟩⟩) := by
  have hi' : i < res.length := by omega
  have e5 : fwTagOf "context cancelled" = .batchCancelled := by decide
  seq_exec [hi, hi', e5]

theorem body_err_stop (nid N i : Nat) (item : Result) (items res : List Result) (evs ev1 : List Ev) (ctx1 : Ctx) (e : ErrRoot)
    (hi : i < N) (hres : res.length = N) (hidx : idxOf item = i)
    (hr : runItemRaw kind n v cfg i item (scr.item i) .live = (ev1, ctx1, .error e)) (c : Nat) :
    execBlock (seqWorld kind n v cfg scr idxOf) (c + 20) seqBody
      ⟨("item", .result item) :: ("i", .int i) :: baseEnv nid N "stop", [items, res], ⟨evs, .live⟩⟩
      = some (.brk, ⟨("err", .err e) :: ("execResult", .nil) :: ("item", .result item) :: ("i", .int i) :: baseEnv nid N "stop",
          [items, res.take i ++ newErrorResult e :: List.replicate (N - (i + 1)) (newErrorResult (.fw .batchStopped))],
          ⟨evs ++ ev1, ctx1⟩⟩) := by
  have hi' : i < res.length := by omega
  have e1 : (0:Int) ≤ (i:Int) + 1 := by omega
  have e4 : i + 1 ≤ N := by omega
  have e5 : fwTagOf "batch stopped due to error" = .batchStopped := by decide
  have e3 : ((i:Int)+1).toNat = i+1 := by omega
  seq_exec [hi, hi', e1, e3, e4, e5, hidx, hr, fill_tail _ _ _ _ _ _ hres hi]

theorem body_err_cont (nid N i : Nat) (item : Result) (items res : List Result) (evs ev1 : List Ev) (ctx1 : Ctx) (e : ErrRoot)
    (hi : i < N) (hres : res.length = N) (hidx : idxOf item = i)
    (hr : runItemRaw kind n v cfg i item (scr.item i) .live = (ev1, ctx1, .error e)) (c : Nat) :
    execBlock (seqWorld kind n v cfg scr idxOf) (c + 20) seqBody
      ⟨("item", .result item) :: ("i", .int i) :: baseEnv nid N "continue", [items, res], ⟨evs, .live⟩⟩
      = some (.next, ⟨("err", .err e) :: ("execResult", .nil) :: ("item", .result item) :: ("i", .int i) :: baseEnv nid N "continue",
          [items, res.set i (newErrorResult e)], ⟨evs ++ ev1, ctx1⟩⟩) := by
  have hi' : i < res.length := by omega
  seq_exec [hi, hi', hidx, hr]

theorem body_ok (nid N i : Nat) (eh : String) (item : Result) (items res : List Result) (evs ev1 : List Ev) (ctx1 : Ctx) (x : Val)
    (hi : i < N) (hres : res.length = N) (hidx : idxOf item = i)
    (hr : runItemRaw kind n v cfg i item (scr.item i) .live = (ev1, ctx1, .ok x)) (c : Nat) :
    execBlock (seqWorld kind n v cfg scr idxOf) (c + 20) seqBody
      ⟨("item", .result item) :: ("i", .int i) :: baseEnv nid N eh, [items, res], ⟨evs, .live⟩⟩
      = some (.next, ⟨("err", .nil) :: ("execResult", GV.ofVal x) :: ("item", .result item) :: ("i", .int i) :: baseEnv nid N eh,
          [items, res.set i (slotOfVal x)], ⟨evs ++ ev1, ctx1⟩⟩) := by
  have hi' : i < res.length := by omega
  cases x with
  | tok t => seq_exec [hi, hi', hidx, hr, GV.ofVal, Val.asResult?, slotOfVal, toResult, mkNewResult, GV.toVal]
  | res xv xe => seq_exec [hi, hi', hidx, hr, GV.ofVal, Val.asResult?, slotOfVal, toResult, mkNewResult, GV.toVal]

theorem itemsSeq_length (items : List Result) : ∀ (i : Nat) (ctx : Ctx),
    (itemsSeq kind n v cfg scr items i ctx).2.2.length = items.length := by
  induction items with
  | nil => intro i ctx; simp [itemsSeq]
  | cons it rest ih =>
    intro i ctx
    cases ctx with
    | done kd =>
      by_cases hs : cfg.stop
      · simp [itemsSeq, hs]
      · simp [itemsSeq, hs, ih]
    | live =>
      simp only [itemsSeq]
      rcases runItem kind n v cfg i it (scr.item i) .live with ⟨ev1, ctx1, (s | e)⟩
      · simp [ih]
      · by_cases hs : cfg.stop
        · simp [hs]
        · simp [hs, ih]

def ehOf (cfg : BatchCfg) : String := if cfg.stop then "stop" else "continue"

theorem seq_loop (nid N : Nat) (items : List Result) (hN : items.length = N)
    (hidx : ∀ i (h : i < items.length), idxOf items[i] = i) (c k : Nat) :
    ∀ (i : Nat) (res : List Result) (evs : List Ev) (ctx : Ctx), i + k = N → res.length = N →
    loopRange (seqWorld kind n v cfg scr idxOf) (k + c + 21) "i" "item" 0 0 N i seqBody
        ⟨baseEnv nid N (ehOf cfg), [items, res], ⟨evs, ctx⟩⟩
      = some (.next, ⟨baseEnv nid N (ehOf cfg),
          [items, res.take i ++ (itemsSeq kind n v cfg scr (items.drop i) i ctx).2.2],
          ⟨evs ++ (itemsSeq kind n v cfg scr (items.drop i) i ctx).1, (itemsSeq kind n v cfg scr (items.drop i) i ctx).2.1⟩⟩) := by
  induction k with
  | zero =>
    intro i res evs ctx hik hres
    have : ¬ i < N := by omega
    have hd : items.drop i = [] := by apply List.drop_eq_nil_of_le; omega
    have ht : res.take i = res := by apply List.take_of_length_le; omega
    simp [loopRange, this, hd, ht, itemsSeq]
  | succ k ih =>
    intro i res evs ctx hik hres
    have hi : i < N := by omega
    have hi2 : i < items.length := by omega
    have hi3 : i < res.length := by omega
    have hd : items.drop i = items[i] :: items.drop (i + 1) := List.drop_eq_getElem_cons hi2
    rw [show k + 1 + c + 21 = (k + c + 21) + 1 from by omega, loopRange]
    simp only [hi, if_true, heapGet, List.getElem?_cons_zero, Option.bind_some, Nat.zero_add, List.getElem?_eq_getElem hi2]
    have hp : ∀ eh, Env.push (Env.push (baseEnv nid N eh) "i" (.int i)) "item" (.result items[i])
        = ("item", .result items[i]) :: ("i", .int i) :: baseEnv nid N eh := by intro eh; simp [Env.push]
    have hl : (baseEnv nid N (ehOf cfg)).length = 5 := rfl
    have hrest : (items.drop (i + 1)).length = N - (i + 1) := by simp [hN]
    simp only [hp, hl]
    have fuelE : k + c + 21 = (k + c + 1) + 20 := by omega
    have pop2 : ∀ (x1 x2 : String × GV) eh h w, popSt (Ω := SeqW) ⟨x1 :: x2 :: baseEnv nid N eh, h, w⟩ 5 = ⟨baseEnv nid N eh, h, w⟩ :=
      fun _ _ _ _ _ => rfl
    have pop4 : ∀ (x1 x2 x3 x4 : String × GV) eh h w,
        popSt (Ω := SeqW) ⟨x1 :: x2 :: x3 :: x4 :: baseEnv nid N eh, h, w⟩ 5 = ⟨baseEnv nid N eh, h, w⟩ :=
      fun _ _ _ _ _ _ _ => rfl
    have hidxi : idxOf items[i] = i := hidx i hi2
    cases ctx with
    | done kd =>
      by_cases hs : cfg.stop
      · have he : ehOf cfg = "stop" := by simp [ehOf, hs]
        rw [he, fuelE, body_done_stop kind n v cfg scr idxOf nid N i items[i] items res evs kd hi hres]
        rw [hd]
        simp [pop2, itemsSeq, hs, hrest, -List.getElem_cons_drop]
        simp [List.map_const', hN, show N - i = (N - (i + 1)) + 1 by omega, List.replicate_succ]
      · have he : ehOf cfg = "continue" := by simp [ehOf, hs]
        have ih' := ih (i + 1) (res.set i (newErrorResult (.fw .batchCancelled))) evs (.done kd) (by omega) (by simpa using hres)
        rw [he] at ih' ⊢
        rw [fuelE, body_done_cont kind n v cfg scr idxOf nid N i items[i] items res evs kd hi hres]
        simp only [pop2]
        rw [← fuelE, ih', hd]
        simp [itemsSeq, hs, take_set_succ _ _ _ hi3, -List.getElem_cons_drop]
    | live =>
      rcases hr : runItemRaw kind n v cfg i items[i] (scr.item i) .live with ⟨ev1, ctx1, (e | x)⟩
      · by_cases hs : cfg.stop
        · have he : ehOf cfg = "stop" := by simp [ehOf, hs]
          rw [he, fuelE, body_err_stop kind n v cfg scr idxOf nid N i items[i] items res evs ev1 ctx1 e hi hres hidxi hr]
          rw [hd]
          simp [pop4, itemsSeq, runItem_eq_raw, hr, hs, hrest, -List.getElem_cons_drop]
          simp [List.map_const', hN]
        · have he : ehOf cfg = "continue" := by simp [ehOf, hs]
          have ih' := ih (i + 1) (res.set i (newErrorResult e)) (evs ++ ev1) ctx1 (by omega) (by simpa using hres)
          rw [he] at ih' ⊢
          rw [fuelE, body_err_cont kind n v cfg scr idxOf nid N i items[i] items res evs ev1 ctx1 e hi hres hidxi hr]
          simp only [pop4]
          rw [← fuelE, ih', hd]
          simp [itemsSeq, runItem_eq_raw, hr, hs, take_set_succ _ _ _ hi3, -List.getElem_cons_drop]
      · have ih' := ih (i + 1) (res.set i (slotOfVal x)) (evs ++ ev1) ctx1 (by omega) (by simpa using hres)
        rw [fuelE, body_ok kind n v cfg scr idxOf nid N i (ehOf cfg) items[i] items res evs ev1 ctx1 x hi hres hidxi hr]
        simp only [pop4]
        rw [← fuelE, ih', hd]
        simp [itemsSeq, runItem_eq_raw, hr, take_set_succ _ _ _ hi3, -List.getElem_cons_drop]

theorem runBatchSequential_refines_fuel (items : List Result) (ctx : Ctx)
    (hidx : ∀ i (h : i < items.length), idxOf items[i] = i) (c : Nat) :
    itemsSeqIR (items.length + 23 + c) Flyt.Expected.IR.runBatchSequential kind n v cfg scr idxOf items ctx
      = some (itemsSeq kind n v cfg scr items 0 ctx) := by
  have hl := seq_loop kind n v cfg scr idxOf n items.length items rfl hidx c items.length 0
    (List.replicate items.length ⟨Val.nil, none⟩) [] ctx (by omega) (by simp)
  simp only [seqBody, baseEnv, ehOf] at hl
  simp [itemsSeqIR, callFunc, Flyt.Expected.IR.runBatchSequential, Env.pushAll, Env.push, execBlock, execStmt, evalExpr,
    Env.get, show items.length + 23 + c = items.length + c + 21 + 1 + 1 from by omega, hl]
end

def seqFuel (items : List Result) : Nat := items.length + 30

theorem runBatchSequential_refines_itemsSeq (kind : CtxKind) (n : NodeId) (v : Nat) (cfg : BatchCfg) (scr : BatchScript)
    (idxOf : Result → Nat) (items : List Result) (ctx : Ctx)
    (hidx : ∀ i (h : i < items.length), idxOf items[i] = i) :
    GoIR.itemsSeqIR (seqFuel items) Flyt.Expected.IR.runBatchSequential kind n v cfg scr idxOf items ctx
      = some (itemsSeq kind n v cfg scr items 0 ctx) :=
  runBatchSequential_refines_fuel kind n v cfg scr idxOf items ctx hidx 7

/-- fuel monotonicity for this function: every fuel at or above `items.length + 23` gives the same (total) answer -/
theorem runBatchSequential_refines_of_le (kind : CtxKind) (n : NodeId) (v : Nat) (cfg : BatchCfg) (scr : BatchScript)
    (idxOf : Result → Nat) (items : List Result) (ctx : Ctx)
    (hidx : ∀ i (h : i < items.length), idxOf items[i] = i) (fuel : Nat) (hf : items.length + 23 ≤ fuel) :
    GoIR.itemsSeqIR fuel Flyt.Expected.IR.runBatchSequential kind n v cfg scr idxOf items ctx
      = some (itemsSeq kind n v cfg scr items 0 ctx) := by
  obtain ⟨c, rfl⟩ := Nat.exists_eq_add_of_le hf
  exact runBatchSequential_refines_fuel kind n v cfg scr idxOf items ctx hidx c
end Flyt.Refine
