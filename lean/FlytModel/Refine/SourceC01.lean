import FlytModel.Refine.SourceBase
import FlytModel.Props.C01
/-!
# C01 (node lifecycle) stated about the INTERPRETED SOURCE of `flyt.Run`

`Props/C01.lean` proves the lifecycle theorems about the hand-written model function `runLeaf`. `Refine/Run.lean` proves that the
translated Go source of `Run` (`Flyt.Expected.IR.Run`, kept equal to the regenerated translation by `rfl`), run by the definitional
interpreter in the leaf world, returns exactly `runLeaf …` for every interpreter depth `≥ runFuel cfg = effBudget + 43`
(`Run_refines_runLeaf_of_le`). Here the two are composed: each headline theorem of C01 is restated with the subject
`runLeafIR fuel Expected.IR.Run …` — what the interpreter makes of the source — in place of `runLeaf …`.

Shape of every statement: for every sufficient `fuel`, the interpretation TERMINATES with some `(evs, ctx', out)` (events the world
recorded, context afterwards, outcome read off `Run`'s two return values) and the conclusion of the model theorem holds of `evs` / `out`.
Hypotheses: those of the model theorem, unchanged, plus `runFuel cfg ≤ fuel`. The refinement theorem has no side condition, so nothing is
weakened.

What the leaf world (`GoIR/Worlds.lean`, `leafWorld`) contributes — and what therefore remains an assumption of these corollaries — is
the behaviour of everything that is not Go source of `Run`: the user's callbacks follow the script and RECORD what they are handed, the
node's dynamic type answers the `RetryableNode` / `FallbackNode` assertions according to `cfg`, `ctx.Err()` reports the world's context,
the `select` on `time.After` / `ctx.Done()` follows `scr.waitCancel`.
-/
set_option autoImplicit false
namespace Flyt.Refine.Source
open Flyt Flyt.Spec Flyt.GoIR Flyt.Refine Flyt.Proofs.Attempts Flyt.Proofs.Leaf Flyt.Proofs.LeafSpec

/-- **C01.lifecycle for the interpreted source (closed form of every run, no hypothesis).** On a live context the interpreted `Run`
    terminates and its events / outcome are one of the runs `LeafRun` describes: prep fails · prep cancels · prep hands over `pv`, the
    retry loop makes `m ≤ effBudget` exec calls numbered `0..m-1` each with `execArg execS pv`, the exec phase ends in one of the six
    `PhaseEnd` ways, post runs (once, last, same store, `pv`, the result) iff that end is `ok`. Mirrors `Props.C01.lifecycle`. -/
theorem C01_lifecycle_for_interpreted_source (kind : CtxKind) (n v sid : Nat) (cfg : LeafCfg) (scr : LeafScript)
    (fuel : Nat) (hf : runFuel cfg ≤ fuel) :
    ∃ evs ctx' out, runLeafIR fuel Flyt.Expected.IR.Run kind n v sid cfg scr .live = some (evs, ctx', out) ∧
      LeafRun kind n v sid cfg scr evs out :=
  leaf_transfer kind n v sid cfg scr .live fuel hf (fun evs _ out => LeafRun kind n v sid cfg scr evs out)
    (Props.C01.lifecycle kind n v sid cfg scr)

/-- **A run of the interpreted source on a context that is already done invokes no callback** and returns the context's error.
    Mirrors `Props.C01.done_context_runs_nothing`. -/
theorem C01_done_context_runs_nothing_for_interpreted_source (kind : CtxKind) (n v sid : Nat) (cfg : LeafCfg) (scr : LeafScript)
    (k : CtxKind) (fuel : Nat) (hf : runFuel cfg ≤ fuel) :
    runLeafIR fuel Flyt.Expected.IR.Run kind n v sid cfg scr (.done k) = some ([], .done k, .err (.ctx k)) :=
  Run_refines_runLeaf_of_le kind n v sid cfg scr (.done k) fuel hf

/-- **Prep exactly once, first, with the very store given to the run.** Mirrors `Props.C01.prep_exactly_once`. -/
theorem C01_prep_exactly_once_for_interpreted_source (kind : CtxKind) (n v sid : Nat) (cfg : LeafCfg) (scr : LeafScript)
    (hp : cfg.prepS ≠ .absent) (fuel : Nat) (hf : runFuel cfg ≤ fuel) :
    ∃ evs ctx' out, runLeafIR fuel Flyt.Expected.IR.Run kind n v sid cfg scr .live = some (evs, ctx', out) ∧
      ∃ rest, evs = .prep n v sid :: rest ∧ ∀ e ∈ rest, isPrepEv e = false :=
  leaf_transfer kind n v sid cfg scr .live fuel hf
    (fun evs _ _ => ∃ rest, evs = .prep n v sid :: rest ∧ ∀ e ∈ rest, isPrepEv e = false)
    (Props.C01.prep_exactly_once kind n v sid cfg scr hp)

/-- **Then only exec attempts, then post at most once**: prep event, then only retry-loop events of this visit, then at most one
    fallback call, then at most one post call, which gets the store of the run. Mirrors `Props.C01.phases_in_order`. -/
theorem C01_phases_in_order_for_interpreted_source (kind : CtxKind) (n v sid : Nat) (cfg : LeafCfg) (scr : LeafScript)
    (fuel : Nat) (hf : runFuel cfg ≤ fuel) :
    ∃ evs ctx' out, runLeafIR fuel Flyt.Expected.IR.Run kind n v sid cfg scr .live = some (evs, ctx', out) ∧
      ∃ loop fbs posts, evs = preEvs n v sid cfg ++ loop ++ fbs ++ posts ∧
        (∀ e ∈ loop, (∃ k f, e = .wait n v k cfg.effWait f) ∨ (∃ k arg, e = .exec n v k arg)) ∧
        (fbs = [] ∨ ∃ arg er, fbs = [.fb n v arg er]) ∧
        (posts = [] ∨ ∃ a b, posts = [.post n v sid a b]) :=
  leaf_transfer kind n v sid cfg scr .live fuel hf
    (fun evs _ _ => ∃ loop fbs posts, evs = preEvs n v sid cfg ++ loop ++ fbs ++ posts ∧
        (∀ e ∈ loop, (∃ k f, e = .wait n v k cfg.effWait f) ∨ (∃ k arg, e = .exec n v k arg)) ∧
        (fbs = [] ∨ ∃ arg er, fbs = [.fb n v arg er]) ∧
        (posts = [] ∨ ∃ a b, posts = [.post n v sid a b]))
    (Props.C01.phases_in_order kind n v sid cfg scr)

/-- **Each exec attempt receives exactly the value prep returned**; the attempts are numbered `0, 1, 2, …` and there are at most
    `effBudget` of them. Mirrors `Props.C01.exec_receives_prep_value`. -/
theorem C01_exec_receives_prep_value_for_interpreted_source (kind : CtxKind) (n v sid : Nat) (cfg : LeafCfg) (scr : LeafScript)
    (fuel : Nat) (hf : runFuel cfg ≤ fuel) :
    ∃ evs ctx' out, runLeafIR fuel Flyt.Expected.IR.Run kind n v sid cfg scr .live = some (evs, ctx', out) ∧
      (∀ pv, prepValue cfg scr = some pv → ∃ m, m ≤ cfg.effBudget ∧
        evs.filter isExecEv = (List.range m).map (fun k => Ev.exec n v k (execArg cfg.execS pv))) ∧
      (prepValue cfg scr = none → evs.filter isExecEv = []) :=
  leaf_transfer kind n v sid cfg scr .live fuel hf
    (fun evs _ _ => (∀ pv, prepValue cfg scr = some pv → ∃ m, m ≤ cfg.effBudget ∧
        evs.filter isExecEv = (List.range m).map (fun k => Ev.exec n v k (execArg cfg.execS pv))) ∧
      (prepValue cfg scr = none → evs.filter isExecEv = []))
    (Props.C01.exec_receives_prep_value kind n v sid cfg scr)

/-- **Post runs if and only if the exec phase (an attempt or the fallback) produced a result without error; it runs at most once, last,
    and receives the same store, the prep value and that result.** Mirrors `Props.C01.post_iff_exec_produced`. -/
theorem C01_post_iff_exec_produced_for_interpreted_source (kind : CtxKind) (n v sid : Nat) (cfg : LeafCfg) (scr : LeafScript)
    (hb : 1 ≤ cfg.effBudget) (fuel : Nat) (hf : runFuel cfg ≤ fuel) :
    ∃ evs ctx' out, runLeafIR fuel Flyt.Expected.IR.Run kind n v sid cfg scr .live = some (evs, ctx', out) ∧
      ((∃ s a b, Ev.post n v s a b ∈ evs) ↔ cfg.postS ≠ .absent ∧ ∃ r, Produced n v cfg scr evs r) ∧
      (∀ s a b, Ev.post n v s a b ∈ evs →
        s = sid ∧ evs.filter isPostEv = [Ev.post n v s a b] ∧ evs.getLast? = some (Ev.post n v s a b) ∧
        ∃ pv r, PrepDone cfg scr pv ∧ Produced n v cfg scr evs r ∧
          a = (postArgs cfg.postS pv r).1 ∧ b = (postArgs cfg.postS pv r).2) :=
  leaf_transfer kind n v sid cfg scr .live fuel hf
    (fun evs _ _ => ((∃ s a b, Ev.post n v s a b ∈ evs) ↔ cfg.postS ≠ .absent ∧ ∃ r, Produced n v cfg scr evs r) ∧
      (∀ s a b, Ev.post n v s a b ∈ evs →
        s = sid ∧ evs.filter isPostEv = [Ev.post n v s a b] ∧ evs.getLast? = some (Ev.post n v s a b) ∧
        ∃ pv r, PrepDone cfg scr pv ∧ Produced n v cfg scr evs r ∧
          a = (postArgs cfg.postS pv r).1 ∧ b = (postArgs cfg.postS pv r).2))
    (Props.C01.post_iff_exec_produced kind n v sid cfg scr hb)

/-- **The run returns post's action (the default action when post returns the empty action or there is no post callback) with a nil
    error — exactly when the exec phase produced a result and post did not fail — or an empty action with a non-nil error; never both,
    never neither.** Mirrors `Props.C01.outcome_action_xor_error`. (That the outcome is an `Outcome.ok` / `Outcome.err` at all is a
    statement about `Run`'s two return values: `outcomeOf` maps `(a, nil)` to `.ok a`, `("", err)` to `.err`, `(a ≠ "", err)` to `.both`.) -/
theorem C01_outcome_action_xor_error_for_interpreted_source (kind : CtxKind) (n v sid : Nat) (cfg : LeafCfg) (scr : LeafScript)
    (hb : 1 ≤ cfg.effBudget) (fuel : Nat) (hf : runFuel cfg ≤ fuel) :
    ∃ evs ctx' out, runLeafIR fuel Flyt.Expected.IR.Run kind n v sid cfg scr .live = some (evs, ctx', out) ∧
      ((∃ a, out = .ok a ∧ a ≠ "" ∧ (∃ r, Produced n v cfg scr evs r) ∧
          ((cfg.postS = .absent ∧ a = defaultAction) ∨ (cfg.postS ≠ .absent ∧ ∃ a', scr.post.res = .ok a' ∧ a = norm a'))) ∨
       (∃ e, out = .err e ∧
          ¬ ((∃ r, Produced n v cfg scr evs r) ∧ (cfg.postS = .absent ∨ ∃ a', scr.post.res = .ok a')))) :=
  leaf_transfer kind n v sid cfg scr .live fuel hf
    (fun evs _ out => (∃ a, out = .ok a ∧ a ≠ "" ∧ (∃ r, Produced n v cfg scr evs r) ∧
          ((cfg.postS = .absent ∧ a = defaultAction) ∨ (cfg.postS ≠ .absent ∧ ∃ a', scr.post.res = .ok a' ∧ a = norm a'))) ∨
       (∃ e, out = .err e ∧
          ¬ ((∃ r, Produced n v cfg scr evs r) ∧ (cfg.postS = .absent ∨ ∃ a', scr.post.res = .ok a'))))
    (Props.C01.outcome_action_xor_error kind n v sid cfg scr hb)

/-- … in particular, on EVERY context, the interpreted `Run` never returns `(action ≠ "", error)` and never `("", nil)`.
    Mirrors `Props.C01.outcome_never_both` (its `≠ .fuel` clause is about the model's own fuel marker, which `outcomeOf` cannot
    produce; it is kept for uniformity). -/
theorem C01_outcome_never_both_for_interpreted_source (kind : CtxKind) (n v sid : Nat) (cfg : LeafCfg) (scr : LeafScript) (ctx : Ctx)
    (fuel : Nat) (hf : runFuel cfg ≤ fuel) :
    ∃ evs ctx' out, runLeafIR fuel Flyt.Expected.IR.Run kind n v sid cfg scr ctx = some (evs, ctx', out) ∧
      (∀ a e, out ≠ .both a e) ∧ out ≠ .fuel ∧ out ≠ .ok "" :=
  leaf_transfer kind n v sid cfg scr ctx fuel hf (fun _ _ out => (∀ a e, out ≠ .both a e) ∧ out ≠ .fuel ∧ out ≠ .ok "")
    (Props.C01.outcome_never_both kind n v sid cfg scr ctx)

/-- **A leaf run as a step of a flow goes through the same interpreted `Run`**: what the model's `runNode` does on a leaf `id` of the
    arena (events, outcome, context afterwards) is what the interpreted `Run` returns for that node's configuration, visit number,
    script, the flow's store and the current context. Mirrors `Props.C01.inside_flow`. (How the ENCLOSING `Flow.Exec` reaches this call
    is `Refine/FlowExec.lean`, whose world takes the nested `Run` to be `runNode`; this corollary is the leaf case of that reading.) -/
theorem C01_inside_flow_for_interpreted_source (env : Env) (mfuel : Nat) (id : NodeId) (sid : StoreId) (st : RunSt) (cfg : LeafCfg)
    (h : env.arena id = .leaf cfg) (fuel : Nat) (hf : runFuel cfg ≤ fuel) :
    ∃ evs ctx' out,
      runLeafIR fuel Flyt.Expected.IR.Run env.kind id (st.visits id) sid cfg (env.leafBeh id (st.visits id)) st.ctx
        = some (evs, ctx', out) ∧
      (runNode env (mfuel + 1) id sid st).1 = evs ∧ (runNode env (mfuel + 1) id sid st).2.2 = out ∧
      (runNode env (mfuel + 1) id sid st).2.1.ctx = ctx' :=
  leaf_transfer env.kind id (st.visits id) sid cfg (env.leafBeh id (st.visits id)) st.ctx fuel hf
    (fun evs ctx' out => (runNode env (mfuel + 1) id sid st).1 = evs ∧ (runNode env (mfuel + 1) id sid st).2.2 = out ∧
      (runNode env (mfuel + 1) id sid st).2.1.ctx = ctx')
    (Props.C01.inside_flow env mfuel id sid st cfg h)

/-- non-vacuity: the scenario of `Props/C01.lean` (budget 3, attempts 0 and 1 fail, attempt 2 succeeds), run by the interpreter -/
example : runLeafIR 46 Flyt.Expected.IR.Run .canceled 4 0 1 Props.C01.exCfg Props.C01.exScr .live =
    some ([.prep 4 0 1, .exec 4 0 0 (.tok 7), .exec 4 0 1 (.tok 7), .exec 4 0 2 (.tok 7), .post 4 0 1 (.tok 7) (.tok 9)],
     .live, .ok "default") := by
  rw [Run_refines_runLeaf_of_le _ _ _ _ _ _ _ 46 (by decide)]; decide

/-!
## Carried over / not carried over

Carried over (subject `runLeaf`, refinement `Run_refines_runLeaf_of_le`, no extra hypothesis but the fuel bound):
`lifecycle`, `done_context_runs_nothing`, `prep_exactly_once`, `phases_in_order`, `exec_receives_prep_value`,
`post_iff_exec_produced`, `outcome_action_xor_error`, `outcome_never_both`, `inside_flow` (the leaf case of `runNode`).

Not carried over:
* `budget_hypothesis` — a fact about `LeafCfg.effBudget`, no run involved;
* `lifecycle_inside_flow` — `inside_flow` + `lifecycle`; obtained here by composing the two corollaries;
* `flow_trace_is_visits` — subject is `runNode` on an ARBITRARY node (leaf, batch or flow, nested to any depth). The refinement theorems
  are per layer (`Run` on a leaf / on a flow node with nested `Run` read as `runNode` / dispatch to `runBatch`); there is no single
  interpreted object for a whole nested run, so nothing to restate;
* `c01Visit_bridge`, `c01Outcome_bridge`, `c01Visit_flow_bridge`, `root_leaf_single_segment` — bridges to the driver's executable
  predicates, not the property.
-/

end Flyt.Refine.Source
