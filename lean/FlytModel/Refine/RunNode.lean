import FlytModel.Refine.Run
import FlytModel.Refine.FlowExec
/-!
# Refinement: the translated Go source of `flyt.Run` on a *flow* node and on a *batch* node

* `Run_refines_runNode_flow`: `Flyt.Expected.IR.Run`, interpreted in `flowNodeWorld` (the world of `Run(ctx, flow, shared)`),
  computes exactly the `.flow` branch of the model's `runNode`.
* `Run_dispatches_to_runBatch`: the same IR in `batchDispatchWorld` (a bare `*BatchNode` or the `*BatchNodeBuilder` that
  `NewBatchNode` returns) does nothing but hand over to `runBatch`.

Both reuse the unfolding lemmas, the `gosimp` macro and the named program pieces of `Refine/Run.lean`.
-/
namespace Flyt.Refine
open Flyt Flyt.GoIR

section steps
variable {Ω : Type} (W : World Ω)
theorem expr_sel (f : Nat) (a : Expr) (fl : String) (st : St Ω) :
    evalExpr W (f + 1) (.sel a fl) st =
      match evalExpr W f a st with
      | some ([x], st1) => (W.field x fl st1.w).map fun v => ([v], st1)
      | _ => none := rfl
end steps

theorem Run_recv_params :
    Env.pushAll [] ((if Flyt.Expected.IR.Run.recv == "" then [] else [Flyt.Expected.IR.Run.recv]) ++ Flyt.Expected.IR.Run.params)
      [ctxH, .node n, storeH sid] = some [("shared", .ref "store" sid), ("node", .node n), ("ctx", .ref "ctx" 0)] := rfl

/-! ## `Run` on a batch node -/

theorem runBatch_outcome (kind : CtxKind) (n : NodeId) (v : Nat) (sid : StoreId) (cfg : BatchCfg) (scr : BatchScript) (ctx : Ctx) :
    (∃ a, (Flyt.runBatch kind n v sid cfg scr ctx).2.2 = .ok a) ∨ (∃ e, (Flyt.runBatch kind n v sid cfg scr ctx).2.2 = .err e) := by
  have hp := Flyt.Proofs.runBatch_proper kind n v sid cfg scr ctx
  cases h : (Flyt.runBatch kind n v sid cfg scr ctx).2.2 with
  | ok a => exact .inl ⟨a, rfl⟩
  | err e => exact .inr ⟨e, rfl⟩
  | both a e => simp [h, Flyt.Proofs.Outcome.Proper] at hp
  | fuel => simp [h, Flyt.Proofs.Outcome.Proper] at hp

section batch
variable (kind : CtxKind) (n : NodeId) (v : Nat) (cfg : BatchCfg) (scr : BatchScript) (viaBuilder : Bool)
local notation "BW" => batchDispatchWorld kind n v cfg scr viaBuilder

theorem bw_as_bn (i : Nat) (w : SeqW) :
    (BW).assert (.node i) "*BatchNode" w = if viaBuilder then some (.nil, false) else some (.ref "batchnode" i, true) := rfl
theorem bw_as_bnb (i : Nat) (w : SeqW) :
    (BW).assert (.node i) "*BatchNodeBuilder" w = if viaBuilder then some (.node i, true) else some (.nil, false) := rfl
theorem bw_field (i : Nat) (w : SeqW) : (BW).field (.node i) "BatchNode" w = some (.ref "batchnode" i) := rfl

theorem bw_call_node (hv : viaBuilder = false) (a : GV) (i sid : Nat) (h : Heap) (w : SeqW) :
    (BW).call "runBatch" [a, .node i, .ref "store" sid] h w =
      match (Flyt.runBatch kind n v sid cfg scr w.ctx).2.2 with
      | .ok a => some ([.str a, .nil], h, ⟨w.evs ++ (Flyt.runBatch kind n v sid cfg scr w.ctx).1, (Flyt.runBatch kind n v sid cfg scr w.ctx).2.1⟩)
      | .err e => some ([.str "", .err e], h, ⟨w.evs ++ (Flyt.runBatch kind n v sid cfg scr w.ctx).1, (Flyt.runBatch kind n v sid cfg scr w.ctx).2.1⟩)
      | _ => none := by
  subst hv
  simp only [batchDispatchWorld, storeIdOf]
  rfl
theorem bw_call_ref (a : GV) (i sid : Nat) (h : Heap) (w : SeqW) :
    (BW).call "runBatch" [a, .ref "batchnode" i, .ref "store" sid] h w =
      match (Flyt.runBatch kind n v sid cfg scr w.ctx).2.2 with
      | .ok a => some ([.str a, .nil], h, ⟨w.evs ++ (Flyt.runBatch kind n v sid cfg scr w.ctx).1, (Flyt.runBatch kind n v sid cfg scr w.ctx).2.1⟩)
      | .err e => some ([.str "", .err e], h, ⟨w.evs ++ (Flyt.runBatch kind n v sid cfg scr w.ctx).1, (Flyt.runBatch kind n v sid cfg scr w.ctx).2.1⟩)
      | _ => none := by
  simp only [batchDispatchWorld, storeIdOf]
  rfl
end batch

def batchNodeFuel : Nat := 12

/-- `Run` on a batch node (bare `*BatchNode` or the `*BatchNodeBuilder` of `NewBatchNode`) only hands over to `runBatch`. -/
theorem Run_dispatches_to_runBatch (kind : CtxKind) (n : NodeId) (v : Nat) (sid : StoreId) (cfg : BatchCfg)
    (scr : BatchScript) (viaBuilder : Bool) (ctx : Ctx) :
    GoIR.runBatchNodeIR batchNodeFuel Flyt.Expected.IR.Run kind n v sid cfg scr viaBuilder ctx
      = some (Flyt.runBatch kind n v sid cfg scr ctx) := by
  unfold runBatchNodeIR callFunc batchNodeFuel
  simp only [Run_recv_params]
  rcases hr : Flyt.runBatch kind n v sid cfg scr ctx with ⟨evs, ctx', out⟩
  have ho := runBatch_outcome kind n v sid cfg scr ctx
  rw [hr] at ho
  cases viaBuilder with
  | false =>
    rcases ho with ⟨a, ha⟩ | ⟨e, he⟩
    · simp only at ha; subst ha
      gosimp [Run_body, bw_as_bn, bw_as_bnb, bw_field, bw_call_node, bw_call_ref, expr_sel, hr, outcomeOf]
    · simp only at he; subst he
      gosimp [Run_body, bw_as_bn, bw_as_bnb, bw_field, bw_call_node, bw_call_ref, expr_sel, hr, outcomeOf]
  | true =>
    rcases ho with ⟨a, ha⟩ | ⟨e, he⟩
    · simp only at ha; subst ha
      gosimp [Run_body, bw_as_bn, bw_as_bnb, bw_field, bw_call_node, bw_call_ref, expr_sel, hr, outcomeOf]
    · simp only at he; subst he
      gosimp [Run_body, bw_as_bn, bw_as_bnb, bw_field, bw_call_node, bw_call_ref, expr_sel, hr, outcomeOf]

/-- the refinement holds with any larger recursion depth as well -/
theorem Run_dispatches_to_runBatch_of_le (kind : CtxKind) (n : NodeId) (v : Nat) (sid : StoreId) (cfg : BatchCfg)
    (scr : BatchScript) (viaBuilder : Bool) (ctx : Ctx) (fuel : Nat) (h : batchNodeFuel ≤ fuel) :
    GoIR.runBatchNodeIR fuel Flyt.Expected.IR.Run kind n v sid cfg scr viaBuilder ctx
      = some (Flyt.runBatch kind n v sid cfg scr ctx) := by
  have h0 := Run_dispatches_to_runBatch kind n v sid cfg scr viaBuilder ctx
  unfold runBatchNodeIR at h0 ⊢
  cases hc : callFunc (batchDispatchWorld kind n v cfg scr viaBuilder) batchNodeFuel Flyt.Expected.IR.Run
      [ctxH, .node n, storeH sid] [] ⟨[], ctx⟩ with
  | none => simp [hc] at h0
  | some x => rw [mono_callFunc _ h hc]; rw [hc] at h0; exact h0

/-! ## `Run` on a flow node -/

section flow
variable (env : Flyt.Env) (start : Option NodeId) (tbl : Table)
local notation "FW" => flowNodeWorld env start tbl

theorem fw_err (i : Nat) (h : Heap) (w : FlowW) :
    (FW).mcall (.ref "ctx" i) "Err" [] h w = some ([ctxErrGV w.st.ctx], h, w) := rfl
theorem fw_maxr (i : Nat) (h : Heap) (w : FlowW) :
    (FW).mcall (.node i) "GetMaxRetries" [] h w = some ([.int 1], h, w) := rfl
theorem fw_wait (i : Nat) (h : Heap) (w : FlowW) :
    (FW).mcall (.node i) "GetWait" [] h w = some ([.int 0], h, w) := rfl
theorem fw_prep (i : Nat) (a sh : GV) (h : Heap) (w : FlowW) :
    (FW).mcall (.node i) "Prep" [a, sh] h w = some ([sh, .nil], h, w) := rfl
theorem fw_fb (i : Nat) (pv : GV) (e : ErrRoot) (h : Heap) (w : FlowW) :
    (FW).mcall (.node i) "ExecFallback" [pv, .err e] h w = some ([.nil, .err e], h, w) := rfl
theorem fw_post_str (i : Nat) (a sh pv : GV) (x : String) (h : Heap) (w : FlowW) :
    (FW).mcall (.node i) "Post" [a, sh, pv, .str x] h w = some ([.str x, .nil], h, w) := rfl
theorem fw_as_retry (i : Nat) (w : FlowW) : (FW).assert (.node i) "RetryableNode" w = some (.node i, true) := rfl
theorem fw_as_fb (i : Nat) (w : FlowW) : (FW).assert (.node i) "FallbackNode" w = some (.node i, true) := rfl
theorem fw_as_bn (i : Nat) (w : FlowW) : (FW).assert (.node i) "*BatchNode" w = some (.nil, false) := rfl
theorem fw_as_bnb (i : Nat) (w : FlowW) : (FW).assert (.node i) "*BatchNodeBuilder" w = some (.nil, false) := rfl
theorem fw_global : (FW).global "DefaultAction" = some (.str defaultAction) := rfl

theorem fw_exec_none (hs : start = none) (i : Nat) (a : GV) (sid : Nat) (h : Heap) (w : FlowW) :
    (FW).mcall (.node i) "Exec" [a, .ref "store" sid] h w = some ([.nil, .err (.fw .noStart)], h, w) := by
  subst hs
  simp only [flowNodeWorld, storeIdOf]
  rfl
theorem fw_exec_some {s : NodeId} (hs : start = some s) (i : Nat) (a : GV) (sid : Nat) (h : Heap) (w : FlowW) :
    (FW).mcall (.node i) "Exec" [a, .ref "store" sid] h w =
      match (flowLoop env w.mfuel tbl s sid w.st).2.2 with
      | .ok x => some ([.str x, .nil], h, ⟨w.evs ++ (flowLoop env w.mfuel tbl s sid w.st).1, (flowLoop env w.mfuel tbl s sid w.st).2.1, w.mfuel⟩)
      | .err e => some ([.nil, .err e], h, ⟨w.evs ++ (flowLoop env w.mfuel tbl s sid w.st).1, (flowLoop env w.mfuel tbl s sid w.st).2.1, w.mfuel⟩)
      | _ => none := by
  subst hs
  simp only [flowNodeWorld, storeIdOf]
  rfl
end flow

section steps
variable {Ω : Type} (W : World Ω)
theorem loopFor_succ (f : Nat) (cond : Expr) (post body : Block) (st : St Ω) :
    loopFor W (f + 1) cond post body st =
      match evalExpr W f cond st with
      | some ([.bool false], st1) => some (.next, st1)
      | some ([.bool true], st1) =>
        (match execBlock W f body st1 with
         | some (.brk, st2) => some (.next, popSt st2 st1.env.length)
         | some (.ret vs, st2) => some (.ret vs, popSt st2 st1.env.length)
         | some (_, st2) =>
           (match execBlock W f post (popSt st2 st1.env.length) with
            | some (.next, st3) => loopFor W f cond post body st3
            | _ => none)
         | none => none)
      | _ => none := rfl
theorem cond_unfold' (f : Nat) (st : St Ω) :
    evalExpr W f loopCond st = evalExpr W f (.bin "<" (.var "attempt") (.var "maxRetries")) st := rfl
theorem post_unfold' (f : Nat) (st : St Ω) :
    execBlock W f loopPost st = execBlock W f B[(.incr "attempt")] st := rfl
theorem body_unfold' (f : Nat) (st : St Ω) :
    execBlock W f loopBody st = execBlock W f B[
    (.ifS B[(.define ["err"] E[(.mcall (.var "ctx") "Err" E[])])] (.bin "!=" (.var "err") (.var "nil")) B[
      (.ret E[(.str ""), (.call "fmt.Errorf" E[(.str "run: context cancelled during retry: %w"), (.var "err")])])] B[]),
    (.ifS B[] (.bin "&&" (.bin ">" (.var "attempt") (.int 0)) (.bin ">" (.var "wait") (.int 0))) B[
      (.selectS (Cases.ofList [
        ((.un "<-" (.call "time.After" E[(.var "wait")])), B[]),
        ((.un "<-" (.mcall (.var "ctx") "Done" E[])), B[
          (.ret E[(.str ""), (.call "fmt.Errorf" E[(.str "run: context cancelled during wait: %w"), (.mcall (.var "ctx") "Err" E[])])])])]))] B[]),
    (.assign E[(.var "execResult"), (.var "execErr")] E[(.mcall (.var "node") "Exec" E[(.var "ctx"), (.var "prepResult")])]),
    (.ifS B[] (.bin "==" (.var "execErr") (.var "nil")) B[
      .brk] B[])] st := rfl
end steps

def FinalResF (res : Option (Ctl × St FlowW)) (out : List Ev × RunSt × Outcome) : Prop :=
  ∃ rs env h mf, res = some (.ret rs, ⟨env, h, ⟨out.1, out.2.1, mf⟩⟩) ∧ outcomeOf rs = some out.2.2

section flowproof
variable (env : Flyt.Env) (fid : NodeId) (start : Option NodeId) (tbl : Table) (sid : StoreId)
local notation "FW" => flowNodeWorld env start tbl

theorem runFlowNodeIR_of_final (F : Nat) (ops : List ConnOp) (mfuel : Nat) (st : RunSt) (out : List Ev × RunSt × Outcome)
    (h : FinalResF (execBlock (flowNodeWorld env start (buildTable ops)) F Flyt.Expected.IR.Run.body
          ⟨[("shared", .ref "store" sid), ("node", .node fid), ("ctx", .ref "ctx" 0)], [], ⟨[], st, mfuel⟩⟩) out) :
    runFlowNodeIR F Flyt.Expected.IR.Run env fid start ops mfuel sid st = some out := by
  obtain ⟨rs, e, hp, mf, h, ho⟩ := h
  unfold runFlowNodeIR callFunc
  simp only [Run_recv_params, h, ho, Option.map]

/-- the prefix of `Run` on a live context: two failing type assertions, ctx check, `Flow.Prep` (the store), ctx check,
    retry settings of the embedded `BaseNode` (budget 1, wait 0) -/
theorem flow_prefix (f : Nat) (mfuel : Nat) (st : RunSt) (hc : st.ctx = .live) :
    execBlock FW (f + 43) Flyt.Expected.IR.Run.body
        ⟨[("shared", .ref "store" sid), ("node", .node fid), ("ctx", .ref "ctx" 0)], [], ⟨[], st, mfuel⟩⟩
      = execBlock FW (f + 32) tailBlock ⟨envL .nil (.val Val.nil) 0 1 (.ref "store" sid) sid fid, [], ⟨[], st, mfuel⟩⟩ := by
  gosimp [Run_body, envL, hc, fw_err, fw_maxr, fw_wait, fw_prep, fw_as_retry, fw_as_bn, fw_as_bnb]


/-- the exec phase fails with `e` (no start node, or `flowLoop` returned an error): one attempt, pass-through fallback,
    `run: exec failed after %d retries: %w` -/
theorem flow_tail_none (hs : start = none) (f : Nat) (mfuel : Nat) (st : RunSt) (hc : st.ctx = .live) :
    FinalResF (execBlock FW (f + 32) tailBlock ⟨envL .nil (.val Val.nil) 0 1 (.ref "store" sid) sid fid, [], ⟨[], st, mfuel⟩⟩)
      ([], st, .err (.fw .noStart)) := by
  rw [tailBlock, block_cons, stmt_for]
  gosimp [envL]
  rw [loopFor_succ]
  gosimp [cond_unfold', body_unfold', post_unfold', hc, fw_err, fw_exec_none env start tbl hs]
  rw [loopFor_succ]
  gosimp [cond_unfold']
  gosimp [suffix, fbStmt, fw_as_fb, fw_fb, FinalResF, outcomeOf]

theorem flow_tail_err {s : NodeId} (hs : start = some s) (f : Nat) (mfuel : Nat) (st : RunSt) (hc : st.ctx = .live)
    {evs : List Ev} {st' : RunSt} {e : ErrRoot} (hfl : flowLoop env mfuel tbl s sid st = (evs, st', .err e)) :
    FinalResF (execBlock FW (f + 32) tailBlock ⟨envL .nil (.val Val.nil) 0 1 (.ref "store" sid) sid fid, [], ⟨[], st, mfuel⟩⟩)
      (evs, st', .err e) := by
  rw [tailBlock, block_cons, stmt_for]
  gosimp [envL]
  rw [loopFor_succ]
  gosimp [cond_unfold', body_unfold', post_unfold', hc, fw_err, fw_exec_some env start tbl hs, hfl]
  rw [loopFor_succ]
  gosimp [cond_unfold']
  gosimp [suffix, fbStmt, fw_as_fb, fw_fb, FinalResF, outcomeOf]

theorem flow_tail_ok {s : NodeId} (hs : start = some s) (f : Nat) (mfuel : Nat) (st : RunSt) (hc : st.ctx = .live)
    {evs : List Ev} {st' : RunSt} {a : Action} (hfl : flowLoop env mfuel tbl s sid st = (evs, st', .ok a)) :
    FinalResF (execBlock FW (f + 32) tailBlock ⟨envL .nil (.val Val.nil) 0 1 (.ref "store" sid) sid fid, [], ⟨[], st, mfuel⟩⟩)
      (evs, st', .ok (norm a)) := by
  rw [tailBlock, block_cons, stmt_for]
  gosimp [envL]
  rw [loopFor_succ]
  gosimp [cond_unfold', body_unfold', post_unfold', hc, fw_err, fw_exec_some env start tbl hs, hfl]
  by_cases ha : a = ""
  · gosimp [suffix, fbStmt, postBlock, fw_post_str, fw_global, FinalResF, outcomeOf, ha, norm, defaultAction]
  · have hb : (a == "") = false := by simp [ha]
    gosimp [suffix, fbStmt, postBlock, fw_post_str, fw_global, FinalResF, outcomeOf, ha, hb, norm, defaultAction]
end flowproof

theorem Run_refines_runNode_flow_core (f : Nat) (env : Flyt.Env) (fid : NodeId) (start : Option NodeId) (ops : List ConnOp)
    (mfuel : Nat) (sid : StoreId) (st : RunSt) (harena : env.arena fid = .flow start ops)
    (hne : (runNode env (mfuel + 1) fid sid st).2.2 ≠ .fuel) :
    GoIR.runFlowNodeIR (f + 43) Flyt.Expected.IR.Run env fid start ops mfuel sid st
      = some (runNode env (mfuel + 1) fid sid st) := by
  apply runFlowNodeIR_of_final
  cases hc : st.ctx with
  | done k =>
    have hm : runNode env (mfuel + 1) fid sid st = ([], st, .err (.ctx k)) := by simp [runNode, harena, hc]
    rw [hm]
    gosimp [Run_body, FinalResF, hc, fw_err, fw_as_bn, fw_as_bnb, outcomeOf]
  | live =>
    rw [flow_prefix env fid start (buildTable ops) sid f mfuel st hc]
    cases start with
    | none =>
      have hm : runNode env (mfuel + 1) fid sid st = ([], st, .err (.fw .noStart)) := by simp [runNode, harena, hc]
      rw [hm]
      exact flow_tail_none env fid none (buildTable ops) sid rfl f mfuel st hc
    | some s =>
      rcases hfl : flowLoop env mfuel (buildTable ops) s sid st with ⟨evs, st', out⟩
      cases out with
      | ok a =>
        have hm : runNode env (mfuel + 1) fid sid st = (evs, st', .ok (norm a)) := by simp [runNode, harena, hc, hfl]
        rw [hm]
        exact flow_tail_ok env fid (some s) (buildTable ops) sid rfl f mfuel st hc hfl
      | err e =>
        have hm : runNode env (mfuel + 1) fid sid st = (evs, st', .err e) := by simp [runNode, harena, hc, hfl]
        rw [hm]
        exact flow_tail_err env fid (some s) (buildTable ops) sid rfl f mfuel st hc hfl
      | both a e =>
        exact absurd (by rw [hfl]) (flowLoop_never_both env ops mfuel s sid st a e)
      | fuel =>
        exact absurd (by simp [runNode, harena, hc, hfl]) hne

def flowNodeFuel : Nat := 43

/-- `Run` on a flow node: exactly the flow branch of the model's `runNode`. -/
theorem Run_refines_runNode_flow (env : Flyt.Env) (fid : NodeId) (start : Option NodeId) (ops : List ConnOp)
    (mfuel : Nat) (sid : StoreId) (st : RunSt) (harena : env.arena fid = .flow start ops)
    (hne : (runNode env (mfuel + 1) fid sid st).2.2 ≠ .fuel) :
    GoIR.runFlowNodeIR flowNodeFuel Flyt.Expected.IR.Run env fid start ops mfuel sid st
      = some (runNode env (mfuel + 1) fid sid st) := by
  have h := Run_refines_runNode_flow_core 0 env fid start ops mfuel sid st harena hne
  simpa [flowNodeFuel] using h

/-- … and with any larger recursion depth of the interpreter -/
theorem Run_refines_runNode_flow_of_le (env : Flyt.Env) (fid : NodeId) (start : Option NodeId) (ops : List ConnOp)
    (mfuel : Nat) (sid : StoreId) (st : RunSt) (harena : env.arena fid = .flow start ops)
    (hne : (runNode env (mfuel + 1) fid sid st).2.2 ≠ .fuel) (fuel : Nat) (h : flowNodeFuel ≤ fuel) :
    GoIR.runFlowNodeIR fuel Flyt.Expected.IR.Run env fid start ops mfuel sid st
      = some (runNode env (mfuel + 1) fid sid st) := by
  obtain ⟨k, rfl⟩ : ∃ k, fuel = k + 43 := ⟨fuel - 43, by unfold flowNodeFuel at h; omega⟩
  exact Run_refines_runNode_flow_core k env fid start ops mfuel sid st harena hne

/-- the two statements at the fuel constants of the executable agreement test -/
theorem Run_refines_runNode_flow_60 (env : Flyt.Env) (fid : NodeId) (start : Option NodeId) (ops : List ConnOp)
    (mfuel : Nat) (sid : StoreId) (st : RunSt) (harena : env.arena fid = .flow start ops)
    (hne : (runNode env (mfuel + 1) fid sid st).2.2 ≠ .fuel) :
    GoIR.runFlowNodeIR 60 Flyt.Expected.IR.Run env fid start ops mfuel sid st
      = some (runNode env (mfuel + 1) fid sid st) :=
  Run_refines_runNode_flow_of_le env fid start ops mfuel sid st harena hne 60 (by decide)

theorem Run_dispatches_to_runBatch_30 (kind : CtxKind) (n : NodeId) (v : Nat) (sid : StoreId) (cfg : BatchCfg)
    (scr : BatchScript) (viaBuilder : Bool) (ctx : Ctx) :
    GoIR.runBatchNodeIR 30 Flyt.Expected.IR.Run kind n v sid cfg scr viaBuilder ctx
      = some (Flyt.runBatch kind n v sid cfg scr ctx) :=
  Run_dispatches_to_runBatch_of_le kind n v sid cfg scr viaBuilder ctx 30 (by decide)


end Flyt.Refine
