import FlytModel.GoIR.Worlds
import FlytModel.Expected.IR
import FlytModel.Proofs.Leaf
/-!
# `Flow.Exec` (translated Go source, `Expected.IR.Flow_Exec`) refines the model's `flowLoop`

The interpreter (`GoIR/Interp.lean`) run on the machine translation of `Flow.Exec` in the world `flowWorld`
(nested `Run` = the model's `runNode`, `f.transitions` = `buildTable ops`) returns exactly what `flowLoop` returns,
whenever the model does not run out of fuel. Interpreter fuel: any `fuel ≥ mfuel + 40` (one level per loop
iteration, at most `mfuel` iterations, a constant for the straight-line code).
-/
namespace Flyt.Refine
open Flyt Flyt.GoIR
set_option linter.unusedSimpArgs false

theorem containsW_cancelled : containsW "flow: exec cancelled: %w" = true := by
  simp (config := {decide := true}) [containsW, String.splitOn, String.splitOnAux]

def flowCond : Expr := .bin "!=" (.var "current") (.var "nil")

def flowBody : Block :=
B[
    (.ifS B[(.define ["err"] E[(.mcall (.var "ctx") "Err" E[])])] (.bin "!=" (.var "err") (.var "nil")) B[
      (.ret E[(.var "nil"), (.call "fmt.Errorf" E[(.str "flow: exec cancelled: %w"), (.var "err")])])] B[]),
    (.define ["action", "err"] E[(.call "Run" E[(.var "ctx"), (.var "current"), (.var "shared")])]),
    (.ifS B[] (.bin "!=" (.var "err") (.var "nil")) B[
      (.ret E[(.var "nil"), (.var "err")])] B[]),
    (.assign E[(.var "lastAction")] E[(.var "action")]),
    (.ifS B[(.define ["transitions", "ok"] E[(.index (.sel (.var "f") "transitions") (.var "current"))])] (.var "ok") B[
      (.ifS B[(.define ["next", "ok"] E[(.index (.var "transitions") (.var "action"))])] (.var "ok") B[
        (.assign E[(.var "current")] E[(.var "next")])] B[
        .brk])] B[
      .brk])]

theorem Flow_Exec_body : Flyt.Expected.IR.Flow_Exec.body =
  B[
  (.define ["shared", "ok"] E[(.assert (.var "prepResult") "*SharedStore")]),
  (.ifS B[] (.un "!" (.var "ok")) B[
    (.ret E[(.var "nil"), (.call "fmt.Errorf" E[(.str "flow: exec failed: invalid prepResult type %T, expected *SharedStore"), (.var "prepResult")])])] B[]),
  (.ifS B[] (.bin "==" (.sel (.var "f") "start") (.var "nil")) B[
    (.ret E[(.var "nil"), (.call "fmt.Errorf" E[(.str "flow: exec failed: no start node configured")])])] B[]),
  (.define ["current"] E[(.sel (.var "f") "start")]),
  (.declare "lastAction" "Action"),
  (.forS B[] flowCond B[] flowBody),
  (.ret E[(.var "lastAction"), (.var "nil")])] := rfl

def loopEnv (fid : NodeId) (cur : GV) (sid : StoreId) (la : String) : GoIR.Env :=
  [("lastAction", .str la), ("current", cur), ("ok", .bool true), ("shared", storeH sid),
   ("prepResult", storeH sid), ("ctx", ctxH), ("f", .node fid)]

def LoopGood (fid : NodeId) (sid : StoreId) (h : Heap) (evs0 : List Ev) (r : List Ev × RunSt × Outcome)
    (res : Option (Ctl × St FlowW)) : Prop :=
  match r.2.2 with
  | .ok a => ∃ c mf', res = some (.next, ⟨loopEnv fid c sid a, h, ⟨evs0 ++ r.1, r.2.1, mf'⟩⟩)
  | .err e => ∃ c la mf', res = some (.ret [.nil, .err e], ⟨loopEnv fid c sid la, h, ⟨evs0 ++ r.1, r.2.1, mf'⟩⟩)
  | _ => False

theorem loop_refines (env : Flyt.Env) (fid : NodeId) (sid : StoreId) (start : Option NodeId) (tbl : Table) :
    ∀ (mf k : Nat) (cur : NodeId) (la : String) (evs0 : List Ev) (st : RunSt) (h : Heap),
      (flowLoop env mf tbl cur sid st).2.2 ≠ .fuel →
      (∀ a e, (flowLoop env mf tbl cur sid st).2.2 ≠ .both a e) →
      LoopGood fid sid h evs0 (flowLoop env mf tbl cur sid st)
        (loopFor (flowWorld env start tbl) (k + mf + 33) flowCond B[] flowBody
          ⟨loopEnv fid (.node cur) sid la, h, ⟨evs0, st, mf⟩⟩) := by
  intro mf
  induction mf with
  | zero => intro k cur la evs0 st h hne; simp [flowLoop] at hne
  | succ mf ih =>
    intro k cur la evs0 st h hne hnb
    have hf : k + (mf + 1) + 33 = (k + mf + 33) + 1 := by omega
    rw [hf, loopFor]
    generalize hL : loopFor (flowWorld env start tbl) (k + mf + 33) flowCond B[] flowBody = L
    simp only [flowLoop] at hne hnb ⊢
    cases hc : st.ctx with
    | done kd =>
      simp only [hc] at hne hnb ⊢
      simp [LoopGood, flowCond, flowBody, loopEnv, execBlock, execStmt, evalRhs, isCommaOk, evalCommaOk, evalExpr, evalArgs, Env.get, Env.set, Env.pushAll, Env.push, popSt, Env.popTo, flowWorld, ctxH, storeH, storeIdOf, GV.eqv, GV.isNil, errorf, containsW_cancelled, hc, ctxErrGV]
    | live =>
      simp only [hc] at hne hnb ⊢
      cases hr : runNode env mf cur sid st with
      | mk evs1 p =>
        obtain ⟨st1, out⟩ := p
        simp only [hr] at hne hnb ⊢
        cases out with
        | fuel => simp at hne
        | both a e => exact absurd rfl (hnb a e)
        | err e =>
          simp [LoopGood, flowCond, flowBody, loopEnv, execBlock, execStmt, evalRhs, isCommaOk, evalCommaOk, evalExpr, evalArgs, Env.get, Env.set, Env.pushAll, Env.push, popSt, Env.popTo, flowWorld, ctxH, storeH, storeIdOf, GV.eqv, GV.isNil, hc, hr, ctxErrGV]
        | ok a =>
          simp only [tableLookup] at hne hnb ⊢
          cases hA : assocGet tbl cur with
          | none =>
            simp [LoopGood, flowCond, flowBody, loopEnv, execBlock, execStmt, evalRhs, isCommaOk, evalCommaOk, evalExpr, evalArgs, assignAll, assignTo, Exprs.toList, Exprs.length, Env.get, Env.set, Env.pushAll, Env.push, popSt, Env.popTo, flowWorld, ctxH, storeH, storeIdOf, GV.eqv, GV.isNil, hc, hr, hA, ctxErrGV]
          | some inner =>
            simp only [hA] at hne hnb ⊢
            cases hB : assocGet inner a with
            | none =>
              simp [LoopGood, flowCond, flowBody, loopEnv, execBlock, execStmt, evalRhs, isCommaOk, evalCommaOk, evalExpr, evalArgs, assignAll, assignTo, Exprs.toList, Exprs.length, Env.get, Env.set, Env.pushAll, Env.push, popSt, Env.popTo, flowWorld, ctxH, storeH, storeIdOf, GV.eqv, GV.isNil, hc, hr, hA, hB, ctxErrGV]
            | some tgt =>
              cases tgt with
              | none =>
                simp [LoopGood, flowCond, flowBody, loopEnv, execBlock, execStmt, evalRhs, isCommaOk, evalCommaOk, evalExpr, evalArgs, assignAll, assignTo, Exprs.toList, Exprs.length, Env.get, Env.set, Env.pushAll, Env.push, popSt, Env.popTo, flowWorld, ctxH, storeH, storeIdOf, GV.eqv, GV.isNil, hc, hr, hA, hB, ctxErrGV]
                refine ⟨.nil, mf, ?_⟩
                subst hL
                rw [loopFor]
                simp [flowCond, evalExpr, Env.get, GV.eqv, GV.isNil]
              | some nxt =>
                simp [LoopGood, flowCond, flowBody, loopEnv, execBlock, execStmt, evalRhs, isCommaOk, evalCommaOk, evalExpr, evalArgs, assignAll, assignTo, Exprs.toList, Exprs.length, Env.get, Env.set, Env.pushAll, Env.push, popSt, Env.popTo, flowWorld, ctxH, storeH, storeIdOf, GV.eqv, GV.isNil, hc, hr, hA, hB, ctxErrGV]
                simp only [hB] at hne hnb
                have h1 := ih k nxt a (evs0 ++ evs1) st1 h hne hnb
                simpa [LoopGood, loopEnv, ctxH, storeH, hL, List.append_assoc] using h1

theorem Flow_Exec_recv : Flyt.Expected.IR.Flow_Exec.recv = "f" := rfl
theorem Flow_Exec_params : Flyt.Expected.IR.Flow_Exec.params = ["ctx", "prepResult"] := rfl

theorem flowWorld_assert (env : Flyt.Env) (start : Option NodeId) (tbl : Table) (x : GV) (ty : String) (w : FlowW) :
    (flowWorld env start tbl).assert x ty w =
      if ty == "*SharedStore" then
        match storeIdOf x with
        | some _ => some (x, true)
        | none => some (.nil, false)
      else none := rfl

theorem flowWorld_field (env : Flyt.Env) (start : Option NodeId) (tbl : Table) (x : GV) (f : String) (w : FlowW) :
    (flowWorld env start tbl).field x f w =
      match x with
      | .node _ =>
        if f == "start" then (match start with | some s => some (.node s) | none => some .nil)
        else if f == "transitions" then some (.ref "trans" 0)
        else none
      | _ => none := rfl

theorem FlowExec_refines_flowLoop_core (env : Flyt.Env) (fid s : NodeId) (ops : List ConnOp) (mfuel k : Nat) (sid : StoreId) (st : RunSt)
    (hne : (flowLoop env mfuel (buildTable ops) s sid st).2.2 ≠ .fuel)
    (hnb : ∀ a e, (flowLoop env mfuel (buildTable ops) s sid st).2.2 ≠ .both a e) :
    GoIR.flowExecIR (k + mfuel + 40) Flyt.Expected.IR.Flow_Exec env fid (some s) ops mfuel sid st
      = some (flowLoop env mfuel (buildTable ops) s sid st) := by
  have hloop := loop_refines env fid sid (some s) (buildTable ops) mfuel k s "" [] st [] hne hnb
  simp only [LoopGood, loopEnv, ctxH, storeH, List.nil_append] at hloop
  rcases hfl : flowLoop env mfuel (buildTable ops) s sid st with ⟨evs, st', out⟩
  rw [hfl] at hloop
  cases out with
  | fuel => simp [hfl] at hne
  | both a e => exact absurd (by rw [hfl]) (hnb a e)
  | ok a =>
    obtain ⟨c, mf', hloop⟩ := hloop
    simp [flowExecIR, callFunc, Flow_Exec_body, Flow_Exec_recv, Flow_Exec_params, Env.pushAll, Env.push, execBlock, execStmt, evalRhs, isCommaOk, evalCommaOk, evalExpr, evalArgs, zeroOf, Env.get, Env.set, popSt, Env.popTo, flowWorld_assert, flowWorld_field, ctxH, storeH, storeIdOf, GV.eqv, GV.isNil, errorf, fwTagOf, flowOutcomeOf, hloop]
  | err e =>
    obtain ⟨c, la, mf', hloop⟩ := hloop
    simp [flowExecIR, callFunc, Flow_Exec_body, Flow_Exec_recv, Flow_Exec_params, Env.pushAll, Env.push, execBlock, execStmt, evalRhs, isCommaOk, evalCommaOk, evalExpr, evalArgs, zeroOf, Env.get, Env.set, popSt, Env.popTo, flowWorld_assert, flowWorld_field, ctxH, storeH, storeIdOf, GV.eqv, GV.isNil, errorf, fwTagOf, flowOutcomeOf, hloop]

theorem FlowExec_no_start_core (env : Flyt.Env) (fid : NodeId) (ops : List ConnOp) (mfuel k : Nat) (sid : StoreId) (st : RunSt) :
    GoIR.flowExecIR (k + 40) Flyt.Expected.IR.Flow_Exec env fid none ops mfuel sid st = some ([], st, .err (.fw .noStart)) := by
  simp [flowExecIR, callFunc, Flow_Exec_body, Flow_Exec_recv, Flow_Exec_params, Env.pushAll, Env.push, execBlock, execStmt, evalRhs, isCommaOk, evalCommaOk, evalExpr, evalArgs, Env.get, popSt, Env.popTo, flowWorld_assert, flowWorld_field, ctxH, storeH, storeIdOf, GV.eqv, GV.isNil, errorf, fwTagOf, flowOutcomeOf]

/-- the model's `flowLoop` never returns `.both` (it is `Proper` whenever it is not `.fuel`) -/
theorem flowLoop_never_both (env : Flyt.Env) (ops : List ConnOp) (mfuel : Nat) (s : NodeId) (sid : StoreId) (st : RunSt)
    (a : Action) (e : ErrRoot) : (flowLoop env mfuel (buildTable ops) s sid st).2.2 ≠ .both a e := by
  intro h
  rcases hfl : flowLoop env mfuel (buildTable ops) s sid st with ⟨evs, st', out⟩
  rw [hfl] at h
  simp only at h
  subst h
  have hp := Flyt.Proofs.big_proper (Flyt.Proofs.big_of_flowLoop hfl (by simp))
  simp [Flyt.Proofs.Outcome.Proper] at hp

/-! ### the theorems -/

/-- **`Flow.Exec` refines `flowLoop`**, for every interpreter fuel `≥ mfuel + 40`. -/
theorem FlowExec_refines_flowLoop_ge (env : Flyt.Env) (fid s : NodeId) (ops : List ConnOp) (mfuel : Nat) (sid : StoreId)
    (st : RunSt) (fuel : Nat) (hfuel : mfuel + 40 ≤ fuel)
    (hne : (flowLoop env mfuel (buildTable ops) s sid st).2.2 ≠ .fuel) :
    GoIR.flowExecIR fuel Flyt.Expected.IR.Flow_Exec env fid (some s) ops mfuel sid st
      = some (flowLoop env mfuel (buildTable ops) s sid st) := by
  obtain ⟨k, rfl⟩ : ∃ k, fuel = k + mfuel + 40 := ⟨fuel - (mfuel + 40), by omega⟩
  exact FlowExec_refines_flowLoop_core env fid s ops mfuel k sid st hne (flowLoop_never_both env ops mfuel s sid st)

theorem FlowExec_refines_flowLoop (env : Flyt.Env) (fid s : NodeId) (ops : List ConnOp) (mfuel : Nat) (sid : StoreId) (st : RunSt)
    (hne : (flowLoop env mfuel (buildTable ops) s sid st).2.2 ≠ .fuel) :
    GoIR.flowExecIR (mfuel + 40) Flyt.Expected.IR.Flow_Exec env fid (some s) ops mfuel sid st
      = some (flowLoop env mfuel (buildTable ops) s sid st) :=
  FlowExec_refines_flowLoop_ge env fid s ops mfuel sid st (mfuel + 40) (Nat.le_refl _) hne

/-- a flow without a start node: "flow: exec failed: no start node configured", for every fuel `≥ 40` -/
theorem FlowExec_no_start_ge (env : Flyt.Env) (fid : NodeId) (ops : List ConnOp) (mfuel : Nat) (sid : StoreId) (st : RunSt)
    (fuel : Nat) (hfuel : 40 ≤ fuel) :
    GoIR.flowExecIR fuel Flyt.Expected.IR.Flow_Exec env fid none ops mfuel sid st = some ([], st, .err (.fw .noStart)) := by
  obtain ⟨k, rfl⟩ : ∃ k, fuel = k + 40 := ⟨fuel - 40, by omega⟩
  exact FlowExec_no_start_core env fid ops mfuel k sid st

theorem FlowExec_no_start (env : Flyt.Env) (fid : NodeId) (ops : List ConnOp) (mfuel : Nat) (sid : StoreId) (st : RunSt) :
    GoIR.flowExecIR 40 Flyt.Expected.IR.Flow_Exec env fid none ops mfuel sid st = some ([], st, .err (.fw .noStart)) :=
  FlowExec_no_start_ge env fid ops mfuel sid st 40 (Nat.le_refl _)

end Flyt.Refine

