import FlytModel.GoIR.SliceWorld
import FlytModel.Refine.Accessors
import FlytModel.Proofs.Value
/-!
# Refinement: the translated Go source of the SLICE accessors (`Result.AsSlice / AsSliceOr / MustSlice`,
`SharedStore.GetSlice / GetSliceOr`, `ToSlice`; `Flyt.Expected.IR`), run by the definitional interpreter of `GoIR/Interp.lean` in
`sliceWorld` (`GoIR/SliceWorld.lean`), computes exactly the slice accessors of `Model/Value.lean` — for every value `v : GoVal` with
`v.shapeOK` (in particular every `v.wf`), every default, every conversion parameter, every sufficient recursion depth.

Two layers.

* `…_call_core` (depth `f + K`, any heap `hp`, any `Store1`): the interpreted function returns the values AND leaves the heap of
  `[]any` objects that the world's composite call says (`toSliceCall`, `asSliceCall`, `getSliceOrCall`). These are the
  justifications of `ToSlice(x)` / `r.AsSlice()` / `s.GetSliceOr(k, d)` as world calls in the callers
  (`ToSlice_call_refines_of_le`, `AsSlice_call_refines_of_le`, `GetSliceOr_call_refines_of_le`: `callFunc … = W.call …`).
* `…_refines_of_le` / `…_refines` (depth `≥ K` / the test's `F = 60`): the results read back (`decS`) are the model's
  (`toSlice`, `asSlice`, `asSliceOr`, `mustSlice`, `getSlice`, `getSliceOr`; a model `panic` is a stuck run, `none`).

`ToSlice` is proved in FULL: `nil`, the five cases of the type switch (`[]any` returns the value itself, `[]string` / `[]int` /
`[]float64` / `[]map[string]any` copy element by element — `fill_loop`, induction over the enumerated pairs), the reflection
fallback for every other slice type (`refl_loop`, induction over the `for i := 0; i < rv.Len(); i++` loop) and the single-item
wrap of a non-slice. Depth: `(number of elements) + 25`. The decision logic of `AsSlice` / `GetSliceOr` (nil ↦ (nil, false) / default;
`[]any` ↦ itself; kind ≠ `reflect.Slice` ↦ (nil, false) / default; otherwise `ToSlice`) needs depth 12, independent of the value.

Hypothesis `v.shapeOK` (needed by `ToSlice`, `AsSlice`, `GetSliceOr`; not by `AsSliceOr`, `MustSlice`, `GetSlice`, which only call):
see the last section — satisfiable, implied by `wf`, and at an excluded point (`excluded_point`) model and interpreted source differ.
-/
namespace Flyt.Refine.Slices
open Flyt Flyt.GoIR Flyt.Value Flyt.GoIR.ValueW Flyt.GoIR.SliceW Flyt.Expected.IR Flyt.Refine Flyt.Refine.Acc
set_option linter.unusedSimpArgs false

/-! ## the value: dynamic type vs representation -/

theorem dynKind_eq {v : GoVal} (hs : v.shapeOK = true) : dynKind v = v.kind := by
  unfold GoVal.shapeOK at hs
  unfold dynKind
  cases h : v.typeOf? with
  | none => cases v <;> simp [GoVal.typeOf?] at h; rfl
  | some t => simpa [h] using hs

theorem kindCode_eq_23 (k : Kind) : (kindCode k == 23) = (k == .slice) := by cases k <;> rfl

theorem encV_of_ne {v : GoVal} (h : v ≠ .nil) : encV v = goH := by
  cases v <;> first | rfl | exact absurd rfl h

section world
variable (c : Conv) (v : GoVal) (st : Store1)
local notation "W" => sliceWorld c v st

theorem SW_field (n : Nat) (hp : AHeap) : (W).field (.ref "r" n) "value" hp = some (encV v) := rfl
theorem SW_reflect : (W).global "reflect" = some reflectH := rfl
theorem SW_Slice (n : Nat) (hp : AHeap) : (W).field (.ref "pkg:reflect" n) "Slice" hp = some (.int 23) := rfl
theorem SW_valueOf (n : Nat) (h : Heap) (hp : AHeap) : (W).call "reflect.ValueOf" [.ref "go" n] h hp = some ([rvH], h, hp) := rfl
theorem SW_Kind (n : Nat) (h : Heap) (hp : AHeap) :
    (W).mcall (.ref "rv" n) "Kind" [] h hp = some ([.int (kindCode (dynKind v))], h, hp) := rfl
theorem SW_ToSlice (n : Nat) (h : Heap) (hp : AHeap) :
    (W).call "ToSlice" [.ref "go" n] h hp = some ([(toSliceCall v hp).1], h, (toSliceCall v hp).2) := rfl
theorem SW_AsSlice (n : Nat) (h : Heap) (hp : AHeap) :
    (W).mcall (.ref "r" n) "AsSlice" [] h hp = some ((asSliceCall v hp).1, h, (asSliceCall v hp).2) := rfl
theorem SW_GetSliceOr (n : Nat) (k d : GV) (h : Heap) (hp : AHeap) :
    (W).mcall (.ref "s" n) "GetSliceOr" [k, d] h hp =
      some ([(getSliceOrCall st.held d hp).1], h, (getSliceOrCall st.held d hp).2) := rfl
theorem SW_Get (n : Nat) (k : GV) (h : Heap) (hp : AHeap) :
    (W).mcall (.ref "s" n) "Get" [k] h hp =
      (match st.held with
       | some x => some ([encV x, .bool true], h, hp)
       | none => some ([.nil, .bool false], h, hp)) := by
  have h0 : (W).mcall (.ref "s" n) "Get" [k] h hp
      = ((valueWorld c v st).mcall (.ref "s" n) "Get" [k] h ()).map fun r => (r.1, r.2.1, hp) := rfl
  rw [h0, W_Get]
  cases st.held <;> rfl
theorem SW_sprintf (a b : GV) (h : Heap) (hp : AHeap) : (W).call "fmt.Sprintf" [a, b] h hp = some ([.str ""], h, hp) := rfl
theorem SW_panic (a : GV) (h : Heap) (hp : AHeap) : (W).call "panic" [a] h hp = none := rfl

/-- `x.([]any)` holds exactly when the model's `assertAnys` does -/
theorem SW_assert_anys_some (n : Nat) (hp : AHeap) {s : SliceV} (h : assertAnys v = some s) :
    (W).assert (.ref "go" n) "[]any" hp = some (selfH, true) := by
  cases v <;> simp [assertAnys] at h
  case slice t isNil elems =>
    obtain ⟨ht, _⟩ := h
    subst ht
    rfl
theorem SW_assert_anys_none (n : Nat) (hp : AHeap) (hs : v.shapeOK = true) (h : assertAnys v = none) :
    (W).assert (.ref "go" n) "[]any" hp = some (.nil, false) := by
  have h0 : (W).assert (.ref "go" n) "[]any" hp = assertS v tAnys selfH := rfl
  rw [h0]
  unfold assertS
  by_cases ht : v.typeOf? = some tAnys
  · exfalso
    cases v <;> simp [GoVal.typeOf?] at ht <;> subst ht <;> simp [GoVal.shapeOK, GoVal.typeOf?, GoVal.kind, tAnys, GoType.kind] at hs
    simp [assertAnys] at h
  · simp [ht]
end world

theorem asSliceCall_ne {v : GoVal} (h : v ≠ .nil) (hp : AHeap) :
    asSliceCall v hp =
      match assertAnys v with
      | some _ => ([selfH, .bool true], hp)
      | none =>
        if v.kind != .slice then ([.nil, .bool false], hp)
        else ([(toSliceCall v hp).1, .bool true], (toSliceCall v hp).2) := by
  cases v <;> first | rfl | exact absurd rfl h

theorem getSliceOrCall_ne {v : GoVal} (h : v ≠ .nil) (d : GV) (hp : AHeap) :
    getSliceOrCall (some v) d hp =
      match assertAnys v with
      | some _ => (selfH, hp)
      | none => if v.kind != .slice then (d, hp) else toSliceCall v hp := by
  cases v <;> first | rfl | exact absurd rfl h

macro "slsimp" " [" ts:Lean.Parser.Tactic.simpLemma,* "]" : tactic =>
  `(tactic| gosimp [expr_sel, expr_not, stmt_typeSwitch, switch_case, switch_default, stmt_expr_call, callFunc,
      SW_field, SW_reflect, SW_Slice, SW_valueOf, SW_Kind, SW_ToSlice, SW_AsSlice, SW_GetSliceOr, SW_Get, SW_sprintf, SW_panic,
      kindCode_eq_23, rH, goH, sH, rvH, reflectH, $ts,*])

/-! ## `Result.AsSlice` — the decision logic, with `ToSlice` as the world call `toSliceCall` -/

theorem AsSlice_call_core (f : Nat) (c : Conv) (v : GoVal) (st : Store1) (hs : v.shapeOK = true) (h : Heap) (hp : AHeap) :
    callFunc (sliceWorld c v st) (f + 12) Result_AsSlice [rH] h hp = some ((asSliceCall v hp).1, h, (asSliceCall v hp).2) := by
  by_cases hn : v = .nil
  · subst hn
    slsimp [Result_AsSlice, asSliceCall, encV]
  · rw [asSliceCall_ne hn]
    cases ha : assertAnys v with
    | some s =>
      slsimp [Result_AsSlice, encV_of_ne hn, SW_assert_anys_some c v st _ _ ha]
    | none =>
      cases hk : (v.kind == .slice)
      · have hk' : ¬ v.kind = .slice := by simpa using hk
        slsimp [Result_AsSlice, encV_of_ne hn, SW_assert_anys_none c v st _ _ hs ha, dynKind_eq hs, hk, hk']
      · have hk' : v.kind = .slice := by simpa using hk
        slsimp [Result_AsSlice, encV_of_ne hn, SW_assert_anys_none c v st _ _ hs ha, dynKind_eq hs, hk, hk']


/-- what `AsSliceOr` / `MustSlice` make of the two values `AsSlice` returned -/
def orPick : List GV → GV → GV
  | [g, .bool true], _ => g
  | _, d => d

theorem asSliceCall_shape (v : GoVal) (hp : AHeap) : ∃ g ok, (asSliceCall v hp).1 = [g, .bool ok] := by
  by_cases hn : v = .nil
  · subst hn; exact ⟨_, _, rfl⟩
  · rw [asSliceCall_ne hn]
    cases assertAnys v with
    | some s => exact ⟨_, _, rfl⟩
    | none => by_cases hk : v.kind = .slice <;> simp [hk]

theorem AsSliceOr_call_core (f : Nat) (c : Conv) (v : GoVal) (st : Store1) (dg : GV) (h : Heap) (hp : AHeap) :
    callFunc (sliceWorld c v st) (f + 8) Result_AsSliceOr [rH, dg] h hp =
      some ([orPick (asSliceCall v hp).1 dg], h, (asSliceCall v hp).2) := by
  obtain ⟨g, ok, e⟩ := asSliceCall_shape v hp
  cases ok <;> slsimp [Result_AsSliceOr, e, orPick]

theorem MustSlice_call_core (f : Nat) (c : Conv) (v : GoVal) (st : Store1) (h : Heap) (hp : AHeap) :
    callFunc (sliceWorld c v st) (f + 12) Result_MustSlice [rH] h hp =
      (match (asSliceCall v hp).1 with
       | [g, .bool true] => some ([g], h, (asSliceCall v hp).2)
       | _ => none) := by
  obtain ⟨g, ok, e⟩ := asSliceCall_shape v hp
  cases ok <;> slsimp [Result_MustSlice, e]

/-! ## `SharedStore.GetSliceOr / GetSlice` -/

theorem GetSliceOr_call_core (f : Nat) (c : Conv) (held : Option GoVal) (hs : (held.getD .nil).shapeOK = true)
    (k dg : GV) (h : Heap) (hp : AHeap) :
    callFunc (sliceWorld c (held.getD .nil) ⟨held⟩) (f + 12) SharedStore_GetSliceOr [sH, k, dg] h hp =
      some ([(getSliceOrCall held dg hp).1], h, (getSliceOrCall held dg hp).2) := by
  cases held with
  | none => slsimp [SharedStore_GetSliceOr, getSliceOrCall]
  | some v =>
    simp only [Option.getD_some] at hs ⊢
    by_cases hn : v = .nil
    · subst hn
      slsimp [SharedStore_GetSliceOr, getSliceOrCall, encV]
    · rw [getSliceOrCall_ne hn]
      cases ha : assertAnys v with
      | some s =>
        slsimp [SharedStore_GetSliceOr, encV_of_ne hn, SW_assert_anys_some c v _ _ _ ha]
      | none =>
        cases hk : (v.kind == .slice)
        · have hk' : ¬ v.kind = .slice := by simpa using hk
          slsimp [SharedStore_GetSliceOr, encV_of_ne hn, SW_assert_anys_none c v _ _ _ hs ha, dynKind_eq hs, hk, hk']
        · have hk' : v.kind = .slice := by simpa using hk
          slsimp [SharedStore_GetSliceOr, encV_of_ne hn, SW_assert_anys_none c v _ _ _ hs ha, dynKind_eq hs, hk, hk']

theorem GetSlice_call_core (f : Nat) (c : Conv) (v : GoVal) (st : Store1) (k : GV) (h : Heap) (hp : AHeap) :
    callFunc (sliceWorld c v st) (f + 8) SharedStore_GetSlice [sH, k] h hp =
      some ([(getSliceOrCall st.held .nil hp).1], h, (getSliceOrCall st.held .nil hp).2) := by
  slsimp [SharedStore_GetSlice]


/-! ## `ToSlice` -/

section steps
variable {Ω : Type} (W : World Ω)
theorem expr_make_anys (f : Nat) (rest : Exprs) (st : St Ω) :
    evalExpr W (f + 1) (.call "make" (.cons (.var "[]any") rest)) st =
      match evalArgs W f rest st with
      | some (vs, st1) =>
        (match W.call "make:[]any" vs st1.heap st1.w with
         | some (rs, h, w) => some (rs, { st1 with heap := h, w := w })
         | none => none)
      | none => none := rfl
theorem expr_lit_anys0 (f : Nat) (st : St Ω) :
    evalExpr W (f + 2) (.lit "[]any" .nil) st =
      (match W.call "lit:[]any:" [] st.heap st.w with
       | some (rs, h, w) => some (rs, { st with heap := h, w := w })
       | none => none) := rfl
theorem expr_lit_anys1 (f : Nat) (x : String) (st : St Ω) :
    evalExpr W (f + 2) (.lit "[]any" (.cons (.var x) .nil)) st =
      (match evalExpr W f (.var x) st with
       | some (vs, st1) =>
         (match W.call "lit:[]any:," vs st1.heap st1.w with
          | some (rs, h, w) => some (rs, { st1 with heap := h, w := w })
          | none => none)
       | none => none) := rfl
theorem stmt_range (f : Nat) (k v : String) (x : Expr) (body : Block) (st : St Ω) :
    execStmt W (f + 1) (.rangeS k v x body) st =
      match evalExpr W f x st with
      | some ([.slice ad off n], st1) => loopRange W f k v ad off n 0 body st1
      | some ([.anys l], st1) => loopAnys W f k v l 0 body st1
      | some ([.nil], st1) => some (.next, st1)
      | some ([m], st1) =>
        (match W.rangeOf m st1.w with
         | some kvs => loopPairs W f k v kvs body st1
         | none => none)
      | _ => none := rfl
theorem loopPairs_nil (f : Nat) (k v : String) (body : Block) (st : St Ω) :
    loopPairs W (f + 1) k v [] body st = some (.next, st) := rfl
theorem loopPairs_cons (f : Nat) (k v : String) (kx vx : GV) (rest : List (GV × GV)) (body : Block) (st : St Ω) :
    loopPairs W (f + 1) k v ((kx, vx) :: rest) body st =
      (match execBlock W f body { st with env := (st.env.push k kx).push v vx } with
       | some (.brk, st2) => some (.next, popSt st2 st.env.length)
       | some (.ret vs, st2) => some (.ret vs, popSt st2 st.env.length)
       | some (_, st2) => loopPairs W f k v rest body (popSt st2 st.env.length)
       | none => none) := rfl
end steps

/-! ### the pieces of the program -/

def fillBody : Block := B[(.assign E[(.index (.var "result") (.var "i"))] E[(.var "v")])]
def typedBody : Block := B[
  (.define ["result"] E[(.call "make" E[(.var "[]any"), (.call "len" E[(.var "val")])])]),
  (.rangeS "i" "v" (.var "val") fillBody),
  (.ret E[(.var "result")])]
def reflCond : Expr := .bin "<" (.var "i") (.mcall (.var "rv") "Len" E[])
def reflPost : Block := B[(.incr "i")]
def reflFill : Block :=
  B[(.assign E[(.index (.var "result") (.var "i"))] E[(.mcall (.mcall (.var "rv") "Index" E[(.var "i")]) "Interface" E[])])]
def reflThen : Block := B[
  (.define ["result"] E[(.call "make" E[(.var "[]any"), (.mcall (.var "rv") "Len" E[])])]),
  (.forS B[(.define ["i"] E[(.int 0)])] reflCond reflPost reflFill),
  (.ret E[(.var "result")])]
def defaultBody : Block := B[
  (.define ["rv"] E[(.call "reflect.ValueOf" E[(.var "v")])]),
  (.ifS B[] (.bin "==" (.mcall (.var "rv") "Kind" E[]) (.sel (.var "reflect") "Slice")) reflThen B[]),
  (.ret E[(.lit "[]any" E[(.var "v")])])]
def nilCheck : Stmt := .ifS B[] (.bin "==" (.var "v") (.var "nil")) B[(.ret E[(.lit "[]any" E[])])] B[]
def typeCases : Cases :=
  .cons (.lit "types" E[(.var "[]any")]) B[(.ret E[(.var "val")])] (
  .cons (.lit "types" E[(.var "[]string")]) typedBody (
  .cons (.lit "types" E[(.var "[]int")]) typedBody (
  .cons (.lit "types" E[(.var "[]float64")]) typedBody (
  .cons (.lit "types" E[(.var "[]map[string]any")]) typedBody (
  .cons (.var "default") defaultBody .nil)))))

theorem ToSlice_body : ToSlice.body = .cons nilCheck (.cons (.typeSwitch "val" (.var "v") typeCases) .nil) := rfl

/-! ### lists and the heap of `[]any` objects -/

theorem fill_set (L : List GoVal) (k m : Nat) (e : GoVal) (he : L[k]? = some e) :
    (L.take k ++ List.replicate (m + 1) GoVal.nil).set k e = L.take (k + 1) ++ List.replicate m GoVal.nil := by
  have hk : k < L.length := by
    rcases List.getElem?_eq_some_iff.1 he with ⟨hlt, _⟩; exact hlt
  have hl : (L.take k).length = k := by simp; omega
  rw [List.set_append_right _ _ (by omega), hl, Nat.sub_self, List.take_add_one, he]
  simp [List.replicate_succ]

theorem heap_get (hp : AHeap) (cell : List GoVal) : (hp ++ [cell])[hp.length]? = some cell := by simp
theorem heap_set (hp : AHeap) (cell cell' : List GoVal) : (hp ++ [cell]).set hp.length cell' = hp ++ [cell'] := by simp

section world2
variable (c : Conv) (v : GoVal) (st : Store1)
local notation "W" => sliceWorld c v st

theorem SW_valueOf_nil (h : Heap) (hp : AHeap) : (W).call "reflect.ValueOf" [.nil] h hp = some ([rv0H], h, hp) := rfl
theorem SW_make (n : Nat) (h : Heap) (hp : AHeap) :
    (W).call "make:[]any" [.int n] h hp = some ([anysH hp.length], h, hp ++ [List.replicate n .nil]) := by
  have h0 : (W).call "make:[]any" [.int n] h hp =
      if 0 ≤ (n : Int) then some ([anysH hp.length], h, hp ++ [List.replicate (n : Int).toNat .nil]) else none := rfl
  rw [h0]; simp
theorem SW_len (n : Nat) (h : Heap) (hp : AHeap) : (W).call "len" [.ref "sl" n] h hp = some ([.int (elemsOf v).length], h, hp) := rfl
theorem SW_lit0 (h : Heap) (hp : AHeap) : (W).call "lit:[]any:" [] h hp = some ([anysH hp.length], h, hp ++ [[]]) := rfl
theorem SW_lit1 (n : Nat) (h : Heap) (hp : AHeap) :
    (W).call "lit:[]any:," [.ref "go" n] h hp = some ([anysH hp.length], h, hp ++ [[v]]) := rfl
theorem SW_rangeOf (n : Nat) (hp : AHeap) : (W).rangeOf (.ref "sl" n) hp = some (pairsFrom 0 (elemsOf v).length) := rfl
theorem SW_setIndex (a k : Nat) (x : GV) (hp : AHeap) :
    (W).setIndex (.ref "anys" a) (.int k) x hp =
      (match hp[a]?, decE v x with
       | some cell, some e => if k < cell.length then some (hp.set a (cell.set k e)) else none
       | _, _ => none) := by
  have h0 : (W).setIndex (.ref "anys" a) (.int k) x hp =
      (match hp[a]?, decE v x with
       | some cell, some e => if 0 ≤ (k : Int) ∧ (k : Int).toNat < cell.length then some (hp.set a (cell.set (k : Int).toNat e)) else none
       | _, _ => none) := rfl
  rw [h0]; simp
theorem decE_elem (k : Nat) : decE v (.ref "elem" k) = (elemsOf v)[k]? := rfl
theorem SW_Len (n : Nat) (h : Heap) (hp : AHeap) (hk : dynKind v = .slice) :
    (W).mcall (.ref "rv" n) "Len" [] h hp = some ([.int (elemsOf v).length], h, hp) := by
  have h0 : (W).mcall (.ref "rv" n) "Len" [] h hp =
      if dynKind v = .slice then some ([.int (elemsOf v).length], h, hp) else none := rfl
  rw [h0, if_pos hk]
theorem SW_Index (n k : Nat) (h : Heap) (hp : AHeap) (hk : dynKind v = .slice) (hlt : k < (elemsOf v).length) :
    (W).mcall (.ref "rv" n) "Index" [.int k] h hp = some ([.ref "rvelem" k], h, hp) := by
  have h0 : (W).mcall (.ref "rv" n) "Index" [.int k] h hp =
      if dynKind v = .slice ∧ 0 ≤ (k : Int) ∧ (k : Int).toNat < (elemsOf v).length then some ([.ref "rvelem" (k : Int).toNat], h, hp)
      else none := rfl
  rw [h0]; simp [hk, hlt]
theorem SW_Interface (k : Nat) (h : Heap) (hp : AHeap) :
    (W).mcall (.ref "rvelem" k) "Interface" [] h hp = some ([elemH k], h, hp) := rfl
theorem SW_assert_sl (n : Nat) (ty : String) (t : GoType) (hp : AHeap) (ht : sliceTy ty = some t) :
    (W).assert (.ref "go" n) ty hp = assertS v t (if ty == "[]any" then selfH else slH) := by
  simp only [sliceWorld, ht]

/-- a value whose kind is not slice has none of the slice types -/
theorem assertS_nonslice (hs : v.shapeOK = true) (hk : v.kind ≠ .slice) (t : GoType) (ht : t.kind = .slice) (hd : GV) :
    assertS v t hd = some (.nil, false) := by
  unfold assertS
  by_cases he : v.typeOf? = some t
  · exfalso
    simp [GoVal.shapeOK, he, ht] at hs
    exact hk hs.symm
  · simp [he]
end world2

macro "tssimp" " [" ts:Lean.Parser.Tactic.simpLemma,* "]" : tactic =>
  `(tactic| slsimp [expr_make_anys, expr_lit_anys0, expr_lit_anys1, stmt_range, loopPairs_nil, loopPairs_cons,
      SW_valueOf_nil, SW_make, SW_len, SW_lit0, SW_lit1, SW_rangeOf, SW_setIndex, decE_elem, SW_Interface, heap_get, heap_set,
      slH, selfH, anysH, elemH, rv0H, $ts,*])

section loops
variable (c : Conv) (v : GoVal) (st : Store1)
local notation "W" => sliceWorld c v st

/-- the locals of a typed case, once `result` exists (object `a` of the heap) -/
def envT (a : Nat) : GoIR.Env := [("result", anysH a), ("val", slH), ("v", goH)]

theorem fill_body (f k : Nat) (e : GoVal) (he : (elemsOf v)[k]? = some e) (h : Heap) (hp : AHeap) (cell : List GoVal)
    (hk : k < cell.length) :
    execBlock W (f + 5) fillBody ⟨("v", elemH k) :: ("i", .int k) :: envT hp.length, h, hp ++ [cell]⟩ =
      some (.next, ⟨("v", elemH k) :: ("i", .int k) :: envT hp.length, h, hp ++ [cell.set k e]⟩) := by
  tssimp [fillBody, envT, he, hk]

theorem fill_loop (f : Nat) (h : Heap) (hp : AHeap) :
    ∀ (m k : Nat), k + m = (elemsOf v).length →
      loopPairs W (m + f + 6) "i" "v" (pairsFrom k m) fillBody
          ⟨envT hp.length, h, hp ++ [(elemsOf v).take k ++ List.replicate m .nil]⟩ =
        some (.next, ⟨envT hp.length, h, hp ++ [elemsOf v]⟩) := by
  intro m
  induction m with
  | zero =>
    intro k hk
    simp only [Nat.add_zero] at hk
    simp [pairsFrom, loopPairs_nil, hk]
  | succ m ih =>
    intro k hk
    have hlt : k < (elemsOf v).length := by omega
    have he : (elemsOf v)[k]? = some (elemsOf v)[k] := List.getElem?_eq_getElem hlt
    rw [show m + 1 + f + 6 = (m + f + 6) + 1 from by omega]
    simp only [pairsFrom, loopPairs_cons]
    simp only [Env.push, show ("i" == "_") = false from by decide, show ("v" == "_") = false from by decide, Bool.false_eq_true, if_false]
    rw [show m + f + 6 = (m + f + 1) + 5 from by omega,
      fill_body c v st (m + f + 1) k _ he h hp _ (by simp; omega)]
    simp only [popSt, Env.popTo, envT, List.length_cons, List.length_nil]
    simp only [show 0 + 1 + 1 + 1 + 1 + 1 - (0 + 1 + 1 + 1) = 2 from rfl, List.drop_succ_cons, List.drop_zero]
    rw [fill_set _ _ _ _ he]
    have ih' := ih (k + 1) (by omega)
    simp only [envT] at ih'
    rw [show m + f + 1 + 5 = m + f + 6 from by omega]
    exact ih'

theorem typed_body (f : Nat) (h : Heap) (hp : AHeap) :
    execBlock W ((elemsOf v).length + f + 12) typedBody ⟨[("val", slH), ("v", goH)], h, hp⟩ =
      some (.ret [anysH hp.length], ⟨envT hp.length, h, hp ++ [elemsOf v]⟩) := by
  have hl := fill_loop c v st (f + 3) h hp (elemsOf v).length 0 (by omega)
  rw [show (elemsOf v).length + (f + 3) + 6 = (elemsOf v).length + f + 9 from by omega] at hl
  simp only [List.take_zero, List.nil_append, envT, fillBody, slH, anysH, goH] at hl
  tssimp [typedBody, envT, fillBody, hl]

/-- the locals of the reflection branch, once `result` exists -/
def envR (a : Nat) : GoIR.Env := [("result", anysH a), ("rv", rvH), ("val", goH), ("v", goH)]

theorem refl_cond (f k a : Nat) (h : Heap) (hp : AHeap) (hk : dynKind v = .slice) :
    evalExpr W (f + 5) reflCond ⟨("i", .int k) :: envR a, h, hp⟩ =
      some ([.bool (decide (k < (elemsOf v).length))], ⟨("i", .int k) :: envR a, h, hp⟩) := by
  tssimp [reflCond, envR, SW_Len c v st _ _ _ hk]

theorem refl_body (f k : Nat) (e : GoVal) (he : (elemsOf v)[k]? = some e) (hlt : k < (elemsOf v).length) (h : Heap) (hp : AHeap)
    (cell : List GoVal) (hc : k < cell.length) (hk : dynKind v = .slice) :
    execBlock W (f + 8) reflFill ⟨("i", .int k) :: envR hp.length, h, hp ++ [cell]⟩ =
      some (.next, ⟨("i", .int k) :: envR hp.length, h, hp ++ [cell.set k e]⟩) := by
  tssimp [reflFill, envR, SW_Index c v st _ k _ _ hk hlt, he, hc]

theorem refl_post (f k : Nat) (h : Heap) (hp : AHeap) (a : Nat) :
    execBlock W (f + 3) reflPost ⟨("i", .int k) :: envR a, h, hp⟩ = some (.next, ⟨("i", .int (k + 1 : Nat)) :: envR a, h, hp⟩) := by
  tssimp [reflPost, envR]

theorem refl_loop (f : Nat) (h : Heap) (hp : AHeap) (hk : dynKind v = .slice) :
    ∀ (m k : Nat), k + m = (elemsOf v).length →
      loopFor W (m + f + 9) reflCond reflPost reflFill
          ⟨("i", .int k) :: envR hp.length, h, hp ++ [(elemsOf v).take k ++ List.replicate m .nil]⟩ =
        some (.next, ⟨("i", .int (elemsOf v).length) :: envR hp.length, h, hp ++ [elemsOf v]⟩) := by
  intro m
  induction m with
  | zero =>
    intro k hkm
    simp only [Nat.add_zero] at hkm
    rw [show 0 + f + 9 = (f + 3 + 5) + 1 from by omega, loopFor_succ, refl_cond c v st _ _ _ _ _ hk]
    simp [hkm]
  | succ m ih =>
    intro k hkm
    have hlt : k < (elemsOf v).length := by omega
    have he : (elemsOf v)[k]? = some (elemsOf v)[k] := List.getElem?_eq_getElem hlt
    rw [show m + 1 + f + 9 = (m + f + 4 + 5) + 1 from by omega, loopFor_succ, refl_cond c v st _ _ _ _ _ hk]
    simp only [hlt, decide_true]
    rw [show m + f + 4 + 5 = (m + f + 1) + 8 from by omega,
      refl_body c v st _ k _ he hlt h hp _ (by simp; omega) hk]
    simp only [popSt, Env.popTo, envR, List.length_cons, List.length_nil, Nat.sub_self, List.drop_zero]
    have hp' := refl_post c v st (m + f + 6) k h (hp ++ [((elemsOf v).take k ++ List.replicate (m + 1) GoVal.nil).set k (elemsOf v)[k]]) hp.length
    simp only [envR] at hp'
    rw [show m + f + 1 + 8 = m + f + 6 + 3 from by omega, hp']
    simp only []
    rw [fill_set _ _ _ _ he]
    have ih' := ih (k + 1) (by omega)
    simp only [envR] at ih'
    rw [show m + f + 6 + 3 = m + f + 9 from by omega]
    exact ih'

theorem default_slice (f : Nat) (h : Heap) (hp : AHeap) (hk : dynKind v = .slice) :
    execBlock W ((elemsOf v).length + f + 16) defaultBody ⟨[("val", goH), ("v", goH)], h, hp⟩ =
      some (.ret [anysH hp.length], ⟨[("rv", rvH), ("val", goH), ("v", goH)], h, hp ++ [elemsOf v]⟩) := by
  have hl := refl_loop c v st (f + 1) h hp hk (elemsOf v).length 0 (by omega)
  rw [show (elemsOf v).length + (f + 1) + 9 = (elemsOf v).length + f + 10 from by omega] at hl
  simp only [List.take_zero, List.nil_append, envR, reflFill, reflCond, reflPost, rvH, anysH, goH, Int.natCast_zero] at hl
  tssimp [defaultBody, reflThen, reflFill, reflCond, reflPost, envR, hk, kindCode, SW_Len c v st _ _ _ hk, hl]

theorem default_other (f : Nat) (h : Heap) (hp : AHeap) (hk : ¬ dynKind v = .slice) :
    execBlock W (f + 10) defaultBody ⟨[("val", goH), ("v", goH)], h, hp⟩ =
      some (.ret [anysH hp.length], ⟨[("rv", rvH), ("val", goH), ("v", goH)], h, hp ++ [[v]]⟩) := by
  have hk' : (dynKind v == .slice) = false := by simpa using hk
  tssimp [defaultBody, hk, hk']
end loops

section main
variable (c : Conv) (v : GoVal) (st : Store1)
local notation "W" => sliceWorld c v st

theorem SW_assert_anys (n : Nat) (hp : AHeap) : (W).assert (.ref "go" n) "[]any" hp = assertS v tAnys selfH := rfl
theorem SW_assert_strings (n : Nat) (hp : AHeap) : (W).assert (.ref "go" n) "[]string" hp = assertS v tStrings slH := rfl
theorem SW_assert_ints (n : Nat) (hp : AHeap) : (W).assert (.ref "go" n) "[]int" hp = assertS v tInts slH := rfl
theorem SW_assert_floats (n : Nat) (hp : AHeap) : (W).assert (.ref "go" n) "[]float64" hp = assertS v tFloat64s slH := rfl
theorem SW_assert_maps (n : Nat) (hp : AHeap) : (W).assert (.ref "go" n) "[]map[string]any" hp = assertS v tMapSAs slH := rfl

theorem toSliceCall_nonslice {v : GoVal} (hn : v ≠ .nil) (hk : v.kind ≠ .slice) (hp : AHeap) :
    toSliceCall v hp = (anysH hp.length, hp ++ [[v]]) := by
  cases v <;> first | rfl | exact absurd rfl hn | exact absurd rfl hk

theorem toSliceCall_slice (t : GoType) (isNil : Bool) (elems : GoVals) (h0 : t ≠ tAnys) (hp : AHeap) :
    toSliceCall (.slice t isNil elems) hp = (anysH hp.length, hp ++ [sliceElems isNil elems]) := by
  simp [toSliceCall, assertAnys, h0, alloc, toSlice]

/-- `ToSlice` with its body cut into the named pieces -/
def ToSlice' : Func :=
  { name := "ToSlice", recv := "", params := ["v"], body := .cons nilCheck (.cons (.typeSwitch "val" (.var "v") typeCases) .nil) }
theorem ToSlice_eq : ToSlice = ToSlice' := rfl

/-- `ToSlice(v)`, every case of the type switch and the reflection fallback: the interpreted source does what `toSliceCall` says -/
theorem ToSlice_call_core (f : Nat) (hs : v.shapeOK = true) (h : Heap) (hp : AHeap) :
    callFunc W ((elemsOf v).length + f + 25) ToSlice [encV v] h hp = some ([(toSliceCall v hp).1], h, (toSliceCall v hp).2) := by
  rw [ToSlice_eq]
  by_cases hn : v = .nil
  · subst hn
    tssimp [ToSlice', nilCheck, encV, toSliceCall, assertAnys, toSlice, alloc]
  · rw [encV_of_ne hn]
    have hT1 := typed_body c v st (f + 8) h hp
    have hT2 := typed_body c v st (f + 7) h hp
    have hT3 := typed_body c v st (f + 6) h hp
    have hT4 := typed_body c v st (f + 5) h hp
    rw [show (elemsOf v).length + (f + 8) + 12 = (elemsOf v).length + f + 20 from by omega] at hT1
    rw [show (elemsOf v).length + (f + 7) + 12 = (elemsOf v).length + f + 19 from by omega] at hT2
    rw [show (elemsOf v).length + (f + 6) + 12 = (elemsOf v).length + f + 18 from by omega] at hT3
    rw [show (elemsOf v).length + (f + 5) + 12 = (elemsOf v).length + f + 17 from by omega] at hT4
    simp only [slH, goH, anysH, envT] at hT1 hT2 hT3 hT4
    by_cases hk : v.kind = .slice
    · have hd : dynKind v = .slice := by rw [dynKind_eq hs]; exact hk
      have hD := default_slice c v st f h hp hd
      simp only [rvH, goH, anysH] at hD
      cases v <;> simp [GoVal.kind] at hk
      rename_i t isNil elems
      by_cases h0 : t = tAnys
      · subst h0
        tssimp [ToSlice', nilCheck, typeCases, SW_assert_anys, assertS, GoVal.typeOf?, toSliceCall, assertAnys]
      · rw [toSliceCall_slice t isNil elems h0]
        simp only [elemsOf] at hT1 hT2 hT3 hT4 hD ⊢
        by_cases h1 : t = tStrings
        · subst h1
          tssimp [ToSlice', nilCheck, typeCases, SW_assert_anys, SW_assert_strings, assertS, GoVal.typeOf?, h0, hT1]
        · by_cases h2 : t = tInts
          · subst h2
            tssimp [ToSlice', nilCheck, typeCases, SW_assert_anys, SW_assert_strings, SW_assert_ints, assertS, GoVal.typeOf?, h0, h1, hT2]
          · by_cases h3 : t = tFloat64s
            · subst h3
              tssimp [ToSlice', nilCheck, typeCases, SW_assert_anys, SW_assert_strings, SW_assert_ints, SW_assert_floats, assertS,
                GoVal.typeOf?, h0, h1, h2, hT3]
            · by_cases h4 : t = tMapSAs
              · subst h4
                tssimp [ToSlice', nilCheck, typeCases, SW_assert_anys, SW_assert_strings, SW_assert_ints, SW_assert_floats, SW_assert_maps,
                  assertS, GoVal.typeOf?, h0, h1, h2, h3, hT4]
              · tssimp [ToSlice', nilCheck, typeCases, SW_assert_anys, SW_assert_strings, SW_assert_ints, SW_assert_floats, SW_assert_maps,
                  assertS, GoVal.typeOf?, h0, h1, h2, h3, h4, hD]
    · have hd : ¬ dynKind v = .slice := by rw [dynKind_eq hs]; exact hk
      have hD := default_other c v st ((elemsOf v).length + f + 6) h hp hd
      rw [show (elemsOf v).length + f + 6 + 10 = (elemsOf v).length + f + 16 from by omega] at hD
      simp only [rvH, goH, anysH] at hD
      rw [toSliceCall_nonslice hn hk]
      tssimp [ToSlice', nilCheck, typeCases, SW_assert_anys, SW_assert_strings, SW_assert_ints, SW_assert_floats, SW_assert_maps,
        assertS_nonslice v hs hk tAnys rfl, assertS_nonslice v hs hk tStrings rfl, assertS_nonslice v hs hk tInts rfl,
        assertS_nonslice v hs hk tFloat64s rfl, assertS_nonslice v hs hk tMapSAs rfl, hD]
end main

/-! ## reading the results back: the world's composite calls against the model -/

theorem toSlice_of_assert_none {v : GoVal} (h : assertAnys v = none) : toSlice v = some ((toSlice v).getD []) := by
  cases v <;> try rfl
  case slice t isNil elems =>
    by_cases h0 : t = tAnys
    · simp [assertAnys, h0] at h
    · simp [toSlice, h0]

theorem decS_anys (v : GoVal) (hp : AHeap) (l : List GoVal) : decS v (hp ++ [l]) (anysH hp.length) = some (some l) := by
  simp [decS, anysH]

/-- `ToSlice`'s result, read back, is the model's `toSlice` -/
theorem decS_toSliceCall (v : GoVal) (hp : AHeap) : decS v (toSliceCall v hp).2 (toSliceCall v hp).1 = some (toSlice v) := by
  unfold toSliceCall
  cases h : assertAnys v with
  | some s =>
    have := (assertAnys_eq v s h).2
    simp [decS, selfH, h, this]
  | none =>
    simp only [alloc, decS_anys]
    rw [← toSlice_of_assert_none h]

theorem toSliceCall_heap (v : GoVal) (hp : AHeap) : ∃ x, (toSliceCall v hp).2 = hp ++ x := by
  unfold toSliceCall
  cases assertAnys v with
  | some s => exact ⟨[], by simp⟩
  | none => exact ⟨_, rfl⟩

theorem decS_append {v : GoVal} {hp : AHeap} {g : GV} {s : SliceV} (h : decS v hp g = some s) (x : AHeap) :
    decS v (hp ++ x) g = some s := by
  unfold decS at h ⊢
  split at h
  · exact h
  · exact h
  · rename_i a
    cases ha : hp[a]? with
    | none => simp [ha] at h
    | some l =>
      have hlt : a < hp.length := (List.getElem?_eq_some_iff.1 ha).1
      simp only [ha, Option.map_some] at h
      simp [List.getElem?_append_left hlt, ha, ← h]
  · simp at h

theorem decS_encD (v : GoVal) (d : SliceV) : decS v (encD d).2 (encD d).1 = some d := by
  cases d <;> simp [encD, decS, anysH]

/-- `AsSlice`'s two results, read back, are the model's `asSlice` (in its closed form `asSlice_closed`) -/
theorem asSliceCall_dec (v : GoVal) (hp : AHeap) :
    ∃ g, (asSliceCall v hp).1 = [g, .bool (decide (v.kind = .slice))] ∧
      decS v (asSliceCall v hp).2 g = some (if v.kind = .slice then toSlice v else none) ∧ ∃ x, (asSliceCall v hp).2 = hp ++ x := by
  by_cases hn : v = .nil
  · subst hn; exact ⟨.nil, rfl, rfl, [], by simp [asSliceCall]⟩
  · rw [asSliceCall_ne hn]
    cases ha : assertAnys v with
    | some s =>
      obtain ⟨hk, ht⟩ := assertAnys_eq v s ha
      exact ⟨selfH, by simp [hk], by simp [decS, selfH, ha, hk, ht], [], by simp⟩
    | none =>
      by_cases hk : v.kind = .slice
      · exact ⟨(toSliceCall v hp).1, by simp [hk], by simp [hk, decS_toSliceCall], by simpa [hk] using toSliceCall_heap v hp⟩
      · exact ⟨.nil, by simp [hk], by simp [hk, decS], [], by simp [hk]⟩

/-- the closed form of the model's `getSliceOr` on the one-key store (`getSliceOr_of_get`) -/
def getClosed (held : Option GoVal) (d : SliceV) : SliceV :=
  match held with
  | none => d
  | some v => if v.kind = .slice then toSlice v else d

/-- `GetSliceOr`'s result, read back: the held slice converted, else the default -/
theorem getSliceOrCall_dec (held : Option GoVal) (dg : GV) (hp : AHeap) (d : SliceV) (hd : decS (held.getD .nil) hp dg = some d) :
    decS (held.getD .nil) (getSliceOrCall held dg hp).2 (getSliceOrCall held dg hp).1 = some (getClosed held d) := by
  cases held with
  | none => simpa [getSliceOrCall, getClosed] using hd
  | some v =>
    simp only [Option.getD_some, getClosed] at hd ⊢
    by_cases hn : v = .nil
    · subst hn; simpa [getSliceOrCall, GoVal.kind] using hd
    · rw [getSliceOrCall_ne hn]
      cases ha : assertAnys v with
      | some s =>
        obtain ⟨hk, ht⟩ := assertAnys_eq v s ha
        simp [decS, selfH, ha, hk, ht]
      | none =>
        by_cases hk : v.kind = .slice
        · simp [hk, decS_toSliceCall]
        · simpa [hk] using hd

/-! ## The headline statements: at every sufficient recursion depth (`…_of_le`) and at the depth `F = 60` of the executable test -/

/-- the recursion depth of the executable test (`GoIR/SliceTest.lean`) -/
def F : Nat := 60

theorem exists_add {K fuel : Nat} (h : K ≤ fuel) : ∃ k, fuel = k + K := ⟨fuel - K, by omega⟩

/-- **`ToSlice`** — all six branches (`[]any`, `[]string`, `[]int`, `[]float64`, `[]map[string]any`, reflection / single item) -/
theorem ToSlice_refines_of_le (c : Conv) (v : GoVal) (hs : v.shapeOK = true) (fuel : Nat) (h : (elemsOf v).length + 25 ≤ fuel) :
    runToSlice fuel ToSlice c v = some (toSlice v) := by
  obtain ⟨k, rfl⟩ : ∃ k, fuel = (elemsOf v).length + k + 25 := ⟨fuel - (elemsOf v).length - 25, by omega⟩
  unfold runToSlice
  rw [ToSlice_call_core c v ⟨none⟩ k hs]
  simp [decS_toSliceCall]

theorem ToSlice_refines (c : Conv) (v : GoVal) (hs : v.shapeOK = true) (hl : (elemsOf v).length ≤ 35) :
    runToSlice F ToSlice c v = some (toSlice v) :=
  ToSlice_refines_of_le c v hs F (by unfold F; omega)

/-- the same as a statement about the WORLD CALL `ToSlice(x)` that `AsSlice` / `GetSliceOr` use: from every heap, in every
    `sliceWorld`, the interpreted source returns the value and leaves the heap that the world's `call "ToSlice"` does -/
theorem ToSlice_call_refines_of_le (c : Conv) (v : GoVal) (st : Store1) (hs : v.shapeOK = true) (hn : v ≠ .nil) (h : Heap) (hp : AHeap)
    (fuel : Nat) (hf : (elemsOf v).length + 25 ≤ fuel) :
    callFunc (sliceWorld c v st) fuel ToSlice [goH] h hp = (sliceWorld c v st).call "ToSlice" [goH] h hp := by
  obtain ⟨k, rfl⟩ : ∃ k, fuel = (elemsOf v).length + k + 25 := ⟨fuel - (elemsOf v).length - 25, by omega⟩
  have := ToSlice_call_core c v st k hs h hp
  rw [encV_of_ne hn] at this
  rw [this]; rfl

/-- **`Result.AsSlice`**: nil ↦ `(nil, false)`; a `[]any` ↦ itself; a value whose kind is not `reflect.Slice` ↦ `(nil, false)`;
    any other slice ↦ `(ToSlice(v), true)` -/
theorem Result_AsSlice_refines_of_le (c : Conv) (v : GoVal) (hs : v.shapeOK = true) (fuel : Nat) (h : 12 ≤ fuel) :
    runAsSlice fuel Result_AsSlice c v = (match asSlice v with | .panic => none | .ok r => some r) := by
  obtain ⟨k, rfl⟩ := exists_add h
  unfold runAsSlice
  rw [AsSlice_call_core k c v ⟨none⟩ hs, asSlice_closed]
  obtain ⟨g, e, hd, _⟩ := asSliceCall_dec v []
  by_cases hk : v.kind = .slice <;> simp [e, hd, hk]

theorem Result_AsSlice_refines (c : Conv) (v : GoVal) (hs : v.shapeOK = true) :
    runAsSlice F Result_AsSlice c v = (match asSlice v with | .panic => none | .ok r => some r) :=
  Result_AsSlice_refines_of_le c v hs F (by decide)

/-- the world call `r.AsSlice()` of `AsSliceOr` / `MustSlice` is what the interpreted `AsSlice` does -/
theorem AsSlice_call_refines_of_le (c : Conv) (v : GoVal) (st : Store1) (hs : v.shapeOK = true) (h : Heap) (hp : AHeap)
    (fuel : Nat) (hf : 12 ≤ fuel) :
    callFunc (sliceWorld c v st) fuel Result_AsSlice [rH] h hp = (sliceWorld c v st).mcall rH "AsSlice" [] h hp := by
  obtain ⟨k, rfl⟩ := exists_add hf
  rw [AsSlice_call_core k c v st hs h hp]; rfl

/-- **`Result.AsSliceOr`**, every default (`none` = the nil slice) -/
theorem Result_AsSliceOr_refines_of_le (c : Conv) (v : GoVal) (d : SliceV) (fuel : Nat) (h : 8 ≤ fuel) :
    runResultSl fuel Result_AsSliceOr c v (some d) = (match asSliceOr v d with | .panic => none | .ok s => some s) := by
  obtain ⟨k, rfl⟩ := exists_add h
  unfold runResultSl
  simp only []
  rw [AsSliceOr_call_core k c v ⟨none⟩ (encD d).1 [] (encD d).2, asSliceOr_closed]
  obtain ⟨g, e, hd, x, hx⟩ := asSliceCall_dec v (encD d).2
  by_cases hk : v.kind = .slice
  · simp [e, hk, orPick, hd]
  · simp only [e, hk, orPick, decide_false, Option.bind_some, if_false]
    rw [hx]
    exact decS_append (decS_encD v d) x

theorem Result_AsSliceOr_refines (c : Conv) (v : GoVal) (d : SliceV) :
    runResultSl F Result_AsSliceOr c v (some d) = (match asSliceOr v d with | .panic => none | .ok s => some s) :=
  Result_AsSliceOr_refines_of_le c v d F (by decide)

/-- **`Result.MustSlice`** (`panic` is stuck: `none`) -/
theorem Result_MustSlice_refines_of_le (c : Conv) (v : GoVal) (fuel : Nat) (h : 12 ≤ fuel) :
    runResultSl fuel Result_MustSlice c v none = (match mustSlice v with | .panic => none | .ok s => some s) := by
  obtain ⟨k, rfl⟩ := exists_add h
  unfold runResultSl
  simp only []
  rw [MustSlice_call_core k c v ⟨none⟩ [] [], mustSlice_closed]
  obtain ⟨g, e, hd, _⟩ := asSliceCall_dec v []
  by_cases hk : v.kind = .slice <;> simp [e, hk, hd]

theorem Result_MustSlice_refines (c : Conv) (v : GoVal) :
    runResultSl F Result_MustSlice c v none = (match mustSlice v with | .panic => none | .ok s => some s) :=
  Result_MustSlice_refines_of_le c v F (by decide)

theorem getSliceOr_storeOf (held : Option GoVal) (d : SliceV) :
    getSliceOr (storeOf held) "k" d = .ok (getClosed held d) := by
  cases held with
  | none => rfl
  | some v => exact getSliceOr_of_get _ _ v d (lookup_k v)

/-- **`SharedStore.GetSliceOr`**: absent key (`held = none`) and held value, every default -/
theorem SharedStore_GetSliceOr_refines_of_le (c : Conv) (held : Option GoVal) (hs : (held.getD .nil).shapeOK = true) (d : SliceV)
    (fuel : Nat) (h : 12 ≤ fuel) :
    runStoreSl fuel SharedStore_GetSliceOr c held (some d) =
      (match getSliceOr (storeOf held) "k" d with | .panic => none | .ok s => some s) := by
  obtain ⟨k, rfl⟩ := exists_add h
  unfold runStoreSl
  simp only []
  rw [GetSliceOr_call_core k c held hs (.str "k") (encD d).1 [] (encD d).2, getSliceOr_storeOf]
  simp [getSliceOrCall_dec held _ _ d (decS_encD _ d)]

theorem SharedStore_GetSliceOr_refines (c : Conv) (held : Option GoVal) (hs : (held.getD .nil).shapeOK = true) (d : SliceV) :
    runStoreSl F SharedStore_GetSliceOr c held (some d) =
      (match getSliceOr (storeOf held) "k" d with | .panic => none | .ok s => some s) :=
  SharedStore_GetSliceOr_refines_of_le c held hs d F (by decide)

/-- the world call `s.GetSliceOr(key, d)` of `GetSlice` is what the interpreted `GetSliceOr` does -/
theorem GetSliceOr_call_refines_of_le (c : Conv) (held : Option GoVal) (hs : (held.getD .nil).shapeOK = true) (k dg : GV)
    (h : Heap) (hp : AHeap) (fuel : Nat) (hf : 12 ≤ fuel) :
    callFunc (sliceWorld c (held.getD .nil) ⟨held⟩) fuel SharedStore_GetSliceOr [sH, k, dg] h hp =
      (sliceWorld c (held.getD .nil) ⟨held⟩).mcall sH "GetSliceOr" [k, dg] h hp := by
  obtain ⟨j, rfl⟩ := exists_add hf
  rw [GetSliceOr_call_core j c held hs k dg h hp]; rfl

/-- **`SharedStore.GetSlice`** -/
theorem SharedStore_GetSlice_refines_of_le (c : Conv) (held : Option GoVal) (fuel : Nat) (h : 8 ≤ fuel) :
    runStoreSl fuel SharedStore_GetSlice c held none =
      (match getSlice (storeOf held) "k" with | .panic => none | .ok s => some s) := by
  obtain ⟨k, rfl⟩ := exists_add h
  unfold runStoreSl
  simp only []
  rw [GetSlice_call_core k c (held.getD .nil) ⟨held⟩ (.str "k") [] []]
  have hm : getSlice (storeOf held) "k" = getSliceOr (storeOf held) "k" none := rfl
  rw [hm, getSliceOr_storeOf]
  simp [getSliceOrCall_dec held .nil [] none rfl]

theorem SharedStore_GetSlice_refines (c : Conv) (held : Option GoVal) :
    runStoreSl F SharedStore_GetSlice c held none =
      (match getSlice (storeOf held) "k" with | .panic => none | .ok s => some s) :=
  SharedStore_GetSlice_refines_of_le c held F (by decide)

/-! ## the hypothesis `shapeOK`

`v.shapeOK`: the kind of the dynamic type is the kind of the representation (top level only; nothing is asked of the elements, and
a nil slice may even carry elements — the header decides). Every well-formed value has it (`wf_shapeOK`), so the theorems hold of
every `v.wf`. It is needed because the WORLD answers assertions and `reflect.Kind` from the dynamic type and the MODEL pattern-matches
on the representation; where the two differ, so do the answers. -/

theorem ToSlice_refines_of_wf (c : Conv) (v : GoVal) (hw : v.wf = true) (fuel : Nat) (h : (elemsOf v).length + 25 ≤ fuel) :
    runToSlice fuel ToSlice c v = some (toSlice v) := ToSlice_refines_of_le c v (wf_shapeOK v hw) fuel h
theorem Result_AsSlice_refines_of_wf (c : Conv) (v : GoVal) (hw : v.wf = true) (fuel : Nat) (h : 12 ≤ fuel) :
    runAsSlice fuel Result_AsSlice c v = (match asSlice v with | .panic => none | .ok r => some r) :=
  Result_AsSlice_refines_of_le c v (wf_shapeOK v hw) fuel h

/-- satisfiable: a named slice type (reflection branch), a NaN, a typed nil pointer, an array -/
example : (GoVal.slice (.named "MyInts" tInts) false (.cons (.int (.basic .int) 1) .nil)).wf = true
    ∧ (GoVal.slice (.named "MyInts" tInts) false (.cons (.int (.basic .int) 1) .nil)).shapeOK = true
    ∧ (GoVal.float (.basic .float64) 9221120237041090561).shapeOK = true
    ∧ (GoVal.ptr (.ptr tInts) none).shapeOK = true
    ∧ (GoVal.array (.array 1 tInts) (.cons (.slice tInts true .nil) .nil)).shapeOK = true
    -- not well-formed (a nil slice with an element) and still covered
    ∧ (GoVal.slice tInts true (.cons (.int (.basic .int) 1) .nil)).wf = false
    ∧ (GoVal.slice tInts true (.cons (.int (.basic .int) 1) .nil)).shapeOK = true := by decide

/-- an excluded point: a value whose dynamic type says `[]int` and whose representation is an integer (no Go value is like that).
    The model looks at the representation — not a slice: `(nil, false)`, `ToSlice` wraps it. The interpreted source asks the type —
    kind `reflect.Slice`: `AsSlice` goes on to `ToSlice` and answers `([v], true)`; the interpreted `ToSlice` itself is stuck in
    `case []int` (the world has no elements to offer). -/
theorem excluded_point :
    (GoVal.int tInts 5).shapeOK = false
    ∧ asSlice (.int tInts 5) = .ok (none, false)
    ∧ runAsSlice F Result_AsSlice ⟨fun _ _ => none, id, fun _ => 0⟩ (.int tInts 5) = some (some [.int tInts 5], true)
    ∧ toSlice (.int tInts 5) = some [.int tInts 5]
    ∧ runToSlice F ToSlice ⟨fun _ _ => none, id, fun _ => 0⟩ (.int tInts 5) = none := by decide

end Flyt.Refine.Slices

#print axioms Flyt.Refine.Slices.ToSlice_refines_of_le
#print axioms Flyt.Refine.Slices.ToSlice_call_refines_of_le
#print axioms Flyt.Refine.Slices.Result_AsSlice_refines_of_le
#print axioms Flyt.Refine.Slices.AsSlice_call_refines_of_le
#print axioms Flyt.Refine.Slices.Result_AsSliceOr_refines_of_le
#print axioms Flyt.Refine.Slices.Result_MustSlice_refines_of_le
#print axioms Flyt.Refine.Slices.SharedStore_GetSliceOr_refines_of_le
#print axioms Flyt.Refine.Slices.GetSliceOr_call_refines_of_le
#print axioms Flyt.Refine.Slices.SharedStore_GetSlice_refines_of_le
#print axioms Flyt.Refine.Slices.excluded_point
