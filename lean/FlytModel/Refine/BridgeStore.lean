import FlytModel.Refine.Store
import FlytModel.Props.C13
import FlytModel.Props.C14
/-!
# Bridge: C13 (linearizability under the `RWMutex`) and C14 (map behaviour, snapshot isolation) for the INTERPRETED source of `SharedStore`

`Props/C13.lean` proves linearizability for EVERY operation `StoreConc.Op S L` (a lock mode, a body of micro-steps, the obligation that
a reader's micro-steps do not change the shared state) under the transition system of `Model/StoreConc.lean`; it names no store method.
`Props/C14.lean` is about the hand-written heap machine `Store.step`. `Refine/Store.lean` proves, per method, what the interpreted Go
source computes (state, answer) and which lock events it performs. This file joins them.

## part 1 — C13
* `Call` — the nine methods as the transition system sees them; `Call.op c : StoreConc.Op KV Resp` — lock mode, micro-steps (a writer:
  ONE micro-step per traced write — `Set`, `Delete`, `Clear` one, `Merge(m)` one per entry; a reader: one), the purity obligation.
  The shared state of the transition system is `KV`, the CONTENT of the map object `s.data` points to: that is what `s.mu` protects.
  (It cannot be the whole heap `Store.St`: `GetAll` / `Keys` allocate the object they return, so on the heap they are not pure; the
  object is the caller's — the thread-local result `Resp` here.) `Call.apply c` is the atomic effect; `Call.op_effect`: running the body
  is that effect.
* `SourceIs enum fuel f args s mop c` — "the interpreted method `f`, called with `args` in heap state `s`, IS the operation `c`":
  (a) the run is not stuck, returns the answer of `Store.step s mop` and reaches its state, and its lock trace is
      `lock m, deferUnlock m, acc, unlock m` with `m = (Call.op c).mode`, `acc` holding exactly `(Call.op c).body.length` writes if `m = W`
      and none if `m = R` (the refinement theorems of `Refine/Store.lean`);
  (b) the sequential effect `runBody (Call.op c).body` on the protected map is `Store.step`'s effect on it, and yields its answer.
* `source_ops_are_model_ops` — (a) and (b) for all nine methods, `merge_nil_is_no_operation` for `Merge(nil)` (no lock, no access).
* `C13_for_interpreted_source` — the theorems of `Props/C13.lean` for histories of such operations, the legal sequential history spelled
  out with `Call.apply`.

## part 2 — C14
* `srcStep` / `srcRun` / `srcScenario` — a scenario (`List Store.Op`, as in `Props/C14.lean`) run against the interpreted source: every
  store method by `runStore`, the answer read off the returned values (`decResp`: a returned reference is dereferenced in the heap
  after the call), the caller registering the object `GetAll` / `Keys` hand out. What the CALLER does to its own objects (`snapSet`,
  `snapDel`, `keysRepl`, `readSnap`, `readKeys`, allocating the literal of `mergeLit`) is not flyt source: those steps are Go's map /
  slice statements on caller-owned objects and are taken from `Store.step`.
* every step carries the order `en : KV → KV` in which the Go runtime happens to enumerate the map that call ranges over.
  - `C14_for_interpreted_source` — with the orders for which `Refine/Store.lean` proves EXACT equality (`exactOrder`: list order for
    `Keys`, reverse list order for `GetAll` / `Merge`): answers and final state are `Store.run St.init ops` / `Store.exec St.init ops`,
    literally; hence every theorem of `Props/C14.lean` holds of them (the headline ones are restated).
  - `C14_for_interpreted_source_anyorder` — with ANY orders that permute: the answers satisfy the property predicate `Spec.Store.c14`
    (which judges `Keys` / `GetAll` answers as sets), the final state satisfies the isolation invariant and denotes the plain map of
    `Spec/Store.lean`.
-/
namespace Flyt.Refine.Bridges
open Flyt Flyt.GoIR Flyt.Store Flyt.GoIR.StoreW Flyt.Expected.IR Flyt.Refine Flyt.Refine.Store
open Flyt.StoreConc (Mode runBody)
set_option linter.unusedSimpArgs false

/-! ## part 1: the operations the interpreted source performs -/

/-- a call of one of the nine methods, with the arguments as far as they matter under the lock: `getAll` / `keys` carry the order in
    which the runtime enumerates `s.data`, `merge l` the entries of the argument map in the order in which the source writes them -/
inductive Call
  | get (k : Key)
  | has (k : Key)
  | len
  | getAll (en : KV → KV)
  | keys (en : KV → KV)
  | set (k : Key) (v : Val)
  | delete (k : Key)
  | clear
  | merge (l : KV)

/-- the atomic effect of a call on the protected map, and its answer -/
def Call.apply : Call → KV → KV × Resp
  | .get k, m => (m, .got ((lookup k m).getD Val.nil) (lookup k m).isSome)
  | .has k, m => (m, .bool (lookup k m).isSome)
  | .len, m => (m, .nat m.length)
  | .getAll en, m => (m, .map (mergeInto [] (en m).reverse))
  | .keys en, m => (m, .keys (keysOf (en m)))
  | .set k v, m => (put m k v, .unit)
  | .delete k, m => (erase k m, .unit)
  | .clear, _ => ([], .unit)
  | .merge l, m => (mergeInto m l.reverse, .unit)

/-- a reader: one micro-step that computes the answer and leaves the map alone -/
def readOp (f : KV → Resp) : StoreConc.Op KV Resp :=
  { mode := .R, body := [fun m _ => (m, f m)], init := .junk,
    pure := by intro _ mi hm s l; simp only [List.mem_singleton] at hm; subst hm; rfl }

/-- a writer with ONE write -/
def writeOp (f : KV → KV) : StoreConc.Op KV Resp :=
  { mode := .W, body := [fun m _ => (f m, .unit)], init := .junk, pure := by intro h; cases h }

/-- `Merge(m)`: one micro-step `s.data[k] = v` per entry, in the order `l`; any thread may move between two of them -/
def mergeOp (l : KV) : StoreConc.Op KV Resp :=
  { mode := .W, body := l.map fun p => fun m r => (put m p.1 p.2, r), init := .unit, pure := by intro h; cases h }

/-- the operation of `Model/StoreConc.lean` a call is -/
def Call.op : Call → StoreConc.Op KV Resp
  | .get k => readOp fun m => .got ((lookup k m).getD Val.nil) (lookup k m).isSome
  | .has k => readOp fun m => .bool (lookup k m).isSome
  | .len => readOp fun m => .nat m.length
  | .getAll en => readOp fun m => .map (mergeInto [] (en m).reverse)
  | .keys en => readOp fun m => .keys (keysOf (en m))
  | .set k v => writeOp fun m => put m k v
  | .delete k => writeOp fun m => erase k m
  | .clear => writeOp fun _ => []
  | .merge l => mergeOp l

theorem runBody_merge (l : KV) (m : KV) (r : Resp) :
    runBody (mergeOp l).body m r = (putAll m l, r) := by
  induction l generalizing m with
  | nil => rfl
  | cons p t ih =>
    simp only [mergeOp, List.map_cons, StoreConc.runBody_cons] at ih ⊢
    rw [ih]; rfl

/-- **the sequential effect of the operation is the atomic effect of the call** -/
theorem Call.op_effect (c : Call) (m : KV) : runBody c.op.body m c.op.init = c.apply m := by
  cases c with
  | merge l => simp only [Call.op, Call.apply, runBody_merge, putAll_eq_mergeInto]; rfl
  | _ => rfl

/-- the lock modes: the five reading methods take the read lock, the four writing ones the write lock -/
theorem Call.mode_eq (c : Call) :
    c.op.mode = (match c with | .get _ | .has _ | .len | .getAll _ | .keys _ => Mode.R | _ => Mode.W) := by
  cases c <;> rfl

/-- **"the interpreted method `f`, called with `args` in the heap state `s`, is the operation `c`"** (`mop`: the step of the hand model
    it is compared with). (a) the run of the interpreter, (b) the transition system's reading of the operation. -/
def SourceIs (enum : KV → KV) (fuel : Nat) (f : Func) (args : List GV) (s : St) (mop : Store.Op) (c : Call) : Prop :=
  (∃ acc, runStore enum fuel f args s =
        some (encResp (step s mop).1 (step s mop).2, withHandles (step s mop).1 s,
          [.lock c.op.mode, .deferUnlock c.op.mode] ++ acc ++ [.unlock c.op.mode]) ∧
      acc.count .write = (if c.op.mode = .W then c.op.body.length else 0) ∧ (∀ e ∈ acc, e = .read ∨ e = .write)) ∧
  runBody c.op.body s.cur c.op.init = ((step s mop).1.cur, (step s mop).2)

theorem cur_alloc (s : St) (hwf : WF s) (c : KV) (sn : List Nat) :
    ({ s with maps := s.maps ++ [c], snaps := sn } : St).cur = s.cur := by
  simp only [St.cur, St.deref]; exact getD_append_lt _ _ _ _ hwf

private theorem count_writes (n : Nat) : (List.replicate n LockEv.write).count .write = n := List.count_replicate_self ..

private theorem mem_writes {n : Nat} {e : LockEv} (h : e ∈ List.replicate n LockEv.write) : e = .read ∨ e = .write :=
  .inr (List.eq_of_mem_replicate h)

/-- **Every one of the nine methods of the interpreted source is the operation `Call.op` of the transition system**: it locks in the
    mode `(Call.op c).mode` (first event of the proved trace; the matching unlock is the last), performs its writes between the two (as
    many as the operation has micro-steps; a reader none), returns the answer and reaches the state of `Store.step` — and the
    operation's sequential effect `runBody` on the protected map is `Store.step`'s. For every well-formed heap state (`WF s`: `s.data` is
    a live object; `Clear` needs not even that), every key, every value, every sufficient fuel; every enumeration order for the six
    methods without a loop, the order that reproduces the model's list for `GetAll`, `Keys`, `Merge` (`hen`; for other orders see
    `source_ops_anyorder`). -/
theorem source_ops_are_model_ops (enum : KV → KV) (s : St) (hwf : WF s) :
    (∀ k fuel, 8 ≤ fuel → SourceIs enum fuel SharedStore_Get [storeRef, .str k] s (.get k) (.get k)) ∧
    (∀ k fuel, 7 ≤ fuel → SourceIs enum fuel SharedStore_Has [storeRef, .str k] s (.has k) (.has k)) ∧
    (∀ fuel, 9 ≤ fuel → SourceIs enum fuel SharedStore_Len [storeRef] s .len .len) ∧
    (∀ fuel, (enum s.cur).reverse = s.cur → s.cur.length + 10 ≤ fuel →
        SourceIs enum fuel SharedStore_GetAll [storeRef] s .getAll (.getAll enum)) ∧
    (∀ fuel, enum s.cur = s.cur → s.cur.length + 11 ≤ fuel → SourceIs enum fuel SharedStore_Keys [storeRef] s .keys (.keys enum)) ∧
    (∀ k (g : GV) fuel, 6 ≤ fuel → SourceIs enum fuel SharedStore_Set [storeRef, .str k, g] s (.set k g.toVal) (.set k g.toVal)) ∧
    (∀ k fuel, 8 ≤ fuel → SourceIs enum fuel SharedStore_Delete [storeRef, .str k] s (.delete k) (.delete k)) ∧
    (∀ fuel, 6 ≤ fuel → SourceIs enum fuel SharedStore_Clear [storeRef] s .clear .clear) ∧
    (∀ j r fuel, s.snaps[j]? = some r → r < s.maps.length → (enum (s.deref r)).reverse = s.deref r → (s.deref r).length + 9 ≤ fuel →
        SourceIs enum fuel SharedStore_Merge [storeRef, .ref "map" r] s (.mergeSnap j) (.merge (enum (s.deref r)))) := by
  have hd : s.data < s.maps.length := hwf
  refine ⟨?_, ?_, ?_, ?_, ?_, ?_, ?_, ?_, ?_⟩
  · intro k fuel hf
    exact ⟨⟨[], SharedStore_Get_refines_of_le enum s k hwf fuel hf, rfl, by simp⟩, rfl⟩
  · intro k fuel hf
    exact ⟨⟨[], SharedStore_Has_refines_of_le enum s k hwf fuel hf, rfl, by simp⟩, rfl⟩
  · intro fuel hf
    exact ⟨⟨[.read], SharedStore_Len_refines_of_le enum s hwf fuel hf, rfl, by simp⟩, rfl⟩
  · intro fuel hen hf
    refine ⟨⟨[.read], SharedStore_GetAll_refines_of_le enum s hwf hen fuel hf, rfl, by simp⟩, ?_⟩
    rw [Call.op_effect]
    simp only [Call.apply, step, hen, cur_alloc s hwf]
  · intro fuel hen hf
    refine ⟨⟨[.read], SharedStore_Keys_refines_of_le enum s hwf hen fuel hf, rfl, by simp⟩, ?_⟩
    rw [Call.op_effect]
    simp only [Call.apply, step, hen]
    rfl
  · intro k g fuel hf
    refine ⟨⟨[.write], SharedStore_Set_refines_of_le enum s k g hwf fuel hf, rfl, by simp⟩, ?_⟩
    rw [Call.op_effect]
    simp only [Call.apply, step, cur_write_data _ _ hd]
  · intro k fuel hf
    refine ⟨⟨[.write], SharedStore_Delete_refines_of_le enum s k hwf fuel hf, rfl, by simp⟩, ?_⟩
    rw [Call.op_effect]
    simp only [Call.apply, step, cur_write_data _ _ hd]
  · intro fuel hf
    refine ⟨⟨[.write], SharedStore_Clear_refines_of_le enum s fuel hf, rfl, by simp⟩, ?_⟩
    rw [Call.op_effect]
    simp [Call.apply, step, St.cur, St.deref, getD_append_len]
  · intro j r fuel hj hr hen hf
    have hlen : (enum (s.deref r)).length = (s.deref r).length := by simpa using congrArg List.length hen
    refine ⟨⟨List.replicate (s.deref r).length .write, SharedStore_Merge_refines_of_le enum s j r hwf hj hr hen fuel hf, ?_,
      fun e he => mem_writes he⟩, ?_⟩
    · simp [Call.op, mergeOp, count_writes, hlen]
    · rw [Call.op_effect]
      simp only [Call.apply, step, hj, hen, cur_write_data _ _ hd]

/-- `Merge(nil)` is not an operation of the transition system at all: it takes no lock, touches nothing, changes nothing (in every
    heap state, well-formed or not) -/
theorem merge_nil_is_no_operation (enum : KV → KV) (s : St) (fuel : Nat) (hf : 4 ≤ fuel) :
    runStore enum fuel SharedStore_Merge [storeRef, .nil] s = some ([], s, []) := by
  rw [SharedStore_Merge_nil_refines_of_le enum s fuel hf]
  cases s; rfl

/-- **… for EVERY enumeration order** (`Go` does not specify one): the three methods with a loop lock in the same mode, perform the
    same number of writes, and are the operations `Call.getAll enum` / `Call.keys enum` / `Call.merge (enum m)` — whose answers differ
    from the model's only in the order of a list (`Refine/Store.lean`: `…_anyorder_of_le`). `StoreConc.Op` and the theorems of
    `Props/C13.lean` do not care which list it is. -/
theorem source_ops_anyorder (enum : KV → KV) (s : St) (hwf : WF s) :
    (∀ fuel, (enum s.cur).length + 10 ≤ fuel →
      runStore enum fuel SharedStore_GetAll [storeRef] s =
        some ([.ref "map" s.maps.length], { s with maps := s.maps ++ [mergeInto [] (enum s.cur).reverse] },
          [.lock (Call.getAll enum).op.mode, .deferUnlock (Call.getAll enum).op.mode, .read, .unlock (Call.getAll enum).op.mode]) ∧
      (Call.getAll enum).apply s.cur = (s.cur, .map (mergeInto [] (enum s.cur).reverse))) ∧
    (∀ fuel, (enum s.cur).length + 11 ≤ fuel →
      runStore enum fuel SharedStore_Keys [storeRef] s =
        some ([.ref "strs" s.slices.length], { s with slices := s.slices ++ [keysOf (enum s.cur)] },
          [.lock (Call.keys enum).op.mode, .deferUnlock (Call.keys enum).op.mode, .read, .unlock (Call.keys enum).op.mode]) ∧
      (Call.keys enum).apply s.cur = (s.cur, .keys (keysOf (enum s.cur)))) ∧
    (∀ r fuel, r < s.maps.length → (enum (s.deref r)).length + 9 ≤ fuel →
      runStore enum fuel SharedStore_Merge [storeRef, .ref "map" r] s =
        some ([], s.write s.data ((Call.merge (enum (s.deref r))).apply s.cur).1,
          [.lock (Call.merge (enum (s.deref r))).op.mode, .deferUnlock (Call.merge (enum (s.deref r))).op.mode] ++
            List.replicate (Call.merge (enum (s.deref r))).op.body.length .write ++ [.unlock (Call.merge (enum (s.deref r))).op.mode])) :=
  ⟨fun fuel hf => ⟨SharedStore_GetAll_general_of_le enum s hwf fuel hf, rfl⟩,
   fun fuel hf => ⟨SharedStore_Keys_general_of_le enum s hwf fuel hf, rfl⟩,
   fun r fuel hr hf => by
    rw [SharedStore_Merge_general_of_le enum s r hwf hr fuel hf]
    simp [Call.op, mergeOp, Call.apply]⟩

/-! ### sequential histories of calls -/

def seqExec (m : KV) : List Call → KV
  | [] => m
  | c :: cs => seqExec (c.apply m).1 cs

def seqRun (m : KV) : List Call → List Resp
  | [] => []
  | c :: cs => (c.apply m).2 :: seqRun (c.apply m).1 cs

theorem seqExec_append (m : KV) (a b : List Call) : seqExec m (a ++ b) = seqExec (seqExec m a) b := by
  induction a generalizing m with
  | nil => rfl
  | cons c t ih => exact ih _

theorem seqRun_append (m : KV) (a b : List Call) : seqRun m (a ++ b) = seqRun m a ++ seqRun (seqExec m a) b := by
  induction a generalizing m with
  | nil => rfl
  | cons c t ih => simp only [List.cons_append, seqRun, seqExec, ih]

/-- a legal history (`Proofs/StoreConc.lean`) all of whose operations are calls of the source is the sequential run of those calls -/
theorem legal_of_calls {m0 : KV} {log : List (StoreConc.Op KV Resp × Resp)} {g : KV} (h : StoreConc.Legal m0 log g)
    (hsrc : ∀ p ∈ log, ∃ c : Call, p.1 = c.op) :
    ∃ cs : List Call, log.map (·.1) = cs.map Call.op ∧ log.map (·.2) = seqRun m0 cs ∧ g = seqExec m0 cs := by
  induction h with
  | nil => exact ⟨[], rfl, rfl, rfl⟩
  | @snoc log g op hL ih =>
    obtain ⟨cs, h1, h2, h3⟩ := ih (fun p hp => hsrc p (List.mem_append_left _ hp))
    obtain ⟨c, hc⟩ := hsrc (op, (runBody op.body g op.init).2) (List.mem_append_right _ (List.mem_singleton.2 rfl))
    simp only at hc
    subst hc
    refine ⟨cs ++ [c], ?_, ?_, ?_⟩
    · simp [h1]
    · rw [List.map_append, h2, seqRun_append, ← h3, Call.op_effect]; rfl
    · rw [seqExec_append, ← h3, Call.op_effect]; rfl

/-- **C13 for the operations the interpreted source performs.**

    *About the RUNTIME* — `hrt`: `σ` is a state of the transition system of `Model/StoreConc.lean` started with all threads idle on the
    map `m0`: any number of goroutines, each `idle → waiting op → inside op … → done`; `acquireW` is enabled only when nobody is inside,
    `acquireR` only when no writer is inside — these two guards ARE the semantics of `sync.RWMutex` assumed here; between two
    micro-steps of one goroutine any other may move (the scheduler); a micro-step (one map read / one map write under the lock) is
    atomic.
    *About the SOURCE* — `hsrc`: the operations linearised so far are calls of the nine methods, `Call.op c`; that the interpreted source
    of each method locks in the mode `(Call.op c).mode`, makes its writes inside, and has the effect `Call.apply c` is
    `source_ops_are_model_ops` (`Call.op_effect`), proved, not assumed.

    Then, in `σ`, for every interleaving: the order of the lock acquisitions is a sequential history `cs` of method calls — each applied
    atomically (`Call.apply`) to the map its predecessors left, each promised the answer of that atomic application, the ghost map `σ.g`
    the result of all of them; every completed call returned exactly the answer promised at its acquisition; whenever no writer is
    inside the real map is the ghost map; a writer inside (a `Merge` half done, a `Clear`) is alone — nobody observes a partial update;
    and a reader inside will return what it was promised whatever anybody does meanwhile. -/
theorem C13_for_interpreted_source {m0 : KV} {σ : StoreConc.Sys KV Resp} (hrt : Props.C13.Reachable m0 σ)
    (hsrc : ∀ p ∈ σ.lin, ∃ c : Call, p.1 = c.op) :
    (∃ cs : List Call, σ.lin.map (·.1) = cs.map Call.op ∧ σ.lin.map (·.2) = seqRun m0 cs ∧ σ.g = seqExec m0 cs) ∧
    (∀ t l p, σ.th t = .done l p → l = p) ∧
    (¬ σ.writerInside → σ.s = σ.g) ∧
    (∀ t op r l p, σ.th t = .inside op r l p → op.mode = .W → ∀ u, u ≠ t → ∀ op' r' l' p', σ.th u ≠ .inside op' r' l' p') ∧
    (∀ t op r l p, σ.th t = .inside op r l p → op.mode = .R → (runBody r σ.s l).2 = p) :=
  have hl := Props.C13.linearizable hrt
  have hp := Props.C13.no_partial_observation hrt
  ⟨legal_of_calls hl.1 hsrc, hl.2.1, hl.2.2, hp.1, hp.2⟩

/-- non-vacuity: a reachable state in which a three-entry `Merge` of the source is inside its critical section (two of its three
    writes still to come), linearised, with `hsrc` true -/
example : ∃ σ : StoreConc.Sys KV Resp, Props.C13.Reachable [] σ ∧ σ.writerInside ∧ σ.lin ≠ [] ∧ (∀ p ∈ σ.lin, ∃ c : Call, p.1 = c.op) ∧
    σ.s = [("a", .tok 1)] ∧ σ.g = [("c", .tok 3), ("b", .tok 2), ("a", .tok 1)] := by
  let mg : Call := .merge [("a", .tok 1), ("b", .tok 2), ("c", .tok 3)]
  have r1 : Props.C13.Reachable ([] : KV) _ := .step .init (StoreConc.Step.invoke (Props.C13.initSys []) 0 mg.op rfl)
  have r2 : Props.C13.Reachable ([] : KV) _ := .step r1 (StoreConc.Step.acquireW _ 0 mg.op (by simp [StoreConc.upd]) rfl
    (by
      rintro ⟨u, op, r, l, p, hu⟩
      by_cases h0 : u = 0
      · subst h0; simp [StoreConc.upd] at hu
      · simp [StoreConc.upd, h0, Props.C13.initSys] at hu))
  have r3 : Props.C13.Reachable ([] : KV) _ := .step r2 (StoreConc.Step.micro _ 0 mg.op (fun m r => (put m "a" (.tok 1), r))
    [fun m r => (put m "b" (.tok 2), r), fun m r => (put m "c" (.tok 3), r)] .unit (runBody mg.op.body [] mg.op.init).2 rfl)
  refine ⟨_, r3, ⟨0, mg.op, _, _, _, rfl, rfl⟩, by simp, ?_, by decide, by decide⟩
  intro p hp
  simp only [Props.C13.initSys, List.nil_append, List.mem_singleton] at hp
  exact ⟨mg, by rw [hp]⟩

/-! ## part 2: scenarios run against the interpreted source -/

/-- the answer a caller reads off the values a method returned; a returned reference is dereferenced in the heap `st` after the call
    (the Go driver ranges over the returned map / slice) -/
def decResp (st : St) : List GV → Resp
  | [] => .unit
  | [v, .bool ok] => .got v.toVal ok
  | [.bool b] => .bool b
  | [.int n] => .nat n.toNat
  | [.ref "map" r] => .map (st.deref r)
  | [.ref "strs" r] => .keys (st.derefSlice r)
  | _ => .junk

/-- the caller keeps the map a call returned as its newest handle -/
def regMap (st : St) : List GV → St
  | [.ref "map" r] => { st with snaps := st.snaps ++ [r] }
  | _ => st

/-- the caller keeps the keys slice a call returned as its newest handle -/
def regStrs (st : St) : List GV → St
  | [.ref "strs" r] => { st with ksnaps := st.ksnaps ++ [r] }
  | _ => st

/-- one method call by the interpreter: the decoded answer, the heap afterwards (with what the caller registers) -/
def callM (en : KV → KV) (fuel : Nat) (f : Func) (args : List GV) (s : St) (reg : St → List GV → St := fun st _ => st) :
    Option (Resp × St) :=
  (runStore en fuel f args s).map fun r => (decResp r.2.1 r.1, reg r.2.1 r.1)

/-- **one step of a scenario against the interpreted source**; `en` is the order in which the runtime enumerates the map this call
    ranges over (`s.data` for `GetAll` / `Keys`, the argument for `Merge`). The last line: what the caller does to its own objects. -/
def srcStep (fuel : Nat) (en : KV → KV) (s : St) : Store.Op → Option (Resp × St)
  | .get k => callM en fuel SharedStore_Get [storeRef, .str k] s
  | .set k v => callM en fuel SharedStore_Set [storeRef, .str k, GV.ofVal v] s
  | .getAll => callM en fuel SharedStore_GetAll [storeRef] s regMap
  | .mergeNil => callM en fuel SharedStore_Merge [storeRef, .nil] s
  | .mergeLit l =>
    -- `m := map[string]any{…}` is the caller's; the caller keeps it
    callM en fuel SharedStore_Merge [storeRef, .ref "map" s.maps.length]
      { s with maps := s.maps ++ [mergeInto [] l], snaps := s.snaps ++ [s.maps.length] }
  | .mergeSnap j =>
    match s.snaps[j]? with
    | none => some (.noHandle, s)
    | some r => callM en fuel SharedStore_Merge [storeRef, .ref "map" r] s
  | .has k => callM en fuel SharedStore_Has [storeRef, .str k] s
  | .delete k => callM en fuel SharedStore_Delete [storeRef, .str k] s
  | .clear => callM en fuel SharedStore_Clear [storeRef] s
  | .keys => callM en fuel SharedStore_Keys [storeRef] s regStrs
  | .len => callM en fuel SharedStore_Len [storeRef] s
  | op => some ((step s op).2, (step s op).1)

def srcRun (fuel : Nat) (s : St) : List (Store.Op × (KV → KV)) → Option (List Resp × St)
  | [] => some ([], s)
  | (op, en) :: rest =>
    match srcStep fuel en s op with
    | some (r, s1) => (srcRun fuel s1 rest).map fun x => (r :: x.1, x.2)
    | none => none

/-- the whole scenario: `NewSharedStore()` by the interpreter on the empty heap, then the steps -/
def srcScenario (fuel : Nat) (steps : List (Store.Op × (KV → KV))) : Option (List Resp × St) :=
  (runStore id fuel NewSharedStore [] emptyHeap).bind fun r => srcRun fuel r.2.1 steps

/-- what a step yields, explicitly, as a function of the enumeration order -/
def srcPost (en : KV → KV) (s : St) : Store.Op → Resp × St
  | .getAll =>
    (.map (mergeInto [] (en s.cur).reverse),
      { s with maps := s.maps ++ [mergeInto [] (en s.cur).reverse], snaps := s.snaps ++ [s.maps.length] })
  | .keys =>
    (.keys (keysOf (en s.cur)), { s with slices := s.slices ++ [keysOf (en s.cur)], ksnaps := s.ksnaps ++ [s.slices.length] })
  | .mergeSnap j =>
    match s.snaps[j]? with
    | none => (.noHandle, s)
    | some r => (.unit, s.write s.data (mergeInto s.cur (en (s.deref r)).reverse))
  | .mergeLit l =>
    let s1 : St := { s with maps := s.maps ++ [mergeInto [] l], snaps := s.snaps ++ [s.maps.length] }
    (.unit, s1.write s1.data (mergeInto s1.cur (en (mergeInto [] l)).reverse))
  | op => ((step s op).2, (step s op).1)

/-- a recursion depth of the interpreter that suffices for the step -/
def needFuel (en : KV → KV) (s : St) : Store.Op → Nat
  | .getAll => (en s.cur).length + 10
  | .keys => (en s.cur).length + 11
  | .mergeSnap j => (en (s.deref ((s.snaps[j]?).getD 0))).length + 9
  | .mergeLit l => (en (mergeInto [] l)).length + 9
  | _ => 9

theorem withHandles_id (s : St) : withHandles s s = s := by cases s; rfl

theorem srcStep_eq (fuel : Nat) (en : KV → KV) (s : St) (hiso : Iso s) (op : Store.Op) (hf : needFuel en s op ≤ fuel) :
    srcStep fuel en s op = some (srcPost en s op) := by
  have hwf : WF s := hiso.data_lt
  cases op with
  | get k =>
    simp only [srcStep, callM, SharedStore_Get_refines_of_le en s k hwf fuel (by simp only [needFuel] at hf; omega)]
    simp [srcPost, step, encResp, decResp, withHandles_id, toVal_ofVal]
  | set k v =>
    simp only [srcStep, callM, SharedStore_Set_refines_of_le_val en s k v hwf fuel (by simp only [needFuel] at hf; omega)]
    simp [srcPost, step, encResp, decResp, withHandles, St.write]
  | has k =>
    simp only [srcStep, callM, SharedStore_Has_refines_of_le en s k hwf fuel (by simp only [needFuel] at hf; omega)]
    simp [srcPost, step, encResp, decResp, withHandles_id]
  | len =>
    simp only [srcStep, callM, SharedStore_Len_refines_of_le en s hwf fuel (by simp only [needFuel] at hf; omega)]
    simp [srcPost, step, encResp, decResp, withHandles_id]
  | delete k =>
    simp only [srcStep, callM, SharedStore_Delete_refines_of_le en s k hwf fuel (by simp only [needFuel] at hf; omega)]
    simp [srcPost, step, encResp, decResp, withHandles, St.write]
  | clear =>
    simp only [srcStep, callM, SharedStore_Clear_refines_of_le en s fuel (by simp only [needFuel] at hf; omega)]
    simp [srcPost, step, encResp, decResp, withHandles]
  | mergeNil =>
    simp only [srcStep, callM, SharedStore_Merge_nil_refines_of_le en s fuel (by simp only [needFuel] at hf; omega)]
    simp [srcPost, step, encResp, decResp, withHandles_id]
  | getAll =>
    simp only [srcStep, callM, SharedStore_GetAll_general_of_le en s hwf fuel (by simpa only [needFuel] using hf)]
    simp [srcPost, decResp, regMap, St.deref, getD_append_len]
  | keys =>
    simp only [srcStep, callM, SharedStore_Keys_general_of_le en s hwf fuel (by simpa only [needFuel] using hf)]
    simp [srcPost, decResp, regStrs, St.derefSlice, getD_append_len]
  | mergeSnap j =>
    cases hj : s.snaps[j]? with
    | none => simp [srcStep, srcPost, hj]
    | some r =>
      have hr : r < s.maps.length := handle_live hiso hj
      simp only [needFuel, hj, Option.getD_some] at hf
      simp only [srcStep, srcPost, hj, callM, SharedStore_Merge_general_of_le en s r hwf hr fuel hf]
      simp [decResp]
  | mergeLit l =>
    have hwf1 : WF ({ s with maps := s.maps ++ [mergeInto [] l], snaps := s.snaps ++ [s.maps.length] } : St) := by
      show s.data < (s.maps ++ [mergeInto [] l]).length
      have : s.data < s.maps.length := hwf
      simp; omega
    have hd1 : ({ s with maps := s.maps ++ [mergeInto [] l], snaps := s.snaps ++ [s.maps.length] } : St).deref s.maps.length
        = mergeInto [] l := by simp [St.deref, getD_append_len]
    simp only [needFuel] at hf
    simp only [srcStep, srcPost, callM]
    rw [SharedStore_Merge_general_of_le en _ s.maps.length hwf1 (by simp) fuel (by rw [hd1]; exact hf), hd1]
    simp [decResp]
  | snapSet j k v => rfl
  | snapDel j k => rfl
  | keysRepl j o n => rfl
  | readSnap j => rfl
  | readKeys j => rfl

/-! ### the orders for which the lists are the model's -/

/-- list order for `Keys`, reverse list order for `GetAll` / `Merge` (`Refine/Store.lean`, "iteration order") -/
def exactOrder : Store.Op → KV → KV
  | .keys => id
  | _ => List.reverse

theorem srcPost_exact (s : St) (op : Store.Op) : srcPost (exactOrder op) s op = ((step s op).2, (step s op).1) := by
  cases op with
  | mergeSnap j => simp only [srcPost, step, exactOrder, List.reverse_reverse]; cases s.snaps[j]? <;> rfl
  | mergeLit l =>
    simp only [srcPost, step, exactOrder, List.reverse_reverse, St.cur, St.deref, getD_append_len]
  | _ => simp [srcPost, step, exactOrder]

def withExact (ops : List Store.Op) : List (Store.Op × (KV → KV)) := ops.map fun op => (op, exactOrder op)

/-- a recursion depth that suffices for the whole scenario (it grows with the largest map ranged over) -/
def needRun (s : St) : List Store.Op → Nat
  | [] => 0
  | op :: t => max (needFuel (exactOrder op) s op) (needRun (step s op).1 t)

theorem srcRun_exact (fuel : Nat) (ops : List Store.Op) : ∀ (s : St), Iso s → needRun s ops ≤ fuel →
    srcRun fuel s (withExact ops) = some (run s ops, exec s ops) := by
  induction ops with
  | nil => intro s _ _; rfl
  | cons op t ih =>
    intro s hiso hf
    simp only [needRun, Nat.max_le] at hf
    simp only [withExact, List.map_cons, srcRun, srcStep_eq fuel _ s hiso op hf.1, srcPost_exact]
    have := ih (step s op).1 (iso_step hiso op) hf.2
    simp only [withExact] at this
    rw [this]; rfl

/-- **C14 for the interpreted source, exact form.** `NewSharedStore()` and then ANY sequence of steps — store methods run by the
    interpreter on the translated source, interleaved in any way with the caller's own mutations of the objects it was handed — with
    the enumeration orders `exactOrder`, at any sufficient recursion depth: the answers are `Store.run St.init ops` and the final heap is
    `Store.exec St.init ops`, literally. Hence (the theorems of `Props/C14.lean`, restated for the run of the source): the answers satisfy
    the property predicate `c14`; they are the answers of the machine in which every handed-out object is an independent VALUE; the
    final heap satisfies the isolation invariant; the store denotes the plain map of `Spec/Store.lean`. -/
theorem C14_for_interpreted_source (ops : List Store.Op) (fuel : Nat) (hf : max 8 (needRun St.init ops) ≤ fuel) :
    ∃ resps st, srcScenario fuel (withExact ops) = some (resps, st) ∧
      resps = run St.init ops ∧ st = exec St.init ops ∧
      Spec.Store.c14 ops resps = true ∧
      resps = vrun VSt.init ops ∧ st.view = vexec VSt.init ops ∧
      Iso st ∧
      (∀ k, abs st k = (Spec.Store.fexec Spec.Store.FSt.init ops).cur.f k) := by
  rw [Nat.max_le] at hf
  refine ⟨run St.init ops, exec St.init ops, ?_, rfl, rfl, Props.C14.c14_holds ops,
    (Props.C14.heap_machine_is_value_machine ops).1, (Props.C14.heap_machine_is_value_machine ops).2,
    Props.C14.isolation_invariant ops, Props.C14.abs_is_plain_map ops⟩
  simp only [srcScenario, NewSharedStore_refines_of_le id fuel hf.1, Option.bind_some]
  exact srcRun_exact fuel ops St.init iso_init hf.2

/-- non-vacuity: a scenario with a snapshot, a caller-side mutation of it, a literal, a `Clear`, a `Merge` of the mutated snapshot,
    run by the interpreter at depth 40 (`decide` evaluates the interpreter) -/
example : (srcScenario 40 (withExact [.set "a" (.tok 1), .getAll, .snapSet 0 "a" (.tok 2), .get "a", .mergeLit [("b", .tok 3)], .keys,
      .clear, .len, .mergeSnap 0, .get "a", .readKeys 0])).map (·.1) =
    some [.unit, .map [("a", .tok 1)], .unit, .got (.tok 1) true, .unit, .keys ["b", "a"], .unit, .nat 0, .unit, .got (.tok 2) true,
      .keys ["b", "a"]] := by
  have h := C14_for_interpreted_source [.set "a" (.tok 1), .getAll, .snapSet 0 "a" (.tok 2), .get "a", .mergeLit [("b", .tok 3)], .keys,
      .clear, .len, .mergeSnap 0, .get "a", .readKeys 0] 40 (by decide)
  obtain ⟨resps, st, h1, rfl, rfl, _⟩ := h
  rw [h1]; decide

/-! ### every enumeration order that permutes -/
open Flyt.Spec.Store in
/-- the same map, listed in another order -/
theorem sim_perm {a b : KV} {F : FMap} (hp : b.Perm a) (h : Sim a F) : Sim b F :=
  ⟨fun k => (mapEq_of_perm hp h.nd k).trans (h.look k), h.wf, nodupKeys_perm hp h.nd⟩

theorem iso_allocMap {s : St} (h : Iso s) (c : KV) :
    Iso { s with maps := s.maps ++ [c], snaps := s.snaps ++ [s.maps.length] } := by
  obtain ⟨h1, h2, h3, h4, h5, h6⟩ := h
  refine ⟨by simp; omega, ?_, ?_, nodup_append_fresh _ _ h2 h4, h5, h6⟩
  · intro r hr
    simp only [List.mem_append, List.mem_singleton, List.length_append, List.length_cons, List.length_nil] at hr ⊢
    rcases hr with hr | hr
    · have := h2 r hr; omega
    · omega
  · intro r hr
    simp only [List.mem_append, List.mem_singleton] at hr ⊢
    rcases hr with hr | hr
    · exact h3 r hr
    · omega

theorem view_allocMap {s : St} (h : Iso s) (c : KV) :
    ({ s with maps := s.maps ++ [c], snaps := s.snaps ++ [s.maps.length] } : St).view =
      { s.view with snaps := s.view.snaps ++ [c] } := by
  refine VSt.eq_of ?_ ?_ rfl
  · simp only [St.view, St.cur, St.deref]
    exact getD_append_lt _ _ _ _ h.data_lt
  · simp only [St.view, St.cur, deref_fun, List.map_append, List.map_cons, List.map_nil]
    rw [map_append_alloc _ _ _ _ h.snaps_lt, getD_append_len]

theorem iso_allocStrs {s : St} (h : Iso s) (l : List Key) :
    Iso { s with slices := s.slices ++ [l], ksnaps := s.ksnaps ++ [s.slices.length] } := by
  obtain ⟨h1, h2, h3, h4, h5, h6⟩ := h
  refine ⟨h1, h2, h3, h4, ?_, nodup_append_fresh _ _ h5 h6⟩
  intro r hr
  simp only [List.mem_append, List.mem_singleton, List.length_append, List.length_cons, List.length_nil] at hr ⊢
  rcases hr with hr | hr
  · have := h5 r hr; omega
  · omega

theorem view_allocStrs {s : St} (h : Iso s) (l : List Key) :
    ({ s with slices := s.slices ++ [l], ksnaps := s.ksnaps ++ [s.slices.length] } : St).view =
      { s.view with ksnaps := s.view.ksnaps ++ [l] } := by
  refine VSt.eq_of rfl rfl ?_
  simp only [St.view, derefSlice_fun, List.map_append, List.map_cons, List.map_nil]
  rw [map_append_alloc _ _ _ _ h.ksnaps_lt, getD_append_len]

theorem iso_writeData {s : St} (h : Iso s) (m : KV) : Iso (s.write s.data m) := by
  obtain ⟨h1, h2, h3, h4, h5, h6⟩ := h
  exact ⟨by simpa [St.write] using h1, by simpa [St.write] using h2, h3, h4, h5, h6⟩

theorem view_writeData {s : St} (h : Iso s) (m : KV) : (s.write s.data m).view = { s.view with m := m } := by
  refine VSt.eq_of ?_ ?_ rfl
  · simp only [St.view, St.cur, deref_fun, St.write]
    exact getD_set_eq _ _ _ _ h.data_lt
  · simp only [St.view, St.cur, deref_fun, St.write]
    exact map_set_other _ _ _ _ _ h.snaps_ne

open Flyt.Spec.Store in
/-- **One step under ANY permuting order**: the answer is accepted by the reference (`respOK`, the step predicate of `c14`), the heap
    stays isolated, and its value view stays related to the reference state (`SimV`: every map the same MAP — same `lookup`, no key
    twice — as the reference's function). -/
theorem srcPost_sim (en : KV → KV) (hperm : ∀ m, (en m).Perm m) {s : St} (hiso : Iso s) {fs : FSt} {ks : List (List Key)}
    (h : SimV s.view fs ks) (op : Store.Op) :
    respOK fs ks op (srcPost en s op).1 = true ∧ Iso (srcPost en s op).2 ∧
      SimV (srcPost en s op).2.view (fstep fs op) (ksStep ks op (srcPost en s op).1) := by
  have hdefault : srcPost en s op = ((step s op).2, (step s op).1) →
      respOK fs ks op (srcPost en s op).1 = true ∧ Iso (srcPost en s op).2 ∧
        SimV (srcPost en s op).2.view (fstep fs op) (ksStep ks op (srcPost en s op).1) := by
    intro he
    rw [he]
    have hv := step_view hiso op
    have hs := simV_step h op
    simp only
    rw [hv.1, hv.2]
    exact ⟨hs.1, iso_step hiso op, hs.2⟩
  have hrev : ∀ m, ((en m).reverse).Perm m := fun m => (List.reverse_perm _).trans (hperm m)
  have hcur : Sim s.cur fs.cur := h.cur
  cases op with
  | getAll =>
    have hc : Sim (mergeInto [] (en s.cur).reverse) fs.cur := sim_copy (sim_perm (hrev _) hcur)
    refine ⟨by simp only [srcPost, respOK]; exact sim_mapOK hc, iso_allocMap hiso _, ?_⟩
    simp only [srcPost, view_allocMap hiso, fstep, ksStep]
    exact ⟨hcur, by simp [h.len], simV_push h hc, h.ks⟩
  | keys =>
    have hc : Sim (en s.cur) fs.cur := sim_perm (hperm _) hcur
    refine ⟨by simp only [srcPost, respOK]; exact sim_keysOK hc, iso_allocStrs hiso _, ?_⟩
    simp only [srcPost, view_allocStrs hiso, fstep, ksStep]
    exact ⟨hcur, h.len, h.snaps, by simp [h.ks]⟩
  | mergeSnap j =>
    have hlen : s.snaps.length = fs.snaps.length := by simpa [St.view] using h.len
    cases hj : s.snaps[j]? with
    | none =>
      have hlt : ¬ j < fs.snaps.length := by
        intro hlt; rw [← hlen] at hlt; rw [List.getElem?_eq_getElem hlt] at hj; cases hj
      have hf : fs.snaps[j]? = none := List.getElem?_eq_none (by omega)
      simp only [srcPost, hj, respOK, fstep, ksStep, hf, if_neg hlt]
      exact ⟨by simp, hiso, h⟩
    | some r =>
      have hlt : j < fs.snaps.length := by
        rw [← hlen]; apply Classical.byContradiction; intro hn
        rw [List.getElem?_eq_none (by omega)] at hj; cases hj
      have hv : s.view.snaps[j]? = some (s.deref r) := by rw [view_snaps_getElem?, hj]; rfl
      have hF : fs.snaps[j]? = some fs.snaps[j] := List.getElem?_eq_getElem hlt
      have ha : Sim (s.deref r) fs.snaps[j] := h.snaps j _ _ hv hF
      simp only [srcPost, hj, respOK, fstep, ksStep, hF, if_pos hlt, view_writeData hiso]
      exact ⟨by simp, iso_writeData hiso _, ⟨sim_merge hcur (sim_perm (hrev _) ha), h.len, h.snaps, h.ks⟩⟩
  | mergeLit l =>
    have hiso1 := iso_allocMap hiso (mergeInto [] l)
    have hv1 := view_allocMap hiso (mergeInto [] l)
    have hcur1 : ({ s with maps := s.maps ++ [mergeInto [] l], snaps := s.snaps ++ [s.maps.length] } : St).cur = s.cur :=
      cur_alloc s hiso.data_lt _ _
    have ha : Sim (mergeInto [] l) (FMap.ofList l) := sim_ofList l
    simp only [srcPost, respOK, fstep, ksStep, hcur1]
    refine ⟨by simp, iso_writeData hiso1 _, ?_⟩
    have hw := view_writeData hiso1 (mergeInto s.cur (en (mergeInto [] l)).reverse)
    simp only at hw
    rw [hw, hv1]
    exact ⟨sim_merge hcur (sim_perm (hrev _) ha), by simp [h.len], simV_push h ha, h.ks⟩
  | get k => exact hdefault rfl
  | set k v => exact hdefault rfl
  | mergeNil => exact hdefault rfl
  | has k => exact hdefault rfl
  | delete k => exact hdefault rfl
  | clear => exact hdefault rfl
  | len => exact hdefault rfl
  | snapSet j k v => exact hdefault rfl
  | snapDel j k => exact hdefault rfl
  | keysRepl j o n => exact hdefault rfl
  | readSnap j => exact hdefault rfl
  | readKeys j => exact hdefault rfl

open Flyt.Spec.Store in
theorem srcRun_anyorder (steps : List (Store.Op × (KV → KV))) (hperm : ∀ p ∈ steps, ∀ m, (p.2 m).Perm m) :
    ∀ (s : St) (fs : FSt) (ks : List (List Key)), Iso s → SimV s.view fs ks →
      ∃ F, ∀ fuel, F ≤ fuel → ∃ resps st, srcRun fuel s steps = some (resps, st) ∧
        check fs ks (steps.map (·.1)) resps = true ∧ Iso st ∧ ∃ ks', SimV st.view (fexec fs (steps.map (·.1))) ks' := by
  induction steps with
  | nil => intro s fs ks hiso h; exact ⟨0, fun _ _ => ⟨[], s, rfl, rfl, hiso, ks, h⟩⟩
  | cons p t ih =>
    obtain ⟨op, en⟩ := p
    intro s fs ks hiso h
    have hp : ∀ m, (en m).Perm m := hperm (op, en) List.mem_cons_self
    obtain ⟨h1, h2, h3⟩ := srcPost_sim en hp hiso h op
    obtain ⟨F, hF⟩ := ih (fun q hq => hperm q (List.mem_cons_of_mem _ hq)) _ _ _ h2 h3
    refine ⟨max (needFuel en s op) F, fun fuel hf => ?_⟩
    rw [Nat.max_le] at hf
    obtain ⟨resps, st, hr, hc, hi, hk⟩ := hF fuel hf.2
    refine ⟨(srcPost en s op).1 :: resps, st, ?_, ?_, hi, hk⟩
    · simp only [srcRun, srcStep_eq fuel en s hiso op hf.1, hr]; rfl
    · simp only [List.map_cons, check, Bool.and_eq_true]; exact ⟨h1, hc⟩

open Flyt.Spec.Store in
/-- **C14 for the interpreted source, for EVERY enumeration order.** Every step may come with its own order `en`, any function that
    permutes the entries of the map that call ranges over (what Go's randomised `range` does; `hperm`). Then, at every sufficient
    recursion depth: the run is not stuck; its answers satisfy the property predicate `c14` — the predicate the driver evaluates on the
    Go implementation's answers: they are the answers of a plain map, `Keys` / `GetAll` judged as sets, every handed-out object
    independent of the store and of every other one; the final heap satisfies the isolation invariant; and the store denotes the plain
    map `fexec` of `Spec/Store.lean`. (The lists themselves depend on the orders; under `exactOrder` they are the model's:
    `C14_for_interpreted_source`.) -/
theorem C14_for_interpreted_source_anyorder (steps : List (Store.Op × (KV → KV))) (hperm : ∀ p ∈ steps, ∀ m, (p.2 m).Perm m) :
    ∃ F, ∀ fuel, F ≤ fuel → ∃ resps st, srcScenario fuel steps = some (resps, st) ∧
      c14 (steps.map (·.1)) resps = true ∧ Iso st ∧
      (∀ k, abs st k = (fexec FSt.init (steps.map (·.1))).cur.f k) := by
  obtain ⟨F, hF⟩ := srcRun_anyorder steps hperm St.init FSt.init [] iso_init (by rw [view_init]; exact simV_init)
  refine ⟨max 8 F, fun fuel hf => ?_⟩
  rw [Nat.max_le] at hf
  obtain ⟨resps, st, hr, hc, hi, ks', hk⟩ := hF fuel hf.2
  refine ⟨resps, st, ?_, hc, hi, fun k => hk.cur.look k⟩
  simp only [srcScenario, NewSharedStore_refines_of_le id fuel hf.1, Option.bind_some]
  exact hr

/-- non-vacuity: `hperm` holds of the orders of the exact form, and of a rotation -/
example : ∀ p ∈ withExact [.set "a" (.tok 1), .getAll, .keys], ∀ m, (p.2 m).Perm m := by
  intro p hp m
  simp only [withExact, List.map_cons, List.map_nil, List.mem_cons, List.not_mem_nil, or_false] at hp
  rcases hp with rfl | rfl | rfl
  · exact List.reverse_perm m
  · exact List.reverse_perm m
  · exact List.Perm.refl m
example : ∀ m : KV, (m.drop 1 ++ m.take 1).Perm m := fun m =>
  List.perm_append_comm.trans (by rw [List.take_append_drop])

end Flyt.Refine.Bridges
