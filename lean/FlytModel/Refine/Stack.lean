import FlytModel.GoIR.StackWorld
import FlytModel.Refine.WorldLe
import FlytModel.Refine.RunNode
import FlytModel.Proofs.ExampleEnv
/-!
# Discharging the layering: the full-stack interpretation of `Run` equals the model's `runNode`

`Run_refines_runLeaf`, `Run_refines_runNode_flow`, `Run_dispatches_to_runBatch`, `FlowExec_refines_flowLoop` are each stated in a
world that gives the CALLEE the meaning of the model function. Here they are composed (`GoIR/StackWorld.lean`: `deepRun`):

* `deepRun_eq_runNode` — for every arena, depth `k`, node, store, run state: if the model's `runNode env k` does not run out of fuel,
  `deepRun env k id sid st = some (runNode env k id sid st)` (events, run state incl. visit counters, outcome).
* the seams on their own: `deepExec_ok` / `FlowExec_over_interpreted_leaves` (`Flow.Exec` over interpreted nested `Run`s),
  `Run_over_interpreted_FlowExec` (`Run` over an interpreted `Flow.Exec`).

Proof: induction on `k`; at each seam the existing refinement theorem (at the fuel its `_of_le` / `_ge` form allows) plus the world
step `callFunc_le` of `Refine/WorldLe.lean`: the layered world is BELOW the stacked one (`WLeOn`) — wherever the layered world
defines a call (i.e. wherever the model function does not run out of fuel), the stacked world defines it with the same result, by the
induction hypothesis — on the world states whose ghost depth is within the range of the induction hypothesis (the invariant `mfuel ≤ k`,
preserved because the ghost depth only decreases). Plain extensionality of worlds (`funext`) would not do: where the model runs out of
fuel the layered world is undefined, while the interpretation may well be defined (e.g. a cancelled context is reported by the source
before any nested call), so the two worlds are not equal, only ordered.

Not covered: runs in which the model runs out of fuel (`Outcome.fuel`; nothing is claimed); `runBatch` below `Run`'s dispatch (stays the
model's `runBatch`, subject of `Refine/Batch.lean`); `Flow.Prep` / `Flow.Post` / the embedded `BaseNode`'s getters and fallback, which
`flowNodeWorld` gives directly (their sources are the subject of `Refine/FlowBuild.lean` and `Refine/Small.lean`) — only `node.Exec` and `Run` are re-interpreted.
-/
namespace Flyt.Refine.Stack
open Flyt Flyt.GoIR Flyt.Refine

/-- `R` is right (wherever the model does not run out of fuel) at every depth below `k` -/
def RunOK (env : Flyt.Env) (k : Nat) (R : Nat → RunFn) : Prop :=
  ∀ mf, mf < k → ∀ id sid st, (runNode env mf id sid st).2.2 ≠ .fuel → R mf id sid st = some (runNode env mf id sid st)

theorem flowWorld_call_le (env : Flyt.Env) (start : Option NodeId) (tbl : Table) (k : Nat) (R : Nat → RunFn)
    (hR : RunOK env k R) (fn : String) (args : List GV) (h : Heap) (w : FlowW) (r : List GV × Heap × FlowW)
    (hI : w.mfuel ≤ k) (hc : (flowWorld env start tbl).call fn args h w = some r) :
    runCallOver R fn args h w = some r ∧ r.2.2.mfuel ≤ k := by
  simp only [flowWorld] at hc
  split at hc
  · rename_i a id sh
    simp only [runCallOver]
    split at hc
    · rename_i sid mf hsid hmf
      simp only [hsid, hmf]
      have hlt : mf < k := by omega
      cases ho : (runNode env mf id sid w.st).2.2 with
      | fuel => simp [ho] at hc
      | both a e => simp [ho] at hc
      | ok a =>
        rw [hR mf hlt id sid w.st (by simp [ho])]
        simp only [ho] at hc ⊢
        cases hc
        exact ⟨rfl, by simp only; omega⟩
      | err e =>
        rw [hR mf hlt id sid w.st (by simp [ho])]
        simp only [ho] at hc ⊢
        cases hc
        exact ⟨rfl, by simp only; omega⟩
    · exact absurd hc (by simp)
  · exact absurd hc (by simp)

/-- **seam 1, the world step**: below depth `k`, the layered world of `Flow.Exec` is below the stacked one -/
theorem flowWorld_le (env : Flyt.Env) (start : Option NodeId) (tbl : Table) (k : Nat) (R : Nat → RunFn)
    (hR : RunOK env k R) :
    WLeOn (fun w : FlowW => w.mfuel ≤ k) (flowWorld env start tbl) (flowWorldOver env R start tbl) where
  call := fun fn args h w r hI hc => flowWorld_call_le env start tbl k R hR fn args h w r hI hc
  callVar := fun fn _ args h w r hI hc => flowWorld_call_le env start tbl k R hR fn args h w r hI hc
  mcall := by
    intro x m args h w r hI hc
    refine ⟨hc, ?_⟩
    simp only [flowWorld] at hc
    split at hc
    · split at hc
      · cases hc; exact hI
      · exact absurd hc (by simp)
    · exact absurd hc (by simp)
  assert := rfl
  field := rfl
  mapIndex := rfl
  global := rfl
  invokes := rfl
  readVar := rfl
  rangeOf := rfl
  select := rfl
  setField := rfl
  writeVar := rfl
  setIndex := rfl
  selectI := by intro c w r _ h; exact absurd h (by simp [flowWorld])
  setFieldI := by intro x f v w w' _ h; exact absurd h (by simp [flowWorld])
  writeVarI := by intro x v w w' _ h; exact absurd h (by simp [flowWorld])
  setIndexI := by intro m k' v w w' _ h; exact absurd h (by simp [flowWorld])

theorem flowExecIn_le {I : FlowW → Prop} {W1 W2 : World FlowW} (H : WLeOn I W1 W2) {fuel f fid mfuel sid st x}
    (hI : I ⟨[], st, mfuel⟩) (h : flowExecIn W1 fuel f fid mfuel sid st = some x) :
    flowExecIn W2 fuel f fid mfuel sid st = some x := by
  unfold flowExecIn at h ⊢
  cases hc : callFunc W1 fuel f [.node fid, ctxH, storeH sid] [] ⟨[], st, mfuel⟩ with
  | none => simp [hc] at h
  | some y => rw [callFunc_le H hI hc]; rw [hc] at h; exact h

theorem runFlowNodeIn_le {I : FlowW → Prop} {W1 W2 : World FlowW} (H : WLeOn I W1 W2) {fuel f fid mfuel sid st x}
    (hI : I ⟨[], st, mfuel⟩) (h : runFlowNodeIn W1 fuel f fid mfuel sid st = some x) :
    runFlowNodeIn W2 fuel f fid mfuel sid st = some x := by
  unfold runFlowNodeIn at h ⊢
  cases hc : callFunc W1 fuel f [ctxH, .node fid, storeH sid] [] ⟨[], st, mfuel⟩ with
  | none => simp [hc] at h
  | some y => rw [callFunc_le H hI hc]; rw [hc] at h; exact h

/-- what `E` has to be for `node.Exec` on the flow `(start, tbl)`: the model's `flowLoop` (wherever it does not run out of
    fuel), at every depth up to `k` -/
def ExecOK (env : Flyt.Env) (start : Option NodeId) (tbl : Table) (k : Nat) (E : ExecFn) : Prop :=
  ∀ mf, mf ≤ k → ∀ sid st,
    match start with
    | some s => (flowLoop env mf tbl s sid st).2.2 ≠ .fuel → (∀ a e, (flowLoop env mf tbl s sid st).2.2 ≠ .both a e) →
        E mf sid st = some (flowLoop env mf tbl s sid st)
    | none => E mf sid st = some ([], st, .err (.fw .noStart))

/-- **seam 1** (`Flow.Exec` over interpreted nested runs): the interpretation of `Flow.Exec` whose nested `Run` is `R` is the
    model's `flowLoop`, if `R` is right below the depth in question. -/
theorem deepExec_ok (env : Flyt.Env) (fid : NodeId) (start : Option NodeId) (ops : List ConnOp) (k : Nat) (R : Nat → RunFn)
    (hR : RunOK env k R) : ExecOK env start (buildTable ops) k (deepExec env R fid start ops) := by
  intro mf hmf sid st
  have hle := flowWorld_le env start (buildTable ops) mf R (fun m hm => hR m (by omega))
  cases start with
  | none =>
    simp only [deepExec]
    exact flowExecIn_le hle (Nat.le_refl mf)
      (FlowExec_no_start_ge env fid ops mf sid st (flowExecIRFuel mf) (by unfold flowExecIRFuel; omega))
  | some s =>
    intro hne _
    simp only [deepExec]
    exact flowExecIn_le hle (Nat.le_refl mf)
      (FlowExec_refines_flowLoop_ge env fid s ops mf sid st (flowExecIRFuel mf) (by unfold flowExecIRFuel; omega) hne)

/-- every method call of `flowNodeWorld` leaves the ghost depth alone -/
theorem flowNodeWorld_mcall_mfuel (env : Flyt.Env) (start : Option NodeId) (tbl : Table) (x : GV) (m : String) (args : List GV)
    (h : Heap) (w : FlowW) (r : List GV × Heap × FlowW) (hc : (flowNodeWorld env start tbl).mcall x m args h w = some r) :
    r.2.2.mfuel = w.mfuel := by
  simp only [flowNodeWorld] at hc
  repeat' split at hc
  all_goals first
    | (cases hc; rfl)
    | exact absurd hc (by simp)

theorem flowNodeWorld_mcall_le (env : Flyt.Env) (start : Option NodeId) (tbl : Table) (k : Nat) (E : ExecFn)
    (hE : ExecOK env start tbl k E) (x : GV) (m : String) (args : List GV) (h : Heap) (w : FlowW)
    (r : List GV × Heap × FlowW) (hI : w.mfuel ≤ k) (hc : (flowNodeWorld env start tbl).mcall x m args h w = some r) :
    execMcallOver E (flowNodeWorld env start tbl).mcall x m args h w = some r := by
  cases x with
  | node i =>
    by_cases hm : m = "Exec"
    · subst hm
      simp only [execMcallOver, beq_self_eq_true, if_true]
      match args, hc with
      | [], hc => simp [flowNodeWorld] at hc
      | [_], hc => simp [flowNodeWorld] at hc
      | _ :: _ :: _ :: _, hc => simp [flowNodeWorld] at hc
      | [a, sh], hc =>
        simp only
        cases hsid : storeIdOf sh with
        | none => simp [flowNodeWorld, hsid] at hc
        | some sid =>
          have hE' := hE w.mfuel hI sid w.st
          cases start with
          | none =>
            simp only at hE'
            simp [flowNodeWorld, hsid] at hc
            subst hc
            simp [hE']
          | some s =>
            simp only at hE'
            simp only [flowNodeWorld, hsid] at hc
            cases ho : (flowLoop env w.mfuel tbl s sid w.st).2.2 with
            | fuel => simp [ho] at hc
            | both a e => simp [ho] at hc
            | ok a =>
              have hEq := hE' (by simp [ho]) (by simp [ho])
              simp [ho] at hc
              simp [hEq, ho]
              exact hc
            | err e =>
              have hEq := hE' (by simp [ho]) (by simp [ho])
              simp [ho] at hc
              simp [hEq, ho]
              exact hc
    · have hb : (m == "Exec") = false := by simp [hm]
      simp only [execMcallOver, hb]
      exact hc
  | _ => exact hc

/-- **seam 2, the world step**: at depths up to `k`, the layered world of `Run` on a flow node is below the stacked one -/
theorem flowNodeWorld_le (env : Flyt.Env) (start : Option NodeId) (tbl : Table) (k : Nat) (E : ExecFn)
    (hE : ExecOK env start tbl k E) :
    WLeOn (fun w : FlowW => w.mfuel ≤ k) (flowNodeWorld env start tbl) (flowNodeWorldOver env E start tbl) where
  call := by intro fn args h w r _ hc; exact absurd hc (by simp [flowNodeWorld])
  callVar := by intro fn fv args h w r _ hc; exact absurd hc (by simp [flowNodeWorld])
  mcall := by
    intro x m args h w r hI hc
    refine ⟨flowNodeWorld_mcall_le env start tbl k E hE x m args h w r hI hc, ?_⟩
    have := flowNodeWorld_mcall_mfuel env start tbl x m args h w r hc
    show r.2.2.mfuel ≤ k
    omega
  assert := rfl
  field := rfl
  mapIndex := rfl
  global := rfl
  invokes := rfl
  readVar := rfl
  rangeOf := rfl
  select := rfl
  setField := rfl
  writeVar := rfl
  setIndex := rfl
  selectI := by intro c w r _ h; exact absurd h (by simp [flowNodeWorld])
  setFieldI := by intro x f v w w' _ h; exact absurd h (by simp [flowNodeWorld])
  writeVarI := by intro x v w w' _ h; exact absurd h (by simp [flowNodeWorld])
  setIndexI := by intro m k' v w w' _ h; exact absurd h (by simp [flowNodeWorld])

/-- **seam 2** (`Run` over an interpreted `Flow.Exec`): `Run` on a flow node whose `node.Exec` is `E` is the flow branch of the
    model's `runNode`, if `E` is right up to the depth in question. -/
theorem Run_over_interpreted_FlowExec (env : Flyt.Env) (fid : NodeId) (start : Option NodeId) (ops : List ConnOp) (k : Nat)
    (sid : StoreId) (st : RunSt) (E : ExecFn) (hE : ExecOK env start (buildTable ops) k E)
    (harena : env.arena fid = .flow start ops) (hne : (runNode env (k + 1) fid sid st).2.2 ≠ .fuel) :
    runFlowNodeIn (flowNodeWorldOver env E start (buildTable ops)) flowNodeIRFuel Flyt.Expected.IR.Run fid k sid st
      = some (runNode env (k + 1) fid sid st) :=
  runFlowNodeIn_le (flowNodeWorld_le env start (buildTable ops) k E hE) (Nat.le_refl k)
    (Run_refines_runNode_flow env fid start ops k sid st harena hne)

/-- one level of the stack is right if the levels below are -/
theorem deepLevel_eq (env : Flyt.Env) (k : Nat) (R : Nat → RunFn) (hR : RunOK env k R) (id : NodeId) (sid : StoreId) (st : RunSt)
    (hne : (runNode env (k + 1) id sid st).2.2 ≠ .fuel) :
    deepLevel env k R id sid st = some (runNode env (k + 1) id sid st) := by
  unfold deepLevel
  cases harena : env.arena id with
  | leaf cfg =>
    simp only
    rw [Run_refines_runLeaf_of_le env.kind id (st.visits id) sid cfg (env.leafBeh id (st.visits id)) st.ctx (leafIRFuel cfg)
      (Nat.le_refl _)]
    simp [runNode, harena, visited]
  | batch cfg =>
    simp only
    rw [Run_dispatches_to_runBatch_of_le env.kind id (st.visits id) sid cfg (env.batchBeh id (st.visits id)) false st.ctx
      batchIRFuel (Nat.le_refl _)]
    simp [runNode, harena, visited]
  | flow start ops =>
    simp only
    exact Run_over_interpreted_FlowExec env id start ops k sid st _ (deepExec_ok env id start ops k R hR) harena hne

/-- **The full stack.** For every arena (leaves, flows nested to any depth, loops, batch nodes), every depth `k`, node, store
    and run state: whenever the model's `runNode env k` does not run out of fuel, the full-stack interpretation `deepRun env k`
    — `Run` interpreted; on a flow, its `Flow.Exec` interpreted; the nested `Run` calls of that interpreted again, … — returns
    exactly the model's events, run state and outcome. -/
theorem deepRun_eq_runNode (env : Flyt.Env) : ∀ (k : Nat) (id : NodeId) (sid : StoreId) (st : RunSt),
    (runNode env k id sid st).2.2 ≠ .fuel → deepRun env k id sid st = some (runNode env k id sid st) := by
  intro k
  induction k using Nat.strongRecOn with
  | ind k ih =>
    cases k with
    | zero => intro id sid st h; simp [runNode] at h
    | succ k =>
      intro id sid st hne
      rw [deepRun]
      apply deepLevel_eq env k _ _ id sid st hne
      intro mf hmf id' sid' st' h
      have hlt : mf < k + 1 := by omega
      simp only [hlt, dite_true]
      exact ih mf hlt id' sid' st' h

/-! ### the two seams on their own -/

/-- `Run` on a leaf of the arena, interpreted (in `leafWorld`); undefined on anything else -/
def leafRun (env : Flyt.Env) : RunFn := fun id sid st =>
  match env.arena id with
  | .leaf cfg =>
    (runLeafIR (leafIRFuel cfg) Flyt.Expected.IR.Run env.kind id (st.visits id) sid cfg (env.leafBeh id (st.visits id)) st.ctx).map
      (visited st id)
  | _ => none

/-- **seam 1 on its own**: for an arena of leaves and ANY flow `(s, ops)` over it, `Flow.Exec` interpreted in the world whose nested
    `Run` is the interpretation of `Run` in `leafWorld` (not the model's `runNode`) is the model's `flowLoop`. -/
theorem FlowExec_over_interpreted_leaves (env : Flyt.Env) (hleaves : ∀ id, ∃ cfg, env.arena id = .leaf cfg)
    (fid s : NodeId) (ops : List ConnOp) (mf : Nat) (sid : StoreId) (st : RunSt) (fuel : Nat) (hfuel : mf + 40 ≤ fuel)
    (hne : (flowLoop env mf (buildTable ops) s sid st).2.2 ≠ .fuel) :
    flowExecIn (flowWorldOver env (fun _ => leafRun env) (some s) (buildTable ops)) fuel Flyt.Expected.IR.Flow_Exec fid mf sid st
      = some (flowLoop env mf (buildTable ops) s sid st) := by
  have hR : RunOK env mf (fun _ => leafRun env) := by
    intro m _ id sid' st' h
    obtain ⟨cfg, hcfg⟩ := hleaves id
    cases m with
    | zero => simp [runNode] at h
    | succ m =>
      simp only [leafRun, hcfg]
      rw [Run_refines_runLeaf_of_le env.kind id (st'.visits id) sid' cfg (env.leafBeh id (st'.visits id)) st'.ctx (leafIRFuel cfg)
        (Nat.le_refl _)]
      simp [runNode, hcfg, visited]
  exact flowExecIn_le (flowWorld_le env (some s) (buildTable ops) mf _ hR) (Nat.le_refl mf)
    (FlowExec_refines_flowLoop_ge env fid s ops mf sid st fuel hfuel hne)

/-- **both seams, one level**: `Run` on a flow node of leaves — `Run` interpreted, its `node.Exec` the interpreted `Flow.Exec`, the
    nested `Run` calls of that the interpreted `Run` on the leaves — is the model's `runNode`. -/
theorem Run_over_interpreted_FlowExec_over_leaves (env : Flyt.Env) (fid : NodeId) (start : Option NodeId) (ops : List ConnOp)
    (k : Nat) (sid : StoreId) (st : RunSt) (harena : env.arena fid = .flow start ops)
    (hleaves : ∀ id, id ≠ fid → ∃ cfg, env.arena id = .leaf cfg)
    (hne : (runNode env (k + 1) fid sid st).2.2 ≠ .fuel) :
    runFlowNodeIn (flowNodeWorldOver env (deepExec env (fun mf => deepRun env mf) fid start ops) start (buildTable ops))
        flowNodeIRFuel Flyt.Expected.IR.Run fid k sid st
      = some (runNode env (k + 1) fid sid st) := by
  have _ := hleaves
  exact Run_over_interpreted_FlowExec env fid start ops k sid st _
    (deepExec_ok env fid start ops k _ (fun mf _ id sid' st' h => deepRun_eq_runNode env mf id sid' st' h)) harena hne

/-! ### the stacked worlds do not mention the model -/

/-- `flowNodeWorldOver` does not depend on the arena or the transition table (they occur in `flowNodeWorld` only in the meaning of
    `node.Exec`, which is replaced); like `flowWorldOver_env` for `flowWorldOver`. -/
theorem flowNodeWorldOver_env (env env' : Flyt.Env) (E : ExecFn) (start : Option NodeId) (tbl tbl' : Table) :
    flowNodeWorldOver env E start tbl = flowNodeWorldOver env' E start tbl' := by
  have hm : execMcallOver E (flowNodeWorld env start tbl).mcall = execMcallOver E (flowNodeWorld env' start tbl').mcall := by
    funext recv m args h w
    cases recv with
    | node i =>
      by_cases hx : m = "Exec"
      · subst hx; simp [execMcallOver]
      · have hb : (m == "Exec") = false := by simp [hx]
        simp only [execMcallOver, hb, flowNodeWorld]
        rfl
    | ref kd i =>
      by_cases hk : kd = "ctx"
      · subst hk; simp only [execMcallOver, flowNodeWorld]
      · have hnone : ∀ (env : Flyt.Env) (tbl : Table), (flowNodeWorld env start tbl).mcall (.ref kd i) m args h w = none := by
          intro env tbl
          simp only [flowNodeWorld]
          split
          · rename_i heq; cases heq; exact absurd rfl hk
          · rename_i heq; cases heq
          · rfl
        simp only [execMcallOver, hnone]
    | _ => simp only [execMcallOver, flowNodeWorld]
  unfold flowNodeWorldOver
  rw [hm]
  rfl

/-! ### a concrete instance

`Ex.envLoop` (`Proofs/ExampleEnv.lean`): root flow 0 = `1 -a-> 2 -y-> 3`, where 2 is itself a flow `4 -x-> 5`, node 3 loops to itself
once (`loop`, then `again`) ; `Ex.envFail`: the inner node 5 fails in post. The model does not run out of fuel at depth 10 (`decide`),
hence the full-stack interpretation computes what the model computes. (`GoIR/StackTest.lean` EVALUATES both sides.) -/
example : deepRun Proofs.Ex.envLoop 10 0 7 Proofs.Ex.st0 = some (runNode Proofs.Ex.envLoop 10 0 7 Proofs.Ex.st0) :=
  deepRun_eq_runNode _ _ _ _ _ (by decide)
example : (deepRun Proofs.Ex.envLoop 10 0 7 Proofs.Ex.st0).map (·.2.2) = some (.ok "again") := by
  rw [deepRun_eq_runNode _ _ _ _ _ (by decide)]; decide
example : (deepRun Proofs.Ex.envFail 10 0 7 Proofs.Ex.st0).map (·.2.2) = some (.err (.user 42)) := by
  rw [deepRun_eq_runNode _ _ _ _ _ (by decide)]; decide

end Flyt.Refine.Stack

#print axioms Flyt.Refine.callFunc_le
#print axioms Flyt.Refine.Stack.deepRun_eq_runNode
#print axioms Flyt.Refine.Stack.FlowExec_over_interpreted_leaves
#print axioms Flyt.Refine.Stack.Run_over_interpreted_FlowExec
#print axioms Flyt.Refine.Stack.Run_over_interpreted_FlowExec_over_leaves
#print axioms Flyt.Refine.Stack.flowNodeWorldOver_env
