import FlytModel.Refine.SourceBase
import FlytModel.Refine.SourceC01
import FlytModel.Refine.SourceC02
import FlytModel.Refine.SourceC04
import FlytModel.Refine.SourceC05
import FlytModel.Refine.SourceC06
import FlytModel.Refine.SourceC07
import FlytModel.Refine.SourceC09
import FlytModel.Refine.SourceC10
import FlytModel.Refine.SourceC11
import FlytModel.Refine.SourceC17
import FlytModel.Refine.SourceC18
import FlytModel.Refine.SourceC20
/-!
# The headline property theorems, stated directly about the interpreted source

`Props/Cnn.lean` proves the properties about the hand-written model; `Refine/*.lean` proves that the translated Go source
(`Expected/IR.lean`, kept equal to the regenerated translation by `rfl`), run by the definitional interpreter (`GoIR/Interp.lean`) in a
world (`GoIR/Worlds.lean`), computes the model's functions for every sufficient interpreter depth. The files imported here compose the
two (namespace `Flyt.Refine.Source`): each theorem has the statement of a `Props` theorem with the model function replaced by
`…IR fuel Expected.IR.<function> …`, in the form "the interpretation terminates with a result, and the result has the property", for
EVERY `fuel` above the refinement theorem's bound. `Refine/SourceBase.lean` holds the one-line transfer step per refinement theorem.

| file | property | interpreted subjects (refinement theorem) |
|------|----------|-------------------------------------------|
| `SourceC01` | node lifecycle | `Run` on a leaf (`Run_refines_runLeaf`) |
| `SourceC02` | retry budget / fallback exact | `Run` on a leaf; `runExecWithRetries` (`…_refines_runItem`); `runBatch` (`runBatch_refines`) |
| `SourceC04` | errors transparent, fail-stop | `Run` on a flow (`Run_refines_runNode_flow`), on a leaf, on a batch node; `runBatch`; `Flow.Exec` (`FlowExec_refines_flowLoop`) |
| `SourceC05` | cancellation | `Run` on a flow, on a leaf; `Flow.Exec` |
| `SourceC06` | batch results positional, post once | `runBatch`; `Run` on a batch node (`Run_dispatches_to_runBatch`); `runBatchSequential` (`…_refines_itemsSeq`); `runBatchConcurrent`, serial schedule (`…_serial_refines`) |
| `SourceC07` | every item once, per-item retry | `runBatch`; `runBatchSequential`; `runExecWithRetries` vs `Run` on a leaf |
| `SourceC09` | stop-on-error | `runBatchSequential`; `runBatchConcurrent`, serial schedule; `runExecWithRetries` |
| `SourceC10` | flow used as a node | `Run` on a flow vs `Flow.Exec` |
| `SourceC11` | cancellation inside a batch | `runBatch`; the two executors on a done context; `Run` on a flow |
| `SourceC17` | payloads passed unchanged | `Run` on a leaf; `runExecWithRetries` |
| `SourceC18` | never the empty action | `Run` on a leaf / batch node / flow; `runBatch`; `Flow.Exec` |
| `SourceC20` | retry wait | `Run` on a leaf; `runExecWithRetries` |

Properties with bridges of their own elsewhere: C03 (`Refine/BridgeFlow.lean`), C08 / C12 (`Refine/BridgePool.lean`), C13 / C14
(`Refine/BridgeStore.lean`). C15 (typed accessors), C16 (`Bind`), C19 (configuration styles) are about other functions, with refinement
files of their own (`Refine/Accessors.lean`, `Refine/Slices.lean`, `Refine/BindR.lean`, `Refine/Config.lean`, `Refine/Ctors.lean`); they are
not restated here.

## What is and is not claimed — the same three caveats in every file

1. **Worlds are layered.** Each refinement theorem lives in its own world, in which the NEXT layer down is the model's function:
   `Run` on a flow ↦ `Flow.Exec` is `flowLoop`; `Flow.Exec` ↦ a nested `Run` is `runNode`; `Run` on a batch node ↦ `runBatch` is the
   model's; `runBatch` ↦ the two executors are `itemsSeq` / `itemsSerialPool`; the executors ↦ `runExecWithRetries` is `runItem`. A
   corollary about a layer is about THAT layer's interpreted source around a modelled next layer; the next layer's source has its own
   corollary. No single interpreted object runs a whole nested flow.
2. **Callbacks, dynamic types, `ctx.Err()`, `select`** are the world's, driven by the same script as the model — the corollaries, like
   the model theorems, quantify over all scripts.
3. **The executor corollaries need `hidx`** (item lists without repeated items, `hidx_of_nodup`): a restriction of the executor worlds
   that the model theorems do not have. The concurrent executor is covered on its SERIAL schedule only; every `Props` theorem about
   the LTS `Flyt.Conc` (all schedules) is listed as not carried over in the file of its property.
-/
namespace Flyt.Refine.Source

/-- the statements exist under these names (a renamed or dropped theorem breaks this file) -/
example := @C01_lifecycle_for_interpreted_source
example := @C01_done_context_runs_nothing_for_interpreted_source
example := @C01_prep_exactly_once_for_interpreted_source
example := @C01_phases_in_order_for_interpreted_source
example := @C01_exec_receives_prep_value_for_interpreted_source
example := @C01_post_iff_exec_produced_for_interpreted_source
example := @C01_outcome_action_xor_error_for_interpreted_source
example := @C01_outcome_never_both_for_interpreted_source
example := @C01_inside_flow_for_interpreted_source
example := @C02_attempts_never_exceed_for_interpreted_source
example := @C02_attempts_exact_for_interpreted_source
example := @C02_attempts_numbered_for_interpreted_source
example := @C02_fallback_only_after_exhaustion_for_interpreted_source
example := @C02_fallback_iff_all_failed_for_interpreted_source
example := @C02_outcome_after_retries_for_interpreted_source
example := @C02_nonretryable_single_attempt_for_interpreted_source
example := @C02_item_attempts_never_exceed_for_interpreted_source
example := @C02_item_attempts_exact_for_interpreted_source
example := @C02_item_attempts_numbered_for_interpreted_source
example := @C02_item_fallback_only_after_exhaustion_for_interpreted_source
example := @C02_item_fallback_iff_all_failed_for_interpreted_source
example := @C02_item_outcome_after_retries_for_interpreted_source
example := @C02_batch_item_own_loop_for_interpreted_source
example := @C02_batch_item_bounds_for_interpreted_source
example := @C02_batch_item_exact_for_interpreted_source
example := @C04_fail_stop_for_interpreted_source
example := @C04_user_error_transparent_for_interpreted_source
example := @C04_outcome_shapes_for_interpreted_source
example := @C04_ok_only_if_all_succeeded_for_interpreted_source
example := @C04_ok_iff_all_succeeded_for_interpreted_source
example := @C04_for_interpreted_Run_on_leaf
example := @C04_for_interpreted_runBatch
example := @C04_for_interpreted_Run_on_batch
example := @C04_for_interpreted_Flow_Exec
example := @C05_done_ctx_no_callbacks_for_interpreted_source
example := @C05_done_ctx_no_callbacks_for_interpreted_Run_on_leaf
example := @C05_done_ctx_no_further_node_for_interpreted_source
example := @C05_after_cancel_only_same_visit_for_interpreted_source
example := @C05_after_cancel_no_exec_no_other_node_for_interpreted_source
example := @C05_ctx_error_matches_ctx_for_interpreted_source
example := @C05_ctx_after_run_for_interpreted_source
example := @C05_ok_run_was_not_cut_short_for_interpreted_source
example := @C05_cut_short_never_ok_for_interpreted_source
example := @C05_for_interpreted_Run_on_leaf
example := @C06_post_once_positional_for_interpreted_source
example := @C06_post_exactly_once_and_last_for_interpreted_source
example := @C06_post_exactly_once_and_last_for_interpreted_Run
example := @C06_slots_positional_for_interpreted_source
example := @C06_slots_positional_for_interpreted_serial_pool
example := @C07_every_item_once_for_interpreted_source
example := @C07_item_independent_of_others_for_interpreted_source
example := @C07_item_processed_exactly_once_for_interpreted_source
example := @C07_item_gets_single_node_treatment_for_interpreted_source
example := @C07_item_retry_budget_and_fallback_exact_for_interpreted_source
example := @C09_stop_halts_after_first_failure_for_interpreted_source
example := @C09_never_run_never_success_for_interpreted_source
example := @C09_never_run_never_success_for_interpreted_serial_pool
example := @C09_slot_is_real_outcome_or_error_for_interpreted_source
example := @C09_stop_mode_nothing_after_final_failure_for_interpreted_source
example := @C09_stop_mode_nothing_after_final_failure_for_interpreted_serial_pool
example := @C10_nested_flow_presents_inner_result_for_interpreted_source
example := @C10_inner_action_is_last_nodes_action_for_interpreted_source
example := @C10_same_store_everywhere_for_interpreted_source
example := @C10_flattening_for_interpreted_source
example := @C11_no_attempt_after_cancel_for_interpreted_source
example := @C11_cancelled_before_run_for_interpreted_source
example := @C11_cancelled_before_run_slots_for_interpreted_source
example := @C11_cancel_sticks_for_interpreted_source
example := @C11_post_once_and_unexecuted_are_errors_for_interpreted_source
example := @C11_flow_stops_after_batch_cancel_for_interpreted_source
example := @C17_run_exec_receives_prep_payload_for_interpreted_source
example := @C17_run_post_receives_exec_result_for_interpreted_source
example := @C17_any_style_mix_is_the_method_node_for_interpreted_source
example := @C17_styles_interchangeable_for_interpreted_source
example := @C17_batch_styles_interchangeable_for_interpreted_source
example := @C17_batch_item_passed_as_is_for_interpreted_source
example := @C17_batch_slot_is_exec_result_for_interpreted_source
example := @C18_leaf_for_interpreted_source
example := @C18_batch_for_interpreted_source
example := @C18_batch_Run_for_interpreted_source
example := @C18_flow_node_for_interpreted_source
example := @C18_flow_exec_action_nonempty_for_interpreted_source
example := @C20_leaf_retry_preceded_by_wait_for_interpreted_source
example := @C20_leaf_no_wait_before_first_for_interpreted_source
example := @C20_leaf_fired_wait_followed_for_interpreted_source
example := @C20_leaf_no_wait_without_config_for_interpreted_source
example := @C20_leaf_interrupted_wait_ends_run_for_interpreted_source
example := @C20_leaf_fired_iff_not_cancelled_for_interpreted_source
example := @C20_leaf_cancellation_cuts_wait_for_interpreted_source
example := @C20_item_retry_preceded_by_wait_for_interpreted_source
example := @C20_item_no_wait_before_first_for_interpreted_source
example := @C20_item_fired_wait_followed_for_interpreted_source
example := @C20_item_no_wait_without_config_for_interpreted_source
example := @C20_item_interrupted_wait_ends_item_for_interpreted_source
example := @C20_item_fired_iff_not_cancelled_for_interpreted_source
example := @C20_item_cancellation_cuts_wait_for_interpreted_source

end Flyt.Refine.Source
