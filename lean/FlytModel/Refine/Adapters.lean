import FlytModel.GoIR.AdapterWorld
import FlytModel.Refine.RunNode
/-!
# Refinement: the function-style adapters (`CustomNode.Prep / Exec / Post / ExecFallback`) and the Any-style wrappers

The translated Go source (`Flyt.Expected.IR`) of `CustomNode.Prep / Exec / Post / ExecFallback`, run by the definitional
interpreter of `GoIR/Interp.lean` in `adapterWorld` (`GoIR/AdapterWorld.lean`), hands the user's function exactly
`execArg` / `postArgs` and returns exactly `prepRet` / `execRet` of what it answers (`Model/Run.lean`) — for every configuration
`c : Cfg`, EVERY payload `Val` (a token, `Val.nil`, a boxed `Result` with or without error, nested), every scripted outcome,
every `FbKind`, every heap and every initial world state. And the wrapper closures installed by `WithExecFuncAny`,
`WithPrepFuncAny`, `WithPostFuncAny` (= closure number 1 of `closuresOf`; the builder methods of the same names carry
syntactically the same closures) compute exactly the world's entries `execFuncSem / prepFuncSem / postFuncSem` for an Any-style
function, for every `Result` argument. These are the statements `GoIR/AdapterTest.lean` evaluates on samples.

Every statement is proved at recursion depth `f + K` for arbitrary `f` (`…_core`, about `callFunc` with arbitrary heap and world
state); `…_refines_of_le` (about `run`, every `fuel ≥ K`) and `…_refines` (the constant `F = 40` of the test) are instances.
`K` = 14 (Exec), 10 (Prep), 14 (Post), 9 (ExecFallback), 8 / 8 / 10 (exec / prep / post wrapper) — the least depths at which
the interpreter is not stuck on these programs.

## `Style.direct`

`Style` has a fourth constructor, `direct` (a method of a user struct, called by `Run` itself — not a `CustomNode`).
`adapterWorld` cannot tell it from `res` (`adapterWorld_styles`), whereas `execArg / execRet / prepRet / postArgs` treat `direct`
as the identity. Hence the statements of the test hold for `absent`, `res`, `any` (the three styles the test enumerates) and are
FALSE at `direct` (`Exec_direct_counterexample`, `Exec_false_at_direct`, …): the `…_core` theorems are stated for all four styles through
`asAdapterStyle`, the `…_refines` theorems carry the hypothesis `≠ .direct`.
-/
namespace Flyt.Refine.Adapters
open Flyt Flyt.GoIR Flyt.GoIR.AdapterW Flyt.Expected.IR Flyt.Refine

theorem ofVal_tok (n : Nat) : GV.ofVal (.tok n) = .val (.tok n) := rfl
theorem ofVal_res (v : Val) (e : Option ErrRoot) : GV.ofVal (.res v e) = .result ⟨v, e⟩ := rfl
theorem toVal_val (v : Val) : (GV.val v).toVal = v := rfl
theorem toVal_result (r : Result) : (GV.result r).toVal = r.box := rfl

section world
variable (c : Cfg)
local notation "W" => adapterWorld c

theorem aw_field_prep (i : Nat) (w : AW) :
    (W).field (.ref "cn" i) "prepFunc" w = some (if c.prepS == .absent then .nil else .ref "fn" 0) := by
  simp [adapterWorld]
theorem aw_field_exec (i : Nat) (w : AW) :
    (W).field (.ref "cn" i) "execFunc" w = some (if c.execS == .absent then .nil else .ref "fn" 1) := by
  simp [adapterWorld]
theorem aw_field_post (i : Nat) (w : AW) :
    (W).field (.ref "cn" i) "postFunc" w = some (if c.postS == .absent then .nil else .ref "fn" 2) := by
  simp [adapterWorld]
theorem aw_field_fb (i : Nat) (w : AW) :
    (W).field (.ref "cn" i) "execFallbackFunc" w = some (if c.fb == .custom then .ref "fn" 3 else .nil) := by
  simp [adapterWorld]
theorem aw_field_base (i : Nat) (w : AW) : (W).field (.ref "cn" i) "BaseNode" w = some (.ref "base" 0) := by
  simp [adapterWorld]

theorem aw_assert_result (r : Result) (w : AW) : (W).assert (.result r) "Result" w = some (.result r, true) := by
  simp [adapterWorld]
theorem aw_assert_val (v : Val) (w : AW) : (W).assert (.val v) "Result" w = some (.nil, false) := by
  simp [adapterWorld]

theorem aw_m_prep (i : Nat) (a b : GV) (h : Heap) (w : AW) :
    (W).mcall (.ref "cn" i) "prepFunc" [a, b] h w = some ((prepFuncSem c w).1, h, (prepFuncSem c w).2) := by
  simp [adapterWorld]
theorem aw_m_exec (i : Nat) (a : GV) (r : Result) (h : Heap) (w : AW) :
    (W).mcall (.ref "cn" i) "execFunc" [a, .result r] h w = some ((execFuncSem c r w).1, h, (execFuncSem c r w).2) := by
  simp [adapterWorld]
theorem aw_m_post (i : Nat) (a b : GV) (p e : Result) (h : Heap) (w : AW) :
    (W).mcall (.ref "cn" i) "postFunc" [a, b, .result p, .result e] h w =
      some ((postFuncSem c p e w).1, h, (postFuncSem c p e w).2) := by
  simp [adapterWorld]
theorem aw_m_fb (i : Nat) (pv : GV) (e : ErrRoot) (h : Heap) (w : AW) :
    (W).mcall (.ref "cn" i) "execFallbackFunc" [pv, .err e] h w =
      (match c.fbOut.res with
       | .ok x => some ([GV.ofVal x, .nil], h, { w with calls := w.calls ++ [("fb", [pv.toVal])] })
       | .error e' => some ([.nil, .err (.user e')], h, { w with calls := w.calls ++ [("fb", [pv.toVal])] })) := by
  cases hx : c.fbOut.res <;> simp [adapterWorld, hx]

theorem aw_b_prep (i : Nat) (a b : GV) (h : Heap) (w : AW) :
    (W).mcall (.ref "base" i) "Prep" [a, b] h w = some ([.nil, .nil], h, w) := by
  simp [adapterWorld]
theorem aw_b_exec (i : Nat) (a b : GV) (h : Heap) (w : AW) :
    (W).mcall (.ref "base" i) "Exec" [a, b] h w = some ([.nil, .nil], h, w) := by
  simp [adapterWorld]
theorem aw_b_post (i : Nat) (a b p e : GV) (h : Heap) (w : AW) :
    (W).mcall (.ref "base" i) "Post" [a, b, p, e] h w = some ([.str defaultAction, .nil], h, w) := by
  simp [adapterWorld]
theorem aw_b_fb (i : Nat) (a : GV) (e : ErrRoot) (h : Heap) (w : AW) :
    (W).mcall (.ref "base" i) "ExecFallback" [a, .err e] h w = some ([.nil, .err e], h, w) := by
  simp [adapterWorld]

/-- the user's Any-style exec function, called by the wrapper with a payload (never a store handle) -/
theorem aw_call_exec (a : GV) (x : Val) (h : Heap) (w : AW) :
    (W).call "fn" [a, GV.ofVal x] h w =
      (match c.exec.res with
       | .ok y => some ([GV.ofVal y, .nil], h, { w with calls := w.calls ++ [("exec", [x])] })
       | .error e => some ([.nil, .err (.user e)], h, { w with calls := w.calls ++ [("exec", [x])] })) := by
  cases x <;> cases hx : c.exec.res <;> simp [adapterWorld, hx, ofVal_tok, ofVal_res, GV.toVal, Result.box]
theorem aw_call_prep (a : GV) (k : Nat) (h : Heap) (w : AW) :
    (W).call "fn" [a, .ref "store" k] h w =
      (match c.prep.res with
       | .ok y => some ([GV.ofVal y, .nil], h, { w with calls := w.calls ++ [("prep", [])] })
       | .error e => some ([.nil, .err (.user e)], h, { w with calls := w.calls ++ [("prep", [])] })) := by
  cases hx : c.prep.res <;> simp [adapterWorld, hx]
theorem aw_call_post (a b : GV) (p e : Val) (h : Heap) (w : AW) :
    (W).call "fn" [a, b, GV.ofVal p, GV.ofVal e] h w =
      (match c.post.res with
       | .ok y => some ([.str y, .nil], h, { w with calls := w.calls ++ [("post", [p, e])] })
       | .error er => some ([.str (c.post.junk.getD ""), .err (.user er)], h, { w with calls := w.calls ++ [("post", [p, e])] })) := by
  cases hx : c.post.res <;> simp [adapterWorld, hx, toVal_ofVal]
end world

macro "adsimp" " [" ts:Lean.Parser.Tactic.simpLemma,* "]" : tactic =>
  `(tactic| gosimp [expr_sel, callFunc, aw_field_prep, aw_field_exec, aw_field_post, aw_field_fb, aw_field_base,
      aw_assert_result, aw_assert_val, aw_m_prep, aw_m_exec, aw_m_post, aw_m_fb, aw_b_prep, aw_b_exec, aw_b_post, aw_b_fb,
      aw_call_exec, aw_call_prep, aw_call_post, ofVal_tok, ofVal_res, toVal_ofVal, cnH, $ts,*])

/-- the recursion depth of the executable test (`GoIR/AdapterTest.lean`) -/
def F : Nat := 40

/-- the style `adapterWorld` acts on: a `CustomNode` holds a Result-style function or a wrapped Any-style one; `direct` is not a
    configuration of a `CustomNode`, and the world reads it as `res` -/
def asAdapterStyle : Style → Style
  | .direct => .res
  | s => s

theorem asAdapterStyle_of_ne {s : Style} (h : s ≠ .direct) : asAdapterStyle s = s := by
  cases s <;> first | rfl | exact absurd rfl h

/-- `adapterWorld` does not distinguish `direct` from `res` -/
theorem adapterWorld_styles (c : Cfg) :
    adapterWorld c = adapterWorld { c with prepS := asAdapterStyle c.prepS, execS := asAdapterStyle c.execS,
                                           postS := asAdapterStyle c.postS } := by
  obtain ⟨prepS, execS, postS, fb, prep, exec, post, fbOut⟩ := c
  cases prepS <;> cases execS <;> cases postS <;> rfl

/-! ## `CustomNode.Exec / Prep / Post / ExecFallback` at depth `f + K`, any heap, any world state -/

theorem Exec_core (f : Nat) (c : Cfg) (ctx : GV) (pv : Val) (h : Heap) (w : AW) :
    callFunc (adapterWorld c) (f + 14) CustomNode_Exec [cnH, ctx, GV.ofVal pv] h w =
      (match asAdapterStyle c.execS with
       | .absent => some ([.nil, .nil], h, w)
       | s => some ((match c.exec.res with | .ok x => [GV.ofVal (execRet s x), .nil] | .error e => [.nil, .err (.user e)]),
                    h, { w with calls := w.calls ++ [("exec", [execArg s pv])] })) := by
  obtain ⟨prepS, execS, postS, fb, prep, ⟨res, cancels, junk⟩, post, fbOut⟩ := c
  cases execS
  · adsimp [CustomNode_Exec, asAdapterStyle]
  all_goals
    cases pv <;> rcases res with e | (_ | ⟨v, _ | e⟩) <;>
      adsimp [CustomNode_Exec, asAdapterStyle, execFuncSem, execRet, execArg, mkNewResult, toVal_val, toVal_result, Val.asResult?,
        newResult, toResult, Result.box, Result.isError, Result.valueOf]

theorem Prep_core (f : Nat) (c : Cfg) (ctx sh : GV) (h : Heap) (w : AW) :
    callFunc (adapterWorld c) (f + 10) CustomNode_Prep [cnH, ctx, sh] h w =
      (match asAdapterStyle c.prepS with
       | .absent => some ([.nil, .nil], h, w)
       | s => some ((match c.prep.res with | .ok x => [GV.ofVal (prepRet s x), .nil] | .error e => [.nil, .err (.user e)]),
                    h, { w with calls := w.calls ++ [("prep", [])] })) := by
  obtain ⟨prepS, execS, postS, fb, ⟨res, cancels, junk⟩, exec, post, fbOut⟩ := c
  cases prepS
  · adsimp [CustomNode_Prep, asAdapterStyle]
  all_goals
    rcases res with e | (_ | ⟨v, _ | e⟩) <;>
      adsimp [CustomNode_Prep, asAdapterStyle, prepFuncSem, prepRet, Val.asResult?, newResult, toResult, Result.valueOf]

theorem Post_core (f : Nat) (c : Cfg) (ctx sh : GV) (pv ev : Val) (h : Heap) (w : AW) :
    callFunc (adapterWorld c) (f + 14) CustomNode_Post [cnH, ctx, sh, GV.ofVal pv, GV.ofVal ev] h w =
      (match asAdapterStyle c.postS with
       | .absent => some ([.str defaultAction, .nil], h, w)
       | s => some ((match c.post.res with | .ok x => [.str x, .nil] | .error e => [.str (c.post.junk.getD ""), .err (.user e)]),
                    h, { w with calls := w.calls ++ [("post", [(postArgs s pv ev).1, (postArgs s pv ev).2])] })) := by
  obtain ⟨prepS, execS, postS, fb, prep, exec, ⟨res, cancels, junk⟩, fbOut⟩ := c
  cases postS
  · adsimp [CustomNode_Post, asAdapterStyle]
  all_goals
    rcases ev with _ | ⟨v, _ | e⟩ <;> cases res <;>
      adsimp [CustomNode_Post, asAdapterStyle, postFuncSem, postArgs, wrapExecForPost, mkNewResult, toVal_val, toVal_result,
        Val.asResult?, newResult, Result.box, Result.isError, Result.valueOf]

theorem ExecFallback_core (f : Nat) (c : Cfg) (pv : Val) (er : ErrRoot) (h : Heap) (w : AW) :
    callFunc (adapterWorld c) (f + 9) CustomNode_ExecFallback [cnH, GV.ofVal pv, .err er] h w =
      (match c.fb with
       | .custom => some ((match c.fbOut.res with | .ok x => [GV.ofVal x, .nil] | .error e => [.nil, .err (.user e)]),
                          h, { w with calls := w.calls ++ [("fb", [pv])] })
       | _ => some ([.nil, .err er], h, w)) := by
  obtain ⟨prepS, execS, postS, fb, prep, exec, post, ⟨res, cancels, junk⟩⟩ := c
  cases fb <;> cases res <;> adsimp [CustomNode_ExecFallback]

/-! ## The Any-style wrapper closures -/

def wrapExec : Func := { name := "WithExecFuncAny.func", recv := "", params := ["ctx", "prepResult"], body := B[
  (.define ["val", "err"] E[(.call "fn" E[(.var "ctx"), (.mcall (.var "prepResult") "Value" E[])])]),
  (.ifS B[] (.bin "!=" (.var "err") (.var "nil")) B[
    (.ret E[(.lit "Result" E[]), (.var "err")])] B[]),
  (.ret E[(.call "NewResult" E[(.var "val")]), (.var "nil")])] }
def wrapPrep : Func := { name := "WithPrepFuncAny.func", recv := "", params := ["ctx", "shared"], body := B[
  (.define ["val", "err"] E[(.call "fn" E[(.var "ctx"), (.var "shared")])]),
  (.ifS B[] (.bin "!=" (.var "err") (.var "nil")) B[
    (.ret E[(.lit "Result" E[]), (.var "err")])] B[]),
  (.ret E[(.call "NewResult" E[(.var "val")]), (.var "nil")])] }
def wrapPost : Func := { name := "WithPostFuncAny.func", recv := "", params := ["ctx", "shared", "prepResult", "execResult"], body := B[
  (.ret E[(.call "fn" E[(.var "ctx"), (.var "shared"), (.mcall (.var "prepResult") "Value" E[]), (.mcall (.var "execResult") "Value" E[])])])] }

/-- closure 0 of `With…FuncAny` is the option closure `func(n *CustomNode)`, closure 1 the wrapper it installs -/
theorem closures_WithExecFuncAny : (closuresOf WithExecFuncAny)[1]? = some wrapExec := rfl
theorem closures_WithPrepFuncAny : (closuresOf WithPrepFuncAny)[1]? = some wrapPrep := rfl
theorem closures_WithPostFuncAny : (closuresOf WithPostFuncAny)[1]? = some wrapPost := rfl

theorem expr_lit_Result {Ω : Type} (W : World Ω) (f : Nat) (st : St Ω) :
    evalExpr W (f + 1) (.lit "Result" .nil) st = some ([.result ⟨Val.nil, none⟩], st) := rfl

theorem wrapExec_core (f : Nat) (c : Cfg) (hs : c.execS = .any) (ctx : GV) (r : Result) (h : Heap) (w : AW) :
    callFunc (adapterWorld c) (f + 8) wrapExec [ctx, .result r] h w = some ((execFuncSem c r w).1, h, (execFuncSem c r w).2) := by
  obtain ⟨prepS, execS, postS, fb, prep, ⟨res, cancels, junk⟩, post, fbOut⟩ := c
  subst hs
  cases res <;> adsimp [wrapExec, execFuncSem, expr_lit_Result, mkNewResult]

theorem wrapPrep_core (f : Nat) (c : Cfg) (hs : c.prepS = .any) (ctx : GV) (k : Nat) (h : Heap) (w : AW) :
    callFunc (adapterWorld c) (f + 8) wrapPrep [ctx, .ref "store" k] h w = some ((prepFuncSem c w).1, h, (prepFuncSem c w).2) := by
  obtain ⟨prepS, execS, postS, fb, ⟨res, cancels, junk⟩, exec, post, fbOut⟩ := c
  subst hs
  cases res <;> adsimp [wrapPrep, prepFuncSem, expr_lit_Result, mkNewResult]

theorem wrapPost_core (f : Nat) (c : Cfg) (hs : c.postS = .any) (ctx sh : GV) (p e : Result) (h : Heap) (w : AW) :
    callFunc (adapterWorld c) (f + 10) wrapPost [ctx, sh, .result p, .result e] h w =
      some ((postFuncSem c p e w).1, h, (postFuncSem c p e w).2) := by
  obtain ⟨prepS, execS, postS, fb, prep, exec, ⟨res, cancels, junk⟩, fbOut⟩ := c
  subst hs
  cases res <;> adsimp [wrapPost, postFuncSem]

/-! ## The builder methods carry the same wrappers -/

/-- same receiver, parameters and body (the name of a closure records the enclosing function) -/
def sameCode (g g' : Func) : Prop := g.recv = g'.recv ∧ g.params = g'.params ∧ g.body = g'.body

/-- `callFunc` looks at a function's receiver, parameters and body only -/
theorem callFunc_sameCode {Ω : Type} (W : World Ω) (fuel : Nat) {g g' : Func} (hg : sameCode g g')
    (args : List GV) (h : Heap) (w : Ω) : callFunc W fuel g args h w = callFunc W fuel g' args h w := by
  obtain ⟨hr, hp, hb⟩ := hg
  unfold callFunc; rw [hr, hp, hb]

theorem run_sameCode (fuel : Nat) {g g' : Func} (hg : sameCode g g') (c : Cfg) (args : List GV) :
    run fuel g c args = run fuel g' c args := by
  unfold run; rw [callFunc_sameCode _ _ hg]

/-- the only closure of each builder method is, syntactically, the wrapper of the option of the same name -/
theorem closures_NodeBuilder_WithExecFuncAny :
    ∃ g, closuresOf NodeBuilder_WithExecFuncAny = [g] ∧ sameCode g wrapExec := ⟨_, rfl, rfl, rfl, rfl⟩
theorem closures_BatchNodeBuilder_WithExecFuncAny :
    ∃ g, closuresOf BatchNodeBuilder_WithExecFuncAny = [g] ∧ sameCode g wrapExec := ⟨_, rfl, rfl, rfl, rfl⟩
theorem closures_NodeBuilder_WithPrepFuncAny :
    ∃ g, closuresOf NodeBuilder_WithPrepFuncAny = [g] ∧ sameCode g wrapPrep := ⟨_, rfl, rfl, rfl, rfl⟩
theorem closures_NodeBuilder_WithPostFuncAny :
    ∃ g, closuresOf NodeBuilder_WithPostFuncAny = [g] ∧ sameCode g wrapPost := ⟨_, rfl, rfl, rfl, rfl⟩

/-! ## The statements of `GoIR/AdapterTest.lean`, for all values, at every sufficient depth -/

theorem exists_add {K fuel : Nat} (h : K ≤ fuel) : ∃ k, fuel = k + K := ⟨fuel - K, by omega⟩

/-- `CustomNode.Exec`: an absent exec function is `BaseNode.Exec`; otherwise the function is called once, with `execArg s pv`,
    and the method returns `execRet s x` of its answer `x`, or its error -/
theorem CustomNode_Exec_refines_of_le (c : Cfg) (ctx : GV) (pv : Val) (hd : c.execS ≠ .direct) (fuel : Nat) (hf : 14 ≤ fuel) :
    run fuel CustomNode_Exec c [cnH, ctx, GV.ofVal pv] =
      (match c.execS with
       | .absent => some ([.nil, .nil], ⟨[]⟩)
       | s => some ((match c.exec.res with | .ok x => [GV.ofVal (execRet s x), .nil] | .error e => [.nil, .err (.user e)]),
                    ⟨[("exec", [execArg s pv])]⟩)) := by
  obtain ⟨k, rfl⟩ := exists_add hf
  simp only [run, Exec_core, asAdapterStyle_of_ne hd]
  cases c.execS <;> rfl
theorem CustomNode_Exec_refines (c : Cfg) (pv : Val) (hd : c.execS ≠ .direct) :
    run F CustomNode_Exec c [cnH, ctxH, GV.ofVal pv] =
      (match c.execS with
       | .absent => some ([.nil, .nil], ⟨[]⟩)
       | s => some ((match c.exec.res with | .ok x => [GV.ofVal (execRet s x), .nil] | .error e => [.nil, .err (.user e)]),
                    ⟨[("exec", [execArg s pv])]⟩)) :=
  CustomNode_Exec_refines_of_le c ctxH pv hd F (by decide)

theorem CustomNode_Prep_refines_of_le (c : Cfg) (ctx sh : GV) (hd : c.prepS ≠ .direct) (fuel : Nat) (hf : 10 ≤ fuel) :
    run fuel CustomNode_Prep c [cnH, ctx, sh] =
      (match c.prepS with
       | .absent => some ([.nil, .nil], ⟨[]⟩)
       | s => some ((match c.prep.res with | .ok x => [GV.ofVal (prepRet s x), .nil] | .error e => [.nil, .err (.user e)]),
                    ⟨[("prep", [])]⟩)) := by
  obtain ⟨k, rfl⟩ := exists_add hf
  simp only [run, Prep_core, asAdapterStyle_of_ne hd]
  cases c.prepS <;> rfl
theorem CustomNode_Prep_refines (c : Cfg) (sid : StoreId) (hd : c.prepS ≠ .direct) :
    run F CustomNode_Prep c [cnH, ctxH, storeH sid] =
      (match c.prepS with
       | .absent => some ([.nil, .nil], ⟨[]⟩)
       | s => some ((match c.prep.res with | .ok x => [GV.ofVal (prepRet s x), .nil] | .error e => [.nil, .err (.user e)]),
                    ⟨[("prep", [])]⟩)) :=
  CustomNode_Prep_refines_of_le c ctxH (storeH sid) hd F (by decide)

theorem CustomNode_Post_refines_of_le (c : Cfg) (ctx sh : GV) (pv ev : Val) (hd : c.postS ≠ .direct) (fuel : Nat) (hf : 14 ≤ fuel) :
    run fuel CustomNode_Post c [cnH, ctx, sh, GV.ofVal pv, GV.ofVal ev] =
      (match c.postS with
       | .absent => some ([.str defaultAction, .nil], ⟨[]⟩)
       | s => some ((match c.post.res with | .ok x => [.str x, .nil] | .error e => [.str (c.post.junk.getD ""), .err (.user e)]),
                    ⟨[("post", [(postArgs s pv ev).1, (postArgs s pv ev).2])]⟩)) := by
  obtain ⟨k, rfl⟩ := exists_add hf
  simp only [run, Post_core, asAdapterStyle_of_ne hd]
  cases c.postS <;> rfl
theorem CustomNode_Post_refines (c : Cfg) (sid : StoreId) (pv ev : Val) (hd : c.postS ≠ .direct) :
    run F CustomNode_Post c [cnH, ctxH, storeH sid, GV.ofVal pv, GV.ofVal ev] =
      (match c.postS with
       | .absent => some ([.str defaultAction, .nil], ⟨[]⟩)
       | s => some ((match c.post.res with | .ok x => [.str x, .nil] | .error e => [.str (c.post.junk.getD ""), .err (.user e)]),
                    ⟨[("post", [(postArgs s pv ev).1, (postArgs s pv ev).2])]⟩)) :=
  CustomNode_Post_refines_of_le c ctxH (storeH sid) pv ev hd F (by decide)

theorem CustomNode_ExecFallback_refines_of_le (c : Cfg) (pv : Val) (er : ErrRoot) (fuel : Nat) (hf : 9 ≤ fuel) :
    run fuel CustomNode_ExecFallback c [cnH, GV.ofVal pv, .err er] =
      (match c.fb with
       | .custom => some ((match c.fbOut.res with | .ok x => [GV.ofVal x, .nil] | .error e => [.nil, .err (.user e)]), ⟨[("fb", [pv])]⟩)
       | _ => some ([.nil, .err er], ⟨[]⟩)) := by
  obtain ⟨k, rfl⟩ := exists_add hf
  simp only [run, ExecFallback_core]
  cases c.fb <;> rfl
theorem CustomNode_ExecFallback_refines (c : Cfg) (pv : Val) (er : ErrRoot) :
    run F CustomNode_ExecFallback c [cnH, GV.ofVal pv, .err er] =
      (match c.fb with
       | .custom => some ((match c.fbOut.res with | .ok x => [GV.ofVal x, .nil] | .error e => [.nil, .err (.user e)]), ⟨[("fb", [pv])]⟩)
       | _ => some ([.nil, .err er], ⟨[]⟩)) :=
  CustomNode_ExecFallback_refines_of_le c pv er F (by decide)

/-! ### the wrappers: closure 1 of `With…FuncAny` is the world's entry for an Any-style function -/

theorem wrapExec_refines_of_le (c : Cfg) (hs : c.execS = .any) (ctx : GV) (r : Result) (fuel : Nat) (hf : 8 ≤ fuel) :
    run fuel wrapExec c [ctx, .result r] = some (execFuncSem c r ⟨[]⟩) := by
  obtain ⟨k, rfl⟩ := exists_add hf
  simp only [run, wrapExec_core k c hs]; rfl
theorem wrapPrep_refines_of_le (c : Cfg) (hs : c.prepS = .any) (ctx : GV) (sid : StoreId) (fuel : Nat) (hf : 8 ≤ fuel) :
    run fuel wrapPrep c [ctx, storeH sid] = some (prepFuncSem c ⟨[]⟩) := by
  obtain ⟨k, rfl⟩ := exists_add hf
  simp only [run, storeH, wrapPrep_core k c hs]; rfl
theorem wrapPost_refines_of_le (c : Cfg) (hs : c.postS = .any) (ctx sh : GV) (p e : Result) (fuel : Nat) (hf : 10 ≤ fuel) :
    run fuel wrapPost c [ctx, sh, .result p, .result e] = some (postFuncSem c p e ⟨[]⟩) := by
  obtain ⟨k, rfl⟩ := exists_add hf
  simp only [run, wrapPost_core k c hs]; rfl

theorem WithExecFuncAny_wrapper_refines_of_le (g : Func) (hg : (closuresOf WithExecFuncAny)[1]? = some g)
    (c : Cfg) (hs : c.execS = .any) (ctx : GV) (r : Result) (fuel : Nat) (hf : 8 ≤ fuel) :
    run fuel g c [ctx, .result r] = some (execFuncSem c r ⟨[]⟩) := by
  obtain rfl : wrapExec = g := Option.some.inj (closures_WithExecFuncAny.symm.trans hg)
  exact wrapExec_refines_of_le c hs ctx r fuel hf
theorem WithPrepFuncAny_wrapper_refines_of_le (g : Func) (hg : (closuresOf WithPrepFuncAny)[1]? = some g)
    (c : Cfg) (hs : c.prepS = .any) (ctx : GV) (sid : StoreId) (fuel : Nat) (hf : 8 ≤ fuel) :
    run fuel g c [ctx, storeH sid] = some (prepFuncSem c ⟨[]⟩) := by
  obtain rfl : wrapPrep = g := Option.some.inj (closures_WithPrepFuncAny.symm.trans hg)
  exact wrapPrep_refines_of_le c hs ctx sid fuel hf
theorem WithPostFuncAny_wrapper_refines_of_le (g : Func) (hg : (closuresOf WithPostFuncAny)[1]? = some g)
    (c : Cfg) (hs : c.postS = .any) (ctx sh : GV) (p e : Result) (fuel : Nat) (hf : 10 ≤ fuel) :
    run fuel g c [ctx, sh, .result p, .result e] = some (postFuncSem c p e ⟨[]⟩) := by
  obtain rfl : wrapPost = g := Option.some.inj (closures_WithPostFuncAny.symm.trans hg)
  exact wrapPost_refines_of_le c hs ctx sh p e fuel hf

/-- at the depth of the test, on the test's arguments -/
theorem WithExecFuncAny_wrapper_refines (g : Func) (hg : (closuresOf WithExecFuncAny)[1]? = some g)
    (c : Cfg) (hs : c.execS = .any) (r : Result) : run F g c [ctxH, .result r] = some (execFuncSem c r ⟨[]⟩) :=
  WithExecFuncAny_wrapper_refines_of_le g hg c hs ctxH r F (by decide)
theorem WithPrepFuncAny_wrapper_refines (g : Func) (hg : (closuresOf WithPrepFuncAny)[1]? = some g)
    (c : Cfg) (hs : c.prepS = .any) (sid : StoreId) : run F g c [ctxH, storeH sid] = some (prepFuncSem c ⟨[]⟩) :=
  WithPrepFuncAny_wrapper_refines_of_le g hg c hs ctxH sid F (by decide)
theorem WithPostFuncAny_wrapper_refines (g : Func) (hg : (closuresOf WithPostFuncAny)[1]? = some g)
    (c : Cfg) (hs : c.postS = .any) (sid : StoreId) (p e : Result) :
    run F g c [ctxH, storeH sid, .result p, .result e] = some (postFuncSem c p e ⟨[]⟩) :=
  WithPostFuncAny_wrapper_refines_of_le g hg c hs ctxH (storeH sid) p e F (by decide)

/-! ### the builder methods' closures: the same semantic statements -/

theorem NodeBuilder_WithExecFuncAny_wrapper_refines_of_le (g : Func) (hg : g ∈ closuresOf NodeBuilder_WithExecFuncAny)
    (c : Cfg) (hs : c.execS = .any) (ctx : GV) (r : Result) (fuel : Nat) (hf : 8 ≤ fuel) :
    run fuel g c [ctx, .result r] = some (execFuncSem c r ⟨[]⟩) := by
  obtain ⟨g', hl, hc⟩ := closures_NodeBuilder_WithExecFuncAny
  rw [hl, List.mem_singleton] at hg; subst hg
  rw [run_sameCode fuel hc]; exact wrapExec_refines_of_le c hs ctx r fuel hf
theorem BatchNodeBuilder_WithExecFuncAny_wrapper_refines_of_le (g : Func) (hg : g ∈ closuresOf BatchNodeBuilder_WithExecFuncAny)
    (c : Cfg) (hs : c.execS = .any) (ctx : GV) (r : Result) (fuel : Nat) (hf : 8 ≤ fuel) :
    run fuel g c [ctx, .result r] = some (execFuncSem c r ⟨[]⟩) := by
  obtain ⟨g', hl, hc⟩ := closures_BatchNodeBuilder_WithExecFuncAny
  rw [hl, List.mem_singleton] at hg; subst hg
  rw [run_sameCode fuel hc]; exact wrapExec_refines_of_le c hs ctx r fuel hf
theorem NodeBuilder_WithPrepFuncAny_wrapper_refines_of_le (g : Func) (hg : g ∈ closuresOf NodeBuilder_WithPrepFuncAny)
    (c : Cfg) (hs : c.prepS = .any) (ctx : GV) (sid : StoreId) (fuel : Nat) (hf : 8 ≤ fuel) :
    run fuel g c [ctx, storeH sid] = some (prepFuncSem c ⟨[]⟩) := by
  obtain ⟨g', hl, hc⟩ := closures_NodeBuilder_WithPrepFuncAny
  rw [hl, List.mem_singleton] at hg; subst hg
  rw [run_sameCode fuel hc]; exact wrapPrep_refines_of_le c hs ctx sid fuel hf
theorem NodeBuilder_WithPostFuncAny_wrapper_refines_of_le (g : Func) (hg : g ∈ closuresOf NodeBuilder_WithPostFuncAny)
    (c : Cfg) (hs : c.postS = .any) (ctx sh : GV) (p e : Result) (fuel : Nat) (hf : 10 ≤ fuel) :
    run fuel g c [ctx, sh, .result p, .result e] = some (postFuncSem c p e ⟨[]⟩) := by
  obtain ⟨g', hl, hc⟩ := closures_NodeBuilder_WithPostFuncAny
  rw [hl, List.mem_singleton] at hg; subst hg
  rw [run_sameCode fuel hc]; exact wrapPost_refines_of_le c hs ctx sh p e fuel hf

/-! ## The excluded point: `Style.direct`

The hypothesis `≠ .direct` is satisfiable (every style the test enumerates satisfies it) and necessary: at `direct` the world
behaves as at `res` (`adapterWorld_styles`, the `…_core` theorems), the model-side functions are the identity. -/

example : ∀ s ∈ [Style.absent, .res, .any], s ≠ .direct := by decide

/-- a `Cfg` all of whose functions have style `s` and answer `x` (the test's `mk`) -/
def cfgOf (s : Style) (x : Val) : Cfg :=
  { prepS := s, execS := s, postS := s, fb := .passThrough, prep := { res := .ok x }, exec := { res := .ok x },
    post := { res := .ok "a" }, fbOut := { res := .ok x } }

/-- `Exec` at `direct`: the function is handed `NewResult(pv)` boxed, not `pv` (= `execArg .direct pv`) -/
theorem Exec_direct_counterexample :
    run F CustomNode_Exec (cfgOf .direct (.tok 1)) [cnH, ctxH, GV.ofVal (.tok 5)]
        = some ([GV.ofVal (.tok 1), .nil], ⟨[("exec", [.res (.tok 5) none])]⟩)
      ∧ execArg .direct (.tok 5) = .tok 5 := by
  constructor
  · simp only [run, F, Exec_core 26]; rfl
  · rfl
/-- `Exec` at `direct`: a boxed non-error `Result` answer is unwrapped (`execRet .res`), not returned as is (`execRet .direct`) -/
theorem Exec_direct_counterexample_ret :
    run F CustomNode_Exec (cfgOf .direct (.res (.tok 7) none)) [cnH, ctxH, GV.ofVal (.tok 5)]
        = some ([GV.ofVal (.tok 7), .nil], ⟨[("exec", [.res (.tok 5) none])]⟩)
      ∧ GV.ofVal (execRet .direct (.res (.tok 7) none)) = .result ⟨.tok 7, none⟩ := by
  constructor
  · simp only [run, F, Exec_core 26]; rfl
  · rfl
/-- `Prep` at `direct`: a boxed `Result` answer is unwrapped (`prepRet .res`) -/
theorem Prep_direct_counterexample :
    run F CustomNode_Prep (cfgOf .direct (.res (.tok 7) none)) [cnH, ctxH, storeH 5] = some ([GV.ofVal (.tok 7), .nil], ⟨[("prep", [])]⟩)
      ∧ GV.ofVal (prepRet .direct (.res (.tok 7) none)) = .result ⟨.tok 7, none⟩ := by
  constructor
  · simp only [run, F, Prep_core 30]; rfl
  · rfl
/-- `Post` at `direct`: the function is handed the boxed `NewResult`s, not the payloads (`postArgs .direct`) -/
theorem Post_direct_counterexample :
    run F CustomNode_Post (cfgOf .direct (.tok 1)) [cnH, ctxH, storeH 5, GV.ofVal (.tok 5), GV.ofVal (.tok 6)]
        = some ([.str "a", .nil], ⟨[("post", [.res (.tok 5) none, .res (.tok 6) none])]⟩)
      ∧ postArgs .direct (.tok 5) (.tok 6) = (.tok 5, .tok 6) := by
  constructor
  · simp only [run, F, Post_core 26]; rfl
  · rfl

/-- the statements of the test, quantified over ALL styles, are false -/
theorem Exec_false_at_direct :
    ¬ ∀ (c : Cfg) (pv : Val), run F CustomNode_Exec c [cnH, ctxH, GV.ofVal pv] =
      (match c.execS with
       | .absent => some ([.nil, .nil], ⟨[]⟩)
       | s => some ((match c.exec.res with | .ok x => [GV.ofVal (execRet s x), .nil] | .error e => [.nil, .err (.user e)]),
                    ⟨[("exec", [execArg s pv])]⟩)) := by
  intro h
  have h' := h (cfgOf .direct (.tok 1)) (.tok 5)
  rw [Exec_direct_counterexample.1] at h'
  exact absurd h' (by decide)
theorem Prep_false_at_direct :
    ¬ ∀ (c : Cfg), run F CustomNode_Prep c [cnH, ctxH, storeH 5] =
      (match c.prepS with
       | .absent => some ([.nil, .nil], ⟨[]⟩)
       | s => some ((match c.prep.res with | .ok x => [GV.ofVal (prepRet s x), .nil] | .error e => [.nil, .err (.user e)]),
                    ⟨[("prep", [])]⟩)) := by
  intro h
  have h' := h (cfgOf .direct (.res (.tok 7) none))
  rw [Prep_direct_counterexample.1] at h'
  exact absurd h' (by decide)
theorem Post_false_at_direct :
    ¬ ∀ (c : Cfg) (pv ev : Val), run F CustomNode_Post c [cnH, ctxH, storeH 5, GV.ofVal pv, GV.ofVal ev] =
      (match c.postS with
       | .absent => some ([.str defaultAction, .nil], ⟨[]⟩)
       | s => some ((match c.post.res with | .ok x => [.str x, .nil] | .error e => [.str (c.post.junk.getD ""), .err (.user e)]),
                    ⟨[("post", [(postArgs s pv ev).1, (postArgs s pv ev).2])]⟩)) := by
  intro h
  have h' := h (cfgOf .direct (.tok 1)) (.tok 5) (.tok 6)
  rw [Post_direct_counterexample.1] at h'
  exact absurd h' (by decide)

/-! ## The depth bounds are the least ones: one step less and the interpreter is out of fuel -/

example : run 13 CustomNode_Exec (cfgOf .res (.tok 1)) [cnH, ctxH, GV.ofVal (.tok 5)] = none := by decide
example : run 9 CustomNode_Prep { cfgOf .res (.tok 1) with prep := { res := .error 4 } } [cnH, ctxH, storeH 5] = none := by decide
example : run 13 CustomNode_Post (cfgOf .res (.tok 1)) [cnH, ctxH, storeH 5, GV.ofVal (.tok 5), GV.ofVal (.tok 6)] = none := by decide
example : run 8 CustomNode_ExecFallback { cfgOf .res (.tok 1) with fb := .custom } [cnH, GV.ofVal (.tok 5), .err (.user 3)] = none := by
  decide
example : run 7 wrapExec (cfgOf .any (.tok 1)) [ctxH, .result ⟨.tok 5, none⟩] = none := by decide
example : run 7 wrapPrep (cfgOf .any (.tok 1)) [ctxH, storeH 5] = none := by decide
example : run 9 wrapPost (cfgOf .any (.tok 1)) [ctxH, storeH 5, .result ⟨.tok 5, none⟩, .result ⟨.tok 6, none⟩] = none := by decide

end Flyt.Refine.Adapters
