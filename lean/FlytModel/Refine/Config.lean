import FlytModel.GoIR.ConfigWorld
import FlytModel.Expected.IR
import FlytModel.Refine.RunNode
/-!
# Refinement: the translated Go source of the configuration getters, option closures and builder chain methods
(`Flyt.Expected.IR`), run by the definitional interpreter of `GoIR/Interp.lean` in `configWorld tag` (`GoIR/ConfigWorld.lean`),
computes exactly the configuration model of `Model/Config.lean` (property C19)

One theorem per `#eval` line of the executable test `GoIR/ConfigTest.lean` (36 statements) — there checked on three sample nodes,
four sample integers and the sample tags 5 / 77, here proved for EVERY node `n : Config.Node`, every integer, every boolean, every
world tag `tag`, every user function handle `userfn k` (for the Any-style setters: every argument value `v : GV` at all, the
argument is captured by the wrapper closure and never looked at).

* getters                          `BaseNode_Get*`, `NodeBuilder_Get*`                       vs. `getMaxRetries`, `getWait`, …
* `NodeOption` closures            `optClo WithMaxRetries "retries"`, …                     vs. `applyNodeOption`
* `CustomNodeOption` closures      `optClo WithPrepFunc "fn"`, …                            vs. `applyCustomOption`
* `NodeBuilder` chain methods      `NodeBuilder_With*`                                       vs. `nodeBuilderCall`
* `BatchNodeBuilder` chain methods `BatchNodeBuilder_With*`                                  vs. `batchBuilderCall`

Which tag the model's `Step.tag` refers to: a Result-style setter stores the user function itself, `fnOf` reads `⟨k, false⟩` off
`userfn k` — the step's tag is `k`, the world's `tag` is irrelevant; an Any-style setter stores a fresh wrapper closure (the
interpreter's opaque `.ref "closure" 0`), which the world records as `⟨tag, true⟩` — the step's tag is the world's `tag`, the
argument is irrelevant. Scalar settings ignore both.

Every statement is proved at the recursion depth `f + K` for an arbitrary `f` (theorems `…_core`), `K` being the LEAST depth at
which the run is not stuck (3 … 8, see each theorem); `…_refines_of_le` is the statement at every `fuel ≥ K`, `…_refines` the one
at the constant `F = 30` of the executable test. No statement needed a side condition: all 36 hold unconditionally.

The proofs walk the program with the per-constructor unfolding lemmas of `Refine/Run.lean` (`gosimp`) and keep the world folded
behind its projections (`W_*`).
-/
namespace Flyt.Refine.Config
open Flyt Flyt.GoIR Flyt.Config Flyt.GoIR.ConfigW Flyt.Expected.IR Flyt.Refine

/-- the recursion depth of the executable test -/
def F : Nat := 30

/-- a builder-form step (the test's `step`) -/
def bldStep (s : Setting) (t : Nat) : Step := { setting := s, form := .bld, tag := t }
/-- an option-form step -/
def optStep (s : Setting) (t : Nat) : Step := { setting := s, form := .opt, tag := t }

/-- the test's `default : Func` -/
def noFunc : Func := { name := "", recv := "", params := [], body := .nil }

/-- The closure an option constructor returns, as a function of its own: the first function literal of the constructor's body, with
    the variable it captures (`cap`, the constructor's parameter) as an additional leading parameter. Same as the test's
    `withCaptured ((closuresOf f)[0]!) [cap]` (`optClo_eq_getElem!`); the default is never used (`optClo_defined`). -/
def optClo (f : Func) (cap : String) : Func := withCaptured ((closuresOf f)[0]?.getD noFunc) [cap]

theorem optClo_eq_getElem! (f : Func) (cap : String) :
    optClo f cap = (letI : Inhabited Func := ⟨noFunc⟩; withCaptured ((closuresOf f)[0]!) [cap]) := by
  simp [optClo]

theorem optClo_defined :
    ([WithMaxRetries, WithWait, WithBatchConcurrency, WithBatchErrorHandling, WithPrepFunc, WithExecFunc, WithPostFunc,
      WithExecFallbackFunc, WithPrepFuncAny, WithExecFuncAny, WithPostFuncAny].all fun f => (closuresOf f)[0]?.isSome) = true := rfl

/-! ## unfolding lemmas for the constructors `Refine/Run.lean` does not cover -/

section steps
variable {Ω : Type} (W : World Ω)
theorem stmt_expr_mcall_nil (f : Nat) (r : Expr) (m : String) (st : St Ω) :
    execStmt W (f + 1) (.expr (.mcall r m .nil)) st = (evalExpr W f (.mcall r m .nil) st).map fun (_, st1) => (.next, st1) := rfl
theorem stmt_expr_mcall_sel (f : Nat) (r : Expr) (m : String) (a : Expr) (fl : String) (st : St Ω) :
    execStmt W (f + 1) (.expr (.mcall r m (.cons (.sel a fl) .nil))) st =
      (evalExpr W f (.mcall r m (.cons (.sel a fl) .nil)) st).map fun (_, st1) => (.next, st1) := rfl
theorem stmt_defer (f : Nat) (r : Expr) (m : String) (st : St Ω) :
    execStmt W (f + 1) (.deferS (.mcall r m .nil)) st =
      (match evalExpr W f r st with
       | some ([x], st1) =>
         (match W.mcall x ("defer:" ++ m) [] st1.heap st1.w with
          | some (_, h, w) => some (.next, { st1 with heap := h, w := w })
          | none => none)
       | _ => none) := rfl
theorem expr_funcLit (f : Nat) (ps : List String) (b : Block) (st : St Ω) :
    evalExpr W (f + 1) (.funcLit ps b) st = some ([.ref "closure" 0], st) := rfl
end steps

/-! ## projections of `configWorld` -/

section world
variable (tag : Nat)
local notation "W" => configWorld tag

theorem W_BaseNode (i : Nat) (w : CW) : (W).field (.ref "node" i) "BaseNode" w = some (.ref "node" i) := rfl
theorem W_CustomNode (i : Nat) (w : CW) : (W).field (.ref "node" i) "CustomNode" w = some (.ref "node" i) := rfl
theorem W_mu (i : Nat) (w : CW) : (W).field (.ref "node" i) "mu" w = some (.ref "mutex" 0) := rfl
theorem W_maxRetries (i : Nat) (w : CW) : (W).field (.ref "node" i) "maxRetries" w = some (.int w.node.base.maxRetries) := rfl
theorem W_wait (i : Nat) (w : CW) : (W).field (.ref "node" i) "wait" w = some (.int w.node.base.wait) := rfl
theorem W_batchConcurrency (i : Nat) (w : CW) :
    (W).field (.ref "node" i) "batchConcurrency" w = some (.int w.node.base.batchConcurrency) := rfl
theorem W_batchErrorHandling (i : Nat) (w : CW) :
    (W).field (.ref "node" i) "batchErrorHandling" w = some (.str (ehStr w.node.base.batchErrorHandling)) := rfl

theorem W_RLock (i : Nat) (h : Heap) (w : CW) : (W).mcall (.ref "mutex" i) "RLock" [] h w = some ([], h, w) := rfl
theorem W_RUnlock (i : Nat) (h : Heap) (w : CW) : (W).mcall (.ref "mutex" i) "defer:RUnlock" [] h w = some ([], h, w) := rfl
theorem W_GetMaxRetries (i : Nat) (h : Heap) (w : CW) :
    (W).mcall (.ref "node" i) "GetMaxRetries" [] h w = some ([.int (getMaxRetries w.node)], h, w) := rfl
theorem W_GetWait (i : Nat) (h : Heap) (w : CW) :
    (W).mcall (.ref "node" i) "GetWait" [] h w = some ([.int (getWait w.node)], h, w) := rfl

theorem W_WithMaxRetries (r : Int) (h : Heap) (w : CW) :
    (W).call "WithMaxRetries" [.int r] h w = some ([.ref "opt" 0], h, { w with pending := some (.maxRetries r) }) := rfl
theorem W_WithWait (r : Int) (h : Heap) (w : CW) :
    (W).call "WithWait" [.int r] h w = some ([.ref "opt" 0], h, { w with pending := some (.wait r) }) := rfl
theorem W_apply (i j : Nat) (h : Heap) (nd : Node) (s : Setting) :
    (W).mcall (.ref "opt" i) "()" [.ref "node" j] h { node := nd, pending := some s } =
      some ([], h, { node := { nd with base := applyNodeOption s nd.base }, pending := none }) := rfl

theorem W_set_maxRetries (i : Nat) (r : Int) (w : CW) :
    (W).setField (.ref "node" i) "maxRetries" (.int r) w =
      some { w with node := { w.node with base := { w.node.base with maxRetries := r } } } := rfl
theorem W_set_wait (i : Nat) (r : Int) (w : CW) :
    (W).setField (.ref "node" i) "wait" (.int r) w =
      some { w with node := { w.node with base := { w.node.base with wait := r } } } := rfl
theorem W_set_batchConcurrency (i : Nat) (r : Int) (w : CW) :
    (W).setField (.ref "node" i) "batchConcurrency" (.int r) w =
      some { w with node := { w.node with base := { w.node.base with batchConcurrency := r } } } := rfl
theorem W_set_eh_cont (i : Nat) (w : CW) :
    (W).setField (.ref "node" i) "batchErrorHandling" (.str "continue") w =
      some { w with node := { w.node with base := { w.node.base with batchErrorHandling := .cont } } } := rfl
theorem W_set_eh_stop (i : Nat) (w : CW) :
    (W).setField (.ref "node" i) "batchErrorHandling" (.str "stop") w =
      some { w with node := { w.node with base := { w.node.base with batchErrorHandling := .stop } } } := rfl

/-- what a function field receives: the user function itself, or a wrapper closure (recorded under the world's tag) -/
theorem fnOf_userfn (k : Nat) : fnOf tag (userfn k) = some ⟨k, false⟩ := rfl
theorem fnOf_closure (j : Nat) : fnOf tag (.ref "closure" j) = some ⟨tag, true⟩ := rfl

theorem W_set_prepFunc (i : Nat) (v : GV) (w : CW) :
    (W).setField (.ref "node" i) "prepFunc" v w = (fnOf tag v).map fun g => { w with node := { w.node with prepFunc := some g } } := rfl
theorem W_set_execFunc (i : Nat) (v : GV) (w : CW) :
    (W).setField (.ref "node" i) "execFunc" v w = (fnOf tag v).map fun g => { w with node := { w.node with execFunc := some g } } := rfl
theorem W_set_postFunc (i : Nat) (v : GV) (w : CW) :
    (W).setField (.ref "node" i) "postFunc" v w = (fnOf tag v).map fun g => { w with node := { w.node with postFunc := some g } } := rfl
theorem W_set_execFallbackFunc (i : Nat) (v : GV) (w : CW) :
    (W).setField (.ref "node" i) "execFallbackFunc" v w =
      (fnOf tag v).map fun g => { w with node := { w.node with execFallbackFunc := some g } } := rfl
theorem W_set_batchPrepFunc (i : Nat) (v : GV) (w : CW) :
    (W).setField (.ref "node" i) "batchPrepFunc" v w =
      (fnOf tag v).map fun g => { w with node := { w.node with batchPrepFunc := some g } } := rfl
theorem W_set_batchPostFunc (i : Nat) (v : GV) (w : CW) :
    (W).setField (.ref "node" i) "batchPostFunc" v w =
      (fnOf tag v).map fun g => { w with node := { w.node with batchPostFunc := some g } } := rfl
end world

macro "cfgsimp" " [" ts:Lean.Parser.Tactic.simpLemma,* "]" : tactic =>
  `(tactic| gosimp [ConfigW.run, callFunc, expr_sel, expr_funcLit, stmt_expr_mcall_nil, stmt_expr_mcall_sel, stmt_defer,
      W_BaseNode, W_CustomNode, W_mu, W_maxRetries, W_wait, W_batchConcurrency, W_batchErrorHandling, W_RLock, W_RUnlock,
      W_GetMaxRetries, W_GetWait, W_WithMaxRetries, W_WithWait, W_apply, W_set_maxRetries, W_set_wait, W_set_batchConcurrency,
      W_set_eh_cont, W_set_eh_stop, W_set_prepFunc, W_set_execFunc, W_set_postFunc, W_set_execFallbackFunc, W_set_batchPrepFunc,
      W_set_batchPostFunc, fnOf_userfn, fnOf_closure, nodeH,
      optClo, closuresOf, withCaptured, Block.closures, Stmt.closures, Exprs.closures, Expr.closures,
      getMaxRetries, getWait, getBatchConcurrency, getBatchErrorHandling, applyNodeOption, applyCustomOption, nodeBuilderCall,
      batchBuilderCall, bldStep, optStep, $ts,*])

/-- every depth `≥ K` is `f + K` for some `f` -/
theorem exists_add {K fuel : Nat} (h : K ≤ fuel) : ∃ f, fuel = f + K := ⟨fuel - K, by omega⟩

/-! ## getters -/

theorem BaseNode_GetMaxRetries_core (f : Nat) (n : Node) (tag : Nat) :
    run (f + 7) BaseNode_GetMaxRetries tag [nodeH] n = some ([.int (getMaxRetries n)], n) := by
  cfgsimp [BaseNode_GetMaxRetries]

theorem BaseNode_GetWait_core (f : Nat) (n : Node) (tag : Nat) :
    run (f + 7) BaseNode_GetWait tag [nodeH] n = some ([.int (getWait n)], n) := by
  cfgsimp [BaseNode_GetWait]

theorem BaseNode_GetBatchConcurrency_core (f : Nat) (n : Node) (tag : Nat) :
    run (f + 7) BaseNode_GetBatchConcurrency tag [nodeH] n = some ([.int (getBatchConcurrency n)], n) := by
  cfgsimp [BaseNode_GetBatchConcurrency]

theorem BaseNode_GetBatchErrorHandling_core (f : Nat) (n : Node) (tag : Nat) :
    run (f + 8) BaseNode_GetBatchErrorHandling tag [nodeH] n = some ([.str (getBatchErrorHandling n)], n) := by
  rcases n with ⟨⟨mr, wt, bc, eh⟩, p, e, po, fb, bp, bpo⟩
  cases eh <;> cfgsimp [BaseNode_GetBatchErrorHandling, ehStr]

theorem NodeBuilder_GetMaxRetries_core (f : Nat) (n : Node) (tag : Nat) :
    run (f + 6) NodeBuilder_GetMaxRetries tag [nodeH] n = some ([.int (getMaxRetries n)], n) := by
  cfgsimp [NodeBuilder_GetMaxRetries]

theorem NodeBuilder_GetWait_core (f : Nat) (n : Node) (tag : Nat) :
    run (f + 6) NodeBuilder_GetWait tag [nodeH] n = some ([.int (getWait n)], n) := by
  cfgsimp [NodeBuilder_GetWait]

/-! ## `NodeOption` closures -/

theorem WithMaxRetries_closure_core (f : Nat) (n : Node) (r : Int) (tag : Nat) :
    run (f + 3) (optClo WithMaxRetries "retries") tag [.int r, nodeH] n =
      some ([], { n with base := applyNodeOption (.maxRetries r) n.base }) := by
  cfgsimp [WithMaxRetries]

theorem WithWait_closure_core (f : Nat) (n : Node) (r : Int) (tag : Nat) :
    run (f + 3) (optClo WithWait "wait") tag [.int r, nodeH] n =
      some ([], { n with base := applyNodeOption (.wait r) n.base }) := by
  cfgsimp [WithWait]

theorem WithBatchConcurrency_closure_core (f : Nat) (n : Node) (r : Int) (tag : Nat) :
    run (f + 3) (optClo WithBatchConcurrency "n") tag [.int r, nodeH] n =
      some ([], { n with base := applyNodeOption (.batchConcurrency r) n.base }) := by
  cfgsimp [WithBatchConcurrency]

theorem WithBatchErrorHandling_closure_core (f : Nat) (n : Node) (b : Bool) (tag : Nat) :
    run (f + 5) (optClo WithBatchErrorHandling "continueOnError") tag [.bool b, nodeH] n =
      some ([], { n with base := applyNodeOption (.batchErrorHandling b) n.base }) := by
  cases b <;> cfgsimp [WithBatchErrorHandling]

/-! ## `CustomNodeOption` closures (Result-style: the step's tag is the user function's; Any-style: the world's) -/

theorem WithPrepFunc_closure_core (f : Nat) (n : Node) (k tag : Nat) :
    run (f + 3) (optClo WithPrepFunc "fn") tag [userfn k, nodeH] n =
      some ([], applyCustomOption (optStep (.prepFn false) k) n) := by
  cfgsimp [WithPrepFunc]

theorem WithExecFunc_closure_core (f : Nat) (n : Node) (k tag : Nat) :
    run (f + 3) (optClo WithExecFunc "fn") tag [userfn k, nodeH] n =
      some ([], applyCustomOption (optStep (.execFn false) k) n) := by
  cfgsimp [WithExecFunc]

theorem WithPostFunc_closure_core (f : Nat) (n : Node) (k tag : Nat) :
    run (f + 3) (optClo WithPostFunc "fn") tag [userfn k, nodeH] n =
      some ([], applyCustomOption (optStep (.postFn false) k) n) := by
  cfgsimp [WithPostFunc]

theorem WithExecFallbackFunc_closure_core (f : Nat) (n : Node) (k tag : Nat) :
    run (f + 3) (optClo WithExecFallbackFunc "fn") tag [userfn k, nodeH] n =
      some ([], applyCustomOption (optStep .fbFn k) n) := by
  cfgsimp [WithExecFallbackFunc]

theorem WithPrepFuncAny_closure_core (f : Nat) (n : Node) (v : GV) (tag : Nat) :
    run (f + 3) (optClo WithPrepFuncAny "fn") tag [v, nodeH] n =
      some ([], applyCustomOption (optStep (.prepFn true) tag) n) := by
  cfgsimp [WithPrepFuncAny]

theorem WithExecFuncAny_closure_core (f : Nat) (n : Node) (v : GV) (tag : Nat) :
    run (f + 3) (optClo WithExecFuncAny "fn") tag [v, nodeH] n =
      some ([], applyCustomOption (optStep (.execFn true) tag) n) := by
  cfgsimp [WithExecFuncAny]

theorem WithPostFuncAny_closure_core (f : Nat) (n : Node) (v : GV) (tag : Nat) :
    run (f + 3) (optClo WithPostFuncAny "fn") tag [v, nodeH] n =
      some ([], applyCustomOption (optStep (.postFn true) tag) n) := by
  cfgsimp [WithPostFuncAny]

/-! ## `NodeBuilder` chain methods -/

theorem NodeBuilder_WithMaxRetries_core (f : Nat) (n : Node) (r : Int) (t tag : Nat) :
    run (f + 6) NodeBuilder_WithMaxRetries tag [nodeH, .int r] n = some ([nodeH], nodeBuilderCall (bldStep (.maxRetries r) t) n) := by
  cfgsimp [NodeBuilder_WithMaxRetries]

theorem NodeBuilder_WithWait_core (f : Nat) (n : Node) (r : Int) (t tag : Nat) :
    run (f + 6) NodeBuilder_WithWait tag [nodeH, .int r] n = some ([nodeH], nodeBuilderCall (bldStep (.wait r) t) n) := by
  cfgsimp [NodeBuilder_WithWait]

theorem NodeBuilder_WithBatchConcurrency_core (f : Nat) (n : Node) (r : Int) (t tag : Nat) :
    run (f + 5) NodeBuilder_WithBatchConcurrency tag [nodeH, .int r] n =
      some ([nodeH], nodeBuilderCall (bldStep (.batchConcurrency r) t) n) := by
  cfgsimp [NodeBuilder_WithBatchConcurrency]

theorem NodeBuilder_WithBatchErrorHandling_core (f : Nat) (n : Node) (b : Bool) (t tag : Nat) :
    run (f + 5) NodeBuilder_WithBatchErrorHandling tag [nodeH, .bool b] n =
      some ([nodeH], nodeBuilderCall (bldStep (.batchErrorHandling b) t) n) := by
  cases b <;> cfgsimp [NodeBuilder_WithBatchErrorHandling]

theorem NodeBuilder_WithPrepFunc_core (f : Nat) (n : Node) (k tag : Nat) :
    run (f + 5) NodeBuilder_WithPrepFunc tag [nodeH, userfn k] n = some ([nodeH], nodeBuilderCall (bldStep (.prepFn false) k) n) := by
  cfgsimp [NodeBuilder_WithPrepFunc]

theorem NodeBuilder_WithExecFunc_core (f : Nat) (n : Node) (k tag : Nat) :
    run (f + 5) NodeBuilder_WithExecFunc tag [nodeH, userfn k] n = some ([nodeH], nodeBuilderCall (bldStep (.execFn false) k) n) := by
  cfgsimp [NodeBuilder_WithExecFunc]

theorem NodeBuilder_WithPostFunc_core (f : Nat) (n : Node) (k tag : Nat) :
    run (f + 5) NodeBuilder_WithPostFunc tag [nodeH, userfn k] n = some ([nodeH], nodeBuilderCall (bldStep (.postFn false) k) n) := by
  cfgsimp [NodeBuilder_WithPostFunc]

theorem NodeBuilder_WithExecFallbackFunc_core (f : Nat) (n : Node) (k tag : Nat) :
    run (f + 5) NodeBuilder_WithExecFallbackFunc tag [nodeH, userfn k] n = some ([nodeH], nodeBuilderCall (bldStep .fbFn k) n) := by
  cfgsimp [NodeBuilder_WithExecFallbackFunc]

theorem NodeBuilder_WithPrepFuncAny_core (f : Nat) (n : Node) (v : GV) (tag : Nat) :
    run (f + 5) NodeBuilder_WithPrepFuncAny tag [nodeH, v] n = some ([nodeH], nodeBuilderCall (bldStep (.prepFn true) tag) n) := by
  cfgsimp [NodeBuilder_WithPrepFuncAny]

theorem NodeBuilder_WithExecFuncAny_core (f : Nat) (n : Node) (v : GV) (tag : Nat) :
    run (f + 5) NodeBuilder_WithExecFuncAny tag [nodeH, v] n = some ([nodeH], nodeBuilderCall (bldStep (.execFn true) tag) n) := by
  cfgsimp [NodeBuilder_WithExecFuncAny]

theorem NodeBuilder_WithPostFuncAny_core (f : Nat) (n : Node) (v : GV) (tag : Nat) :
    run (f + 5) NodeBuilder_WithPostFuncAny tag [nodeH, v] n = some ([nodeH], nodeBuilderCall (bldStep (.postFn true) tag) n) := by
  cfgsimp [NodeBuilder_WithPostFuncAny]

/-! ## `BatchNodeBuilder` chain methods -/

theorem BatchNodeBuilder_WithMaxRetries_core (f : Nat) (n : Node) (r : Int) (t tag : Nat) :
    run (f + 6) BatchNodeBuilder_WithMaxRetries tag [nodeH, .int r] n =
      some ([nodeH], batchBuilderCall (bldStep (.maxRetries r) t) n) := by
  cfgsimp [BatchNodeBuilder_WithMaxRetries]

theorem BatchNodeBuilder_WithWait_core (f : Nat) (n : Node) (r : Int) (t tag : Nat) :
    run (f + 6) BatchNodeBuilder_WithWait tag [nodeH, .int r] n = some ([nodeH], batchBuilderCall (bldStep (.wait r) t) n) := by
  cfgsimp [BatchNodeBuilder_WithWait]

theorem BatchNodeBuilder_WithBatchConcurrency_core (f : Nat) (n : Node) (r : Int) (t tag : Nat) :
    run (f + 5) BatchNodeBuilder_WithBatchConcurrency tag [nodeH, .int r] n =
      some ([nodeH], batchBuilderCall (bldStep (.batchConcurrency r) t) n) := by
  cfgsimp [BatchNodeBuilder_WithBatchConcurrency]

theorem BatchNodeBuilder_WithBatchErrorHandling_core (f : Nat) (n : Node) (b : Bool) (t tag : Nat) :
    run (f + 5) BatchNodeBuilder_WithBatchErrorHandling tag [nodeH, .bool b] n =
      some ([nodeH], batchBuilderCall (bldStep (.batchErrorHandling b) t) n) := by
  cases b <;> cfgsimp [BatchNodeBuilder_WithBatchErrorHandling]

theorem BatchNodeBuilder_WithPrepFunc_core (f : Nat) (n : Node) (k tag : Nat) :
    run (f + 5) BatchNodeBuilder_WithPrepFunc tag [nodeH, userfn k] n =
      some ([nodeH], batchBuilderCall (bldStep (.prepFn false) k) n) := by
  cfgsimp [BatchNodeBuilder_WithPrepFunc]

theorem BatchNodeBuilder_WithExecFunc_core (f : Nat) (n : Node) (k tag : Nat) :
    run (f + 5) BatchNodeBuilder_WithExecFunc tag [nodeH, userfn k] n =
      some ([nodeH], batchBuilderCall (bldStep (.execFn false) k) n) := by
  cfgsimp [BatchNodeBuilder_WithExecFunc]

theorem BatchNodeBuilder_WithPostFunc_core (f : Nat) (n : Node) (k tag : Nat) :
    run (f + 5) BatchNodeBuilder_WithPostFunc tag [nodeH, userfn k] n =
      some ([nodeH], batchBuilderCall (bldStep (.postFn false) k) n) := by
  cfgsimp [BatchNodeBuilder_WithPostFunc]

theorem BatchNodeBuilder_WithExecFuncAny_core (f : Nat) (n : Node) (v : GV) (tag : Nat) :
    run (f + 5) BatchNodeBuilder_WithExecFuncAny tag [nodeH, v] n =
      some ([nodeH], batchBuilderCall (bldStep (.execFn true) tag) n) := by
  cfgsimp [BatchNodeBuilder_WithExecFuncAny]

/-! ## The statements at every recursion depth `fuel ≥ K` (`…_refines_of_le`) and at the depth `F = 30` of the executable test -/

theorem BaseNode_GetMaxRetries_refines_of_le (n : Node) (tag : Nat) (fuel : Nat) (h : 7 ≤ fuel) :
    run fuel BaseNode_GetMaxRetries tag [nodeH] n = some ([.int (getMaxRetries n)], n) := by
  obtain ⟨f, rfl⟩ := exists_add h
  exact BaseNode_GetMaxRetries_core f n tag
theorem BaseNode_GetMaxRetries_refines (n : Node) (tag : Nat) :
    run F BaseNode_GetMaxRetries tag [nodeH] n = some ([.int (getMaxRetries n)], n) :=
  BaseNode_GetMaxRetries_core 23 n tag

theorem BaseNode_GetWait_refines_of_le (n : Node) (tag : Nat) (fuel : Nat) (h : 7 ≤ fuel) :
    run fuel BaseNode_GetWait tag [nodeH] n = some ([.int (getWait n)], n) := by
  obtain ⟨f, rfl⟩ := exists_add h
  exact BaseNode_GetWait_core f n tag
theorem BaseNode_GetWait_refines (n : Node) (tag : Nat) :
    run F BaseNode_GetWait tag [nodeH] n = some ([.int (getWait n)], n) :=
  BaseNode_GetWait_core 23 n tag

theorem BaseNode_GetBatchConcurrency_refines_of_le (n : Node) (tag : Nat) (fuel : Nat) (h : 7 ≤ fuel) :
    run fuel BaseNode_GetBatchConcurrency tag [nodeH] n = some ([.int (getBatchConcurrency n)], n) := by
  obtain ⟨f, rfl⟩ := exists_add h
  exact BaseNode_GetBatchConcurrency_core f n tag
theorem BaseNode_GetBatchConcurrency_refines (n : Node) (tag : Nat) :
    run F BaseNode_GetBatchConcurrency tag [nodeH] n = some ([.int (getBatchConcurrency n)], n) :=
  BaseNode_GetBatchConcurrency_core 23 n tag

theorem BaseNode_GetBatchErrorHandling_refines_of_le (n : Node) (tag : Nat) (fuel : Nat) (h : 8 ≤ fuel) :
    run fuel BaseNode_GetBatchErrorHandling tag [nodeH] n = some ([.str (getBatchErrorHandling n)], n) := by
  obtain ⟨f, rfl⟩ := exists_add h
  exact BaseNode_GetBatchErrorHandling_core f n tag
theorem BaseNode_GetBatchErrorHandling_refines (n : Node) (tag : Nat) :
    run F BaseNode_GetBatchErrorHandling tag [nodeH] n = some ([.str (getBatchErrorHandling n)], n) :=
  BaseNode_GetBatchErrorHandling_core 22 n tag

theorem NodeBuilder_GetMaxRetries_refines_of_le (n : Node) (tag : Nat) (fuel : Nat) (h : 6 ≤ fuel) :
    run fuel NodeBuilder_GetMaxRetries tag [nodeH] n = some ([.int (getMaxRetries n)], n) := by
  obtain ⟨f, rfl⟩ := exists_add h
  exact NodeBuilder_GetMaxRetries_core f n tag
theorem NodeBuilder_GetMaxRetries_refines (n : Node) (tag : Nat) :
    run F NodeBuilder_GetMaxRetries tag [nodeH] n = some ([.int (getMaxRetries n)], n) :=
  NodeBuilder_GetMaxRetries_core 24 n tag

theorem NodeBuilder_GetWait_refines_of_le (n : Node) (tag : Nat) (fuel : Nat) (h : 6 ≤ fuel) :
    run fuel NodeBuilder_GetWait tag [nodeH] n = some ([.int (getWait n)], n) := by
  obtain ⟨f, rfl⟩ := exists_add h
  exact NodeBuilder_GetWait_core f n tag
theorem NodeBuilder_GetWait_refines (n : Node) (tag : Nat) :
    run F NodeBuilder_GetWait tag [nodeH] n = some ([.int (getWait n)], n) :=
  NodeBuilder_GetWait_core 24 n tag

theorem WithMaxRetries_closure_refines_of_le (n : Node) (r : Int) (tag : Nat) (fuel : Nat) (h : 3 ≤ fuel) :
    run fuel (optClo WithMaxRetries "retries") tag [.int r, nodeH] n =
      some ([], { n with base := applyNodeOption (.maxRetries r) n.base }) := by
  obtain ⟨f, rfl⟩ := exists_add h
  exact WithMaxRetries_closure_core f n r tag
theorem WithMaxRetries_closure_refines (n : Node) (r : Int) (tag : Nat) :
    run F (optClo WithMaxRetries "retries") tag [.int r, nodeH] n =
      some ([], { n with base := applyNodeOption (.maxRetries r) n.base }) :=
  WithMaxRetries_closure_core 27 n r tag

theorem WithWait_closure_refines_of_le (n : Node) (r : Int) (tag : Nat) (fuel : Nat) (h : 3 ≤ fuel) :
    run fuel (optClo WithWait "wait") tag [.int r, nodeH] n = some ([], { n with base := applyNodeOption (.wait r) n.base }) := by
  obtain ⟨f, rfl⟩ := exists_add h
  exact WithWait_closure_core f n r tag
theorem WithWait_closure_refines (n : Node) (r : Int) (tag : Nat) :
    run F (optClo WithWait "wait") tag [.int r, nodeH] n = some ([], { n with base := applyNodeOption (.wait r) n.base }) :=
  WithWait_closure_core 27 n r tag

theorem WithBatchConcurrency_closure_refines_of_le (n : Node) (r : Int) (tag : Nat) (fuel : Nat) (h : 3 ≤ fuel) :
    run fuel (optClo WithBatchConcurrency "n") tag [.int r, nodeH] n =
      some ([], { n with base := applyNodeOption (.batchConcurrency r) n.base }) := by
  obtain ⟨f, rfl⟩ := exists_add h
  exact WithBatchConcurrency_closure_core f n r tag
theorem WithBatchConcurrency_closure_refines (n : Node) (r : Int) (tag : Nat) :
    run F (optClo WithBatchConcurrency "n") tag [.int r, nodeH] n =
      some ([], { n with base := applyNodeOption (.batchConcurrency r) n.base }) :=
  WithBatchConcurrency_closure_core 27 n r tag

theorem WithBatchErrorHandling_closure_refines_of_le (n : Node) (b : Bool) (tag : Nat) (fuel : Nat) (h : 5 ≤ fuel) :
    run fuel (optClo WithBatchErrorHandling "continueOnError") tag [.bool b, nodeH] n =
      some ([], { n with base := applyNodeOption (.batchErrorHandling b) n.base }) := by
  obtain ⟨f, rfl⟩ := exists_add h
  exact WithBatchErrorHandling_closure_core f n b tag
theorem WithBatchErrorHandling_closure_refines (n : Node) (b : Bool) (tag : Nat) :
    run F (optClo WithBatchErrorHandling "continueOnError") tag [.bool b, nodeH] n =
      some ([], { n with base := applyNodeOption (.batchErrorHandling b) n.base }) :=
  WithBatchErrorHandling_closure_core 25 n b tag

theorem WithPrepFunc_closure_refines_of_le (n : Node) (k tag : Nat) (fuel : Nat) (h : 3 ≤ fuel) :
    run fuel (optClo WithPrepFunc "fn") tag [userfn k, nodeH] n = some ([], applyCustomOption (optStep (.prepFn false) k) n) := by
  obtain ⟨f, rfl⟩ := exists_add h
  exact WithPrepFunc_closure_core f n k tag
theorem WithPrepFunc_closure_refines (n : Node) (k tag : Nat) :
    run F (optClo WithPrepFunc "fn") tag [userfn k, nodeH] n = some ([], applyCustomOption (optStep (.prepFn false) k) n) :=
  WithPrepFunc_closure_core 27 n k tag

theorem WithExecFunc_closure_refines_of_le (n : Node) (k tag : Nat) (fuel : Nat) (h : 3 ≤ fuel) :
    run fuel (optClo WithExecFunc "fn") tag [userfn k, nodeH] n = some ([], applyCustomOption (optStep (.execFn false) k) n) := by
  obtain ⟨f, rfl⟩ := exists_add h
  exact WithExecFunc_closure_core f n k tag
theorem WithExecFunc_closure_refines (n : Node) (k tag : Nat) :
    run F (optClo WithExecFunc "fn") tag [userfn k, nodeH] n = some ([], applyCustomOption (optStep (.execFn false) k) n) :=
  WithExecFunc_closure_core 27 n k tag

theorem WithPostFunc_closure_refines_of_le (n : Node) (k tag : Nat) (fuel : Nat) (h : 3 ≤ fuel) :
    run fuel (optClo WithPostFunc "fn") tag [userfn k, nodeH] n = some ([], applyCustomOption (optStep (.postFn false) k) n) := by
  obtain ⟨f, rfl⟩ := exists_add h
  exact WithPostFunc_closure_core f n k tag
theorem WithPostFunc_closure_refines (n : Node) (k tag : Nat) :
    run F (optClo WithPostFunc "fn") tag [userfn k, nodeH] n = some ([], applyCustomOption (optStep (.postFn false) k) n) :=
  WithPostFunc_closure_core 27 n k tag

theorem WithExecFallbackFunc_closure_refines_of_le (n : Node) (k tag : Nat) (fuel : Nat) (h : 3 ≤ fuel) :
    run fuel (optClo WithExecFallbackFunc "fn") tag [userfn k, nodeH] n = some ([], applyCustomOption (optStep .fbFn k) n) := by
  obtain ⟨f, rfl⟩ := exists_add h
  exact WithExecFallbackFunc_closure_core f n k tag
theorem WithExecFallbackFunc_closure_refines (n : Node) (k tag : Nat) :
    run F (optClo WithExecFallbackFunc "fn") tag [userfn k, nodeH] n = some ([], applyCustomOption (optStep .fbFn k) n) :=
  WithExecFallbackFunc_closure_core 27 n k tag

theorem WithPrepFuncAny_closure_refines_of_le (n : Node) (v : GV) (tag : Nat) (fuel : Nat) (h : 3 ≤ fuel) :
    run fuel (optClo WithPrepFuncAny "fn") tag [v, nodeH] n = some ([], applyCustomOption (optStep (.prepFn true) tag) n) := by
  obtain ⟨f, rfl⟩ := exists_add h
  exact WithPrepFuncAny_closure_core f n v tag
theorem WithPrepFuncAny_closure_refines (n : Node) (v : GV) (tag : Nat) :
    run F (optClo WithPrepFuncAny "fn") tag [v, nodeH] n = some ([], applyCustomOption (optStep (.prepFn true) tag) n) :=
  WithPrepFuncAny_closure_core 27 n v tag

theorem WithExecFuncAny_closure_refines_of_le (n : Node) (v : GV) (tag : Nat) (fuel : Nat) (h : 3 ≤ fuel) :
    run fuel (optClo WithExecFuncAny "fn") tag [v, nodeH] n = some ([], applyCustomOption (optStep (.execFn true) tag) n) := by
  obtain ⟨f, rfl⟩ := exists_add h
  exact WithExecFuncAny_closure_core f n v tag
theorem WithExecFuncAny_closure_refines (n : Node) (v : GV) (tag : Nat) :
    run F (optClo WithExecFuncAny "fn") tag [v, nodeH] n = some ([], applyCustomOption (optStep (.execFn true) tag) n) :=
  WithExecFuncAny_closure_core 27 n v tag

theorem WithPostFuncAny_closure_refines_of_le (n : Node) (v : GV) (tag : Nat) (fuel : Nat) (h : 3 ≤ fuel) :
    run fuel (optClo WithPostFuncAny "fn") tag [v, nodeH] n = some ([], applyCustomOption (optStep (.postFn true) tag) n) := by
  obtain ⟨f, rfl⟩ := exists_add h
  exact WithPostFuncAny_closure_core f n v tag
theorem WithPostFuncAny_closure_refines (n : Node) (v : GV) (tag : Nat) :
    run F (optClo WithPostFuncAny "fn") tag [v, nodeH] n = some ([], applyCustomOption (optStep (.postFn true) tag) n) :=
  WithPostFuncAny_closure_core 27 n v tag

theorem NodeBuilder_WithMaxRetries_refines_of_le (n : Node) (r : Int) (t tag : Nat) (fuel : Nat) (h : 6 ≤ fuel) :
    run fuel NodeBuilder_WithMaxRetries tag [nodeH, .int r] n = some ([nodeH], nodeBuilderCall (bldStep (.maxRetries r) t) n) := by
  obtain ⟨f, rfl⟩ := exists_add h
  exact NodeBuilder_WithMaxRetries_core f n r t tag
theorem NodeBuilder_WithMaxRetries_refines (n : Node) (r : Int) (t tag : Nat) :
    run F NodeBuilder_WithMaxRetries tag [nodeH, .int r] n = some ([nodeH], nodeBuilderCall (bldStep (.maxRetries r) t) n) :=
  NodeBuilder_WithMaxRetries_core 24 n r t tag

theorem NodeBuilder_WithWait_refines_of_le (n : Node) (r : Int) (t tag : Nat) (fuel : Nat) (h : 6 ≤ fuel) :
    run fuel NodeBuilder_WithWait tag [nodeH, .int r] n = some ([nodeH], nodeBuilderCall (bldStep (.wait r) t) n) := by
  obtain ⟨f, rfl⟩ := exists_add h
  exact NodeBuilder_WithWait_core f n r t tag
theorem NodeBuilder_WithWait_refines (n : Node) (r : Int) (t tag : Nat) :
    run F NodeBuilder_WithWait tag [nodeH, .int r] n = some ([nodeH], nodeBuilderCall (bldStep (.wait r) t) n) :=
  NodeBuilder_WithWait_core 24 n r t tag

theorem NodeBuilder_WithBatchConcurrency_refines_of_le (n : Node) (r : Int) (t tag : Nat) (fuel : Nat) (h : 5 ≤ fuel) :
    run fuel NodeBuilder_WithBatchConcurrency tag [nodeH, .int r] n =
      some ([nodeH], nodeBuilderCall (bldStep (.batchConcurrency r) t) n) := by
  obtain ⟨f, rfl⟩ := exists_add h
  exact NodeBuilder_WithBatchConcurrency_core f n r t tag
theorem NodeBuilder_WithBatchConcurrency_refines (n : Node) (r : Int) (t tag : Nat) :
    run F NodeBuilder_WithBatchConcurrency tag [nodeH, .int r] n =
      some ([nodeH], nodeBuilderCall (bldStep (.batchConcurrency r) t) n) :=
  NodeBuilder_WithBatchConcurrency_core 25 n r t tag

theorem NodeBuilder_WithBatchErrorHandling_refines_of_le (n : Node) (b : Bool) (t tag : Nat) (fuel : Nat) (h : 5 ≤ fuel) :
    run fuel NodeBuilder_WithBatchErrorHandling tag [nodeH, .bool b] n =
      some ([nodeH], nodeBuilderCall (bldStep (.batchErrorHandling b) t) n) := by
  obtain ⟨f, rfl⟩ := exists_add h
  exact NodeBuilder_WithBatchErrorHandling_core f n b t tag
theorem NodeBuilder_WithBatchErrorHandling_refines (n : Node) (b : Bool) (t tag : Nat) :
    run F NodeBuilder_WithBatchErrorHandling tag [nodeH, .bool b] n =
      some ([nodeH], nodeBuilderCall (bldStep (.batchErrorHandling b) t) n) :=
  NodeBuilder_WithBatchErrorHandling_core 25 n b t tag

theorem NodeBuilder_WithPrepFunc_refines_of_le (n : Node) (k tag : Nat) (fuel : Nat) (h : 5 ≤ fuel) :
    run fuel NodeBuilder_WithPrepFunc tag [nodeH, userfn k] n = some ([nodeH], nodeBuilderCall (bldStep (.prepFn false) k) n) := by
  obtain ⟨f, rfl⟩ := exists_add h
  exact NodeBuilder_WithPrepFunc_core f n k tag
theorem NodeBuilder_WithPrepFunc_refines (n : Node) (k tag : Nat) :
    run F NodeBuilder_WithPrepFunc tag [nodeH, userfn k] n = some ([nodeH], nodeBuilderCall (bldStep (.prepFn false) k) n) :=
  NodeBuilder_WithPrepFunc_core 25 n k tag

theorem NodeBuilder_WithExecFunc_refines_of_le (n : Node) (k tag : Nat) (fuel : Nat) (h : 5 ≤ fuel) :
    run fuel NodeBuilder_WithExecFunc tag [nodeH, userfn k] n = some ([nodeH], nodeBuilderCall (bldStep (.execFn false) k) n) := by
  obtain ⟨f, rfl⟩ := exists_add h
  exact NodeBuilder_WithExecFunc_core f n k tag
theorem NodeBuilder_WithExecFunc_refines (n : Node) (k tag : Nat) :
    run F NodeBuilder_WithExecFunc tag [nodeH, userfn k] n = some ([nodeH], nodeBuilderCall (bldStep (.execFn false) k) n) :=
  NodeBuilder_WithExecFunc_core 25 n k tag

theorem NodeBuilder_WithPostFunc_refines_of_le (n : Node) (k tag : Nat) (fuel : Nat) (h : 5 ≤ fuel) :
    run fuel NodeBuilder_WithPostFunc tag [nodeH, userfn k] n = some ([nodeH], nodeBuilderCall (bldStep (.postFn false) k) n) := by
  obtain ⟨f, rfl⟩ := exists_add h
  exact NodeBuilder_WithPostFunc_core f n k tag
theorem NodeBuilder_WithPostFunc_refines (n : Node) (k tag : Nat) :
    run F NodeBuilder_WithPostFunc tag [nodeH, userfn k] n = some ([nodeH], nodeBuilderCall (bldStep (.postFn false) k) n) :=
  NodeBuilder_WithPostFunc_core 25 n k tag

theorem NodeBuilder_WithExecFallbackFunc_refines_of_le (n : Node) (k tag : Nat) (fuel : Nat) (h : 5 ≤ fuel) :
    run fuel NodeBuilder_WithExecFallbackFunc tag [nodeH, userfn k] n = some ([nodeH], nodeBuilderCall (bldStep .fbFn k) n) := by
  obtain ⟨f, rfl⟩ := exists_add h
  exact NodeBuilder_WithExecFallbackFunc_core f n k tag
theorem NodeBuilder_WithExecFallbackFunc_refines (n : Node) (k tag : Nat) :
    run F NodeBuilder_WithExecFallbackFunc tag [nodeH, userfn k] n = some ([nodeH], nodeBuilderCall (bldStep .fbFn k) n) :=
  NodeBuilder_WithExecFallbackFunc_core 25 n k tag

theorem NodeBuilder_WithPrepFuncAny_refines_of_le (n : Node) (v : GV) (tag : Nat) (fuel : Nat) (h : 5 ≤ fuel) :
    run fuel NodeBuilder_WithPrepFuncAny tag [nodeH, v] n = some ([nodeH], nodeBuilderCall (bldStep (.prepFn true) tag) n) := by
  obtain ⟨f, rfl⟩ := exists_add h
  exact NodeBuilder_WithPrepFuncAny_core f n v tag
theorem NodeBuilder_WithPrepFuncAny_refines (n : Node) (v : GV) (tag : Nat) :
    run F NodeBuilder_WithPrepFuncAny tag [nodeH, v] n = some ([nodeH], nodeBuilderCall (bldStep (.prepFn true) tag) n) :=
  NodeBuilder_WithPrepFuncAny_core 25 n v tag

theorem NodeBuilder_WithExecFuncAny_refines_of_le (n : Node) (v : GV) (tag : Nat) (fuel : Nat) (h : 5 ≤ fuel) :
    run fuel NodeBuilder_WithExecFuncAny tag [nodeH, v] n = some ([nodeH], nodeBuilderCall (bldStep (.execFn true) tag) n) := by
  obtain ⟨f, rfl⟩ := exists_add h
  exact NodeBuilder_WithExecFuncAny_core f n v tag
theorem NodeBuilder_WithExecFuncAny_refines (n : Node) (v : GV) (tag : Nat) :
    run F NodeBuilder_WithExecFuncAny tag [nodeH, v] n = some ([nodeH], nodeBuilderCall (bldStep (.execFn true) tag) n) :=
  NodeBuilder_WithExecFuncAny_core 25 n v tag

theorem NodeBuilder_WithPostFuncAny_refines_of_le (n : Node) (v : GV) (tag : Nat) (fuel : Nat) (h : 5 ≤ fuel) :
    run fuel NodeBuilder_WithPostFuncAny tag [nodeH, v] n = some ([nodeH], nodeBuilderCall (bldStep (.postFn true) tag) n) := by
  obtain ⟨f, rfl⟩ := exists_add h
  exact NodeBuilder_WithPostFuncAny_core f n v tag
theorem NodeBuilder_WithPostFuncAny_refines (n : Node) (v : GV) (tag : Nat) :
    run F NodeBuilder_WithPostFuncAny tag [nodeH, v] n = some ([nodeH], nodeBuilderCall (bldStep (.postFn true) tag) n) :=
  NodeBuilder_WithPostFuncAny_core 25 n v tag

theorem BatchNodeBuilder_WithMaxRetries_refines_of_le (n : Node) (r : Int) (t tag : Nat) (fuel : Nat) (h : 6 ≤ fuel) :
    run fuel BatchNodeBuilder_WithMaxRetries tag [nodeH, .int r] n =
      some ([nodeH], batchBuilderCall (bldStep (.maxRetries r) t) n) := by
  obtain ⟨f, rfl⟩ := exists_add h
  exact BatchNodeBuilder_WithMaxRetries_core f n r t tag
theorem BatchNodeBuilder_WithMaxRetries_refines (n : Node) (r : Int) (t tag : Nat) :
    run F BatchNodeBuilder_WithMaxRetries tag [nodeH, .int r] n = some ([nodeH], batchBuilderCall (bldStep (.maxRetries r) t) n) :=
  BatchNodeBuilder_WithMaxRetries_core 24 n r t tag

theorem BatchNodeBuilder_WithWait_refines_of_le (n : Node) (r : Int) (t tag : Nat) (fuel : Nat) (h : 6 ≤ fuel) :
    run fuel BatchNodeBuilder_WithWait tag [nodeH, .int r] n = some ([nodeH], batchBuilderCall (bldStep (.wait r) t) n) := by
  obtain ⟨f, rfl⟩ := exists_add h
  exact BatchNodeBuilder_WithWait_core f n r t tag
theorem BatchNodeBuilder_WithWait_refines (n : Node) (r : Int) (t tag : Nat) :
    run F BatchNodeBuilder_WithWait tag [nodeH, .int r] n = some ([nodeH], batchBuilderCall (bldStep (.wait r) t) n) :=
  BatchNodeBuilder_WithWait_core 24 n r t tag

theorem BatchNodeBuilder_WithBatchConcurrency_refines_of_le (n : Node) (r : Int) (t tag : Nat) (fuel : Nat) (h : 5 ≤ fuel) :
    run fuel BatchNodeBuilder_WithBatchConcurrency tag [nodeH, .int r] n =
      some ([nodeH], batchBuilderCall (bldStep (.batchConcurrency r) t) n) := by
  obtain ⟨f, rfl⟩ := exists_add h
  exact BatchNodeBuilder_WithBatchConcurrency_core f n r t tag
theorem BatchNodeBuilder_WithBatchConcurrency_refines (n : Node) (r : Int) (t tag : Nat) :
    run F BatchNodeBuilder_WithBatchConcurrency tag [nodeH, .int r] n =
      some ([nodeH], batchBuilderCall (bldStep (.batchConcurrency r) t) n) :=
  BatchNodeBuilder_WithBatchConcurrency_core 25 n r t tag

theorem BatchNodeBuilder_WithBatchErrorHandling_refines_of_le (n : Node) (b : Bool) (t tag : Nat) (fuel : Nat) (h : 5 ≤ fuel) :
    run fuel BatchNodeBuilder_WithBatchErrorHandling tag [nodeH, .bool b] n =
      some ([nodeH], batchBuilderCall (bldStep (.batchErrorHandling b) t) n) := by
  obtain ⟨f, rfl⟩ := exists_add h
  exact BatchNodeBuilder_WithBatchErrorHandling_core f n b t tag
theorem BatchNodeBuilder_WithBatchErrorHandling_refines (n : Node) (b : Bool) (t tag : Nat) :
    run F BatchNodeBuilder_WithBatchErrorHandling tag [nodeH, .bool b] n =
      some ([nodeH], batchBuilderCall (bldStep (.batchErrorHandling b) t) n) :=
  BatchNodeBuilder_WithBatchErrorHandling_core 25 n b t tag

theorem BatchNodeBuilder_WithPrepFunc_refines_of_le (n : Node) (k tag : Nat) (fuel : Nat) (h : 5 ≤ fuel) :
    run fuel BatchNodeBuilder_WithPrepFunc tag [nodeH, userfn k] n =
      some ([nodeH], batchBuilderCall (bldStep (.prepFn false) k) n) := by
  obtain ⟨f, rfl⟩ := exists_add h
  exact BatchNodeBuilder_WithPrepFunc_core f n k tag
theorem BatchNodeBuilder_WithPrepFunc_refines (n : Node) (k tag : Nat) :
    run F BatchNodeBuilder_WithPrepFunc tag [nodeH, userfn k] n = some ([nodeH], batchBuilderCall (bldStep (.prepFn false) k) n) :=
  BatchNodeBuilder_WithPrepFunc_core 25 n k tag

theorem BatchNodeBuilder_WithExecFunc_refines_of_le (n : Node) (k tag : Nat) (fuel : Nat) (h : 5 ≤ fuel) :
    run fuel BatchNodeBuilder_WithExecFunc tag [nodeH, userfn k] n =
      some ([nodeH], batchBuilderCall (bldStep (.execFn false) k) n) := by
  obtain ⟨f, rfl⟩ := exists_add h
  exact BatchNodeBuilder_WithExecFunc_core f n k tag
theorem BatchNodeBuilder_WithExecFunc_refines (n : Node) (k tag : Nat) :
    run F BatchNodeBuilder_WithExecFunc tag [nodeH, userfn k] n = some ([nodeH], batchBuilderCall (bldStep (.execFn false) k) n) :=
  BatchNodeBuilder_WithExecFunc_core 25 n k tag

theorem BatchNodeBuilder_WithPostFunc_refines_of_le (n : Node) (k tag : Nat) (fuel : Nat) (h : 5 ≤ fuel) :
    run fuel BatchNodeBuilder_WithPostFunc tag [nodeH, userfn k] n =
      some ([nodeH], batchBuilderCall (bldStep (.postFn false) k) n) := by
  obtain ⟨f, rfl⟩ := exists_add h
  exact BatchNodeBuilder_WithPostFunc_core f n k tag
theorem BatchNodeBuilder_WithPostFunc_refines (n : Node) (k tag : Nat) :
    run F BatchNodeBuilder_WithPostFunc tag [nodeH, userfn k] n = some ([nodeH], batchBuilderCall (bldStep (.postFn false) k) n) :=
  BatchNodeBuilder_WithPostFunc_core 25 n k tag

theorem BatchNodeBuilder_WithExecFuncAny_refines_of_le (n : Node) (v : GV) (tag : Nat) (fuel : Nat) (h : 5 ≤ fuel) :
    run fuel BatchNodeBuilder_WithExecFuncAny tag [nodeH, v] n = some ([nodeH], batchBuilderCall (bldStep (.execFn true) tag) n) := by
  obtain ⟨f, rfl⟩ := exists_add h
  exact BatchNodeBuilder_WithExecFuncAny_core f n v tag
theorem BatchNodeBuilder_WithExecFuncAny_refines (n : Node) (v : GV) (tag : Nat) :
    run F BatchNodeBuilder_WithExecFuncAny tag [nodeH, v] n = some ([nodeH], batchBuilderCall (bldStep (.execFn true) tag) n) :=
  BatchNodeBuilder_WithExecFuncAny_core 25 n v tag

/-! ## The depths are the least possible: one unit less and the run is stuck (checked on `emptyNode`; by fuel monotonicity,
`Refine/Mono.lean`, so is every shallower run) -/

theorem depths_tight :
    ([run 6 BaseNode_GetMaxRetries 0 [nodeH] emptyNode, run 6 BaseNode_GetWait 0 [nodeH] emptyNode,
      run 6 BaseNode_GetBatchConcurrency 0 [nodeH] emptyNode, run 7 BaseNode_GetBatchErrorHandling 0 [nodeH] emptyNode,
      run 5 NodeBuilder_GetMaxRetries 0 [nodeH] emptyNode, run 5 NodeBuilder_GetWait 0 [nodeH] emptyNode,
      run 2 (optClo WithMaxRetries "retries") 0 [.int 0, nodeH] emptyNode, run 2 (optClo WithWait "wait") 0 [.int 0, nodeH] emptyNode,
      run 2 (optClo WithBatchConcurrency "n") 0 [.int 0, nodeH] emptyNode,
      run 4 (optClo WithBatchErrorHandling "continueOnError") 0 [.bool true, nodeH] emptyNode,
      run 4 (optClo WithBatchErrorHandling "continueOnError") 0 [.bool false, nodeH] emptyNode,
      run 2 (optClo WithPrepFunc "fn") 0 [userfn 0, nodeH] emptyNode, run 2 (optClo WithExecFunc "fn") 0 [userfn 0, nodeH] emptyNode,
      run 2 (optClo WithPostFunc "fn") 0 [userfn 0, nodeH] emptyNode,
      run 2 (optClo WithExecFallbackFunc "fn") 0 [userfn 0, nodeH] emptyNode,
      run 2 (optClo WithPrepFuncAny "fn") 0 [userfn 0, nodeH] emptyNode, run 2 (optClo WithExecFuncAny "fn") 0 [userfn 0, nodeH] emptyNode,
      run 2 (optClo WithPostFuncAny "fn") 0 [userfn 0, nodeH] emptyNode,
      run 5 NodeBuilder_WithMaxRetries 0 [nodeH, .int 0] emptyNode, run 5 NodeBuilder_WithWait 0 [nodeH, .int 0] emptyNode,
      run 4 NodeBuilder_WithBatchConcurrency 0 [nodeH, .int 0] emptyNode,
      run 4 NodeBuilder_WithBatchErrorHandling 0 [nodeH, .bool true] emptyNode,
      run 4 NodeBuilder_WithBatchErrorHandling 0 [nodeH, .bool false] emptyNode,
      run 4 NodeBuilder_WithPrepFunc 0 [nodeH, userfn 0] emptyNode, run 4 NodeBuilder_WithExecFunc 0 [nodeH, userfn 0] emptyNode,
      run 4 NodeBuilder_WithPostFunc 0 [nodeH, userfn 0] emptyNode, run 4 NodeBuilder_WithExecFallbackFunc 0 [nodeH, userfn 0] emptyNode,
      run 4 NodeBuilder_WithPrepFuncAny 0 [nodeH, userfn 0] emptyNode, run 4 NodeBuilder_WithExecFuncAny 0 [nodeH, userfn 0] emptyNode,
      run 4 NodeBuilder_WithPostFuncAny 0 [nodeH, userfn 0] emptyNode,
      run 5 BatchNodeBuilder_WithMaxRetries 0 [nodeH, .int 0] emptyNode, run 5 BatchNodeBuilder_WithWait 0 [nodeH, .int 0] emptyNode,
      run 4 BatchNodeBuilder_WithBatchConcurrency 0 [nodeH, .int 0] emptyNode,
      run 4 BatchNodeBuilder_WithBatchErrorHandling 0 [nodeH, .bool true] emptyNode,
      run 4 BatchNodeBuilder_WithBatchErrorHandling 0 [nodeH, .bool false] emptyNode,
      run 4 BatchNodeBuilder_WithPrepFunc 0 [nodeH, userfn 0] emptyNode, run 4 BatchNodeBuilder_WithExecFunc 0 [nodeH, userfn 0] emptyNode,
      run 4 BatchNodeBuilder_WithPostFunc 0 [nodeH, userfn 0] emptyNode,
      run 4 BatchNodeBuilder_WithExecFuncAny 0 [nodeH, userfn 0] emptyNode].all Option.isNone) = true := by decide

/-- a Result-style setter given anything but a user function (here: an integer) is stuck — the world's `fnOf` knows only
    `userfn k` and wrapper closures; this is why the Result-style statements are about `userfn k` and not about every `v : GV` -/
example : run F NodeBuilder_WithPrepFunc 0 [nodeH, .int 0] emptyNode = none := by decide

end Flyt.Refine.Config
