import FlytModel.Refine.SourceBase
import FlytModel.Props.C18
/-!
# C18 (a successful run never yields the empty action, for any node kind) stated about the INTERPRETED SOURCE

`Props/C18.lean` states the property for `runNode` on an arbitrary node and for `flowLoop`. Carried over per kind of node, each with its
own refinement theorem and no hypothesis beyond the model theorem's and the depth bound:

| node kind | interpreted subject | refinement |
|---|---|---|
| plain / function-style | `runLeafIR fuel Expected.IR.Run …` | `Run_refines_runLeaf_of_le` |
| batch | `runBatchIR fuel Expected.IR.runBatch …`, `runBatchNodeIR fuel Expected.IR.Run …` | `runBatch_refines_of_le`, `Run_dispatches_to_runBatch_of_le` |
| flow used as a node | `runFlowNodeIR fuel Expected.IR.Run …` | `Run_refines_runNode_flow_of_le` |
| `Flow.Exec` | `flowExecIR fuel Expected.IR.Flow_Exec …` | `FlowExec_refines_flowLoop_ge` |

"Succeeds" = the two values `Run` returns are `(a, nil)`, which `outcomeOf` reads as `.ok a`; the statements say `a ≠ ""` for every such
`a`. For the flow rows the model's own fuel must not run out (`hne`, the model theorems need no such hypothesis because `.fuel` is not
`.ok`; here it is what the refinement theorem needs). In the flow-node world `Flow.Exec` is the model's `flowLoop` and in the `Flow.Exec`
world a nested `Run` is the model's `runNode`: that the action coming OUT of the nested call is non-empty is inherited through the world;
what is derived from the source is the layer's own normalisation (`Run`: `if action == "" { action = DefaultAction }`).
-/
set_option autoImplicit false
namespace Flyt.Refine.Source
open Flyt Flyt.GoIR Flyt.Refine

/-- the arena in which every node is the leaf `cfg` with script `scr` (to read `runLeaf` as `runNode`, the subject of `Props/C18.lean`) -/
def oneLeafEnv (kind : CtxKind) (cfg : LeafCfg) (scr : LeafScript) : Env :=
  { kind := kind, arena := fun _ => .leaf cfg, leafBeh := fun _ _ => scr,
    batchBeh := fun _ _ => { prep := { res := .error 0 }, post := { res := .error 0 },
                             item := fun _ => { exec := fun _ => { res := .error 0 }, waitCancel := fun _ => false, fb := { res := .error 0 } } } }

/-- the arena in which every node is the batch node `cfg` with script `scr` -/
def oneBatchEnv (kind : CtxKind) (cfg : BatchCfg) (scr : BatchScript) : Env :=
  { kind := kind, arena := fun _ => .batch cfg, batchBeh := fun _ _ => scr,
    leafBeh := fun _ _ => { prep := { res := .error 0 }, exec := fun _ => { res := .error 0 }, waitCancel := fun _ => false,
                            fb := { res := .error 0 }, post := { res := .error 0 } } }

/-- **Whenever the interpreted `Run` on a plain / function-style node succeeds, the action it reports is non-empty, and it is `norm` of
    what post returned** (the default action for a node without post). Every context.
    Mirrors `Props.C18.success_action_nonempty` (leaf root), `never_action_and_error`, `leaf_reports_normalised`. -/
theorem C18_leaf_for_interpreted_source (kind : CtxKind) (n v sid : Nat) (cfg : LeafCfg) (scr : LeafScript) (ctx : Ctx)
    (fuel : Nat) (hf : runFuel cfg ≤ fuel) :
    ∃ evs ctx' out, runLeafIR fuel Flyt.Expected.IR.Run kind n v sid cfg scr ctx = some (evs, ctx', out) ∧
      (∀ a, out = .ok a → a ≠ "") ∧ (∀ a e, out ≠ .both a e) ∧
      (∀ a, out = .ok a → (cfg.postS = .absent ∧ a = defaultAction) ∨ (∃ a', scr.post.res = .ok a' ∧ a = norm a')) := by
  refine leaf_transfer kind n v sid cfg scr ctx fuel hf
    (fun _ _ out => (∀ a, out = .ok a → a ≠ "") ∧ (∀ a e, out ≠ .both a e) ∧
      (∀ a, out = .ok a → (cfg.postS = .absent ∧ a = defaultAction) ∨ (∃ a', scr.post.res = .ok a' ∧ a = norm a'))) ⟨?_, ?_, ?_⟩
  · -- `runLeaf` is `runNode` on a one-leaf arena: instantiate the model theorem there
    intro a ha
    let env : Env := oneLeafEnv kind cfg scr
    let st : RunSt := { ctx := ctx, visits := fun _ => v }
    have h := Props.C18.success_action_nonempty env 1 n sid st a
    rw [Flyt.Proofs.Flow.runNode_leaf env 0 n sid st cfg rfl] at h
    exact h ha
  · intro a e
    let env : Env := oneLeafEnv kind cfg scr
    let st : RunSt := { ctx := ctx, visits := fun _ => v }
    have h := Props.C18.never_action_and_error env 1 n sid st a e
    rw [Flyt.Proofs.Flow.runNode_leaf env 0 n sid st cfg rfl] at h
    exact h
  · exact fun a ha => Props.C18.leaf_reports_normalised kind n v sid cfg scr ctx a ha

/-- **… uniformly for batch nodes, including a batch whose prep produced no items**: the interpreted `runBatch` reports a non-empty
    action, `norm` of what batch post returned (the default action without a post function).
    Mirrors `Props.C18.success_action_nonempty` (batch root), `never_action_and_error`, `batch_reports_normalised`. -/
theorem C18_batch_for_interpreted_source (kind : CtxKind) (n v sid : Nat) (cfg : BatchCfg) (scr : BatchScript) (ctx : Ctx)
    (fuel : Nat) (hf : batchFuel scr ≤ fuel) :
    ∃ evs ctx' out, runBatchIR fuel Flyt.Expected.IR.runBatch kind n v sid cfg scr ctx = some (evs, ctx', out) ∧
      (∀ a, out = .ok a → a ≠ "") ∧ (∀ a e, out ≠ .both a e) ∧
      (∀ a, out = .ok a → (cfg.hasPost = false ∧ a = defaultAction) ∨ (∃ a', scr.post.res = .ok a' ∧ a = norm a')) := by
  refine batch_transfer kind n v sid cfg scr ctx fuel hf
    (fun _ _ out => (∀ a, out = .ok a → a ≠ "") ∧ (∀ a e, out ≠ .both a e) ∧
      (∀ a, out = .ok a → (cfg.hasPost = false ∧ a = defaultAction) ∨ (∃ a', scr.post.res = .ok a' ∧ a = norm a'))) ⟨?_, ?_, ?_⟩
  · intro a ha
    let env : Env := oneBatchEnv kind cfg scr
    let st : RunSt := { ctx := ctx, visits := fun _ => v }
    have h := Props.C18.success_action_nonempty env 1 n sid st a
    rw [Flyt.Proofs.Flow.runNode_batch env 0 n sid st cfg rfl] at h
    exact h ha
  · intro a e
    let env : Env := oneBatchEnv kind cfg scr
    let st : RunSt := { ctx := ctx, visits := fun _ => v }
    have h := Props.C18.never_action_and_error env 1 n sid st a e
    rw [Flyt.Proofs.Flow.runNode_batch env 0 n sid st cfg rfl] at h
    exact h
  · exact fun a ha => Props.C18.batch_reports_normalised kind n v sid cfg scr ctx a ha

/-- … the same for the interpreted `Run` on the batch node (bare `*BatchNode` or the builder), which only dispatches to `runBatch` -/
theorem C18_batch_Run_for_interpreted_source (kind : CtxKind) (n v sid : Nat) (cfg : BatchCfg) (scr : BatchScript) (viaBuilder : Bool)
    (ctx : Ctx) (fuel : Nat) (hf : batchNodeFuel ≤ fuel) :
    ∃ evs ctx' out, runBatchNodeIR fuel Flyt.Expected.IR.Run kind n v sid cfg scr viaBuilder ctx = some (evs, ctx', out) ∧
      (∀ a, out = .ok a → a ≠ "") ∧ (∀ a e, out ≠ .both a e) ∧
      (∀ a, out = .ok a → (cfg.hasPost = false ∧ a = defaultAction) ∨ (∃ a', scr.post.res = .ok a' ∧ a = norm a')) := by
  obtain ⟨evs, ctx', out, h, hP⟩ := C18_batch_for_interpreted_source kind n v sid cfg scr ctx (batchFuel scr) (Nat.le_refl _)
  rw [runBatch_refines_of_le kind n v sid cfg scr ctx (batchFuel scr) (Nat.le_refl _)] at h
  refine ⟨evs, ctx', out, ?_, hP⟩
  rw [Run_dispatches_to_runBatch_of_le kind n v sid cfg scr viaBuilder ctx fuel hf, h]

/-- **… and for a flow used as a node**: when the interpreted `Run` on a flow succeeds, the action is non-empty, never paired with an
    error, and it is `norm` of the action the flow's loop ended with.
    Mirrors `Props.C18.success_action_nonempty` (flow root), `never_action_and_error`, `flow_reports_normalised`. -/
theorem C18_flow_node_for_interpreted_source (env : Env) (fid : NodeId) (start : Option NodeId) (ops : List ConnOp) (mfuel : Nat)
    (sid : StoreId) (st : RunSt) (harena : env.arena fid = .flow start ops) (hne : (runNode env (mfuel + 1) fid sid st).2.2 ≠ .fuel)
    (fuel : Nat) (hf : flowNodeFuel ≤ fuel) :
    ∃ evs st' out, runFlowNodeIR fuel Flyt.Expected.IR.Run env fid start ops mfuel sid st = some (evs, st', out) ∧
      (∀ a, out = .ok a → a ≠ "") ∧ (∀ a e, out ≠ .both a e) ∧
      (∀ a, out = .ok a → ∃ s a', start = some s ∧ (flowLoop env mfuel (buildTable ops) s sid st).2.2 = .ok a' ∧ a = norm a') :=
  flowNode_transfer env fid start ops mfuel sid st harena hne fuel hf
    (fun _ _ out => (∀ a, out = .ok a → a ≠ "") ∧ (∀ a e, out ≠ .both a e) ∧
      (∀ a, out = .ok a → ∃ s a', start = some s ∧ (flowLoop env mfuel (buildTable ops) s sid st).2.2 = .ok a' ∧ a = norm a'))
    ⟨fun a ha => Props.C18.success_action_nonempty env (mfuel + 1) fid sid st a ha,
     fun a e => Props.C18.never_action_and_error env (mfuel + 1) fid sid st a e,
     fun a ha => Props.C18.flow_reports_normalised env mfuel fid sid st start ops harena a ha⟩

/-- **The action the interpreted `Flow.Exec` ends with (and hands to `Flow.Post`) is non-empty.**
    Mirrors `Props.C18.flow_exec_action_nonempty` (for the table `buildTable ops` of a flow built by `Connect` calls). -/
theorem C18_flow_exec_action_nonempty_for_interpreted_source (env : Env) (fid s : NodeId) (ops : List ConnOp) (mfuel : Nat)
    (sid : StoreId) (st : RunSt) (hne : (flowLoop env mfuel (buildTable ops) s sid st).2.2 ≠ .fuel) (fuel : Nat) (hf : mfuel + 40 ≤ fuel) :
    ∃ evs st' out, flowExecIR fuel Flyt.Expected.IR.Flow_Exec env fid (some s) ops mfuel sid st = some (evs, st', out) ∧
      ∀ a, out = .ok a → a ≠ "" :=
  flowExec_transfer env fid s ops mfuel sid st hne fuel hf (fun _ _ out => ∀ a, out = .ok a → a ≠ "")
    (fun a ha => Props.C18.flow_exec_action_nonempty env mfuel (buildTable ops) s sid st a ha)

/-! ### non-vacuity: the scenario of `Props/C18.lean` (every post returns the empty action), by the interpreter -/

-- a leaf whose post returns "": the interpreted `Run` reports "default"
example : ∃ evs ctx', runLeafIR 44 Flyt.Expected.IR.Run .canceled 1 0 0 Props.C18.exLeaf Props.C18.exLeafScr .live
    = some (evs, ctx', .ok "default") := by
  refine ⟨(runLeaf .canceled 1 0 0 Props.C18.exLeaf Props.C18.exLeafScr .live).1,
    (runLeaf .canceled 1 0 0 Props.C18.exLeaf Props.C18.exLeafScr .live).2.1, ?_⟩
  rw [Run_refines_runLeaf_of_le _ _ _ _ _ _ _ 44 (by decide)]
  exact congrArg some (Prod.ext rfl (Prod.ext rfl (by decide)))

-- the empty batch: prep returns no items, post returns "", the interpreted `runBatch` reports "default"
example : runBatchIR 21 Flyt.Expected.IR.runBatch .canceled 2 0 0 Props.C18.exBatch Props.C18.exBatchScr .live =
    some ([.bprep 2 0 0, .bpost 2 0 0 [] []], .live, .ok "default") := by
  rw [runBatch_refines_of_le _ _ _ _ _ _ _ 21 (by decide)]; decide

/-!
## Carried over / not carried over

Carried over: `success_action_nonempty` and `never_action_and_error` (per kind of root: leaf, batch, flow), `flow_exec_action_nonempty`,
`leaf_reports_normalised`, `batch_reports_normalised`, `flow_reports_normalised`.

Not carried over:
* `norm_empty` — a fact about the function `norm`;
* `successor_followed`, `default_connection_followed` — one unfolding step of the model's `flowLoop` given the model's `runNode` result;
  on the interpreted side that routing IS the refinement theorem `FlowExec_refines_flowLoop` (and its property form is C03:
  `Refine/BridgeFlow.lean`, `C03_for_interpreted_source`);
* `connections_followed`, `c18_bridge`, `c18Followed_bridge` — about the driver's executable predicates on flat flows.
-/

end Flyt.Refine.Source
