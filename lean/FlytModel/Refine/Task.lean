import FlytModel.GoIR.TaskWorld
import FlytModel.Model.BatchConc
import FlytModel.Expected.IR
import FlytModel.Refine.ConcSerial
/-!
# Refinement: the task closure of `runBatchConcurrent` (batch.go:268-298), for ALL schedules — one goroutine's view

`Refine/ConcSerial.lean` runs `runBatchConcurrent` on the serial schedule. Here the closure it submits to the pool — closure number 0
of `closuresOf runBatchConcurrent`, the very term `closBody` of `ConcSerial.lean` (`taskOf_eq`, `rfl`) — is run by the definitional
interpreter in `taskWorld` (`GoIR/TaskWorld.lean`), which follows ONE task goroutine and records what it does to the objects it shares
with the other goroutines (`mu`, `shouldStop`, `results`, the context, the item call) as a trace. Nothing is assumed about the other
goroutines: what they make of `shouldStop` between this goroutine's critical sections is a parameter (`TW.incoming`, arbitrary).

| theorem | statement |
|---|---|
| `task_closure_refines_of_le` | for every mode string, index, item, node value, world (flag, interference, context, item outcome, slots, history) with `mu` free and `idx` in range, at EVERY depth ≥ 15: the closure returns nothing and leaves the world `taskSem` |
| `task_closure_paths` | the same, spelled out: exactly one of the stop / cancelled / normal path, with its exact trace, slot and flag |
| `task_discipline` | `mu` is balanced and free at the end, `shouldStop` is written only under `mu` (and only to `true`), the item call is made with `mu` free, EXACTLY ONE slot is written: `idx` |
| `readVar_guard`, `writeVar_guard` | an access to `shouldStop` that is not stuck was made with `mu` held — and the run is not stuck |
| `task_closure_heap_of_le` | variant: `results` a `[]Result` of the interpreter's heap — one heap cell changes, `off + idx` |
| `apply_stopCheck`, `apply_ctxCheck`, `apply_store` | what `Conc.apply c s (.step i)` does at the three program counters |
| `apply_store_forms`, `store_forms` | every `store r failed` counter the LTS creates is `store (slotOf o) o.err.isSome` for an item outcome `o` |
| `task_labels` | the trace is the concatenation of the segments `taskSegs`; each `step` segment is ONE `Label.step idx` of the LTS at its `Pc`, with the same effect on `(shouldStop, results)` and the same successor; the segments are chained from `stopCheck` to the task's end |

Fuel: `…_of_le` hold at every depth ≥ 15 = the least depth at which the longest path (plain value → `NewResult`) is not stuck
(`TaskTest.lean`; 10 / 12 suffice on the stop / cancelled path).

## where the LTS is coarser than the source (and why it does not matter)
* `ctxCheck`: the LTS tests the context and writes the cancelled slot in ONE step; the source calls `ctx.Err()` and then writes
  `results[idx]` — two actions, the write NOT under `mu` (`secCtx`, `slot_writes`: third component `false`). Harmless: slot `idx` has
  exactly one writer, this task (`slot_writes`: one write, to `idx`), nothing reads `results` before `pool.Wait()` returned, and the
  write precedes the task's return, hence the wrapper's `wg.Done()`, hence `Wait` (`Refine/Pool.lean`, `Props/C08`).
* `stopCheck` (not stopping): the LTS moves to `ctxCheck`; the source locks, reads, unlocks. The value read is the flag at THAT lock
  acquisition (`b1`); the LTS reads `s.shouldStop` in the same atomic step. Same thing, since the flag only changes under `mu`.
* `store`: slot write, then flag write, in one critical section; the LTS does both at once. No other task can observe the flag in
  between (it would need `mu`); the slot has no reader.
* `finish` (the wrapper's deferred `wg.Done()`, the worker back at its `select`) is part of the same LTS step as the last slot
  write; in the source it comes after the closure returned (`Refine/Pool.lean: wrapper_labels`).
* `runExecWithRetries` is one call here; the LTS's `loopTop` / `inExec` / `ret` steps are its inside (`Refine/Item.lean`). It is made
  with `mu` FREE (`task_discipline`), which is what lets the LTS interleave the `inExec` phases of different tasks.
The LTS and the source agree on every case: order of check and write, both error texts (`"batch stopped due to error"` ↦
`.fw .batchStopped`, `"context cancelled"` ↦ `.fw .batchCancelled`), and when the flag is raised (`err ≠ nil ∧ mode = "stop"`; an ERROR
`Result` returned as a value with a nil error is stored as it is and does NOT raise it — `Pc.store r false`).
-/
namespace Flyt.Refine.Task
open Flyt Flyt.GoIR Flyt.GoIR.TaskW Flyt.Refine
open Flyt.Conc (Cfg Pc BState Label apply pcOf setPc finish setSlot)
set_option linter.unusedSimpArgs false
set_option linter.unusedVariables false

/-- the task closure of the expected translation of `runBatchConcurrent`, with what it captures as parameters; its body is the
    `closBody` of `Refine/ConcSerial.lean` -/
def taskFn : Func := { name := "runBatchConcurrent.func", recv := "", params := captured, body := closBody }

theorem closuresOf_runBatchConcurrent :
    closuresOf Flyt.Expected.IR.runBatchConcurrent = [{ name := "runBatchConcurrent.func", recv := "", params := [], body := closBody }] := rfl
theorem taskOf_eq : taskOf Flyt.Expected.IR.runBatchConcurrent = taskFn := rfl

@[simp] theorem flagAtLock_mk (s : Bool) (inc : List Bool) (h : Bool) (c : Ctx) (o : ItemOut) (sl : List Result) (tr : List TAct) :
    TW.flagAtLock ⟨s, inc, h, c, o, sl, tr⟩ = inc.headD s := rfl

/-! ## the guards: an access to `shouldStop` that is not stuck happens under `mu` -/

theorem readVar_guard (x : String) (w : TW) (v : GV) (h : taskWorld.readVar x w = some v) :
    x = "shouldStop" ∧ w.held = true ∧ v = .bool w.stop := by
  simp only [taskWorld] at h
  by_cases hx : (x == "shouldStop") = true
  · cases hh : w.held <;> simp [hx, hh] at h
    exact ⟨by simpa using hx, rfl, h.symm⟩
  · simp [hx] at h

theorem writeVar_guard (x : String) (v : GV) (w w' : TW) (h : taskWorld.writeVar x v w = some w') :
    x = "shouldStop" ∧ w.held = true ∧ ∃ b, v = .bool b ∧ w' = emit { w with stop := b } (.setStop b) := by
  simp only [taskWorld] at h
  by_cases hx : (x == "shouldStop") = true
  · cases v <;> simp [hx] at h
    case bool b =>
      cases hh : w.held <;> simp [hh] at h
      exact ⟨by simpa using hx, rfl, b, rfl, h.symm⟩
  · simp [hx] at h

/-- no other variable of the closure lives in the world -/
theorem readVar_other (x : String) (w : TW) (hx : x ≠ "shouldStop") : taskWorld.readVar x w = none := by
  simp [taskWorld, hx]

/-! ## the three paths, by symbolic execution -/

local macro "task_exec" "[" ts:Lean.Parser.Tactic.simpLemma,* "]" : tactic =>
  `(tactic| simp [runTask, runTaskHeap, callFunc, taskFn, captured, taskArgs, closBody, execBlock, execStmt, evalRhs, isCommaOk, evalCommaOk, evalExpr,
    evalArgs, Env.get, Env.set, Env.pushAll, Env.push, popSt, Env.popTo, taskWorld, acquire, release, emit, errorf, assignAll, assignTo,
    Exprs.toList, Exprs.length, ctxRef, muH, resultsH, TaskW.ctxErrGV, errGV, GV.eqv, GV.isNil, $ts,*])

theorem body_stop (eh : String) (idx : Nat) (item : Result) (nd : GV) (w : TW) (hh : w.held = false) (hi : idx < w.slots.length)
    (hs : (eh == "stop") = true) (hb : w.flagAtLock = true) (c : Nat) :
    runTask (c + 10) taskFn eh idx item nd w = some ([], taskSem eh idx item w) := by
  have e5 : fwTagOf "batch stopped due to error" = .batchStopped := by decide
  task_exec [hh, hi, hs, hb, e5, taskSem, taskTrace, secStop, stoppedSlot]

theorem body_cancel (eh : String) (idx : Nat) (item : Result) (nd : GV) (w : TW) (hh : w.held = false) (hi : idx < w.slots.length)
    (hbs : (w.flagAtLock && eh == "stop") = false) (k : CtxKind) (hc : w.ctx = .done k) (c : Nat) :
    runTask (c + 12) taskFn eh idx item nd w = some ([], taskSem eh idx item w) := by
  have e5 : fwTagOf "context cancelled" = .batchCancelled := by decide
  cases hb : w.flagAtLock <;> cases hs : (eh == "stop") <;> simp [hb, hs] at hbs <;>
    task_exec [hh, hi, hs, hb, hc, e5, taskSem, taskTrace, secStop, secCtx, cancelledSlot, Ctx.isDone]

theorem body_err (eh : String) (idx : Nat) (item : Result) (nd : GV) (w : TW) (hh : w.held = false) (hi : idx < w.slots.length)
    (hbs : (w.flagAtLock && eh == "stop") = false) (hc : w.ctx = .live) (x : Val) (e : ErrRoot) (ho : w.out = ⟨x, some e⟩) (c : Nat) :
    runTask (c + 14) taskFn eh idx item nd w = some ([], taskSem eh idx item w) := by
  cases hb : w.flagAtLock <;> cases hs : (eh == "stop") <;> simp [hb, hs] at hbs <;>
    task_exec [hh, hi, hs, hb, hc, ho, taskSem, taskTrace, secStop, secCtx, secStore, slotOf, raises, Ctx.isDone]

theorem body_ok (eh : String) (idx : Nat) (item : Result) (nd : GV) (w : TW) (hh : w.held = false) (hi : idx < w.slots.length)
    (hbs : (w.flagAtLock && eh == "stop") = false) (hc : w.ctx = .live) (x : Val) (ho : w.out = ⟨x, none⟩) (c : Nat) :
    runTask (c + 15) taskFn eh idx item nd w = some ([], taskSem eh idx item w) := by
  cases x with
  | tok t =>
    cases hb : w.flagAtLock <;> cases hs : (eh == "stop") <;> simp [hb, hs] at hbs <;>
      task_exec [hh, hi, hs, hb, hc, ho, taskSem, taskTrace, secStop, secCtx, secStore, slotOf, raises, Ctx.isDone,
        GV.ofVal, Val.asResult?, toResult, mkNewResult, GV.toVal]
  | res xv xe =>
    cases hb : w.flagAtLock <;> cases hs : (eh == "stop") <;> simp [hb, hs] at hbs <;>
      task_exec [hh, hi, hs, hb, hc, ho, taskSem, taskTrace, secStop, secCtx, secStore, slotOf, raises, Ctx.isDone,
        GV.ofVal, Val.asResult?, toResult, mkNewResult, GV.toVal]

/-- all inputs, depth `c + 15` -/
theorem task_core (eh : String) (idx : Nat) (item : Result) (nd : GV) (w : TW) (hh : w.held = false) (hi : idx < w.slots.length)
    (c : Nat) : runTask (c + 15) taskFn eh idx item nd w = some ([], taskSem eh idx item w) := by
  cases hbs : (w.flagAtLock && eh == "stop")
  · cases hc : w.ctx with
    | done k => exact body_cancel eh idx item nd w hh hi hbs k hc (c + 3)
    | live =>
      rcases ho : w.out with ⟨x, _ | e⟩
      · exact body_ok eh idx item nd w hh hi hbs hc x ho c
      · exact body_err eh idx item nd w hh hi hbs hc x e ho (c + 1)
  · rw [Bool.and_eq_true] at hbs
    exact body_stop eh idx item nd w hh hi hbs.2 hbs.1 (c + 5)

/-- **The task closure of `runBatchConcurrent`, one goroutine's view, all schedules.** For every error-handling mode string, index,
    item, node value and world — value of the shared flag, what the other tasks make of it while this one does not hold `mu`, state
    of the context, outcome of `runExecWithRetries`, contents of `results`, history — with `mu` free and `idx` in range, at every
    depth ≥ 15: the closure is not stuck, returns nothing, and leaves the world `taskSem eh idx item w`. -/
theorem task_closure_refines_of_le (eh : String) (idx : Nat) (item : Result) (nd : GV) (w : TW) (hh : w.held = false)
    (hi : idx < w.slots.length) (fuel : Nat) (hf : 15 ≤ fuel) :
    runTask fuel (taskOf Flyt.Expected.IR.runBatchConcurrent) eh idx item nd w = some ([], taskSem eh idx item w) := by
  obtain ⟨c, rfl⟩ := Nat.exists_eq_add_of_le hf
  rw [taskOf_eq, Nat.add_comm]
  exact task_core eh idx item nd w hh hi c

/-- the statement at the test's depth -/
theorem task_closure_refines (eh : String) (idx : Nat) (item : Result) (nd : GV) (w : TW) (hh : w.held = false)
    (hi : idx < w.slots.length) :
    runTask 40 (taskOf Flyt.Expected.IR.runBatchConcurrent) eh idx item nd w = some ([], taskSem eh idx item w) :=
  task_closure_refines_of_le eh idx item nd w hh hi 40 (by omega)

/-! ## `taskSem`, spelled out -/

theorem slotOf_err (x : Val) (e : ErrRoot) : slotOf ⟨x, some e⟩ = newErrorResult e := rfl
theorem slotOf_result (x : Val) (e : Option ErrRoot) : slotOf ⟨.res x e, none⟩ = ⟨x, e⟩ := rfl
theorem slotOf_plain (t : Nat) : slotOf ⟨.tok t, none⟩ = newResult (.tok t) := rfl
theorem slotOf_ok (x : Val) : slotOf ⟨x, none⟩ = slotOfVal x := rfl

theorem taskSem_frame (eh : String) (idx : Nat) (item : Result) (w : TW) :
    (taskSem eh idx item w).held = w.held ∧ (taskSem eh idx item w).ctx = w.ctx ∧ (taskSem eh idx item w).out = w.out := by
  cases h1 : (w.flagAtLock && eh == "stop") <;> cases h2 : w.ctx.isDone <;> simp [taskSem, h1, h2]

theorem taskSem_trace (eh : String) (idx : Nat) (item : Result) (w : TW) :
    (taskSem eh idx item w).trace = w.trace ++ taskTrace (eh == "stop") w.flagAtLock idx item w.ctx w.out := by
  cases h1 : (w.flagAtLock && eh == "stop") <;> cases h2 : w.ctx.isDone <;> simp [taskSem, h1, h2]

theorem taskSem_slots (eh : String) (idx : Nat) (item : Result) (w : TW) :
    (taskSem eh idx item w).slots = w.slots.set idx (taskSlot (eh == "stop") w.flagAtLock w.ctx w.out) := by
  cases h1 : (w.flagAtLock && eh == "stop") <;> cases h2 : w.ctx.isDone <;> simp [taskSem, taskSlot, h1, h2]

/-- **The three paths.** Exactly one of
    * stop path — the flag is up at the first lock and the mode is `"stop"`: `[lock, writeSlot idx stopped, unlock]`;
    * cancelled path — `[lock, unlock, ctxErr true, writeSlot idx cancelled]`: the slot is written AFTER `mu` was released;
    * normal path — `[lock, unlock, ctxErr false, callItem, lock, writeSlot idx r, (setStop true)?, unlock]`, `r = slotOf out`, the
      flag raised iff `err ≠ nil` and the mode is `"stop"`; at the end the flag is what the second acquisition found, or-ed with that. -/
theorem task_closure_paths (eh : String) (idx : Nat) (item : Result) (nd : GV) (w : TW) (hh : w.held = false)
    (hi : idx < w.slots.length) (fuel : Nat) (hf : 15 ≤ fuel) :
    ∃ w', runTask fuel (taskOf Flyt.Expected.IR.runBatchConcurrent) eh idx item nd w = some ([], w') ∧
      w'.held = false ∧ w'.ctx = w.ctx ∧ w'.out = w.out ∧
      ((w.flagAtLock = true ∧ eh = "stop" ∧
          w'.trace = w.trace ++ [.lock, .writeSlot idx stoppedSlot, .unlock] ∧
          w'.slots = w.slots.set idx stoppedSlot ∧ w'.stop = true ∧ w'.incoming = w.incoming.tail) ∨
       (¬ (w.flagAtLock = true ∧ eh = "stop") ∧ w.ctx.isDone = true ∧
          w'.trace = w.trace ++ [.lock, .unlock, .ctxErr true, .writeSlot idx cancelledSlot] ∧
          w'.slots = w.slots.set idx cancelledSlot ∧ w'.stop = w.flagAtLock ∧ w'.incoming = w.incoming.tail) ∨
       (¬ (w.flagAtLock = true ∧ eh = "stop") ∧ w.ctx = .live ∧
          w'.trace = w.trace ++ [.lock, .unlock, .ctxErr false, .callItem item w.out, .lock, .writeSlot idx (slotOf w.out)] ++
            (if w.out.err.isSome ∧ eh = "stop" then [.setStop true] else []) ++ [.unlock] ∧
          w'.slots = w.slots.set idx (slotOf w.out) ∧
          w'.stop = (w.incoming.tail.headD w.flagAtLock || (w.out.err.isSome && eh == "stop")) ∧
          w'.incoming = w.incoming.tail.tail)) := by
  refine ⟨_, task_closure_refines_of_le eh idx item nd w hh hi fuel hf, ?_, (taskSem_frame ..).2.1, (taskSem_frame ..).2.2, ?_⟩
  · rw [(taskSem_frame ..).1, hh]
  · unfold taskSem taskTrace secStop secCtx secStore raises
    cases hb : w.flagAtLock <;> cases hs : (eh == "stop") <;> cases hc : w.ctx <;>
      simp [hb, hs, hc, Ctx.isDone] <;> simp_all

/-! ## the discipline -/

/-- `mu` is acquired only when free, released only when held, free at the end; `shouldStop` is written only under `mu`; the item
    call is made with `mu` free -/
theorem lockWalk_taskTrace (sm b1 : Bool) (idx : Nat) (item : Result) (ctx : Ctx) (o : ItemOut) :
    lockWalk false (taskTrace sm b1 idx item ctx o) = some false := by
  rcases o with ⟨v, _ | e⟩ <;> cases sm <;> cases b1 <;> cases ctx <;> rfl

/-- the task writes EXACTLY ONE slot, its own `idx`, with the value `taskSlot`; the write is under `mu` except on the cancelled path -/
theorem slot_writes (sm b1 : Bool) (idx : Nat) (item : Result) (ctx : Ctx) (o : ItemOut) :
    slotWrites false (taskTrace sm b1 idx item ctx o) = [(idx, taskSlot sm b1 ctx o, (b1 && sm) || !ctx.isDone)] := by
  rcases o with ⟨v, _ | e⟩ <;> cases sm <;> cases b1 <;> cases ctx <;> rfl

/-- the only value ever written to `shouldStop` is `true` -/
theorem setStop_true (sm b1 : Bool) (idx : Nat) (item : Result) (ctx : Ctx) (o : ItemOut) (b : Bool)
    (h : TAct.setStop b ∈ taskTrace sm b1 idx item ctx o) : b = true := by
  rcases o with ⟨v, _ | e⟩ <;> cases sm <;> cases b1 <;> cases ctx <;>
    simp [taskTrace, secStop, secCtx, secStore, raises, Ctx.isDone] at h <;> exact h

/-- the item is called at most once, on the captured `itm`, and its outcome is the one stored -/
theorem item_calls (sm b1 : Bool) (idx : Nat) (item : Result) (ctx : Ctx) (o : ItemOut) (it : Result) (o' : ItemOut)
    (h : TAct.callItem it o' ∈ taskTrace sm b1 idx item ctx o) :
    it = item ∧ o' = o ∧ (b1 && sm) = false ∧ ctx = .live ∧ taskSlot sm b1 ctx o = slotOf o := by
  rcases o with ⟨v, _ | e⟩ <;> cases sm <;> cases b1 <;> cases ctx <;>
    simp [taskTrace, secStop, secCtx, secStore, raises, Ctx.isDone, taskSlot] at h ⊢ <;> exact h

/-- what the task does to the shared data, whatever they are when it starts: the flag is or-ed with "failed in mode stop" (on the
    normal path), slot `idx` is set -/
theorem effect_taskTrace (sm b1 : Bool) (idx : Nat) (item : Result) (ctx : Ctx) (o : ItemOut) (b : Bool) (sl : List Result) :
    effect (taskTrace sm b1 idx item ctx o) (b, sl) =
      (b || (!(b1 && sm) && !ctx.isDone && raises sm o), sl.set idx (taskSlot sm b1 ctx o)) := by
  rcases o with ⟨v, _ | e⟩ <;> cases sm <;> cases b1 <;> cases ctx <;> cases b <;> rfl

/-- **Discipline corollary.** The run of the task closure of item `idx` (any schedule of the others): `mu` is acquired only when
    free and released only when held, is free at the end (balanced on every path), `shouldStop` is written only while `mu` is held
    (and read only then: `readVar_guard` + the run is not stuck), `runExecWithRetries` is called with `mu` free, and the task writes
    exactly ONE slot of `results`: index `idx` (`under` = was `mu` held for it: no on the cancelled path, yes otherwise). -/
theorem task_discipline (eh : String) (idx : Nat) (item : Result) (nd : GV) (w : TW) (hh : w.held = false)
    (hi : idx < w.slots.length) (fuel : Nat) (hf : 15 ≤ fuel) :
    ∃ w' tr r under, runTask fuel (taskOf Flyt.Expected.IR.runBatchConcurrent) eh idx item nd w = some ([], w') ∧
      w'.trace = w.trace ++ tr ∧ lockWalk false tr = some false ∧ w'.held = false ∧
      slotWrites false tr = [(idx, r, under)] ∧ w'.slots = w.slots.set idx r ∧
      (∀ k, k ≠ idx → w'.slots[k]? = w.slots[k]?) ∧
      under = ((w.flagAtLock && eh == "stop") || !w.ctx.isDone) ∧
      (∀ b, TAct.setStop b ∈ tr → b = true) := by
  refine ⟨_, _, _, _, task_closure_refines_of_le eh idx item nd w hh hi fuel hf, taskSem_trace .., lockWalk_taskTrace ..,
    by rw [(taskSem_frame ..).1, hh], slot_writes .., taskSem_slots .., ?_, rfl, fun b => setStop_true _ _ _ _ _ _ b⟩
  intro k hk
  rw [taskSem_slots, List.getElem?_set_ne (Ne.symm hk)]

/-! ## variant: `results` in the interpreter's own heap -/

/-- `results` a `[]Result` window `[off, off + n)` of backing array `a` of the interpreter's heap (as in `ConcSerial.lean`): the world
    sees everything but the slot write (its trace is `taskTrace` without the `writeSlot`, its `slots` are untouched), and exactly one
    heap cell changes: `off + idx` of array `a` becomes `taskSlot`. -/
theorem task_closure_heap_of_le (eh : String) (idx : Nat) (item : Result) (nd : GV) (w : TW) (hh : w.held = false)
    (a off n : Nat) (heap : Heap) (cell : List Result) (hcell : heap[a]? = some cell) (hn : idx < n) (hlen : off + idx < cell.length)
    (fuel : Nat) (hf : 15 ≤ fuel) :
    runTaskHeap fuel (taskOf Flyt.Expected.IR.runBatchConcurrent) eh idx item nd a off n heap w =
      some ([], heap.set a (cell.set (off + idx) (taskSlot (eh == "stop") w.flagAtLock w.ctx w.out)),
        { taskSem eh idx item w with
            slots := w.slots,
            trace := w.trace ++ (taskTrace (eh == "stop") w.flagAtLock idx item w.ctx w.out).filter (!·.isWrite) }) := by
  obtain ⟨c, rfl⟩ := Nat.exists_eq_add_of_le hf
  rw [taskOf_eq, Nat.add_comm]
  have e5 : fwTagOf "batch stopped due to error" = .batchStopped := by decide
  have e6 : fwTagOf "context cancelled" = .batchCancelled := by decide
  rcases ho : w.out with ⟨x, _ | e⟩ <;> cases hb : w.flagAtLock <;> cases hs : (eh == "stop") <;> cases hc : w.ctx <;>
    first
    | (cases x <;>
        task_exec [hh, hn, hlen, hcell, hs, hb, hc, ho, e5, e6, heapSet, taskSem, taskTrace, taskSlot, secStop, secCtx, secStore, slotOf, raises,
          Ctx.isDone, stoppedSlot, cancelledSlot, GV.ofVal, Val.asResult?, toResult, mkNewResult, GV.toVal, TAct.isWrite])
    | task_exec [hh, hn, hlen, hcell, hs, hb, hc, ho, e5, e6, heapSet, taskSem, taskTrace, taskSlot, secStop, secCtx, secStore, slotOf, raises,
        Ctx.isDone, stoppedSlot, cancelledSlot, TAct.isWrite]

/-! ## bridge to the LTS of `Model/BatchConc.lean` -/

/-- the LTS's `results` (`none` = never written = the zero `Result`) as the slice the source sees -/
def absSlots (sl : List (Option Result)) : List Result := sl.map (·.getD zeroSlot)

theorem absSlots_setSlot (sl : List (Option Result)) (i : Nat) (r : Result) : absSlots (setSlot sl i r) = (absSlots sl).set i r := by
  simp [absSlots, setSlot, List.map_set]

/-- what a trace does to the LTS's shared data `(shouldStop, slots)` -/
def effectL : List TAct → Bool × List (Option Result) → Bool × List (Option Result)
  | [], s => s
  | .setStop b :: t, s => effectL t (b, s.2)
  | .writeSlot k r :: t, s => effectL t (s.1, setSlot s.2 k r)
  | _ :: t, s => effectL t s

/-- … which is `effect` on the slice the source sees -/
theorem effectL_abs (acts : List TAct) (p : Bool × List (Option Result)) :
    ((effectL acts p).1, absSlots (effectL acts p).2) = effect acts (p.1, absSlots p.2) := by
  induction acts generalizing p with
  | nil => rfl
  | cons a t ih => cases a <;> simp [effectL, effect, ih, absSlots_setSlot]

/-! ### `apply` at the three program counters of a task's own steps -/

theorem apply_stopCheck (c : Cfg) (s : BState) (i : Nat) (h : pcOf s i = some .stopCheck) :
    apply c s (.step i) = some (if s.shouldStop ∧ c.stop then finish { s with slots := setSlot s.slots i stoppedSlot } i
                                else setPc s i .ctxCheck) := by
  simp only [apply, h]; split <;> rfl

theorem apply_ctxCheck (c : Cfg) (s : BState) (i : Nat) (h : pcOf s i = some .ctxCheck) :
    apply c s (.step i) = some (if s.cancelled then finish { s with slots := setSlot s.slots i cancelledSlot } i
                                else setPc s i (.loopTop 0 none)) := by
  simp only [apply, h]; split <;> rfl

theorem apply_store (c : Cfg) (s : BState) (i : Nat) (r : Result) (failed : Bool) (h : pcOf s i = some (.store r failed)) :
    apply c s (.step i) = some (finish { s with slots := setSlot s.slots i r, shouldStop := s.shouldStop || (failed && c.stop) } i) := by
  simp only [apply, h]

/-- a finished task holds no program counter -/
theorem pcOf_finish (s : BState) (i : Nat) : pcOf (finish s i) i = none := by
  simp [pcOf, finish, List.find?_eq_none]

/-- a task that moves on holds the new program counter -/
theorem pcOf_setPc (s : BState) (i : Nat) (pc pc' : Pc) (h : pcOf s i = some pc) : pcOf (setPc s i pc') i = some pc' := by
  unfold pcOf setPc at *
  generalize s.running = l at *
  induction l with
  | nil => simp at h
  | cons p t ih =>
    by_cases hp : p.1 = i
    · simp [List.find?, hp]
    · simp only [List.map_cons, List.find?, hp, decide_false, if_false] at h ⊢; exact ih h

/-! ### the `store` counters of the LTS -/

/-- the two forms of a `store` counter: a value made a slot, not failed / an error made a slot, failed -/
def StoreForm (r : Result) (failed : Bool) : Prop :=
  (∃ x, r = slotOfVal x ∧ failed = false) ∨ (∃ e, r = newErrorResult e ∧ failed = true)

theorem mem_setPc {s : BState} {j : Nat} {pc : Pc} {x : Nat × Pc} (h : x ∈ (setPc s j pc).running) :
    x ∈ s.running ∨ x = (j, pc) := by
  simp only [setPc, List.mem_map] at h
  obtain ⟨p, hp, rfl⟩ := h
  split
  · right; rfl
  · left; exact hp

theorem mem_finish {s : BState} {j : Nat} {x : Nat × Pc} (h : x ∈ (finish s j).running) : x ∈ s.running := by
  simp only [finish, List.mem_filter] at h; exact h.1

theorem storeForm_ok (x : Val) : StoreForm (slotOfVal x) false := Or.inl ⟨x, rfl, rfl⟩
theorem storeForm_err (e : ErrRoot) : StoreForm (newErrorResult e) true := Or.inr ⟨e, rfl, rfl⟩

/-- every `store r failed` counter the LTS ever creates (by ANY label) has one of the two forms — i.e. (`store_forms`) is
    `store (slotOf o) o.err.isSome` for an outcome `o` of `runExecWithRetries`, which is what the source's second critical section
    is proved to act on (`segOK_store`) -/
theorem apply_store_forms (c : Cfg) (s s' : BState) (l : Label) (h : apply c s l = some s') (i : Nat) (r : Result) (f : Bool)
    (hin : (i, Pc.store r f) ∈ s'.running) : (i, Pc.store r f) ∈ s.running ∨ StoreForm r f := by
  cases l <;> simp only [apply] at h <;> (repeat' split at h) <;>
    first
    | (simp at h; done)
    | skip
  all_goals (simp only [Option.some.injEq] at h; subst h)
  all_goals first
    | (left; simpa using hin; done)
    | (left; exact mem_finish hin)
    | (rcases mem_setPc hin with h1 | h1
       · left; simpa using h1
       · right; simp only [Prod.mk.injEq, Pc.store.injEq] at h1; obtain ⟨_, rfl, rfl⟩ := h1
         first | exact storeForm_ok _ | exact storeForm_err _)
    | (rcases mem_setPc hin with h1 | h1
       · left; simpa using h1
       · simp at h1)

/-! ### the segments of the trace and the LTS steps they are -/

/-- a piece of the task's trace -/
inductive TSeg
  /-- the actions the source performs for exactly ONE `Label.step idx` of the LTS at program counter `pc`; `next` = the program
      counter afterwards (`none` = the task has finished) -/
  | step (pc : Pc) (acts : List TAct) (next : Option Pc)
  /-- the call of `runExecWithRetries`: the LTS's steps from `loopTop 0 none` to `store r failed` (`Refine/Item.lean`) -/
  | item (act : TAct) (r : Result) (failed : Bool)

def TSeg.acts : TSeg → List TAct
  | .step _ a _ => a
  | .item a _ _ => [a]

/-- the per-task steps of the LTS the task of item `idx` contributes -/
def taskSegs (sm b1 : Bool) (idx : Nat) (item : Result) (ctx : Ctx) (o : ItemOut) : List TSeg :=
  if b1 && sm then [.step .stopCheck (secStop sm b1 idx) none]
  else if ctx.isDone then [.step .stopCheck (secStop sm b1 idx) (some .ctxCheck), .step .ctxCheck (secCtx true idx) none]
  else [.step .stopCheck (secStop sm b1 idx) (some .ctxCheck), .step .ctxCheck (secCtx false idx) (some (.loopTop 0 none)),
        .item (.callItem item o) (slotOf o) o.err.isSome,
        .step (.store (slotOf o) o.err.isSome) (secStore sm idx o) none]

/-- the segments are chained: from `pc` through the `next`s to the end of the task -/
def chained : Option Pc → List TSeg → Prop
  | none, [] => True
  | some pc, .step pc' _ next :: t => pc = pc' ∧ chained next t
  | some (.loopTop 0 none), .item _ r f :: t => chained (some (.store r f)) t
  | _, _ => False

/-- the LTS state after a task's own step, given the new shared data (those of `s'`): the task has finished (`none`: the wrapper's
    deferred `wg.Done()`, the worker back at its `select`) or holds a new program counter -/
def afterStep (s s' : BState) (i : Nat) : Option Pc → BState
  | none => finish { s with slots := s'.slots, shouldStop := s'.shouldStop } i
  | some pc' => setPc s i pc'

/-- what it means for a segment to BE its LTS step: in every LTS state in which task `i` is at the segment's program counter and
    which shows the task what the source saw (the flag `b1` at the stop check, the context at the context check),
    `apply c s (.step i)` is defined, changes `(shouldStop, slots)` exactly as the segment's actions do, and is otherwise the
    move to `next` (`setPc`) or the task's end (`finish`). An item segment hands the LTS a `store` counter of one of its two forms. -/
def SegOK (c : Cfg) (i : Nat) (b1 done : Bool) : TSeg → Prop
  | .step pc acts next =>
    ∀ s : BState, pcOf s i = some pc → (pc = .stopCheck → s.shouldStop = b1) → (pc = .ctxCheck → s.cancelled = done) →
      ∃ s', apply c s (.step i) = some s' ∧
        (s'.shouldStop, s'.slots) = effectL acts (s.shouldStop, s.slots) ∧
        (s'.shouldStop, absSlots s'.slots) = effect acts (s.shouldStop, absSlots s.slots) ∧
        pcOf s' i = next ∧
        s' = afterStep s s' i next
  | .item _ r failed => StoreForm r failed

theorem taskTrace_eq_segs (sm b1 : Bool) (idx : Nat) (item : Result) (ctx : Ctx) (o : ItemOut) :
    taskTrace sm b1 idx item ctx o = (taskSegs sm b1 idx item ctx o).flatMap TSeg.acts := by
  cases h1 : (b1 && sm) <;> cases h2 : ctx.isDone <;> simp [taskTrace, taskSegs, h1, h2, TSeg.acts]

theorem taskSegs_chained (sm b1 : Bool) (idx : Nat) (item : Result) (ctx : Ctx) (o : ItemOut) :
    chained (some .stopCheck) (taskSegs sm b1 idx item ctx o) := by
  cases h1 : (b1 && sm) <;> cases h2 : ctx.isDone <;> simp [taskSegs, h1, h2, chained]

theorem segOK_of_abs {c : Cfg} {i : Nat} {acts : List TAct} {next : Option Pc} {s s' : BState}
    (ha : apply c s (.step i) = some s') (he : (s'.shouldStop, s'.slots) = effectL acts (s.shouldStop, s.slots))
    (hp : pcOf s' i = next)
    (hs : s' = afterStep s s' i next) :
    ∃ s', apply c s (.step i) = some s' ∧
        (s'.shouldStop, s'.slots) = effectL acts (s.shouldStop, s.slots) ∧
        (s'.shouldStop, absSlots s'.slots) = effect acts (s.shouldStop, absSlots s.slots) ∧
        pcOf s' i = next ∧
        s' = afterStep s s' i next := by
  refine ⟨s', ha, he, ?_, hp, hs⟩
  have := effectL_abs acts (s.shouldStop, s.slots)
  rw [← he] at this
  exact this

/-- the stop check of the source is the LTS's step at `stopCheck` -/
theorem segOK_stopCheck (c : Cfg) (i : Nat) (sm b1 done : Bool) (hstop : c.stop = sm) :
    SegOK c i b1 done (.step .stopCheck (secStop sm b1 i) (if b1 && sm then none else some .ctxCheck)) := by
  intro s hpc hb _
  have hb := hb rfl
  subst hstop
  cases hbs : (b1 && c.stop)
  · have hn : ¬ (s.shouldStop = true ∧ c.stop = true) := by rw [hb, ← Bool.and_eq_true, hbs]; simp
    refine segOK_of_abs (s' := setPc s i .ctxCheck) ?_ ?_ (pcOf_setPc s i _ _ hpc) rfl
    · rw [apply_stopCheck c s i hpc, if_neg hn]
    · simp [secStop, hbs, effectL, setPc]
  · have hy : s.shouldStop = true ∧ c.stop = true := by rw [hb, ← Bool.and_eq_true, hbs]
    refine segOK_of_abs (s' := finish { s with slots := setSlot s.slots i stoppedSlot } i) ?_ ?_ (pcOf_finish _ i) rfl
    · rw [apply_stopCheck c s i hpc, if_pos hy]
    · simp [secStop, hbs, effectL, finish]

/-- the context check of the source (test, then — outside `mu` — the slot write) is the LTS's step at `ctxCheck` -/
theorem segOK_ctxCheck (c : Cfg) (i : Nat) (b1 done : Bool) :
    SegOK c i b1 done (.step .ctxCheck (secCtx done i) (if done then none else some (.loopTop 0 none))) := by
  intro s hpc _ hd
  have hd := hd rfl
  cases done
  · refine segOK_of_abs (s' := setPc s i (.loopTop 0 none)) ?_ ?_ (pcOf_setPc s i _ _ hpc) rfl
    · rw [apply_ctxCheck c s i hpc, hd]; rfl
    · simp [secCtx, effectL, setPc]
  · refine segOK_of_abs (s' := finish { s with slots := setSlot s.slots i cancelledSlot } i) ?_ ?_ (pcOf_finish _ i) rfl
    · rw [apply_ctxCheck c s i hpc, hd]; rfl
    · simp [secCtx, effectL, finish]

/-- the second critical section of the source is the LTS's step at `store r failed`, `r` the slot made of the item's outcome,
    `failed` = the error was non-nil: the slot is set, the flag is or-ed with `failed && stop` -/
theorem segOK_store (c : Cfg) (i : Nat) (sm b1 done : Bool) (o : ItemOut) (hstop : c.stop = sm) :
    SegOK c i b1 done (.step (.store (slotOf o) o.err.isSome) (secStore sm i o) none) := by
  intro s hpc _ _
  subst hstop
  refine segOK_of_abs
    (s' := finish { s with slots := setSlot s.slots i (slotOf o), shouldStop := s.shouldStop || (o.err.isSome && c.stop) } i)
    (apply_store c s i _ _ hpc) ?_ (pcOf_finish _ i) rfl
  rcases o with ⟨v, _ | e⟩ <;> cases hs : c.stop <;> simp [secStore, raises, effectL, finish, hs]

/-- the `store` counters the item call hands over: the two forms the LTS's own steps produce (`ret` with an `ok` outcome / the
    fallback's value: `store (slotOfVal x) false`; every failure: `store (newErrorResult e) true`) -/
theorem segOK_item (c : Cfg) (i : Nat) (b1 done : Bool) (a : TAct) (o : ItemOut) :
    SegOK c i b1 done (.item a (slotOf o) o.err.isSome) := by
  rcases o with ⟨v, _ | e⟩
  · exact Or.inl ⟨v, rfl, rfl⟩
  · exact Or.inr ⟨e, rfl, rfl⟩

/-- conversely every `store` counter of those forms is the slot of an item outcome -/
theorem store_forms (r : Result) (failed : Bool) (h : StoreForm r failed) :
    ∃ o : ItemOut, r = slotOf o ∧ failed = o.err.isSome := by
  rcases h with ⟨x, rfl, rfl⟩ | ⟨e, rfl, rfl⟩
  · exact ⟨⟨x, none⟩, rfl, rfl⟩
  · exact ⟨⟨Val.nil, some e⟩, rfl, rfl⟩

theorem taskSegs_ok (c : Cfg) (sm b1 : Bool) (idx : Nat) (item : Result) (ctx : Ctx) (o : ItemOut) (hstop : c.stop = sm) :
    ∀ seg ∈ taskSegs sm b1 idx item ctx o, SegOK c idx b1 ctx.isDone seg := by
  have h1 := segOK_stopCheck c idx sm b1 ctx.isDone hstop
  have h2 := segOK_ctxCheck c idx b1 ctx.isDone
  have h3 := segOK_store c idx sm b1 ctx.isDone o hstop
  have h4 := segOK_item c idx b1 ctx.isDone (.callItem item o) o
  intro seg hseg
  unfold taskSegs at hseg
  cases hbs : (b1 && sm) <;> cases hd : ctx.isDone <;> simp [hbs, hd] at hseg h1 h2 h3 h4 <;>
    (try rcases hseg with rfl | rfl | rfl | rfl) <;> (try rcases hseg with rfl | rfl) <;> (try subst hseg) <;> assumption

/-- **Bridge to the LTS.** The trace of the task closure of item `idx` — for every mode, world and depth ≥ 15 — is the concatenation
    of the segments `taskSegs`, which are chained from `Pc.stopCheck` to the task's end, and each `step` segment is exactly one
    `Label.step idx` of `Model/BatchConc.lean` at its program counter: same effect on `(shouldStop, results)`, same successor
    (`SegOK`), for every configuration `c` whose `stop` is the source's `errorHandling == "stop"`. How the steps of DIFFERENT tasks
    interleave is the LTS's business; this theorem says that each task contributes exactly these steps with these effects. -/
theorem task_labels (c : Cfg) (eh : String) (idx : Nat) (item : Result) (nd : GV) (w : TW) (hh : w.held = false)
    (hi : idx < w.slots.length) (hstop : c.stop = (eh == "stop")) (fuel : Nat) (hf : 15 ≤ fuel) :
    ∃ w', runTask fuel (taskOf Flyt.Expected.IR.runBatchConcurrent) eh idx item nd w = some ([], w') ∧
      let segs := taskSegs (eh == "stop") w.flagAtLock idx item w.ctx w.out
      w'.trace = w.trace ++ segs.flatMap TSeg.acts ∧
      chained (some .stopCheck) segs ∧
      (∀ seg ∈ segs, SegOK c idx w.flagAtLock w.ctx.isDone seg) ∧
      w'.slots = (effect (segs.flatMap TSeg.acts) (w.stop, w.slots)).2 := by
  refine ⟨_, task_closure_refines_of_le eh idx item nd w hh hi fuel hf, ?_, taskSegs_chained .., taskSegs_ok c _ _ _ _ _ _ hstop, ?_⟩
  · rw [taskSem_trace, taskTrace_eq_segs]
  · rw [← taskTrace_eq_segs, effect_taskTrace, taskSem_slots]

end Flyt.Refine.Task
