import FlytModel.Refine.SourceBase
import FlytModel.Props.C05
/-!
# C05 (cancellation stops runs and flows and is reported as such) stated about the INTERPRETED SOURCE

`Props/C05.lean` is about `runNode env fuel root …` for a non-batch root, and about `flowLoop`. Carried over per kind of root:

* **root = a flow**: `runFlowNodeIR fuel Expected.IR.Run env fid start ops mfuel sid st` (`Run_refines_runNode_flow_of_le`) — one theorem
  per headline theorem;
* **root = a plain / function-style node of the arena**: `runLeafIR fuel Expected.IR.Run …` (`Run_refines_runLeaf_of_le`) —
  `C05_done_ctx_…_leaf` and all trace clauses at once, `C05_for_interpreted_Run_on_leaf` (`C05Facts`);
* **`Flow.Exec`**: `flowExecIR fuel Expected.IR.Flow_Exec …` (`FlowExec_refines_flowLoop_ge`) — `done_ctx_no_further_node`.
Batch nodes as root are outside C05 (DESIGN B6; their behaviour under cancellation is C11).

Hypotheses of the model theorems about the run's own trace (`evs = pre ++ c :: post`, `hbatch`, `hok`, `hdiff`) sit inside the
conclusions as implications on the interpreted trace. `out ≠ .fuel` becomes `hne` (the MODEL's fuel suffices; where the model theorem
makes it provable — a context that is already done — it is not asked for). The run state `st'` the flow corollaries speak of is the
world's ghost copy of the model's state (context + visit counters), threaded through the nested calls; for a leaf it is
`stateAfter st id evs ctx'` (the context the interpreter ended with, the visit counter bumped iff a callback ran).

What the source contributes per layer: `Run`'s four `ctx.Err()` checks (before prep, after prep, at the top of each attempt, in the
`select` of the retry wait) and `Flow.Exec`'s check before each node; that a nested call stops in turn is inherited through the world
(`runNode` / `flowLoop` there), as for C04.
-/
set_option autoImplicit false
namespace Flyt.Refine.Source
open Flyt Flyt.GoIR Flyt.Refine Flyt.Proofs

/-! ### (i) context already done -/

/-- **The interpreted `Run` on a flow whose context is already done invokes no user callback, leaves the run state untouched and returns
    the context's own error.** Mirrors `Props.C05.done_ctx_no_callbacks` (flow root). No hypothesis on the model's fuel. -/
theorem C05_done_ctx_no_callbacks_for_interpreted_source (env : Env) (fid : NodeId) (start : Option NodeId) (ops : List ConnOp)
    (mfuel : Nat) (sid : StoreId) (st : RunSt) (harena : env.arena fid = .flow start ops) (k : CtxKind) (hdone : st.ctx = .done k)
    (fuel : Nat) (hf : flowNodeFuel ≤ fuel) :
    runFlowNodeIR fuel Flyt.Expected.IR.Run env fid start ops mfuel sid st = some ([], st, .err (.ctx k)) := by
  have hm := Props.C05.done_ctx_no_callbacks env mfuel fid sid st k hdone (by intro cfg h; rw [harena] at h; cases h)
  rw [Run_refines_runNode_flow_of_le env fid start ops mfuel sid st harena (by rw [hm]; simp) fuel hf, hm]

/-- … the same for the interpreted `Run` on a plain / function-style node of the arena (leaf root of `done_ctx_no_callbacks`) -/
theorem C05_done_ctx_no_callbacks_for_interpreted_Run_on_leaf (env : Env) (id : NodeId) (sid : StoreId) (st : RunSt) (cfg : LeafCfg)
    (k : CtxKind) (hdone : st.ctx = .done k) (fuel : Nat) (hf : runFuel cfg ≤ fuel) :
    runLeafIR fuel Flyt.Expected.IR.Run env.kind id (st.visits id) sid cfg (env.leafBeh id (st.visits id)) st.ctx
      = some ([], .done k, .err (.ctx k)) := by
  rw [Run_refines_runLeaf_of_le env.kind id (st.visits id) sid cfg (env.leafBeh id (st.visits id)) st.ctx fuel hf, hdone]
  rfl

/-- … **and so does the interpreted `Flow.Exec` entered on a done context** ("flow: exec cancelled"): no node is started.
    Mirrors `Props.C05.done_ctx_no_further_node` (at the flow's start node, table `buildTable ops`). -/
theorem C05_done_ctx_no_further_node_for_interpreted_source (env : Env) (fid s : NodeId) (ops : List ConnOp) (mfuel : Nat)
    (sid : StoreId) (st : RunSt) (k : CtxKind) (hdone : st.ctx = .done k) (fuel : Nat) (hf : mfuel + 1 + 40 ≤ fuel) :
    flowExecIR fuel Flyt.Expected.IR.Flow_Exec env fid (some s) ops (mfuel + 1) sid st = some ([], st, .err (.ctx k)) := by
  have hm := Props.C05.done_ctx_no_further_node env mfuel (buildTable ops) s sid st k hdone
  rw [FlowExec_refines_flowLoop_ge env fid s ops (mfuel + 1) sid st fuel hf (by rw [hm]; simp), hm]

/-! ### (ii) nothing new is started after a cancellation — `Run` on a flow -/

/-- **Whatever follows a cancelling event `c` in the trace of the interpreted `Run` on a flow belongs to the same visit of the same node
    as `c` and is that visit's fallback or post callback** (or a further event of that batch node: C11).
    Mirrors `Props.C05.after_cancel_only_same_visit`. -/
theorem C05_after_cancel_only_same_visit_for_interpreted_source (env : Env) (fid : NodeId) (start : Option NodeId) (ops : List ConnOp)
    (mfuel : Nat) (sid : StoreId) (st : RunSt) (harena : env.arena fid = .flow start ops)
    (hne : (runNode env (mfuel + 1) fid sid st).2.2 ≠ .fuel) (fuel : Nat) (hf : flowNodeFuel ≤ fuel) :
    ∃ evs st' out, runFlowNodeIR fuel Flyt.Expected.IR.Run env fid start ops mfuel sid st = some (evs, st', out) ∧
      ∀ (pre post : List Ev) (c : Ev), evs = pre ++ c :: post → cancelsAt env c = true →
        ∀ e ∈ post, Spec.evKey e = Spec.evKey c ∧ (Spec.isFbEv e || Spec.isPostEv e || Spec.isBatchEv e) = true :=
  flowNode_transfer env fid start ops mfuel sid st harena hne fuel hf
    (fun evs _ _ => ∀ (pre post : List Ev) (c : Ev), evs = pre ++ c :: post → cancelsAt env c = true →
        ∀ e ∈ post, Spec.evKey e = Spec.evKey c ∧ (Spec.isFbEv e || Spec.isPostEv e || Spec.isBatchEv e) = true)
    (fun _ _ _ hsplit hc => Props.C05.after_cancel_only_same_visit env (mfuel + 1) fid sid st rfl hne hsplit hc)

/-- … **no exec attempt is started** after the cancellation, and **no other node is touched**.
    Mirrors `Props.C05.after_cancel_no_exec_no_other_node`. -/
theorem C05_after_cancel_no_exec_no_other_node_for_interpreted_source (env : Env) (fid : NodeId) (start : Option NodeId)
    (ops : List ConnOp) (mfuel : Nat) (sid : StoreId) (st : RunSt) (harena : env.arena fid = .flow start ops)
    (hne : (runNode env (mfuel + 1) fid sid st).2.2 ≠ .fuel) (fuel : Nat) (hf : flowNodeFuel ≤ fuel) :
    ∃ evs st' out, runFlowNodeIR fuel Flyt.Expected.IR.Run env fid start ops mfuel sid st = some (evs, st', out) ∧
      ∀ (pre post : List Ev) (c : Ev), evs = pre ++ c :: post → cancelsAt env c = true →
        ∀ e ∈ post, Spec.isExecEv e = false ∧ Spec.isPrepEv e = false ∧ (Spec.evKey e).1 = (Spec.evKey c).1 :=
  flowNode_transfer env fid start ops mfuel sid st harena hne fuel hf
    (fun evs _ _ => ∀ (pre post : List Ev) (c : Ev), evs = pre ++ c :: post → cancelsAt env c = true →
        ∀ e ∈ post, Spec.isExecEv e = false ∧ Spec.isPrepEv e = false ∧ (Spec.evKey e).1 = (Spec.evKey c).1)
    (fun _ _ _ hsplit hc => Props.C05.after_cancel_no_exec_no_other_node env (mfuel + 1) fid sid st rfl hne hsplit hc)

/-! ### (iii) a context error is the context's error; the context's state decides — `Run` on a flow -/

/-- **Whenever the interpreted `Run` on a flow reports a context error `k`, the context is done with exactly that `k` at the end of the
    run**; started on a live context, `k` is the run's own kind and some callback on the path (or an asynchronous cancel during a wait)
    did cancel it; started on a done context it is that context's error. Mirrors `Props.C05.ctx_error_matches_ctx`. -/
theorem C05_ctx_error_matches_ctx_for_interpreted_source (env : Env) (fid : NodeId) (start : Option NodeId) (ops : List ConnOp)
    (mfuel : Nat) (sid : StoreId) (st : RunSt) (harena : env.arena fid = .flow start ops)
    (hne : (runNode env (mfuel + 1) fid sid st).2.2 ≠ .fuel) (fuel : Nat) (hf : flowNodeFuel ≤ fuel) :
    ∃ evs st' out, runFlowNodeIR fuel Flyt.Expected.IR.Run env fid start ops mfuel sid st = some (evs, st', out) ∧
      ∀ k, out = .err (.ctx k) →
        st'.ctx = .done k ∧ (st.ctx = .live → k = env.kind ∧ ∃ e ∈ evs, cancelsAt env e = true) ∧
        (∀ k0, st.ctx = .done k0 → k = k0) :=
  flowNode_transfer env fid start ops mfuel sid st harena hne fuel hf
    (fun evs st' out => ∀ k, out = .err (.ctx k) →
        st'.ctx = .done k ∧ (st.ctx = .live → k = env.kind ∧ ∃ e ∈ evs, cancelsAt env e = true) ∧
        (∀ k0, st.ctx = .done k0 → k = k0))
    (fun _ hk => Props.C05.ctx_error_matches_ctx env (mfuel + 1) fid sid st (Prod.ext rfl (Prod.ext rfl hk)))

/-- **Without any cancellation a live context stays live and no context error is reported; once a callback has cancelled, the context is
    done for the rest of the run.** Mirrors `Props.C05.ctx_after_run`. -/
theorem C05_ctx_after_run_for_interpreted_source (env : Env) (fid : NodeId) (start : Option NodeId) (ops : List ConnOp)
    (mfuel : Nat) (sid : StoreId) (st : RunSt) (harena : env.arena fid = .flow start ops)
    (hne : (runNode env (mfuel + 1) fid sid st).2.2 ≠ .fuel) (hlive : st.ctx = .live) (fuel : Nat) (hf : flowNodeFuel ≤ fuel) :
    ∃ evs st' out, runFlowNodeIR fuel Flyt.Expected.IR.Run env fid start ops mfuel sid st = some (evs, st', out) ∧
      ((∀ e ∈ evs, cancelsAt env e = false) → st'.ctx = .live ∧ ∀ k, out ≠ .err (.ctx k)) ∧
      ((∃ e ∈ evs, cancelsAt env e = true) → st'.ctx = .done env.kind) :=
  flowNode_transfer env fid start ops mfuel sid st harena hne fuel hf
    (fun evs st' out => ((∀ e ∈ evs, cancelsAt env e = false) → st'.ctx = .live ∧ ∀ k, out ≠ .err (.ctx k)) ∧
      ((∃ e ∈ evs, cancelsAt env e = true) → st'.ctx = .done env.kind))
    (Props.C05.ctx_after_run env (mfuel + 1) fid sid st rfl hne hlive)

/-- **A run that reports success was not cut short.** If the interpreted `Run` on a flow, started on a live context, returns an action —
    or merely ends with its context still live — then it is, event for event, visit counter for visit counter, and in its outcome, the
    interpreted `Run` of the same flow in the scenario with every cancellation removed (`clearEnv env`; any sufficient model fuel `mf'`,
    any sufficient depth `fuel'`): nothing was skipped. Mirrors `Props.C05.ok_run_was_not_cut_short`, BOTH runs interpreted. -/
theorem C05_ok_run_was_not_cut_short_for_interpreted_source (env : Env) (fid : NodeId) (start : Option NodeId) (ops : List ConnOp)
    (mfuel : Nat) (sid : StoreId) (st : RunSt) (harena : env.arena fid = .flow start ops)
    (hne : (runNode env (mfuel + 1) fid sid st).2.2 ≠ .fuel) (hlive : st.ctx = .live) (fuel : Nat) (hf : flowNodeFuel ≤ fuel) :
    ∃ evs st' out, runFlowNodeIR fuel Flyt.Expected.IR.Run env fid start ops mfuel sid st = some (evs, st', out) ∧
      ((∀ e ∈ evs, Spec.isBatchEv e = true → cancelsAt env e = false) → ((∃ a, out = .ok a) ∨ st'.ctx = .live) →
        ∃ mf0, ∀ mf', mf0 ≤ mf' → ∀ fuel', flowNodeFuel ≤ fuel' →
          runFlowNodeIR fuel' Flyt.Expected.IR.Run (clearEnv env) fid start ops mf' sid st = some (evs, relive st', out)) := by
  rcases hr : runNode env (mfuel + 1) fid sid st with ⟨evs, st', out⟩
  have hne' : out ≠ .fuel := by rw [hr] at hne; exact hne
  refine ⟨evs, st', out, by rw [Run_refines_runNode_flow_of_le env fid start ops mfuel sid st harena hne fuel hf, hr], ?_⟩
  intro hbatch hok
  obtain ⟨f, hfm⟩ := Props.C05.ok_run_was_not_cut_short env (mfuel + 1) fid sid st hr hne' hlive hbatch hok
  refine ⟨f, fun mf' hmf fuel' hf' => ?_⟩
  have hm := hfm (mf' + 1) (by omega)
  rw [Run_refines_runNode_flow_of_le (clearEnv env) fid start ops mf' sid st harena (by rw [hm]; exact hne') fuel' hf', hm]

/-- … contrapositive, the way the property says it: **a run that is cut short does not report success.** If the interpreted `Run` on a
    flow under cancellation differs in any callback event or in its outcome from the interpreted `Run` of the same scenario without
    cancellation, its outcome is not an action. Mirrors `Props.C05.cut_short_never_ok`, both runs interpreted
    (`hne₀`: the model's fuel `mfuel₀ + 1` suffices for the reference run too). -/
theorem C05_cut_short_never_ok_for_interpreted_source (env : Env) (fid : NodeId) (start : Option NodeId) (ops : List ConnOp)
    (mfuel mfuel₀ : Nat) (sid : StoreId) (st : RunSt) (harena : env.arena fid = .flow start ops)
    (hne : (runNode env (mfuel + 1) fid sid st).2.2 ≠ .fuel) (hne₀ : (runNode (clearEnv env) (mfuel₀ + 1) fid sid st).2.2 ≠ .fuel)
    (hlive : st.ctx = .live) (fuel : Nat) (hf : flowNodeFuel ≤ fuel) (fuel₀ : Nat) (hf₀ : flowNodeFuel ≤ fuel₀) :
    ∃ evs st' out evs₀ st₀ out₀,
      runFlowNodeIR fuel Flyt.Expected.IR.Run env fid start ops mfuel sid st = some (evs, st', out) ∧
      runFlowNodeIR fuel₀ Flyt.Expected.IR.Run (clearEnv env) fid start ops mfuel₀ sid st = some (evs₀, st₀, out₀) ∧
      ((∀ e ∈ evs, Spec.isBatchEv e = true → cancelsAt env e = false) → (evs ≠ evs₀ ∨ out ≠ out₀) → ∀ a, out ≠ .ok a) :=
  ⟨_, _, _, _, _, _, Run_refines_runNode_flow_of_le env fid start ops mfuel sid st harena hne fuel hf,
    Run_refines_runNode_flow_of_le (clearEnv env) fid start ops mfuel₀ sid st harena hne₀ fuel₀ hf₀,
    fun hbatch hdiff => Props.C05.cut_short_never_ok env (mfuel + 1) (mfuel₀ + 1) fid sid st rfl hne rfl hne₀ hlive hbatch hdiff⟩

/-! ### root = a plain / function-style node: all trace clauses at once -/

/-- the trace clauses of `Props/C05.lean` about one run from state `st` with trace `evs`, final state `st'` and outcome `out` -/
structure C05Facts (env : Env) (st : RunSt) (evs : List Ev) (st' : RunSt) (out : Outcome) : Prop where
  /-- `Props.C05.after_cancel_only_same_visit` -/
  after_cancel_only_same_visit : ∀ (pre post : List Ev) (c : Ev), evs = pre ++ c :: post → cancelsAt env c = true →
    ∀ e ∈ post, Spec.evKey e = Spec.evKey c ∧ (Spec.isFbEv e || Spec.isPostEv e || Spec.isBatchEv e) = true
  /-- `Props.C05.after_cancel_no_exec_no_other_node` -/
  after_cancel_no_exec_no_other_node : ∀ (pre post : List Ev) (c : Ev), evs = pre ++ c :: post → cancelsAt env c = true →
    ∀ e ∈ post, Spec.isExecEv e = false ∧ Spec.isPrepEv e = false ∧ (Spec.evKey e).1 = (Spec.evKey c).1
  /-- `Props.C05.ctx_error_matches_ctx` -/
  ctx_error_matches_ctx : ∀ k, out = .err (.ctx k) →
    st'.ctx = .done k ∧ (st.ctx = .live → k = env.kind ∧ ∃ e ∈ evs, cancelsAt env e = true) ∧ (∀ k0, st.ctx = .done k0 → k = k0)
  /-- `Props.C05.ctx_after_run` -/
  ctx_after_run : st.ctx = .live →
    ((∀ e ∈ evs, cancelsAt env e = false) → st'.ctx = .live ∧ ∀ k, out ≠ .err (.ctx k)) ∧
    ((∃ e ∈ evs, cancelsAt env e = true) → st'.ctx = .done env.kind)

/-- the model theorems, bundled -/
theorem c05Facts_of_runNode (env : Env) (fuel : Nat) (root : NodeId) (sid : StoreId) (st : RunSt)
    (hfuel : (runNode env fuel root sid st).2.2 ≠ .fuel) :
    C05Facts env st (runNode env fuel root sid st).1 (runNode env fuel root sid st).2.1 (runNode env fuel root sid st).2.2 where
  after_cancel_only_same_visit _ _ _ hsplit hc := Props.C05.after_cancel_only_same_visit env fuel root sid st rfl hfuel hsplit hc
  after_cancel_no_exec_no_other_node _ _ _ hsplit hc :=
    Props.C05.after_cancel_no_exec_no_other_node env fuel root sid st rfl hfuel hsplit hc
  ctx_error_matches_ctx _ hk := Props.C05.ctx_error_matches_ctx env fuel root sid st (Prod.ext rfl (Prod.ext rfl hk))
  ctx_after_run hlive := Props.C05.ctx_after_run env fuel root sid st rfl hfuel hlive

/-- **C05 for the interpreted `Run` on a plain / function-style node of the arena**: after a cancelling callback (or an interrupted retry
    wait) only this visit's fallback / post follow — no further exec attempt; a context error reported is the context's; the context
    afterwards is live iff nothing cancelled. `Props/C05.lean` at a leaf root; the final state is `stateAfter st id evs ctx'`. -/
theorem C05_for_interpreted_Run_on_leaf (env : Env) (id : NodeId) (sid : StoreId) (st : RunSt) (cfg : LeafCfg)
    (harena : env.arena id = .leaf cfg) (fuel : Nat) (hf : runFuel cfg ≤ fuel) :
    ∃ evs ctx' out,
      runLeafIR fuel Flyt.Expected.IR.Run env.kind id (st.visits id) sid cfg (env.leafBeh id (st.visits id)) st.ctx
        = some (evs, ctx', out) ∧ C05Facts env st evs (stateAfter st id evs ctx') out :=
  arena_leaf_transfer env 0 id sid st cfg harena fuel hf (fun evs st' out => C05Facts env st evs st' out)
    (c05Facts_of_runNode env 1 id sid st (runNode_leaf_ne_fuel env 0 id sid st cfg harena))

/-! ### non-vacuity: the cancellation scenarios of `Proofs/ExampleEnv.lean`, `Run` on the root flow by the interpreter -/

-- `Ex.envCancel`: node 4 (inside the nested flow 2) cancels the context in post; the run is cut short with the context's error
example : ∃ evs st', runFlowNodeIR 43 Flyt.Expected.IR.Run Ex.envCancel 0 (some 1)
      [⟨1, "a", some 2⟩, ⟨2, "y", some 1⟩, ⟨2, "y", some 3⟩, ⟨3, "again", some 1⟩, ⟨3, "again", none⟩, ⟨3, "loop", some 3⟩]
      9 7 Ex.st0 = some (evs, st', .err (.ctx .canceled)) ∧ evs.length = 6 ∧
      evs.getLast? = some (.post 4 0 7 (.tok 1) (.tok 2)) ∧ cancelsAt Ex.envCancel (.post 4 0 7 (.tok 1) (.tok 2)) = true := by
  have hne : (runNode Ex.envCancel (9 + 1) 0 7 Ex.st0).2.2 ≠ .fuel := by decide
  refine ⟨(runNode Ex.envCancel (9 + 1) 0 7 Ex.st0).1, (runNode Ex.envCancel (9 + 1) 0 7 Ex.st0).2.1, ?_, by decide, by decide, by decide⟩
  rw [Run_refines_runNode_flow_of_le Ex.envCancel 0 _ _ 9 7 Ex.st0 rfl hne 43 (by decide)]
  exact congrArg some (Prod.ext rfl (Prod.ext rfl (by decide)))

-- a done context: nothing runs
example : runFlowNodeIR 43 Flyt.Expected.IR.Run Ex.env1 0 (some 1)
      [⟨1, "a", some 2⟩, ⟨2, "y", some 1⟩, ⟨2, "y", some 3⟩, ⟨3, "again", some 1⟩, ⟨3, "again", none⟩, ⟨3, "loop", some 3⟩]
      9 7 Ex.stDone = some ([], Ex.stDone, .err (.ctx .deadline)) :=
  C05_done_ctx_no_callbacks_for_interpreted_source Ex.env1 0 _ _ 9 7 Ex.stDone rfl .deadline rfl 43 (by decide)

/-!
## Carried over / not carried over

Carried over:
* subject `runNode` on a flow (`Run_refines_runNode_flow_of_le`): `done_ctx_no_callbacks`, `after_cancel_only_same_visit`,
  `after_cancel_no_exec_no_other_node`, `ctx_error_matches_ctx`, `ctx_after_run`, `ok_run_was_not_cut_short` and `cut_short_never_ok`
  (both with the reference run interpreted as well);
* subject `runNode` on a leaf (`Run_refines_runLeaf_of_le`): `done_ctx_no_callbacks`, and the four trace clauses bundled as `C05Facts`;
* subject `flowLoop` (`FlowExec_refines_flowLoop_ge`): `done_ctx_no_further_node`.

Not carried over:
* `ok_run_was_not_cut_short` / `cut_short_never_ok` at a leaf root — the statements hold (instantiate the model theorems and
  `Run_refines_runLeaf_of_le` on `clearLeaf` of the script); omitted only for length;
* the trace clauses for `flowLoop` — `Props/C05.lean` states them for `runNode` only;
* `spec_c05` — bridge to the driver's executable predicate `Spec.c05`.
-/

end Flyt.Refine.Source
