import FlytModel.GoIR.Worlds
import FlytModel.Expected.IR
/-!
# `runExecWithRetries` (translated Go source) refines `runItem` (hand-written model)

For every configuration, script, item and context, the definitional interpreter run on the machine translation of
`runExecWithRetries` (batch.go) in the item world yields exactly what the model's `runItem` yields: the same callback
events with the same data, the same context afterwards, the same slot / error.
-/
open Flyt Flyt.GoIR
namespace Flyt.Refine
namespace Item

/-! ### `fmt.Errorf` formats: `containsW` on the literals of this function

`String.splitOn` is defined by well-founded recursion, which the kernel does not unfold; a fuel-recursive copy is
evaluated instead and shown to agree. -/

/-- fuel-recursive copy of `String.splitOnAux` -/
def auxF : Nat → String → String → String.Pos.Raw → String.Pos.Raw → String.Pos.Raw → List String → Option (List String)
  | 0, _, _, _, _, _, _ => none
  | f + 1, s, sep, b, i, j, r =>
    if i.atEnd s then some ((b.extract s i :: r).reverse)
    else if i.get s == j.get sep then
      if (j.next sep).atEnd sep then
        auxF f s sep (i.next s) (i.next s) 0 (b.extract s ((i.next s).unoffsetBy (j.next sep)) :: r)
      else auxF f s sep b (i.next s) (j.next sep) r
    else auxF f s sep b ((i.unoffsetBy j).next s) 0 r

theorem auxF_eq : ∀ (f : Nat) (s sep : String) (b i j : String.Pos.Raw) (r l : List String),
    auxF f s sep b i j r = some l → String.splitOnAux s sep b i j r = l := by
  intro f
  induction f with
  | zero => intro s sep b i j r l h; simp [auxF] at h
  | succ f ih =>
    intro s sep b i j r l h
    rw [String.splitOnAux]
    simp only [auxF] at h
    split at h
    · simp_all
    · rename_i h1
      simp only [h1]
      split at h
      · rename_i h2
        simp only [h2]
        split at h
        · rename_i h3
          simp only [h3]
          exact ih _ _ _ _ _ _ _ h
        · rename_i h3
          simp only [h3]
          exact ih _ _ _ _ _ _ _ h
      · rename_i h2
        simp only [h2]
        exact ih _ _ _ _ _ _ _ h

theorem containsW_wait : containsW "context cancelled during wait: %w" = true := by
  have h := auxF_eq 60 "context cancelled during wait: %w" "%w" 0 0 0 [] _
    (by decide : _ = some ["context cancelled during wait: ", ""])
  simp [containsW, String.splitOn, h]

theorem containsW_retry : containsW "context cancelled during retry: %w" = true := by
  have h := auxF_eq 60 "context cancelled during retry: %w" "%w" 0 0 0 [] _
    (by decide : _ = some ["context cancelled during retry: ", ""])
  simp [containsW, String.splitOn, h]

/-! ### the pieces of the function body -/

def loopCond : Expr := .bin "<" (.var "attempt") (.var "maxRetries")
def loopPost : Block := B[(.incr "attempt")]
def ctxCheckS : Stmt :=
  .ifS B[] (.bin "!=" (.mcall (.var "ctx") "Err" E[]) (.var "nil")) B[
    (.ret E[(.var "nil"), (.call "fmt.Errorf" E[(.str "context cancelled during retry: %w"), (.mcall (.var "ctx") "Err" E[])])])] B[]
def waitS : Stmt :=
  .ifS B[] (.bin "&&" (.bin ">" (.var "attempt") (.int 0)) (.bin ">" (.var "wait") (.int 0))) B[
    (.selectS (Cases.ofList [
      ((.un "<-" (.call "time.After" E[(.var "wait")])), B[]),
      ((.un "<-" (.mcall (.var "ctx") "Done" E[])), B[
        (.ret E[(.var "nil"), (.call "fmt.Errorf" E[(.str "context cancelled during wait: %w"), (.mcall (.var "ctx") "Err" E[])])])])]))] B[]
def execAssignS : Stmt :=
  .assign E[(.var "execResult"), (.var "execErr")] E[(.mcall (.var "node") "Exec" E[(.var "ctx"), (.var "item")])]
def brkS : Stmt := .ifS B[] (.bin "==" (.var "execErr") (.var "nil")) B[.brk] B[]
def loopBody : Block := .cons ctxCheckS (.cons waitS (.cons execAssignS (.cons brkS .nil)))
def forStmt : Stmt := .forS B[(.define ["attempt"] E[(.int 0)])] loopCond loopPost loopBody
def suffix : Block := B[
  (.ifS B[] (.bin "!=" (.var "execErr") (.var "nil")) B[
    (.ifS B[(.define ["fallback", "ok"] E[(.assert (.var "node") "FallbackNode")])] (.var "ok") B[
      (.ret E[(.mcall (.var "fallback") "ExecFallback" E[(.var "item"), (.var "execErr")])])] B[]),
    (.ret E[(.var "nil"), (.var "execErr")])] B[]),
  (.ret E[(.var "execResult"), (.var "nil")])]

def s1 : Stmt := .define ["maxRetries"] E[(.int 1)]
def s2 : Stmt := .define ["wait"] E[(.int 0)]
def s3 : Stmt :=
  .ifS B[(.define ["retryable", "ok"] E[(.assert (.var "node") "RetryableNode")])] (.var "ok") B[
    (.assign E[(.var "maxRetries")] E[(.mcall (.var "retryable") "GetMaxRetries" E[])]),
    (.assign E[(.var "wait")] E[(.mcall (.var "retryable") "GetWait" E[])])] B[]
def s4 : Stmt := .declare "execResult" "any"
def s5 : Stmt := .declare "execErr" "error"

/-- the translated body is these pieces put together (checked by `rfl`: nothing is restated by hand) -/
theorem body_eq : Flyt.Expected.IR.runExecWithRetries.body =
    .cons s1 (.cons s2 (.cons s3 (.cons s4 (.cons s5 (.cons forStmt suffix))))) := rfl


/-! ### generic interpreter facts -/

theorem toVal_ofVal (x : Val) : (GV.ofVal x).toVal = x := by
  cases x <;> simp [GV.ofVal, Val.asResult?, GV.toVal, Result.box]

section
variable {Ω : Type} (W : World Ω)

theorem execBlock_cons (f : Nat) (s : Stmt) (rest : Block) (st : St Ω) :
    execBlock W (f + 1) (.cons s rest) st =
      (match execStmt W f s st with
       | some (.next, st1) => execBlock W f rest st1
       | r => r) := by
  rw [execBlock]
  try rfl

theorem execBlock_nil (f : Nat) (st : St Ω) : execBlock W (f + 1) .nil st = some (.next, st) := by
  rw [execBlock]

theorem loopFor_succ (f : Nat) (cond : Expr) (post body : Block) (st : St Ω) :
    loopFor W (f + 1) cond post body st =
      (match evalExpr W f cond st with
       | some ([.bool false], st1) => some (.next, st1)
       | some ([.bool true], st1) =>
         (match execBlock W f body st1 with
          | some (.brk, st2) => some (.next, popSt st2 st1.env.length)
          | some (.ret vs, st2) => some (.ret vs, popSt st2 st1.env.length)
          | some (_, st2) =>
            (match execBlock W f post (popSt st2 st1.env.length) with
             | some (.next, st3) => loopFor W f cond post body st3
             | _ => none)
          | none => none)
       | _ => none) := by
  rw [loopFor]
  try rfl
end

/-! ### the item world, operation by operation -/

section
variable (kind : CtxKind) (n : NodeId) (v : Nat) (cfg : BatchCfg) (i : Nat) (item : Result) (scr : ItemScript)

local notation "W" => itemWorld kind n v cfg i scr

theorem W_assert_retryable (m : NodeId) (w : LeafW) :
    (W).assert (.node m) "RetryableNode" w = some (.node m, true) := rfl
theorem W_assert_fallback (m : NodeId) (w : LeafW) :
    (W).assert (.node m) "FallbackNode" w = some (.node m, cfg.fb != .absent) := rfl
theorem W_getMaxRetries (m : NodeId) (h : Heap) (w : LeafW) :
    (W).mcall (.node m) "GetMaxRetries" [] h w = some ([.int cfg.budget], h, w) := rfl
theorem W_getWait (m : NodeId) (h : Heap) (w : LeafW) :
    (W).mcall (.node m) "GetWait" [] h w = some ([.int cfg.wait], h, w) := rfl
theorem W_ctxErr (c : Nat) (h : Heap) (w : LeafW) :
    (W).mcall (.ref "ctx" c) "Err" [] h w = some ([ctxErrGV w.ctx], h, w) := rfl
theorem W_ctxDone (c : Nat) (h : Heap) (w : LeafW) :
    (W).mcall (.ref "ctx" c) "Done" [] h w = some ([.ref "done" 0], h, w) := rfl
theorem W_timeAfter (d : Int) (h : Heap) (w : LeafW) :
    (W).call "time.After" [.int d] h w = some ([.ref "timer" d.toNat], h, w) := rfl
theorem W_select (d c : Nat) (w : LeafW) :
    (W).select [.ref "timer" d, .ref "done" c] w =
      (match w.ctx with
       | .done _ => some (1, w)
       | .live =>
         if scr.waitCancel w.execCalls then
           some (1, { w with evs := w.evs ++ [.bwait n v i w.execCalls d false], ctx := .done kind })
         else some (0, { w with evs := w.evs ++ [.bwait n v i w.execCalls d true] })) := rfl
theorem W_exec (m : NodeId) (a it : GV) (h : Heap) (w : LeafW) :
    (W).mcall (.node m) "Exec" [a, it] h w =
      (match cfg.execS with
       | .absent => some ([.nil, .nil], h, w)
       | s =>
         match (scr.exec w.execCalls).res with
         | .ok x => some ([GV.ofVal (execRet s x), .nil], h,
             { w with evs := w.evs ++ [.bexec n v i w.execCalls (execArg s it.toVal)],
                      ctx := w.ctx.after kind (scr.exec w.execCalls).cancels, execCalls := w.execCalls + 1 })
         | .error e => some ([.nil, .err (.user e)], h,
             { w with evs := w.evs ++ [.bexec n v i w.execCalls (execArg s it.toVal)],
                      ctx := w.ctx.after kind (scr.exec w.execCalls).cancels, execCalls := w.execCalls + 1 })) := by
  cases hS : cfg.execS <;> simp [itemWorld, hS] <;> cases (scr.exec w.execCalls).res <;> rfl
theorem W_fallback (m : NodeId) (it : GV) (e : ErrRoot) (h : Heap) (w : LeafW) :
    (W).mcall (.node m) "ExecFallback" [it, .err e] h w =
      (match cfg.fb with
       | .absent => none
       | .passThrough => some ([.nil, .err e], h, w)
       | .custom =>
         match scr.fb.res with
         | .ok x => some ([GV.ofVal x, .nil], h,
             { w with evs := w.evs ++ [.bfb n v i it.toVal e], ctx := w.ctx.after kind scr.fb.cancels })
         | .error e' => some ([.nil, .err (.user e')], h,
             { w with evs := w.evs ++ [.bfb n v i it.toVal e], ctx := w.ctx.after kind scr.fb.cancels })) := by
  cases hS : cfg.fb <;> simp [itemWorld, hS] <;> cases scr.fb.res <;> rfl

end

/-! ### environments along the function -/

/-- the locals after the loop (and before it, with `execErr = nil`, `execResult = any(nil)`) -/
def envS (n : NodeId) (cfg : BatchCfg) (item : Result) (eerr eres : GV) : GoIR.Env :=
  [("execErr", eerr), ("execResult", eres), ("wait", .int cfg.wait), ("maxRetries", .int cfg.budget),
   ("item", .result item), ("node", .node n), ("ctx", ctxH)]

/-- the locals inside the loop -/
def envL (n : NodeId) (cfg : BatchCfg) (item : Result) (k : Nat) (eerr eres : GV) : GoIR.Env :=
  ("attempt", .int k) :: envS n cfg item eerr eres

/-- `execErr` as a Go value -/
def lastGV : Option Nat → GV
  | none => .nil
  | some e => .err (.user e)

theorem fb_pass_ne : (FbKind.passThrough != FbKind.absent) = true := by decide
theorem fb_custom_ne : (FbKind.custom != FbKind.absent) = true := by decide

/-- symbolic execution of straight-line code -/
macro "gosimp" "[" ts:Lean.Parser.Tactic.simpLemma,* "]" : tactic =>
  `(tactic| simp [execBlock_cons, execBlock_nil, execStmt, evalRhs, isCommaOk, evalCommaOk, evalExpr, evalArgs, evalGuards,
      nthBody, Cases.ofList, GoIR.Env.get, GoIR.Env.set, GoIR.Env.push, GoIR.Env.pushAll, popSt, GoIR.Env.popTo, assignAll, assignTo,
      Exprs.toList, Exprs.length, zeroOf, intBin, GV.eqv, GV.isNil, errorf, ctxErrGV, ctxH, envL, envS, lastGV,
      W_assert_retryable, W_assert_fallback, W_getMaxRetries, W_getWait, W_ctxErr, W_ctxDone, W_timeAfter, W_select,
      W_exec, W_fallback, fb_pass_ne, fb_custom_ne, containsW_wait, containsW_retry, $ts,*])

section
variable (kind : CtxKind) (n : NodeId) (v : Nat) (cfg : BatchCfg) (i : Nat) (item : Result) (scr : ItemScript)

local notation "W" => itemWorld kind n v cfg i scr

/-- statements 1–5: retry settings and the two result variables -/
theorem prefix_spec (f : Nat) (rest : Block) (w : LeafW) :
    execBlock W (f + 20) (.cons s1 (.cons s2 (.cons s3 (.cons s4 (.cons s5 rest)))))
        ⟨[("item", .result item), ("node", .node n), ("ctx", ctxH)], [], w⟩
      = execBlock W (f + 15) rest ⟨envS n cfg item .nil (.val Val.nil), [], w⟩ := by
  gosimp [s1, s2, s3, s4, s5]


theorem cond_spec (f k : Nat) (eerr eres : GV) (h : Heap) (w : LeafW) :
    evalExpr W (f + 4) loopCond ⟨envL n cfg item k eerr eres, h, w⟩
      = some ([.bool (decide (k < cfg.budget))], ⟨envL n cfg item k eerr eres, h, w⟩) := by
  gosimp [loopCond]

theorem post_spec (f k : Nat) (eerr eres : GV) (h : Heap) (w : LeafW) :
    execBlock W (f + 4) loopPost ⟨envL n cfg item k eerr eres, h, w⟩
      = some (.next, ⟨envL n cfg item (k + 1) eerr eres, h, w⟩) := by
  gosimp [loopPost]

theorem popSt_envL (k : Nat) (eerr eres : GV) (h : Heap) (w : LeafW) (k' : Nat) (a b : GV) :
    popSt (⟨envL n cfg item k eerr eres, h, w⟩ : St LeafW) (envL n cfg item k' a b).length
      = ⟨envL n cfg item k eerr eres, h, w⟩ := by
  simp [popSt, GoIR.Env.popTo, envL, envS]

theorem ctxCheck_live (f k : Nat) (eerr eres : GV) (h : Heap) (evs : List Ev) (c : Nat) :
    execStmt W (f + 14) ctxCheckS ⟨envL n cfg item k eerr eres, h, ⟨evs, .live, c⟩⟩
      = some (.next, ⟨envL n cfg item k eerr eres, h, ⟨evs, .live, c⟩⟩) := by
  gosimp [ctxCheckS]

theorem ctxCheck_done (f k : Nat) (eerr eres : GV) (h : Heap) (evs : List Ev) (kd : CtxKind) (c : Nat) :
    execStmt W (f + 14) ctxCheckS ⟨envL n cfg item k eerr eres, h, ⟨evs, .done kd, c⟩⟩
      = some (.ret [.nil, .err (.ctx kd)], ⟨envL n cfg item k eerr eres, h, ⟨evs, .done kd, c⟩⟩) := by
  gosimp [ctxCheckS]

theorem wait_spec (f k : Nat) (eerr eres : GV) (h : Heap) (evs : List Ev) :
    execStmt W (f + 14) waitS ⟨envL n cfg item k eerr eres, h, ⟨evs, .live, k⟩⟩
      = if k > 0 ∧ cfg.wait > 0 ∧ scr.waitCancel k then
          some (.ret [.nil, .err (.ctx kind)],
            ⟨envL n cfg item k eerr eres, h, ⟨evs ++ [.bwait n v i k cfg.wait false], .done kind, k⟩⟩)
        else
          some (.next, ⟨envL n cfg item k eerr eres, h,
            ⟨evs ++ (if k > 0 ∧ cfg.wait > 0 then [.bwait n v i k cfg.wait true] else []), .live, k⟩⟩) := by
  rcases Nat.eq_zero_or_pos k with hk | hk
  · subst hk; gosimp [waitS]
  · have hk' : (0 : Int) < (k : Int) := by omega
    rcases Nat.eq_zero_or_pos cfg.wait with hw | hw
    · gosimp [waitS, hk, hk', hw]
    · have hw' : (0 : Int) < (cfg.wait : Int) := by omega
      cases hc : scr.waitCancel k <;> gosimp [waitS, hk, hk', hw, hw', hc]


theorem exec_absent (hS : cfg.execS = .absent) (f k : Nat) (eerr eres : GV) (h : Heap) (w : LeafW) :
    execStmt W (f + 14) execAssignS ⟨envL n cfg item k eerr eres, h, w⟩
      = some (.next, ⟨envL n cfg item k .nil .nil, h, w⟩) := by
  gosimp [execAssignS, hS]

theorem exec_ok (hS : cfg.execS ≠ .absent) (f k : Nat) (eerr eres : GV) (h : Heap) (evs : List Ev) (ctx : Ctx) (c : Nat)
    (x : Val) (hx : (scr.exec c).res = .ok x) :
    execStmt W (f + 14) execAssignS ⟨envL n cfg item k eerr eres, h, ⟨evs, ctx, c⟩⟩
      = some (.next, ⟨envL n cfg item k .nil (GV.ofVal (execRet cfg.execS x)), h,
          ⟨evs ++ [.bexec n v i c (execArg cfg.execS item.box)], ctx.after kind (scr.exec c).cancels, c + 1⟩⟩) := by
  cases hS' : cfg.execS <;> first | exact absurd hS' hS | gosimp [execAssignS, hS', hx, GV.toVal]

theorem exec_err (hS : cfg.execS ≠ .absent) (f k : Nat) (eerr eres : GV) (h : Heap) (evs : List Ev) (ctx : Ctx) (c : Nat)
    (e : Nat) (hx : (scr.exec c).res = .error e) :
    execStmt W (f + 14) execAssignS ⟨envL n cfg item k eerr eres, h, ⟨evs, ctx, c⟩⟩
      = some (.next, ⟨envL n cfg item k (.err (.user e)) .nil, h,
          ⟨evs ++ [.bexec n v i c (execArg cfg.execS item.box)], ctx.after kind (scr.exec c).cancels, c + 1⟩⟩) := by
  cases hS' : cfg.execS <;> first | exact absurd hS' hS | gosimp [execAssignS, hS', hx, GV.toVal]

theorem brk_nil (f k : Nat) (eres : GV) (h : Heap) (w : LeafW) :
    execStmt W (f + 14) brkS ⟨envL n cfg item k .nil eres, h, w⟩
      = some (.brk, ⟨envL n cfg item k .nil eres, h, w⟩) := by
  gosimp [brkS]

theorem brk_err (f k : Nat) (e : ErrRoot) (eres : GV) (h : Heap) (w : LeafW) :
    execStmt W (f + 14) brkS ⟨envL n cfg item k (.err e) eres, h, w⟩
      = some (.next, ⟨envL n cfg item k (.err e) eres, h, w⟩) := by
  gosimp [brkS]

/-! ### the retry loop -/

theorem loopBody_unfold (f : Nat) (st : St LeafW) :
    execBlock W f loopBody st
      = execBlock W f (.cons ctxCheckS (.cons waitS (.cons execAssignS (.cons brkS .nil)))) st := rfl

/-- what the loop statement leaves behind, for each way the model's `attempts` can end -/
def LoopPost (n : NodeId) (cfg : BatchCfg) (item : Result) (evs0 : List Ev) (res : List Ev × Ctx × AttemptRes)
    (out : Option (Ctl × St LeafW)) : Prop :=
  match res with
  | (aev, ctx', .ok x) =>
    ∃ k' r' c', out = some (.next, ⟨envL n cfg item k' .nil r', [], ⟨evs0 ++ aev, ctx', c'⟩⟩) ∧ r'.toVal = x
  | (aev, ctx', .failed e) =>
    ∃ k' r' c', out = some (.next, ⟨envL n cfg item k' (.err (.user e)) r', [], ⟨evs0 ++ aev, ctx', c'⟩⟩)
  | (aev, ctx', .cancelled kd) =>
    ∃ k' a' r' c', out = some (.ret [.nil, .err (.ctx kd)], ⟨envL n cfg item k' a' r', [], ⟨evs0 ++ aev, ctx', c'⟩⟩)

theorem loop_spec (d : Nat) : ∀ (rem k : Nat), k + rem = cfg.budget → ∀ (last : Option Nat) (r : GV), r.toVal = Val.nil →
    ∀ (evs0 : List Ev) (ctx : Ctx),
    LoopPost n cfg item evs0
      (attempts kind (fun k => .bexec n v i k (execArg cfg.execS item.box)) (fun k f => .bwait n v i k cfg.wait f)
        scr.exec scr.waitCancel cfg.execS cfg.wait k rem last ctx)
      (loopFor W (rem + d + 20) loopCond loopPost loopBody ⟨envL n cfg item k (lastGV last) r, [], ⟨evs0, ctx, k⟩⟩) := by
  intro rem
  induction rem with
  | zero =>
    intro k hk last r hr evs0 ctx
    have hkb : ¬ k < cfg.budget := by omega
    rw [show 0 + d + 20 = (d + 19) + 1 by omega, loopFor_succ, cond_spec]
    cases last <;> simp [hkb, attempts, LoopPost, lastGV]
    · exact ⟨_, _, rfl, hr⟩
    · exact ⟨_, _, rfl⟩
  | succ rem ih =>
    intro k hk last r hr evs0 ctx
    have hkb : k < cfg.budget := by omega
    rw [show rem + 1 + d + 20 = (rem + d + 20) + 1 by omega, loopFor_succ, cond_spec]
    cases ctx with
    | done kd =>
      simp [hkb, loopBody_unfold, execBlock_cons, ctxCheck_done, popSt_envL, LoopPost, attempts]
      exact ⟨_, _, _, rfl⟩
    | live =>
      simp only [attempts]
      by_cases hc : k > 0 ∧ cfg.wait > 0 ∧ scr.waitCancel k = true
      · simp [hc, hkb, loopBody_unfold, execBlock_cons, ctxCheck_live, wait_spec, popSt_envL, LoopPost]
        exact ⟨_, _, _, rfl⟩
      · simp only [if_neg hc]
        rcases hS' : cfg.execS with _ | _ | _ | _
        · simp [hc, hkb, loopBody_unfold, execBlock_cons, ctxCheck_live, wait_spec, popSt_envL, LoopPost,
            exec_absent kind n v cfg i item scr hS', brk_nil]
          exact ⟨_, _, rfl, rfl⟩
        all_goals
          have hS : cfg.execS ≠ .absent := by simp [hS']
          cases hx : (scr.exec k).res with
          | ok x =>
            simp [hc, hkb, loopBody_unfold, execBlock_cons, ctxCheck_live, wait_spec, popSt_envL, LoopPost,
              exec_ok kind n v cfg i item scr hS _ _ _ _ _ _ _ _ x hx, brk_nil, hS']
            exact ⟨_, _, rfl, toVal_ofVal _⟩
          | error e =>
            simp [hc, hkb, loopBody_unfold, execBlock_cons, execBlock_nil, ctxCheck_live, wait_spec, popSt_envL,
              exec_err kind n v cfg i item scr hS _ _ _ _ _ _ _ _ e hx, brk_err, post_spec, hS']
            have h := ih (k + 1) (by omega) (some e) .nil rfl
              (evs0 ++ ((if 0 < k ∧ 0 < cfg.wait then [Ev.bwait n v i k cfg.wait true] else []) ++
                  [Ev.bexec n v i k (execArg cfg.execS item.box)]))
              (Ctx.live.after kind (scr.exec k).cancels)
            simp only [lastGV, hS'] at h
            generalize attempts _ _ _ _ _ _ _ (k + 1) rem (some e) _ = X at h ⊢
            obtain ⟨aev, c, ar⟩ := X
            cases ar <;> simp only [LoopPost] at h ⊢
            · obtain ⟨k', r', c', h1, h2⟩ := h
              exact ⟨k', r', c', by rw [h1]; simp, h2⟩
            · obtain ⟨k', r', c', h1⟩ := h
              exact ⟨k', r', c', by rw [h1]; simp⟩
            · obtain ⟨k', a', r', c', h1⟩ := h
              exact ⟨k', a', r', c', by rw [h1]; simp⟩


/-! ### the `for` statement and what follows it -/

theorem for_spec (f : Nat) (eerr eres : GV) (h : Heap) (w : LeafW) :
    execStmt W (f + 4) forStmt ⟨envS n cfg item eerr eres, h, w⟩
      = (loopFor W (f + 3) loopCond loopPost loopBody ⟨envL n cfg item 0 eerr eres, h, w⟩).map
          fun (c, st2) => (c, popSt st2 7) := by
  gosimp [forStmt]

theorem popSt_envL_7 (k : Nat) (eerr eres : GV) (h : Heap) (w : LeafW) :
    popSt (⟨envL n cfg item k eerr eres, h, w⟩ : St LeafW) 7 = ⟨envS n cfg item eerr eres, h, w⟩ := by
  simp [popSt, GoIR.Env.popTo, envL, envS]

theorem suffix_ok (f : Nat) (eres : GV) (h : Heap) (w : LeafW) :
    execBlock W (f + 14) suffix ⟨envS n cfg item .nil eres, h, w⟩
      = some (.ret [eres, .nil], ⟨envS n cfg item .nil eres, h, w⟩) := by
  gosimp [suffix]

theorem suffix_absent (hfb : cfg.fb = .absent) (f : Nat) (e : ErrRoot) (eres : GV) (h : Heap) (w : LeafW) :
    execBlock W (f + 14) suffix ⟨envS n cfg item (.err e) eres, h, w⟩
      = some (.ret [.nil, .err e], ⟨envS n cfg item (.err e) eres, h, w⟩) := by
  gosimp [suffix, hfb]

theorem suffix_pass (hfb : cfg.fb = .passThrough) (f : Nat) (e : ErrRoot) (eres : GV) (h : Heap) (w : LeafW) :
    execBlock W (f + 14) suffix ⟨envS n cfg item (.err e) eres, h, w⟩
      = some (.ret [.nil, .err e], ⟨envS n cfg item (.err e) eres, h, w⟩) := by
  gosimp [suffix, hfb]

theorem suffix_custom_ok (hfb : cfg.fb = .custom) (x : Val) (hx : scr.fb.res = .ok x) (f : Nat) (e : ErrRoot) (eres : GV)
    (h : Heap) (evs : List Ev) (ctx : Ctx) (c : Nat) :
    execBlock W (f + 14) suffix ⟨envS n cfg item (.err e) eres, h, ⟨evs, ctx, c⟩⟩
      = some (.ret [GV.ofVal x, .nil], ⟨envS n cfg item (.err e) eres, h,
          ⟨evs ++ [.bfb n v i item.box e], ctx.after kind scr.fb.cancels, c⟩⟩) := by
  gosimp [suffix, hfb, hx, GV.toVal]

theorem suffix_custom_err (hfb : cfg.fb = .custom) (e' : Nat) (hx : scr.fb.res = .error e') (f : Nat) (e : ErrRoot) (eres : GV)
    (h : Heap) (evs : List Ev) (ctx : Ctx) (c : Nat) :
    execBlock W (f + 14) suffix ⟨envS n cfg item (.err e) eres, h, ⟨evs, ctx, c⟩⟩
      = some (.ret [.nil, .err (.user e')], ⟨envS n cfg item (.err e) eres, h,
          ⟨evs ++ [.bfb n v i item.box e], ctx.after kind scr.fb.cancels, c⟩⟩) := by
  gosimp [suffix, hfb, hx, GV.toVal]


/-! ### the whole function -/

theorem run_add (d : Nat) (ctx : Ctx) :
    runItemIR (cfg.budget + d + 30) Flyt.Expected.IR.runExecWithRetries kind n v cfg i item scr ctx
      = some (runItem kind n v cfg i item scr ctx) := by
  have hl := loop_spec kind n v cfg i item scr (d + 3) cfg.budget 0 (by omega) none (.val Val.nil) rfl [] ctx
  unfold runItemIR callFunc
  rw [body_eq]
  simp only [Flyt.Expected.IR.runExecWithRetries]
  simp only [GoIR.Env.pushAll, GoIR.Env.push, beq_self_eq_true, if_true, List.nil_append, String.reduceBEq, Bool.false_eq_true,
    if_false]
  rw [show cfg.budget + d + 30 = (cfg.budget + d + 10) + 20 by omega, prefix_spec,
    show cfg.budget + d + 10 + 15 = (cfg.budget + d + 20 + 4) + 1 by omega, execBlock_cons, for_spec,
    show cfg.budget + d + 20 + 4 = cfg.budget + d + 24 by omega,
    show cfg.budget + d + 20 + 3 = cfg.budget + (d + 3) + 20 by omega]
  simp only [lastGV] at hl
  unfold runItem
  generalize attempts _ _ _ _ _ _ _ 0 cfg.budget none ctx = X at hl ⊢
  obtain ⟨aev, ctx1, ar⟩ := X
  cases ar <;> simp only [LoopPost] at hl
  · obtain ⟨k', r', c', h1, h2⟩ := hl
    rw [h1]
    simp [popSt_envL_7, suffix_ok, itemResOf, fallbackPhase, h2]
  · rename_i e
    obtain ⟨k', r', c', h1⟩ := hl
    rw [h1]
    cases hfb : cfg.fb with
    | absent =>
      simp [popSt_envL_7, suffix_absent kind n v cfg i item scr hfb, itemResOf, fallbackPhase]
    | passThrough =>
      simp [popSt_envL_7, suffix_pass kind n v cfg i item scr hfb, itemResOf, fallbackPhase]
    | custom =>
      cases hx : scr.fb.res with
      | ok x =>
        simp [popSt_envL_7, suffix_custom_ok kind n v cfg i item scr hfb x hx, itemResOf, fallbackPhase, hx, toVal_ofVal]
      | error e' =>
        simp [popSt_envL_7, suffix_custom_err kind n v cfg i item scr hfb e' hx, itemResOf, fallbackPhase, hx]
  · obtain ⟨k', a', r', c', h1⟩ := hl
    rw [h1]
    simp [popSt_envL_7, itemResOf, fallbackPhase]

end
end Item

/-- fuel (recursion depth of the interpreter) that suffices: one level per loop iteration plus a constant -/
def itemFuel (cfg : BatchCfg) : Nat := cfg.budget + 30

/-- The translated `runExecWithRetries`, run by the definitional interpreter in the item world, computes exactly the
    model's `runItem` — for every configuration (any exec style, any fallback kind), script, item and context, and for
    every fuel from `itemFuel cfg` on. -/
theorem runExecWithRetries_refines_runItem_of_le (kind : CtxKind) (n : NodeId) (v : Nat) (cfg : BatchCfg) (i : Nat)
    (item : Result) (scr : ItemScript) (ctx : Ctx) (fuel : Nat) (hf : itemFuel cfg ≤ fuel) :
    GoIR.runItemIR fuel Flyt.Expected.IR.runExecWithRetries kind n v cfg i item scr ctx
      = some (runItem kind n v cfg i item scr ctx) := by
  obtain ⟨d, rfl⟩ := Nat.exists_eq_add_of_le hf
  rw [show itemFuel cfg + d = cfg.budget + d + 30 by unfold itemFuel; omega]
  exact Item.run_add kind n v cfg i item scr d ctx

theorem runExecWithRetries_refines_runItem (kind : CtxKind) (n : NodeId) (v : Nat) (cfg : BatchCfg) (i : Nat)
    (item : Result) (scr : ItemScript) (ctx : Ctx) :
    GoIR.runItemIR (itemFuel cfg) Flyt.Expected.IR.runExecWithRetries kind n v cfg i item scr ctx
      = some (runItem kind n v cfg i item scr ctx) :=
  runExecWithRetries_refines_runItem_of_le kind n v cfg i item scr ctx (itemFuel cfg) (Nat.le_refl _)

end Flyt.Refine

